import Noodles.Io.LoopsProof
import Noodles.Io.Lines
/-!
# The FASTA sequence reader on well-formed sequence lines (proofs for C12, part 2)

`sequence::Reader::fill_buf` decides three things on WHATEVER window the inner `fill_buf` returns:
a CR or LF at the start of the window is an empty line, a `>` at the start of the window ends the
sequence, a CR at the end of the window's first line is a line terminator. On a sequence block whose
lines are well formed (`wfSeq`: a `>` only at the start of a line, a CR only before an LF or at the
very end) every one of these decisions comes out the same wherever the windows end, and
`read_sequence` computes `specSeq` of the stream: all bytes other than CR and LF up to the next `>`.
-/
namespace Noodles.IO

/-- what `read_sequence` makes of a well-formed sequence block: (the bases, the stream from the next
definition on) -/
def specSeq : Bytes → Bytes × Bytes
  | [] => ([], [])
  | c :: r =>
    if c == CR || c == LF then specSeq r
    else if c == GT then ([], c :: r)
    else (c :: (specSeq r).1, (specSeq r).2)

/-- well-formed sequence lines, up to the next definition: a `>` is the first byte of a line (and
ends the block), a CR is followed by an LF or by nothing. `prev` is the byte before. -/
def wfSeq : UInt8 → Bytes → Bool
  | _, [] => true
  | prev, c :: r => if c == GT then prev == LF else (prev != CR || c == LF) && wfSeq c r

/-- neither a line terminator nor the definition prefix -/
def plain (c : UInt8) : Bool := !(c == CR || c == LF || c == GT)

def isEol (c : UInt8) : Bool := c == CR || c == LF

/-! ## list facts -/

theorem specSeq_eols (pre ys : Bytes) (h : pre.all isEol = true) : specSeq (pre ++ ys) = specSeq ys := by
  induction pre with
  | nil => rfl
  | cons c r ih =>
    simp only [List.all_cons, Bool.and_eq_true] at h
    have hc : (c == CR || c == LF) = true := h.1
    simp only [List.cons_append, specSeq, hc, if_true]
    exact ih h.2

theorem specSeq_plain (bs ys : Bytes) (h : bs.all plain = true) :
    specSeq (bs ++ ys) = (bs ++ (specSeq ys).1, (specSeq ys).2) := by
  induction bs with
  | nil => rfl
  | cons c r ih =>
    simp only [List.all_cons, Bool.and_eq_true] at h
    have hc := h.1
    simp only [plain, Bool.not_eq_true', Bool.or_eq_false_iff] at hc
    have h1 : (c == CR || c == LF) = false := by simp [hc.1.1, hc.1.2]
    simp only [List.cons_append, specSeq, h1, hc.2, Bool.false_eq_true, if_false]
    rw [ih h.2]

theorem specSeq_gt (r : Bytes) : specSeq (GT :: r) = ([], GT :: r) := by
  simp [specSeq, GT, CR, LF]

/-- dropping bytes that are not `>` keeps the rest well formed (relative to some previous byte) -/
theorem wfSeq_drop (pre ys : Bytes) (prev : UInt8) (hp : pre.all (fun c => !(c == GT)) = true)
    (h : wfSeq prev (pre ++ ys) = true) : ∃ prev', wfSeq prev' ys = true := by
  induction pre generalizing prev with
  | nil => exact ⟨prev, h⟩
  | cons c r ih =>
    simp only [List.all_cons, Bool.and_eq_true, Bool.not_eq_true'] at hp
    simp only [List.cons_append, wfSeq, hp.1, Bool.false_eq_true, if_false, Bool.and_eq_true] at h
    exact ih c (by simpa using hp.2) h.2

theorem all_notGt_of_eols (pre : Bytes) (h : pre.all isEol = true) :
    pre.all (fun c => !(c == GT)) = true := by
  rw [List.all_eq_true] at h ⊢
  intro c hc
  have := h c hc
  simp only [isEol, Bool.or_eq_true, beq_iff_eq] at this
  rcases this with rfl | rfl <;> decide

theorem all_notGt_of_plain (bs : Bytes) (h : bs.all plain = true) :
    bs.all (fun c => !(c == GT)) = true := by
  rw [List.all_eq_true] at h ⊢
  intro c hc
  have := h c hc
  simp only [plain, Bool.not_eq_true', Bool.or_eq_false_iff] at this
  simp [this.2]

theorem stripCr_cons_cons (c d : UInt8) (t : Bytes) : stripCr (c :: d :: t) = c :: stripCr (d :: t) := by
  simp only [stripCr, List.getLast?_cons_cons]
  split <;> simp [List.dropLast]

theorem lineOf_prefix (w : Bytes) : ∃ t, w = lineOf w ++ t := by
  induction w with
  | nil => exact ⟨[], rfl⟩
  | cons c r ih =>
    simp only [lineOf]
    by_cases h : (c == LF) = true
    · rw [if_pos h]; exact ⟨c :: r, rfl⟩
    · rw [if_neg h]
      obtain ⟨t, ht⟩ := ih
      exact ⟨t, by rw [List.cons_append, ← ht]⟩

theorem stripCr_prefix (l : Bytes) : ∃ t, l = stripCr l ++ t := by
  unfold stripCr
  split
  · rename_i h
    have hne : l ≠ [] := by intro h'; rw [h'] at h; simp at h
    exact ⟨[l.getLast hne], (List.dropLast_concat_getLast hne).symm⟩
  · exact ⟨[], by simp⟩

theorem stripCr_singleton (c : UInt8) (h : (c == CR) = false) : stripCr [c] = [c] := by
  have hne : c ≠ CR := by simpa using h
  simp [stripCr, hne]

theorem stripCr_pair_cr (c : UInt8) : stripCr [c, CR] = [c] := by
  simp [stripCr]

/-- **The window lemma.** In a well-formed block, the part of a window that the sequence reader hands
out — the window's first line without a trailing CR — consists of plain bytes only, wherever the
window ends. -/
theorem window_plain (w ys : Bytes) (prev c : UInt8) (r : Bytes) (hw : w = c :: r)
    (hc : plain c = true) (h : wfSeq prev (w ++ ys) = true) :
    (stripCr (lineOf w)).all plain = true ∧ stripCr (lineOf w) ≠ [] := by
  subst hw
  induction r generalizing prev c with
  | nil =>
    have hc' := hc
    simp only [plain, Bool.not_eq_true', Bool.or_eq_false_iff] at hc'
    have h1 : lineOf [c] = [c] := by simp [lineOf, hc'.1.2]
    rw [h1, stripCr_singleton c hc'.1.1]
    exact ⟨by simp [hc], by simp⟩
  | cons d t ih =>
    have hc' := hc
    simp only [plain, Bool.not_eq_true', Bool.or_eq_false_iff] at hc'
    obtain ⟨⟨hcCR, hcLF⟩, hcGT⟩ := hc'
    simp only [List.cons_append, wfSeq, hcGT, Bool.false_eq_true, if_false, Bool.and_eq_true] at h
    obtain ⟨_, h⟩ := h
    -- `h : (if d == GT then c == LF else (c != CR || d == LF) && wfSeq d (t ++ ys)) = true`
    have hl0 : lineOf (c :: d :: t) = c :: lineOf (d :: t) := by simp [lineOf, hcLF]
    by_cases hdGT : (d == GT) = true
    · rw [if_pos hdGT] at h; rw [hcLF] at h; cases h
    · rw [if_neg hdGT, Bool.and_eq_true] at h
      obtain ⟨_, hwf⟩ := h
      by_cases hdLF : (d == LF) = true
      · have : lineOf (d :: t) = [] := by simp [lineOf, hdLF]
        rw [hl0, this]
        rw [stripCr_singleton c hcCR]
        exact ⟨by simp [hc], by simp⟩
      · by_cases hdCR : (d == CR) = true
        · -- a CR: what follows in the stream is an LF or nothing, so the line ends here
          have hd : d = CR := by simpa using hdCR
          have hlt : lineOf t = [] := by
            cases t with
            | nil => rfl
            | cons e t' =>
              simp only [List.cons_append, wfSeq] at hwf
              by_cases heGT : (e == GT) = true
              · rw [if_pos heGT] at hwf; rw [hd] at hwf; exact absurd hwf (by decide)
              · rw [if_neg heGT, Bool.and_eq_true] at hwf
                have := hwf.1
                rw [hd] at this
                have heLF : (e == LF) = true := by simpa using this
                simp [lineOf, heLF]
          have : lineOf (d :: t) = [d] := by simp [lineOf, hdLF, hlt]
          rw [hl0, this, hd]
          rw [stripCr_pair_cr]
          exact ⟨by simp [hc], by simp⟩
        · -- a plain byte: go on
          have hdp : plain d = true := by
            simp only [plain, Bool.not_eq_true', Bool.or_eq_false_iff]
            exact ⟨⟨by simpa using hdCR, by simpa using hdLF⟩, by simpa using hdGT⟩
          have hwf' : wfSeq c ((d :: t) ++ ys) = true := by
            simp only [List.cons_append, wfSeq, hdGT, Bool.false_eq_true, if_false, Bool.and_eq_true]
            exact ⟨by simp [bne, hcCR], hwf⟩
          obtain ⟨i1, i2⟩ := ih c d hdp hwf'
          have hl1 : lineOf (d :: t) = d :: lineOf t := by
            simp only [lineOf]; rw [if_neg hdLF]
          rw [hl0, hl1, stripCr_cons_cons]
          rw [hl1] at i1
          exact ⟨by simp [hc, i1], by simp⟩


/-! ## the reader -/

/-- `ys` is `xs` without a leading run of CR / LF bytes -/
def Strip (xs ys : Bytes) : Prop := ∃ pre, xs = pre ++ ys ∧ pre.all isEol = true

theorem Strip.refl (xs : Bytes) : Strip xs xs := ⟨[], rfl, rfl⟩

theorem Strip.of_eq {xs ys : Bytes} (h : ys = xs) : Strip xs ys := by rw [h]; exact Strip.refl _

theorem Strip.trans {xs ys zs : Bytes} (h1 : Strip xs ys) (h2 : Strip ys zs) : Strip xs zs := by
  obtain ⟨p1, e1, a1⟩ := h1
  obtain ⟨p2, e2, a2⟩ := h2
  exact ⟨p1 ++ p2, by rw [e1, e2, List.append_assoc], by simp [List.all_append, a1, a2]⟩

theorem Strip.cons {x : UInt8} {ys : Bytes} (hx : isEol x = true) : Strip (x :: ys) ys :=
  ⟨[x], rfl, by simp [hx]⟩

theorem Strip.specSeq {xs ys : Bytes} (h : Strip xs ys) : specSeq xs = specSeq ys := by
  obtain ⟨pre, e, a⟩ := h
  rw [e, specSeq_eols pre ys a]

theorem Strip.wf {xs ys : Bytes} (h : Strip xs ys) (prev : UInt8) (hw : wfSeq prev xs = true) :
    ∃ prev', wfSeq prev' ys = true := by
  obtain ⟨pre, e, a⟩ := h
  rw [e] at hw
  exact wfSeq_drop pre ys prev (all_notGt_of_eols pre a) hw

theorem Strip.length {xs ys : Bytes} (h : Strip xs ys) : ys.length ≤ xs.length := by
  obtain ⟨pre, e, _⟩ := h
  rw [e]; simp

/-- one `fill_buf` of the `BufReader`: interrupted, or a window that is a prefix of the stream -/
theorem fillBuf_peek (b : BufR UInt8) (hc : 0 < b.cap) :
    (∃ b1, fillBuf b = (.interrupted, b1) ∧ b1.stream = b.stream ∧ b1.cap = b.cap ∧ mu b1 < mu b) ∨
    (∃ w b1, fillBuf b = (.ok w, b1) ∧ b1.stream = b.stream ∧ b1.cap = b.cap ∧ mu b1 ≤ mu b ∧
      b1.buf = w ∧ w.head? = b.stream.head? ∧ (w = [] → b.stream = [])) := by
  rcases fillBuf_cases b hc with ⟨b', hfb, hst, hcap, hmu⟩ | ⟨w, b', hfb, hbuf, hst, hcap, hsc, hnil⟩
  · left; exact ⟨b', hfb, hst, hcap, hmu⟩
  · right
    refine ⟨w, b', hfb, hst, hcap, ?_, hbuf, ?_, hnil⟩
    · simp only [mu, hst]; omega
    · have hstream : b.stream = w ++ b'.src.data := by rw [← hst, BufR.stream, hbuf]
      rw [hstream]
      symm
      apply head?_append_window
      intro hw
      have := hnil hw
      rw [hstream, hw] at this
      simpa using this

/-- `consume(1)` of a byte that is in the buffer -/
theorem consume_one (b : BufR UInt8) (x : UInt8) (h : b.buf.head? = some x) :
    b.stream = x :: (consume 1 b).stream ∧ (consume 1 b).cap = b.cap ∧ mu (consume 1 b) + 1 = mu b := by
  cases hb : b.buf with
  | nil => rw [hb] at h; simp at h
  | cons y r =>
    rw [hb] at h
    simp only [List.head?_cons, Option.some.injEq] at h
    subst h
    refine ⟨by simp [BufR.stream, consume, hb], rfl, ?_⟩
    simp only [mu, BufR.stream, consume, hb, List.drop_succ_cons, List.drop_zero, List.length_append,
      List.length_cons]
    omega

/-- **`consume_empty_lines`** strips a run of CR / LF bytes; it ends either interrupted (with
strictly less left to do) or at a byte that is neither. -/
theorem consumeEmptyLines_spec (fuel : Nat) (b : BufR UInt8) (hc : 0 < b.cap)
    (hf : b.stream.length < fuel) :
    Strip b.stream (consumeEmptyLines fuel b).2.stream ∧ (consumeEmptyLines fuel b).2.cap = b.cap ∧
    (((consumeEmptyLines fuel b).1 = .error .interrupted ∧ mu (consumeEmptyLines fuel b).2 < mu b) ∨
     ((consumeEmptyLines fuel b).1 = .ok () ∧ mu (consumeEmptyLines fuel b).2 ≤ mu b ∧
       (consumeEmptyLines fuel b).2.stream.head? ≠ some CR ∧
       (consumeEmptyLines fuel b).2.stream.head? ≠ some LF)) := by
  induction fuel generalizing b with
  | zero => omega
  | succ fuel ih =>
    rcases fillBuf_peek b hc with ⟨b1, hfb, hst, hcap, hmu⟩ | ⟨w1, b1, hfb, hst1, hcap1, hmu1, hbuf1, hhd1, _⟩
    · simp only [consumeEmptyLines, hfb]
      exact ⟨Strip.of_eq hst, hcap, Or.inl ⟨by first | rfl | trivial, hmu⟩⟩
    · simp only [consumeEmptyLines, hfb]
      -- the CR step
      have hstep1 : ∃ b2, (if (w1.head? == some CR) = true then consume 1 b1 else b1) = b2 ∧
          b2.cap = b.cap ∧ mu b2 ≤ mu b ∧ Strip b.stream b2.stream ∧
          ((w1.head? == some CR) = true → mu b2 < mu b ∧ b2.stream.length < b.stream.length) ∧
          ((w1.head? == some CR) = false → b2.stream = b.stream ∧ b.stream.head? ≠ some CR) := by
        by_cases hcr : (w1.head? == some CR) = true
        · rw [if_pos hcr]
          have hh : b1.buf.head? = some CR := by rw [hbuf1]; simpa using hcr
          obtain ⟨e1, e2, e3⟩ := consume_one b1 CR hh
          refine ⟨_, rfl, by rw [e2, hcap1], by omega, ?_, ?_, ?_⟩
          · rw [← hst1, e1]; exact Strip.cons (by decide)
          · intro _
            refine ⟨by omega, ?_⟩
            rw [← hst1, e1]; simp
          · intro h; rw [h] at hcr; cases hcr
        · rw [if_neg hcr]
          refine ⟨_, rfl, hcap1, hmu1, Strip.of_eq hst1, ?_, ?_⟩
          · intro h; exact absurd h hcr
          · intro _
            refine ⟨hst1, ?_⟩
            rw [← hhd1]
            intro h; rw [h] at hcr; simp at hcr
      obtain ⟨b2, hb2, hcap2, hmu2, hs2, hyes2, hno2⟩ := hstep1
      rw [hb2]
      rcases fillBuf_peek b2 (by omega) with ⟨b3, hfb3, hst3, hcap3, hmu3⟩ | ⟨w2, b3, hfb3, hst3, hcap3, hmu3, hbuf3, hhd3, _⟩
      · simp only [hfb3]
        exact ⟨hs2.trans (Strip.of_eq hst3), by rw [hcap3, hcap2], Or.inl ⟨by first | rfl | trivial, by omega⟩⟩
      · simp only [hfb3]
        -- the LF step
        have hstep2 : ∃ b4, (if (w2.head? == some LF) = true then consume 1 b3 else b3) = b4 ∧
            b4.cap = b.cap ∧ mu b4 ≤ mu b2 ∧ Strip b2.stream b4.stream ∧
            ((w2.head? == some LF) = true → mu b4 < mu b2 ∧ b4.stream.length < b2.stream.length) ∧
            ((w2.head? == some LF) = false → b4.stream = b2.stream ∧ b2.stream.head? ≠ some LF) := by
          by_cases hlf : (w2.head? == some LF) = true
          · rw [if_pos hlf]
            have hh : b3.buf.head? = some LF := by rw [hbuf3]; simpa using hlf
            obtain ⟨e1, e2, e3⟩ := consume_one b3 LF hh
            refine ⟨_, rfl, by rw [e2, hcap3, hcap2], by omega, ?_, ?_, ?_⟩
            · rw [← hst3, e1]; exact Strip.cons (by decide)
            · intro _
              refine ⟨by omega, ?_⟩
              rw [← hst3, e1]; simp
            · intro h; rw [h] at hlf; cases hlf
          · rw [if_neg hlf]
            refine ⟨_, rfl, by rw [hcap3, hcap2], hmu3, Strip.of_eq hst3, ?_, ?_⟩
            · intro h; exact absurd h hlf
            · intro _
              refine ⟨hst3, ?_⟩
              rw [← hhd3]
              intro h; rw [h] at hlf; simp at hlf
        obtain ⟨b4, hb4, hcap4, hmu4, hs4, hyes4, hno4⟩ := hstep2
        rw [hb4]
        by_cases hany : (w1.head? == some CR || w2.head? == some LF) = true
        · rw [if_pos hany]
          have hlen4 : b4.stream.length < b.stream.length := by
            have l2 := hs2.length
            have l4 := hs4.length
            rcases Bool.or_eq_true _ _ |>.mp hany with h | h
            · have := (hyes2 h).2; omega
            · have := (hyes4 h).2; omega
          have hmu4' : mu b4 < mu b := by
            rcases Bool.or_eq_true _ _ |>.mp hany with h | h
            · have := (hyes2 h).1; omega
            · have := (hyes4 h).1; omega
          obtain ⟨i1, i2, i3⟩ := ih b4 (by omega) (by omega)
          refine ⟨(hs2.trans hs4).trans i1, by rw [i2, hcap4], ?_⟩
          rcases i3 with ⟨j1, j2⟩ | ⟨j1, j2, j3, j4⟩
          · exact Or.inl ⟨j1, by omega⟩
          · exact Or.inr ⟨j1, by omega, j3, j4⟩
        · rw [if_neg hany]
          have hcr : (w1.head? == some CR) = false := by
            cases h : (w1.head? == some CR) <;> simp [h] at hany ⊢
          have hlf : (w2.head? == some LF) = false := by
            cases h : (w2.head? == some LF) <;> simp [h] at hany ⊢
          obtain ⟨q1, q2⟩ := hno2 hcr
          obtain ⟨q3, q4⟩ := hno4 hlf
          refine ⟨hs2.trans hs4, hcap4, Or.inr ⟨by first | rfl | trivial, by simp only; omega, ?_, ?_⟩⟩
          · rw [q3, q1]; exact q2
          · rw [q3]; exact q4


/-- **`sequence::Reader::fill_buf`**: interrupted (with strictly less left to do), or — after a run of
CR / LF bytes — nothing at the end of the stream or before a `>`, or the first line (without a
trailing CR) of a window that starts with a plain byte. -/
theorem seqFillBuf_spec (b : BufR UInt8) (hc : 0 < b.cap) :
    Strip b.stream (seqFillBuf b).2.stream ∧ (seqFillBuf b).2.cap = b.cap ∧
    (((seqFillBuf b).1 = .error .interrupted ∧ mu (seqFillBuf b).2 < mu b) ∨
     ((seqFillBuf b).1 = .ok [] ∧ mu (seqFillBuf b).2 ≤ mu b ∧
        ((seqFillBuf b).2.stream = [] ∨ (seqFillBuf b).2.stream.head? = some GT)) ∨
     (∃ c t rest, (seqFillBuf b).2.buf = c :: t ∧ (seqFillBuf b).2.stream = (c :: t) ++ rest ∧
        plain c = true ∧ (seqFillBuf b).1 = .ok (stripCr (lineOf (c :: t))) ∧
        mu (seqFillBuf b).2 ≤ mu b)) := by
  obtain ⟨s1, c1, r1⟩ := consumeEmptyLines_spec b.fuel b hc (by simp [BufR.fuel]; omega)
  unfold seqFillBuf
  rcases e : consumeEmptyLines b.fuel b with ⟨res, b1⟩
  rw [e] at s1 c1 r1
  simp only at s1 c1 r1
  rcases r1 with ⟨j1, j2⟩ | ⟨j1, j2, j3, j4⟩
  · subst j1
    exact ⟨s1, c1, Or.inl ⟨rfl, j2⟩⟩
  · subst j1
    simp only
    rcases fillBuf_peek b1 (by omega) with ⟨b2, hfb, hst, hcap, hmu⟩ | ⟨w, b2, hfb, hst, hcap, hmu, hbuf, hhd, hnil⟩
    · simp only [hfb]
      exact ⟨s1.trans (Strip.of_eq hst), by rw [hcap, c1], Or.inl ⟨by first | rfl | trivial, by omega⟩⟩
    · simp only [hfb]
      by_cases hend : (w.length = 0 || w.head? == some GT) = true
      · rw [if_pos hend]
        refine ⟨s1.trans (Strip.of_eq hst), by rw [hcap, c1], Or.inr (Or.inl ⟨by first | rfl | trivial, by first | omega | (simp only; omega), ?_⟩)⟩
        simp only [Bool.or_eq_true, decide_eq_true_eq, beq_iff_eq] at hend
        rcases hend with h | h
        · left; rw [hst]; exact hnil (List.eq_nil_of_length_eq_zero h)
        · right; rw [hst, ← hhd]; exact h
      · rw [if_neg hend]
        simp only [Bool.or_eq_true, decide_eq_true_eq, beq_iff_eq, not_or] at hend
        obtain ⟨hne, hgt⟩ := hend
        cases hw : w with
        | nil => rw [hw] at hne; simp at hne
        | cons c t =>
          have hstream : b2.stream = (c :: t) ++ b2.src.data := by rw [BufR.stream, hbuf, hw]
          have hhead : b1.stream.head? = some c := by rw [← hhd, hw]; rfl
          have hpl : plain c = true := by
            simp only [plain, Bool.not_eq_true', Bool.or_eq_false_iff, beq_eq_false_iff_ne, ne_eq]
            refine ⟨⟨?_, ?_⟩, ?_⟩
            · intro h; rw [h] at hhead; exact j3 hhead
            · intro h; rw [h] at hhead; exact j4 hhead
            · intro h; rw [hw, h] at hgt; simp at hgt
          refine ⟨s1.trans (Strip.of_eq hst), by rw [hcap, c1], Or.inr (Or.inr ⟨c, t, b2.src.data, ?_, hstream, hpl, by first | rfl | trivial, by first | omega | (simp only; omega)⟩)⟩
          rw [hbuf, hw]

/-- `consume(n)` of bytes that are in the buffer -/
theorem consume_prefix (b : BufR UInt8) (pre t rest : Bytes) (hb : b.buf = pre ++ t)
    (hs : b.stream = (pre ++ t) ++ rest) (hne : pre ≠ []) :
    (consume pre.length b).stream = t ++ rest ∧ (consume pre.length b).cap = b.cap ∧
    mu (consume pre.length b) < mu b := by
  have h1 : (consume pre.length b).stream = b.stream.drop pre.length :=
    consume_stream b pre.length (by rw [hb]; simp)
  have h2 : b.stream.drop pre.length = t ++ rest := by
    rw [hs, List.append_assoc, List.drop_left]
  refine ⟨by rw [h1, h2], rfl, ?_⟩
  have hl : 0 < pre.length := List.length_pos_iff.mpr hne
  have : (consume pre.length b).src = b.src := rfl
  simp only [mu, h1, h2, this]
  rw [hs]
  simp only [List.length_append]
  omega

/-- **`sequence::Reader::read`** on a well-formed block: interrupted, end of the sequence, or a
non-empty run of plain bytes off the front of what is left (after CR / LF bytes) — in every case
`specSeq` of the stream is accounted for. -/
theorem seqRead_spec (want : Option Nat) (b : BufR UInt8) (hc : 0 < b.cap) (prev : UInt8)
    (hwf : wfSeq prev b.stream = true) :
    (seqRead want b).2.cap = b.cap ∧ (∃ prev', wfSeq prev' (seqRead want b).2.stream = true) ∧
    (((seqRead want b).1 = .error .interrupted ∧ mu (seqRead want b).2 < mu b ∧
        specSeq (seqRead want b).2.stream = specSeq b.stream) ∨
     ((seqRead want b).1 = .ok [] ∧ specSeq b.stream = ([], (seqRead want b).2.stream)) ∨
     (∃ bs, bs ≠ [] ∧ (seqRead want b).1 = .ok bs ∧ mu (seqRead want b).2 < mu b ∧
        specSeq b.stream = (bs ++ (specSeq (seqRead want b).2.stream).1,
          (specSeq (seqRead want b).2.stream).2))) := by
  obtain ⟨s1, c1, r1⟩ := seqFillBuf_spec b hc
  unfold seqRead
  rcases e : seqFillBuf b with ⟨res, b1⟩
  rw [e] at s1 c1 r1
  simp only at s1 c1 r1
  obtain ⟨prev1, hwf1⟩ := s1.wf prev hwf
  rcases r1 with ⟨j1, j2⟩ | ⟨j1, j2, j3⟩ | ⟨c, t, rest, k1, k2, k3, k4, k5⟩
  · subst j1
    exact ⟨c1, ⟨prev1, hwf1⟩, Or.inl ⟨rfl, j2, s1.specSeq.symm⟩⟩
  · subst j1
    simp only
    have hz : seqAmt want ([] : Bytes).length = 0 := by cases want <;> simp [seqAmt]
    rw [hz]
    have hcons : consume 0 b1 = b1 := by simp [consume]
    rw [hcons]
    refine ⟨c1, ⟨prev1, hwf1⟩, Or.inr (Or.inl ⟨by simp, ?_⟩)⟩
    rw [s1.specSeq]
    rcases j3 with h | h
    · rw [h]; rfl
    · cases hs : b1.stream with
      | nil => rfl
      | cons x xs =>
        rw [hs] at h
        simp only [List.head?_cons, Option.some.injEq] at h
        rw [h]; exact specSeq_gt xs
  · subst k4
    simp only
    -- the window's first line, all plain
    have hwin := window_plain (c :: t) rest prev1 c t rfl k3 (by rw [← k2]; exact hwf1)
    obtain ⟨hall, hne⟩ := hwin
    obtain ⟨t1, ht1⟩ := lineOf_prefix (c :: t)
    obtain ⟨t2, ht2⟩ := stripCr_prefix (lineOf (c :: t))
    -- what is copied out
    let line := stripCr (lineOf (c :: t))
    let amt := seqAmt want line.length
    have hamt1 : 1 ≤ amt := by
      have : 0 < line.length := List.length_pos_iff.mpr hne
      show 1 ≤ seqAmt want line.length
      cases want <;> simp only [seqAmt] <;> omega
    have hamt2 : amt ≤ line.length := by
      show seqAmt want line.length ≤ line.length
      cases want <;> simp only [seqAmt] <;> omega
    have hsplit : line = line.take amt ++ line.drop amt := (List.take_append_drop amt line).symm
    have hbuf : b1.buf = line.take amt ++ (line.drop amt ++ t2 ++ t1) := by
      rw [k1, ht1, ht2]
      show line ++ t2 ++ t1 = _
      calc line ++ t2 ++ t1 = (line.take amt ++ line.drop amt) ++ t2 ++ t1 := by
            rw [List.take_append_drop]
        _ = _ := by simp only [List.append_assoc]
    have hstr : b1.stream = (line.take amt ++ (line.drop amt ++ t2 ++ t1)) ++ rest := by
      rw [k2, ← k1, hbuf]
    have hpre_ne : line.take amt ≠ [] := by
      intro h
      have : (line.take amt).length = 0 := by rw [h]; rfl
      rw [List.length_take] at this
      omega
    have hlen : (line.take amt).length = amt := by rw [List.length_take]; omega
    obtain ⟨q1, q2, q3⟩ := consume_prefix b1 (line.take amt) (line.drop amt ++ t2 ++ t1) rest hbuf hstr hpre_ne
    rw [hlen] at q1 q2 q3
    have hplain : (line.take amt).all plain = true := by
      rw [List.all_eq_true] at hall ⊢
      intro x hx
      exact hall x (List.mem_of_mem_take hx)
    have hspec : specSeq b1.stream = (line.take amt ++ (specSeq (consume amt b1).stream).1,
        (specSeq (consume amt b1).stream).2) := by
      rw [hstr, q1, List.append_assoc]
      exact specSeq_plain _ _ hplain
    obtain ⟨prev2, hwf2⟩ := wfSeq_drop (line.take amt) ((line.drop amt ++ t2 ++ t1) ++ rest) prev1
      (all_notGt_of_plain _ hplain) (by rw [← List.append_assoc, ← hstr]; exact hwf1)
    refine ⟨by show (consume amt b1).cap = b.cap; rw [q2, c1], ⟨prev2, by show wfSeq prev2 (consume amt b1).stream = true; rw [q1]; exact hwf2⟩, Or.inr (Or.inr ⟨line.take amt, hpre_ne, rfl, ?_, ?_⟩)⟩
    · show mu (consume amt b1) < mu b
      omega
    · rw [s1.specSeq]; exact hspec

/-- **`read_sequence` on a well-formed sequence block computes `specSeq` of the stream** — whatever the
delivery schedule, the capacity of the `BufReader`, the split between its buffer and the source, and
whatever buffer sizes std's `read_to_end` uses. -/
theorem seqReadToEnd_spec (fuel : Nat) (sizes : List Nat) (acc : Bytes) (b : BufR UInt8)
    (hc : 0 < b.cap) (hf : mu b < fuel) (prev : UInt8) (hwf : wfSeq prev b.stream = true) :
    (seqReadToEnd fuel sizes acc b).1 = .ok (acc ++ (specSeq b.stream).1) ∧
    (seqReadToEnd fuel sizes acc b).2.stream = (specSeq b.stream).2 ∧
    (seqReadToEnd fuel sizes acc b).2.cap = b.cap := by
  induction fuel generalizing sizes acc b prev with
  | zero => omega
  | succ fuel ih =>
    obtain ⟨c1, ⟨prev', hwf'⟩, r1⟩ := seqRead_spec sizes.head? b hc prev hwf
    simp only [seqReadToEnd]
    rcases e : seqRead sizes.head? b with ⟨res, b1⟩
    rw [e] at c1 hwf' r1
    simp only at c1 hwf' r1
    rcases r1 with ⟨j1, j2, j3⟩ | ⟨j1, j2⟩ | ⟨bs, k0, k1, k2, k3⟩
    · subst j1
      simp only
      obtain ⟨i1, i2, i3⟩ := ih sizes acc b1 (by omega) (by omega) prev' hwf'
      rw [j3] at i1 i2
      exact ⟨i1, i2, by rw [i3, c1]⟩
    · subst j1
      simp only [List.length_nil, if_true]
      rw [j2]
      exact ⟨by simp, rfl, c1⟩
    · subst k1
      simp only
      have hl : bs.length ≠ 0 := by
        intro h; exact k0 (List.eq_nil_of_length_eq_zero h)
      rw [if_neg hl]
      obtain ⟨i1, i2, i3⟩ := ih sizes.tail (acc ++ bs) b1 (by omega) (by omega) prev' hwf'
      rw [k3]
      exact ⟨by rw [i1]; simp [List.append_assoc], i2, by rw [i3, c1]⟩

theorem readSequence_spec (sizes : List Nat) (b : BufR UInt8) (hc : 0 < b.cap)
    (hwf : wfSeq LF b.stream = true) :
    (readSequence sizes b).1 = .ok (specSeq b.stream).1 ∧
    (readSequence sizes b).2.stream = (specSeq b.stream).2 ∧ (readSequence sizes b).2.cap = b.cap := by
  have := seqReadToEnd_spec b.fuel sizes [] b hc (mu_lt_fuel b) LF hwf
  simpa [readSequence] using this

/-! ## the record iterator -/

/-- every sequence block of a FASTA text has well-formed lines (`fuel` bounds the number of records) -/
def wfFastaF : Nat → Bytes → Bool
  | 0, _ => true
  | fuel+1, xs =>
    let l := specUntil (· == LF) xs
    if l.1.length = 0 then true
    else wfSeq LF l.2 && wfFastaF fuel (specSeq l.2).2

def wfFasta (xs : Bytes) : Bool := wfFastaF (xs.length + 1) xs

/-- what `records()` makes of a FASTA text with well-formed sequence lines -/
def specFasta : Nat → Bytes → List FastaRec → (List FastaRec × Option Err) × Bytes
  | 0, xs, acc => ((acc.reverse, some .fuel), xs)
  | fuel+1, xs, acc =>
    let l := specUntil (· == LF) xs
    if l.1.length = 0 then ((acc.reverse, none), l.2)
    else match parseDefinition (stripEol l.1) with
      | .error e => ((acc.reverse, some e), l.2)
      | .ok (name, desc) => specFasta fuel (specSeq l.2).2 (⟨name, desc, (specSeq l.2).1⟩ :: acc)

theorem readParsedLine_eq {ρ : Type} (parse : Bytes → Except Err ρ) (b : BufR UInt8) :
    readParsedLine false parse b =
      if (readUntil (· == LF) b.fuel b []).1.length = 0 then (.ok none, (readUntil (· == LF) b.fuel b []).2)
      else match parse (stripEol (readUntil (· == LF) b.fuel b []).1) with
        | .error e => (.error e, (readUntil (· == LF) b.fuel b []).2)
        | .ok x => (.ok (some ((readUntil (· == LF) b.fuel b []).1.length, x)), (readUntil (· == LF) b.fuel b []).2) := by
  simp only [readParsedLine, RdB.bind, readLineInto, Bool.false_eq_true, if_false, List.nil_append]
  by_cases hz : (readUntil (· == LF) b.fuel b []).1.length = 0
  · simp only [hz, if_true]; rfl
  · simp only [hz, if_false]
    cases parse (stripEol (readUntil (· == LF) b.fuel b []).1) <;> rfl

theorem fastaRecords_succ (sizes : Nat → List Nat) (fuel k : Nat) (acc : List FastaRec) (b : BufR UInt8) :
    fastaRecords sizes (fuel+1) k acc b =
      match readParsedLine false parseDefinition b with
      | (.error e, b1) => (.ok (acc.reverse, some e), b1)
      | (.ok none, b1) => (.ok (acc.reverse, none), b1)
      | (.ok (some (_, (name, desc))), b1) =>
        match readSequence (sizes k) b1 with
        | (.error e, b2) => (.ok (acc.reverse, some e), b2)
        | (.ok sq, b2) => fastaRecords sizes fuel (k+1) (⟨name, desc, sq⟩ :: acc) b2 := by
  simp only [fastaRecords, RdB.bind, RdB.attempt]
  rcases readParsedLine false parseDefinition b with ⟨r, b1⟩
  cases r with
  | error e => rfl
  | ok o =>
    cases o with
    | none => rfl
    | some x =>
      obtain ⟨n, name, desc⟩ := x
      simp only [RdB.bind, RdB.attempt]
      rcases readSequence (sizes k) b1 with ⟨r2, b2⟩
      cases r2 <;> rfl

theorem fastaRecords_spec (sizes : Nat → List Nat) (fuel k : Nat) (acc : List FastaRec) (b : BufR UInt8)
    (hc : 0 < b.cap) (hwf : wfFastaF fuel b.stream = true) :
    (fastaRecords sizes fuel k acc b).1 = .ok (specFasta fuel b.stream acc).1 ∧
    (fastaRecords sizes fuel k acc b).2.stream = (specFasta fuel b.stream acc).2 := by
  induction fuel generalizing k acc b with
  | zero => exact ⟨rfl, rfl⟩
  | succ fuel ih =>
    obtain ⟨u1, u2, u3⟩ := readUntil_spec (· == LF) b.fuel b [] hc (mu_lt_fuel b)
    simp only [List.nil_append] at u1
    rw [fastaRecords_succ, readParsedLine_eq]
    simp only [specFasta]
    simp only [wfFastaF] at hwf
    rw [u1]
    by_cases hz : (specUntil (fun x => x == LF) b.stream).1.length = 0
    · rw [if_pos hz, if_pos hz]
      exact ⟨rfl, u2⟩
    · rw [if_neg hz, if_neg hz]
      rw [if_neg hz, Bool.and_eq_true] at hwf
      obtain ⟨w1, w2⟩ := hwf
      cases parseDefinition (stripEol (specUntil (fun x => x == LF) b.stream).1) with
      | error e => exact ⟨rfl, u2⟩
      | ok nd =>
        obtain ⟨name, desc⟩ := nd
        simp only
        have hc' : 0 < (readUntil (fun x => x == LF) b.fuel b []).2.cap := by rw [u3]; exact hc
        obtain ⟨s1, s2, s3⟩ := readSequence_spec (sizes k) (readUntil (fun x => x == LF) b.fuel b []).2 hc'
          (by rw [u2]; exact w1)
        rw [u2] at s1 s2
        rcases e : readSequence (sizes k) (readUntil (fun x => x == LF) b.fuel b []).2 with ⟨res, b2⟩
        rw [e] at s1 s2 s3
        simp only at s1 s2 s3
        subst s1
        simp only
        have := ih (k + 1) (⟨name, desc, (specSeq (specUntil (fun x => x == LF) b.stream).2).1⟩ :: acc) b2
          (by rw [s3]; exact hc') (by rw [s2]; exact w2)
        rw [s2] at this
        exact this

theorem fastaRecordsAll_spec (sizes : Nat → List Nat) (b : BufR UInt8) (hc : 0 < b.cap)
    (hwf : wfFasta b.stream = true) :
    (fastaRecordsAll sizes b).1 = .ok (specFasta (b.stream.length + 1) b.stream []).1 ∧
    (fastaRecordsAll sizes b).2.stream = (specFasta (b.stream.length + 1) b.stream []).2 :=
  fastaRecords_spec sizes (b.stream.length + 1) 0 [] b hc hwf

end Noodles.IO
