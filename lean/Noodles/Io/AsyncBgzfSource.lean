import Noodles.Io.AsyncLoops
import Noodles.Bgzf.AsyncReaderProof
/-!
# The async BGZF reader is a lawful `AsyncRead` (composition of C16's two layers)

`bgzf::r#async::io::Reader` implements `AsyncRead` by `poll_read` (model: `Noodles.Bgzf.Async.pollRead`
over a block layout `L`, `w` workers, and a script that fixes every `poll_read` of the underlying
source and every inflate completion).  This file shows that, on reader states that satisfy the
invariants the model keeps (`Inv`, `PInv`), it is a lawful `ARead` whose stream is `flat L` from the
cursor on: a `Pending` poll leaves the named byte where it is and uses up script, a `Ready` poll hands
out a non-empty prefix (unless at the end).  Every theorem about the format-level poll machines
therefore applies to `bam::r#async::io::Reader::new(src)` = the BAM reader over the async BGZF reader.
-/
namespace Noodles.IO.AsyncBgzf
open Noodles.Bgzf.RM Noodles.Bgzf.Async
open Noodles.IO.Async (ARead)

variable {α : Type}

/-- a state of the async BGZF reader together with its script, and the two invariants -/
structure BgzfSt (L : Layout α) where
  a : AR α
  sd : Sched
  hi : Inv L a.r
  hp : PInv L a.r.next a.p

/-- the block loop of `poll_fill_buf` (sequential form) does not move the cursor, and delivers nothing
only at the end of the stream -/
theorem readBlockA_off (L : Layout α) (s : R α) (hr : hasRemaining s = false) (hi : Inv L s) :
    off L (readBlockA L s) = off L s ∧
    ((readBlockA L s).data.drop (readBlockA L s).cur = [] → off L s = (flat L).length) := by
  fun_induction readBlockA L s with
  | case1 s hnone =>
    refine ⟨rfl, fun _ => ?_⟩
    rw [off_exhausted L s (noRem_le s hr), uoff_of_ge L s.next (getElem?_none_le L s.next hnone),
      flat_length]
  | case2 s b hb hpos =>
    have hu := uoff_succ L s.next b hb
    refine ⟨?_, ?_⟩
    · rw [off_exhausted L s (noRem_le s hr)]
      simp only [off, absorb]
      omega
    · intro h
      simp only [absorb, List.drop_zero] at h
      rw [h] at hpos; simp at hpos
  | case3 s b hb hnpos ih =>
    have hnr := absorb_noRem s b hnpos
    obtain ⟨i1, i2⟩ := ih hnr (absorb_inv L s b hi hb)
    have hu := uoff_succ L s.next b hb
    have hoff : off L (absorb s b) = off L s := by
      rw [off_exhausted L s (noRem_le s hr), off_exhausted L _ (noRem_le _ hnr)]
      simp only [absorb]
      omega
    exact ⟨by rw [i1, hoff], fun h => by rw [← hoff]; exact i2 h⟩

/-- `poll_read` polled `Ready` (sequential form `readA`): a prefix of `flat L` from the cursor on -/
theorem readA_flat (L : Layout α) (s : R α) (n : Nat) (hi : Inv L s) :
    Inv L (readA L s n).1 ∧
    (readA L s n).2 = ((flat L).drop (off L s)).take (readA L s n).2.length ∧
    off L (readA L s n).1 = off L s + (readA L s n).2.length ∧
    (readA L s n).2.length ≤ n ∧
    (0 < n → off L s < (flat L).length → 0 < (readA L s n).2.length) := by
  have hfill : Inv L (fillBufA L s).1 ∧ off L (fillBufA L s).1 = off L s ∧
      (fillBufA L s).2 = (fillBufA L s).1.data.drop (fillBufA L s).1.cur ∧
      ((fillBufA L s).2 = [] → off L s = (flat L).length) := by
    unfold fillBufA
    by_cases hr : hasRemaining s = true
    · rw [if_pos hr]
      refine ⟨hi, rfl, rfl, ?_⟩
      intro h
      simp only [hasRemaining, decide_eq_true_eq] at hr
      have : (s.data.drop s.cur).length = 0 := by
        have h' : s.data.drop s.cur = [] := h
        rw [h']; rfl
      simp at this; omega
    · have hr' : hasRemaining s = false := by simpa using hr
      rw [if_neg hr]
      obtain ⟨a, b⟩ := readBlockA_off L s hr' hi
      exact ⟨readBlockA_inv L s hi, a, rfl, b⟩
  obtain ⟨f1, f2, f3, f4⟩ := hfill
  unfold readA
  generalize fillBufA L s = r at f1 f2 f3 f4
  obtain ⟨s1, buf⟩ := r
  simp only at f1 f2 f3 f4 ⊢
  have hbl : buf.length = s1.data.length - s1.cur := by rw [f3]; simp
  have hpre := inv_buf L s1 f1
  rw [← f3, f2] at hpre
  have hm : min buf.length n ≤ buf.length := Nat.min_le_left _ _
  have hlen : (buf.take (min buf.length n)).length = min buf.length n := by
    rw [List.length_take]; omega
  refine ⟨consume_inv L s1 _ f1, ?_, ?_, ?_, ?_⟩
  · rw [hlen]
    rw [← hbl] at hpre
    have h1 : buf.take (min buf.length n) =
        (((flat L).drop (off L s)).take buf.length).take (min buf.length n) := by rw [← hpre]
    rw [h1, List.take_take, Nat.min_eq_left hm]
  · rw [consume_off L s1 _ f1, f2, hlen, ← hbl]
    omega
  · rw [hlen]; exact Nat.min_le_right _ _
  · intro hn hoff
    rw [hlen]
    have : buf ≠ [] := fun h => by have := f4 h; omega
    have : 0 < buf.length := List.length_pos_iff.mpr this
    omega

theorem pollRead_inv (L : Layout α) (w : Nat) (hw : 1 ≤ w) (a : AR α) (sd : Sched) (n : Nat)
    (hi : Inv L a.r) (hp : PInv L a.r.next a.p) :
    Inv L (pollRead L w a sd n).1.r ∧ PInv L (pollRead L w a sd n).1.r.next (pollRead L w a sd n).1.p := by
  obtain ⟨_, f2, f3, f4⟩ := pollRead_spec L w hw a sd n hp
  refine ⟨?_, f2⟩
  cases hres : (pollRead L w a sd n).2.2 with
  | pending => exact skip_inv L _ _ (f3 hres).2.2 hi
  | ready bs =>
    have := f4 bs hres
    have h1 : (pollRead L w a sd n).1.r = (readA L a.r n).1 := congrArg Prod.fst this
    rw [h1]
    exact (readA_flat L a.r n hi).1

/-- `bgzf::r#async::io::Reader` as an `AsyncRead`, on invariant-carrying states -/
def bgzfRead (L : Layout α) (w : Nat) (hw : 1 ≤ w) : ARead (BgzfSt L) α where
  poll := fun t n =>
    ((pollRead L w t.a t.sd n).2.2,
     ⟨(pollRead L w t.a t.sd n).1, (pollRead L w t.a t.sd n).2.1,
      (pollRead_inv L w hw t.a t.sd n t.hi t.hp).1, (pollRead_inv L w hw t.a t.sd n t.hi t.hp).2⟩)
  rest := fun t => (flat L).drop (off L t.a.r)
  credit := fun t => t.sd.measure

/-- the reader as `Reader::new` leaves it, with any script -/
def BgzfSt.init (L : Layout α) (sd : Sched) : BgzfSt L := ⟨AR.init, sd, inv_init L, pinv_init L⟩

theorem bgzfRead_rest_init (L : Layout α) (w : Nat) (hw : 1 ≤ w) (sd : Sched) :
    (bgzfRead L w hw).rest (BgzfSt.init L sd) = flat L := by
  simp [bgzfRead, BgzfSt.init, AR.init, off_init]

/-- **The async BGZF reader is a lawful `AsyncRead` over the uncompressed stream `flat L`**, for every
layout, worker count ≥ 1 and script. -/
theorem bgzfRead_lawful (L : Layout α) (w : Nat) (hw : 1 ≤ w) : (bgzfRead L w hw).Lawful := by
  constructor
  · intro t n t' h
    simp only [bgzfRead, Prod.mk.injEq] at h
    obtain ⟨h1, h2⟩ := h
    subst h2
    obtain ⟨_, _, f3, _⟩ := pollRead_spec L w hw t.a t.sd n t.hp
    obtain ⟨g1, g2, g3⟩ := f3 h1
    simp only [bgzfRead]
    exact ⟨by rw [skip_off L _ _ g3 t.hi g2], g1⟩
  · intro t n bs t' h
    simp only [bgzfRead, Prod.mk.injEq] at h
    obtain ⟨h1, h2⟩ := h
    subst h2
    obtain ⟨f1, _, _, f4⟩ := pollRead_spec L w hw t.a t.sd n t.hp
    have hr := f4 bs h1
    have e1 : (pollRead L w t.a t.sd n).1.r = (readA L t.a.r n).1 := congrArg Prod.fst hr
    have e2 : bs = (readA L t.a.r n).2 := congrArg Prod.snd hr
    obtain ⟨_, r2, r3, r4, r5⟩ := readA_flat L t.a.r n t.hi
    rw [← e2] at r2 r3 r4 r5
    simp only [bgzfRead]
    have hle : bs.length ≤ ((flat L).drop (off L t.a.r)).length := by
      have := congrArg List.length r2
      rw [List.length_take] at this
      omega
    refine ⟨bs.length, r4, hle, r2, ?_, ?_, f1⟩
    · rw [e1, r3, List.drop_drop]
    · intro hn hne
      apply r5 hn
      have : 0 < ((flat L).drop (off L t.a.r)).length := List.length_pos_iff.mpr hne
      rw [List.length_drop] at this
      omega

end Noodles.IO.AsyncBgzf
