import Noodles.Io.AsyncMore
import Noodles.Io.AsyncLoopsProof
import Noodles.Io.MoreProof
/-!
# Proofs for `Noodles.Io.AsyncMore`, part 2: `read_u8`, the parsed-line readers, FASTQ
-/
namespace Noodles.IO.Async
open Noodles.IO
open Noodles.Bgzf.Async (Poll1 Poll)

variable {σ α : Type}

/-- one poll of `ReadU8` over a tokio `BufReader`: `Pending` changes nothing but the credit, `Ready` is
the head of the stream -/
theorem pollReadU8_cases (A : ARead σ α) (hA : A.Lawful) (cap : Nat) (hc : 0 < cap) (b : ABuf σ α) :
    (∃ b', pollReadU8 A cap b = (.pending, b') ∧ b'.stream A = b.stream A ∧
      A.credit b'.inner < A.credit b.inner) ∨
    (∃ r b', pollReadU8 A cap b = (.ready r, b') ∧
      r = (match (b.stream A).head? with | some x => .ok x | none => .error .eof) ∧
      b'.stream A = (b.stream A).tail) := by
  unfold pollReadU8
  by_cases hb : b.buf.length = 0 ∧ cap ≤ 1
  · rw [if_pos hb]
    have hbuf : b.buf = [] := List.eq_nil_of_length_eq_zero hb.1
    rcases hp : A.poll b.inner 1 with ⟨r, s'⟩
    cases r with
    | pending =>
      left
      obtain ⟨a1, a2⟩ := hA.pending _ _ _ hp
      exact ⟨_, rfl, by simp [ABuf.stream, a1], a2⟩
    | ready bs =>
      right
      obtain ⟨k, k1, k2, k3, k4, k5, _⟩ := hA.ready _ _ _ _ hp
      have hlen : bs.length = k := by rw [k3, List.length_take]; omega
      cases bs with
      | nil =>
        have hk0 : k = 0 := by simpa using hlen.symm
        have hrest : A.rest b.inner = [] := by
          by_cases hne : A.rest b.inner = []
          · exact hne
          · have := k5 (by omega) hne; omega
        refine ⟨_, _, rfl, ?_, ?_⟩
        · simp [ABuf.stream, hbuf, hrest]
        · simp [ABuf.stream, hbuf, hrest, k4]
      | cons x tl =>
        have hk1 : k = 1 := by simp at hlen; omega
        subst hk1
        cases hr : A.rest b.inner with
        | nil => rw [hr] at k3; simp at k3
        | cons y ys =>
          rw [hr] at k3 k4
          simp at k3 k4
          refine ⟨_, _, rfl, ?_, ?_⟩
          · simp [ABuf.stream, hbuf, hr, k3.1]
          · simp [ABuf.stream, hbuf, hr, k4]
  · rw [if_neg hb]
    rcases pollFillBuf_cases A hA cap hc b with ⟨b', hfb, hst, hcr⟩ | ⟨w, b', hfb, hbuf, hst, hcr, hnil⟩
    · left
      rw [hfb]
      exact ⟨b', rfl, hst, hcr⟩
    · right
      rw [hfb]
      cases w with
      | nil =>
        have hs := hnil rfl
        refine ⟨_, _, rfl, ?_, ?_⟩
        · rw [hs]; rfl
        · rw [hst, hs]; rfl
      | cons x rest =>
        have hstream : b.stream A = (x :: rest) ++ A.rest b'.inner := by
          rw [← hst, ABuf.stream, hbuf]
        refine ⟨_, _, rfl, ?_, ?_⟩
        · rw [hstream]; rfl
        · rw [aconsume_stream A b' 1 (by rw [hbuf]; simp), hst, hstream]; rfl

/-- `read_u8().await` on a tokio `BufReader` of any capacity, under every poll schedule: the next byte
of the stream, or `UnexpectedEof` at its end -/
theorem readU8A_spec (A : ARead σ α) (hA : A.Lawful) (cap : Nat) (hc : 0 < cap) (b : ABuf σ α) :
    (readU8A A cap b).1 = (match (b.stream A).head? with | some x => .ok x | none => .error .eof) ∧
    (readU8A A cap b).2.stream A = (b.stream A).tail := by
  obtain ⟨r, t', h1, h2⟩ := drive_spec (pollReadU8 A cap) (fun t => A.credit t.inner)
    (fun t => t.stream A = b.stream A)
    (fun r t' => r = (match (b.stream A).head? with | some x => .ok x | none => .error .eof) ∧
      t'.stream A = (b.stream A).tail)
    (by
      intro t ht
      rcases pollReadU8_cases A hA cap hc t with ⟨b', hp, hst, hcr⟩ | ⟨r, b', hp, hr, hst⟩
      · refine ⟨?_, ?_⟩
        · intro t' hp'
          rw [hp] at hp'
          cases hp'
          exact ⟨by rw [hst, ht], hcr⟩
        · intro r t' hp'
          rw [hp] at hp'
          cases hp'
      · refine ⟨?_, ?_⟩
        · intro t' hp'
          rw [hp] at hp'
          cases hp'
        · intro r' t' hp'
          rw [hp] at hp'
          cases hp'
          rw [ht] at hr hst
          exact ⟨hr, hst⟩)
    (A.credit b.inner + 1) b rfl (Nat.lt_succ_self _)
  simp only [readU8A, await, h1]
  exact h2

/-- the async `read_line` in closed form -/
theorem readLineA_spec (A : ARead σ UInt8) (hA : A.Lawful) (cap : Nat) (hc : 0 < cap) (b : ABuf σ UInt8) :
    (readLineA A cap b).1 = .ok ((specUntil (· == LF) (b.stream A)).1.length,
      stripEol (specUntil (· == LF) (b.stream A)).1) ∧
    (readLineA A cap b).2.stream A = (specUntil (· == LF) (b.stream A)).2 := by
  obtain ⟨a1, a2⟩ := scanA_spec A hA cap hc (untilStep (· == LF)) (specUntilSt (· == LF))
    (untilStep_spec _) [] b
  unfold readLineA
  rcases hs : scanA A cap (untilStep (· == LF)) [] b with ⟨r, b'⟩
  rw [hs] at a1 a2
  simp only at a1 a2
  subst a1
  simp only [specUntilSt, List.nil_append] at a2
  exact ⟨rfl, a2⟩

/-- "one line, then parse it": async = sync, for every parser -/
theorem readParsedLineA_eq_sync {ρ : Type} (utf8 : Bool) (parse : Bytes → Except Err ρ)
    (A : ARead σ UInt8) (hA : A.Lawful) (cap : Nat) (hc : 0 < cap) (b : ABuf σ UInt8) (bs : BufR UInt8)
    (hcs : 0 < bs.cap) (h : b.stream A = bs.stream) :
    (readParsedLineA utf8 parse A cap b).1 = (readParsedLine utf8 parse bs).1 ∧
    (readParsedLineA utf8 parse A cap b).2.stream A = (readParsedLine utf8 parse bs).2.stream ∧
    0 < (readParsedLine utf8 parse bs).2.cap := by
  obtain ⟨a1, a2⟩ := scanA_spec A hA cap hc (untilStep (· == LF)) (specUntilSt (· == LF))
    (untilStep_spec _) [] b
  obtain ⟨b1, b2, b3⟩ := readUntil_spec (· == LF) bs.fuel bs [] hcs (mu_lt_fuel bs)
  simp only [specUntilSt, List.nil_append] at a1 a2 b1
  rw [h] at a1 a2
  rw [← b1] at a1
  rw [← b2] at a2
  rw [← b3] at hcs
  unfold readParsedLineA
  generalize scanA A cap (untilStep (· == LF)) [] b = S at a1 a2 ⊢
  obtain ⟨r, b'⟩ := S
  simp only at a1 a2
  subst a1
  cases utf8 with
  | false =>
    simp only [readParsedLine, RdB.bind, readLineInto, List.nil_append, Bool.false_and,
      Bool.false_eq_true, if_false]
    generalize readUntil (· == LF) bs.fuel bs [] = R at a2 hcs ⊢
    obtain ⟨R1, R2⟩ := R
    simp only at a2 hcs ⊢
    by_cases hz : R1.length = 0
    · rw [if_pos hz, if_pos hz]; exact ⟨rfl, a2, hcs⟩
    · rw [if_neg hz, if_neg hz]
      cases parse (stripEol R1) with
      | error e => exact ⟨rfl, a2, hcs⟩
      | ok x => exact ⟨rfl, a2, hcs⟩
  | true =>
    simp only [readParsedLine, RdB.bind, readLineUtf8Into, List.nil_append, Bool.true_and, if_true]
    generalize readUntil (· == LF) bs.fuel bs [] = R at a2 hcs ⊢
    obtain ⟨R1, R2⟩ := R
    simp only at a2 hcs ⊢
    cases hv : Noodles.Index.validUtf8 R1 with
    | false => exact ⟨rfl, a2, hcs⟩
    | true =>
      simp only [Bool.not_true, Bool.false_eq_true, if_false, if_true]
      by_cases hz : R1.length = 0
      · rw [if_pos hz, if_pos hz]; exact ⟨rfl, a2, hcs⟩
      · rw [if_neg hz, if_neg hz]
        cases parse (stripEol R1) with
        | error e => exact ⟨rfl, a2, hcs⟩
        | ok x => exact ⟨rfl, a2, hcs⟩

theorem parsedLinesA_eq_sync {ρ : Type} (utf8 : Bool) (parse : Bytes → Except Err ρ)
    (A : ARead σ UInt8) (hA : A.Lawful) (cap : Nat) (hc : 0 < cap) (fuel : Nat) (b : ABuf σ UInt8)
    (bs : BufR UInt8) (acc : List (Nat × ρ)) (hcs : 0 < bs.cap) (h : b.stream A = bs.stream) :
    .ok (parsedLinesA utf8 parse A cap fuel b acc).1 = (parsedLines (readParsedLine utf8 parse) fuel acc bs).1 ∧
    (parsedLinesA utf8 parse A cap fuel b acc).2.stream A =
      (parsedLines (readParsedLine utf8 parse) fuel acc bs).2.stream := by
  induction fuel generalizing b bs acc with
  | zero => exact ⟨rfl, h⟩
  | succ fuel ih =>
    obtain ⟨a1, a2, a3⟩ := readParsedLineA_eq_sync utf8 parse A hA cap hc b bs hcs h
    simp only [parsedLinesA, parsedLines, RdB.bind, RdB.attempt]
    rcases h1 : readParsedLineA utf8 parse A cap b with ⟨r1, t1⟩
    rcases h2 : readParsedLine utf8 parse bs with ⟨r2, t2⟩
    rw [h1, h2] at a1 a2
    rw [h2] at a3
    simp only at a1 a2 a3
    subst a1
    cases r1 with
    | error e => exact ⟨rfl, a2⟩
    | ok x =>
      cases x with
      | none => exact ⟨rfl, a2⟩
      | some r => exact ih t1 t2 (r :: acc) a3 a2

/-! ## FASTQ: `findSplit` and `stripEol` facts, the two definition-line readers in closed form -/

theorem findSplit_some_spec (p : α → Bool) (xs pre post : List α) (d : α)
    (h : findSplit p xs = some (pre, d, post)) :
    xs = pre ++ d :: post ∧ (∀ c ∈ pre, p c = false) ∧ p d = true := by
  induction xs generalizing pre with
  | nil => simp [findSplit] at h
  | cons x xs ih =>
    simp only [findSplit] at h
    by_cases hp : p x = true
    · rw [if_pos hp] at h
      simp only [Option.some.injEq, Prod.mk.injEq] at h
      obtain ⟨rfl, rfl, rfl⟩ := h
      exact ⟨rfl, by simp, hp⟩
    · rw [if_neg hp] at h
      cases hf : findSplit p xs with
      | none => rw [hf] at h; simp at h
      | some t =>
        obtain ⟨pre', d', post'⟩ := t
        rw [hf] at h
        simp only [Option.some.injEq, Prod.mk.injEq] at h
        obtain ⟨rfl, rfl, rfl⟩ := h
        obtain ⟨i1, i2, i3⟩ := ih pre' hf
        refine ⟨by rw [i1]; rfl, ?_, i3⟩
        intro c hc
        simp only [List.mem_cons] at hc
        rcases hc with rfl | hc
        · simpa using hp
        · exact i2 c hc

theorem findSplit_none_spec (p : α → Bool) (xs : List α) (h : findSplit p xs = none) :
    ∀ c ∈ xs, p c = false := by
  induction xs with
  | nil => intro c hc; simp at hc
  | cons x xs ih =>
    simp only [findSplit] at h
    by_cases hp : p x = true
    · rw [if_pos hp] at h; simp at h
    · rw [if_neg hp] at h
      cases hf : findSplit p xs with
      | some t => obtain ⟨pre', d', post'⟩ := t; rw [hf] at h; simp at h
      | none =>
        intro c hc
        simp only [List.mem_cons] at hc
        rcases hc with rfl | hc
        · simpa using hp
        · exact ih hf c hc

theorem findSplit_eq_none (p : α → Bool) (xs : List α) (h : ∀ c ∈ xs, p c = false) :
    findSplit p xs = none := by
  induction xs with
  | nil => rfl
  | cons x xs ih =>
    simp only [findSplit]
    rw [if_neg (by simp [h x (by simp)]), ih (fun c hc => h c (by simp [hc]))]

theorem findSplit_of_split (p : α → Bool) (pre post : List α) (d : α)
    (h1 : ∀ c ∈ pre, p c = false) (h2 : p d = true) :
    findSplit p (pre ++ d :: post) = some (pre, d, post) := by
  induction pre with
  | nil => simp [findSplit, h2]
  | cons x pre ih =>
    simp only [List.cons_append, findSplit]
    rw [if_neg (by simp [h1 x (by simp)]), ih (fun c hc => h1 c (by simp [hc]))]

theorem stripEol_concat_LF (pre : Bytes) :
    stripEol (pre ++ [LF]) = if pre.getLast? = some CR then pre.dropLast else pre := by
  simp [stripEol]

theorem stripEol_of_getLast_ne (xs : Bytes) (h : xs.getLast? ≠ some LF) : stripEol xs = xs := by
  simp [stripEol, h]

theorem stripEol_of_not_mem (xs : Bytes) (h : LF ∉ xs) : stripEol xs = xs :=
  stripEol_of_getLast_ne xs (fun hl => h (List.mem_of_getLast? hl))

theorem stripEol_append_cons (pre : Bytes) (d : UInt8) (l2 : Bytes) (h1 : d ≠ LF) (h2 : d ≠ CR) :
    stripEol (pre ++ d :: l2) = pre ++ d :: stripEol l2 := by
  rcases List.eq_nil_or_concat l2 with rfl | ⟨m, z, rfl⟩
  · have : (pre ++ [d]).getLast? ≠ some LF := by simp [h1]
    rw [stripEol_of_getLast_ne _ this]; simp [stripEol]
  · have e : pre ++ d :: (m ++ [z]) = (pre ++ d :: m) ++ [z] := by simp
    rw [List.concat_eq_append, e]
    by_cases hz : z = LF
    · subst hz
      rw [stripEol_concat_LF, stripEol_concat_LF]
      rcases List.eq_nil_or_concat m with rfl | ⟨m', y, rfl⟩
      · simp [h2]
      · have e2 : pre ++ d :: (m' ++ [y]) = (pre ++ d :: m') ++ [y] := by simp
        rw [List.concat_eq_append, e2]
        simp only [List.getLast?_concat, List.dropLast_concat]
        by_cases hy : y = CR
        · simp [hy]
        · simp [hy]
    · have g1 : ((pre ++ d :: m) ++ [z]).getLast? ≠ some LF := by
        rw [List.getLast?_concat]; simp [hz]
      have g2 : (m ++ [z]).getLast? ≠ some LF := by
        rw [List.getLast?_concat]; simp [hz]
      rw [stripEol_of_getLast_ne _ g1, stripEol_of_getLast_ne _ g2]; simp


/-- the sync `read_definition` after the `@`, on the stream -/
def defTailS (ys : Bytes) : (Nat × Bytes × Bytes) × Bytes :=
  let r := specName ([], 1, false, false) ys
  if r.1.2.2.1 then
    ((r.1.2.1, (if r.1.1.getLast? == some CR then r.1.1.dropLast else r.1.1), []), r.2)
  else
    ((r.1.2.1 + (specUntil (· == LF) r.2).1.length, r.1.1, stripEol (specUntil (· == LF) r.2).1),
      (specUntil (· == LF) r.2).2)

/-- the async `read_name` after the `@`, on the stream -/
def defTailA (ys : Bytes) : (Nat × Bytes × Bytes) × Bytes :=
  let l := specUntil (· == LF) ys
  match findSplit (fun c => c == SPACE || c == TAB) (stripEol l.1) with
  | some (pre, _, post) => ((l.1.length + 1, pre, post), l.2)
  | none => ((l.1.length + 1, stripEol l.1, []), l.2)

theorem defTail_eq_none (ys : Bytes)
    (hf : findSplit (fun c => c == SPACE || c == TAB || c == LF) ys = none) :
    defTailS ys = defTailA ys := by
  have hall := findSplit_none_spec _ ys hf
  have hLF : findSplit (· == LF) ys = none :=
    findSplit_eq_none _ ys (fun c hc => by have := hall c hc; simp at this ⊢; exact this.2)
  have h2 : findSplit (fun c => c == SPACE || c == TAB) ys = none :=
    findSplit_eq_none _ ys (fun c hc => by have := hall c hc; simp at this ⊢; exact ⟨this.1.1, this.1.2⟩)
  have hnm : LF ∉ ys := fun hm => by have := hall LF hm; simp at this
  simp only [defTailS, defTailA, specName, specUntil, hf, hLF, Bool.false_eq_true, if_false]
  rw [stripEol_of_not_mem ys hnm, h2]
  simp [findSplit, stripEol]
  omega


theorem mem_stripCr (pre : Bytes) (c : UInt8)
    (hc : c ∈ (if pre.getLast? = some CR then pre.dropLast else pre)) : c ∈ pre := by
  split at hc
  · exact List.dropLast_subset pre hc
  · exact hc

theorem defTail_eq_lf (ys pre post : Bytes)
    (hf : findSplit (fun c => c == SPACE || c == TAB || c == LF) ys = some (pre, LF, post)) :
    defTailS ys = defTailA ys := by
  obtain ⟨hys, hpre, _⟩ := findSplit_some_spec _ ys pre post LF hf
  have hLF : findSplit (· == LF) ys = some (pre, LF, post) := by
    rw [hys]
    exact findSplit_of_split _ pre post LF
      (fun c hc => by have := hpre c hc; simp at this ⊢; exact this.2) (by simp)
  have h2 : findSplit (fun c => c == SPACE || c == TAB)
      (if pre.getLast? = some CR then pre.dropLast else pre) = none :=
    findSplit_eq_none _ _ (fun c hc => by
      have := hpre c (mem_stripCr pre c hc); simp at this ⊢; exact ⟨this.1.1, this.1.2⟩)
  simp only [defTailS, defTailA, specName, specUntil, hf, hLF, Bool.false_eq_true, if_false]
  rw [stripEol_concat_LF, h2]
  simp
  omega

theorem defTail_eq_sep (ys pre post : Bytes) (d : UInt8) (hd : d ≠ LF)
    (hf : findSplit (fun c => c == SPACE || c == TAB || c == LF) ys = some (pre, d, post)) :
    defTailS ys = defTailA ys := by
  obtain ⟨hys, hpre, hpd⟩ := findSplit_some_spec _ ys pre post d hf
  have hd2 : (d == SPACE || d == TAB) = true := by simp [hd] at hpd ⊢; exact hpd
  have hdCR : d ≠ CR := by
    intro h; subst h; revert hd2; decide
  have hLFpre : findSplit (· == LF) (pre ++ [d]) = none :=
    findSplit_eq_none _ _ (fun c hc => by
      simp only [List.mem_append, List.mem_singleton] at hc
      rcases hc with hc | rfl
      · have := hpre c hc; simp at this ⊢; exact this.2
      · simp [hd])
  have hsu : specUntil (· == LF) ys =
      (pre ++ d :: (specUntil (· == LF) post).1, (specUntil (· == LF) post).2) := by
    have e : ys = (pre ++ [d]) ++ post := by rw [hys]; simp
    rw [e]
    simp only [specUntil]
    rw [findSplit_append_none _ _ post hLFpre]
    cases findSplit (fun x => x == LF) post with
    | none => simp
    | some t => obtain ⟨a, b, c⟩ := t; simp
  have h2 : findSplit (fun c => c == SPACE || c == TAB)
      (pre ++ d :: stripEol (specUntil (· == LF) post).1) =
      some (pre, d, stripEol (specUntil (· == LF) post).1) :=
    findSplit_of_split _ pre _ d
      (fun c hc => by have := hpre c hc; simp at this ⊢; exact ⟨this.1.1, this.1.2⟩) hd2
  have hdb : (d == LF) = false := by simp [hd]
  simp only [defTailS, defTailA, specName, hf, hsu, hdb, Bool.false_eq_true, if_false]
  rw [stripEol_append_cons pre d _ hd hdCR, h2]
  simp
  omega

theorem defTail_eq (ys : Bytes) : defTailS ys = defTailA ys := by
  cases hf : findSplit (fun c => c == SPACE || c == TAB || c == LF) ys with
  | none => exact defTail_eq_none ys hf
  | some t =>
    obtain ⟨pre, d, post⟩ := t
    by_cases hd : d = LF
    · subst hd; exact defTail_eq_lf ys pre post hf
    · exact defTail_eq_sep ys pre post d hd hf


/-! ### the two definition-line readers after the `@` -/

/-- the sync `read_definition` after `read_u8` has returned `@` -/
def fastqDefTailS (b1 : BufR UInt8) : Except Err (Nat × Bytes × Bytes) × BufR UInt8 :=
  match scanLoop true (nameStep true) b1.fuel ([], 1, false, false) b1 with
  | (.error e, b2) => (.error e, b2)
  | (.ok (name, len, isEol, _), b2) =>
    if isEol then
      (.ok (len, if true && name.getLast? == some CR then name.dropLast else name, []), b2)
    else
      let r := readLine b2
      (.ok (len + r.1.1, name, r.1.2), r.2)

theorem fastqReadDefinition_unfold (b : BufR UInt8) :
    fastqReadDefinition true b =
      match readU8 b.fuel b with
      | (none, b1) => (.ok (0, [], []), b1)
      | (some c, b1) => if c ≠ AT then (.error .invalidData, b1) else fastqDefTailS b1 := rfl

theorem fastqDefTailS_spec (b1 : BufR UInt8) (hc : 0 < b1.cap) :
    (fastqDefTailS b1).1 = .ok (defTailS b1.stream).1 ∧
    (fastqDefTailS b1).2.stream = (defTailS b1.stream).2 ∧
    (fastqDefTailS b1).2.cap = b1.cap := by
  obtain ⟨c1, c2, c3⟩ := scanLoop_spec (nameStep true) specName nameStep_spec b1.fuel
    ([], 1, false, false) b1 hc (mu_lt_fuel b1)
  unfold fastqDefTailS defTailS
  generalize scanLoop true (nameStep true) b1.fuel ([], 1, false, false) b1 = S at c1 c2 c3 ⊢
  obtain ⟨r3, t3⟩ := S
  simp only at c1 c2 c3
  subst c1
  generalize specName ([], 1, false, false) b1.stream = R at c2 ⊢
  obtain ⟨⟨name, len, isEol, m⟩, rest⟩ := R
  simp only at c2 ⊢
  cases isEol with
  | true => simp only [if_true, Bool.true_and]; exact ⟨by first | trivial | rfl, c2, c3⟩
  | false =>
    simp only [Bool.false_eq_true, if_false]
    obtain ⟨d1, d2, d3⟩ := readUntil_spec (· == LF) t3.fuel t3 [] (by rw [c3]; exact hc) (mu_lt_fuel t3)
    simp only [List.nil_append] at d1
    rw [c2] at d1 d2
    simp only [readLine]
    rw [d1]
    exact ⟨rfl, d2, by rw [d3, c3]⟩

/-- the async `read_name` after `read_u8` has returned `@` -/
def fastqNameTailA (A : ARead σ UInt8) (cap : Nat) (b1 : ABuf σ UInt8) :
    Except Err (Nat × Bytes × Bytes) × ABuf σ UInt8 :=
  match readLineA A cap b1 with
  | (.error e, b2) => (.error e, b2)
  | (.ok (n, l), b2) =>
    match findSplit (fun c => c == SPACE || c == TAB) l with
    | some (pre, _, post) => (.ok (n + 1, pre, post), b2)
    | none => (.ok (n + 1, l, []), b2)

theorem fastqReadNameA_unfold (A : ARead σ UInt8) (cap : Nat) (b : ABuf σ UInt8) :
    fastqReadNameA A cap b =
      match readU8A A cap b with
      | (.error .eof, b1) => (.ok (0, [], []), b1)
      | (.error e, b1) => (.error e, b1)
      | (.ok c, b1) => if c ≠ AT then (.error .invalidData, b1) else fastqNameTailA A cap b1 := rfl

theorem fastqNameTailA_spec (A : ARead σ UInt8) (hA : A.Lawful) (cap : Nat) (hc : 0 < cap)
    (b1 : ABuf σ UInt8) :
    (fastqNameTailA A cap b1).1 = .ok (defTailA (b1.stream A)).1 ∧
    (fastqNameTailA A cap b1).2.stream A = (defTailA (b1.stream A)).2 := by
  obtain ⟨a1, a2⟩ := readLineA_spec A hA cap hc b1
  unfold fastqNameTailA defTailA
  generalize readLineA A cap b1 = S at a1 a2 ⊢
  obtain ⟨r, t⟩ := S
  simp only at a1 a2
  subst a1
  simp only
  cases findSplit (fun c => c == SPACE || c == TAB) (stripEol (specUntil (· == LF) (b1.stream A)).1) with
  | none => exact ⟨rfl, a2⟩
  | some x => obtain ⟨pre, d, post⟩ := x; exact ⟨rfl, a2⟩

/-- async `read_name` = sync `read_definition` (two different algorithms) -/
theorem fastqReadNameA_eq_sync (A : ARead σ UInt8) (hA : A.Lawful) (cap : Nat) (hc : 0 < cap)
    (b : ABuf σ UInt8) (bs : BufR UInt8) (hcs : 0 < bs.cap) (h : b.stream A = bs.stream) :
    (fastqReadNameA A cap b).1 = (fastqReadDefinition true bs).1 ∧
    (fastqReadNameA A cap b).2.stream A = (fastqReadDefinition true bs).2.stream ∧
    0 < (fastqReadDefinition true bs).2.cap := by
  obtain ⟨a1, a2⟩ := readU8A_spec A hA cap hc b
  obtain ⟨s1, s2, s3⟩ := readU8_spec bs.fuel bs hcs (mu_lt_fuel bs)
  rw [h] at a1 a2
  rw [fastqReadNameA_unfold, fastqReadDefinition_unfold]
  generalize readU8A A cap b = U at a1 a2 ⊢
  generalize readU8 bs.fuel bs = V at s1 s2 s3 ⊢
  obtain ⟨u, U2⟩ := U
  obtain ⟨v, V2⟩ := V
  simp only at a1 a2 s1 s2 s3
  rw [← s3] at hcs
  cases hxs : bs.stream with
  | nil =>
    rw [hxs] at a1 a2 s1 s2
    simp only [List.head?_nil, List.tail_nil] at a1 a2 s1 s2
    subst a1; subst s1
    exact ⟨rfl, by rw [a2, s2], hcs⟩
  | cons c ys =>
    rw [hxs] at a1 a2 s1 s2
    simp only [List.head?_cons, List.tail_cons] at a1 a2 s1 s2
    subst a1; subst s1
    simp only
    by_cases hat : c ≠ AT
    · rw [if_pos hat, if_pos hat]
      exact ⟨rfl, by rw [a2, s2], hcs⟩
    · rw [if_neg hat, if_neg hat]
      obtain ⟨x1, x2⟩ := fastqNameTailA_spec A hA cap hc U2
      obtain ⟨y1, y2, y3⟩ := fastqDefTailS_spec V2 hcs
      rw [a2] at x1 x2
      rw [s2, defTail_eq] at y1 y2
      exact ⟨by rw [x1, y1], by rw [x2, y2], by rw [y3]; exact hcs⟩

theorem specLineSt_eq (ys : Bytes) :
    specLineSt (0, false) ys =
      ((specUntil (· == LF) ys).1.length, (specUntil (· == LF) ys).2) := by
  simp only [specLineSt, specUntil, Bool.false_eq_true, if_false]
  cases findSplit (fun x => x == LF) ys with
  | none => simp
  | some t => obtain ⟨pre, d, post⟩ := t; simp

/-- async `read_description` (`read_line` into a scratch buffer) = sync `consume_plus_line` -/
theorem fastqReadDescriptionA_eq_sync (A : ARead σ UInt8) (hA : A.Lawful) (cap : Nat) (hc : 0 < cap)
    (b : ABuf σ UInt8) (bs : BufR UInt8) (hcs : 0 < bs.cap) (h : b.stream A = bs.stream) :
    (fastqReadDescriptionA A cap b).1 = (fastqConsumePlusLine true bs).1 ∧
    (fastqReadDescriptionA A cap b).2.stream A = (fastqConsumePlusLine true bs).2.stream ∧
    0 < (fastqConsumePlusLine true bs).2.cap := by
  obtain ⟨a1, a2⟩ := readU8A_spec A hA cap hc b
  obtain ⟨s1, s2, s3⟩ := readU8_spec bs.fuel bs hcs (mu_lt_fuel bs)
  rw [h] at a1 a2
  unfold fastqReadDescriptionA fastqConsumePlusLine
  generalize readU8A A cap b = U at a1 a2 ⊢
  generalize readU8 bs.fuel bs = V at s1 s2 s3 ⊢
  obtain ⟨u, U2⟩ := U
  obtain ⟨v, V2⟩ := V
  simp only at a1 a2 s1 s2 s3
  rw [← s3] at hcs
  cases hxs : bs.stream with
  | nil =>
    rw [hxs] at a1 a2 s1 s2
    simp only [List.head?_nil, List.tail_nil] at a1 a2 s1 s2
    subst a1; subst s1
    exact ⟨rfl, by rw [a2, s2], hcs⟩
  | cons c ys =>
    rw [hxs] at a1 a2 s1 s2
    simp only [List.head?_cons, List.tail_cons] at a1 a2 s1 s2
    subst a1; subst s1
    simp only
    by_cases hpl : c ≠ PLUS
    · rw [if_pos hpl, if_pos hpl]
      exact ⟨rfl, by rw [a2, s2], hcs⟩
    · rw [if_neg hpl, if_neg hpl]
      obtain ⟨x1, x2⟩ := readLineA_spec A hA cap hc U2
      obtain ⟨y1, y2, y3⟩ := scanLoop_spec lineStep specLineSt lineStep_spec V2.fuel (0, false) V2 hcs
        (mu_lt_fuel V2)
      rw [a2] at x1 x2
      rw [s2, specLineSt_eq] at y1 y2
      unfold consumeLine
      generalize readLineA A cap U2 = X at x1 x2 ⊢
      generalize scanLoop true lineStep V2.fuel (0, false) V2 = Y at y1 y2 y3 ⊢
      obtain ⟨x, X2⟩ := X
      obtain ⟨y, Y2⟩ := Y
      simp only at x1 x2 y1 y2 y3
      subst x1; subst y1
      exact ⟨rfl, by rw [x2, y2], by rw [y3]; exact hcs⟩

/-- **FASTQ `read_record`: the async algorithm (whole definition line, split afterwards) = the sync
scanner, on EVERY byte string** -/
theorem fastqReadRecordA_eq_sync (A : ARead σ UInt8) (hA : A.Lawful) (cap : Nat) (hc : 0 < cap)
    (b : ABuf σ UInt8) (bs : BufR UInt8) (hcs : 0 < bs.cap) (h : b.stream A = bs.stream) :
    (fastqReadRecordA A cap b).1 = (fastqReadRecord true bs).1 ∧
    (fastqReadRecordA A cap b).2.stream A = (fastqReadRecord true bs).2.stream ∧
    0 < (fastqReadRecord true bs).2.cap := by
  obtain ⟨a1, a2, a3⟩ := fastqReadNameA_eq_sync A hA cap hc b bs hcs h
  unfold fastqReadRecordA fastqReadRecord
  generalize fastqReadNameA A cap b = U at a1 a2 ⊢
  generalize fastqReadDefinition true bs = V at a1 a2 a3 ⊢
  obtain ⟨u, U1⟩ := U
  obtain ⟨v, V1⟩ := V
  simp only at a1 a2 a3
  subst a1
  cases u with
  | error e => exact ⟨rfl, a2, a3⟩
  | ok x =>
    obtain ⟨n, name, desc⟩ := x
    cases n with
    | zero => exact ⟨rfl, a2, a3⟩
    | succ n =>
      simp only
      obtain ⟨c1, c2, c3⟩ := readLineA_eq_sync A hA cap hc U1 V1 a3 a2
      generalize readLineA A cap U1 = L at c1 c2 ⊢
      obtain ⟨l, U2⟩ := L
      simp only at c1 c2
      subst c1
      simp only
      have hc2 : 0 < (readLine V1).2.cap := by rw [c3]; exact a3
      obtain ⟨d1, d2, d3⟩ := fastqReadDescriptionA_eq_sync A hA cap hc U2 (readLine V1).2 hc2 c2
      generalize fastqReadDescriptionA A cap U2 = D at d1 d2 ⊢
      generalize fastqConsumePlusLine true (readLine V1).2 = E at d1 d2 d3 ⊢
      obtain ⟨d, U3⟩ := D
      obtain ⟨e, V3⟩ := E
      simp only at d1 d2 d3
      subst d1
      cases d with
      | error e => exact ⟨rfl, d2, d3⟩
      | ok m =>
        simp only
        obtain ⟨f1, f2, f3⟩ := readLineA_eq_sync A hA cap hc U3 V3 d3 d2
        generalize readLineA A cap U3 = Q at f1 f2 ⊢
        obtain ⟨q, U4⟩ := Q
        simp only at f1 f2
        subst f1
        exact ⟨rfl, f2, by rw [f3]; exact d3⟩

theorem fastqRecordsA_eq_sync (A : ARead σ UInt8) (hA : A.Lawful) (cap : Nat) (hc : 0 < cap)
    (fuel : Nat) (b : ABuf σ UInt8) (bs : BufR UInt8) (acc : List (Nat × FastqRec)) (hcs : 0 < bs.cap)
    (h : b.stream A = bs.stream) :
    (fastqRecordsA A cap fuel b acc).1 = (fastqRecords true fuel bs acc).1 ∧
    (fastqRecordsA A cap fuel b acc).2.stream A = (fastqRecords true fuel bs acc).2.stream := by
  induction fuel generalizing b bs acc with
  | zero => exact ⟨rfl, h⟩
  | succ fuel ih =>
    obtain ⟨a1, a2, a3⟩ := fastqReadRecordA_eq_sync A hA cap hc b bs hcs h
    simp only [fastqRecordsA, fastqRecords]
    rcases h1 : fastqReadRecordA A cap b with ⟨r1, t1⟩
    rcases h2 : fastqReadRecord true bs with ⟨r2, t2⟩
    rw [h1, h2] at a1 a2
    rw [h2] at a3
    simp only at a1 a2 a3
    subst a1
    cases r1 with
    | error e => exact ⟨rfl, a2⟩
    | ok x =>
      cases x with
      | none => exact ⟨rfl, a2⟩
      | some r => exact ih t1 t2 (r :: acc) a3 a2

end Noodles.IO.Async
