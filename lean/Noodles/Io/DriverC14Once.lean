import Noodles.Basic.Wire
import Noodles.Basic.Crc32
import Noodles.Bgzf.Driver
import Noodles.Bgzf.DriverC14
import Noodles.Io.BgzfOnce
/-! Line-protocol handler for the fail-once suites of C14 (`c14 once …`). -/
namespace Noodles.WP.Once.Driver
open Noodles.Wire hiding Bytes
open Noodles.Codec (Bytes)
open Noodles.Bgzf
open Noodles.WP Noodles.WP.Once

/-- `a<hex>` = `write_all`, `f` = `flush`, `F` = `try_finish` -/
def parsePrim (e : String) : Option WProg :=
  match e.toList with
  | ['f'] => some WProg.flush
  | ['F'] => some WProg.finish
  | 'a' :: r => (unhex (String.ofList r)).map WProg.emit
  | _ => none

/-- calls separated by `,`; a call is one primitive, or several `?`-sequenced primitives joined by
`+` (a format writer's call), or `s` (a call that does nothing); `-` = no call -/
def parseCalls (s : String) : Option (List WProg) :=
  if s = "-" then some [] else
  (s.splitOn ",").mapM fun c =>
    if c = "s" then some WProg.skip else
    match c.splitOn "+" with
    | [e] => parsePrim e
    | es => (es.mapM parsePrim).map seqAll

def parsePolicy (s : String) : Option Policy :=
  match s with
  | "stop" => some .stop | "retry" => some .retry | "next" => some .next | "finish" => some .finishOnly
  | _ => none

/-- destination errors print their kind; the writer's own errors are `own:<class>` -/
def resStr : Option SM.WErr → String
  | none => "ok"
  | some (.sink k) => s!"err:kind{k}"
  | some .sinkZero => "err:write-zero"
  | some (.enc .writeZero) => "own:write-zero"
  | some (.enc .invalidInput) => "own:invalid-input"
  | some (.enc .invalidData) => "own:invalid-data"
  | some (.enc .eof) => "own:eof"
  | some (.enc .unreachable) => "panic"

/-- result, `position()`, staged bytes, bytes the destination holds, destination calls -/
def obs (r : Option SM.WErr) (s : St) : String :=
  s!"{resStr r}:{s.w.position}:{s.w.staging.length}:{s.w.sink.accepted.length}:{s.w.sink.calls}"

def traceRetry (D : Deflater) (lvl : Nat) (c : WProg) : Nat → St → List (Option SM.WErr × St) × St
  | 0, s => ([], s)
  | n+1, s =>
    match call D lvl c s with
    | (none, s') => ([(none, s')], s')
    | (some e, s') =>
      let r := traceRetry D lvl c n s'
      ((some e, s') :: r.1, r.2)

/-- `runPol` with the state after every call -/
def traceRun (D : Deflater) (lvl : Nat) (pol : Policy) : List WProg → St → List (Option SM.WErr × St) × St
  | [], s => ([], s)
  | c :: cs, s =>
    match call D lvl c s with
    | (none, s') => let r := traceRun D lvl pol cs s'; ((none, s') :: r.1, r.2)
    | (some e, s') =>
      match pol with
      | .stop => ([(some e, s')], s')
      | .next => let r := traceRun D lvl pol cs s'; ((some e, s') :: r.1, r.2)
      | .retry =>
        let r1 := traceRetry D lvl c 2 s'
        let r := traceRun D lvl pol cs r1.2
        ((some e, s') :: r1.1 ++ r.1, r.2)
      | .finishOnly =>
        match cs.getLast? with
        | none => ([(some e, s')], s')
        | some f => let r := call D lvl f s'; ([(some e, s'), (r.1, r.2)], r.2)

def fmtEnd (s : St) : String :=
  s!"{s.w.sink.accepted.length}:{Crc32.crc32 s.w.sink.accepted}:{s.w.sink.calls}:{if s.hit then 1 else 0}"

def handle? : List String → Option String
  | ["once", lvl, pol, script, fallback, failAt, kind, calls, table] =>
    some <|
    match lvl.toNat?, parsePolicy pol, SM.parseScript script, fallback.toNat?, SM.parseFailAt failAt,
        kind.toNat?, parseCalls calls, parseDefTable table with
    | some lvl, some pol, some script, some fallback, some failAt, some kind, some calls, some dt =>
      let D := tableDeflater dt []
      let s0 := St.init (SM.Sink.fresh script fallback failAt kind)
      let (tr, s1) := traceRun D lvl pol calls s0
      -- the traced replay and `runPol` (the function the theorems are about) must agree
      let r := runPol D lvl pol calls s0
      let consistent := r.2.w.sink.accepted == s1.w.sink.accepted &&
        r.2.w.sink.calls == s1.w.sink.calls && r.2.hit == s1.hit &&
        (r.1.map resStr) == (tr.map fun t => resStr t.1)
      if !consistent then "model-inconsistent" else
      let s2 := dropSt D lvl s1
      let trs := if tr.isEmpty then "-" else ",".intercalate (tr.map fun t => obs t.1 t.2)
      s!"{trs} | pre={fmtEnd s1} post={fmtEnd s2}"
    | _, _, _, _, _, _, _, _ => "bad-op"
  | "once" :: _ => some "bad-op"
  | _ => none

end Noodles.WP.Once.Driver
