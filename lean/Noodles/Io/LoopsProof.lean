import Noodles.Io.Loops
/-!
# Helper lemmas for C12: every modelled loop refines a function of the undelivered bytes alone

Unbuffered loops (over a `Src`): result and remaining data are functions of `s.data`, never of
`s.sched`. Buffered loops (over a `BufR`): result and remaining logical stream are functions of
`b.stream = b.buf ++ b.src.data`, never of the schedule, the capacity or how the stream is split
between buffer and source.
-/
namespace Noodles.IO
variable {α : Type}

/-! ## `read` -/

/-- a `read` that is not interrupted hands over a prefix of `1 ≤ k ≤ want` requested bytes (all
there is, if less) and leaves the rest; the schedule does not grow -/
theorem read_cases (s : Src α) (want : Nat) (hw : want ≠ 0) :
    (∃ sc, s.sched = .interrupted :: sc ∧ read s want = (.interrupted, ⟨s.data, sc⟩)) ∨
    (∃ k sc, 1 ≤ k ∧ k ≤ want ∧ sc.length ≤ s.sched.length ∧
      read s want = (.ok (s.data.take k), ⟨s.data.drop k, sc⟩)) := by
  cases hs : s.sched with
  | nil =>
    right
    exact ⟨want, [], by omega, Nat.le_refl _, by simp, read_nil s want hs⟩
  | cons d sc =>
    cases d with
    | interrupted => left; exact ⟨sc, rfl, read_intr s want sc hs⟩
    | chunk n =>
      right
      refine ⟨min want (max n 1), sc, by omega, Nat.min_le_left _ _, by simp, read_chunk s want n sc hs⟩

theorem take_take_drop (l : List α) (k want : Nat) (hk : k ≤ want) :
    l.take k ++ (l.drop k).take (want - (l.take k).length) = l.take want ∧
    (l.drop k).drop (want - (l.take k).length) = l.drop want := by
  by_cases h : k ≤ l.length
  · have hl : (l.take k).length = k := by simp [List.length_take]; omega
    rw [hl]
    constructor
    · rw [← List.take_add]; congr 1; omega
    · simp only [List.drop_drop]; congr 1; omega
  · have h1 : l.take k = l := List.take_of_length_le (by omega)
    have h2 : l.drop k = [] := List.drop_of_length_le (by omega)
    have h3 : l.take want = l := List.take_of_length_le (by omega)
    have h4 : l.drop want = [] := List.drop_of_length_le (by omega)
    rw [h1, h2, h3, h4]; simp

/-! ## `gather` -/

theorem gather_zero (fuel : Nat) (s : Src α) (acc : List α) : gather (fuel+1) s 0 acc = (acc, s) := by
  simp [gather]

theorem gather_intr (fuel : Nat) (s s' : Src α) (want : Nat) (acc : List α) (hw : want ≠ 0)
    (hr : read s want = (.interrupted, s')) :
    gather (fuel+1) s want acc = gather fuel s' want acc := by
  rw [gather, if_neg hw, hr]

theorem gather_ok (fuel : Nat) (s s' : Src α) (want : Nat) (acc bs : List α) (hw : want ≠ 0)
    (hr : read s want = (.ok bs, s')) (hb : bs.length ≠ 0) :
    gather (fuel+1) s want acc = gather fuel s' (want - bs.length) (acc ++ bs) := by
  rw [gather, if_neg hw, hr]; simp only; rw [if_neg hb]

theorem gather_eof (fuel : Nat) (s s' : Src α) (want : Nat) (acc bs : List α) (hw : want ≠ 0)
    (hr : read s want = (.ok bs, s')) (hb : bs.length = 0) :
    gather (fuel+1) s want acc = (acc, s') := by
  rw [gather, if_neg hw, hr]; simp only; rw [if_pos hb]

/-- **`gather` delivers exactly the next `want` bytes (all there is, if less), whatever the
schedule**, and leaves exactly the rest. -/
theorem gather_spec (fuel : Nat) (s : Src α) (want : Nat) (acc : List α)
    (hf : want + s.sched.length < fuel) :
    (gather fuel s want acc).1 = acc ++ s.data.take want ∧
    (gather fuel s want acc).2.data = s.data.drop want := by
  induction fuel generalizing s want acc with
  | zero => omega
  | succ fuel ih =>
    by_cases h0 : want = 0
    · subst h0; simp [gather]
    · rcases read_cases s want h0 with ⟨sc, hs, hr⟩ | ⟨k, sc, hk1, hkw, hsc, hr⟩
      · rw [gather_intr fuel s _ want acc h0 hr]
        exact ih ⟨s.data, sc⟩ want acc (by rw [hs] at hf; simp at hf ⊢; omega)
      · by_cases hb : (s.data.take k).length = 0
        · rw [gather_eof fuel s _ want acc _ h0 hr hb]
          have hd : s.data = [] := by
            cases hdata : s.data with
            | nil => rfl
            | cons x xs => rw [hdata] at hb; simp [List.length_take] at hb; omega
          simp [hd]
        · rw [gather_ok fuel s _ want acc _ h0 hr hb]
          have hpos : 0 < (s.data.take k).length := Nat.pos_of_ne_zero hb
          have hle : (s.data.take k).length ≤ k := by simp [List.length_take]; omega
          obtain ⟨h1, h2⟩ := ih ⟨s.data.drop k, sc⟩ (want - (s.data.take k).length) (acc ++ s.data.take k)
            (by simp only; omega)
          obtain ⟨t1, t2⟩ := take_take_drop s.data k want hkw
          constructor
          · rw [h1]; simp only [List.append_assoc]; rw [t1]
          · rw [h2]; exact t2

theorem gather_spec' (s : Src α) (want : Nat) :
    (gather (gatherFuel s want) s want []).1 = s.data.take want ∧
    (gather (gatherFuel s want) s want []).2.data = s.data.drop want := by
  have := gather_spec (gatherFuel s want) s want [] (by simp [gatherFuel])
  simpa using this

/-! ## `default_read_exact`, `read_exact_or_eof` -/

/-- closed form of `default_read_exact` on the undelivered bytes -/
def specReadExact (data : List α) (want : Nat) : Except Err (List α) × List α :=
  if want ≤ data.length then (.ok (data.take want), data.drop want) else (.error .eof, [])

theorem defaultReadExact_spec (s : Src α) (want : Nat) :
    (defaultReadExact s want).1 = (specReadExact s.data want).1 ∧
    (defaultReadExact s want).2.data = (specReadExact s.data want).2 := by
  obtain ⟨h1, h2⟩ := gather_spec' s want
  unfold defaultReadExact specReadExact
  simp only
  rw [h1]
  by_cases h : want ≤ s.data.length
  · have : (s.data.take want).length = want := by simp [List.length_take]; omega
    rw [if_pos this, if_pos h]; exact ⟨rfl, h2⟩
  · have : (s.data.take want).length ≠ want := by simp [List.length_take]; omega
    rw [if_neg this, if_neg h]
    refine ⟨rfl, ?_⟩
    rw [h2]; exact List.drop_of_length_le (by omega)

/-- closed form of `read_exact_or_eof`: full buffer, or nothing at a clean end of stream, or
`UnexpectedEof` for a partial fill -/
def specReadExactOrEof (data : List α) (want : Nat) : Except Err (List α) × List α :=
  if want ≤ data.length then (.ok (data.take want), data.drop want)
  else if data.length = 0 then (.ok [], []) else (.error .eof, [])

theorem readExactOrEof_spec (s : Src α) (want : Nat) :
    (readExactOrEof s want).1 = (specReadExactOrEof s.data want).1 ∧
    (readExactOrEof s want).2.data = (specReadExactOrEof s.data want).2 := by
  obtain ⟨h1, h2⟩ := gather_spec' s want
  unfold readExactOrEof specReadExactOrEof
  simp only
  rw [h1]
  by_cases h : want ≤ s.data.length
  · have hl : (s.data.take want).length = want := by simp [List.length_take]; omega
    rw [if_neg (by rw [hl]; omega), if_pos h]; exact ⟨rfl, h2⟩
  · have hdrop : s.data.drop want = [] := List.drop_of_length_le (by omega)
    have htake : s.data.take want = s.data := List.take_of_length_le (by omega)
    rw [if_neg h, htake]
    by_cases hz : s.data.length = 0
    · have : s.data = [] := List.eq_nil_of_length_eq_zero hz
      rw [if_neg (by omega), if_pos hz]; simp [this, h2]
    · rw [if_pos (by omega), if_neg hz]; exact ⟨rfl, by rw [h2, hdrop]⟩

/-! ## schedule-irrelevant functions compose -/

/-- result and remaining data of `f` depend only on the data of the source -/
def Irrel {β : Type} (f : Src α → β × Src α) : Prop :=
  ∀ s₁ s₂ : Src α, s₁.data = s₂.data → (f s₁).1 = (f s₂).1 ∧ (f s₁).2.data = (f s₂).2.data

theorem irrel_of_spec {β : Type} (f : Src α → β × Src α) (spec : List α → β × List α)
    (h : ∀ s, (f s).1 = (spec s.data).1 ∧ (f s).2.data = (spec s.data).2) : Irrel f := by
  intro s₁ s₂ hd
  obtain ⟨a1, a2⟩ := h s₁
  obtain ⟨b1, b2⟩ := h s₂
  rw [a1, a2, b1, b2, hd]; exact ⟨rfl, rfl⟩

theorem defaultReadExact_irrel (want : Nat) : Irrel (fun s : Src α => defaultReadExact s want) :=
  irrel_of_spec _ (fun d => specReadExact d want) (fun s => defaultReadExact_spec s want)

theorem readExactOrEof_irrel (want : Nat) : Irrel (fun s : Src α => readExactOrEof s want) :=
  irrel_of_spec _ (fun d => specReadExactOrEof d want) (fun s => readExactOrEof_spec s want)

/-! ## BAM record framing -/

theorem bamReadRecord_irrel : Irrel bamReadRecord := by
  intro s₁ s₂ hd
  obtain ⟨a1, a2⟩ := readExactOrEof_irrel 4 s₁ s₂ hd
  simp only at a1 a2
  unfold bamReadRecord
  rcases h1 : readExactOrEof s₁ 4 with ⟨r1, t1⟩
  rcases h2 : readExactOrEof s₂ 4 with ⟨r2, t2⟩
  rw [h1, h2] at a1 a2
  simp only at a1 a2
  subst a1
  cases r1 with
  | error e => exact ⟨rfl, a2⟩
  | ok hdr =>
    simp only
    by_cases hn : leNat (zeroPad 4 hdr) = 0
    · rw [if_pos hn, if_pos hn]; exact ⟨rfl, a2⟩
    · rw [if_neg hn, if_neg hn]
      obtain ⟨b1, b2⟩ := defaultReadExact_irrel (leNat (zeroPad 4 hdr)) t1 t2 a2
      simp only at b1 b2
      rcases h3 : defaultReadExact t1 (leNat (zeroPad 4 hdr)) with ⟨r3, t3⟩
      rcases h4 : defaultReadExact t2 (leNat (zeroPad 4 hdr)) with ⟨r4, t4⟩
      rw [h3, h4] at b1 b2
      simp only at b1 b2
      subst b1
      cases r3 with
      | error e => exact ⟨rfl, b2⟩
      | ok body =>
        simp only
        by_cases hv : bamValidate body = true
        · rw [if_pos hv, if_pos hv]; exact ⟨rfl, b2⟩
        · rw [if_neg hv, if_neg hv]; exact ⟨rfl, b2⟩

theorem bamRecords_irrel (fuel : Nat) (acc : List Bytes) : Irrel (fun s => bamRecords fuel s acc) := by
  induction fuel generalizing acc with
  | zero => intro s₁ s₂ hd; simp [bamRecords, hd]
  | succ fuel ih =>
    intro s₁ s₂ hd
    obtain ⟨a1, a2⟩ := bamReadRecord_irrel s₁ s₂ hd
    simp only [bamRecords]
    rcases h1 : bamReadRecord s₁ with ⟨r1, t1⟩
    rcases h2 : bamReadRecord s₂ with ⟨r2, t2⟩
    rw [h1, h2] at a1 a2
    simp only at a1 a2
    subst a1
    cases r1 with
    | eof => exact ⟨rfl, a2⟩
    | err e => exact ⟨rfl, a2⟩
    | record r => exact ih (r :: acc) t1 t2 a2

/-! ## BGZF framing -/

theorem readFrameInto_irrel : Irrel readFrameInto := by
  intro s₁ s₂ hd
  obtain ⟨a1, a2⟩ := defaultReadExact_irrel BGZF_HEADER_SIZE s₁ s₂ hd
  simp only at a1 a2
  unfold readFrameInto
  rcases h1 : defaultReadExact s₁ BGZF_HEADER_SIZE with ⟨r1, t1⟩
  rcases h2 : defaultReadExact s₂ BGZF_HEADER_SIZE with ⟨r2, t2⟩
  rw [h1, h2] at a1 a2
  simp only at a1 a2
  subst a1
  cases r1 with
  | error e => exact ⟨rfl, a2⟩
  | ok hdr =>
    simp only
    by_cases hn : leNat (hdr.drop 16) + 1 < MIN_FRAME_SIZE
    · rw [if_pos hn, if_pos hn]; exact ⟨rfl, a2⟩
    · rw [if_neg hn, if_neg hn]
      obtain ⟨b1, b2⟩ := defaultReadExact_irrel (leNat (hdr.drop 16) + 1 - BGZF_HEADER_SIZE) t1 t2 a2
      simp only at b1 b2
      rcases h3 : defaultReadExact t1 (leNat (hdr.drop 16) + 1 - BGZF_HEADER_SIZE) with ⟨r3, t3⟩
      rcases h4 : defaultReadExact t2 (leNat (hdr.drop 16) + 1 - BGZF_HEADER_SIZE) with ⟨r4, t4⟩
      rw [h3, h4] at b1 b2
      simp only at b1 b2
      subst b1
      cases r3 with
      | error e => exact ⟨rfl, b2⟩
      | ok rest => exact ⟨rfl, b2⟩

theorem bgzfFrames_irrel (fuel : Nat) (acc : List Bytes) : Irrel (fun s => bgzfFrames fuel s acc) := by
  induction fuel generalizing acc with
  | zero => intro s₁ s₂ hd; simp [bgzfFrames, hd]
  | succ fuel ih =>
    intro s₁ s₂ hd
    obtain ⟨a1, a2⟩ := readFrameInto_irrel s₁ s₂ hd
    simp only [bgzfFrames]
    rcases h1 : readFrameInto s₁ with ⟨r1, t1⟩
    rcases h2 : readFrameInto s₂ with ⟨r2, t2⟩
    rw [h1, h2] at a1 a2
    simp only at a1 a2
    subst a1
    cases r1 with
    | none => exact ⟨rfl, a2⟩
    | err e => exact ⟨rfl, a2⟩
    | frame f => exact ih (f :: acc) t1 t2 a2

theorem readNonemptyBlock_irrel (fuel adv : Nat) : Irrel (fun s => readNonemptyBlock fuel s adv) := by
  induction fuel generalizing adv with
  | zero => intro s₁ s₂ hd; simp [readNonemptyBlock, hd]
  | succ fuel ih =>
    intro s₁ s₂ hd
    obtain ⟨a1, a2⟩ := readFrameInto_irrel s₁ s₂ hd
    simp only [readNonemptyBlock]
    rcases h1 : readFrameInto s₁ with ⟨r1, t1⟩
    rcases h2 : readFrameInto s₂ with ⟨r2, t2⟩
    rw [h1, h2] at a1 a2
    simp only at a1 a2
    subst a1
    cases r1 with
    | none => exact ⟨rfl, a2⟩
    | err e => exact ⟨rfl, a2⟩
    | frame f =>
      simp only
      cases parseFrame f with
      | error e => exact ⟨rfl, a2⟩
      | ok isize =>
        simp only
        by_cases hz : isize > 0
        · rw [if_pos hz, if_pos hz]; exact ⟨rfl, a2⟩
        · rw [if_neg hz, if_neg hz]; exact ih (adv + f.length) t1 t2 a2

theorem bgzfBlocks_irrel (fuel pos : Nat) (acc : List (Nat × Nat)) :
    Irrel (fun s => bgzfBlocks fuel s pos acc) := by
  induction fuel generalizing pos acc with
  | zero => intro s₁ s₂ hd; simp [bgzfBlocks, hd]
  | succ fuel ih =>
    intro s₁ s₂ hd
    obtain ⟨a1, a2⟩ := readNonemptyBlock_irrel (s₁.data.length + 1) 0 s₁ s₂ hd
    simp only at a1 a2
    simp only [bgzfBlocks]
    rw [← hd]
    rcases h1 : readNonemptyBlock (s₁.data.length + 1) s₁ 0 with ⟨r1, t1⟩
    rcases h2 : readNonemptyBlock (s₁.data.length + 1) s₂ 0 with ⟨r2, t2⟩
    rw [h1, h2] at a1 a2
    simp only at a1 a2
    subst a1
    cases r1 with
    | error e => exact ⟨rfl, a2⟩
    | ok p =>
      obtain ⟨adv, len⟩ := p
      simp only
      by_cases hz : len = 0
      · rw [if_pos hz, if_pos hz]; exact ⟨rfl, a2⟩
      · rw [if_neg hz, if_neg hz]; exact ih (pos + adv) ((pos + adv, len) :: acc) t1 t2 a2

/-! ## `BufReader` -/

/-- termination measure of every buffered loop: undelivered bytes + schedule entries left -/
def mu (b : BufR α) : Nat := b.stream.length + b.src.sched.length

theorem mu_lt_fuel (b : BufR α) : mu b < b.fuel := by simp [mu, BufR.fuel]

theorem fillBuf_cases (b : BufR α) (hc : 0 < b.cap) :
    (∃ b', fillBuf b = (.interrupted, b') ∧ b'.stream = b.stream ∧ b'.cap = b.cap ∧ mu b' < mu b) ∨
    (∃ w b', fillBuf b = (.ok w, b') ∧ b'.buf = w ∧ b'.stream = b.stream ∧ b'.cap = b.cap ∧
       b'.src.sched.length ≤ b.src.sched.length ∧ (w = [] → b.stream = [])) := by
  unfold fillBuf
  by_cases hb : b.buf.length ≠ 0
  · right
    rw [if_pos hb]
    refine ⟨b.buf, b, rfl, rfl, rfl, rfl, Nat.le_refl _, ?_⟩
    intro h; rw [h] at hb; simp at hb
  · rw [if_neg hb]
    have hbuf : b.buf = [] := List.eq_nil_of_length_eq_zero (by omega)
    rcases read_cases b.src b.cap (by omega) with ⟨sc, hs, hr⟩ | ⟨k, sc, hk1, _, hsc, hr⟩
    · left
      rw [hr]
      refine ⟨{ b with src := ⟨b.src.data, sc⟩ }, rfl, ?_, rfl, ?_⟩
      · simp [BufR.stream]
      · simp [mu, BufR.stream, hs]
    · right
      rw [hr]
      refine ⟨b.src.data.take k, { b with buf := b.src.data.take k, src := ⟨b.src.data.drop k, sc⟩ }, rfl, rfl, ?_, rfl, hsc, ?_⟩
      · simp [BufR.stream, hbuf]
      · intro h
        have : b.src.data = [] := by
          cases hd : b.src.data with
          | nil => rfl
          | cons x xs => rw [hd] at h; simp at h; omega
        simp [BufR.stream, hbuf, this]

theorem consume_stream (b : BufR α) (n : Nat) (hn : n ≤ b.buf.length) :
    (consume n b).stream = b.stream.drop n := by
  simp only [consume, BufR.stream]
  rw [List.drop_append_of_le_length hn]

/-! ## `findSplit` (the `memchr` family) -/

theorem findSplit_some_eq (p : α → Bool) (w pre post : List α) (d : α)
    (h : findSplit p w = some (pre, d, post)) : w = pre ++ d :: post := by
  induction w generalizing pre with
  | nil => simp [findSplit] at h
  | cons x xs ih =>
    simp only [findSplit] at h
    by_cases hp : p x = true
    · rw [if_pos hp] at h
      simp only [Option.some.injEq, Prod.mk.injEq] at h
      obtain ⟨rfl, rfl, rfl⟩ := h
      rfl
    · rw [if_neg hp] at h
      cases hf : findSplit p xs with
      | none => rw [hf] at h; simp at h
      | some t =>
        obtain ⟨pre', d', post'⟩ := t
        rw [hf] at h
        simp only [Option.some.injEq, Prod.mk.injEq] at h
        obtain ⟨rfl, rfl, rfl⟩ := h
        rw [ih pre' hf]; rfl

theorem findSplit_append_some (p : α → Bool) (w ys pre post : List α) (d : α)
    (h : findSplit p w = some (pre, d, post)) :
    findSplit p (w ++ ys) = some (pre, d, post ++ ys) := by
  induction w generalizing pre with
  | nil => simp [findSplit] at h
  | cons x xs ih =>
    simp only [findSplit, List.cons_append] at h ⊢
    by_cases hp : p x = true
    · rw [if_pos hp] at h ⊢
      simp only [Option.some.injEq, Prod.mk.injEq] at h
      obtain ⟨rfl, rfl, rfl⟩ := h
      rfl
    · rw [if_neg hp] at h ⊢
      cases hf : findSplit p xs with
      | none => rw [hf] at h; simp at h
      | some t =>
        obtain ⟨pre', d', post'⟩ := t
        rw [hf] at h
        simp only [Option.some.injEq, Prod.mk.injEq] at h
        obtain ⟨rfl, rfl, rfl⟩ := h
        rw [ih pre' hf]

theorem findSplit_append_none (p : α → Bool) (w ys : List α) (h : findSplit p w = none) :
    findSplit p (w ++ ys) = (findSplit p ys).map (fun t => (w ++ t.1, t.2.1, t.2.2)) := by
  induction w with
  | nil =>
    simp only [List.nil_append]
    cases findSplit p ys with
    | none => rfl
    | some t => simp
  | cons x xs ih =>
    simp only [findSplit, List.cons_append] at h ⊢
    by_cases hp : p x = true
    · rw [if_pos hp] at h; simp at h
    · rw [if_neg hp] at h ⊢
      cases hf : findSplit p xs with
      | some t => rw [hf] at h; simp at h
      | none =>
        rw [ih hf]
        cases findSplit p ys <;> simp

/-! ## `read_until` -/

/-- closed form of `read_until` on the stream: through the first delimiter, or everything -/
def specUntil (p : α → Bool) (xs : List α) : List α × List α :=
  match findSplit p xs with
  | some (pre, d, post) => (pre ++ [d], post)
  | none => (xs, [])

theorem readUntil_spec (p : α → Bool) (fuel : Nat) (b : BufR α) (acc : List α)
    (hc : 0 < b.cap) (hf : mu b < fuel) :
    (readUntil p fuel b acc).1 = acc ++ (specUntil p b.stream).1 ∧
    (readUntil p fuel b acc).2.stream = (specUntil p b.stream).2 ∧
    (readUntil p fuel b acc).2.cap = b.cap := by
  induction fuel generalizing b acc with
  | zero => omega
  | succ fuel ih =>
    rcases fillBuf_cases b hc with ⟨b', hfb, hst, hcap, hmu⟩ | ⟨w, b', hfb, hbuf, hst, hcap, hsc, hnil⟩
    · simp only [readUntil, hfb]
      obtain ⟨h1, h2, h3⟩ := ih b' acc (by omega) (by omega)
      rw [hst] at h1 h2
      exact ⟨h1, h2, by rw [h3, hcap]⟩
    · simp only [readUntil, hfb]
      have hstream : b.stream = w ++ b'.src.data := by rw [← hst, BufR.stream, hbuf]
      cases hfs : findSplit p w with
      | some t =>
        obtain ⟨pre, d, post⟩ := t
        simp only
        have hw := findSplit_some_eq p w pre post d hfs
        have hspec : specUntil p b.stream = (pre ++ [d], post ++ b'.src.data) := by
          rw [hstream, specUntil, findSplit_append_some p w _ pre post d hfs]
        rw [hspec]
        refine ⟨by simp [List.append_assoc], ?_, by simp [consume, hcap]⟩
        rw [consume_stream b' _ (by rw [hbuf, hw]; simp), hst, hstream, hw]
        simp
      | none =>
        simp only
        by_cases hwl : w.length = 0
        · rw [if_pos hwl]
          have hw : w = [] := List.eq_nil_of_length_eq_zero hwl
          have hs := hnil hw
          refine ⟨?_, ?_, hcap⟩
          · rw [hs]; simp [specUntil, findSplit]
          · rw [hst, hs]; simp [specUntil, findSplit]
        · rw [if_neg hwl]
          have hcs : (consume w.length b').stream = b'.src.data := by
            rw [consume_stream b' _ (by rw [hbuf]; exact Nat.le_refl _), hst, hstream]; simp
          obtain ⟨h1, h2, h3⟩ := ih (consume w.length b') (acc ++ w) (by simp [consume, hcap]; omega)
            (by
              have : mu (consume w.length b') + w.length ≤ mu b := by
                simp only [mu, hcs]
                have : (consume w.length b').src = b'.src := rfl
                rw [this, hstream]; simp; omega
              omega)
          rw [hcs] at h1 h2
          have hspec : specUntil p b.stream =
              (w ++ (specUntil p b'.src.data).1, (specUntil p b'.src.data).2) := by
            rw [hstream]
            simp only [specUntil]
            rw [findSplit_append_none p w _ hfs]
            cases findSplit p b'.src.data with
            | none => simp
            | some t => obtain ⟨pre, d, post⟩ := t; simp
          rw [hspec]
          refine ⟨by rw [h1]; simp [List.append_assoc], h2, by rw [h3]; simp [consume, hcap]⟩

/-! ## the scanner loop -/

/-- a window function `k` agrees with a stream function `spec`: stopping leaves the stream as it is
and returns `spec`'s result; consuming `n` bytes and moving to state `st'` does not change what
`spec` computes. `w` is the `fill_buf` window (empty only at end of stream), `ys` the rest. -/
structure ScanSpec {σ ρ : Type} (k : σ → List α → Scan σ ρ) (spec : σ → List α → ρ × List α) : Prop where
  done : ∀ st w ys r, (w = [] → ys = []) → k st w = .done r → spec st (w ++ ys) = (r, w ++ ys)
  more : ∀ st w ys st' n, (w = [] → ys = []) → k st w = .more st' n →
    0 < n ∧ n ≤ w.length ∧ spec st (w ++ ys) = spec st' ((w ++ ys).drop n)
  last : ∀ st w ys r n, (w = [] → ys = []) → k st w = .last r n →
    n ≤ w.length ∧ spec st (w ++ ys) = (r, (w ++ ys).drop n)

/-- **The scanner loop with retry computes `spec` of the stream, whatever the schedule and the
buffer capacity.** -/
theorem scanLoop_spec {σ ρ : Type} (k : σ → List α → Scan σ ρ) (spec : σ → List α → ρ × List α)
    (H : ScanSpec k spec) (fuel : Nat) (st : σ) (b : BufR α) (hc : 0 < b.cap) (hf : mu b < fuel) :
    (scanLoop true k fuel st b).1 = .ok (spec st b.stream).1 ∧
    (scanLoop true k fuel st b).2.stream = (spec st b.stream).2 ∧
    (scanLoop true k fuel st b).2.cap = b.cap := by
  induction fuel generalizing b st with
  | zero => omega
  | succ fuel ih =>
    rcases fillBuf_cases b hc with ⟨b', hfb, hst, hcap, hmu⟩ | ⟨w, b', hfb, hbuf, hst, hcap, hsc, hnil⟩
    · simp only [scanLoop, hfb, if_true]
      obtain ⟨h1, h2, h3⟩ := ih st b' (by omega) (by omega)
      rw [hst] at h1 h2
      exact ⟨h1, h2, by rw [h3, hcap]⟩
    · simp only [scanLoop, hfb]
      have hstream : b.stream = w ++ b'.src.data := by rw [← hst, BufR.stream, hbuf]
      have hys : w = [] → b'.src.data = [] := by
        intro hw
        have := hnil hw
        rw [hstream, hw] at this
        simpa using this
      cases hk : k st w with
      | done r =>
        simp only
        have := H.done st w b'.src.data r hys hk
        rw [hstream, this]
        exact ⟨rfl, by rw [hst, hstream], hcap⟩
      | more st' n =>
        simp only
        obtain ⟨hn0, hnw, hsp⟩ := H.more st w b'.src.data st' n hys hk
        have hcs : (consume n b').stream = b.stream.drop n := by
          rw [consume_stream b' n (by rw [hbuf]; exact hnw), hst]
        obtain ⟨h1, h2, h3⟩ := ih st' (consume n b') (by simp [consume, hcap]; omega)
          (by
            have : mu (consume n b') + n ≤ mu b := by
              simp only [mu, hcs]
              have : (consume n b').src = b'.src := rfl
              rw [this, List.length_drop]
              have : n ≤ b.stream.length := by rw [hstream]; simp; omega
              omega
            omega)
        rw [hcs] at h1 h2
        rw [hstream] at h1 h2 ⊢
        rw [hsp]
        exact ⟨h1, h2, by rw [h3]; simp [consume, hcap]⟩
      | last r n =>
        simp only
        obtain ⟨hnw, hsp⟩ := H.last st w b'.src.data r n hys hk
        have hcs : (consume n b').stream = b.stream.drop n := by
          rw [consume_stream b' n (by rw [hbuf]; exact hnw), hst]
        rw [hcs, hstream, hsp]
        exact ⟨rfl, rfl, by simp [consume, hcap]⟩

/-- no `Interrupted` in the schedule -/
def NoIntr : List Delivery → Prop
  | [] => True
  | .interrupted :: _ => False
  | .chunk _ :: sc => NoIntr sc

theorem fillBuf_noIntr (b : BufR α) (h : NoIntr b.src.sched) :
    (∃ w, (fillBuf b).1 = .ok w) ∧ NoIntr (fillBuf b).2.src.sched := by
  unfold fillBuf
  by_cases hb : b.buf.length ≠ 0
  · rw [if_pos hb]; exact ⟨⟨_, rfl⟩, h⟩
  · rw [if_neg hb]
    cases hs : b.src.sched with
    | nil => rw [read_nil b.src b.cap hs]; exact ⟨⟨_, rfl⟩, trivial⟩
    | cons d sc =>
      cases d with
      | interrupted => rw [hs] at h; exact absurd h (by simp [NoIntr])
      | chunk n =>
        rw [read_chunk b.src b.cap n sc hs]
        rw [hs] at h
        exact ⟨⟨_, rfl⟩, h⟩

/-- without interruptions today's code (`fill_buf()?`) and the fixed code take the same steps -/
theorem scanLoop_noIntr {σ ρ : Type} (k : σ → List α → Scan σ ρ) (fuel : Nat) (st : σ) (b : BufR α)
    (h : NoIntr b.src.sched) : scanLoop false k fuel st b = scanLoop true k fuel st b := by
  induction fuel generalizing st b with
  | zero => rfl
  | succ fuel ih =>
    obtain ⟨⟨w, hw⟩, hn⟩ := fillBuf_noIntr b h
    rcases hfb : fillBuf b with ⟨r, b'⟩
    rw [hfb] at hw hn
    simp only at hw hn
    subst hw
    simp only [scanLoop, hfb]
    cases k st w with
    | done r => rfl
    | more st' n => exact ih st' (consume n b') hn
    | last r n => rfl

/-! ## scanner instances -/

/-- `read_field` on the stream: up to the first TAB / LF (which is consumed), or everything -/
def specField (st : FieldSt) (xs : Bytes) : FieldSt × Bytes :=
  if st.2.2.isSome then (st, xs)
  else match findSplit (fun c => c == TAB || c == LF) xs with
    | some (pre, d, post) => ((st.1 ++ pre, st.2.1 + (pre.length + 1), some d), post)
    | none => ((st.1 ++ xs, st.2.1 + xs.length, none), [])

theorem fieldStep_spec : ScanSpec fieldStep specField := by
  constructor
  · intro st w ys r hwy hk
    obtain ⟨dst, len, m⟩ := st
    simp only [fieldStep] at hk
    by_cases hc : (m.isSome || decide (w.length = 0)) = true
    · rw [if_pos hc] at hk
      injection hk with hk
      subst hk
      simp only [specField]
      cases m with
      | some d => simp
      | none =>
        simp at hc
        have hy := hwy hc
        rw [hc, hy]
        simp [findSplit]
    · rw [if_neg hc] at hk
      split at hk <;> cases hk
  · intro st w ys st' n hwy hk
    obtain ⟨dst, len, m⟩ := st
    simp only [fieldStep] at hk
    by_cases hc : (m.isSome || decide (w.length = 0)) = true
    · rw [if_pos hc] at hk; cases hk
    · rw [if_neg hc] at hk
      simp only [Bool.or_eq_true, decide_eq_true_eq, not_or, Bool.not_eq_true] at hc
      obtain ⟨hm, hwl⟩ := hc
      have hm' : m = none := by cases m <;> simp_all
      subst hm'
      split at hk
      · rename_i pre d post heq
        injection hk with h1 h2
        subst h1; subst h2
        have hw := findSplit_some_eq _ w pre post d heq
        refine ⟨by omega, by rw [hw]; simp, ?_⟩
        simp only [specField, Option.isSome_none, Bool.false_eq_true, if_false, Option.isSome_some, if_true]
        rw [findSplit_append_some _ w ys pre post d heq]
        simp only
        congr 1
        rw [hw]; simp
      · rename_i heq
        injection hk with h1 h2
        subst h1; subst h2
        refine ⟨by omega, Nat.le_refl _, ?_⟩
        simp only [specField, Option.isSome_none, Bool.false_eq_true, if_false]
        rw [findSplit_append_none _ w ys heq]
        have hd : (w ++ ys).drop w.length = ys := by simp
        rw [hd]
        cases findSplit (fun c => c == TAB || c == LF) ys with
        | none => simp [List.append_assoc, Nat.add_assoc]
        | some t => obtain ⟨pre, d, post⟩ := t; simp [List.append_assoc, Nat.add_assoc]
  · intro st w ys r n _ hk
    simp only [fieldStep] at hk
    split at hk <;> first | cases hk | (split at hk <;> cases hk)

/-- `consume_line` / `discard_line` on the stream -/
def specLineSt (st : Nat × Bool) (xs : Bytes) : Nat × Bytes :=
  if st.2 then (st.1, xs)
  else match findSplit (· == LF) xs with
    | some (pre, _, post) => (st.1 + (pre.length + 1), post)
    | none => (st.1 + xs.length, [])

theorem lineStep_spec : ScanSpec lineStep specLineSt := by
  constructor
  · intro st w ys r hwy hk
    obtain ⟨len, e⟩ := st
    simp only [lineStep] at hk
    by_cases hc : (decide (w.length = 0) || e) = true
    · rw [if_pos hc] at hk
      injection hk with hk
      subst hk
      simp only [specLineSt]
      cases e with
      | true => simp
      | false =>
        simp at hc
        have hy := hwy hc
        rw [hc, hy]
        simp [findSplit]
    · rw [if_neg hc] at hk
      split at hk <;> cases hk
  · intro st w ys st' n hwy hk
    obtain ⟨len, e⟩ := st
    simp only [lineStep] at hk
    by_cases hc : (decide (w.length = 0) || e) = true
    · rw [if_pos hc] at hk; cases hk
    · rw [if_neg hc] at hk
      simp only [Bool.or_eq_true, decide_eq_true_eq, not_or, Bool.not_eq_true] at hc
      obtain ⟨hwl, he⟩ := hc
      subst he
      split at hk
      · rename_i pre d post heq
        injection hk with h1 h2
        subst h1; subst h2
        have hw := findSplit_some_eq _ w pre post d heq
        refine ⟨by omega, by rw [hw]; simp, ?_⟩
        simp only [specLineSt, Bool.false_eq_true, if_false, if_true]
        rw [findSplit_append_some _ w ys pre post d heq]
        simp only
        congr 1
        rw [hw]; simp
      · rename_i heq
        injection hk with h1 h2
        subst h1; subst h2
        refine ⟨by omega, Nat.le_refl _, ?_⟩
        simp only [specLineSt, Bool.false_eq_true, if_false]
        rw [findSplit_append_none _ w ys heq]
        have hd : (w ++ ys).drop w.length = ys := by simp
        rw [hd]
        cases findSplit (fun c => c == LF) ys with
        | none => simp [Nat.add_assoc]
        | some t => obtain ⟨pre, d, post⟩ := t; simp [Nat.add_assoc]
  · intro st w ys r n _ hk
    simp only [lineStep] at hk
    split at hk <;> first | cases hk | (split at hk <;> cases hk)

/-- `discard_to_end` on the stream -/
def specDiscard (n : Nat) (xs : List α) : Nat × List α := (n + xs.length, [])

theorem discardStep_spec : ScanSpec (discardStep (α := α)) specDiscard := by
  constructor
  · intro st w ys r hwy hk
    simp only [discardStep] at hk
    by_cases hc : w.length = 0
    · rw [if_pos hc] at hk
      injection hk with hk
      subst hk
      have hw : w = [] := List.eq_nil_of_length_eq_zero hc
      rw [hw, hwy hw]; simp [specDiscard]
    · rw [if_neg hc] at hk; cases hk
  · intro st w ys st' n hwy hk
    simp only [discardStep] at hk
    by_cases hc : w.length = 0
    · rw [if_pos hc] at hk; cases hk
    · rw [if_neg hc] at hk
      injection hk with h1 h2
      subst h1; subst h2
      refine ⟨by omega, Nat.le_refl _, ?_⟩
      simp [specDiscard, Nat.add_assoc]
  · intro st w ys r n _ hk
    simp only [discardStep] at hk
    split at hk <;> cases hk

/-- the first byte of the stream -/
def specPeek (_ : Unit) (xs : List α) : Option α × List α := (xs.head?, xs)

theorem peekStep_spec : ScanSpec (peekStep (α := α)) specPeek := by
  constructor
  · intro st w ys r hwy hk
    simp only [peekStep] at hk
    injection hk with hk
    subst hk
    simp only [specPeek]
    cases w with
    | nil => rw [hwy rfl]; rfl
    | cons x xs => rfl
  · intro st w ys st' n hwy hk
    simp only [peekStep] at hk
    cases hk
  · intro st w ys r n _ hk
    simp only [peekStep] at hk
    cases hk

/-- the FASTQ name scanner (fixed) on the stream -/
def specName (st : NameSt) (xs : Bytes) : NameSt × Bytes :=
  if st.2.2.2 then (st, xs)
  else match findSplit (fun c => c == SPACE || c == TAB || c == LF) xs with
    | some (pre, d, post) => ((st.1 ++ pre, st.2.1 + (pre.length + 1), d == LF, true), post)
    | none => ((st.1 ++ xs, st.2.1 + xs.length, st.2.2.1, false), [])

theorem nameStep_spec : ScanSpec (nameStep true) specName := by
  constructor
  · intro st w ys r hwy hk
    obtain ⟨nm, len, e, m⟩ := st
    simp only [nameStep] at hk
    by_cases hc : (m || decide (w.length = 0)) = true
    · rw [if_pos hc] at hk
      injection hk with hk
      subst hk
      simp only [specName]
      cases m with
      | true => simp
      | false =>
        simp at hc
        have hy := hwy hc
        rw [hc, hy]
        simp [findSplit]
    · rw [if_neg hc] at hk
      split at hk <;> cases hk
  · intro st w ys st' n hwy hk
    obtain ⟨nm, len, e, m⟩ := st
    simp only [nameStep] at hk
    by_cases hc : (m || decide (w.length = 0)) = true
    · rw [if_pos hc] at hk; cases hk
    · rw [if_neg hc] at hk
      simp only [Bool.or_eq_true, decide_eq_true_eq, not_or, Bool.not_eq_true] at hc
      obtain ⟨hm, hwl⟩ := hc
      subst hm
      split at hk
      · rename_i pre d post heq
        injection hk with h1 h2
        subst h1; subst h2
        have hw := findSplit_some_eq _ w pre post d heq
        refine ⟨by omega, by rw [hw]; simp, ?_⟩
        simp only [specName, Bool.false_eq_true, if_false, if_true, Bool.not_true, Bool.and_false]
        rw [findSplit_append_some _ w ys pre post d heq]
        simp only
        congr 1
        rw [hw]; simp
      · rename_i heq
        injection hk with h1 h2
        subst h1; subst h2
        refine ⟨by omega, Nat.le_refl _, ?_⟩
        simp only [specName, Bool.false_eq_true, if_false]
        rw [findSplit_append_none _ w ys heq]
        have hd : (w ++ ys).drop w.length = ys := by simp
        rw [hd]
        cases findSplit (fun c => c == SPACE || c == TAB || c == LF) ys with
        | none => simp [List.append_assoc, Nat.add_assoc]
        | some t => obtain ⟨pre, d, post⟩ := t; simp [List.append_assoc, Nat.add_assoc]
  · intro st w ys r n _ hk
    simp only [nameStep] at hk
    split at hk <;> first | cases hk | (split at hk <;> cases hk)

/-! ## `read_u8` -/

theorem readU8_spec (fuel : Nat) (b : BufR α) (hc : 0 < b.cap) (hf : mu b < fuel) :
    (readU8 fuel b).1 = b.stream.head? ∧ (readU8 fuel b).2.stream = b.stream.tail ∧
    (readU8 fuel b).2.cap = b.cap := by
  induction fuel generalizing b with
  | zero => omega
  | succ fuel ih =>
    cases hbuf : b.buf with
    | cons x rest =>
      simp only [readU8, hbuf]
      simp [BufR.stream, hbuf]
    | nil =>
      simp only [readU8, hbuf]
      by_cases hcap : 1 ≥ b.cap
      · rw [if_pos hcap]
        rcases read_cases b.src 1 (by omega) with ⟨sc, hs, hr⟩ | ⟨k, sc, hk1, hkw, hsc, hr⟩
        · rw [hr]
          simp only
          have hb' : ({ b with src := ⟨b.src.data, sc⟩ } : BufR α).stream = b.stream := by
            simp [BufR.stream]
          obtain ⟨h1, h2, h3⟩ := ih { b with src := ⟨b.src.data, sc⟩ } hc
            (by simp only [mu, hb'] ; simp only [mu, hs, List.length_cons] at hf; omega)
          rw [hb'] at h1 h2
          simp only [hbuf] at h1 h2 h3
          exact ⟨h1, h2, h3⟩
        · have hk : k = 1 := by omega
          subst hk
          rw [hr]
          cases hd : b.src.data with
          | nil => simp [BufR.stream, hbuf, hd]
          | cons x xs => simp [BufR.stream, hbuf, hd]
      · rw [if_neg hcap]
        rcases fillBuf_cases b hc with ⟨b', hfb, hst, hcap', hmu⟩ | ⟨w, b', hfb, hbw, hst, hcap', hsc, hnil⟩
        · rw [hfb]
          simp only
          obtain ⟨h1, h2, h3⟩ := ih b' (by omega) (by omega)
          rw [hst] at h1 h2
          exact ⟨h1, h2, by rw [h3, hcap']⟩
        · rw [hfb]
          have hstream : b.stream = w ++ b'.src.data := by rw [← hst, BufR.stream, hbw]
          cases w with
          | nil =>
            simp only
            have := hnil rfl
            rw [this]
            exact ⟨rfl, by rw [hst, this]; rfl, hcap'⟩
          | cons x rest =>
            simp only
            rw [hstream]
            exact ⟨rfl, by simp [BufR.stream], hcap'⟩

/-! ## buffered functions determined by the stream compose -/

/-- result and remaining stream of `f` depend only on the logical stream of the `BufReader` — not on
the schedule, the capacity, or how the stream is split between buffer and source -/
def IrrelB {β : Type} (f : BufR α → β × BufR α) : Prop :=
  ∀ b₁ b₂ : BufR α, 0 < b₁.cap → 0 < b₂.cap → b₁.stream = b₂.stream →
    (f b₁).1 = (f b₂).1 ∧ (f b₁).2.stream = (f b₂).2.stream ∧ 0 < (f b₁).2.cap ∧ 0 < (f b₂).2.cap

theorem irrelB_of_spec {β : Type} (f : BufR α → β × BufR α) (spec : List α → β × List α)
    (h : ∀ b, 0 < b.cap → (f b).1 = (spec b.stream).1 ∧ (f b).2.stream = (spec b.stream).2 ∧
      (f b).2.cap = b.cap) : IrrelB f := by
  intro b₁ b₂ h1 h2 hs
  obtain ⟨a1, a2, a3⟩ := h b₁ h1
  obtain ⟨c1, c2, c3⟩ := h b₂ h2
  rw [a1, a2, a3, c1, c2, c3, hs]
  exact ⟨rfl, rfl, h1, h2⟩

theorem scan_irrelB {σ ρ : Type} (k : σ → List α → Scan σ ρ) (spec : σ → List α → ρ × List α)
    (H : ScanSpec k spec) (st : σ) : IrrelB (fun b => scanLoop true k b.fuel st b) :=
  irrelB_of_spec _ (fun xs => (.ok (spec st xs).1, (spec st xs).2))
    (fun b hc => scanLoop_spec k spec H b.fuel st b hc (mu_lt_fuel b))

theorem readUntil_irrelB (p : α → Bool) : IrrelB (fun b => readUntil p b.fuel b []) :=
  irrelB_of_spec _ (specUntil p) (fun b hc => by
    have := readUntil_spec p b.fuel b [] hc (mu_lt_fuel b)
    simpa using this)

theorem readU8_irrelB : IrrelB (fun b : BufR α => readU8 b.fuel b) :=
  irrelB_of_spec _ (fun xs => (xs.head?, xs.tail)) (fun b hc => readU8_spec b.fuel b hc (mu_lt_fuel b))

theorem readLine_irrelB : IrrelB readLine := by
  intro b₁ b₂ h1 h2 hs
  obtain ⟨a1, a2, a3, a4⟩ := readUntil_irrelB (· == LF) b₁ b₂ h1 h2 hs
  try simp only at a1 a2 a3 a4
  simp only [readLine]
  rw [a1]
  exact ⟨rfl, a2, a3, a4⟩

theorem readField_irrelB : IrrelB (readField true) := by
  intro b₁ b₂ h1 h2 hs
  obtain ⟨a1, a2, a3, a4⟩ := scan_irrelB fieldStep specField fieldStep_spec ([], 0, none) b₁ b₂ h1 h2 hs
  try simp only at a1 a2 a3 a4
  unfold readField
  rcases e1 : scanLoop true fieldStep b₁.fuel ([], 0, none) b₁ with ⟨r1, t1⟩
  rcases e2 : scanLoop true fieldStep b₂.fuel ([], 0, none) b₂ with ⟨r2, t2⟩
  simp only [e1, e2] at a1 a2 a3 a4
  subst a1
  cases r1 with
  | error e => exact ⟨rfl, a2, a3, a4⟩
  | ok x => obtain ⟨dst, len, m⟩ := x; exact ⟨rfl, a2, a3, a4⟩

theorem consumeLine_irrelB : IrrelB (consumeLine true) :=
  scan_irrelB lineStep specLineSt lineStep_spec (0, false)

theorem discardToEnd_irrelB : IrrelB (discardToEnd (α := α) true) :=
  scan_irrelB discardStep specDiscard discardStep_spec 0

theorem peek_irrelB : IrrelB (peek (α := α) true) :=
  scan_irrelB peekStep specPeek peekStep_spec ()

/-! ### FASTQ -/

theorem fastqReadDefinition_irrelB : IrrelB (fastqReadDefinition true) := by
  intro b₁ b₂ h1 h2 hs
  obtain ⟨a1, a2, a3, a4⟩ := readU8_irrelB b₁ b₂ h1 h2 hs
  try simp only at a1 a2 a3 a4
  unfold fastqReadDefinition
  rcases e1 : readU8 b₁.fuel b₁ with ⟨r1, t1⟩
  rcases e2 : readU8 b₂.fuel b₂ with ⟨r2, t2⟩
  simp only [e1, e2] at a1 a2 a3 a4
  subst a1
  cases r1 with
  | none => exact ⟨rfl, a2, a3, a4⟩
  | some c =>
    simp only
    by_cases hc : c ≠ AT
    · rw [if_pos hc, if_pos hc]; exact ⟨rfl, a2, a3, a4⟩
    · rw [if_neg hc, if_neg hc]
      obtain ⟨c1, c2, c3, c4⟩ := scan_irrelB (nameStep true) specName nameStep_spec ([], 1, false, false) t1 t2 a3 a4 a2
      try simp only at c1 c2 c3 c4
      rcases e3 : scanLoop true (nameStep true) t1.fuel ([], 1, false, false) t1 with ⟨r3, t3⟩
      rcases e4 : scanLoop true (nameStep true) t2.fuel ([], 1, false, false) t2 with ⟨r4, t4⟩
      simp only [e3, e4] at c1 c2 c3 c4
      subst c1
      cases r3 with
      | error e => exact ⟨rfl, c2, c3, c4⟩
      | ok x =>
        obtain ⟨name, len, isEol, m⟩ := x
        simp only
        by_cases he : isEol = true
        · rw [if_pos he, if_pos he]; exact ⟨rfl, c2, c3, c4⟩
        · rw [if_neg he, if_neg he]
          obtain ⟨d1, d2, d3, d4⟩ := readLine_irrelB t3 t4 c3 c4 c2
          rw [d1]
          exact ⟨rfl, d2, d3, d4⟩

theorem fastqConsumePlusLine_irrelB : IrrelB (fastqConsumePlusLine true) := by
  intro b₁ b₂ h1 h2 hs
  obtain ⟨a1, a2, a3, a4⟩ := readU8_irrelB b₁ b₂ h1 h2 hs
  try simp only at a1 a2 a3 a4
  unfold fastqConsumePlusLine
  rcases e1 : readU8 b₁.fuel b₁ with ⟨r1, t1⟩
  rcases e2 : readU8 b₂.fuel b₂ with ⟨r2, t2⟩
  simp only [e1, e2] at a1 a2 a3 a4
  subst a1
  cases r1 with
  | none => exact ⟨rfl, a2, a3, a4⟩
  | some c =>
    simp only
    by_cases hc : c ≠ PLUS
    · rw [if_pos hc, if_pos hc]; exact ⟨rfl, a2, a3, a4⟩
    · rw [if_neg hc, if_neg hc]
      obtain ⟨c1, c2, c3, c4⟩ := consumeLine_irrelB t1 t2 a3 a4 a2
      rcases e3 : consumeLine true t1 with ⟨r3, t3⟩
      rcases e4 : consumeLine true t2 with ⟨r4, t4⟩
      simp only [e3, e4] at c1 c2 c3 c4
      subst c1
      cases r3 with
      | error e => exact ⟨rfl, c2, c3, c4⟩
      | ok n => exact ⟨rfl, c2, c3, c4⟩

theorem fastqReadRecord_irrelB : IrrelB (fastqReadRecord true) := by
  intro b₁ b₂ h1 h2 hs
  obtain ⟨a1, a2, a3, a4⟩ := fastqReadDefinition_irrelB b₁ b₂ h1 h2 hs
  unfold fastqReadRecord
  rcases e1 : fastqReadDefinition true b₁ with ⟨r1, t1⟩
  rcases e2 : fastqReadDefinition true b₂ with ⟨r2, t2⟩
  simp only [e1, e2] at a1 a2 a3 a4
  subst a1
  cases r1 with
  | error e => exact ⟨rfl, a2, a3, a4⟩
  | ok x =>
    obtain ⟨n, name, desc⟩ := x
    cases n with
    | zero => exact ⟨rfl, a2, a3, a4⟩
    | succ n =>
      simp only
      obtain ⟨c1, c2, c3, c4⟩ := readLine_irrelB t1 t2 a3 a4 a2
      rw [c1]
      obtain ⟨d1, d2, d3, d4⟩ := fastqConsumePlusLine_irrelB (readLine t1).2 (readLine t2).2 c3 c4 c2
      rcases e3 : fastqConsumePlusLine true (readLine t1).2 with ⟨r3, t3⟩
      rcases e4 : fastqConsumePlusLine true (readLine t2).2 with ⟨r4, t4⟩
      simp only [e3, e4] at d1 d2 d3 d4
      subst d1
      cases r3 with
      | error e => exact ⟨rfl, d2, d3, d4⟩
      | ok m =>
        simp only
        obtain ⟨f1, f2, f3, f4⟩ := readLine_irrelB t3 t4 d3 d4 d2
        rw [f1]
        exact ⟨rfl, f2, f3, f4⟩

theorem fastqRecords_irrelB (fuel : Nat) (acc : List (Nat × FastqRec)) :
    IrrelB (fun b => fastqRecords true fuel b acc) := by
  induction fuel generalizing acc with
  | zero => intro b₁ b₂ h1 h2 hs; simp [fastqRecords, hs, h1, h2]
  | succ fuel ih =>
    intro b₁ b₂ h1 h2 hs
    obtain ⟨a1, a2, a3, a4⟩ := fastqReadRecord_irrelB b₁ b₂ h1 h2 hs
    simp only [fastqRecords]
    rcases e1 : fastqReadRecord true b₁ with ⟨r1, t1⟩
    rcases e2 : fastqReadRecord true b₂ with ⟨r2, t2⟩
    simp only [e1, e2] at a1 a2 a3 a4
    subst a1
    cases r1 with
    | error e => exact ⟨rfl, a2, a3, a4⟩
    | ok x =>
      cases x with
      | none => exact ⟨rfl, a2, a3, a4⟩
      | some r => exact ih (r :: acc) t1 t2 a3 a4 a2

theorem fastqRecordsAll_irrelB : IrrelB (fastqRecordsAll true) := by
  intro b₁ b₂ h1 h2 hs
  unfold fastqRecordsAll
  rw [hs]
  exact fastqRecords_irrelB (b₂.stream.length + 1) [] b₁ b₂ h1 h2 hs

/-! ### BED -/

theorem skipCommentLines_irrelB (fuel : Nat) : IrrelB (skipCommentLines true fuel) := by
  induction fuel with
  | zero => intro b₁ b₂ h1 h2 hs; simp [skipCommentLines, hs, h1, h2]
  | succ fuel ih =>
    intro b₁ b₂ h1 h2 hs
    obtain ⟨a1, a2, a3, a4⟩ := peek_irrelB b₁ b₂ h1 h2 hs
    simp only [skipCommentLines]
    rcases e1 : peek true b₁ with ⟨r1, t1⟩
    rcases e2 : peek true b₂ with ⟨r2, t2⟩
    simp only [e1, e2] at a1 a2 a3 a4
    subst a1
    cases r1 with
    | error e => exact ⟨rfl, a2, a3, a4⟩
    | ok c =>
      simp only
      by_cases hc : c = some HASH
      · rw [if_pos hc, if_pos hc]
        obtain ⟨c1, c2, c3, c4⟩ := consumeLine_irrelB t1 t2 a3 a4 a2
        rcases e3 : consumeLine true t1 with ⟨r3, t3⟩
        rcases e4 : consumeLine true t2 with ⟨r4, t4⟩
        simp only [e3, e4] at c1 c2 c3 c4
        subst c1
        cases r3 with
        | error e => exact ⟨rfl, c2, c3, c4⟩
        | ok n => exact ih t3 t4 c3 c4 c2
      · rw [if_neg hc, if_neg hc]; exact ⟨rfl, a2, a3, a4⟩

theorem readRequiredField_irrelB : IrrelB (readRequiredField true) := by
  intro b₁ b₂ h1 h2 hs
  obtain ⟨a1, a2, a3, a4⟩ := readField_irrelB b₁ b₂ h1 h2 hs
  unfold readRequiredField
  rcases e1 : readField true b₁ with ⟨r1, t1⟩
  rcases e2 : readField true b₂ with ⟨r2, t2⟩
  simp only [e1, e2] at a1 a2 a3 a4
  subst a1
  cases r1 with
  | error e => exact ⟨rfl, a2, a3, a4⟩
  | ok x =>
    obtain ⟨f, n, isEol⟩ := x
    simp only
    by_cases he : isEol = true
    · rw [if_pos he, if_pos he]; exact ⟨rfl, a2, a3, a4⟩
    · rw [if_neg he, if_neg he]; exact ⟨rfl, a2, a3, a4⟩

theorem readOtherFields_irrelB (fuel : Nat) (acc : List Bytes) (len : Nat) :
    IrrelB (fun b => readOtherFields true fuel b acc len) := by
  induction fuel generalizing acc len with
  | zero => intro b₁ b₂ h1 h2 hs; simp [readOtherFields, hs, h1, h2]
  | succ fuel ih =>
    intro b₁ b₂ h1 h2 hs
    obtain ⟨a1, a2, a3, a4⟩ := readField_irrelB b₁ b₂ h1 h2 hs
    simp only [readOtherFields]
    rcases e1 : readField true b₁ with ⟨r1, t1⟩
    rcases e2 : readField true b₂ with ⟨r2, t2⟩
    simp only [e1, e2] at a1 a2 a3 a4
    subst a1
    cases r1 with
    | error e => exact ⟨rfl, a2, a3, a4⟩
    | ok x =>
      obtain ⟨f, n, isEol⟩ := x
      simp only
      by_cases hn : n = 0
      · rw [if_pos hn, if_pos hn]; exact ⟨rfl, a2, a3, a4⟩
      · rw [if_neg hn, if_neg hn]
        by_cases he : isEol = true
        · rw [if_pos he, if_pos he]; exact ⟨rfl, a2, a3, a4⟩
        · rw [if_neg he, if_neg he]; exact ih (f :: acc) (len + n) t1 t2 a3 a4 a2

theorem bedReadRecord3_irrelB : IrrelB (bedReadRecord3 true) := by
  intro b₁ b₂ h1 h2 hs
  unfold bedReadRecord3
  rw [hs]
  obtain ⟨a1, a2, a3, a4⟩ := skipCommentLines_irrelB (b₂.stream.length + 1) b₁ b₂ h1 h2 hs
  rcases e1 : skipCommentLines true (b₂.stream.length + 1) b₁ with ⟨r1, t1⟩
  rcases e2 : skipCommentLines true (b₂.stream.length + 1) b₂ with ⟨r2, t2⟩
  simp only [e1, e2] at a1 a2 a3 a4
  subst a1
  cases r1 with
  | error e => exact ⟨rfl, a2, a3, a4⟩
  | ok u =>
  simp only
  obtain ⟨c1, c2, c3, c4⟩ := readRequiredField_irrelB t1 t2 a3 a4 a2
  rcases e3 : readRequiredField true t1 with ⟨r3, t3⟩
  rcases e4 : readRequiredField true t2 with ⟨r4, t4⟩
  simp only [e3, e4] at c1 c2 c3 c4
  subst c1
  cases r3 with
  | error e => exact ⟨rfl, c2, c3, c4⟩
  | ok x1 =>
  obtain ⟨f1, n1⟩ := x1
  simp only
  obtain ⟨d1, d2, d3, d4⟩ := readRequiredField_irrelB t3 t4 c3 c4 c2
  rcases e5 : readRequiredField true t3 with ⟨r5, t5⟩
  rcases e6 : readRequiredField true t4 with ⟨r6, t6⟩
  simp only [e5, e6] at d1 d2 d3 d4
  subst d1
  cases r5 with
  | error e => exact ⟨rfl, d2, d3, d4⟩
  | ok x2 =>
  obtain ⟨f2, n2⟩ := x2
  simp only
  obtain ⟨g1, g2, g3, g4⟩ := readField_irrelB t5 t6 d3 d4 d2
  rcases e7 : readField true t5 with ⟨r7, t7⟩
  rcases e8 : readField true t6 with ⟨r8, t8⟩
  simp only [e7, e8] at g1 g2 g3 g4
  subst g1
  cases r7 with
  | error e => exact ⟨rfl, g2, g3, g4⟩
  | ok x3 =>
  obtain ⟨f3, n3, isEol⟩ := x3
  simp only
  by_cases he : isEol = true
  · rw [if_pos he, if_pos he]; exact ⟨rfl, g2, g3, g4⟩
  · rw [if_neg he, if_neg he]
    rw [g2]
    obtain ⟨k1, k2, k3, k4⟩ := readOtherFields_irrelB (t8.stream.length + 1) [] 0 t7 t8 g3 g4 g2
    try simp only at k1 k2 k3 k4
    rcases e9 : readOtherFields true (t8.stream.length + 1) t7 [] 0 with ⟨r9, t9⟩
    rcases e10 : readOtherFields true (t8.stream.length + 1) t8 [] 0 with ⟨r10, t10⟩
    simp only [e9, e10] at k1 k2 k3 k4
    subst k1
    cases r9 with
    | error e => exact ⟨rfl, k2, k3, k4⟩
    | ok x4 => obtain ⟨fs, n4⟩ := x4; exact ⟨rfl, k2, k3, k4⟩

/-! ## the fuel of the record / frame loops is enough

Loops whose fuel is `stream length + 1` never run out of it: every round that goes on consumes at least
one byte. (`Err.fuel` is the model's only artefact; these lemmas say it is unreachable.) -/

theorem specReadExact_len (data : List α) (want : Nat) :
    (specReadExact data want).2.length ≤ data.length := by
  unfold specReadExact
  by_cases h : want ≤ data.length
  · rw [if_pos h]; simp
  · rw [if_neg h]; simp

theorem defaultReadExact_len (s : Src α) (want : Nat) :
    (defaultReadExact s want).2.data.length ≤ s.data.length := by
  rw [(defaultReadExact_spec s want).2]; exact specReadExact_len _ _

theorem defaultReadExact_ne_fuel (s : Src α) (want : Nat) :
    (defaultReadExact s want).1 ≠ .error .fuel := by
  rw [(defaultReadExact_spec s want).1]
  unfold specReadExact
  by_cases h : want ≤ s.data.length
  · rw [if_pos h]; simp
  · rw [if_neg h]; simp

/-- a successful `default_read_exact` of `want` bytes consumes exactly `want` bytes -/
theorem defaultReadExact_ok_len (s : Src α) (want : Nat) (bs : List α)
    (h : (defaultReadExact s want).1 = .ok bs) :
    (defaultReadExact s want).2.data.length + want = s.data.length := by
  obtain ⟨h1, h2⟩ := defaultReadExact_spec s want
  rw [h1] at h
  rw [h2]
  unfold specReadExact at h ⊢
  by_cases hw : want ≤ s.data.length
  · rw [if_pos hw]; simp; omega
  · rw [if_neg hw] at h; simp at h

theorem readExactOrEof_ne_fuel (s : Src α) (want : Nat) :
    (readExactOrEof s want).1 ≠ .error .fuel := by
  rw [(readExactOrEof_spec s want).1]
  unfold specReadExactOrEof
  by_cases h : want ≤ s.data.length
  · rw [if_pos h]; simp
  · rw [if_neg h]
    by_cases hz : s.data.length = 0
    · rw [if_pos hz]; simp
    · rw [if_neg hz]; simp

/-- `read_record` that returns a record has consumed at least the 4-byte prefix -/
theorem bamReadRecord_progress (s : Src UInt8) (r : Bytes) (h : (bamReadRecord s).1 = .record r) :
    (bamReadRecord s).2.data.length < s.data.length := by
  obtain ⟨a1, a2⟩ := readExactOrEof_spec s 4
  unfold bamReadRecord at h ⊢
  rcases e1 : readExactOrEof s 4 with ⟨r1, s1⟩
  rw [e1] at a1 a2 h
  simp only at a1 a2 h ⊢
  cases r1 with
  | error e => simp at h
  | ok hdr =>
    simp only at h ⊢
    by_cases hn : leNat (zeroPad 4 hdr) = 0
    · rw [if_pos hn] at h; simp at h
    · rw [if_neg hn] at h ⊢
      have hs1 : s1.data.length + 4 ≤ s.data.length := by
        unfold specReadExactOrEof at a1 a2
        by_cases h4 : 4 ≤ s.data.length
        · rw [if_pos h4] at a2; rw [a2]; simp; omega
        · rw [if_neg h4] at a1
          by_cases hz : s.data.length = 0
          · rw [if_pos hz] at a1
            simp only [Except.ok.injEq] at a1
            subst a1
            exact absurd (by decide : leNat (zeroPad 4 []) = 0) hn
          · rw [if_neg hz] at a1; simp at a1
      have := defaultReadExact_len s1 (leNat (zeroPad 4 hdr))
      rcases e2 : defaultReadExact s1 (leNat (zeroPad 4 hdr)) with ⟨r2, s2⟩
      rw [e2] at this h
      simp only at this h ⊢
      cases r2 with
      | error e => simp at h
      | ok body =>
        simp only at h ⊢
        by_cases hv : bamValidate body = true
        · rw [if_pos hv]; simp only; omega
        · rw [if_neg hv] at h; simp at h

theorem bamReadRecord_ne_fuel (s : Src UInt8) : (bamReadRecord s).1 ≠ .err .fuel := by
  have f1 := readExactOrEof_ne_fuel s 4
  unfold bamReadRecord
  rcases e1 : readExactOrEof s 4 with ⟨r1, s1⟩
  rw [e1] at f1
  simp only at f1 ⊢
  cases r1 with
  | error e => simp only; intro h; injection h with h; exact f1 (by rw [h])
  | ok hdr =>
    simp only
    by_cases hn : leNat (zeroPad 4 hdr) = 0
    · rw [if_pos hn]; simp
    · rw [if_neg hn]
      have f2 := defaultReadExact_ne_fuel s1 (leNat (zeroPad 4 hdr))
      rcases e2 : defaultReadExact s1 (leNat (zeroPad 4 hdr)) with ⟨r2, s2⟩
      rw [e2] at f2
      simp only at f2 ⊢
      cases r2 with
      | error e => simp only; intro h; injection h with h; exact f2 (by rw [h])
      | ok body =>
        simp only
        by_cases hv : bamValidate body = true
        · rw [if_pos hv]; simp
        · rw [if_neg hv]; simp

theorem bamRecords_fuel_ok (fuel : Nat) (s : Src UInt8) (acc : List Bytes) (hf : s.data.length < fuel) :
    (bamRecords fuel s acc).1.2 ≠ some .fuel := by
  induction fuel generalizing s acc with
  | zero => omega
  | succ fuel ih =>
    have hp := bamReadRecord_progress s
    have hn := bamReadRecord_ne_fuel s
    simp only [bamRecords]
    rcases e : bamReadRecord s with ⟨r, s'⟩
    rw [e] at hp hn
    simp only at hp hn ⊢
    cases r with
    | eof => simp
    | err e' => simp only; intro h; injection h with h; exact hn (by rw [h])
    | record rec =>
      simp only
      exact ih s' (rec :: acc) (by have := hp rec rfl; omega)

/-- a frame that was read consumed at least its 18-byte header -/
theorem readFrameInto_progress (s : Src UInt8) (f : Bytes) (h : (readFrameInto s).1 = .frame f) :
    (readFrameInto s).2.data.length < s.data.length := by
  unfold readFrameInto at h ⊢
  have hok := defaultReadExact_ok_len s BGZF_HEADER_SIZE
  rcases e1 : defaultReadExact s BGZF_HEADER_SIZE with ⟨r1, s1⟩
  rw [e1] at h hok
  simp only at h hok ⊢
  cases r1 with
  | error e => simp at h
  | ok hdr =>
    simp only at h ⊢
    have h18 := hok hdr rfl
    by_cases hn : leNat (hdr.drop 16) + 1 < MIN_FRAME_SIZE
    · rw [if_pos hn] at h; simp at h
    · rw [if_neg hn] at h ⊢
      have := defaultReadExact_len s1 (leNat (hdr.drop 16) + 1 - BGZF_HEADER_SIZE)
      rcases e2 : defaultReadExact s1 (leNat (hdr.drop 16) + 1 - BGZF_HEADER_SIZE) with ⟨r2, s2⟩
      rw [e2] at this h
      simp only at this h ⊢
      cases r2 with
      | error e => simp at h
      | ok rest => simp only; simp only [BGZF_HEADER_SIZE] at h18; omega

theorem readFrameInto_ne_fuel (s : Src UInt8) : (readFrameInto s).1 ≠ .err .fuel := by
  unfold readFrameInto
  rcases e1 : defaultReadExact s BGZF_HEADER_SIZE with ⟨r1, s1⟩
  simp only
  cases r1 with
  | error e => simp
  | ok hdr =>
    simp only
    by_cases hn : leNat (hdr.drop 16) + 1 < MIN_FRAME_SIZE
    · rw [if_pos hn]; simp
    · rw [if_neg hn]
      have f2 := defaultReadExact_ne_fuel s1 (leNat (hdr.drop 16) + 1 - BGZF_HEADER_SIZE)
      rcases e2 : defaultReadExact s1 (leNat (hdr.drop 16) + 1 - BGZF_HEADER_SIZE) with ⟨r2, s2⟩
      rw [e2] at f2
      simp only at f2 ⊢
      cases r2 with
      | error e => simp only; intro h; injection h with h; exact f2 (by rw [h])
      | ok rest => simp

theorem bgzfFrames_fuel_ok (fuel : Nat) (s : Src UInt8) (acc : List Bytes) (hf : s.data.length < fuel) :
    (bgzfFrames fuel s acc).1.2 ≠ some .fuel := by
  induction fuel generalizing s acc with
  | zero => omega
  | succ fuel ih =>
    have hp := readFrameInto_progress s
    have hn := readFrameInto_ne_fuel s
    simp only [bgzfFrames]
    rcases e : readFrameInto s with ⟨r, s'⟩
    rw [e] at hp hn
    simp only at hp hn ⊢
    cases r with
    | none => simp
    | err e' => simp only; intro h; injection h with h; exact hn (by rw [h])
    | frame f => simp only; exact ih s' (f :: acc) (by have := hp f rfl; omega)

theorem parseFrame_ne_fuel (f : Bytes) : parseFrame f ≠ .error .fuel := by
  unfold parseFrame
  by_cases h : (!isValidHeader f) = true
  · rw [if_pos h]; simp
  · rw [if_neg h]; simp only
    by_cases h2 : leNat (f.drop (f.length - 4)) ≤ BGZF_MAX_ISIZE
    · rw [if_pos h2]; simp
    · rw [if_neg h2]; simp

/-- `read_nonempty_block_with`: enough fuel, and whatever it returns it never gives bytes back -/
theorem readNonemptyBlock_fuel_ok (fuel : Nat) (s : Src UInt8) (adv : Nat) (hf : s.data.length < fuel) :
    (readNonemptyBlock fuel s adv).1 ≠ .error .fuel ∧
    (readNonemptyBlock fuel s adv).2.data.length ≤ s.data.length ∧
    (∀ a l, (readNonemptyBlock fuel s adv).1 = .ok (a, l) → l ≠ 0 →
      (readNonemptyBlock fuel s adv).2.data.length < s.data.length) := by
  induction fuel generalizing s adv with
  | zero => omega
  | succ fuel ih =>
    have hp := readFrameInto_progress s
    have hn := readFrameInto_ne_fuel s
    have hle : (readFrameInto s).2.data.length ≤ s.data.length := by
      unfold readFrameInto
      have l1 := defaultReadExact_len s BGZF_HEADER_SIZE
      rcases e1 : defaultReadExact s BGZF_HEADER_SIZE with ⟨r1, s1⟩
      rw [e1] at l1
      simp only at l1 ⊢
      cases r1 with
      | error e => exact l1
      | ok hdr =>
        simp only
        by_cases hb : leNat (hdr.drop 16) + 1 < MIN_FRAME_SIZE
        · rw [if_pos hb]; exact l1
        · rw [if_neg hb]
          have l2 := defaultReadExact_len s1 (leNat (hdr.drop 16) + 1 - BGZF_HEADER_SIZE)
          rcases e2 : defaultReadExact s1 (leNat (hdr.drop 16) + 1 - BGZF_HEADER_SIZE) with ⟨r2, s2⟩
          rw [e2] at l2
          simp only at l2 ⊢
          cases r2 <;> (simp only; omega)
    simp only [readNonemptyBlock]
    rcases e : readFrameInto s with ⟨r, s'⟩
    rw [e] at hp hn hle
    simp only at hp hn hle ⊢
    cases r with
    | none => exact ⟨by simp, hle, by intro a l h hl; simp at h; omega⟩
    | err e' =>
      refine ⟨?_, hle, by intro a l h; simp at h⟩
      simp only; intro h; injection h with h; exact hn (by rw [h])
    | frame f =>
      simp only
      have hlt := hp f rfl
      cases hpf : parseFrame f with
      | error e' =>
        refine ⟨?_, hle, by intro a l h; simp at h⟩
        simp only; intro h; injection h with h; exact parseFrame_ne_fuel f (by rw [hpf, h])
      | ok isize =>
        simp only
        by_cases hz : isize > 0
        · rw [if_pos hz]
          exact ⟨by simp, hle, by intro a l _ _; exact hlt⟩
        · rw [if_neg hz]
          obtain ⟨i1, i2, i3⟩ := ih s' (adv + f.length) (by omega)
          exact ⟨i1, by omega, by intro a l h hl; have := i3 a l h hl; omega⟩

theorem bgzfBlocks_fuel_ok (fuel : Nat) (s : Src UInt8) (pos : Nat) (acc : List (Nat × Nat))
    (hf : s.data.length < fuel) : (bgzfBlocks fuel s pos acc).1.2 ≠ some .fuel := by
  induction fuel generalizing s pos acc with
  | zero => omega
  | succ fuel ih =>
    obtain ⟨n1, n2, n3⟩ := readNonemptyBlock_fuel_ok (s.data.length + 1) s 0 (by omega)
    simp only [bgzfBlocks]
    rcases e : readNonemptyBlock (s.data.length + 1) s 0 with ⟨r, s'⟩
    rw [e] at n1 n2 n3
    simp only at n1 n2 n3 ⊢
    cases r with
    | error e' => simp only; intro h; injection h with h; exact n1 (by rw [h])
    | ok p =>
      obtain ⟨adv, len⟩ := p
      simp only
      by_cases hz : len = 0
      · rw [if_pos hz]; simp
      · rw [if_neg hz]
        exact ih s' (pos + adv) ((pos + adv, len) :: acc) (by have := n3 adv len rfl hz; omega)

/-! ### buffered loops: no function gives bytes back, the record loops make progress -/

theorem err_ne_fuel_cast {β γ : Type} {e : Err} (h : (Except.error e : Except Err β) ≠ .error .fuel) :
    (Except.error e : Except Err γ) ≠ .error .fuel := by
  intro h2; injection h2 with h2; exact h (by rw [h2])

theorem findSplit_post_lt (p : α → Bool) (xs pre post : List α) (d : α)
    (h : findSplit p xs = some (pre, d, post)) : post.length + (pre.length + 1) = xs.length := by
  rw [findSplit_some_eq p xs pre post d h]; simp; omega

theorem specUntil_len (p : α → Bool) (xs : List α) : (specUntil p xs).2.length ≤ xs.length := by
  unfold specUntil
  cases h : findSplit p xs with
  | none => simp
  | some t =>
    obtain ⟨pre, d, post⟩ := t
    have := findSplit_post_lt p xs pre post d h
    simp only; omega

/-- `read_line`: nothing is given back, the capacity stays -/
theorem readLine_shrinks (b : BufR UInt8) (hc : 0 < b.cap) :
    (readLine b).2.stream.length ≤ b.stream.length ∧ (readLine b).2.cap = b.cap := by
  obtain ⟨_, h2, h3⟩ := readUntil_spec (· == LF) b.fuel b [] hc (mu_lt_fuel b)
  simp only [readLine]
  rw [h2]
  exact ⟨specUntil_len _ _, h3⟩

theorem readU8_shrinks (b : BufR α) (hc : 0 < b.cap) :
    (readU8 b.fuel b).2.stream.length ≤ b.stream.length ∧ (readU8 b.fuel b).2.cap = b.cap ∧
    (∀ c, (readU8 b.fuel b).1 = some c → (readU8 b.fuel b).2.stream.length < b.stream.length) := by
  obtain ⟨h1, h2, h3⟩ := readU8_spec b.fuel b hc (mu_lt_fuel b)
  rw [h1, h2]
  refine ⟨by simp, h3, ?_⟩
  intro c hcx
  cases hs : b.stream with
  | nil => rw [hs] at hcx; simp at hcx
  | cons x xs => simp

/-- the consumed-bytes counter of `read_field` is exact -/
theorem specField_len (xs : Bytes) :
    (specField ([], 0, none) xs).2.length + (specField ([], 0, none) xs).1.2.1 = xs.length := by
  simp only [specField, Option.isSome_none, Bool.false_eq_true, if_false]
  cases h : findSplit (fun c => c == TAB || c == LF) xs with
  | none => simp
  | some t =>
    obtain ⟨pre, d, post⟩ := t
    have := findSplit_post_lt _ xs pre post d h
    simp only; omega

/-- `read_field` (fixed) never fails; its `len` is exactly what it consumed -/
theorem readField_shrinks (b : BufR UInt8) (hc : 0 < b.cap) :
    ∃ f n e, (readField true b).1 = .ok (f, n, e) ∧
      (readField true b).2.stream.length + n = b.stream.length ∧ (readField true b).2.cap = b.cap := by
  obtain ⟨h1, h2, h3⟩ := scanLoop_spec fieldStep specField fieldStep_spec b.fuel ([], 0, none) b hc (mu_lt_fuel b)
  have hl := specField_len b.stream
  unfold readField
  rcases e : scanLoop true fieldStep b.fuel ([], 0, none) b with ⟨r, b'⟩
  rw [e] at h1 h2 h3
  simp only at h1 h2 h3
  subst h1
  rcases hsp : specField ([], 0, none) b.stream with ⟨⟨dst, len, m⟩, rest⟩
  rw [hsp] at h2 hl
  simp only at h2 hl ⊢
  exact ⟨_, _, _, rfl, by rw [h2]; exact hl, h3⟩

theorem specLineSt_len (xs : Bytes) :
    (specLineSt (0, false) xs).2.length ≤ xs.length ∧
    (xs ≠ [] → (specLineSt (0, false) xs).2.length < xs.length) := by
  simp only [specLineSt, Bool.false_eq_true, if_false]
  cases h : findSplit (· == LF) xs with
  | none =>
    simp only [List.length_nil]
    exact ⟨Nat.zero_le _, fun hx => List.length_pos_iff.mpr hx⟩
  | some t =>
    obtain ⟨pre, d, post⟩ := t
    have := findSplit_post_lt _ xs pre post d h
    simp only
    exact ⟨by omega, fun _ => by omega⟩

/-- `consume_line` / `discard_line` (fixed) never fails and consumes at least one byte of a non-empty stream -/
theorem consumeLine_shrinks (b : BufR UInt8) (hc : 0 < b.cap) :
    (∃ n, (consumeLine true b).1 = .ok n) ∧
    (consumeLine true b).2.stream.length ≤ b.stream.length ∧
    (b.stream ≠ [] → (consumeLine true b).2.stream.length < b.stream.length) ∧
    (consumeLine true b).2.cap = b.cap := by
  obtain ⟨h1, h2, h3⟩ := scanLoop_spec lineStep specLineSt lineStep_spec b.fuel (0, false) b hc (mu_lt_fuel b)
  obtain ⟨l1, l2⟩ := specLineSt_len b.stream
  unfold consumeLine
  rw [h1, h2]
  exact ⟨⟨_, rfl⟩, l1, l2, h3⟩

theorem peek_spec' (b : BufR α) (hc : 0 < b.cap) :
    (peek true b).1 = .ok b.stream.head? ∧ (peek true b).2.stream = b.stream ∧ (peek true b).2.cap = b.cap := by
  have := scanLoop_spec peekStep specPeek peekStep_spec b.fuel () b hc (mu_lt_fuel b)
  simpa [peek, specPeek] using this

theorem specName_len (xs : Bytes) :
    (specName ([], 1, false, false) xs).2.length ≤ xs.length := by
  simp only [specName, Bool.false_eq_true, if_false]
  cases h : findSplit (fun c => c == SPACE || c == TAB || c == LF) xs with
  | none => simp
  | some t =>
    obtain ⟨pre, d, post⟩ := t
    have := findSplit_post_lt _ xs pre post d h
    simp only; omega

/-- `read_definition` (fixed): never out of fuel, nothing given back; a non-zero length means the
`@` was consumed -/
theorem fastqReadDefinition_shrinks (b : BufR UInt8) (hc : 0 < b.cap) :
    (fastqReadDefinition true b).1 ≠ .error .fuel ∧
    (fastqReadDefinition true b).2.stream.length ≤ b.stream.length ∧
    (fastqReadDefinition true b).2.cap = b.cap ∧
    (∀ n nm d, (fastqReadDefinition true b).1 = .ok (n, nm, d) → n ≠ 0 →
      (fastqReadDefinition true b).2.stream.length < b.stream.length) := by
  obtain ⟨u1, u2, u3⟩ := readU8_shrinks b hc
  unfold fastqReadDefinition
  rcases e1 : readU8 b.fuel b with ⟨r1, t1⟩
  rw [e1] at u1 u2 u3
  simp only at u1 u2 u3 ⊢
  cases r1 with
  | none => exact ⟨by simp, u1, u2, by intro n nm d h hn; simp at h; omega⟩
  | some c =>
    have hlt := u3 c rfl
    simp only
    by_cases hcat : c ≠ AT
    · rw [if_pos hcat]; exact ⟨by simp, u1, u2, by intro n nm d h; simp at h⟩
    · rw [if_neg hcat]
      have hc1 : 0 < t1.cap := by omega
      obtain ⟨s1, s2, s3⟩ := scanLoop_spec (nameStep true) specName nameStep_spec t1.fuel ([], 1, false, false) t1 hc1 (mu_lt_fuel t1)
      have sl := specName_len t1.stream
      rcases e2 : scanLoop true (nameStep true) t1.fuel ([], 1, false, false) t1 with ⟨r2, t2⟩
      rw [e2] at s1 s2 s3
      simp only at s1 s2 s3 ⊢
      rw [← s2] at sl
      subst s1
      rcases hsp : (specName ([], 1, false, false) t1.stream).1 with ⟨name, len, isEol, m⟩
      simp only
      by_cases he : isEol = true
      · rw [if_pos he]
        simp only
        exact ⟨by simp, by omega, by omega, by intro _ _ _ _ _; omega⟩
      · rw [if_neg he]
        obtain ⟨r1', r2'⟩ := readLine_shrinks t2 (by omega)
        simp only
        exact ⟨by simp, by omega, by omega, by intro _ _ _ _ _; omega⟩

theorem fastqConsumePlusLine_shrinks (b : BufR UInt8) (hc : 0 < b.cap) :
    (fastqConsumePlusLine true b).1 ≠ .error .fuel ∧
    (fastqConsumePlusLine true b).2.stream.length ≤ b.stream.length ∧
    (fastqConsumePlusLine true b).2.cap = b.cap := by
  obtain ⟨u1, u2, _⟩ := readU8_shrinks b hc
  unfold fastqConsumePlusLine
  rcases e1 : readU8 b.fuel b with ⟨r1, t1⟩
  rw [e1] at u1 u2
  simp only at u1 u2 ⊢
  cases r1 with
  | none => exact ⟨by simp, u1, u2⟩
  | some c =>
    simp only
    by_cases hcp : c ≠ PLUS
    · rw [if_pos hcp]; exact ⟨by simp, u1, u2⟩
    · rw [if_neg hcp]
      obtain ⟨⟨n, c1⟩, c2, _, c4⟩ := consumeLine_shrinks t1 (by omega)
      rcases e2 : consumeLine true t1 with ⟨r2, t2⟩
      rw [e2] at c1 c2 c4
      simp only at c1 c2 c4 ⊢
      subst c1
      simp only
      exact ⟨by simp, by omega, by omega⟩

/-- `read_record` (fixed): never out of fuel; a record that was read consumed at least its `@` -/
theorem fastqReadRecord_shrinks (b : BufR UInt8) (hc : 0 < b.cap) :
    (fastqReadRecord true b).1 ≠ .error .fuel ∧
    (fastqReadRecord true b).2.cap = b.cap ∧
    (∀ r, (fastqReadRecord true b).1 = .ok (some r) →
      (fastqReadRecord true b).2.stream.length < b.stream.length) := by
  obtain ⟨d1, d2, d3, d4⟩ := fastqReadDefinition_shrinks b hc
  unfold fastqReadRecord
  rcases e1 : fastqReadDefinition true b with ⟨r1, t1⟩
  rw [e1] at d1 d2 d3 d4
  simp only at d1 d2 d3 d4 ⊢
  cases r1 with
  | error e => simp only; exact ⟨err_ne_fuel_cast d1, d3, by intro r h; simp at h⟩
  | ok x =>
    obtain ⟨n, name, desc⟩ := x
    cases n with
    | zero => simp only; exact ⟨by simp, d3, by intro r h; simp at h⟩
    | succ n =>
      simp only
      have hlt := d4 (n + 1) name desc rfl (by omega)
      obtain ⟨l1, l2⟩ := readLine_shrinks t1 (by omega)
      obtain ⟨p1, p2, p3⟩ := fastqConsumePlusLine_shrinks (readLine t1).2 (by omega)
      rcases e3 : fastqConsumePlusLine true (readLine t1).2 with ⟨r3, t3⟩
      rw [e3] at p1 p2 p3
      simp only at p1 p2 p3 ⊢
      cases r3 with
      | error e => simp only; exact ⟨err_ne_fuel_cast p1, by omega, by intro r h; simp at h⟩
      | ok m =>
        simp only
        obtain ⟨q1, q2⟩ := readLine_shrinks t3 (by omega)
        exact ⟨by simp, by omega, by intro _ _; omega⟩

theorem fastqRecords_fuel_ok (fuel : Nat) (b : BufR UInt8) (acc : List (Nat × FastqRec))
    (hc : 0 < b.cap) (hf : b.stream.length < fuel) :
    (fastqRecords true fuel b acc).1.2 ≠ some .fuel := by
  induction fuel generalizing b acc with
  | zero => omega
  | succ fuel ih =>
    obtain ⟨r1, r2, r3⟩ := fastqReadRecord_shrinks b hc
    simp only [fastqRecords]
    rcases e : fastqReadRecord true b with ⟨r, b'⟩
    rw [e] at r1 r2 r3
    simp only at r1 r2 r3 ⊢
    cases r with
    | error e' => simp only; intro h; injection h with h; exact r1 (by rw [h])
    | ok x =>
      cases x with
      | none => simp
      | some rec => simp only; exact ih b' (rec :: acc) (by omega) (by have := r3 rec rfl; omega)

/-! #### BED -/

theorem skipCommentLines_shrinks (fuel : Nat) (b : BufR UInt8) (hc : 0 < b.cap)
    (hf : b.stream.length < fuel) :
    (skipCommentLines true fuel b).1 = .ok () ∧
    (skipCommentLines true fuel b).2.stream.length ≤ b.stream.length ∧
    (skipCommentLines true fuel b).2.cap = b.cap := by
  induction fuel generalizing b with
  | zero => omega
  | succ fuel ih =>
    obtain ⟨p1, p2, p3⟩ := peek_spec' b hc
    simp only [skipCommentLines]
    rcases e1 : peek true b with ⟨r1, t1⟩
    rw [e1] at p1 p2 p3
    simp only at p1 p2 p3 ⊢
    subst p1
    simp only
    by_cases hh : b.stream.head? = some HASH
    · rw [if_pos hh]
      have hne : t1.stream ≠ [] := by
        rw [p2]; intro h; rw [h] at hh; simp at hh
      obtain ⟨⟨n, c1⟩, c2, c3, c4⟩ := consumeLine_shrinks t1 (by omega)
      have c3' := c3 hne
      rcases e2 : consumeLine true t1 with ⟨r2, t2⟩
      rw [e2] at c1 c2 c3' c4
      simp only at c1 c2 c3' c4 ⊢
      subst c1
      simp only
      rw [p2] at c3'
      obtain ⟨i1, i2, i3⟩ := ih t2 (by omega) (by omega)
      exact ⟨i1, by omega, by omega⟩
    · rw [if_neg hh]; exact ⟨rfl, by rw [p2]; exact Nat.le_refl _, p3⟩

theorem readRequiredField_shrinks (b : BufR UInt8) (hc : 0 < b.cap) :
    (readRequiredField true b).1 ≠ .error .fuel ∧
    (readRequiredField true b).2.stream.length ≤ b.stream.length ∧
    (readRequiredField true b).2.cap = b.cap := by
  obtain ⟨f, n, e, h1, h2, h3⟩ := readField_shrinks b hc
  unfold readRequiredField
  rcases e1 : readField true b with ⟨r1, t1⟩
  rw [e1] at h1 h2 h3
  simp only at h1 h2 h3 ⊢
  subst h1
  simp only
  by_cases he : e = true
  · rw [if_pos he]; simp only; exact ⟨by simp, by omega, h3⟩
  · rw [if_neg he]; simp only; exact ⟨by simp, by omega, h3⟩

theorem readOtherFields_shrinks (fuel : Nat) (b : BufR UInt8) (acc : List Bytes) (len : Nat)
    (hc : 0 < b.cap) (hf : b.stream.length < fuel) :
    (readOtherFields true fuel b acc len).1 ≠ .error .fuel ∧
    (readOtherFields true fuel b acc len).2.stream.length ≤ b.stream.length ∧
    (readOtherFields true fuel b acc len).2.cap = b.cap := by
  induction fuel generalizing b acc len with
  | zero => omega
  | succ fuel ih =>
    obtain ⟨f, n, e, h1, h2, h3⟩ := readField_shrinks b hc
    simp only [readOtherFields]
    rcases e1 : readField true b with ⟨r1, t1⟩
    rw [e1] at h1 h2 h3
    simp only at h1 h2 h3 ⊢
    subst h1
    simp only
    by_cases hn : n = 0
    · rw [if_pos hn]; simp only; exact ⟨by simp, by omega, h3⟩
    · rw [if_neg hn]
      by_cases he : e = true
      · rw [if_pos he]; simp only; exact ⟨by simp, by omega, h3⟩
      · rw [if_neg he]
        obtain ⟨i1, i2, i3⟩ := ih t1 (f :: acc) (len + n) (by omega) (by omega)
        exact ⟨i1, by omega, by omega⟩

/-- the BED record reader (fixed) never runs out of fuel -/
theorem bedReadRecord3_fuel_ok (b : BufR UInt8) (hc : 0 < b.cap) :
    (bedReadRecord3 true b).1 ≠ .error .fuel := by
  unfold bedReadRecord3
  obtain ⟨a1, a2, a3⟩ := skipCommentLines_shrinks (b.stream.length + 1) b hc (by omega)
  rcases e0 : skipCommentLines true (b.stream.length + 1) b with ⟨r0, t0⟩
  rw [e0] at a1 a2 a3
  simp only at a1 a2 a3 ⊢
  subst a1
  simp only
  obtain ⟨c1, c2, c3⟩ := readRequiredField_shrinks t0 (by omega)
  rcases e1 : readRequiredField true t0 with ⟨r1, t1⟩
  rw [e1] at c1 c2 c3
  simp only at c1 c2 c3 ⊢
  cases r1 with
  | error e => simp only; exact err_ne_fuel_cast c1
  | ok x1 =>
  obtain ⟨f1, n1⟩ := x1
  simp only
  obtain ⟨d1, d2, d3⟩ := readRequiredField_shrinks t1 (by omega)
  rcases e2 : readRequiredField true t1 with ⟨r2, t2⟩
  rw [e2] at d1 d2 d3
  simp only at d1 d2 d3 ⊢
  cases r2 with
  | error e => simp only; exact err_ne_fuel_cast d1
  | ok x2 =>
  obtain ⟨f2, n2⟩ := x2
  simp only
  obtain ⟨f3, n3, e3, g1, g2, g3⟩ := readField_shrinks t2 (by omega)
  rcases e4 : readField true t2 with ⟨r3, t3⟩
  rw [e4] at g1 g2 g3
  simp only at g1 g2 g3 ⊢
  subst g1
  simp only
  by_cases he : e3 = true
  · rw [if_pos he]; simp
  · rw [if_neg he]
    obtain ⟨k1, _, _⟩ := readOtherFields_shrinks (t3.stream.length + 1) t3 [] 0 (by omega) (by omega)
    rcases e5 : readOtherFields true (t3.stream.length + 1) t3 [] 0 with ⟨r4, t4⟩
    rw [e5] at k1
    simp only at k1 ⊢
    cases r4 with
    | error e => simp only; exact err_ne_fuel_cast k1
    | ok x4 => obtain ⟨fs, n4⟩ := x4; simp

/-! ## the SAM / VCF header sub-readers -/

/-- one `read_until(b'\n')` over `header::Reader` on the stream: nothing if the previous line is
complete and the stream does not go on with the prefix; else through the first LF, or everything -/
def specHdr (pfx : UInt8) (st : Bytes × Bool) (xs : Bytes) : (Bytes × Bool) × Bytes :=
  if st.2 && xs.head? != some pfx then (st, xs)
  else match findSplit (· == LF) xs with
    | some (pre, d, post) => ((st.1 ++ pre ++ [d], true), post)
    | none => ((st.1 ++ xs, false), [])

theorem head?_append_window (w ys : Bytes) (h : w = [] → ys = []) : (w ++ ys).head? = w.head? := by
  cases w with
  | nil => rw [h rfl]; rfl
  | cons x xs => rfl

theorem hdrStep_spec (pfx : UInt8) : ScanSpec (hdrStep pfx) (specHdr pfx) := by
  constructor
  · intro st w ys r hwy hk
    obtain ⟨acc, e⟩ := st
    simp only [hdrStep] at hk
    simp only [specHdr, head?_append_window w ys hwy]
    by_cases hc : (e && w.head? != some pfx) = true
    · rw [if_pos hc] at hk ⊢
      injection hk with hk
      rw [hk]
    · rw [if_neg hc] at hk ⊢
      split at hk
      · cases hk
      · rename_i heq
        split at hk
        · rename_i hwl
          injection hk with hk
          have hw : w = [] := List.eq_nil_of_length_eq_zero hwl
          rw [← hk, hw, hwy hw]
          simp [findSplit]
        · cases hk
  · intro st w ys st' n hwy hk
    obtain ⟨acc, e⟩ := st
    simp only [hdrStep] at hk
    simp only [specHdr, head?_append_window w ys hwy]
    by_cases hc : (e && w.head? != some pfx) = true
    · rw [if_pos hc] at hk; cases hk
    · rw [if_neg hc] at hk ⊢
      split at hk
      · cases hk
      · rename_i heq
        split at hk
        · cases hk
        · rename_i hwl
          injection hk with h1 h2
          subst h1; subst h2
          refine ⟨by omega, Nat.le_refl _, ?_⟩
          rw [findSplit_append_none _ w ys heq]
          have hd : (w ++ ys).drop w.length = ys := by simp
          rw [hd]
          simp only [Bool.false_and, Bool.false_eq_true, if_false]
          cases findSplit (fun c => c == LF) ys with
          | none => simp [List.append_assoc]
          | some t => obtain ⟨pre, d, post⟩ := t; simp [List.append_assoc]
  · intro st w ys r n hwy hk
    obtain ⟨acc, e⟩ := st
    simp only [hdrStep] at hk
    simp only [specHdr, head?_append_window w ys hwy]
    by_cases hc : (e && w.head? != some pfx) = true
    · rw [if_pos hc] at hk; cases hk
    · rw [if_neg hc] at hk ⊢
      split at hk
      · rename_i pre d post heq
        injection hk with h1 h2
        subst h1; subst h2
        have hw := findSplit_some_eq _ w pre post d heq
        refine ⟨by rw [hw]; simp, ?_⟩
        rw [findSplit_append_some _ w ys pre post d heq]
        simp only
        congr 1
        rw [hw]; simp
      · split at hk <;> cases hk

theorem hdrReadLine_irrelB (pfx : UInt8) (isEol : Bool) : IrrelB (hdrReadLine pfx isEol) := by
  intro b₁ b₂ h1 h2 hs
  obtain ⟨a1, a2, a3, a4⟩ := scan_irrelB (hdrStep pfx) (specHdr pfx) (hdrStep_spec pfx) ([], isEol) b₁ b₂ h1 h2 hs
  simp only at a1 a2 a3 a4
  unfold hdrReadLine
  rcases e1 : scanLoop true (hdrStep pfx) b₁.fuel ([], isEol) b₁ with ⟨r1, t1⟩
  rcases e2 : scanLoop true (hdrStep pfx) b₂.fuel ([], isEol) b₂ with ⟨r2, t2⟩
  simp only [e1, e2] at a1 a2 a3 a4
  subst a1
  cases r1 with
  | error e => exact ⟨rfl, a2, a3, a4⟩
  | ok x => obtain ⟨l, e⟩ := x; exact ⟨rfl, a2, a3, a4⟩

theorem hdrLines_irrelB (pfx : UInt8) (fuel : Nat) (isEol : Bool) (acc : List Bytes) :
    IrrelB (fun b => hdrLines pfx fuel isEol b acc) := by
  induction fuel generalizing isEol acc with
  | zero => intro b₁ b₂ h1 h2 hs; simp [hdrLines, hs, h1, h2]
  | succ fuel ih =>
    intro b₁ b₂ h1 h2 hs
    obtain ⟨a1, a2, a3, a4⟩ := hdrReadLine_irrelB pfx isEol b₁ b₂ h1 h2 hs
    simp only [hdrLines]
    rcases e1 : hdrReadLine pfx isEol b₁ with ⟨r1, t1⟩
    rcases e2 : hdrReadLine pfx isEol b₂ with ⟨r2, t2⟩
    simp only [e1, e2] at a1 a2 a3 a4
    subst a1
    cases r1 with
    | error e => exact ⟨rfl, a2, a3, a4⟩
    | ok x =>
      obtain ⟨n, l, e⟩ := x
      cases n with
      | zero => exact ⟨rfl, a2, a3, a4⟩
      | succ n => exact ih e (l :: acc) t1 t2 a3 a4 a2

theorem hdrLinesAll_irrelB (pfx : UInt8) : IrrelB (hdrLinesAll pfx) := by
  intro b₁ b₂ h1 h2 hs
  unfold hdrLinesAll
  rw [hs]
  exact hdrLines_irrelB pfx (b₂.stream.length + 1) true [] b₁ b₂ h1 h2 hs

/-- the bytes a header line reports are the bytes it consumed -/
theorem specHdr_len (pfx : UInt8) (e : Bool) (xs : Bytes) :
    (specHdr pfx ([], e) xs).2.length + (specHdr pfx ([], e) xs).1.1.length = xs.length := by
  simp only [specHdr]
  by_cases hc : (e && xs.head? != some pfx) = true
  · rw [if_pos hc]; simp
  · rw [if_neg hc]
    cases h : findSplit (fun c => c == LF) xs with
    | none => simp
    | some t =>
      obtain ⟨pre, d, post⟩ := t
      have := findSplit_post_lt _ xs pre post d h
      simp; omega

theorem hdrReadLine_shrinks (pfx : UInt8) (isEol : Bool) (b : BufR UInt8) (hc : 0 < b.cap) :
    ∃ n l e, (hdrReadLine pfx isEol b).1 = .ok (n, l, e) ∧
      (hdrReadLine pfx isEol b).2.stream.length + n = b.stream.length ∧
      (hdrReadLine pfx isEol b).2.cap = b.cap := by
  obtain ⟨h1, h2, h3⟩ := scanLoop_spec (hdrStep pfx) (specHdr pfx) (hdrStep_spec pfx) b.fuel ([], isEol) b hc (mu_lt_fuel b)
  have hl := specHdr_len pfx isEol b.stream
  unfold hdrReadLine
  rcases e : scanLoop true (hdrStep pfx) b.fuel ([], isEol) b with ⟨r, b'⟩
  rw [e] at h1 h2 h3
  simp only at h1 h2 h3
  subst h1
  rcases hsp : specHdr pfx ([], isEol) b.stream with ⟨⟨l, e'⟩, rest⟩
  rw [hsp] at h2 hl
  simp only at h2 hl ⊢
  exact ⟨_, _, _, rfl, by rw [h2]; exact hl, h3⟩

theorem hdrLines_fuel_ok (pfx : UInt8) (fuel : Nat) (isEol : Bool) (b : BufR UInt8) (acc : List Bytes)
    (hc : 0 < b.cap) (hf : b.stream.length < fuel) :
    (hdrLines pfx fuel isEol b acc).1 ≠ .error .fuel := by
  induction fuel generalizing isEol b acc with
  | zero => omega
  | succ fuel ih =>
    obtain ⟨n, l, e, h1, h2, h3⟩ := hdrReadLine_shrinks pfx isEol b hc
    simp only [hdrLines]
    rcases e1 : hdrReadLine pfx isEol b with ⟨r1, t1⟩
    rw [e1] at h1 h2 h3
    simp only at h1 h2 h3 ⊢
    subst h1
    cases n with
    | zero => simp
    | succ n => simp only; exact ih e t1 (l :: acc) (by omega) (by omega)

end Noodles.IO
