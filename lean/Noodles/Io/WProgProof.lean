import Noodles.Io.WProg
import Noodles.Bgzf.SinkProof
/-!
Helper lemmas for the C14 theorems about writer programs (`Noodles/Props/C14More.lean`):
the generic refinement result (`exec_spec`, `exec_heal`) for any lawful layer, and the proofs that
the three transcribed layers (`direct`, `buffered`, `bgzf`) are lawful.
-/
namespace Noodles.WP
open Noodles.Codec (Bytes)
open Noodles.Bgzf
open Noodles.Bgzf.SM (Step WRes WErr)

/-! ## what the theorems need to see of a layer's state -/

structure View (σ α : Type) where
  /-- the same layer over a destination that cannot fail -/
  abs : σ → α
  /-- some call on the destination has failed -/
  failed : σ → Bool
  kind : σ → Nat
  failAt : σ → Option Nat
  /-- calls made on the destination so far -/
  calls : σ → Nat
  /-- the same state with the scripted failure removed -/
  heal : σ → σ

/-- while no call has failed, every call so far had an index ≤ the failure index -/
def View.callsOK {σ α : Type} (V : View σ α) (s : σ) : Prop :=
  ∀ k, V.failAt s = some k → V.failed s = false → V.calls s ≤ k

/-- contract of a call `s ↦ out` against its perfect-destination counterpart `p`: `Ok` means the
perfect-destination layer makes the same step; the destination's error is returned as such and is
the only way `failed` becomes true; any other error is the writer's own, and the perfect run
returns it too -/
def Spec {σ α : Type} (V : View σ α) (p : α → Except Err α) (s : σ) (out : Option WErr × σ) : Prop :=
  V.kind out.2 = V.kind s ∧ V.failAt out.2 = V.failAt s ∧ (V.callsOK s → V.callsOK out.2) ∧
  ((out.1 = none ∧ V.failed out.2 = false ∧ p (V.abs s) = .ok (V.abs out.2)) ∨
   (out.1 = some (.sink (V.kind s)) ∧ V.failed out.2 = true ∧ V.failAt s ≠ none) ∨
   (∃ e, out.1 = some (.enc e) ∧ V.failed out.2 = false ∧ p (V.abs s) = .error e))

/-- removing the scripted failure does not change a call during which it did not strike -/
def Heals {σ α : Type} (V : View σ α) (f : σ → Option WErr × σ) : Prop :=
  ∀ s, V.failed s = false → V.failed (f s).2 = false → f (V.heal s) = ((f s).1, V.heal (f s).2)

structure Lawful {σ α : Type} (I : Impl σ) (M : Pure α) (V : View σ α) : Prop where
  writeAll_spec : ∀ s b, V.failed s = false → Spec V (fun a => M.writeAll a b) s (I.writeAll s b)
  flush_spec : ∀ s, V.failed s = false → Spec V M.flush s (I.flush s)
  finish_spec : ∀ s, V.failed s = false → Spec V M.finish s (I.finish s)
  writeAll_heal : ∀ b, Heals V (fun s => I.writeAll s b)
  flush_heal : Heals V I.flush
  finish_heal : Heals V I.finish
  heal_calls : ∀ s, V.calls (V.heal s) = V.calls s

theorem Spec.seq {σ α : Type} {V : View σ α} {p q pq : α → Except Err α} {s : σ}
    (f g : σ → Option WErr × σ)
    (hpq : pq (V.abs s) = (match p (V.abs s) with | .error e => .error e | .ok a' => q a'))
    (h1 : Spec V p s (f s))
    (h2 : ∀ s1, V.failed s1 = false → Spec V q s1 (g s1)) :
    Spec V pq s (andThen (f s) g) := by
  unfold andThen
  generalize f s = o1 at h1
  obtain ⟨r, s1⟩ := o1
  obtain ⟨k1, f1, c1, h⟩ := h1
  simp only at k1 f1 c1 h
  rcases h with ⟨a1, a2, a3⟩ | ⟨a1, a2, a3⟩ | ⟨e, a1, a2, a3⟩
  · subst a1
    obtain ⟨k2, f2, c2, h'⟩ := h2 s1 a2
    simp only
    refine ⟨k2.trans k1, f2.trans f1, fun h => c2 (c1 h), ?_⟩
    rw [hpq, a3]
    simp only
    rcases h' with ⟨b1, b2, b3⟩ | ⟨b1, b2, b3⟩ | ⟨e, b1, b2, b3⟩
    · exact Or.inl ⟨b1, b2, b3⟩
    · rw [k1] at b1; rw [f1] at b3
      exact Or.inr (Or.inl ⟨b1, b2, b3⟩)
    · exact Or.inr (Or.inr ⟨e, b1, b2, b3⟩)
  · subst a1
    exact ⟨k1, f1, c1, Or.inr (Or.inl ⟨rfl, a2, a3⟩)⟩
  · subst a1
    refine ⟨k1, f1, c1, Or.inr (Or.inr ⟨e, rfl, a2, ?_⟩)⟩
    rw [hpq, a3]

theorem Spec.failed_of_ok {σ α : Type} {V : View σ α} {p : α → Except Err α} {s : σ}
    {o : Option WErr × σ} (h : Spec V p s o) (hr : o.1 = none) : V.failed o.2 = false := by
  obtain ⟨_, _, _, h⟩ := h
  rcases h with ⟨_, a2, _⟩ | ⟨a1, _, _⟩ | ⟨_, a1, _, _⟩
  · exact a2
  · rw [hr] at a1; cases a1
  · rw [hr] at a1; cases a1

/-! ## the generic result: a program over a lawful layer refines the program over a perfect destination -/

theorem exec_spec {σ α : Type} {I : Impl σ} {M : Pure α} {V : View σ α} (L : Lawful I M V)
    (p : WProg) (s : σ) (hnf : V.failed s = false) :
    Spec V (pexec M p) s (exec I p s) := by
  induction p generalizing s with
  | skip => exact ⟨rfl, rfl, id, Or.inl ⟨rfl, hnf, rfl⟩⟩
  | emit b => exact L.writeAll_spec s b hnf
  | flush => exact L.flush_spec s hnf
  | finish => exact L.finish_spec s hnf
  | fail e => exact ⟨rfl, rfl, id, Or.inr (Or.inr ⟨e, rfl, hnf, rfl⟩)⟩
  | seq p q ihp ihq =>
    exact Spec.seq (exec I p) (exec I q) rfl (ihp s hnf) (fun s1 h => ihq s1 h)

theorem exec_heal {σ α : Type} {I : Impl σ} {M : Pure α} {V : View σ α} (L : Lawful I M V)
    (p : WProg) (s : σ) (hnf : V.failed s = false) (hout : V.failed (exec I p s).2 = false) :
    exec I p (V.heal s) = ((exec I p s).1, V.heal (exec I p s).2) := by
  induction p generalizing s with
  | skip => rfl
  | emit b => exact L.writeAll_heal b s hnf hout
  | flush => exact L.flush_heal s hnf hout
  | finish => exact L.finish_heal s hnf hout
  | fail e => rfl
  | seq p q ihp ihq =>
    have hs := exec_spec L p s hnf
    have hout' : V.failed (andThen (exec I p s) (exec I q)).2 = false := hout
    show andThen (exec I p (V.heal s)) (exec I q) =
      ((andThen (exec I p s) (exec I q)).1, V.heal (andThen (exec I p s) (exec I q)).2)
    cases hR : exec I p s with
    | mk r s1 =>
      rw [hR] at hs hout'
      cases r with
      | some e =>
        have := ihp s hnf (by rw [hR]; exact hout')
        rw [this, hR]
        rfl
      | none =>
        have h1 : V.failed s1 = false := hs.failed_of_ok rfl
        have := ihp s hnf (by rw [hR]; exact h1)
        rw [this, hR]
        exact ihq s1 h1 hout'

/-- (a) a destination failure is the program's result -/
theorem exec_reports_failure {σ α : Type} {I : Impl σ} {M : Pure α} {V : View σ α} (L : Lawful I M V)
    (p : WProg) (s : σ) (hnf : V.failed s = false) (hf : V.failed (exec I p s).2 = true) :
    (exec I p s).1 = some (.sink (V.kind s)) := by
  obtain ⟨_, _, _, h⟩ := exec_spec L p s hnf
  rcases h with ⟨_, a2, _⟩ | ⟨a1, _, _⟩ | ⟨_, _, a2, _⟩
  · rw [a2] at hf; cases hf
  · exact a1
  · rw [a2] at hf; cases hf

/-- (b) `Ok` means the layer is in the state the failure-free run produces -/
theorem exec_ok_complete {σ α : Type} {I : Impl σ} {M : Pure α} {V : View σ α} (L : Lawful I M V)
    (p : WProg) (s : σ) (hnf : V.failed s = false) (hok : (exec I p s).1 = none) :
    pexec M p (V.abs s) = .ok (V.abs (exec I p s).2) ∧ V.failed (exec I p s).2 = false := by
  obtain ⟨_, _, _, h⟩ := exec_spec L p s hnf
  rcases h with ⟨_, a2, a3⟩ | ⟨a1, _, _⟩ | ⟨_, a1, _, _⟩
  · exact ⟨a3, a2⟩
  · rw [hok] at a1; cases a1
  · rw [hok] at a1; cases a1

/-- a destination without a scripted failure never fails, and the program's result is the
perfect-destination run's -/
theorem exec_healthy {σ α : Type} {I : Impl σ} {M : Pure α} {V : View σ α} (L : Lawful I M V)
    (p : WProg) (s : σ) (hnf : V.failed s = false) (hH : V.failAt s = none) :
    V.failed (exec I p s).2 = false ∧
    (((exec I p s).1 = none ∧ pexec M p (V.abs s) = .ok (V.abs (exec I p s).2)) ∨
     (∃ e, (exec I p s).1 = some (.enc e) ∧ pexec M p (V.abs s) = .error e)) := by
  obtain ⟨_, _, _, h⟩ := exec_spec L p s hnf
  rcases h with ⟨a1, a2, a3⟩ | ⟨_, _, a3⟩ | ⟨e, a1, a2, a3⟩
  · exact ⟨a2, Or.inl ⟨a1, a3⟩⟩
  · exact absurd hH a3
  · exact ⟨a2, Or.inr ⟨e, a1, a3⟩⟩

/-- (c) two destinations that never fail hard: same result, and the same state when `Ok` -/
theorem exec_short_identical {σ α : Type} {I : Impl σ} {M : Pure α} {V : View σ α} (L : Lawful I M V)
    (p : WProg) (s₁ s₂ : σ) (h1 : V.failed s₁ = false) (h2 : V.failed s₂ = false)
    (f1 : V.failAt s₁ = none) (f2 : V.failAt s₂ = none) (hA : V.abs s₁ = V.abs s₂) :
    (exec I p s₁).1 = (exec I p s₂).1 ∧
    ((exec I p s₁).1 = none → V.abs (exec I p s₁).2 = V.abs (exec I p s₂).2) := by
  obtain ⟨_, a⟩ := exec_healthy L p s₁ h1 f1
  obtain ⟨_, b⟩ := exec_healthy L p s₂ h2 f2
  rw [hA] at a
  rcases a with ⟨a1, a2⟩ | ⟨e, a1, a2⟩
  · rcases b with ⟨b1, b2⟩ | ⟨e', b1, b2⟩
    · rw [a2] at b2
      injection b2 with b2
      exact ⟨by rw [a1, b1], fun _ => b2⟩
    · rw [a2] at b2; cases b2
  · rcases b with ⟨b1, b2⟩ | ⟨e', b1, b2⟩
    · rw [a2] at b2; cases b2
    · rw [a2] at b2
      injection b2 with b2
      subst b2
      exact ⟨by rw [a1, b1], fun h => by rw [a1] at h; cases h⟩

/-- every failure index inside the run is hit: `s` is a healthy state, `sk` the same state with
the failure scripted at call `k`; if the healthy run makes more than `k` destination calls, the
run on `sk` returns the destination's error -/
theorem exec_failure_index_surfaces {σ α : Type} {I : Impl σ} {M : Pure α} {V : View σ α}
    (L : Lawful I M V) (p : WProg) (s sk : σ) (k : Nat)
    (hheal : V.heal sk = s) (hfa : V.failAt sk = some k) (hnf : V.failed sk = false)
    (hk0 : V.calls sk ≤ k) (hk : k < V.calls (exec I p s).2) :
    (exec I p sk).1 = some (.sink (V.kind sk)) := by
  cases hF : V.failed (exec I p sk).2 with
  | true => exact exec_reports_failure L p sk hnf hF
  | false =>
    exfalso
    have g := exec_heal L p sk hnf hF
    rw [hheal] at g
    rw [g] at hk
    simp only at hk
    rw [L.heal_calls] at hk
    obtain ⟨_, hfa', hc, _⟩ := exec_spec L p sk hnf
    have hok : V.callsOK sk := by
      intro k' hk' _
      rw [hfa] at hk'
      injection hk' with hk'
      omega
    have := hc hok k (by rw [hfa', hfa]) hF
    omega

/-! ## caller level -/

theorem runCalls_exec {σ : Type} (I : Impl σ) (cs : List WProg) (i : Nat) (s : σ) :
    (runCalls I cs i s).2 = (exec I (seqAll cs) s).2 ∧
    (runCalls I cs i s).1.map (fun x : Nat × WErr => x.2) = (exec I (seqAll cs) s).1 := by
  induction cs generalizing i s with
  | nil => exact ⟨rfl, rfl⟩
  | cons c cs ih =>
    show (match exec I c s with
          | (some e, s') => (some (i, e), s')
          | (none, s') => runCalls I cs (i + 1) s').2 =
         (andThen (exec I c s) (exec I (seqAll cs))).2 ∧
         (match exec I c s with
          | (some e, s') => (some (i, e), s')
          | (none, s') => runCalls I cs (i + 1) s').1.map (fun x : Nat × WErr => x.2) =
         (andThen (exec I c s) (exec I (seqAll cs))).1
    cases hR : exec I c s with
    | mk r s1 =>
      cases r with
      | some e => exact ⟨rfl, rfl⟩
      | none => exact ih (i + 1) s1

/-! ## the destination -/

def DParams (s t : Dest) : Prop :=
  t.kind = s.kind ∧ t.failAt = s.failAt ∧ t.failOnce = s.failOnce ∧ t.fallback = s.fallback

theorem DParams.refl (s : Dest) : DParams s s := ⟨rfl, rfl, rfl, rfl⟩
theorem DParams.trans {s t u : Dest} (h1 : DParams s t) (h2 : DParams t u) : DParams s u :=
  ⟨h2.1.trans h1.1, h2.2.1.trans h1.2.1, h2.2.2.1.trans h1.2.2.1, h2.2.2.2.trans h1.2.2.2⟩

def DCallsOK (s : Dest) : Prop := ∀ k, s.failAt = some k → s.failed = false → s.calls ≤ k

def Dest.heal (s : Dest) : Dest := { s with failAt := none }

theorem Dest.heal_failsNow (s : Dest) : s.heal.failsNow = false := rfl

theorem Dest.failsNow_true (s : Dest) (h : s.failsNow = true) : s.failAt ≠ none := by
  unfold Dest.failsNow at h
  cases hf : s.failAt with
  | none => rw [hf] at h; cases h
  | some k => simp

/-- a call that does not fail keeps the invariant -/
theorem Dest.callsOK_step (s t : Dest) (hp : DParams s t) (hc : t.calls = s.calls + 1)
    (h : s.failsNow = false) (hnf : s.failed = false) (h0 : DCallsOK s) : DCallsOK t := by
  intro k hk _
  rw [hp.2.1] at hk
  have h1 := h0 k hk hnf
  unfold Dest.failsNow at h
  rw [hk] at h
  have : ¬ (s.calls = k) := by
    intro e
    simp [e] at h
  omega

theorem Dest.write_cases (s : Dest) (buf : Bytes) (hb : buf ≠ []) (hnf : s.failed = false) :
    DParams s (s.write buf).2 ∧ (s.write buf).2.calls = s.calls + 1 ∧
    (((s.write buf).1 = .fail ∧ (s.write buf).2.failed = true ∧ s.failsNow = true ∧
        (s.write buf).2.accepted = s.accepted) ∨
     ((s.write buf).1 = .interrupted ∧ (s.write buf).2.failed = false ∧
        (s.write buf).2.accepted = s.accepted ∧ (s.write buf).2.script.length + 1 = s.script.length ∧
        s.failsNow = false) ∨
     (∃ n, (s.write buf).1 = .ok n ∧ 0 < n ∧ n ≤ buf.length ∧ (s.write buf).2.failed = false ∧
        (s.write buf).2.accepted = s.accepted ++ buf.take n ∧
        (s.write buf).2.script.length ≤ s.script.length ∧ s.failsNow = false)) := by
  have hlen : 0 < buf.length := List.length_pos_iff.2 hb
  have hbe : buf.isEmpty = false := by simp [hb]
  unfold Dest.write
  cases hfn : s.failsNow with
  | true => simp [DParams]
  | false =>
    simp only [Bool.false_eq_true, if_false, hbe]
    cases hs : s.script with
    | nil =>
      refine ⟨⟨rfl, rfl, rfl, rfl⟩, rfl, Or.inr (Or.inr ⟨_, rfl, by omega, by omega, hnf, rfl, by simp, trivial⟩)⟩
    | cons st sc =>
      cases st with
      | interrupted =>
        refine ⟨⟨rfl, rfl, rfl, rfl⟩, rfl, Or.inr (Or.inl ⟨rfl, hnf, rfl, by simp, trivial⟩)⟩
      | accept n =>
        refine ⟨⟨rfl, rfl, rfl, rfl⟩, rfl, Or.inr (Or.inr ⟨_, rfl, by omega, by omega, hnf, rfl, by simp, trivial⟩)⟩

theorem Dest.write_heal (s : Dest) (buf : Bytes) (h : s.failsNow = false) :
    s.heal.write buf = ((s.write buf).1, (s.write buf).2.heal) := by
  have h' : s.heal.failsNow = false := rfl
  unfold Dest.write
  rw [h', h]
  obtain ⟨a, sc, fb, c, fa, fo, k, f⟩ := s
  simp only [Dest.heal, Bool.false_eq_true, if_false]
  by_cases hbe : buf.isEmpty
  · simp [hbe]
  · simp only [hbe]
    cases sc with
    | nil => rfl
    | cons st sc => cases st <;> rfl

/-- the full contract of the `write` loop on the scripted destination -/
theorem Dest.writeAllR_spec (fuel : Nat) (s : Dest) (buf : Bytes)
    (hf : buf.length + s.script.length < fuel) (hnf : s.failed = false) :
    DParams s (Dest.writeAllR fuel s buf).2.1 ∧
    (Dest.writeAllR fuel s buf).2.1.script.length ≤ s.script.length ∧
    (DCallsOK s → DCallsOK (Dest.writeAllR fuel s buf).2.1) ∧
    (((Dest.writeAllR fuel s buf).1 = none ∧ (Dest.writeAllR fuel s buf).2.1.failed = false ∧
        (Dest.writeAllR fuel s buf).2.1.accepted = s.accepted ++ buf ∧
        (Dest.writeAllR fuel s buf).2.2 = []) ∨
     ((Dest.writeAllR fuel s buf).1 = some (.sink s.kind) ∧
        (Dest.writeAllR fuel s buf).2.1.failed = true ∧ s.failAt ≠ none ∧
        (Dest.writeAllR fuel s buf).2.1.accepted ++ (Dest.writeAllR fuel s buf).2.2 = s.accepted ++ buf)) := by
  induction fuel generalizing s buf with
  | zero => omega
  | succ fuel ih =>
    unfold Dest.writeAllR
    by_cases hbe : buf.isEmpty
    · have : buf = [] := by simpa using hbe
      subst this
      simp only [List.isEmpty_nil, if_true]
      exact ⟨DParams.refl s, Nat.le_refl _, id, Or.inl ⟨by first | rfl | trivial, hnf, by simp, by first | rfl | trivial⟩⟩
    · have hb : buf ≠ [] := by simpa using hbe
      have hbe' : buf.isEmpty = false := by simpa using hb
      simp only [hbe', Bool.false_eq_true, if_false]
      obtain ⟨hp, hc, hcase⟩ := Dest.write_cases s buf hb hnf
      rcases hcase with ⟨h1, h2, h3, h4⟩ | ⟨h1, h2, h3, h4, h5⟩ | ⟨n, h1, h2, h3, h4, h5, h6, h7⟩
      · -- the destination failed
        have e : s.write buf = (.fail, (s.write buf).2) := by rw [← h1]
        rw [e]
        simp only
        refine ⟨hp, ?_, ?_, Or.inr ⟨by first | rfl | trivial, h2, Dest.failsNow_true s h3, by rw [h4]⟩⟩
        · unfold Dest.write
          rw [h3]; simp
        · intro _ k' _ hf'; rw [h2] at hf'; cases hf'
      · -- interrupted: retry
        have e : s.write buf = (.interrupted, (s.write buf).2) := by rw [← h1]
        rw [e]
        simp only
        obtain ⟨i1, i2, i3, i4⟩ := ih (s.write buf).2 buf (by omega) h2
        refine ⟨hp.trans i1, by omega, ?_, ?_⟩
        · intro hc0
          exact i3 (Dest.callsOK_step s _ hp hc h5 hnf hc0)
        · rw [h3, hp.1, hp.2.1] at i4; exact i4
      · -- accepted n ≥ 1 bytes
        have e : s.write buf = (.ok n, (s.write buf).2) := by rw [← h1]
        rw [e]
        simp only
        rw [if_neg (by omega)]
        obtain ⟨i1, i2, i3, i4⟩ := ih (s.write buf).2 (buf.drop n)
          (by simp only [List.length_drop]; omega) h4
        refine ⟨hp.trans i1, by omega, ?_, ?_⟩
        · intro hc0
          exact i3 (Dest.callsOK_step s _ hp hc h7 hnf hc0)
        · rw [h5, hp.1, hp.2.1, List.append_assoc, List.take_append_drop] at i4; exact i4

theorem Dest.writeAllR_heal (fuel : Nat) (s : Dest) (buf : Bytes) (hnf : s.failed = false)
    (hout : (Dest.writeAllR fuel s buf).2.1.failed = false) :
    Dest.writeAllR fuel s.heal buf =
      ((Dest.writeAllR fuel s buf).1, (Dest.writeAllR fuel s buf).2.1.heal, (Dest.writeAllR fuel s buf).2.2) := by
  induction fuel generalizing s buf with
  | zero => unfold Dest.writeAllR; by_cases hbe : buf.isEmpty <;> simp [hbe]
  | succ fuel ih =>
    unfold Dest.writeAllR at hout ⊢
    by_cases hbe : buf.isEmpty
    · simp [hbe]
    · have hb : buf ≠ [] := by simpa using hbe
      have hbe' : buf.isEmpty = false := by simpa using hb
      simp only [hbe', Bool.false_eq_true, if_false] at hout ⊢
      obtain ⟨hp, hc, hcase⟩ := Dest.write_cases s buf hb hnf
      rcases hcase with ⟨h1, h2, h3, _⟩ | ⟨h1, h2, h3, h4, h5⟩ | ⟨n, h1, h2, h3, h4, h5, h6, h7⟩
      · have e : s.write buf = (.fail, (s.write buf).2) := by rw [← h1]
        rw [e] at hout
        simp only at hout
        rw [h2] at hout; cases hout
      · have e : s.write buf = (.interrupted, (s.write buf).2) := by rw [← h1]
        rw [Dest.write_heal s buf h5]
        rw [e] at hout ⊢
        simp only at hout ⊢
        exact ih _ _ h2 hout
      · have e : s.write buf = (.ok n, (s.write buf).2) := by rw [← h1]
        rw [Dest.write_heal s buf h7]
        rw [e] at hout ⊢
        have hn : n ≠ 0 := by omega
        simp only [hn, if_false] at hout ⊢
        exact ih _ _ h4 hout

theorem Dest.heal_script (s : Dest) : s.heal.script = s.script := rfl

/-! ## layer 1 is lawful -/

def directV : View Dest Bytes where
  abs := Dest.accepted
  failed := Dest.failed
  kind := Dest.kind
  failAt := Dest.failAt
  calls := Dest.calls
  heal := Dest.heal

/-- `Spec directV`, unfolded -/
def SpecD (p : Bytes → Except Err Bytes) (s : Dest) (r : Option WErr) (t : Dest) : Prop :=
  t.kind = s.kind ∧ t.failAt = s.failAt ∧ (DCallsOK s → DCallsOK t) ∧
  ((r = none ∧ t.failed = false ∧ p s.accepted = .ok t.accepted) ∨
   (r = some (.sink s.kind) ∧ t.failed = true ∧ s.failAt ≠ none) ∨
   (∃ e, r = some (.enc e) ∧ t.failed = false ∧ p s.accepted = .error e))

theorem specD_iff (p : Bytes → Except Err Bytes) (s : Dest) (out : Option WErr × Dest) :
    Spec directV p s out ↔ SpecD p s out.1 out.2 := Iff.rfl

theorem Dest.writeAll_specD (s : Dest) (b : Bytes) (hnf : s.failed = false) :
    SpecD (fun a => .ok (a ++ b)) s (s.writeAll b).1 (s.writeAll b).2 := by
  obtain ⟨hp, _, hc, h⟩ := Dest.writeAllR_spec (b.length + s.script.length + 1) s b (by omega) hnf
  refine ⟨hp.1, hp.2.1, hc, ?_⟩
  rcases h with ⟨a1, a2, a3, _⟩ | ⟨a1, a2, a3, _⟩
  · exact Or.inl ⟨a1, a2, congrArg Except.ok a3.symm⟩
  · exact Or.inr (Or.inl ⟨a1, a2, a3⟩)

theorem Dest.writeAll_spec (s : Dest) (b : Bytes) (hnf : s.failed = false) :
    Spec directV (fun a => .ok (a ++ b)) s (s.writeAll b) :=
  (specD_iff _ _ _).2 (Dest.writeAll_specD s b hnf)

theorem Dest.writeAll_heal' (s : Dest) (b : Bytes) (hnf : s.failed = false)
    (hout : (s.writeAll b).2.failed = false) :
    s.heal.writeAll b = ((s.writeAll b).1, (s.writeAll b).2.heal) := by
  have := Dest.writeAllR_heal (b.length + s.script.length + 1) s b hnf hout
  unfold Dest.writeAll Dest.writeAllRF
  rw [Dest.heal_script, this]

theorem Dest.writeAll_heal (b : Bytes) : Heals directV (fun s => s.writeAll b) :=
  fun s hnf hout => Dest.writeAll_heal' s b hnf hout

theorem Dest.flush_specD (s : Dest) (hnf : s.failed = false) :
    SpecD (fun a => .ok a) s s.flush.1 s.flush.2 := by
  unfold Dest.flush
  cases hfn : s.failsNow with
  | true =>
    simp only [if_true]
    refine ⟨rfl, rfl, ?_, Or.inr (Or.inl ⟨rfl, rfl, Dest.failsNow_true s hfn⟩)⟩
    intro _ k _ hf; cases hf
  | false =>
    simp only [Bool.false_eq_true, if_false]
    refine ⟨rfl, rfl, ?_, Or.inl ⟨rfl, hnf, rfl⟩⟩
    intro h0
    exact Dest.callsOK_step s { s with calls := s.calls + 1 } ⟨rfl, rfl, rfl, rfl⟩ rfl hfn hnf h0

theorem Dest.flush_spec (s : Dest) (hnf : s.failed = false) :
    Spec directV (fun a => .ok a) s s.flush :=
  (specD_iff _ _ _).2 (Dest.flush_specD s hnf)

theorem Dest.flush_heal' (s : Dest) (hout : s.flush.2.failed = false) :
    s.heal.flush = (s.flush.1, s.flush.2.heal) := by
  unfold Dest.flush at hout ⊢
  rw [Dest.heal_failsNow]
  cases hfn : s.failsNow with
  | true => rw [hfn] at hout; simp at hout
  | false => simp [Dest.heal]

theorem Dest.flush_heal : Heals directV Dest.flush :=
  fun s _ hout => Dest.flush_heal' s hout

theorem direct_lawful : Lawful direct pdirect directV where
  writeAll_spec := Dest.writeAll_spec
  flush_spec := Dest.flush_spec
  finish_spec := Dest.flush_spec
  writeAll_heal := Dest.writeAll_heal
  flush_heal := Dest.flush_heal
  finish_heal := Dest.flush_heal
  heal_calls := fun _ => rfl

/-! ## layer 2 is lawful -/

def BufW.heal (w : BufW) : BufW := { w with dest := w.dest.heal }

def bufV : View BufW PBuf where
  abs := BufW.pure
  failed := fun w => w.dest.failed
  kind := fun w => w.dest.kind
  failAt := fun w => w.dest.failAt
  calls := fun w => w.dest.calls
  heal := BufW.heal

/-- `Spec bufV`, unfolded -/
def SpecB (p : PBuf → Except Err PBuf) (w : BufW) (r : Option WErr) (t : BufW) : Prop :=
  t.dest.kind = w.dest.kind ∧ t.dest.failAt = w.dest.failAt ∧ (DCallsOK w.dest → DCallsOK t.dest) ∧
  ((r = none ∧ t.dest.failed = false ∧ p w.pure = .ok t.pure) ∨
   (r = some (.sink w.dest.kind) ∧ t.dest.failed = true ∧ w.dest.failAt ≠ none) ∨
   (∃ e, r = some (.enc e) ∧ t.dest.failed = false ∧ p w.pure = .error e))

theorem specB_iff (p : PBuf → Except Err PBuf) (w : BufW) (out : Option WErr × BufW) :
    Spec bufV p w out ↔ SpecB p w out.1 out.2 := Iff.rfl

theorem BufW.flushBuf_specB (w : BufW) (hnf : w.dest.failed = false) :
    SpecB (fun a => .ok a.flush) w w.flushBuf.1 w.flushBuf.2 := by
  obtain ⟨hp, _, hc, h⟩ :=
    Dest.writeAllR_spec (w.buf.length + w.dest.script.length + 1) w.dest w.buf (by omega) hnf
  refine ⟨hp.1, hp.2.1, hc, ?_⟩
  rcases h with ⟨a1, a2, a3, a4⟩ | ⟨a1, a2, a3, _⟩
  · refine Or.inl ⟨a1, a2, congrArg Except.ok ?_⟩
    show PBuf.flush w.pure = BufW.pure w.flushBuf.2
    unfold BufW.flushBuf Dest.writeAllRF BufW.pure PBuf.flush
    simp only
    rw [a3, a4]
  · exact Or.inr (Or.inl ⟨a1, a2, a3⟩)

theorem BufW.flushBuf_spec (w : BufW) (hnf : w.dest.failed = false) :
    Spec bufV (fun a => .ok a.flush) w w.flushBuf :=
  (specB_iff _ _ _).2 (BufW.flushBuf_specB w hnf)

theorem BufW.flushBuf_heal' (w : BufW) (hnf : w.dest.failed = false)
    (hout : w.flushBuf.2.dest.failed = false) :
    w.heal.flushBuf = (w.flushBuf.1, w.flushBuf.2.heal) := by
  have := Dest.writeAllR_heal (w.buf.length + w.dest.script.length + 1) w.dest w.buf hnf hout
  unfold BufW.flushBuf Dest.writeAllRF BufW.heal
  simp only
  rw [Dest.heal_script, this]

theorem BufW.flushBuf_heal : Heals bufV BufW.flushBuf :=
  fun w hnf hout => BufW.flushBuf_heal' w hnf hout

theorem BufW.stage2_spec (b : Bytes) (w1 : BufW) (h1nf : w1.dest.failed = false) :
    Spec bufV (fun a => .ok (a.stage2 b)) w1 (w1.stage2 b) := by
  rw [specB_iff]
  unfold BufW.stage2
  by_cases h3 : b.length ≥ w1.cap
  · rw [if_pos h3]
    obtain ⟨k1, f1, c1, h⟩ := Dest.writeAll_specD w1.dest b h1nf
    refine ⟨k1, f1, c1, ?_⟩
    rcases h with ⟨a1, a2, a3⟩ | ⟨a1, a2, a3⟩ | ⟨e, a1, a2, a3⟩
    · refine Or.inl ⟨a1, a2, congrArg Except.ok ?_⟩
      have a3' : w1.dest.accepted ++ b = (w1.dest.writeAll b).2.accepted := by
        injection a3
      unfold PBuf.stage2
      rw [if_pos (show b.length ≥ w1.pure.cap from h3)]
      unfold BufW.pure
      simp only
      rw [a3']
    · exact Or.inr (Or.inl ⟨a1, a2, a3⟩)
    · cases a3
  · rw [if_neg h3]
    refine ⟨rfl, rfl, id, Or.inl ⟨rfl, h1nf, congrArg Except.ok ?_⟩⟩
    unfold PBuf.stage2
    rw [if_neg (show ¬ b.length ≥ w1.pure.cap from h3)]
    rfl

theorem BufW.stage2_heal (b : Bytes) : Heals bufV (BufW.stage2 b) := by
  intro w1 hnf hout
  show w1.heal.stage2 b = ((w1.stage2 b).1, (w1.stage2 b).2.heal)
  have hout' : (w1.stage2 b).2.dest.failed = false := hout
  unfold BufW.stage2 at hout' ⊢
  by_cases h3 : b.length ≥ w1.cap
  · rw [if_pos h3] at hout' ⊢
    rw [if_pos (show b.length ≥ w1.heal.cap from h3)]
    have := Dest.writeAll_heal' w1.dest b hnf hout'
    show ((w1.dest.heal.writeAll b).1,
      ({ cap := w1.cap, buf := w1.buf, dest := (w1.dest.heal.writeAll b).2 } : BufW)) = _
    rw [this]
    rfl
  · rw [if_neg h3]
    rw [if_neg (show ¬ b.length ≥ w1.heal.cap from h3)]
    rfl

theorem BufW.writeAll_spec (w : BufW) (b : Bytes) (hnf : w.dest.failed = false) :
    Spec bufV (fun a => .ok (a.writeAll b)) w (w.writeAll b) := by
  unfold BufW.writeAll
  by_cases h1 : b.length < w.cap - w.buf.length
  · rw [if_pos h1]
    refine ⟨rfl, rfl, id, Or.inl ⟨rfl, hnf, congrArg Except.ok ?_⟩⟩
    unfold PBuf.writeAll
    rw [if_pos (show b.length < (bufV.abs w).cap - (bufV.abs w).buf.length from h1)]
    rfl
  · rw [if_neg h1]
    by_cases h2 : b.length > w.cap - w.buf.length
    · rw [if_pos h2]
      refine Spec.seq BufW.flushBuf (BufW.stage2 b) (p := fun a : PBuf => .ok a.flush)
        (q := fun a : PBuf => .ok (a.stage2 b)) ?_ (BufW.flushBuf_spec w hnf)
        (fun w1 h => BufW.stage2_spec b w1 h)
      simp only
      unfold PBuf.writeAll
      rw [if_neg (show ¬ b.length < (bufV.abs w).cap - (bufV.abs w).buf.length from h1)]
      rw [if_pos (show b.length > (bufV.abs w).cap - (bufV.abs w).buf.length from h2)]
    · rw [if_neg h2]
      have hs := BufW.stage2_spec b w hnf
      obtain ⟨k1, f1, c1, h⟩ := hs
      refine ⟨k1, f1, c1, ?_⟩
      have e : (bufV.abs w).writeAll b = (bufV.abs w).stage2 b := by
        unfold PBuf.writeAll
        rw [if_neg (show ¬ b.length < (bufV.abs w).cap - (bufV.abs w).buf.length from h1)]
        rw [if_neg (show ¬ b.length > (bufV.abs w).cap - (bufV.abs w).buf.length from h2)]
      simp only [e]
      exact h

theorem Heals.bind {σ α : Type} {V : View σ α} {f g : σ → Option WErr × σ}
    {p : α → Except Err α} (hf : Heals V f) (hg : Heals V g)
    (hspec : ∀ s, V.failed s = false → Spec V p s (f s)) :
    Heals V (fun s => andThen (f s) g) := by
  intro s hnf hout
  have hs := hspec s hnf
  have hout' : V.failed (andThen (f s) g).2 = false := hout
  show andThen (f (V.heal s)) g = ((andThen (f s) g).1, V.heal (andThen (f s) g).2)
  cases hR : f s with
  | mk r s1 =>
    rw [hR] at hs hout'
    cases r with
    | some e =>
      have := hf s hnf (by rw [hR]; exact hout')
      rw [this, hR]
      rfl
    | none =>
      have h1 : V.failed s1 = false := hs.failed_of_ok rfl
      have := hf s hnf (by rw [hR]; exact h1)
      rw [this, hR]
      exact hg s1 h1 hout'

theorem BufW.writeAll_heal (b : Bytes) : Heals bufV (fun w => w.writeAll b) := by
  intro w hnf hout
  show w.heal.writeAll b = ((w.writeAll b).1, (w.writeAll b).2.heal)
  have hout' : (w.writeAll b).2.dest.failed = false := hout
  unfold BufW.writeAll at hout' ⊢
  by_cases h1 : b.length < w.cap - w.buf.length
  · rw [if_pos h1]
    rw [if_pos (show b.length < w.heal.cap - w.heal.buf.length from h1)]
    rfl
  · rw [if_neg h1] at hout' ⊢
    rw [if_neg (show ¬ b.length < w.heal.cap - w.heal.buf.length from h1)]
    by_cases h2 : b.length > w.cap - w.buf.length
    · rw [if_pos h2] at hout' ⊢
      rw [if_pos (show b.length > w.heal.cap - w.heal.buf.length from h2)]
      exact Heals.bind BufW.flushBuf_heal (BufW.stage2_heal b)
        (fun w h => BufW.flushBuf_spec w h) w hnf hout'
    · rw [if_neg h2] at hout' ⊢
      rw [if_neg (show ¬ b.length > w.heal.cap - w.heal.buf.length from h2)]
      exact BufW.stage2_heal b w hnf hout'

theorem BufW.flushDest_spec (w : BufW) (hnf : w.dest.failed = false) :
    Spec bufV (fun a => .ok a) w w.flushDest := by
  rw [specB_iff]
  obtain ⟨k1, f1, c1, h⟩ := Dest.flush_specD w.dest hnf
  refine ⟨k1, f1, c1, ?_⟩
  rcases h with ⟨a1, a2, a3⟩ | ⟨a1, a2, a3⟩ | ⟨e, a1, a2, a3⟩
  · refine Or.inl ⟨a1, a2, congrArg Except.ok ?_⟩
    have a3' : w.dest.accepted = w.dest.flush.2.accepted := by injection a3
    show w.pure = BufW.pure w.flushDest.2
    unfold BufW.pure BufW.flushDest
    simp only
    rw [← a3']
  · exact Or.inr (Or.inl ⟨a1, a2, a3⟩)
  · cases a3

theorem BufW.flushDest_heal : Heals bufV BufW.flushDest := by
  intro w _ hout
  show w.heal.flushDest = (w.flushDest.1, w.flushDest.2.heal)
  have hout' : w.dest.flush.2.failed = false := hout
  unfold BufW.flushDest
  show ((w.dest.heal.flush).1, ({ cap := w.cap, buf := w.buf, dest := (w.dest.heal.flush).2 } : BufW)) = _
  rw [Dest.flush_heal' w.dest hout']
  rfl

theorem BufW.flush_spec (w : BufW) (hnf : w.dest.failed = false) :
    Spec bufV (fun a => .ok a.flush) w w.flush :=
  Spec.seq BufW.flushBuf BufW.flushDest (p := fun a : PBuf => .ok a.flush)
    (q := fun a : PBuf => .ok a) rfl (BufW.flushBuf_spec w hnf)
    (fun w1 h => BufW.flushDest_spec w1 h)

theorem BufW.flush_heal : Heals bufV BufW.flush :=
  Heals.bind BufW.flushBuf_heal BufW.flushDest_heal (fun w h => BufW.flushBuf_spec w h)

theorem buffered_lawful : Lawful buffered pbuffered bufV where
  writeAll_spec := BufW.writeAll_spec
  flush_spec := BufW.flush_spec
  finish_spec := BufW.flush_spec
  writeAll_heal := BufW.writeAll_heal
  flush_heal := BufW.flush_heal
  finish_heal := BufW.flush_heal
  heal_calls := fun _ => rfl

/-! ## layer 3 is lawful (from `Noodles/Bgzf/SinkProof.lean`) -/

def bgzfV : View SM.FW Writer where
  abs := SM.FW.pure
  failed := fun w => w.sink.failed
  kind := fun w => w.sink.kind
  failAt := fun w => w.sink.failAt
  calls := fun w => w.sink.calls
  heal := SM.healW

theorem spec_of_SM {p : Writer → Except Err Writer} {w : SM.FW} {r : Option WErr} {w' : SM.FW}
    (h : SM.Spec p w r w') : Spec bgzfV p w (r, w') := by
  obtain ⟨hp, hc, h⟩ := h
  exact ⟨hp.1, hp.2.1, hc, h⟩

theorem bgzf_lawful (D : Deflater) (lvl : Nat) : Lawful (bgzf D lvl) (pbgzf D lvl) bgzfV where
  writeAll_spec := fun w b hnf => spec_of_SM (SM.writeAllW_spec D lvl (b.length + 1) w b hnf)
  flush_spec := fun w hnf => spec_of_SM (SM.flush_spec D lvl w hnf)
  finish_spec := fun w hnf => spec_of_SM (SM.tryFinish_spec D lvl w hnf)
  writeAll_heal := fun b w hnf hout => SM.writeAllW_heal D lvl (b.length + 1) w b hnf hout
  flush_heal := fun w hnf hout => SM.flush_heal D lvl w hnf hout
  finish_heal := fun w hnf hout => SM.tryFinish_heal D lvl w hnf hout
  heal_calls := fun _ => rfl

end Noodles.WP
