import Noodles.Io.DriverC12More
import Noodles.Io.BgzfSource
/-! Line-protocol handler for the "composition of layers" part of the C12 model (`c12 comp …`).
Bytes as hex (`-` = empty), schedules as in `DriverC12`.  A byte string is shown as
`<length>.<digest>` with `digest = fold (h * 31 + b) mod 2^32`.

* `c12 comp rd <file> <ftable> <sched> <script>` — `bgzf::io::Reader::new(src)` driven by a script:
  `r<n>` = `read(&mut [0; n])`, `f` = `fill_buf()` (the window), `c<n>` = `fill_buf()` + `consume(min(n, window))`, `k<n>` = `fill_buf()` + `consume(window + n)`
  (saturates),
  `x<n>` = `read_exact(&mut [0; n])`, `t<n>` = `take(n).read_to_end(..)`; one answer word per op, the
  script stops after the first error.  `ftable` = `<frame length>.<frame digest>=<data hex|E>,…` is
  what the real DEFLATE + CRC-32 layer answers for each member of the file alone (`E` = refused).
* `c12 comp bamhdr <payload> <ptable> <sched>` — `bam::io::reader::header::read_header` over a raw
  scheduled source: `ok <token> refs=<name hex>:<len>,… @<consumed>` or the error class.
  `ptable` = `<lines key>=<E | token/name:len,…>`: the real SAM header parser's answer for the header
  lines (`lines key` = the lines in hex joined by `.`); `token` is passed through.
* `c12 comp bamz <file> <ftable> <ptable> <sched>` — `bam::io::Reader::new(src)`: `read_header`, then
  `read_record` until end / error, through the BGZF reader: `hdr=<as above, no position> recs=… end=…`
-/
namespace Noodles.IO.Comp
open Noodles.Wire Noodles.IO

def digest (bs : Bytes) : Nat := bs.foldl (fun h b => (h * 31 + b.toNat) % 4294967296) 0

def showBytes (bs : Bytes) : String := s!"{bs.length}.{digest bs}"

/-- `<len>.<digest>=<hex|E>,…` -/
def parseFTable (s : String) : Option (List (String × Option Bytes)) :=
  if s = "-" then some [] else
  (s.splitOn ",").mapM fun ent =>
    match ent.splitOn "=" with
    | [k, "E"] => some (k, none)
    | [k, v] => (unhex v).map fun d => (k, some d)
    | _ => none

def decOf (t : List (String × Option Bytes)) (f : Bytes) : Except Err Bytes :=
  match t.lookup (showBytes f) with
  | some (some d) => .ok d
  | some none => .error .invalidData
  | none => .error .fuel

def linesKey (ls : List Bytes) : String := if ls.isEmpty then "-" else ".".intercalate (ls.map hex)

def parseRefs (s : String) : Option (List (Bytes × Nat)) :=
  if s = "-" then some [] else
  (s.splitOn ",").mapM fun ent =>
    match ent.splitOn ":" with
    | [n, l] => match unhex n, l.toNat? with
      | some n, some l => some (n, l)
      | _, _ => none
    | _ => none

/-- `<lines key>=E` or `<lines key>=<token>/<refs>` → (key, token, parser answer) -/
def parsePTable (s : String) : Option (String × String × Except Err (List (Bytes × Nat))) :=
  match s.splitOn "=" with
  | [k, "E"] => some (k, "", .error .invalidData)
  | [k, v] =>
    match v.splitOn "/" with
    | [tok, refs] => (parseRefs refs).map fun r => (k, tok, .ok r)
    | _ => none
  | _ => none

def parseOf (t : String × String × Except Err (List (Bytes × Nat))) (ls : List Bytes) :
    Except Err (List (Bytes × Nat)) :=
  if linesKey ls = t.1 then t.2.2 else .error .fuel

def refsStr (r : List (Bytes × Nat)) : String := joinOr "," (r.map fun x => s!"{hex x.1}:{x.2}")

def hdrStr (t : String × String × Except Err (List (Bytes × Nat))) (h : BamHeader) : String :=
  if linesKey h.lines = t.1 then s!"ok {t.2.1} refs={refsStr h.refs}" else "parse-table-miss"

def runScript (dec : Bytes → Except Err Bytes) : List String → BR → List String → List String
  | [], _, acc => acc.reverse
  | op :: ops, r, acc =>
    let arg := (String.ofList (op.toList.drop 1)).toNat?
    match op.toList.head?, arg with
    | some 'r', some n =>
      match read dec r n with
      | (.ok bs, r') => runScript dec ops r' (showBytes bs :: acc)
      | (.error e, _) => (errStr e :: acc).reverse
    | some 'f', _ =>
      match fillBuf dec r with
      | (.ok w, r') => runScript dec ops r' (showBytes w :: acc)
      | (.error e, _) => (errStr e :: acc).reverse
    | some 'c', some n =>
      match fillBuf dec r with
      | (.ok w, r') => runScript dec ops (consume (min n w.length) r') (s!"c{min n w.length}" :: acc)
      | (.error e, _) => (errStr e :: acc).reverse
    | some 'k', some n =>
      match fillBuf dec r with
      | (.ok w, r') => runScript dec ops (consume (w.length + n) r') ("k" :: acc)
      | (.error e, _) => (errStr e :: acc).reverse
    | some 'x', some n =>
      match readExactB dec r n with
      | (.ok bs, r') => runScript dec ops r' (showBytes bs :: acc)
      | (.error e, _) => (errStr e :: acc).reverse
    | some 't', some n =>
      match takeReadToEndB dec (n + 1) r n [] [] with
      | (.ok bs, r') => runScript dec ops r' (showBytes bs :: acc)
      | (.error e, _) => (errStr e :: acc).reverse
    | _, _ => ("bad-op" :: acc).reverse

/-- `while reader.read_record(&mut record)? != 0`, one `read_record` (`Prog.bamReadRecordV`) at a time -/
def recsLoop (dec : Bytes → Except Err Bytes) : Nat → BR → List Bytes → List Bytes × Option Err
  | 0, _, acc => (acc.reverse, some .fuel)
  | fuel+1, r, acc =>
    match runB dec noSizes Prog.bamReadRecordV r with
    | (.error e, _) => (acc.reverse, some e)
    | (.ok none, _) => (acc.reverse, none)
    | (.ok (some x), r') => recsLoop dec fuel r' (x :: acc)

def handleC12Comp : List String → String
  | ["rd", file, ftable, sched, script] =>
    match unhex file, parseFTable ftable, parseSched sched with
    | some d, some ft, some sc =>
      " ".intercalate (runScript (decOf ft) (script.splitOn ",") (BR.init ⟨d, sc⟩) [])
    | _, _, _ => "bad-request"
  | ["bamhdr", payload, ptable, sched] =>
    match unhex payload, parsePTable ptable, parseSched sched with
    | some d, some pt, some sc =>
      match Prog.run noSizes (bamReadHeader (parseOf pt)) ⟨d, sc⟩ with
      | (.ok h, s') => s!"{hdrStr pt h} @{d.length - s'.data.length}"
      | (.error e, _) => errStr e
    | _, _, _ => "bad-request"
  | ["bamz", file, ftable, ptable, sched] =>
    match unhex file, parseFTable ftable, parsePTable ptable, parseSched sched with
    | some d, some ft, some pt, some sc =>
      let dec := decOf ft
      match runB dec noSizes (bamReadHeader (parseOf pt)) (BR.init ⟨d, sc⟩) with
      | (.error e, _) => s!"hdr={errStr e}"
      | (.ok h, r) =>
        let fuel := (ft.foldl (fun a x => a + (x.2.getD []).length) 0) + 1
        let (recs, e) := recsLoop dec fuel r []
        let rs := recs.map fun x => s!"{x.length}:{hex (bamName x)}"
        s!"hdr={hdrStr pt h} recs={joinOr "," rs} end={endStr e}"
    | _, _, _, _ => "bad-request"
  | _ => "bad-op"

end Noodles.IO.Comp
