import Noodles.Io.AsyncMore
import Noodles.Io.AsyncLoopsProof
import Noodles.Io.FastaProof
import Noodles.Io.AsyncMoreTextProof
/-!
# Proofs for `Noodles.Io.AsyncMore`, part 3: the async FASTA `read_sequence` on well-formed sequence lines
-/
namespace Noodles.IO.Async
open Noodles.IO
open Noodles.Bgzf.Async (Poll1 Poll)

variable {σ : Type}

/-! ## the scan future with an invariant

`ScanSpec` asks the window function to agree with a stream function on ALL states and windows.  The
async FASTA `read_sequence` does so only on well-formed streams and consistent states: `ScanSpecI`
carries an invariant `Inv st stream` that every `.more` step has to re-establish. -/

/-- `ScanSpec` relative to an invariant of (loop state, stream still to be read) -/
structure ScanSpecI {α st ρ : Type} (k : st → List α → Scan st ρ) (spec : st → List α → ρ × List α)
    (Inv : st → List α → Prop) : Prop where
  done : ∀ s w ys r, (w = [] → ys = []) → Inv s (w ++ ys) → k s w = .done r →
    spec s (w ++ ys) = (r, w ++ ys)
  more : ∀ s w ys s' n, (w = [] → ys = []) → Inv s (w ++ ys) → k s w = .more s' n →
    0 < n ∧ n ≤ w.length ∧ spec s (w ++ ys) = spec s' ((w ++ ys).drop n) ∧ Inv s' ((w ++ ys).drop n)
  last : ∀ s w ys r n, (w = [] → ys = []) → Inv s (w ++ ys) → k s w = .last r n →
    n ≤ w.length ∧ spec s (w ++ ys) = (r, (w ++ ys).drop n)

/-- a `ScanSpec` is a `ScanSpecI` for the trivial invariant -/
theorem ScanSpecI.of_scanSpec {α st ρ : Type} (k : st → List α → Scan st ρ)
    (spec : st → List α → ρ × List α) (H : ScanSpec k spec) : ScanSpecI k spec (fun _ _ => True) where
  done := fun s w ys r h _ hk => H.done s w ys r h hk
  more := fun s w ys s' n h _ hk =>
    ⟨(H.more s w ys s' n h hk).1, (H.more s w ys s' n h hk).2.1, (H.more s w ys s' n h hk).2.2, trivial⟩
  last := fun s w ys r n h _ hk => H.last s w ys r n h hk

/-- one poll of the scan future, with an invariant: a `Pending` keeps `spec` of the state and the
stream AND the invariant, a `Ready` is `spec` of the stream -/
theorem scanPollI_spec {α st ρ : Type} (A : ARead σ α) (hA : A.Lawful) (cap : Nat) (hc : 0 < cap)
    (k : st → List α → Scan st ρ) (spec : st → List α → ρ × List α) (Inv : st → List α → Prop)
    (H : ScanSpecI k spec Inv)
    (fuel : Nat) (s0 : st) (b : ABuf σ α) (hf : (b.stream A).length < fuel) (hi : Inv s0 (b.stream A)) :
    (∀ t', scanPoll A cap k fuel (s0, b) = (.pending, t') →
      spec t'.1 (t'.2.stream A) = spec s0 (b.stream A) ∧ Inv t'.1 (t'.2.stream A) ∧
      (t'.2.stream A).length ≤ (b.stream A).length ∧ A.credit t'.2.inner < A.credit b.inner) ∧
    (∀ r t', scanPoll A cap k fuel (s0, b) = (.ready r, t') →
      r = .ok (spec s0 (b.stream A)).1 ∧ t'.2.stream A = (spec s0 (b.stream A)).2) := by
  induction fuel generalizing s0 b with
  | zero => omega
  | succ fuel ih =>
    rcases pollFillBuf_cases A hA cap hc b with ⟨b', hfb, hst, hcr⟩ | ⟨w, b', hfb, hbuf, hst, hcr, hnil⟩
    · simp only [scanPoll, hfb]
      refine ⟨?_, (by intro r t' h; cases h)⟩
      intro t' h
      cases h
      exact ⟨by rw [hst], by rw [hst]; exact hi, by rw [hst]; exact Nat.le_refl _, hcr⟩
    · simp only [scanPoll, hfb]
      have hstream : b.stream A = w ++ A.rest b'.inner := by rw [← hst, ABuf.stream, hbuf]
      have hys : w = [] → A.rest b'.inner = [] := by
        intro hw
        have := hnil hw
        rw [hstream, hw] at this
        simpa using this
      have hi' : Inv s0 (w ++ A.rest b'.inner) := by rw [← hstream]; exact hi
      cases hk : k s0 w with
      | done r =>
        simp only
        have := H.done s0 w (A.rest b'.inner) r hys hi' hk
        refine ⟨(by intro t' h; cases h), ?_⟩
        intro r' t' h
        cases h
        rw [hstream, this]
        exact ⟨rfl, by rw [hst, hstream]⟩
      | more st' n =>
        simp only
        obtain ⟨hn0, hnw, hsp, hinv⟩ := H.more s0 w (A.rest b'.inner) st' n hys hi' hk
        have hcs : (aconsume n b').stream A = (b.stream A).drop n := by
          rw [aconsume_stream A b' n (by rw [hbuf]; exact hnw), hst]
        have hlen : ((aconsume n b').stream A).length + n ≤ (b.stream A).length := by
          rw [hcs, List.length_drop]
          have : n ≤ (b.stream A).length := by rw [hstream]; simp; omega
          omega
        obtain ⟨i1, i2⟩ := ih st' (aconsume n b') (by omega) (by rw [hcs, hstream]; exact hinv)
        rw [hcs] at i1 i2
        rw [hstream] at i1 i2 ⊢
        rw [hsp]
        refine ⟨?_, i2⟩
        intro t' h
        obtain ⟨a1, a0, a2, a3⟩ := i1 t' h
        refine ⟨a1, a0, ?_, ?_⟩
        · rw [List.length_drop] at a2; omega
        · exact Nat.lt_of_lt_of_le a3 hcr
      | last r n =>
        simp only
        obtain ⟨hnw, hsp⟩ := H.last s0 w (A.rest b'.inner) r n hys hi' hk
        have hcs : (aconsume n b').stream A = (b.stream A).drop n := by
          rw [aconsume_stream A b' n (by rw [hbuf]; exact hnw), hst]
        refine ⟨(by intro t' h; cases h), ?_⟩
        intro r' t' h
        cases h
        simp only
        rw [hcs, hstream, hsp]
        exact ⟨rfl, rfl⟩

/-- **A `fill_buf` / `consume` loop awaited under every poll schedule computes `spec` of the stream**,
for a window function that agrees with `spec` under an invariant which holds initially -/
theorem scanAI_spec {α st ρ : Type} (A : ARead σ α) (hA : A.Lawful) (cap : Nat) (hc : 0 < cap)
    (k : st → List α → Scan st ρ) (spec : st → List α → ρ × List α) (Inv : st → List α → Prop)
    (H : ScanSpecI k spec Inv) (s0 : st) (b : ABuf σ α) (hi : Inv s0 (b.stream A)) :
    (scanA A cap k s0 b).1 = .ok (spec s0 (b.stream A)).1 ∧
    (scanA A cap k s0 b).2.stream A = (spec s0 (b.stream A)).2 := by
  obtain ⟨r, t', h1, h2⟩ := drive_spec (scanPoll A cap k ((b.stream A).length + 2))
    (fun t => A.credit t.2.inner)
    (fun t => spec t.1 (t.2.stream A) = spec s0 (b.stream A) ∧
      (t.2.stream A).length ≤ (b.stream A).length ∧ Inv t.1 (t.2.stream A))
    (fun r t' => r = .ok (spec s0 (b.stream A)).1 ∧ t'.2.stream A = (spec s0 (b.stream A)).2)
    (by
      intro t ht
      obtain ⟨p1, p2⟩ := scanPollI_spec A hA cap hc k spec Inv H ((b.stream A).length + 2) t.1 t.2
        (by omega) ht.2.2
      rw [ht.1] at p1 p2
      refine ⟨?_, ?_⟩
      · intro t' hp
        obtain ⟨a, i, b', c⟩ := p1 t' hp
        exact ⟨⟨a, by omega, i⟩, c⟩
      · intro r t' hp
        exact p2 r t' hp)
    (A.credit b.inner + 1) (s0, b) ⟨rfl, Nat.le_refl _, hi⟩ (Nat.lt_succ_self _)
  simp only [scanA, await, h1]
  exact h2


/-! ## `findSplit`: what is before the split -/

theorem findSplit_some_pre {α : Type} (p : α → Bool) (w pre post : List α) (d : α)
    (h : findSplit p w = some (pre, d, post)) : pre.all (fun c => !p c) = true ∧ p d = true := by
  induction w generalizing pre with
  | nil => simp [findSplit] at h
  | cons x xs ih =>
    simp only [findSplit] at h
    by_cases hp : p x = true
    · rw [if_pos hp] at h
      simp only [Option.some.injEq, Prod.mk.injEq] at h
      obtain ⟨h1, h2, _⟩ := h
      subst h1; subst h2
      exact ⟨rfl, hp⟩
    · rw [if_neg hp] at h
      cases hf : findSplit p xs with
      | none => rw [hf] at h; cases h
      | some t =>
        obtain ⟨pre', d', post'⟩ := t
        rw [hf] at h
        simp only [Option.some.injEq, Prod.mk.injEq] at h
        obtain ⟨h1, h2, h3⟩ := h
        subst h1; subst h2; subst h3
        obtain ⟨i1, i2⟩ := ih pre' hf
        refine ⟨?_, i2⟩
        simp only [List.all_cons, Bool.and_eq_true, Bool.not_eq_true']
        exact ⟨by simpa using hp, i1⟩

theorem findSplit_none_all {α : Type} (p : α → Bool) (w : List α) (h : findSplit p w = none) :
    w.all (fun c => !p c) = true := by
  induction w with
  | nil => rfl
  | cons x xs ih =>
    simp only [findSplit] at h
    by_cases hp : p x = true
    · rw [if_pos hp] at h; cases h
    · rw [if_neg hp] at h
      cases hf : findSplit p xs with
      | none =>
        simp only [List.all_cons, Bool.and_eq_true, Bool.not_eq_true']
        exact ⟨by simpa using hp, ih hf⟩
      | some t => obtain ⟨pre', d', post'⟩ := t; rw [hf] at h; cases h

/-! ## the window lemma of the async reader -/

theorem specSeq_len (xs : Bytes) : (specSeq xs).2.length ≤ xs.length := by
  induction xs with
  | nil => simp [specSeq]
  | cons c r ih =>
    simp only [specSeq]
    split
    · simp only [List.length_cons]; omega
    · split
      · exact Nat.le_refl _
      · simp only [List.length_cons]; omega

theorem stripCr_cons_of_ne (c : UInt8) (t : Bytes) (hc : c ≠ CR) : stripCr (c :: t) = c :: stripCr t := by
  cases t with
  | nil =>
    have : (c == CR) = false := by simpa using hc
    rw [stripCr_singleton c this]
    simp [stripCr]
  | cons d t' => exact stripCr_cons_cons c d t'

/-- **The window lemma (async).**  A stretch `w` of a well-formed block without LF that does not start
with `>`: `read_sequence` keeps all of it but a CR at its end (`stripCr`); it is not preceded by a CR
(unless empty); what follows is well formed after its last byte. -/
theorem seqWindow (w ys : Bytes) (prev : UInt8) (hlf : w.all (fun c => !(c == LF)) = true)
    (hgt : w.head? ≠ some GT) (h : wfSeq prev (w ++ ys) = true) :
    specSeq (w ++ ys) = (stripCr w ++ (specSeq ys).1, (specSeq ys).2) ∧
    (w ≠ [] → prev ≠ CR) ∧ wfSeq (w.getLast?.getD prev) ys = true := by
  induction w generalizing prev with
  | nil => exact ⟨by simp [stripCr], by simp, by simpa using h⟩
  | cons c t ih =>
    simp only [List.all_cons, Bool.and_eq_true, Bool.not_eq_true'] at hlf
    obtain ⟨hcLF, hlf'⟩ := hlf
    have hcGT : (c == GT) = false := by
      simp only [List.head?_cons, ne_eq, Option.some.injEq] at hgt
      simpa using hgt
    simp only [List.cons_append, wfSeq, hcGT, Bool.false_eq_true, if_false, Bool.and_eq_true, hcLF,
      Bool.or_false] at h
    obtain ⟨hprev, hwf⟩ := h
    have hprev' : prev ≠ CR := by simpa using hprev
    have hgt' : t.head? ≠ some GT := by
      cases t with
      | nil => simp
      | cons d t' =>
        intro hd
        simp only [List.head?_cons, Option.some.injEq] at hd
        subst hd
        simp only [List.cons_append, wfSeq, beq_self_eq_true, if_true] at hwf
        rw [hcLF] at hwf; cases hwf
    obtain ⟨i1, i2, i3⟩ := ih c hlf' hgt' hwf
    refine ⟨?_, fun _ => hprev', ?_⟩
    · by_cases hcCR : c = CR
      · have ht : t = [] := by
          by_cases ht : t = []
          · exact ht
          · exact absurd hcCR (i2 ht)
        subst ht; subst hcCR
        simp [specSeq, stripCr]
      · have h1 : (c == CR || c == LF) = false := by simp [hcCR, hcLF]
        rw [stripCr_cons_of_ne c t hcCR]
        simp only [List.cons_append, specSeq, h1, hcGT, Bool.false_eq_true, if_false]
        rw [i1]
    · rw [List.getLast?_cons]
      exact i3

/-! ## the async `read_sequence` loop as a stream function -/

/-- the invariant of the loop: the stream still to be read is well formed after some byte `prev`,
and `has_trailing_carriage_return` says whether that byte was a CR -/
def InvSeq (st : SeqStA) (xs : Bytes) : Prop :=
  ∃ prev, wfSeq prev xs = true ∧ (st.2.1 = true ↔ prev = CR)

/-- what the loop (after the fix) returns from state `st` on the stream `xs`: the buffer — without
the CR the last window left at its end — followed by the bases of `xs`; the bytes consumed -/
def specSeqA (st : SeqStA) (xs : Bytes) : (Bytes × Nat) × Bytes :=
  (((if st.2.1 then st.1.dropLast else st.1) ++ (specSeq xs).1,
    st.2.2 + (xs.length - (specSeq xs).2.length)), (specSeq xs).2)

theorem seqBuf_eq (buf pre : Bytes) (cr : Bool) (h : pre ≠ [] → cr = false) :
    (if cr then buf.dropLast else buf) ++ stripCr pre =
      (if pre.getLast? == some CR then buf ++ pre.dropLast
       else (if pre.length = 0 && cr then buf.dropLast else buf) ++ pre) := by
  cases pre with
  | nil => cases cr <;> simp [stripCr]
  | cons x t =>
    have := h (by simp)
    subst this
    by_cases hl : ((x :: t).getLast? == some CR) = true
    · simp only [stripCr, hl, if_true, Bool.false_eq_true, if_false]
    · simp only [stripCr, hl, if_false, Bool.false_eq_true, Bool.and_false]

/-- the window has an LF: the line before it -/
theorem seqStepA_line (st : SeqStA) (pre rest : Bytes) (hlf : pre.all (fun c => !(c == LF)) = true)
    (hgt : pre.head? ≠ some GT) (hi : InvSeq st (pre ++ LF :: rest)) :
    specSeqA st (pre ++ LF :: rest) =
      specSeqA (if pre.getLast? == some CR then st.1 ++ pre.dropLast
          else (if pre.length = 0 && st.2.1 then st.1.dropLast else st.1) ++ pre,
        false, st.2.2 + (pre.length + 1)) rest ∧
    InvSeq (if pre.getLast? == some CR then st.1 ++ pre.dropLast
          else (if pre.length = 0 && st.2.1 then st.1.dropLast else st.1) ++ pre,
        false, st.2.2 + (pre.length + 1)) rest := by
  obtain ⟨prev, hwf, hcr⟩ := hi
  obtain ⟨w1, w2, w3⟩ := seqWindow pre (LF :: rest) prev hlf hgt hwf
  have hs : specSeq (LF :: rest) = specSeq rest := by simp [specSeq]
  have hwf' : wfSeq LF rest = true := by
    have hd : (LF == GT) = false := by decide
    simp only [wfSeq, hd, Bool.false_eq_true, if_false, Bool.and_eq_true] at w3
    exact w3.2
  have hcr' : pre ≠ [] → st.2.1 = false := by
    intro hne
    cases hb : st.2.1 with
    | false => rfl
    | true => exact absurd (hcr.mp hb) (w2 hne)
  refine ⟨?_, ⟨LF, hwf', by simp [LF, CR]⟩⟩
  have hl := specSeq_len rest
  simp only [specSeqA, w1, hs, Bool.false_eq_true, if_false]
  rw [← List.append_assoc, seqBuf_eq st.1 pre st.2.1 hcr']
  congr 2
  simp only [List.length_append, List.length_cons]
  omega

/-- the window has no LF: all of it -/
theorem seqStepA_chunk (st : SeqStA) (w ys : Bytes) (hne : w ≠ [])
    (hlf : w.all (fun c => !(c == LF)) = true) (hgt : w.head? ≠ some GT) (hi : InvSeq st (w ++ ys)) :
    specSeqA st (w ++ ys) = specSeqA (st.1 ++ w, w.getLast? == some CR, st.2.2 + w.length) ys ∧
    InvSeq (st.1 ++ w, w.getLast? == some CR, st.2.2 + w.length) ys := by
  obtain ⟨prev, hwf, hcr⟩ := hi
  obtain ⟨w1, w2, w3⟩ := seqWindow w ys prev hlf hgt hwf
  have hcr' : st.2.1 = false := by
    cases hb : st.2.1 with
    | false => rfl
    | true => exact absurd (hcr.mp hb) (w2 hne)
  obtain ⟨x, hx⟩ : ∃ x, w.getLast? = some x := by
    cases h : w.getLast? with
    | none => exact absurd (List.getLast?_eq_none_iff.mp h) hne
    | some x => exact ⟨x, rfl⟩
  refine ⟨?_, ⟨x, by simpa [hx] using w3, by simp [hx]⟩⟩
  have hl := specSeq_len ys
  simp only [specSeqA, w1, hcr', Bool.false_eq_true, if_false]
  have hb : (if (w.getLast? == some CR) = true then (st.1 ++ w).dropLast else st.1 ++ w) = st.1 ++ stripCr w := by
    simp only [stripCr]
    split
    · exact List.dropLast_append_of_ne_nil hne
    · rfl
  rw [hb, List.append_assoc]
  congr 2
  simp only [List.length_append]
  omega

theorem seqStepA_spec : ScanSpecI (seqStepA true) specSeqA InvSeq := by
  constructor
  · intro st w ys r hwy _ hk
    cases w with
    | nil =>
      rw [hwy rfl]
      simp only [seqStepA, List.head?_nil] at hk
      injection hk with hk
      subst hk
      simp [specSeqA, specSeq, seqFinishA]
    | cons c t =>
      simp only [seqStepA, List.head?_cons] at hk
      by_cases hc : (c == GT) = true
      · rw [if_pos hc] at hk
        injection hk with hk
        subst hk
        have : c = GT := by simpa using hc
        subst this
        simp [specSeqA, specSeq_gt, seqFinishA]
      · rw [if_neg hc] at hk
        split at hk <;> cases hk
  · intro st w ys st' n hwy hi hk
    cases w with
    | nil => simp only [seqStepA, List.head?_nil] at hk; cases hk
    | cons c t =>
      simp only [seqStepA, List.head?_cons] at hk
      by_cases hc : (c == GT) = true
      · rw [if_pos hc] at hk; cases hk
      · rw [if_neg hc] at hk
        have hgt : (c :: t).head? ≠ some GT := by
          simp only [List.head?_cons, ne_eq, Option.some.injEq]
          simpa using hc
        split at hk
        · rename_i pre d post heq
          injection hk with h1 h2
          subst h1; subst h2
          have hw := findSplit_some_eq _ _ pre post d heq
          obtain ⟨hpre, hd⟩ := findSplit_some_pre _ _ pre post d heq
          have hd' : d = LF := by simpa using hd
          subst hd'
          have hgt' : pre.head? ≠ some GT := by
            cases pre with
            | nil => simp
            | cons x pre' =>
              simp only [List.cons_append, List.cons.injEq] at hw
              rw [← hw.1]; exact hgt
          have hxs : (c :: t) ++ ys = pre ++ LF :: (post ++ ys) := by rw [hw]; simp
          have hdrop : ((c :: t) ++ ys).drop (pre.length + 1) = post ++ ys := by
            have e1 : pre ++ LF :: (post ++ ys) = (pre ++ [LF]) ++ (post ++ ys) := by simp
            have e2 : pre.length + 1 = (pre ++ [LF]).length := by simp
            rw [hxs, e1, e2, List.drop_left]
          rw [hdrop, hxs]
          rw [hxs] at hi
          obtain ⟨a1, a2⟩ := seqStepA_line st pre (post ++ ys) hpre hgt' hi
          refine ⟨by omega, ?_, a1, a2⟩
          rw [hw]; simp
        · rename_i heq
          injection hk with h1 h2
          subst h1; subst h2
          have hall := findSplit_none_all _ _ heq
          have hdrop : ((c :: t) ++ ys).drop (c :: t).length = ys := List.drop_left
          rw [hdrop]
          obtain ⟨a1, a2⟩ := seqStepA_chunk st (c :: t) ys (by simp) hall hgt hi
          exact ⟨by simp, Nat.le_refl _, a1, a2⟩
  · intro st w ys r n _ _ hk
    cases w with
    | nil => simp only [seqStepA, List.head?_nil] at hk; cases hk
    | cons c t =>
      simp only [seqStepA, List.head?_cons] at hk
      by_cases hc : (c == GT) = true
      · rw [if_pos hc] at hk; cases hk
      · rw [if_neg hc] at hk
        split at hk <;> cases hk

/-- **the closed form of the async `read_sequence` (after the fix)** on a well-formed sequence block,
for every lawful source and every capacity: the bases `specSeq` finds, the number of bytes consumed,
the stream from the next definition on -/
theorem readSequenceA_spec (A : ARead σ UInt8) (hA : A.Lawful) (cap : Nat) (hc : 0 < cap)
    (b : ABuf σ UInt8) (hwf : wfSeq LF (b.stream A) = true) :
    (readSequenceA true A cap b).1 =
      .ok ((specSeq (b.stream A)).1, (b.stream A).length - (specSeq (b.stream A)).2.length) ∧
    (readSequenceA true A cap b).2.stream A = (specSeq (b.stream A)).2 := by
  obtain ⟨a1, a2⟩ := scanAI_spec A hA cap hc (seqStepA true) specSeqA InvSeq seqStepA_spec
    ([], false, 0) b ⟨LF, hwf, by simp [LF, CR]⟩
  unfold readSequenceA
  rw [a1, a2]
  simp [specSeqA]

/-- **async `read_sequence` (after `fixes/fasta-async-trailing-cr.diff`) = sync `read_sequence`** on a
sequence block with well-formed lines (`wfSeq`: a `>` only at the start of a line, a CR only before an
LF or at the very end — the hypothesis under which the SYNC reader is independent of the chunking,
C12): the same bases (`specSeq`), the same stream position; and the value the async function returns
is the number of bytes consumed -/
theorem readSequenceA_eq_sync (A : ARead σ UInt8) (hA : A.Lawful) (cap : Nat) (hc : 0 < cap)
    (b : ABuf σ UInt8) (bs : BufR UInt8) (hcs : 0 < bs.cap) (h : b.stream A = bs.stream)
    (sizes : List Nat) (hwf : wfSeq LF bs.stream = true) :
    (readSequenceA true A cap b).1.map (·.1) = (readSequence sizes bs).1 ∧
    (readSequenceA true A cap b).2.stream A = (readSequence sizes bs).2.stream ∧
    (∀ x n, (readSequenceA true A cap b).1 = .ok (x, n) →
      n + ((readSequenceA true A cap b).2.stream A).length = (b.stream A).length) := by
  obtain ⟨a1, a2⟩ := readSequenceA_spec A hA cap hc b (by rw [h]; exact hwf)
  obtain ⟨s1, s2, _⟩ := readSequence_spec sizes bs hcs hwf
  have hl := specSeq_len (b.stream A)
  refine ⟨?_, ?_, ?_⟩
  · rw [a1, s1, h]; rfl
  · rw [a2, s2, h]
  · intro x n hx
    rw [a1] at hx
    injection hx with hx
    injection hx with _ hn
    rw [a2, ← hn]
    omega

/-- the async "one line, then parse it" reader (bytes, no UTF-8 check) in closed form -/
theorem readParsedLineA_false_spec {ρ : Type} (parse : Bytes → Except Err ρ) (A : ARead σ UInt8)
    (hA : A.Lawful) (cap : Nat) (hc : 0 < cap) (b : ABuf σ UInt8) :
    ∃ b1, b1.stream A = (specUntil (· == LF) (b.stream A)).2 ∧
      readParsedLineA false parse A cap b =
        ((if (specUntil (· == LF) (b.stream A)).1.length = 0 then .ok none
          else match parse (stripEol (specUntil (· == LF) (b.stream A)).1) with
            | .error e => .error e
            | .ok r => .ok (some ((specUntil (· == LF) (b.stream A)).1.length, r))), b1) := by
  obtain ⟨a1, a2⟩ := scanA_spec A hA cap hc (untilStep (· == LF)) (specUntilSt (· == LF))
    (untilStep_spec _) [] b
  rcases hs : scanA A cap (untilStep (· == LF)) [] b with ⟨r, b'⟩
  rw [hs] at a1 a2
  simp only [specUntilSt, List.nil_append] at a1 a2
  subst a1
  refine ⟨b', a2, ?_⟩
  unfold readParsedLineA
  rw [hs]
  simp only [Bool.false_and, Bool.false_eq_true, if_false]
  by_cases hz : (specUntil (fun x => x == LF) (b.stream A)).1.length = 0
  · rw [if_pos hz, if_pos hz]
  · rw [if_neg hz, if_neg hz]
    cases parse (stripEol (specUntil (fun x => x == LF) (b.stream A)).1) <;> rfl

/-- `read_definition` / `read_sequence` rounds on FASTA text with well-formed sequence lines compute
`specFasta` of the stream — what the sync `records()` computes (`fastaRecords_spec`) -/
theorem fastaRecordsA_spec (A : ARead σ UInt8) (hA : A.Lawful) (cap : Nat) (hc : 0 < cap)
    (fuel : Nat) (b : ABuf σ UInt8) (acc : List FastaRec) (hwf : wfFastaF fuel (b.stream A) = true) :
    (fastaRecordsA true A cap fuel b acc).1 = (specFasta fuel (b.stream A) acc).1 ∧
    (fastaRecordsA true A cap fuel b acc).2.stream A = (specFasta fuel (b.stream A) acc).2 := by
  induction fuel generalizing b acc with
  | zero => exact ⟨rfl, rfl⟩
  | succ fuel ih =>
    obtain ⟨b1, hb1, hrp⟩ := readParsedLineA_false_spec parseDefinition A hA cap hc b
    simp only [fastaRecordsA, specFasta, hrp]
    simp only [wfFastaF] at hwf
    by_cases hz : (specUntil (fun x => x == LF) (b.stream A)).1.length = 0
    · rw [if_pos hz, if_pos hz]
      exact ⟨rfl, hb1⟩
    · rw [if_neg hz, if_neg hz]
      rw [if_neg hz, Bool.and_eq_true] at hwf
      obtain ⟨w1, w2⟩ := hwf
      cases parseDefinition (stripEol (specUntil (fun x => x == LF) (b.stream A)).1) with
      | error e => exact ⟨rfl, hb1⟩
      | ok nd =>
        obtain ⟨name, desc⟩ := nd
        simp only
        obtain ⟨s1, s2⟩ := readSequenceA_spec A hA cap hc b1 (by rw [hb1]; exact w1)
        rw [hb1] at s1 s2
        rcases e : readSequenceA true A cap b1 with ⟨res, b2⟩
        rw [e] at s1 s2
        simp only at s1 s2
        subst s1
        simp only
        have := ih b2 (⟨name, desc, (specSeq (specUntil (fun x => x == LF) (b.stream A)).2).1⟩ :: acc)
          (by rw [s2]; exact w2)
        rw [s2] at this
        exact this

/-- `read_definition` / `read_sequence` until the end: async = sync `records()` on FASTA text whose
sequence blocks have well-formed lines -/
theorem fastaRecordsAllA_eq_sync (A : ARead σ UInt8) (hA : A.Lawful) (cap : Nat) (hc : 0 < cap)
    (b : ABuf σ UInt8) (bs : BufR UInt8) (hcs : 0 < bs.cap) (h : b.stream A = bs.stream)
    (sizes : Nat → List Nat) (hwf : wfFasta bs.stream = true) :
    .ok (fastaRecordsAllA true A cap b).1 = (fastaRecordsAll sizes bs).1 ∧
    (fastaRecordsAllA true A cap b).2.stream A = (fastaRecordsAll sizes bs).2.stream := by
  obtain ⟨s1, s2⟩ := fastaRecordsAll_spec sizes bs hcs hwf
  obtain ⟨a1, a2⟩ := fastaRecordsA_spec A hA cap hc ((b.stream A).length + 1) b []
    (by rw [h]; exact hwf)
  unfold fastaRecordsAllA
  rw [a1, a2, s1, s2, h]
  exact ⟨rfl, rfl⟩

end Noodles.IO.Async
