import Noodles.Io.WProg
/-!
# `bgzf::io::Writer` over a destination that fails ONCE, and a caller that goes on (model)

`Noodles/Bgzf/SinkModel.lean` transcribes noodles-bgzf `io/writer.rs` (`write`, `flush`,
`flush_block`, `try_finish`, `Drop`) and `io/writer/frame.rs` (`write_frame`: fourteen `write_all`
calls per frame) over `adversary::ScriptSink` with a PERMANENT failure, and its callers stop at the
first `Err`. This file reuses that writer model unchanged (`WP.bgzf`) and adds what is needed for a
transient failure:

* the destination: `ScriptSink { fail_once: true }` — `check_fail` is `i == k || (i > k &&
  !fail_once)`, so exactly call `k` fails and every later call is healthy. In the writer model a
  failing destination call is always the LAST destination call of the writer call that is running
  (`write_all` returns the error, `write_frame`/`flush_block`/`write`/`try_finish` propagate it with
  `?`, `try_finish`'s EOF `write_all` is its last action), so "every later call is healthy" is
  modelled by `recover` applied when the writer call returns: the scripted failure is removed. The
  real sink's `failed` flag stays set; the model keeps that bit in `St.hit`. The correspondence
  (`c14 once`) compares the number of destination calls and the accepted bytes after EVERY writer
  call, so a writer that made a further destination call after the failed one would be caught.
* the caller: four continuation policies after an `Err` (`Policy`), every call's result recorded.

What the writer does on the retry path, as transcribed in `SinkModel.lean` (and observable here):
`flush_block` clears `staging_buf` and advances `position` only AFTER `write_frame` returned `Ok`,
so after a failed flush the block is still staged and a later `flush`/`write`/`try_finish`/`Drop`
writes the WHOLE frame again, behind the part of the frame the destination had already accepted;
`write` stages its bytes BEFORE it flushes, so a `write_all` that is retried after an `Err` finds
the buffer full, takes 0 bytes, flushes, returns `Ok(0)`, and `write_all` turns that into
`WriteZero`; the retry after that stages the same bytes a second time. `try_finish` bumps
`position` by 28 whether or not the EOF marker was accepted, and a second `try_finish` writes a
second EOF marker.
-/
namespace Noodles.WP.Once
open Noodles.Codec (Bytes)
open Noodles.Bgzf
open Noodles.Bgzf.SM (WErr Sink FW)

/-- `ScriptSink { fail_once: true }` after its failing call: neither `i == k` nor
`i > k && !fail_once` can hold again -/
def recover (s : Sink) : Sink := { s with failAt := none, failed := false }

def recoverW (w : FW) : FW := if w.sink.failed then { w with sink := recover w.sink } else w

/-- the writer, and whether the destination has failed so far (`ScriptSink::failed`) -/
structure St where
  w : FW
  hit : Bool
  deriving Repr

def St.init (S : Sink) : St := ⟨FW.init S, false⟩

/-- one call of the caller on the writer over the fail-once destination -/
def call (D : Deflater) (lvl : Nat) (c : WProg) (s : St) : Option WErr × St :=
  ((exec (bgzf D lvl) c s.w).1,
    ⟨recoverW (exec (bgzf D lvl) c s.w).2, s.hit || (exec (bgzf D lvl) c s.w).2.sink.failed⟩)

/-- what the caller does after a call returned `Err` -/
inductive Policy
  /-- no further call (the writer is dropped) -/
  | stop
  /-- the same call again, until it returns `Ok`, at most twice -/
  | retry
  /-- the error is ignored: on with the next call -/
  | next
  /-- the remaining calls are skipped except the last one (the finishing call) -/
  | finishOnly
  deriving Repr, DecidableEq

/-- the same call again until `Ok`, at most `n` times; the result of every attempt -/
def retryCall (D : Deflater) (lvl : Nat) (c : WProg) : Nat → St → List (Option WErr) × St
  | 0, s => ([], s)
  | n+1, s =>
    match call D lvl c s with
    | (none, s') => ([none], s')
    | (some e, s') => (some e :: (retryCall D lvl c n s').1, (retryCall D lvl c n s').2)

/-- the caller: the result of every call it made, in order, and the final state -/
def runPol (D : Deflater) (lvl : Nat) (pol : Policy) : List WProg → St → List (Option WErr) × St
  | [], s => ([], s)
  | c :: cs, s =>
    match call D lvl c s with
    | (none, s') => (none :: (runPol D lvl pol cs s').1, (runPol D lvl pol cs s').2)
    | (some e, s') =>
      match pol with
      | .stop => ([some e], s')
      | .next => (some e :: (runPol D lvl pol cs s').1, (runPol D lvl pol cs s').2)
      | .retry =>
        (some e :: (retryCall D lvl c 2 s').1 ++ (runPol D lvl pol cs (retryCall D lvl c 2 s').2).1,
          (runPol D lvl pol cs (retryCall D lvl c 2 s').2).2)
      | .finishOnly =>
        match cs.getLast? with
        | none => ([some e], s')
        | some f => ([some e, (call D lvl f s').1], (call D lvl f s').2)

/-- the writer goes out of scope with `inner` present: `Drop` runs `try_finish` and discards its
result -/
def dropSt (D : Deflater) (lvl : Nat) (s : St) : St :=
  ⟨recoverW (SM.drop D lvl s.w), s.hit || (SM.drop D lvl s.w).sink.failed⟩

end Noodles.WP.Once
