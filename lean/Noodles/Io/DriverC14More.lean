import Noodles.Basic.Wire
import Noodles.Basic.Crc32
import Noodles.Bgzf.Driver
import Noodles.Bgzf.DriverC14
import Noodles.Io.WProg
import Noodles.Io.Writers
/-! Line-protocol handlers for the writer-program suites of C14 (`c14 wp …`, `c14 wi …`). -/
namespace Noodles.WP.Driver
open Noodles.Wire hiding Bytes
open Noodles.Codec (Bytes)
open Noodles.Bgzf
open Noodles.WP Noodles.WP.Writers

def parseErr (s : String) : Option Err :=
  if s = "i" then some .invalidInput else if s = "d" then some .invalidData
  else if s = "e" then some .eof else if s = "o" then some .writeZero else none

def errCode : Err → String
  | .invalidInput => "i"
  | .invalidData => "d"
  | .eof => "e"
  | .writeZero => "o"
  | .unreachable => "p"

def parseItem (s : String) : Option Item :=
  match s.toList with
  | ['f'] => some .flush
  | ['F'] => some .finish
  | 'e' :: r => (unhex (String.ofList r)).map Item.emit
  | 'x' :: r => (parseErr (String.ofList r)).map Item.fail
  | _ => none

/-- `W` prefix = the call wraps its errors; `-` = a call that does nothing -/
def parseCall (s : String) : Option Call :=
  let (wrap, body) : Bool × String :=
    match s.toList with
    | 'W' :: r => (true, String.ofList r)
    | _ => (false, s)
  if body = "-" || body = "" then some ⟨wrap, .skip⟩
  else ((body.splitOn ",").mapM parseItem).map fun l => ⟨wrap, ofItems l⟩

def parseCalls (s : String) : Option (List Call) :=
  if s = "none" then some [] else (s.splitOn ";").mapM parseCall

def fmtItem : Item → String
  | .emit b => s!"e{hex b}"
  | .flush => "f"
  | .finish => "F"
  | .fail e => s!"x{errCode e}"

def fmtProg (p : WProg) : String :=
  let l := items p
  if l.isEmpty then "-" else ",".intercalate (l.map fmtItem)

def fmtProgs (l : List WProg) : String :=
  if l.isEmpty then "none" else ";".intercalate (l.map fmtProg)

def parseKind (s : String) : Option (Option Kind) :=
  match s with
  | "-" => some none
  | "sam" => some (some .sam) | "sam-builder" => some (some .samBuilder) | "sam-bgzf" => some (some .samBgzf)
  | "bam" => some (some .bam) | "bcf" => some (some .bcf) | "vcf" => some (some .vcf)
  | "vcf-bgzf" => some (some .vcfBgzf) | "fasta" => some (some .fasta) | "fastq" => some (some .fastq)
  | "gff" => some (some .gff) | "gtf" => some (some .gtf) | "bed" => some (some .bed)
  | "bed-builder" => some (some .bedBuilder) | "fai" => some (some .fai) | "gzi" => some (some .gzi)
  | "bai" => some (some .bai) | "csi" => some (some .csi) | "tabix" => some (some .tabix)
  | "crai" => some (some .crai) | "cram" => some (some .cram)
  | _ => none

def parseLayer (s : String) : Option Layer :=
  match s with
  | "direct" => some .direct | "buffered" => some .buffered | "bgzf" => some .bgzf | "gz" => some .gz
  | _ => none

def werrStr (wrap : Bool) : SM.WErr → String
  | .sink k => (if wrap then "wrapped:" else "") ++ s!"err:kind{k}"
  | .sinkZero => "err:write-zero"
  | .enc e => Bgzf.errStr e

/-- the caller, call by call, with the destination's progress after every call -/
def runTrace {σ : Type} (I : Impl σ) (obs : σ → String) :
    List Call → Nat → σ → List String → Option (Nat × Bool × SM.WErr) × σ × List String
  | [], _, s, acc => (none, s, acc.reverse)
  | c :: cs, i, s, acc =>
    match exec I c.prog s with
    | (some e, s') => (some (i, c.wrap, e), s', (obs s' :: acc).reverse)
    | (none, s') => runTrace I obs cs (i + 1) s' (obs s' :: acc)

def fmtDest (acc : Bytes) (calls : Nat) (failed : Bool) : String :=
  s!"{acc.length}:{Crc32.crc32 acc}:{calls}:{if failed then 1 else 0}"

def answer {σ : Type} (I : Impl σ) (acc : σ → Bytes) (calls : σ → Nat) (failed : σ → Bool)
    (cs : List Call) (dropAfterOk : Bool) (s0 : σ) : String :=
  let obs := fun s => s!"{(acc s).length}:{calls s}"
  let (r, s1, tr) := runTrace I obs cs 0 s0 []
  let s2 := if r.isSome || dropAfterOk then I.drop s1 else s1
  -- the call-by-call replay and `session` (the function the theorems are about) must agree
  let ses := session I (cs.map (·.prog)) dropAfterOk s0
  let consistent :=
    acc ses.2.1 == acc s1 && calls ses.2.1 == calls s1 && acc ses.2.2 == acc s2 && calls ses.2.2 == calls s2 &&
    (ses.1.map (·.1)) == (r.map (·.1))
  if !consistent then "model-inconsistent" else
  let rs := match r with
    | none => "ok"
    | some (i, w, e) => s!"{i}:{werrStr w e}"
  let trs := if tr.isEmpty then "-" else ",".intercalate tr
  s!"res={rs} pre={fmtDest (acc s1) (calls s1) (failed s1)} post={fmtDest (acc s2) (calls s2) (failed s2)} trace={trs}"

def optBytes (s : String) : Option (Option Bytes) :=
  if s = "~" then some none else (unhex s).map some

/-- `hex` or `x<code>` -/
def parseEnc (s : String) : Option (Except Err Bytes) :=
  match s.toList with
  | 'x' :: r => (parseErr (String.ofList r)).map Except.error
  | _ => (unhex s).map Except.ok

def splitList (sep : String) (s : String) : List String :=
  if s = "-" then [] else s.splitOn sep

def handle? : List String → Option String
  | ["wp", kind, layer, lparam, script, fallback, failAt, failOnce, kcode, dropOk, calls, table] =>
    some <|
    match parseKind kind, parseLayer layer, lparam.toNat?, SM.parseScript script, fallback.toNat?,
        SM.parseFailAt failAt, failOnce.toNat?, kcode.toNat?, dropOk.toNat?, parseCalls calls,
        parseDefTable table with
    | some kind, some layer, some lparam, some script, some fallback, some failAt, some failOnce,
        some kcode, some dropOk, some calls, some dt =>
      let layerOk := match kind with
        | none => true
        | some k => (if k.layer = .gz then Layer.direct else k.layer) = layer
      if !layerOk then "layer-mismatch" else
      let d := Dest.fresh script fallback failAt (failOnce != 0) kcode
      match layer with
      | .direct =>
        answer direct (·.accepted) (·.calls) (·.failed) calls (dropOk != 0) d
      | .buffered =>
        answer buffered (·.dest.accepted) (·.dest.calls) (·.dest.failed) calls (dropOk != 0)
          (BufW.init lparam d)
      | .bgzf =>
        if failOnce != 0 then "bad-op" else
        answer (bgzf (tableDeflater dt []) lparam) (·.sink.accepted) (·.sink.calls) (·.sink.failed)
          calls (dropOk != 0) (SM.FW.init (SM.Sink.fresh script fallback failAt kcode))
      | .gz => "bad-op"
    | _, _, _, _, _, _, _, _, _, _, _ => "bad-op"
  | ["wi", "fasta", lbc, recs] =>
    some <|
    match lbc.toNat?, (splitList ";" recs).mapM (fun r =>
        match r.splitOn ":" with
        | [n, d, s] => do pure (← unhex n, ← optBytes d, ← unhex s)
        | _ => none) with
    | some lbc, some recs => fmtProgs (recs.map fun r => fastaRecord lbc r.1 r.2.1 r.2.2)
    | _, _ => "bad-op"
  | ["wi", "fastq", sep, recs] =>
    some <|
    match sep.toNat?, (splitList ";" recs).mapM (fun r =>
        match r.splitOn ":" with
        | [n, d, s, q] => do pure (← unhex n, ← unhex d, ← unhex s, ← unhex q)
        | _ => none) with
    | some sep, some recs =>
      fmtProgs (recs.map fun r => fastqRecord (UInt8.ofNat sep) r.1 r.2.1 r.2.2.1 r.2.2.2)
    | _, _ => "bad-op"
  | ["wi", "gzi", entries] =>
    some <|
    match pairs entries with
    | some es => fmtProg (gziIndex es)
    | none => "bad-op"
  | ["wi", "bam", text, refs, recs] =>
    some <|
    match parseEnc text, (splitList "," refs).mapM (fun r =>
        match r.splitOn ":" with
        | [n, l] => do pure (← unhex n, ← l.toNat?)
        | _ => none), (splitList "," recs).mapM parseEnc with
    | some text, some refs, some recs => fmtProgs (bamHeader text refs :: recs.map bamRecord)
    | _, _, _ => "bad-op"
  | ["wi", "bcf", text, recs] =>
    some <|
    match parseEnc text, (splitList "," recs).mapM (fun r =>
        match r.toList with
        | 'x' :: c => (parseErr (String.ofList c)).map Except.error
        | _ =>
          match r.splitOn ":" with
          | [a, b] => do pure (Except.ok (← unhex a, ← unhex b))
          | _ => none) with
    | some text, some recs => fmtProgs (bcfHeader text :: recs.map bcfRecord)
    | _, _ => "bad-op"
  | ["wi", "cram", cap, n, fin, hdr, conts] =>
    some <|
    match cap.toNat?, n.toNat?, fin.toNat?, (splitList "," hdr).mapM unhex,
        (splitList ";" conts).mapM (fun c => (splitList "," c).mapM unhex) with
    | some cap, some n, some fin, some hdr, some conts =>
      fmtProgs (cramSession cap hdr n conts (fin != 0))
    | _, _, _, _, _ => "bad-op"
  | "wp" :: _ => some "bad-op"
  | "wi" :: _ => some "bad-op"
  | _ => none

end Noodles.WP.Driver
