import Noodles.Basic.Wire
import Noodles.Basic.Crc32
import Noodles.Io.DriverC12
import Noodles.Io.AsyncLoops
import Noodles.Io.AsyncBgzfSource
import Noodles.Bgzf.DriverC02
/-! Line-protocol handler for the format-level async poll machines (`c16 tok|bamrec|bam|gff …`).

Common arguments: `<data>` hex; `<asched>` the poll schedule of the async source — comma-separated
`p` (`Pending`) / `<n>` (`Ready`, at most `n` bytes), each optionally repeated `*<k>`, `-` = empty;
`<fb>` bytes per poll once the schedule is used up; `<asks>` the sizes `read_to_end` offered the source,
one per `poll_read` call of the run (recorded by the harness; `<n>*<k>` runs; only the entries at
`read_to_end` polls are looked at); `<ssched>` the delivery schedule of the sync source (`c12` syntax).

* `c16 tok <data> <asched> <fb> <ops>` — tokio futures on the source: `x<n>` `read_exact`, `u`
  `read_u32_le`, `r<n>` `read`
* `c16 bamrec <data> <asched> <fb> <asks> <ssched>` — `bam::r#async::io::Reader::from(src)` /
  `bam::io::Reader::from(src)`: `read_record` until end / error
* `c16 bam <data> <asched> <fb> <asks> <ssched> <lines>|<verdict>` — `read_header`, then the records.
  The SAM header parser is a parameter: `<lines>` = the header lines (hex, comma-separated) the harness
  fed to the real parser, `<verdict>` = `e<k>` (line `k` is rejected) or `k:<id>:<refs>` (all accepted;
  `<id>` names the parsed header without its dictionary, `<refs>` = its dictionary `hexname.len;…`)
* `c16 gff <data> <asched> <fb> <cap> <ssched> <scap>` — `gff` `read_line` until it returns 0
* `c16 hdr <prefix byte> <data> <asched> <fb> <cap> <ssched> <scap>` — `sam` (`40`) / `vcf` (`23`)
  `header_reader()` read with `read_until(b'\n')` + LF/CRLF strip until it returns 0
* `c16 bamz <workers> <layout> <asched> <inflate bits> <lines>|<verdict>` — the composition
  `bam::r#async::io::Reader::new(src)`: the BAM poll machines over the async BGZF reader model
  (`bgzfRead`, layout and script as in `c16 rd`), and the sync twin over the uncompressed stream

Answers end with `@<bytes consumed from the stream> s<poll_read calls> p<Pending answers>` on the async
side and `@<bytes consumed>` on the sync side.
-/
namespace Noodles.IO.Async
open Noodles.Wire hiding Bytes
open Noodles.IO
open Noodles.Bgzf.Async (Poll1 Poll)

def parseRep (t : String) : String × Option Nat :=
  match t.splitOn "*" with
  | [b, k] => (b, k.toNat?)
  | _ => (t, some 1)

def parseASched (s : String) : Option (List Poll1) :=
  if s = "-" then some [] else
  ((s.splitOn ",").mapM fun t =>
    match parseRep t with
    | (_, none) => none
    | (b, some k) =>
      if b = "p" then some (List.replicate k Poll1.pending)
      else b.toNat?.map fun n => List.replicate k (Poll1.ready n)).map List.flatten

def parseAsks (s : String) : Option (Array Nat) :=
  if s = "-" then some #[] else
  ((s.splitOn ",").mapM fun t =>
    match parseRep t with
    | (_, none) => none
    | (b, some k) => b.toNat?.map fun n => List.replicate k n).map fun (l : List (List Nat)) => l.flatten.toArray

/-- a string of `0`/`1`: is the head inflate task finished at this poll? -/
def parseInfBits (s : String) : Option (List Bool) :=
  if s = "-" then some [] else
  s.toList.mapM fun c => if c = '0' then some false else if c = '1' then some true else none

/-- the recorded size of the `poll_read` call the source is about to receive -/
def askOf (asks : Array Nat) (t : Nat × ASrc UInt8) : Nat := asks.getD t.2.polls 32

/-- the sync side's sizes are not observable in its answers (theorem `readExactToVecS_spec`) -/
def askSync (_ : Src UInt8) : Nat := 8192

def tailA (_total : Nat) (consumed : Nat) (s : ASrc UInt8) : String :=
  s!"@{consumed} s{s.polls} p{s.pendings}"

inductive TokOp | exact (n : Nat) | u32 | read (n : Nat)

def parseTokOp (e : String) : Option TokOp :=
  match e.toList with
  | 'x' :: r => (String.ofList r).toNat?.map TokOp.exact
  | 'r' :: r => (String.ofList r).toNat?.map TokOp.read
  | ['u'] => some TokOp.u32
  | _ => none

def runTok : List TokOp → ASrc UInt8 → List String → List String × ASrc UInt8
  | [], s, acc => (acc.reverse, s)
  | .exact n :: ops, s, acc =>
    match readExactA scripted s n with
    | (.ok bs, s') => runTok ops s' (hex bs :: acc)
    | (.error e, s') => runTok ops s' (errStr e :: acc)
  | .u32 :: ops, s, acc =>
    match readExactA scripted s 4 with
    | (.ok bs, s') => runTok ops s' (toString (leNat bs) :: acc)
    | (.error e, s') => runTok ops s' (errStr e :: acc)
  | .read n :: ops, s, acc =>
    match readA scripted s n with
    | (some bs, s') => runTok ops s' (hex bs :: acc)
    | (none, s') => runTok ops s' ("starved" :: acc)

/-- canonical line of a BAM record: block size, read name as `Record::name()` gives it (`*` for the
missing name, a trailing NUL stripped), the flags, CRC32 of the raw sequence and data slices -/
def recLine (r : Bytes) : String :=
  let l := r[8]!.toNat
  let nm := (r.drop 32).take l
  let nm' := if nm.getLast? = some 0 then nm.dropLast else nm
  let ncig := leNat ((r.drop 12).take 2)
  let lseq := leNat ((r.drop 16).take 4)
  let flags := leNat ((r.drop 14).take 2)
  let seqStart := 32 + l + 4 * ncig
  let sq := (r.drop seqStart).take ((lseq + 1) / 2)
  let dat := r.drop (seqStart + (lseq + 1) / 2 + lseq)
  s!"{r.length}:{hex nm'}:{flags}:{Crc32.crc32 (sq ++ dat)}"

def recsStr (rs : List Bytes) : String := joinOr "," (rs.map recLine)

/-! ### the header parser from the table -/

structure TabP where
  lines : List Bytes     -- lines fed so far, in order
  deriving Inhabited

structure PTable where
  expected : List Bytes
  /-- `some k`: the real parser rejects line `k` -/
  reject : Option Nat
  ident : String
  refs : List (Bytes × Nat)

def parseRefs (s : String) : Option (List (Bytes × Nat)) :=
  if s = "-" then some [] else
  (s.splitOn ";").mapM fun e =>
    match e.splitOn "." with
    | [n, l] => do pure ((← unhex n), (← l.toNat?))
    | _ => none

def parsePTable (s : String) : Option PTable :=
  match s.splitOn "|" with
  | [ls, v] => do
    let lines ← if ls = "-" then some [] else (ls.splitOn ",").mapM unhex
    match v.toList with
    | 'e' :: k => do pure ⟨lines, some (← (String.ofList k).toNat?), "", []⟩
    | 'k' :: ':' :: rest =>
      match (String.ofList rest).splitOn ":" with
      | [ident, refs] => do pure ⟨lines, none, ident, (← parseRefs refs)⟩
      | _ => none
    | _ => none
  | _ => none

def tabParser (T : PTable) : HdrParser TabP where
  init := ⟨[]⟩
  parsePartial := fun p l => if T.reject = some p.lines.length then none else some ⟨p.lines ++ [l]⟩
  refs := fun p => if p.lines == T.expected then T.refs else []

def refsStr (rs : List (Bytes × Nat)) : String :=
  if rs.isEmpty then "-" else ";".intercalate (rs.map fun e => s!"{hex e.1}.{e.2}")

def hdrStr (T : PTable) : Except Err (TabP × List (Bytes × Nat)) → String
  | .error e => errStr e
  | .ok (p, refs) =>
    if p.lines == T.expected then s!"ok:{T.ident}:{refsStr refs}"
    else s!"untabled:{joinOr "," (p.lines.map hex)}"

def linesStr (ls : List (Nat × Bytes)) : String := joinOr "," (ls.map fun x => s!"{x.1}:{hex x.2}")

def handleC16Fmt : List String → Option String
  | ["tok", data, asched, fb, ops] =>
    match unhex data, parseASched asched, fb.toNat?, (if ops = "-" then some [] else (ops.splitOn ",").mapM parseTokOp) with
    | some d, some sc, some fb, some ops =>
      let r := runTok ops ⟨d, sc, fb, 0, 0⟩ []
      some s!"{joinOr "," r.1} {tailA d.length (d.length - r.2.data.length) r.2}"
    | _, _, _, _ => some "bad-op"
  | ["bamrec", data, asched, fb, asks, ssched] =>
    match unhex data, parseASched asched, fb.toNat?, parseAsks asks, parseSched ssched with
    | some d, some sc, some fb, some asks, some ss =>
      let a := bamRecordsAllA scripted (askOf asks) ⟨d, sc, fb, 0, 0⟩
      let s := bamRecordsAllS askSync ⟨d, ss⟩
      some (s!"A recs={recsStr a.1.1} end={endStr a.1.2}{tailA d.length (d.length - a.2.data.length) a.2}" ++
        s!" | S recs={recsStr s.1.1} end={endStr s.1.2}@{d.length - s.2.data.length}")
    | _, _, _, _, _ => some "bad-op"
  | ["bam", data, asched, fb, asks, ssched, table] =>
    match unhex data, parseASched asched, fb.toNat?, parseAsks asks, parseSched ssched, parsePTable table with
    | some d, some sc, some fb, some asks, some ss, some T =>
      let P := tabParser T
      let a := bamFileA scripted (askOf asks) P ⟨d, sc, fb, 0, 0⟩
      let s := bamFileS askSync P ⟨d, ss⟩
      -- sync side: the position after a header that failed depends on the read-ahead of the dropped
      -- sub-reader (`std::io::Take` is modelled by its contract): printed only after a header that was read
      let posS := match s.1.header with | .ok _ => s!"@{d.length - s.2.data.length}" | .error _ => "@-"
      some (s!"A hdr={hdrStr T a.1.header} recs={recsStr a.1.records} end={endStr a.1.ending}{tailA d.length (d.length - a.2.data.length) a.2}" ++
        s!" | S hdr={hdrStr T s.1.header} recs={recsStr s.1.records} end={endStr s.1.ending}{posS}")
    | _, _, _, _, _, _ => some "bad-op"
  | ["gff", data, asched, fb, cap, ssched, scap] =>
    match unhex data, parseASched asched, fb.toNat?, cap.toNat?, parseSched ssched, scap.toNat? with
    | some d, some sc, some fb, some cap, some ss, some scap =>
      if cap = 0 || scap = 0 then some "bad-op" else
      let a := gffLinesA scripted cap (d.length + 1) ⟨[], ⟨d, sc, fb, 0, 0⟩⟩ []
      let s := gffLinesS (d.length + 1) (BufR.ofSrc ⟨d, ss⟩ scap) []
      some (s!"A lines={linesStr a.1.1} end={endStr a.1.2}{tailA d.length (d.length - (a.2.stream scripted).length) a.2.inner}" ++
        s!" | S lines={linesStr s.1.1} end={endStr s.1.2}@{d.length - s.2.stream.length}")
    | _, _, _, _, _, _ => some "bad-op"
  | ["hdr", pfx, data, asched, fb, cap, ssched, scap] =>
    match unhex pfx, unhex data, parseASched asched, fb.toNat?, cap.toNat?, parseSched ssched, scap.toNat? with
    | some [pf], some d, some sc, some fb, some cap, some ss, some scap =>
      if cap = 0 || scap = 0 then some "bad-op" else
      let a := hdrLinesAllA scripted cap pf ⟨[], ⟨d, sc, fb, 0, 0⟩⟩
      let s := hdrLinesAll pf (BufR.ofSrc ⟨d, ss⟩ scap)
      let sa := match a.1 with | .ok ls => s!"lines={joinOr "," (ls.map hex)} end=ok" | .error e => s!"lines=- end={errStr e}"
      let ssn := match s.1 with | .ok ls => s!"lines={joinOr "," (ls.map hex)} end=ok" | .error e => s!"lines=- end={errStr e}"
      some (s!"A {sa}{tailA d.length (d.length - (a.2.stream scripted).length) a.2.inner}" ++
        s!" | S {ssn}@{d.length - s.2.stream.length}")
    | _, _, _, _, _, _, _ => some "bad-op"
  | ["bamz", w, layout, asched, inf, table] =>
    match w.toNat?, Noodles.Bgzf.RM.parseLayout layout, parseASched asched, parseInfBits inf, parsePTable table with
    | some w, some L, some sc, some inf, some T =>
      if hw : 1 ≤ w then
        let P := tabParser T
        let a := bamFileA (AsyncBgzf.bgzfRead L w hw) (fun _ => 32) P (AsyncBgzf.BgzfSt.init L ⟨sc, inf⟩)
        let s := bamFileS askSync P ⟨Noodles.Bgzf.RM.flat L, []⟩
        let vp := Noodles.Bgzf.RM.tell a.2.a.r
        let posS := match s.1.header with | .ok _ => s!"@{(Noodles.Bgzf.RM.flat L).length - s.2.data.length}" | .error _ => "@-"
        some (s!"A hdr={hdrStr T a.1.header} recs={recsStr a.1.records} end={endStr a.1.ending} vp={vp.1}/{vp.2}" ++
          s!" | S hdr={hdrStr T s.1.header} recs={recsStr s.1.records} end={endStr s.1.ending}{posS}")
      else some "bad-op"
    | _, _, _, _, _ => some "bad-op"
  | _ => none

end Noodles.IO.Async
