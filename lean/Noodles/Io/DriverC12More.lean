import Noodles.Io.DriverC12
import Noodles.Io.Binary
import Noodles.Io.Lines
import Noodles.Index.Driver
import Noodles.Hostile.BcfSite
import Noodles.Basic.Crc32
/-! Line-protocol handler for the second part of the C12 model (`c12 …`, after the requests of
`DriverC12`). Bytes as hex (`-` = empty), schedules as in `DriverC12`.

Unbuffered readers (`Prog`s run over the scheduled source; `read_to_end` asks for all its `Take` allows):

* `c12 bamv <data> <sched>` — `bam::io::Reader::from(src).read_record` until end / error (the reader
  with `read_exact_to_vec`); same answer format as `c12 bam`
* `c12 bcf <data> <sched>` — `bcf::io::Reader::from(src).read_record` until end / error:
  `recs=<n>:<ids>:<info bytes>:<samples bytes>,… end=<eof|err>@<consumed>`
* `c12 cram <data> <sched>` — `cram::io::Reader::new(src)`: `read_file_definition`, then
  `read_container` until 0 / error:
  `def=<version><file id> conts=<len>:<ctx>:<records>:<counter>:<bases>:<blocks>:<landmarks>,… end=…@<consumed>`
* `c12 bai|tbi|csi|gzi <data> <sched>` — `read_index` (`data` = the uncompressed payload):
  `ok <description as in suite c17> @<consumed>` (tabix / CSI, read through BGZF: without the
  position) or the error class

Readers over a `BufReader` of capacity `cap`:

* `c12 samrec <data> <sched> <cap>` / `c12 vcfrec …` — lazy `read_record` until 0 / error, fields as the
  public accessors show them
* `c12 lines <mode> <utf8 0|1> <table> <data> <sched> <cap>` — "one line, then parse it" readers;
  `table` = `<line>:<token>,…` is what the real parser answers for each line (`err:…` = an error);
  mode `each` = per record `<n>:<token>` and the position, `nopos` = the same without the position (the
  source is behind a decompressor), `index` = `read_index`: the tokens, or only the error
* `c12 gff <data> <sched> <cap>`, `c12 gtf <data> <sched> <cap>` — raw lines
* `c12 faseq <sizes> <data> <sched> <cap>` — `fasta::io::Reader::sequence_reader()` driven with
  `fill_buf` + `consume(min(size, window))`: the bytes handed out
* `c12 fasta <data> <sched> <cap>` — `fasta::io::Reader::records()`
-/
namespace Noodles.IO
open Noodles.Wire

def errStrM (e : Option Err) : String := endStr e

/-- the `index` parameter of the BCF record reader: the model of C15 (`Fields::index` as fixed) -/
def bcfIndexParam (site : Bytes) : Option Err :=
  match Noodles.Hostile.Bcf.index site with
  | .ok _ => none
  | .err .eof => some .eof
  | .err _ => some .invalidData
  | .panic => some .fuel

def bcfRecStr (r : Bytes × Bytes) : String :=
  match Noodles.Hostile.Bcf.index r.1 with
  | .ok b => s!"{r.1.length + r.2.length}:{hex ((r.1.drop b.idsStart).take (b.idsEnd - b.idsStart))}:{hex (r.1.drop b.filtersEnd)}:{hex r.2}"
  | _ => "?"

def crcParam (bs : Bytes) : Nat := Noodles.Crc32.crc32 bs

def ctxStr : Prog.RefCtx → String
  | .none => "none"
  | .many => "many"
  | .some i s e => s!"{i}/{s}/{e}"

def contStr (c : Prog.CramHeader × Bytes) : String :=
  s!"{c.2.length}:{ctxStr c.1.ctx}:{c.1.records}:{c.1.counter}:{c.1.bases}:{c.1.blocks}:{joinOr "/" (c.1.landmarks.map toString)}"

def noSizes : Nat → List Nat := fun _ => []

/-! ### canonical views of the lazy records (what the public accessors show) -/

def STAR : Bytes := [42]
def DOT : Bytes := [46]

/-- the fields of a lazy record: slices of `buf` between consecutive ends, then the rest -/
def sliceFields (buf : Bytes) : Nat → List Nat → List Bytes
  | start, [] => [buf.drop start]
  | start, e :: es => (buf.drop start).take (e - start) :: sliceFields buf e es

def isDigits (f : Bytes) : Bool := !f.isEmpty && f.all (fun c => 48 ≤ c && c ≤ 57)

def digitsVal (f : Bytes) : Nat := f.foldl (fun a c => a * 10 + (c.toNat - 48)) 0

def decHex (n : Nat) : String := hex (toString n).toUTF8.toList

/-- an unsigned decimal field through `lexical_core::parse` / `str::parse`: the value, if the field
is all digits and at most `max`; `?` otherwise -/
def numU (max : Nat) (f : Bytes) : String :=
  if isDigits f && decide (digitsVal f ≤ max) then decHex (digitsVal f) else "?"

/-- a signed decimal field (`i32`) -/
def numI32 (f : Bytes) : String :=
  match f with
  | 45 :: r =>
    if isDigits r && decide (digitsVal r ≤ 2147483648) then
      (if digitsVal r = 0 then decHex 0 else hex ([45] ++ (toString (digitsVal r)).toUTF8.toList))
    else "?"
  | _ => numU 2147483647 f

/-- a position: `0` is "missing"; otherwise a `usize` that must be ≥ 1 -/
def numPos (f : Bytes) : String :=
  if f = [48] then decHex 0
  else if isDigits f && decide (1 ≤ digitsVal f) && decide (digitsVal f < 2 ^ 64) then decHex (digitsVal f)
  else "?"

def starEmpty (f : Bytes) : Bytes := if f = STAR then [] else f
def dotEmpty (f : Bytes) : Bytes := if f = DOT then [] else f

def samRecStr (r : LazyRec) : String :=
  if r.buf.length < r.ends.getLast?.getD 0 then s!"{r.len}:panic"   -- a bound past the end of the buffer
  else
    match sliceFields r.buf 0 r.ends with
    | [name, flags, rname, pos, mapq, cigar, rnext, pnext, tlen, sq, qual, data] =>
      let rnext' := if rnext = [61] then rname else rnext
      s!"{r.len}:{hex name}:{numU 65535 flags}:{hex rname}:{numPos pos}:{numU 255 mapq}:{hex (starEmpty cigar)}:{hex rnext'}:{numPos pnext}:{numI32 tlen}:{hex (starEmpty sq)}:{hex (starEmpty qual)}:{hex data}"
    | _ => "?"

def splitTab (l : Bytes) : Bytes := l.takeWhile (· != 9)

/-- VCF QUAL through `f32` parsing, shown only as far as the generator goes: `.`, or an integer of
at most four digits -/
def qualStr (f : Bytes) : String :=
  if f = DOT then hex DOT
  else if isDigits f && decide (f.length ≤ 4) then decHex (digitsVal f) else "?"

def vcfRecStr (r : LazyRec) : String :=
  if r.buf.length < r.ends.getLast?.getD 0 then s!"{r.len}:panic"
  else
    match sliceFields r.buf 0 r.ends with
    | [chrom, pos, ids, ref, alt, qual, filt, info, rest] =>
      let samples := if rest.isEmpty || splitTab rest = DOT then [] else rest
      s!"{r.len}:{hex chrom}:{numPos pos}:{hex (dotEmpty ids)}:{hex ref}:{hex (dotEmpty alt)}:{qualStr qual}:{hex (dotEmpty filt)}:{hex (dotEmpty info)}:{hex samples}"
    | _ => "?"

def lazyAnswer (recStr : LazyRec → String) (d : Bytes) (r : Except Err (List LazyRec × Option Err) × BufR UInt8) : String :=
  match r with
  | (.ok (recs, e), b') => s!"recs={joinOr "," (recs.map recStr)} end={endStr e}@{d.length - b'.stream.length}"
  | (.error e, b') => s!"recs=- end={errStr e}@{d.length - b'.stream.length}"

/-- the answers of the real line parser, as the harness obtained them: `<line>:<token>,…` -/
def parseTable (s : String) : Option (List (Bytes × String)) :=
  if s = "-" then some [] else
  (s.splitOn ",").mapM fun p =>
    match p.splitOn ":" with
    | l :: rest => (unhex l).map fun b => (b, ":".intercalate rest)
    | _ => none

def tableParse (t : List (Bytes × String)) (l : Bytes) : Except Err String :=
  match t.find? (fun p => p.1 == l) with
  | none => .ok "unknown-line"
  | some (_, tok) =>
    if tok = "err:eof" then .error .eof
    else if tok.startsWith "err:" then .error .invalidData
    else .ok tok

def linesAnswer (tok : α → String) (d : Bytes) (r : Except Err (List (Nat × α) × Option Err) × BufR UInt8) : String :=
  match r with
  | (.ok (recs, e), b') =>
    s!"recs={joinOr "," (recs.map fun x => s!"{x.1}:{tok x.2}")} end={endStr e}@{d.length - b'.stream.length}"
  | (.error e, b') => s!"recs=- end={errStr e}@{d.length - b'.stream.length}"

/-- `sequence_reader()` driven by hand: `fill_buf`, take `min(size, window)` bytes, `consume` — until an
empty window; `Interrupted` retried. The same loop as `seqReadToEnd`. -/
def handleC12More : List String → String
  | ["bamv", data, sched] =>
    match unhex data, parseSched sched with
    | some d, some sc =>
      match Prog.run noSizes (Prog.bamRecordsV (d.length + 1) []) ⟨d, sc⟩ with
      | (.ok (recs, e), s') =>
        let rs := recs.map fun x => s!"{x.length}:{hex (bamName x)}"
        s!"recs={joinOr "," rs} end={endStr e}@{d.length - s'.data.length}"
      | (.error e, s') => s!"recs=- end={errStr e}@{d.length - s'.data.length}"
    | _, _ => "bad-op"
  | ["bcf", data, sched] =>
    match unhex data, parseSched sched with
    | some d, some sc =>
      match Prog.run noSizes (Prog.bcfRecords bcfIndexParam (d.length + 1) []) ⟨d, sc⟩ with
      | (.ok (recs, e), s') =>
        s!"recs={joinOr "," (recs.map bcfRecStr)} end={endStr e}@{d.length - s'.data.length}"
      | (.error e, s') => s!"recs=- end={errStr e}@{d.length - s'.data.length}"
    | _, _ => "bad-op"
  | ["cram", data, sched] =>
    match unhex data, parseSched sched with
    | some d, some sc =>
      match Prog.run noSizes (Prog.cramFile crcParam (d.length + 1)) ⟨d, sc⟩ with
      | (.ok ((ver, fid), conts, e), s') =>
        s!"def={hex (ver ++ fid)} conts={joinOr "," (conts.map contStr)} end={endStr e}@{d.length - s'.data.length}"
      | (.error e, s') => s!"def=- conts=- end={errStr e}@{d.length - s'.data.length}"
    | _, _ => "bad-op"
  | ["bai", data, sched] =>
    match unhex data, parseSched sched with
    | some d, some sc =>
      match Prog.run noSizes Prog.baiReadIndex ⟨d, sc⟩ with
      | (.ok ix, s') => s!"ok {Noodles.Index.fmtBai ix} @{d.length - s'.data.length}"
      | (.error e, _) => errStr e
    | _, _ => "bad-op"
  | ["tbi", data, sched] =>
    match unhex data, parseSched sched with
    | some d, some sc =>
      match Prog.run noSizes Prog.tabixReadIndex ⟨d, sc⟩ with
      | (.ok ix, _) => s!"ok {Noodles.Index.fmtTabix ix}"
      | (.error e, _) => errStr e
    | _, _ => "bad-op"
  | ["csi", data, sched] =>
    match unhex data, parseSched sched with
    | some d, some sc =>
      match Prog.run noSizes Prog.csiReadIndex ⟨d, sc⟩ with
      | (.ok ix, _) => s!"ok {Noodles.Index.fmtCsi ix}"
      | (.error e, _) => errStr e
    | _, _ => "bad-op"
  | ["gzi", data, sched] =>
    match unhex data, parseSched sched with
    | some d, some sc =>
      match Prog.run noSizes Prog.gziReadIndex ⟨d, sc⟩ with
      | (.ok ix, s') => s!"ok {fmtPairs ":" ix} @{d.length - s'.data.length}"
      | (.error e, _) => errStr e
    | _, _ => "bad-op"
  | ["samrec", data, sched, cap] =>
    match unhex data, parseSched sched, cap.toNat? with
    | some d, some sc, some cap =>
      if cap = 0 then "bad-op" else lazyAnswer samRecStr d (samRecordsAll (BufR.ofSrc ⟨d, sc⟩ cap))
    | _, _, _ => "bad-op"
  | ["vcfrec", data, sched, cap] =>
    match unhex data, parseSched sched, cap.toNat? with
    | some d, some sc, some cap =>
      if cap = 0 then "bad-op" else lazyAnswer vcfRecStr d (vcfRecordsAll (BufR.ofSrc ⟨d, sc⟩ cap))
    | _, _, _ => "bad-op"
  | ["lines", mode, utf8, table, data, sched, cap] =>
    match parseTable table, unhex data, parseSched sched, cap.toNat? with
    | some t, some d, some sc, some cap =>
      if cap = 0 then "bad-op"
      else
        let r := parsedLinesAll (utf8 = "1") (tableParse t) (BufR.ofSrc ⟨d, sc⟩ cap)
        if mode = "each" then linesAnswer id d r
        else match r with
          | (.ok (recs, e), b') =>
            if mode = "nopos" then
              s!"recs={joinOr "," (recs.map fun x => s!"{x.1}:{x.2}")} end={endStr e}"
            else match e with
              | none => s!"recs={joinOr "," (recs.map (·.2))} end=eof@{d.length - b'.stream.length}"
              | some e => s!"recs=- end={errStr e}"
          | (.error e, _) => s!"recs=- end={errStr e}"
    | _, _, _, _ => "bad-op"
  | ["gff", data, sched, cap] =>
    match unhex data, parseSched sched, cap.toNat? with
    | some d, some sc, some cap =>
      if cap = 0 then "bad-op" else linesAnswer hex d (gffLinesAll (BufR.ofSrc ⟨d, sc⟩ cap))
    | _, _, _ => "bad-op"
  | ["gtf", data, sched, cap] =>
    match unhex data, parseSched sched, cap.toNat? with
    | some d, some sc, some cap =>
      if cap = 0 then "bad-op"
      else linesAnswer hex d (parsedLinesAll false (fun l => .ok l) (BufR.ofSrc ⟨d, sc⟩ cap))
    | _, _, _ => "bad-op"
  | ["faseq", sizes, data, sched, cap] =>
    match nats sizes, unhex data, parseSched sched, cap.toNat? with
    | some sz, some d, some sc, some cap =>
      if cap = 0 then "bad-op" else
      match readSequence sz (BufR.ofSrc ⟨d, sc⟩ cap) with
      | (.ok sq, b') => s!"seq={hex sq} end=ok@{d.length - b'.stream.length}"
      | (.error e, b') => s!"seq=- end={errStr e}@{d.length - b'.stream.length}"
    | _, _, _, _ => "bad-op"
  | ["fasta", data, sched, cap] =>
    match unhex data, parseSched sched, cap.toNat? with
    | some d, some sc, some cap =>
      if cap = 0 then "bad-op" else
      match fastaRecordsAll noSizes (BufR.ofSrc ⟨d, sc⟩ cap) with
      | (.ok (recs, e), b') =>
        let rs := recs.map fun r => s!"{hex r.name}:{hex r.description}:{hex r.sequence}"
        s!"recs={joinOr "," rs} end={endStr e}@{d.length - b'.stream.length}"
      | (.error e, b') => s!"recs=- end={errStr e}@{d.length - b'.stream.length}"
    | _, _, _ => "bad-op"
  | _ => "bad-op"

/-- the requests of `DriverC12` first, then the ones above (`Noodles/Driver.lean` dispatches here) -/
def handleC12All (ws : List String) : String :=
  let r := handleC12 ws
  if r = "bad-op" then handleC12More ws else r

end Noodles.IO
