import Noodles.Io.WProg
/-!
# The noodles writers as writer programs (model)

For every writer of C14's list: the layer it puts between itself and the destination, the program
of each of its calls, its finishing call, and what dropping it does. Five writers whose framing is
short are transcribed piece by piece from the data they are given (FASTA, FASTQ, BAM, BCF, gzi); for
the text and index encoders with dozens of `write_all` sites (SAM, VCF, GFF, GTF, BED, fai, BAI, CSI,
tabix, crai) and for CRAM the pieces of a call are a parameter — the list of `write_all` buffers the
real call hands to its inner writer, which the harness records — and what is transcribed is the
structure around them. The theorems of `Props/C14More.lean` hold for ANY pieces.
-/
namespace Noodles.WP.Writers
open Noodles.Codec (Bytes le)
open Noodles.Bgzf
open Noodles.WP

/-! ## the table -/

/-- what sits between the format writer and the destination -/
inductive Layer
  /-- nothing: `Writer::new(sink)` keeps the destination as its inner writer -/
  | direct
  /-- `std::io::BufWriter` (inserted by a noodles builder, or by the caller) -/
  | buffered
  /-- `bgzf::io::Writer` -/
  | bgzf
  /-- `flate2::write::GzEncoder` (external; crai only). Not transcribed: the harness observes its
  sequence of destination calls, see `Kind.crai` -/
  | gz
  deriving Repr, DecidableEq

inductive Kind
  | sam | samBuilder | samBgzf | bam | bcf | vcf | vcfBgzf | fasta | fastq | gff | gtf | bed | bedBuilder
  | fai | gzi | bai | csi | tabix | crai | cram
  deriving Repr, DecidableEq

/-- the constructor used by the harness for each kind, and the layer it creates:
`sam::io::Writer::new(sink)`; `sam::io::writer::Builder::default().build_from_writer(sink)`
(`Box<BufWriter>`); `sam::io::Writer::new(bgzf::io::Writer::new(sink))`; `bam::io::Writer::new`;
`bcf::io::Writer::new`; `vcf::io::Writer::new(sink)`; `vcf::io::Writer::new(bgzf::io::Writer::new(sink))`;
`fasta/fastq/gff/gtf/bed::io::Writer::new(sink)`; `bed::io::writer::Builder::build_from_writer`
(`BufWriter`); `fai/gzi/bai::io::Writer::new(sink)`; `csi/tabix::io::Writer::new` (BGZF inside);
`crai::io::Writer::new` (gzip inside); `cram::io::Writer::new(sink)`. -/
def Kind.layer : Kind → Layer
  | .sam | .vcf | .fasta | .fastq | .gff | .gtf | .bed | .fai | .gzi | .bai | .cram => .direct
  | .samBuilder | .bedBuilder => .buffered
  | .samBgzf | .bam | .bcf | .vcfBgzf | .csi | .tabix => .bgzf
  | .crai => .gz

/-- does dropping the layer call the destination? (`direct`: no `Drop` impl anywhere in the format
writers; `BufWriter::drop` runs `flush_buf`; `bgzf::io::Writer::drop` runs `try_finish`;
`GzEncoder::drop` runs `try_finish`) -/
def Layer.emitsInDrop : Layer → Bool
  | .direct => false
  | _ => true

/-- the call after which "all `Ok`" means "complete file". `none`: every call that returned `Ok` has
already handed all its bytes to the destination. -/
inductive Finish
  | none
  /-- `get_mut().flush()` / `alignment::io::Write::finish` (`inner.flush()`) -/
  | flush
  /-- `try_finish()` (`bgzf::io::Writer::try_finish` underneath) or `into_inner().finish()` -/
  | tryFinish
  /-- `crai::io::Writer::finish(self)` -/
  | gzFinish
  /-- `cram::io::Writer::try_finish(header)`: flushes the staged records as a last container, then
  the EOF container. There is no `Drop`: without it the staged records are lost silently. -/
  | cramTryFinish
  deriving Repr, DecidableEq

def Kind.finish : Kind → Finish
  | .cram => .cramTryFinish
  | .crai => .gzFinish
  | k => match k.layer with
    | .direct => .none
    | .buffered => .flush
    | .bgzf => .tryFinish
    | .gz => .gzFinish

/-- a writer call: its program, and whether the call maps every error `e` to
`io::Error::new(InvalidInput, e)` before returning it (`vcf::io::Writer::write_record` /
`write_variant_record`: the destination's error is then the `source()` of what the caller gets) -/
structure Call where
  wrap : Bool
  prog : WProg
  deriving Repr

/-! ## pieces given: SAM, VCF, GFF, GTF, BED, fai, BAI, CSI, tabix (and crai at the destination) -/

/-- a call whose `write_all` buffers are `pieces`, ending in an own error if `err` says so (an
invalid field is discovered after the fields before it were written) -/
def piecesCall (wrap : Bool) (pieces : List Bytes) (err : Option Err) : Call :=
  ⟨wrap, .seq (emits pieces) (match err with | some e => .fail e | none => .skip)⟩

/-! ## FASTA: `noodles-fasta/src/io/writer/record.rs`, `record/definition.rs`, `record/sequence.rs` -/

/-- `slice.chunks(n)` for `n ≥ 1` -/
def chunksAux (n : Nat) : Nat → Bytes → List Bytes
  | 0, _ => []
  | fuel+1, l => if l.isEmpty then [] else l.take n :: chunksAux n fuel (l.drop n)

def chunks (n : Nat) (l : Bytes) : List Bytes := chunksAux (max n 1) l.length l

/-- `write_record`: `>` name [` ` description] `\n`, then every line of `line_base_count` bases
followed by `\n` -/
def fastaRecord (lineBases : Nat) (name : Bytes) (desc : Option Bytes) (seq : Bytes) : WProg :=
  emits
    ([[0x3e], name] ++
     (match desc with
      | some d => [[0x20], d]
      | none => []) ++
     [[0x0a]] ++
     (chunks lineBases seq).flatMap (fun c => [c, [0x0a]]))

/-! ## FASTQ: `noodles-fastq/src/io/writer/record.rs` -/

def fastqRecord (sep : UInt8) (name desc seq qual : Bytes) : WProg :=
  emits
    ([[0x40], name] ++
     (if desc.isEmpty then [] else [[sep], desc]) ++
     [[0x0a], seq, [0x0a], [0x2b], [0x0a], qual, [0x0a]])

/-! ## gzi: `noodles-bgzf/src/gzi/io/writer/index.rs` -/

def gziIndex (entries : List (Nat × Nat)) : WProg :=
  emits (le 8 entries.length :: entries.flatMap fun e => [le 8 e.1, le 8 e.2])

/-! ## BAM: `noodles-bam/src/io/writer.rs`, `io/writer/header.rs` -/

/-- `write_reference_sequence`: `l_name`, the NUL-terminated name, `l_ref`. (`CString::new(name)`
cannot fail here: a name with an interior NUL is refused earlier, by `serialize_header`.) -/
def bamReference (name : Bytes) (len : Nat) : WProg :=
  seqAll [.emit (le 4 (name.length + 1)), .emit (name ++ [0]), .emit (le 4 len)]

/-- `write_header`: the magic is written BEFORE the SAM header is serialised (`serialize_header`
runs `sam::io::Writer` into a `Vec` and fails on an invalid header, e.g. a reference sequence name
with a NUL), so a refused header leaves four bytes behind; then `l_text`, text, `n_ref`, the
references. (Lengths are assumed to fit `i32`.) -/
def bamHeader (text : Except Err Bytes) (refs : List (Bytes × Nat)) : WProg :=
  .seq (.emit [0x42, 0x41, 0x4d, 0x01])
    (match text with
     | .error e => .fail e
     | .ok text =>
       seqAll
         ([.emit (le 4 text.length), .emit text, .emit (le 4 refs.length)] ++
          refs.map fun r => bamReference r.1 r.2))

/-- `write_alignment_record`: the record is encoded into the writer's own buffer first (an invalid
record is an error before anything is written), then `block_size` and the buffer -/
def bamRecord (enc : Except Err Bytes) : WProg :=
  match enc with
  | .error e => .fail e
  | .ok buf => .seq (.emit (le 4 buf.length)) (.emit buf)

/-! ## BCF: `noodles-bcf/src/io/writer.rs`, `io/writer/header.rs`, `io/writer/record.rs` -/

/-- `write_header`: magic and version are written BEFORE the header is checked (string maps, NUL in
the text), so a refused header leaves five bytes behind -/
def bcfHeader (text : Except Err Bytes) : WProg :=
  seqAll
    [.emit [0x42, 0x43, 0x46], .emit [2, 2],
     (match text with
      | .error e => .fail e
      | .ok t =>
        if t.contains 0 then .fail .invalidInput
        else .seq (.emit (le 4 (t.length + 1))) (.emit (t ++ [0])))]

/-- `write_record`: site and samples are encoded into two buffers first, then `l_shared`, `l_indiv`
and the two buffers -/
def bcfRecord (enc : Except Err (Bytes × Bytes)) : WProg :=
  match enc with
  | .error e => .fail e
  | .ok (site, samples) =>
    seqAll [.emit (le 4 site.length), .emit (le 4 samples.length), .emit site, .emit samples]

/-! ## CRAM: `noodles-cram/src/io/writer.rs` (`add_record`, `flush`, `try_finish`) -/

/-- the 38-byte EOF container -/
def CRAM_EOF : Bytes :=
  [0x0f, 0x00, 0x00, 0x00, 0xff, 0xff, 0xff, 0xff, 0x0f, 0xe0, 0x45, 0x4f, 0x46, 0x00, 0x00, 0x00,
   0x00, 0x01, 0x00, 0x05, 0xbd, 0xd9, 0x4f, 0x00, 0x01, 0x00, 0x06, 0x06, 0x01, 0x00, 0x01, 0x00,
   0x01, 0x00, 0xee, 0x63, 0x01, 0x4b]

/-- The CRAM writer stages records and emits a container only when `records.len() >= capacity`
(`cap` = records per slice × slices per container) or in `try_finish`. The container byte strings
are a parameter (`conts`: for each container, its `write_all` buffers — header fields and blocks),
because the encoder's block order follows `HashMap` iteration and differs between runs.
`cramRecords cap staged n conts`: the calls `write_alignment_record` #1..#n starting with `staged`
records staged; returns the calls, the records left staged and the containers not yet used. -/
def cramRecords (cap : Nat) : Nat → Nat → List (List Bytes) → List WProg × Nat × List (List Bytes)
  | staged, 0, conts => ([], staged, conts)
  | staged, n+1, conts =>
    if staged + 1 ≥ cap then
      let r := cramRecords cap 0 n conts.tail
      (emits (conts.headD []) :: r.1, r.2)
    else
      let r := cramRecords cap (staged + 1) n conts
      (.skip :: r.1, r.2)

/-- `try_finish`: `flush` (a container for what is staged, nothing when nothing is), then EOF -/
def cramTryFinish (staged : Nat) (conts : List (List Bytes)) : WProg :=
  .seq (if staged = 0 then .skip else emits (conts.headD [])) (.emit CRAM_EOF)

/-- a CRAM session: `write_header` (its pieces given), `n` records, optionally `try_finish` -/
def cramSession (cap : Nat) (hdr : List Bytes) (n : Nat) (conts : List (List Bytes)) (fin : Bool) :
    List WProg :=
  let r := cramRecords cap 0 n conts
  emits hdr :: r.1 ++ (if fin then [cramTryFinish r.2.1 r.2.2] else [])

/-! ## canonical form of a program: what a recording destination sees of it -/

inductive Item | emit (b : Bytes) | flush | finish | fail (e : Err)
  deriving Repr

/-- the non-empty `write_all`s, the flushes and the finishing calls in order, up to and including
the first own error (an empty `write_all` makes no call on the inner writer) -/
def itemsAux : WProg → List Item × Bool
  | .skip => ([], true)
  | .emit b => (if b.isEmpty then [] else [.emit b], true)
  | .flush => ([.flush], true)
  | .finish => ([.finish], true)
  | .fail e => ([.fail e], false)
  | .seq p q => if (itemsAux p).2 then ((itemsAux p).1 ++ (itemsAux q).1, (itemsAux q).2) else itemsAux p

def items (p : WProg) : List Item := (itemsAux p).1

def Item.prog : Item → WProg
  | .emit b => .emit b
  | .flush => .flush
  | .finish => .finish
  | .fail e => .fail e

def ofItems (l : List Item) : WProg := seqAll (l.map Item.prog)

end Noodles.WP.Writers
