import Noodles.Io.LoopsProof
import Noodles.Io.Prog
import Noodles.Io.Binary
import Noodles.Io.Lines
/-!
# Proofs for the second part of the C12 model

* `Prog.run_spec` — a reader that touches its source only through `read_exact`, `read_exact_or_eof`
  and reading a `Take` to its end computes, over ANY scheduled source, the function `Prog.runPure` of
  the undelivered bytes (result and bytes left). Every `Prog` — the BCF record reader, the CRAM
  container reader, the BAI / tabix / CSI / gzi readers — is therefore schedule-irrelevant
  (`Prog.run_irrel`), with no proof per reader.
-/
namespace Noodles.IO
namespace Prog
variable {β γ : Type}

/-- what a `Prog` computes from the undelivered bytes alone -/
def runPure : Prog β → Bytes → Except Err β × Bytes
  | ret b, d => (.ok b, d)
  | fail e, d => (.error e, d)
  | exact n k, d => runPure (k (specReadExact d n).1) (specReadExact d n).2
  | exactOrEof n k, d => runPure (k (specReadExactOrEof d n).1) (specReadExactOrEof d n).2
  | upTo n k, d => runPure (k (d.take n)) (d.drop n)

/-! ### `reader.take(n).read_to_end(buf)` -/

theorem takeReadToEnd_zero {α : Type} (fuel : Nat) (s : Src α) (sizes : List Nat) (acc : List α) :
    takeReadToEnd (fuel+1) s 0 sizes acc = (acc, s) := by
  simp [takeReadToEnd]

/-- the request size of one `read` under `Take(limit)`: at least 1, at most the limit -/
def takeWant (limit : Nat) (sizes : List Nat) : Nat :=
  match sizes.head? with
  | none => limit
  | some n => min (max n 1) limit

theorem takeWant_bounds (limit : Nat) (sizes : List Nat) (h : limit ≠ 0) :
    1 ≤ takeWant limit sizes ∧ takeWant limit sizes ≤ limit := by
  unfold takeWant
  cases sizes.head? with
  | none => simp only; omega
  | some n => simp only; omega

theorem takeReadToEnd_step {α : Type} (fuel : Nat) (s : Src α) (limit : Nat) (sizes : List Nat)
    (acc : List α) (h : limit ≠ 0) :
    takeReadToEnd (fuel+1) s limit sizes acc =
      match read s (takeWant limit sizes) with
      | (.interrupted, s') => takeReadToEnd fuel s' limit sizes acc
      | (.ok bs, s') =>
        if bs.length = 0 then (acc, s')
        else takeReadToEnd fuel s' (limit - bs.length) sizes.tail (acc ++ bs) := by
  rw [takeReadToEnd, if_neg h]
  rfl

/-- **`reader.take(limit).read_to_end(buf)` appends exactly the next `limit` bytes (all there is, if
less) and leaves exactly the rest — whatever the delivery schedule and whatever buffer sizes std
uses.** -/
theorem takeReadToEnd_spec {α : Type} (fuel : Nat) (s : Src α) (limit : Nat) (sizes : List Nat)
    (acc : List α) (hf : limit + s.sched.length < fuel) :
    (takeReadToEnd fuel s limit sizes acc).1 = acc ++ s.data.take limit ∧
    (takeReadToEnd fuel s limit sizes acc).2.data = s.data.drop limit := by
  induction fuel generalizing s limit sizes acc with
  | zero => omega
  | succ fuel ih =>
    by_cases h0 : limit = 0
    · subst h0; simp [takeReadToEnd]
    · obtain ⟨hw1, hw2⟩ := takeWant_bounds limit sizes h0
      rw [takeReadToEnd_step fuel s limit sizes acc h0]
      rcases read_cases s (takeWant limit sizes) (by omega) with ⟨sc, hs, hr⟩ | ⟨k, sc, hk1, hkw, hsc, hr⟩
      · rw [hr]
        exact ih ⟨s.data, sc⟩ limit sizes acc (by rw [hs] at hf; simp at hf ⊢; omega)
      · rw [hr]
        simp only
        by_cases hb : (s.data.take k).length = 0
        · rw [if_pos hb]
          have hd : s.data = [] := by
            cases hdata : s.data with
            | nil => rfl
            | cons x xs => rw [hdata] at hb; simp [List.length_take] at hb; omega
          simp [hd]
        · rw [if_neg hb]
          have hle : (s.data.take k).length ≤ k := by simp [List.length_take]; omega
          obtain ⟨h1, h2⟩ := ih ⟨s.data.drop k, sc⟩ (limit - (s.data.take k).length) sizes.tail
            (acc ++ s.data.take k) (by simp only; omega)
          obtain ⟨t1, t2⟩ := take_take_drop s.data k limit (by omega)
          constructor
          · rw [h1]; simp only [List.append_assoc]; rw [t1]
          · rw [h2]; exact t2

theorem takeReadToEnd_spec' {α : Type} (s : Src α) (limit : Nat) (sizes : List Nat) :
    (takeReadToEnd (gatherFuel s limit) s limit sizes []).1 = s.data.take limit ∧
    (takeReadToEnd (gatherFuel s limit) s limit sizes []).2.data = s.data.drop limit := by
  have := takeReadToEnd_spec (gatherFuel s limit) s limit sizes [] (by simp [gatherFuel])
  simpa using this

/-- **A `Prog` run over a scheduled source computes `runPure` of the undelivered bytes**, whatever the
schedule and whatever buffer sizes `read_to_end` uses. -/
theorem runAt_spec (sz : Nat → List Nat) (p : Prog β) (i : Nat) (s : Src UInt8) :
    (runAt sz p i s).1 = (runPure p s.data).1 ∧ (runAt sz p i s).2.data = (runPure p s.data).2 := by
  induction p generalizing s i with
  | ret b => exact ⟨rfl, rfl⟩
  | fail e => exact ⟨rfl, rfl⟩
  | exact n k ih =>
    obtain ⟨h1, h2⟩ := defaultReadExact_spec s n
    simp only [runAt, runPure]
    rw [h1]
    have := ih (specReadExact s.data n).1 i (defaultReadExact s n).2
    rw [h2] at this
    exact this
  | exactOrEof n k ih =>
    obtain ⟨h1, h2⟩ := readExactOrEof_spec s n
    simp only [runAt, runPure]
    rw [h1]
    have := ih (specReadExactOrEof s.data n).1 i (readExactOrEof s n).2
    rw [h2] at this
    exact this
  | upTo n k ih =>
    obtain ⟨h1, h2⟩ := takeReadToEnd_spec' s n (sz i)
    simp only [runAt, runPure]
    rw [h1]
    have := ih (s.data.take n) (i + 1) (takeReadToEnd (gatherFuel s n) s n (sz i) []).2
    rw [h2] at this
    exact this

theorem run_spec (sz : Nat → List Nat) (p : Prog β) (s : Src UInt8) :
    (run sz p s).1 = (runPure p s.data).1 ∧ (run sz p s).2.data = (runPure p s.data).2 :=
  runAt_spec sz p 0 s

theorem run_irrel (sz : Nat → List Nat) (p : Prog β) : Irrel (run sz p) :=
  irrel_of_spec _ (runPure p) (run_spec sz p)

/-- `read_exact_to_vec(len)` and `read_exact` of `len` bytes: the same bytes, the same
`UnexpectedEof` condition, the same bytes left -/
theorem readExactToVec_eq_readExact (sz : Nat → List Nat) (n : Nat) (s : Src UInt8) :
    (run sz (readExactToVec n) s).1 = (defaultReadExact s n).1 ∧
    (run sz (readExactToVec n) s).2.data = (defaultReadExact s n).2.data := by
  obtain ⟨a1, a2⟩ := run_spec sz (readExactToVec n) s
  obtain ⟨b1, b2⟩ := defaultReadExact_spec s n
  rw [a1, a2, b1, b2]
  simp only [readExactToVec, runPure, specReadExact]
  by_cases h : n ≤ s.data.length
  · have hl : (s.data.take n).length = n := by simp [List.length_take]; omega
    rw [if_pos hl, if_pos h]; exact ⟨rfl, rfl⟩
  · have hl : (s.data.take n).length ≠ n := by simp [List.length_take]; omega
    rw [if_neg hl, if_neg h]
    exact ⟨rfl, List.drop_of_length_le (by omega)⟩

/-! ### the fuel of the record loops -/


theorem specReadExact_le (d : Bytes) (n : Nat) : (specReadExact d n).2.length ≤ d.length := by
  unfold specReadExact; split <;> simp

theorem specReadExactOrEof_le (d : Bytes) (n : Nat) : (specReadExactOrEof d n).2.length ≤ d.length := by
  unfold specReadExactOrEof; split
  · simp
  · split <;> simp

/-- no reader gives bytes back -/
theorem runPure_le (p : Prog β) (d : Bytes) : (runPure p d).2.length ≤ d.length := by
  induction p generalizing d with
  | ret b => exact Nat.le_refl _
  | fail e => exact Nat.le_refl _
  | exact n k ih =>
    simp only [runPure]
    exact Nat.le_trans (ih _ _) (specReadExact_le d n)
  | exactOrEof n k ih =>
    simp only [runPure]
    exact Nat.le_trans (ih _ _) (specReadExactOrEof_le d n)
  | upTo n k ih =>
    simp only [runPure]
    exact Nat.le_trans (ih _ _) (by simp)

theorem runPure_bind (p : Prog β) (f : β → Prog γ) (d : Bytes) :
    runPure (bind p f) d =
      match runPure p d with
      | (.ok a, d') => runPure (f a) d'
      | (.error e, d') => (.error e, d') := by
  induction p generalizing d with
  | ret b => rfl
  | fail e => rfl
  | exact n k ih => simp only [bind, runPure]; exact ih _ _
  | exactOrEof n k ih => simp only [bind, runPure]; exact ih _ _
  | upTo n k ih => simp only [bind, runPure]; exact ih _ _

theorem runPure_attempt (p : Prog β) (d : Bytes) :
    runPure (attempt p) d =
      match runPure p d with
      | (.ok a, d') => (.ok (.ok a), d')
      | (.error e, d') => (.ok (.error e), d') := by
  induction p generalizing d with
  | ret b => rfl
  | fail e => rfl
  | exact n k ih => simp only [attempt, runPure]; exact ih _ _
  | exactOrEof n k ih => simp only [attempt, runPure]; exact ih _ _
  | upTo n k ih => simp only [attempt, runPure]; exact ih _ _

/-- a reader that starts with `read_exact_or_eof(4)` and stops (`none`, or an error) unless the length
it read is non-zero consumes at least the four bytes whenever it goes on -/
theorem framed_progress (k : Bytes → Prog (Option β)) (d : Bytes) (r : β)
    (h : (runPure (exactOrEof 4 fun
        | .error e => fail e
        | .ok hdr => if leNat (zeroPad 4 hdr) = 0 then ret none else k hdr) d).1 = .ok (some r)) :
    (runPure (exactOrEof 4 fun
        | .error e => fail e
        | .ok hdr => if leNat (zeroPad 4 hdr) = 0 then ret none else k hdr) d).2.length < d.length := by
  simp only [runPure] at h ⊢
  unfold specReadExactOrEof at h ⊢
  by_cases h4 : 4 ≤ d.length
  · rw [if_pos h4] at h ⊢
    simp only at h ⊢
    by_cases hz : leNat (zeroPad 4 (d.take 4)) = 0
    · rw [if_pos hz] at h; simp [runPure] at h
    · rw [if_neg hz] at h ⊢
      have := runPure_le (k (d.take 4)) (d.drop 4)
      simp only [List.length_drop] at this
      omega
  · rw [if_neg h4] at h ⊢
    by_cases h0 : d.length = 0
    · rw [if_pos h0] at h
      simp only at h
      have : leNat (zeroPad 4 ([] : Bytes)) = 0 := by decide
      rw [if_pos this] at h; simp [runPure] at h
    · rw [if_neg h0] at h; simp [runPure] at h


/-- a record reader makes progress: a record costs at least one byte -/
def Progress (rd : Prog (Option β)) : Prop :=
  ∀ d r, (runPure rd d).1 = .ok (some r) → (runPure rd d).2.length < d.length

/-- with more fuel than there are bytes the fuel bound is never the reason the loop stops: the
result does not depend on the fuel -/
theorem records_fuel_irrelevant (rd : Prog (Option β)) (hp : Progress rd) (f1 f2 : Nat) (acc : List β)
    (d : Bytes) (h1 : d.length < f1) (h2 : d.length < f2) :
    runPure (records rd f1 acc) d = runPure (records rd f2 acc) d := by
  induction f1 generalizing f2 acc d with
  | zero => omega
  | succ f1 ih =>
    cases f2 with
    | zero => omega
    | succ f2 =>
      simp only [records, runPure_bind, runPure_attempt]
      have hprog := hp d
      rcases e : runPure rd d with ⟨res, d'⟩
      rw [e] at hprog
      cases res with
      | error x => rfl
      | ok o =>
        cases o with
        | none => rfl
        | some r =>
          have := hprog r rfl
          simp only at this ⊢
          exact ih f2 (r :: acc) d' (by omega) (by omega)

theorem readExact_pure (n : Nat) (d : Bytes) :
    runPure (readExact n) d = if n ≤ d.length then (.ok (d.take n), d.drop n) else (.error .eof, []) := by
  simp only [readExact, runPure, specReadExact]
  by_cases h : n ≤ d.length
  · rw [if_pos h]; rfl
  · rw [if_neg h]; rfl

/-- a reader that begins with `read_exact(n)?`, `n > 0`, makes progress -/
theorem progress_of_readExact (n : Nat) (hn : 0 < n) (f : Bytes → Prog (Option β)) :
    Progress (bind (readExact n) f) := by
  intro d r h
  rw [runPure_bind, readExact_pure] at h ⊢
  by_cases hl : n ≤ d.length
  · rw [if_pos hl] at h ⊢
    simp only at h ⊢
    have := runPure_le (f (d.take n)) (d.drop n)
    simp only [List.length_drop] at this
    omega
  · rw [if_neg hl] at h; simp at h

/-- a reader that begins with `read_exact(n)?` inside a first step that is itself followed by more -/
theorem progress_of_readExact2 {δ : Type} (n : Nat) (hn : 0 < n) (f : Bytes → Prog δ) (g : δ → Prog (Option β)) :
    Progress (bind (bind (readExact n) f) g) := by
  intro d r h
  rw [runPure_bind, runPure_bind, readExact_pure] at h ⊢
  by_cases hl : n ≤ d.length
  · rw [if_pos hl] at h ⊢
    simp only at h ⊢
    have h1 := runPure_le (f (d.take n)) (d.drop n)
    simp only [List.length_drop] at h1
    revert h h1
    generalize runPure (f (d.take n)) (d.drop n) = x
    obtain ⟨res, d'⟩ := x
    intro h h1
    cases res with
    | error x => simp at h
    | ok a =>
      simp only at h h1 ⊢
      have := runPure_le (g a) d'
      omega
  · rw [if_neg hl] at h; simp at h

theorem bamReadRecordV_progress : Progress bamReadRecordV :=
  fun d r h => framed_progress (fun hdr => do
    let body ← readExactToVec (leNat (zeroPad 4 hdr))
    if bamValidate body then return some body else fail .eof) d r h

theorem bcfReadRecord_progress (index : Bytes → Option Err) : Progress (bcfReadRecord index) :=
  fun d r h => framed_progress (fun hdr => do
    let lIndiv ← u32le
    let site ← readExactToVec (leNat (zeroPad 4 hdr))
    match index site with
    | some e => fail e
    | none =>
      let samples ← readExactToVec lIndiv
      return some (site, samples)) d r h

theorem cramReadContainer_progress (crc : Bytes → Nat) : Progress (cramReadContainer crc) := by
  unfold cramReadContainer cramReadHeader
  exact progress_of_readExact2 4 (by decide) _ _

end Prog

/-! ## readers over a `BufReader` compose -/

section RdB
variable {β γ : Type}

theorem irrelB_pure (a : β) : IrrelB (RdB.pure a) := by
  intro b₁ b₂ h1 h2 hs
  exact ⟨rfl, hs, h1, h2⟩

theorem irrelB_fail (e : Err) : IrrelB (RdB.fail e : RdB β) := by
  intro b₁ b₂ h1 h2 hs
  exact ⟨rfl, hs, h1, h2⟩

/-- `?`-sequencing of stream-determined readers is stream-determined -/
theorem irrelB_bind {f : RdB β} {g : β → RdB γ} (hf : IrrelB f) (hg : ∀ a, IrrelB (g a)) :
    IrrelB (RdB.bind f g) := by
  intro b₁ b₂ h1 h2 hs
  obtain ⟨a1, a2, a3, a4⟩ := hf b₁ b₂ h1 h2 hs
  unfold RdB.bind
  rcases e1 : f b₁ with ⟨r1, t1⟩
  rcases e2 : f b₂ with ⟨r2, t2⟩
  simp only [e1, e2] at a1 a2 a3 a4
  subst a1
  cases r1 with
  | error e => exact ⟨rfl, a2, a3, a4⟩
  | ok a => exact hg a t1 t2 a3 a4 a2

theorem irrelB_attempt {f : RdB β} (hf : IrrelB f) : IrrelB (RdB.attempt f) := by
  intro b₁ b₂ h1 h2 hs
  obtain ⟨a1, a2, a3, a4⟩ := hf b₁ b₂ h1 h2 hs
  unfold RdB.attempt
  rcases e1 : f b₁ with ⟨r1, t1⟩
  rcases e2 : f b₂ with ⟨r2, t2⟩
  simp only [e1, e2] at a1 a2 a3 a4
  subst a1
  cases r1 with
  | error e => exact ⟨rfl, a2, a3, a4⟩
  | ok a => exact ⟨rfl, a2, a3, a4⟩

/-- a case split on a value that does not depend on the `BufReader` -/
theorem irrelB_ite {c : Prop} [Decidable c] {f g : RdB β} (hf : IrrelB f) (hg : IrrelB g) :
    IrrelB (if c then f else g) := by
  cases ‹Decidable c› with
  | isTrue h => exact hf
  | isFalse h => exact hg

end RdB

/-! ### fields and lines -/

theorem readFieldInto_irrelB (dst : Bytes) : IrrelB (readFieldInto dst) := by
  intro b₁ b₂ h1 h2 hs
  obtain ⟨a1, a2, a3, a4⟩ := scan_irrelB fieldStep specField fieldStep_spec (dst, 0, none) b₁ b₂ h1 h2 hs
  try simp only at a1 a2 a3 a4
  unfold readFieldInto
  rcases e1 : scanLoop true fieldStep b₁.fuel (dst, 0, none) b₁ with ⟨r1, t1⟩
  rcases e2 : scanLoop true fieldStep b₂.fuel (dst, 0, none) b₂ with ⟨r2, t2⟩
  simp only [e1, e2] at a1 a2 a3 a4
  subst a1
  cases r1 with
  | error e => exact ⟨rfl, a2, a3, a4⟩
  | ok x => obtain ⟨d, len, m⟩ := x; exact ⟨rfl, a2, a3, a4⟩

theorem readLineInto_irrelB (dst : Bytes) : IrrelB (readLineInto dst) := by
  intro b₁ b₂ h1 h2 hs
  obtain ⟨a1, a2, a3, a4⟩ := readUntil_irrelB (· == LF) b₁ b₂ h1 h2 hs
  try simp only at a1 a2 a3 a4
  simp only [readLineInto]
  rw [a1]
  exact ⟨rfl, a2, a3, a4⟩

theorem readLineUtf8Into_irrelB (dst : Bytes) : IrrelB (readLineUtf8Into dst) := by
  intro b₁ b₂ h1 h2 hs
  obtain ⟨a1, a2, a3, a4⟩ := readUntil_irrelB (· == LF) b₁ b₂ h1 h2 hs
  try simp only at a1 a2 a3 a4
  simp only [readLineUtf8Into]
  rw [a1]
  by_cases hv : Noodles.Index.validUtf8 (readUntil (fun x => x == LF) b₂.fuel b₂ []).1 = true
  · rw [if_pos hv, if_pos hv]; exact ⟨rfl, a2, a3, a4⟩
  · rw [if_neg hv, if_neg hv]; exact ⟨rfl, a2, a3, a4⟩

/-! ### SAM and VCF lazy records -/

theorem samRequiredField_irrelB (dst : Bytes) : IrrelB (samRequiredField dst) :=
  irrelB_bind (readFieldInto_irrelB dst) fun ⟨_, _, isEol⟩ =>
    irrelB_ite (irrelB_fail _) (irrelB_pure _)

theorem samRequiredFields_irrelB (k : Nat) (dst : Bytes) (ends : List Nat) (len : Nat) :
    IrrelB (samRequiredFields k dst ends len) := by
  induction k generalizing dst ends len with
  | zero => exact irrelB_pure _
  | succ k ih =>
    exact irrelB_bind (samRequiredField_irrelB dst) fun ⟨d, n⟩ => ih d (d.length :: ends) (len + n)

theorem samReadRecord_irrelB : IrrelB samReadRecord :=
  irrelB_bind (samRequiredFields_irrelB 10 [] [] 0) fun ⟨d, _, _⟩ =>
  irrelB_bind (readFieldInto_irrelB d) fun ⟨d', _, _⟩ =>
    irrelB_ite (irrelB_pure _) (irrelB_bind (readLineInto_irrelB d') fun ⟨_, _⟩ => irrelB_pure _)

theorem lazyRecords_irrelB {rd : RdB LazyRec} (h : IrrelB rd) (fuel : Nat) (acc : List LazyRec) :
    IrrelB (lazyRecords rd fuel acc) := by
  induction fuel generalizing acc with
  | zero => exact irrelB_pure _
  | succ fuel ih =>
    refine irrelB_bind (irrelB_attempt h) fun r => ?_
    cases r with
    | error e => exact irrelB_pure _
    | ok r => exact irrelB_ite (irrelB_pure _) (ih (r :: acc))

theorem samRecordsAll_irrelB : IrrelB samRecordsAll := by
  intro b₁ b₂ h1 h2 hs
  unfold samRecordsAll
  rw [hs]
  exact lazyRecords_irrelB samReadRecord_irrelB _ [] b₁ b₂ h1 h2 hs

theorem vcfReadFieldInto_irrelB (dst : Bytes) : IrrelB (vcfReadFieldInto dst) :=
  irrelB_bind (readFieldInto_irrelB dst) fun ⟨_, _, _⟩ => irrelB_ite (irrelB_pure _) (irrelB_fail _)

theorem vcfRequiredField_irrelB (dst : Bytes) : IrrelB (vcfRequiredField dst) :=
  irrelB_bind (vcfReadFieldInto_irrelB dst) fun ⟨_, _, _⟩ => irrelB_ite (irrelB_fail _) (irrelB_pure _)

theorem vcfRequiredFields_irrelB (k : Nat) (dst : Bytes) (ends : List Nat) (len : Nat) :
    IrrelB (vcfRequiredFields k dst ends len) := by
  induction k generalizing dst ends len with
  | zero => exact irrelB_pure _
  | succ k ih =>
    exact irrelB_bind (vcfRequiredField_irrelB dst) fun ⟨d, n⟩ => ih d (d.length :: ends) (len + n)

theorem vcfReadRecord_irrelB : IrrelB vcfReadRecord :=
  irrelB_bind (vcfRequiredFields_irrelB 7 [] [] 0) fun ⟨d, _, _⟩ =>
  irrelB_bind (vcfReadFieldInto_irrelB d) fun ⟨d', _, _⟩ =>
    irrelB_ite (irrelB_pure _) (irrelB_bind (readLineUtf8Into_irrelB d') fun ⟨_, _⟩ => irrelB_pure _)

theorem vcfRecordsAll_irrelB : IrrelB vcfRecordsAll := by
  intro b₁ b₂ h1 h2 hs
  unfold vcfRecordsAll
  rw [hs]
  exact lazyRecords_irrelB vcfReadRecord_irrelB _ [] b₁ b₂ h1 h2 hs

/-! ### one line, then parse it -/

theorem readParsedLine_irrelB {ρ : Type} (utf8 : Bool) (parse : Bytes → Except Err ρ) :
    IrrelB (readParsedLine utf8 parse) := by
  unfold readParsedLine
  refine irrelB_bind ?_ fun ⟨n, l⟩ => ?_
  · cases utf8
    · exact readLineInto_irrelB []
    · exact readLineUtf8Into_irrelB []
  · refine irrelB_ite (irrelB_pure _) ?_
    cases parse l with
    | error e => exact irrelB_fail _
    | ok r => exact irrelB_pure _

theorem parsedLines_irrelB {ρ : Type} {rd : RdB (Option (Nat × ρ))} (h : IrrelB rd) (fuel : Nat)
    (acc : List (Nat × ρ)) : IrrelB (parsedLines rd fuel acc) := by
  induction fuel generalizing acc with
  | zero => exact irrelB_pure _
  | succ fuel ih =>
    refine irrelB_bind (irrelB_attempt h) fun r => ?_
    cases r with
    | error e => exact irrelB_pure _
    | ok r =>
      cases r with
      | none => exact irrelB_pure _
      | some x => exact ih (x :: acc)

theorem parsedLinesAll_irrelB {ρ : Type} (utf8 : Bool) (parse : Bytes → Except Err ρ) :
    IrrelB (parsedLinesAll utf8 parse) := by
  intro b₁ b₂ h1 h2 hs
  unfold parsedLinesAll
  rw [hs]
  exact parsedLines_irrelB (readParsedLine_irrelB utf8 parse) _ [] b₁ b₂ h1 h2 hs

theorem gffReadLine_irrelB (fuel : Nat) : IrrelB (gffReadLine fuel) := by
  induction fuel with
  | zero => exact irrelB_fail _
  | succ fuel ih =>
    exact irrelB_bind (readLineInto_irrelB []) fun ⟨n, l⟩ => irrelB_ite (irrelB_pure _) ih

theorem gffLine_irrelB : IrrelB gffLine := by
  intro b₁ b₂ h1 h2 hs
  unfold gffLine
  rw [hs]
  obtain ⟨a1, a2, a3, a4⟩ := gffReadLine_irrelB (b₂.stream.length + 1) b₁ b₂ h1 h2 hs
  rcases e1 : gffReadLine (b₂.stream.length + 1) b₁ with ⟨r1, t1⟩
  rcases e2 : gffReadLine (b₂.stream.length + 1) b₂ with ⟨r2, t2⟩
  simp only [e1, e2] at a1 a2 a3 a4
  subst a1
  cases r1 with
  | error e => exact ⟨rfl, a2, a3, a4⟩
  | ok x => obtain ⟨n, l⟩ := x; exact ⟨rfl, a2, a3, a4⟩

theorem gffLinesAll_irrelB : IrrelB gffLinesAll := by
  intro b₁ b₂ h1 h2 hs
  unfold gffLinesAll
  rw [hs]
  exact parsedLines_irrelB gffLine_irrelB _ [] b₁ b₂ h1 h2 hs

end Noodles.IO
