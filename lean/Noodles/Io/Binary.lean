import Noodles.Io.Prog
import Noodles.Index.Csi
/-!
# The binary readers of noodles as `Prog`s (model for C12, part 2)

Transcribed, call by call:

* BAM records in their current form — noodles-bam `io/reader/record.rs` (`read_record`:
  `read_block_size`, `read_exact_to_vec`, `validate`); `Noodles.Io.Loops.bamReadRecord` is the same
  reader as it was when the body was read with `read_exact` into a resized buffer.
* BCF records — noodles-bcf `io/reader/record.rs` (`read_record`, `read_site_length`,
  `read_exact_or_eof`, `read_samples_length`, `read_exact_to_vec` for the two blocks); `Fields::index`
  (run on the site block between the two block reads) is a parameter.
* CRAM — noodles-cram `io/reader/header.rs` (`read_file_definition_inner`: magic, format version,
  file id), `io/reader/container/header.rs` (`read_header_inner` through a `flate2::CrcReader`,
  `read_landmarks`, `is_eof`), `io/reader/container.rs` (`read_container`), `io/reader/num/itf8.rs`,
  `num/ltf8.rs`, `num.rs`; `container/reference_sequence_context.rs` (`TryFrom<(i32, i32, i32)>`).
  CRC-32 is a parameter.
* BAI — noodles-bam `bai/io/reader/index.rs` and below; tabix — noodles-tabix `io/reader/index.rs` and
  below; CSI — noodles-csi `io/reader/index.rs` and below (shared `read_chunks`, `read_metadata`,
  `read_header`, `read_reference_sequence_names`); gzi — noodles-bgzf `gzi/io/reader/index.rs`.
  The readers build the index structures of `Noodles.Index` (the model of C17).

Allocation is not modelled (the readers preallocate at most 4096 entries for a count read from the
input, and `read_exact_to_vec` lets the vector grow as data arrives).
-/
namespace Noodles.IO
namespace Prog
open Noodles.Index (Chunk Meta Bins RefLin Bai Tabix Header Format RefCsi CsiIndex Gzi)

/-- `while reader.read_record(&mut record)? != 0` (also `read_container`): the items read, then how
the stream ended. `rd` answers `none` for `Ok(0)`. The fuel bounds the number of items; with more fuel
than there are bytes it is never the reason the loop stops (`Prog.records_fuel_irrelevant`). -/
def records {β : Type} (rd : Prog (Option β)) : Nat → List β → Prog (List β × Option Err)
  | 0, acc => ret (acc.reverse, some .fuel)
  | fuel+1, acc =>
    bind (attempt rd) fun
      | .error e => ret (acc.reverse, some e)
      | .ok none => ret (acc.reverse, none)
      | .ok (some r) => records rd fuel (r :: acc)

/-! ## BAM records (the reader as it is now: the body through `read_exact_to_vec`) -/

/-- noodles-bam `read_record`: `read_block_size` (`read_exact_or_eof` of 4 bytes; 0 — also what a
clean end of stream leaves in the zeroed buffer — is end of stream), `read_exact_to_vec(block_size)`,
`validate` (`UnexpectedEof`). `none` = `Ok(0)`. -/
def bamReadRecordV : Prog (Option Bytes) :=
  exactOrEof 4 fun
    | .error e => fail e
    | .ok hdr =>
      let n := leNat (zeroPad 4 hdr)
      if n = 0 then ret none
      else do
        let body ← readExactToVec n
        if bamValidate body then return some body else fail .eof

/-- `while reader.read_record(&mut record)? != 0` -/
def bamRecordsV : Nat → List Bytes → Prog (List Bytes × Option Err) := records bamReadRecordV

/-! ## BCF records -/

/-- noodles-bcf `read_record`: `l_shared` by `read_exact_or_eof` (a clean end of stream leaves the
buffer zeroed; 0 = end of stream), `l_indiv` by `read_exact`, `read_exact_to_vec` of the site block,
`Fields::index` on it (`none` = accepted), `read_exact_to_vec` of the samples block. `none` = `Ok(0)`. -/
def bcfReadRecord (index : Bytes → Option Err) : Prog (Option (Bytes × Bytes)) :=
  exactOrEof 4 fun
    | .error e => fail e
    | .ok hdr =>
      let lShared := leNat (zeroPad 4 hdr)
      if lShared = 0 then ret none
      else do
        let lIndiv ← u32le
        let site ← readExactToVec lShared
        match index site with
        | some e => fail e
        | none =>
          let samples ← readExactToVec lIndiv
          return some (site, samples)

/-- `while reader.read_record(&mut record)? != 0`: the records read, then how the stream ended -/
def bcfRecords (index : Bytes → Option Err) :
    Nat → List (Bytes × Bytes) → Prog (List (Bytes × Bytes) × Option Err) := records (bcfReadRecord index)

/-! ## CRAM -/

/-- `read_itf8` (`read_u8`, then `read_u8` / `read_u16_be` / `read_u24_be` / `read_u32_be`): the
value as a `u32` bit pattern, and the bytes that went through the reader -/
def itf8 : Prog (Nat × Bytes) := do
  let h ← readExact 1
  let b0 := leNat h
  if b0 &&& 0x80 = 0 then
    return (b0, h)
  else if b0 &&& 0x40 = 0 then
    let r ← readExact 1
    return (((b0 &&& 0x7f) <<< 8) ||| beNat r, h ++ r)
  else if b0 &&& 0x20 = 0 then
    let r ← readExact 2
    return (((b0 &&& 0x3f) <<< 16) ||| beNat r, h ++ r)
  else if b0 &&& 0x10 = 0 then
    let r ← readExact 3
    return (((b0 &&& 0x1f) <<< 24) ||| beNat r, h ++ r)
  else
    let r ← readExact 4
    let v := beNat r
    return ((((b0 &&& 0x0f) <<< 28) ||| ((v &&& 0xffffff0f) >>> 4)) ||| (v &&& 0x0f), h ++ r)

/-- `read_ltf8`: the value as a `u64` bit pattern, and the bytes read -/
def ltf8 : Prog (Nat × Bytes) := do
  let h ← readExact 1
  let b0 := leNat h
  if b0 &&& 0x80 = 0 then
    return (b0, h)
  else if b0 &&& 0x40 = 0 then
    let r ← readExact 1
    return (((b0 &&& 0x7f) <<< 8) ||| beNat r, h ++ r)
  else if b0 &&& 0x20 = 0 then
    let r ← readExact 2
    return (((b0 &&& 0x3f) <<< 16) ||| beNat r, h ++ r)
  else if b0 &&& 0x10 = 0 then
    let r ← readExact 3
    return (((b0 &&& 0x1f) <<< 24) ||| beNat r, h ++ r)
  else if b0 &&& 0x08 = 0 then
    let r ← readExact 4
    return (((b0 &&& 0x0f) <<< 32) ||| beNat r, h ++ r)
  else if b0 &&& 0x04 = 0 then
    let r ← readExact 5
    return (((b0 &&& 0x07) <<< 40) ||| beNat r, h ++ r)
  else if b0 &&& 0x02 = 0 then
    let r ← readExact 6
    return (((b0 &&& 0x03) <<< 48) ||| beNat r, h ++ r)
  else if b0 &&& 0x01 = 0 then
    let r ← readExact 7
    return (beNat r, h ++ r)
  else
    let r ← readExact 8
    return (beNat r, h ++ r)

/-- `read_itf8_as::<usize>` / `read_ltf8_as::<u64>`: a negative value is `InvalidData` -/
def asUnsigned (bits : Nat) (p : Prog (Nat × Bytes)) : Prog (Nat × Bytes) :=
  bind p fun (v, raw) => if v < 2 ^ (bits - 1) then ret (v, raw) else fail .invalidData

/-- `read_landmarks`: a count, then that many `read_itf8_as::<usize>` -/
def landmarksLoop : Nat → List Nat → Bytes → Prog (List Nat × Bytes)
  | 0, acc, raw => ret (acc.reverse, raw)
  | n+1, acc, raw => bind (asUnsigned 32 itf8) fun (v, r) => landmarksLoop n (v :: acc) (raw ++ r)

/-- `ReferenceSequenceContext` -/
inductive RefCtx | none | many | some (id start stop : Nat)
  deriving Repr, DecidableEq

/-- `ReferenceSequenceContext::try_from((id, start, span))`: −1 and −2 as they are; otherwise
`id ≥ 0`, `start ≥ 1` (`Position`), `span ≥ 1` (`NonZero`), end = start + span − 1 -/
def refCtx (id start span : Int) : Option RefCtx :=
  if id = -1 then some .none
  else if id = -2 then some .many
  else if 0 ≤ id ∧ 1 ≤ start ∧ 1 ≤ span then some (.some id.toNat start.toNat (start.toNat + (span.toNat - 1)))
  else none

structure CramHeader where
  ctx : RefCtx
  records : Nat
  counter : Nat
  bases : Nat
  blocks : Nat
  landmarks : List Nat
  deriving Repr, DecidableEq

/-- `is_eof` -/
def cramIsEof (len : Nat) (refId start : Int) (blocks crc : Nat) : Bool :=
  len == 15 && refId == -1 && start == 4542278 && blocks == 1 && crc == 0x4fd9bd05

/-- container `read_header_inner`: every field is read through a `CrcReader` (`crc` is applied to all
the bytes that went through it), then the stored CRC-32 from the raw reader; a mismatch is
`InvalidData`. Returns the container length — 0 for the EOF container — and the header. -/
def cramReadHeader (crc : Bytes → Nat) : Prog (Nat × CramHeader) := do
  let lenB ← readExact 4
  let len := leNat lenB
  if ¬ len < 2 ^ 31 then fail .invalidData else      -- `usize::try_from(i32)`
  let (id, r1) ← itf8
  let (st, r2) ← itf8
  let (sp, r3) ← itf8
  match refCtx (toSigned 32 id) (toSigned 32 st) (toSigned 32 sp) with
  | none => fail .invalidData
  | some ctx =>
    let (records, r4) ← asUnsigned 32 itf8
    let (counter, r5) ← asUnsigned 64 ltf8
    let (bases, r6) ← asUnsigned 64 ltf8
    let (blocks, r7) ← asUnsigned 32 itf8
    let (nLandmarks, r8) ← asUnsigned 32 itf8
    let (landmarks, r9) ← landmarksLoop nLandmarks [] []
    let actual := crc (lenB ++ r1 ++ r2 ++ r3 ++ r4 ++ r5 ++ r6 ++ r7 ++ r8 ++ r9)
    let expected ← u32le
    if actual ≠ expected then fail .invalidData
    else if cramIsEof len (toSigned 32 id) (toSigned 32 st) blocks actual then
      return (0, ⟨ctx, records, counter, bases, blocks, landmarks⟩)
    else return (len, ⟨ctx, records, counter, bases, blocks, landmarks⟩)

/-- `read_container`: `read_header`; 0 (the EOF container, or a length field of 0) is `Ok(0)` and
nothing more is read; otherwise `reader.take(len).read_to_end(&mut container.src)`, and
`UnexpectedEof` if fewer than `len` bytes arrived. `none` = `Ok(0)`. -/
def cramReadContainer (crc : Bytes → Nat) : Prog (Option (CramHeader × Bytes)) := do
  let (len, h) ← cramReadHeader crc
  if len = 0 then return none
  else
    upTo len fun src => if src.length < len then fail .eof else ret (some (h, src))

def CRAM_MAGIC : Bytes := [0x43, 0x52, 0x41, 0x4d]

/-- `read_file_definition_inner`: magic number (validated), format version, file id -/
def cramFileDefinition : Prog (Bytes × Bytes) := do
  let m ← readExact 4
  if m ≠ CRAM_MAGIC then fail .invalidData else
  let version ← readExact 2
  let fileId ← readExact 20
  return (version, fileId)

/-- `while reader.read_container(&mut container)? != 0` -/
def cramContainers (crc : Bytes → Nat) :
    Nat → List (CramHeader × Bytes) → Prog (List (CramHeader × Bytes) × Option Err) :=
  records (cramReadContainer crc)

/-- `read_file_definition`, then the container loop -/
def cramFile (crc : Bytes → Nat) (fuel : Nat) :
    Prog ((Bytes × Bytes) × List (CramHeader × Bytes) × Option Err) := do
  let d ← cramFileDefinition
  let r ← cramContainers crc fuel []
  return (d, r)

/-! ## binning indices: shared pieces -/

/-- `read_magic_number` / `read_magic`: `read_exact`, then compare -/
def magic (m : Bytes) : Prog Unit :=
  bind (readExact m.length) fun bs => if bs = m then ret () else fail .invalidData

/-- noodles-csi `read_chunk` -/
def chunk : Prog Chunk := do
  let s ← u64le
  let e ← u64le
  return ⟨s, e⟩

/-- noodles-csi `read_chunks`: `n_chunk` (`i32`, non-negative), then the chunks -/
def chunks : Prog (List Chunk) := do
  let n ← i32leNonneg
  many chunk n

/-- noodles-csi `read_metadata`: `n_chunk` must be 2 -/
def metadata : Prog Meta := do
  let n ← u32le
  if n ≠ 2 then fail .invalidData else
  let a ← u64le
  let b ← u64le
  let c ← u64le
  let d ← u64le
  return ⟨a, b, c, d⟩

/-- `read_unplaced_unmapped_record_count`: a `u64`, or nothing when the stream ends
(`UnexpectedEof` — also of a partial value — is `None`) -/
def unplaced : Prog (Option Nat) :=
  exact 8 fun
    | .ok bs => ret (some (leNat bs))
    | .error .eof => ret none
    | .error e => fail e

/-- a count field: `read_i32_le` + `usize::try_from` (tabix, CSI) or `read_u32_le` (BAI) -/
def count (signed : Bool) : Prog Nat := if signed then i32leNonneg else u32le

/-- `read_bins` of BAI and tabix: per bin a `u32` id, then the metadata (id 37450) or a chunk list;
errors of `read_metadata` / `read_chunks` are re-wrapped as `InvalidData`; a second metadata bin or a
repeated id is `InvalidData`, found AFTER the bin was read -/
def binsLinear (metaId : Nat) : Nat → Bins → Option Meta → Prog (Bins × Option Meta)
  | 0, bins, md => ret (bins, md)
  | n+1, bins, md => do
    let id ← u32le
    if id = metaId then
      let m ← mapErrInvalid metadata
      if md.isSome then fail .invalidData else binsLinear metaId n bins (some m)
    else
      let cs ← mapErrInvalid chunks
      if bins.any (fun b => b.1 = id) then fail .invalidData
      else binsLinear metaId n (bins ++ [(id, cs)]) md

/-- `read_intervals` -/
def intervals (signed : Bool) : Prog (List Nat) := do
  let n ← count signed
  many u64le n

/-- one reference sequence of BAI / tabix: `read_bins`, `read_intervals` -/
def refLinear (signed : Bool) : Prog RefLin := do
  let n ← count signed
  let (bins, md) ← binsLinear Noodles.Index.metaIdLinear n [] none
  let lin ← intervals signed
  return ⟨bins, md, lin⟩

/-- noodles-bam `bai::io::Reader::read_index` -/
def baiReadIndex : Prog Bai := do
  magic Noodles.Index.baiMagic
  let nRef ← u32le
  let refs ← many (refLinear false) nRef
  let u ← unplaced
  return ⟨refs, u⟩

/-! ## tabix header (also the `aux` block of CSI) -/

/-- a 1-based column index: `read_i32_le`, `usize::try_from`, `NonZero::try_from`, minus one -/
def column : Prog Nat :=
  bind u32le fun v => if v < 2 ^ 31 ∧ v ≠ 0 then ret (v - 1) else fail .invalidData

/-- `read_end_position_index` -/
def columnEnd (f : Format) (colBeg : Nat) : Prog (Option Nat) :=
  if f.specialized then
    bind u32le fun v => if v = 0 then ret none else fail .invalidData
  else
    bind column fun i => if i = colBeg then ret none else ret (some i)

/-- `read_reference_sequence_names`: `l_nm` (`i32`, non-negative), then
`BufReader::new(reader.take(l_nm))` is read to its end with `read_until(NUL)`: the next `l_nm` bytes
— fewer if the stream is shorter — split at NUL; a last name without NUL or a repeated name is an
error.  After the names (/repo `fix:` 125ecd7) a `Take` that still has `limit() > 0` — the stream ended
before `l_nm` bytes — is `UnexpectedEof`: a names block cut short by the end of the input is rejected
even when what is there ends with a NUL.  (Before 125ecd7 the names that were there were accepted.) -/
def names : Prog (List Bytes) := do
  let l ← i32leNonneg
  upTo l fun bs =>
    match Noodles.Index.namesGo bs [] [] with
    | .error _ => fail .invalidData
    | .ok ns => if bs.length < l then fail .eof else ret ns

/-- noodles-csi `read_header` -/
def tabixHeader : Prog Header := do
  let fv ← u32le
  match Noodles.Index.decFormat fv with
  | none => fail .invalidData
  | some f =>
    let cs ← column
    let cb ← column
    let ce ← columnEnd f cb
    let m ← u32le
    if ¬ m < 256 then fail .invalidData else      -- `u8::try_from(i32)`
    let sk ← i32leNonneg
    let ns ← names
    return ⟨f, cs, cb, ce, m, sk, ns⟩

/-- noodles-tabix `read_index`: `n_ref` comes before the header; header errors are re-wrapped -/
def tabixReadIndex : Prog Tabix := do
  magic Noodles.Index.tbiMagic
  let nRef ← i32leNonneg
  let h ← mapErrInvalid tabixHeader
  let refs ← many (refLinear true) nRef
  let u ← unplaced
  return ⟨some h, refs, u⟩

/-! ## CSI -/

/-- a reader run over `reader.take(l)` (std `Take`): a `read_exact` of more than the `l` bytes still
allowed reads what is allowed (less if the source ends) and fails with `UnexpectedEof` -/
def limit : Nat → Prog β → Prog β
  | _, ret b => ret b
  | _, fail e => fail e
  | l, exact n k =>
    if n ≤ l then exact n fun r => limit (l - n) (k r)
    else upTo l fun _ => limit 0 (k (.error .eof))
  | l, exactOrEof n k =>
    if n ≤ l then exactOrEof n fun r => limit (l - n) (k r)
    else upTo l fun bs => limit 0 (k (if bs.length = 0 then .ok [] else .error .eof))
  | l, upTo n k => upTo (min n l) fun bs => limit (l - bs.length) (k bs)

/-- a reader run over `reader.take(l)` as `Prog.limit`, returning also the limit that is left -/
def limitRem : Nat → Prog β → Prog (β × Nat)
  | l, ret b => ret (b, l)
  | _, fail e => fail e
  | l, exact n k =>
    if n ≤ l then exact n fun r => limitRem (l - n) (k r)
    else upTo l fun _ => limitRem 0 (k (.error .eof))
  | l, exactOrEof n k =>
    if n ≤ l then exactOrEof n fun r => limitRem (l - n) (k r)
    else upTo l fun bs => limitRem 0 (k (if bs.length = 0 then .ok [] else .error .eof))
  | l, upTo n k => upTo (min n l) fun bs => limitRem (l - bs.length) (k bs)

/-- `read_aux`: `l_aux` (`i32`, non-negative); when positive the header is read from
`reader.take(l_aux)` and then (/repo `fix:` 8288cb5) `io::copy(&mut aux_reader, &mut io::sink())?`
reads and drops what the header reader left of the `Take`: all `l_aux` bytes are consumed (fewer only
if the stream ends, which is not an error here).  (Before 8288cb5 the rest was left in the stream and
`n_ref` was read from it.) -/
def csiAux : Prog (Option Header) := do
  let l ← i32leNonneg
  if l = 0 then return none
  else
    let (h, rem) ← limitRem l tabixHeader
    upTo rem fun _ => ret (some h)

/-- `read_bins` (CSI): per bin a `u32` id and a `u64` loffset, then the metadata payload or the chunks -/
def binsCsi (metaId : Nat) :
    Nat → Bins → Noodles.Csi.Binned → Option Meta → Prog RefCsi
  | 0, bins, index, md => ret ⟨bins, index, md⟩
  | n+1, bins, index, md => do
    let id ← u32le
    let loffset ← u64le
    if id = metaId then
      let m ← metadata
      if md.isSome then fail .invalidData else binsCsi metaId n bins index (some m)
    else
      let cs ← chunks
      if bins.any (fun b => b.1 = id) then fail .invalidData
      else binsCsi metaId n (bins ++ [(id, cs)]) (index ++ [(id, loffset)]) md

def refCsi (depth : Nat) : Prog RefCsi := do
  let n ← i32leNonneg
  binsCsi (Noodles.Index.metaIdCsi depth) n [] [] none

/-- `u8::try_from(read_i32_le)` (`min_shift`, `depth`) -/
def i32AsU8 : Prog Nat := bind u32le fun v => if v < 256 then ret v else fail .invalidData

/-- noodles-csi `read_index` under `csi::io::Reader::read_index`, which reports every error as
`InvalidData` -/
def csiReadIndex : Prog CsiIndex :=
  mapErrInvalid do
    magic Noodles.Index.csiMagic
    let ms ← i32AsU8
    let d ← i32AsU8
    if ¬ Noodles.Index.validGeometry ms d then fail .invalidData else
    let h ← csiAux
    let nRef ← i32leNonneg
    let refs ← many (refCsi d) nRef
    let u ← unplaced
    return ⟨ms, d, h, refs, u⟩

/-! ## gzi -/

/-- noodles-bgzf `gzi::io::Reader::read_index`: a `u64` count, that many `(u64, u64)` pairs, then the
stream must be at its end (`read_u8` must fail with `UnexpectedEof`) -/
def gziReadIndex : Prog Gzi := do
  let n ← u64le
  let ix ← many (do let a ← u64le; let b ← u64le; return (a, b)) n
  exact 1 fun
    | .ok _ => fail .invalidData
    | .error .eof => ret ix
    | .error e => fail e

end Prog
end Noodles.IO
