import Noodles.Io.AsyncLoops
import Noodles.Io.Binary
import Noodles.Io.Lines
import Noodles.Io.MoreProof
/-!
# More format-level async readers and writers as `poll` machines (model for C16, second extension)

On top of `Noodles.Io.AsyncLoops` (the lawful `ARead`, `drive` / `await`, tokio `ReadExact`,
`ReadToEnd`, `Take`, `BufReader`, the `fill_buf` / `consume` loop future `scanPoll`, `readLineA`) this
file transcribes the async modules that were differential-oracle-only:

* **`Prog.runA`** — an async interpreter of `Noodles.IO.Prog` (the type of readers that touch their
  source only through `read_exact`, `read_exact_or_eof` and `take(n).read_to_end`): `exact n` is tokio
  `ReadExact` / `ReadU8`‥`ReadU64` (`readExactA`), `exactOrEof n` is the async `read_exact_or_eof` of
  noodles-bam / noodles-bcf (`readExactOrEofA`), `upTo n` is `(&mut reader).take(n).read_to_end(buf)`
  (`readUpToA`: tokio `ReadToEnd` over `Take`).  Readers written as `Prog`s: the async BCF record reader
  (noodles-bcf `async/io/reader/record.rs` — call for call the sync one, `Prog.bcfReadRecord`), and the
  async BAI / tabix / CSI index readers (`baiReadIndexA`, `tabixReadIndexA`, `csiReadIndexA` below,
  transcribed from `noodles-bam/src/bai/async/io/reader/index*`, `noodles-tabix/src/async/io/reader/index*`,
  `noodles-csi/src/async/io/reader/index*`), which DIFFER from their sync twins (`Prog.baiReadIndex`,
  `tabixReadIndex`, `csiReadIndex` of `Noodles.Io.Binary`): unsigned counts in BAI, the tabix header and
  the CSI `aux` block are first read into a buffer and then parsed from the slice with the SYNC header
  reader, `validate_geometry` after the `aux` block, errors keep their kinds.
* tokio `ReadU8` over `BufReader::poll_read` (`readU8A`), and the text readers over a tokio `BufReader`:
  the "one line, then parse it" readers (`readParsedLineA`: noodles-fasta `read_definition`, fai
  `read_record`, noodles-sam / noodles-vcf `read_record_buf`), the async FASTA `read_sequence`
  (`seqStepA`), the async FASTQ `read_record` (`fastqReadRecordA` — NOT the sync scanner: one
  `read_line` for the whole definition line, split afterwards), the async lazy SAM / VCF `read_record`
  (one `read_until` / `read_line`, then the SYNC record reader on the line as a slice).
* tokio `WriteAll` over an abstract `AsyncWrite` (`AWrite`, `writeAllA`) and the `write_all` call
  sequences of the async FASTA / FASTQ writers; the async SAM / VCF / BCF writers serialize a record
  with the sync serializer into a `Vec` and `write_all` it (`bufferedWriteA`).

`fixed` flags: `fixed = true` is the behaviour after the `fix:` diffs delivered with this extension
(what the property theorems are about and what the driver runs); `fixed = false` is the code at the
pinned commit, kept so that the counterexamples can be stated and checked by `decide`.
-/
namespace Noodles.IO.Async
open Noodles.IO
open Noodles.Bgzf.Async (Poll1 Poll)

variable {σ α : Type}

/-! ## `take(n).read_to_end(buf)` without the length check; the `Prog` interpreter -/

/-- `(&mut *reader).take(n).read_to_end(&mut buf).await` into an empty `Vec`: the bytes appended.
The `Take` is dropped afterwards: reading goes on with the reader inside it. -/
def readUpToA (A : ARead σ α) (ask : Nat × σ → Nat) (s : σ) (n : Nat) : Except Err (List α) × σ :=
  let r := await (pollReadToEnd (takeRead A) ask (((takeRead A).rest (n, s)).length + 2))
    (A.credit s + 1) ([], (n, s))
  (r.1, r.2.2.2)

/-- a `Prog` run on an async source: every node is the awaited tokio / noodles future.  A starved
future (`Err.fuel`, excluded by `runA_spec`) is handed to the continuation like any error. -/
def _root_.Noodles.IO.Prog.runA {β : Type} (A : ARead σ UInt8) (ask : Nat × σ → Nat) :
    Prog β → σ → Except Err β × σ
  | .ret b, s => (.ok b, s)
  | .fail e, s => (.error e, s)
  | .exact n k, s => Prog.runA A ask (k (readExactA A s n).1) (readExactA A s n).2
  | .exactOrEof n k, s => Prog.runA A ask (k (readExactOrEofA A s n).1) (readExactOrEofA A s n).2
  | .upTo n k, s =>
    match readUpToA A ask s n with
    | (.ok bs, s') => Prog.runA A ask (k bs) s'
    | (.error e, s') => (.error e, s')

end Noodles.IO.Async

/-! ## the async index readers -/
namespace Noodles.IO.Prog
open Noodles.Index (Chunk Meta Bins RefLin Bai Tabix Header Format RefCsi CsiIndex)

/-- a count read with `read_u32_le().await.and_then(usize::try_from)` (BAI) — every `u32` fits — or
`read_i32_le().await.and_then(usize::try_from)` (tabix, CSI) -/
def countA (signed : Bool) : Prog Nat := if signed then i32leNonneg else u32le

/-- async `read_chunks` (all three crates have their own copy): the count, then that many
`read_u64_le` pairs.  `signed = false` is BAI (`read_u32_le`; the sync BAI reader calls noodles-csi's
`read_chunks`, which reads an `i32`). -/
def chunksA (signed : Bool) : Prog (List Chunk) := do
  let n ← countA signed
  many chunk n

/-- async `read_metadata` (BAI, tabix: `n_chunk` as `usize`; CSI: as `u32`): must be 2, then four `u64` -/
def metadataA : Prog Meta := metadata

/-- async `read_bins` of BAI and tabix: as the sync one, but the errors of `read_metadata` /
`read_chunks` keep their kinds (no `map_err`) -/
def binsLinearA (signed : Bool) (metaId : Nat) : Nat → Bins → Option Meta → Prog (Bins × Option Meta)
  | 0, bins, md => ret (bins, md)
  | n+1, bins, md => do
    let id ← u32le
    if id = metaId then
      let m ← metadataA
      if md.isSome then fail .invalidData else binsLinearA signed metaId n bins (some m)
    else
      let cs ← chunksA signed
      if bins.any (fun b => b.1 = id) then fail .invalidData
      else binsLinearA signed metaId n (bins ++ [(id, cs)]) md

/-- async `read_intervals` -/
def intervalsA (signed : Bool) : Prog (List Nat) := do
  let n ← countA signed
  many u64le n

/-- async `read_reference_sequence` of BAI / tabix -/
def refLinearA (signed : Bool) : Prog RefLin := do
  let n ← countA signed
  let (bins, md) ← binsLinearA signed Noodles.Index.metaIdLinear n [] none
  let lin ← intervalsA signed
  return ⟨bins, md, lin⟩

/-- noodles-bam `bai::r#async::io::Reader::read_index` -/
def baiReadIndexA : Prog Bai := do
  magic Noodles.Index.baiMagic
  let nRef ← u32le
  let refs ← many (refLinearA false) nRef
  let u ← unplaced
  return ⟨refs, u⟩

/-- the sync `read_header` of noodles-csi run on a byte slice (`&[u8]` as `Read`: every `read` hands
out what is asked for, so a run is `runPure`), with `.map_err(|e| io::Error::new(InvalidData, e))` -/
def headerFromSlice (hdr : Prog Header) (buf : Bytes) : Prog Header :=
  match (runPure hdr buf).1 with
  | .ok h => ret h
  | .error _ => fail .invalidData

/-- noodles-tabix `async/io/reader/index/header.rs::read_header`: the six static `i32` fields
(`read_exact` of 24 bytes), `l_nm` (`read_i32_le`, then `usize::try_from`), the names through
`take(l_nm).read_to_end` — `UnexpectedEof` when fewer than `l_nm` bytes arrive — and then the SYNC
header reader `hdr` on the 28 + `l_nm` bytes gathered. -/
def tabixHeaderA (hdr : Prog Header) : Prog Header := do
  let fixedPart ← readExact 24
  let lnmB ← readExact 4
  let lnm := leNat lnmB
  if ¬ lnm < 2 ^ 31 then fail .invalidData else
  upTo lnm fun names =>
    if names.length < lnm then fail .eof
    else headerFromSlice hdr (fixedPart ++ lnmB ++ names)

/-- noodles-tabix `r#async::io::Reader::read_index` (over the async BGZF reader) -/
def tabixReadIndexA (hdr : Prog Header) : Prog Tabix := do
  magic Noodles.Index.tbiMagic
  let nRef ← i32leNonneg
  let h ← tabixHeaderA hdr
  let refs ← many (refLinearA true) nRef
  let u ← unplaced
  return ⟨some h, refs, u⟩

/-- noodles-csi `async/io/reader/index/header.rs::read_aux`: `l_aux`; when positive, `l_aux` bytes
through `take(l_aux).read_to_end` (`UnexpectedEof` when fewer arrive) and the SYNC header reader on
them.  ALL `l_aux` bytes are consumed, whatever the header reader needs of them. -/
def csiAuxA (hdr : Prog Header) : Prog (Option Header) := do
  let l ← i32leNonneg
  if l = 0 then return none
  else
    upTo l fun aux =>
      if aux.length < l then fail .eof
      else bind (headerFromSlice hdr aux) fun h => ret (some h)

/-- async `read_bins` (CSI) -/
def binsCsiA (metaId : Nat) : Nat → Bins → Noodles.Csi.Binned → Option Meta → Prog RefCsi
  | 0, bins, index, md => ret ⟨bins, index, md⟩
  | n+1, bins, index, md => do
    let id ← u32le
    let loffset ← u64le
    if id = metaId then
      let m ← metadataA
      if md.isSome then fail .invalidData else binsCsiA metaId n bins index (some m)
    else
      let cs ← chunksA true
      if bins.any (fun b => b.1 = id) then fail .invalidData
      else binsCsiA metaId n (bins ++ [(id, cs)]) (index ++ [(id, loffset)]) md

def refCsiA (depth : Nat) : Prog RefCsi := do
  let n ← i32leNonneg
  binsCsiA (Noodles.Index.metaIdCsi depth) n [] [] none

/-- noodles-csi `r#async::io::Reader::read_index`: magic, `min_shift`, `depth`, the `aux` block, THEN
`validate_geometry`, the reference sequences, `n_no_coor`.  Errors keep their kinds. -/
def csiReadIndexA (hdr : Prog Header) : Prog CsiIndex := do
  magic Noodles.Index.csiMagic
  let ms ← i32AsU8
  let d ← i32AsU8
  let h ← csiAuxA hdr
  if ¬ Noodles.Index.validGeometry ms d then fail .invalidData else
  let nRef ← i32leNonneg
  let refs ← many (refCsiA d) nRef
  let u ← unplaced
  return ⟨ms, d, h, refs, u⟩

/-! ### the sync readers before and after the two `fix:` commits of this extension

`fixed = true` is the code as it is since /repo `fix:` 125ecd7 and 8288cb5, and is what
`Noodles.Io.Binary` transcribes (`namesF true = names`, `csiAuxF true = csiAux`:
`AsyncMoreProgProof.lean`); `fixed = false` is the code before the two commits:
* `read_reference_sequence_names` fails with `UnexpectedEof` when the stream ends before `l_nm` bytes
  (125ecd7, `fixes/csi-names-truncated.diff`) — before, a names block cut short by the end of the file was
  accepted if it happened to end with a NUL;
* `read_aux` skips what the header reader leaves of the `l_aux` bytes (8288cb5,
  `fixes/csi-aux-drain.diff`) — before, `n_ref` was read from the unread rest of the `aux` block.
`limitRem` (a reader run over `reader.take(l)`, returning also the limit that is left) is in
`Noodles.Io.Binary`. -/

/-- sync `read_reference_sequence_names`; `fixed`: after `read_names`, a `Take` that still has a
limit left (the stream ended before `l_nm` bytes) is `UnexpectedEof` -/
def namesF (fixed : Bool) : Prog (List Bytes) := do
  let l ← i32leNonneg
  upTo l fun bs =>
    match Noodles.Index.namesGo bs [] [] with
    | .error _ => fail .invalidData
    | .ok ns => if fixed && bs.length < l then fail .eof else ret ns

/-- sync noodles-csi `read_header` -/
def tabixHeaderF (fixed : Bool) : Prog Header := do
  let fv ← u32le
  match Noodles.Index.decFormat fv with
  | none => fail .invalidData
  | some f =>
    let cs ← column
    let cb ← column
    let ce ← columnEnd f cb
    let m ← u32le
    if ¬ m < 256 then fail .invalidData else
    let sk ← i32leNonneg
    let ns ← namesF fixed
    return ⟨f, cs, cb, ce, m, sk, ns⟩

/-- sync noodles-tabix `read_index` -/
def tabixReadIndexF (fixed : Bool) : Prog Tabix := do
  magic Noodles.Index.tbiMagic
  let nRef ← i32leNonneg
  let h ← mapErrInvalid (tabixHeaderF fixed)
  let refs ← many (refLinear true) nRef
  let u ← unplaced
  return ⟨some h, refs, u⟩

/-- sync `read_aux`; `fixed`: `io::copy(&mut aux_reader, &mut io::sink())?` after the header — the
rest of the `Take`, i.e. of the `l_aux` bytes, is read and dropped -/
def csiAuxF (fixed : Bool) : Prog (Option Header) := do
  let l ← i32leNonneg
  if l = 0 then return none
  else if fixed then
    let (h, rem) ← limitRem l (tabixHeaderF fixed)
    upTo rem fun _ => ret (some h)
  else
    let h ← limit l (tabixHeaderF fixed)
    return some h

/-- sync noodles-csi `read_index` under `csi::io::Reader::read_index` (every error is `InvalidData`) -/
def csiReadIndexF (fixed : Bool) : Prog CsiIndex :=
  mapErrInvalid do
    magic Noodles.Index.csiMagic
    let ms ← i32AsU8
    let d ← i32AsU8
    if ¬ Noodles.Index.validGeometry ms d then fail .invalidData else
    let h ← csiAuxF fixed
    let nRef ← i32leNonneg
    let refs ← many (refCsi d) nRef
    let u ← unplaced
    return ⟨ms, d, h, refs, u⟩

end Noodles.IO.Prog

namespace Noodles.IO.Async
open Noodles.IO
open Noodles.Bgzf.Async (Poll1 Poll)

variable {σ α : Type}

/-! ## tokio `ReadU8` over `BufReader::poll_read` -/

/-- tokio `ReadU8::poll` (`read_int.rs`, `reader8!`): ONE `poll_read` with a 1-byte buffer; nothing
filled is `UnexpectedEof`.  Over a tokio `BufReader` (`buf_reader.rs::poll_read`): with an empty
internal buffer and a request at least as large as the capacity (`cap ≤ 1`) the inner reader is
polled directly and the buffer discarded; otherwise `poll_fill_buf`, copy, `consume`. -/
def pollReadU8 (A : ARead σ α) (cap : Nat) (b : ABuf σ α) : Poll (Except Err α) × ABuf σ α :=
  if b.buf.length = 0 ∧ cap ≤ 1 then
    match A.poll b.inner 1 with
    | (.pending, s') => (.pending, { b with inner := s' })
    | (.ready [], s') => (.ready (.error .eof), ⟨[], s'⟩)
    | (.ready (x :: _), s') => (.ready (.ok x), ⟨[], s'⟩)
  else
    match pollFillBuf A cap b with
    | (.pending, b') => (.pending, b')
    | (.ready [], b') => (.ready (.error .eof), b')
    | (.ready (x :: _), b') => (.ready (.ok x), aconsume 1 b')

/-- `reader.read_u8().await` -/
def readU8A (A : ARead σ α) (cap : Nat) (b : ABuf σ α) : Except Err α × ABuf σ α :=
  await (pollReadU8 A cap) (A.credit b.inner + 1) b

/-! ## one line, then parse it -/

/-- `buf.clear(); match read_line(reader, buf).await? { 0 => Ok(0), n => { parse(buf)?; Ok(n) } }`:
noodles-fasta `async/io/reader/definition.rs::read_definition`, `fai/async/io/reader/record.rs`,
noodles-sam `async/io/reader/record_buf.rs`; with `utf8` noodles-vcf `async/io/reader.rs::read_record_buf`
(`read_line` goes through tokio `AsyncBufReadExt::read_line(&mut String)` = `read_until` + `String::from_utf8`
of what was appended, `InvalidData` after the bytes are consumed).  The sync twin is
`Noodles.IO.readParsedLine`.  `none` = `Ok(0)`. -/
def readParsedLineA {ρ : Type} (utf8 : Bool) (parse : Bytes → Except Err ρ) (A : ARead σ UInt8) (cap : Nat)
    (b : ABuf σ UInt8) : Except Err (Option (Nat × ρ)) × ABuf σ UInt8 :=
  match scanA A cap (untilStep (· == LF)) [] b with
  | (.error e, b') => (.error e, b')
  | (.ok l, b') =>
    if utf8 && !Noodles.Index.validUtf8 l then (.error .invalidData, b')
    else if l.length = 0 then (.ok none, b')
    else match parse (stripEol l) with
      | .error e => (.error e, b')
      | .ok r => (.ok (some (l.length, r)), b')

/-- the caller's loop (`records()`, fai `read_index`): items until `Ok(0)` or the first error -/
def parsedLinesA {ρ : Type} (utf8 : Bool) (parse : Bytes → Except Err ρ) (A : ARead σ UInt8) (cap : Nat) :
    Nat → ABuf σ UInt8 → List (Nat × ρ) → (List (Nat × ρ) × Option Err) × ABuf σ UInt8
  | 0, b, acc => ((acc.reverse, some .fuel), b)
  | fuel+1, b, acc =>
    match readParsedLineA utf8 parse A cap b with
    | (.error e, b') => ((acc.reverse, some e), b')
    | (.ok none, b') => ((acc.reverse, none), b')
    | (.ok (some r), b') => parsedLinesA utf8 parse A cap fuel b' (r :: acc)

def parsedLinesAllA {ρ : Type} (utf8 : Bool) (parse : Bytes → Except Err ρ) (A : ARead σ UInt8) (cap : Nat)
    (b : ABuf σ UInt8) : (List (Nat × ρ) × Option Err) × ABuf σ UInt8 :=
  parsedLinesA utf8 parse A cap ((b.stream A).length + 1) b []

/-! ## the async FASTA `read_sequence` (noodles-fasta `async/io/reader/sequence.rs`) -/

/-- state of the loop: (`buf`, `has_trailing_carriage_return`, `n`) -/
abbrev SeqStA := Bytes × Bool × Nat

/-- what the function returns when the loop breaks.  `fixed`: a CR left at the end of the buffer
because the last chunk ended with it is popped (`fixes/fasta-async-trailing-cr.diff`); the code at the
pinned commit keeps it — the sync reader drops a CR at the very end of the sequence. -/
def seqFinishA (fixed : Bool) (st : SeqStA) : Bytes × Nat :=
  (if fixed && st.2.1 then st.1.dropLast else st.1, st.2.2)

/-- one `fill_buf` window of the loop:
```
if src.first().map(|&b| b == DEFINITION_PREFIX).unwrap_or(true) { break; }
let len = match memchr(LINE_FEED, src) {
    Some(i) => { let line = &src[..i];
                 if line.ends_with(&[CARRIAGE_RETURN]) { buf.extend_from_slice(&line[..line.len() - 1]); }
                 else { if line.is_empty() && has_trailing_carriage_return { buf.pop(); }
                        buf.extend_from_slice(line); }
                 has_trailing_carriage_return = false; i + 1 }
    None => { buf.extend(src); has_trailing_carriage_return = src.ends_with(&[CARRIAGE_RETURN]); src.len() } };
reader.consume(len); n += len;
``` -/
def seqStepA (fixed : Bool) (st : SeqStA) (w : Bytes) : Scan SeqStA (Bytes × Nat) :=
  match w.head? with
  | none => .done (seqFinishA fixed st)
  | some c =>
    if c == GT then .done (seqFinishA fixed st)
    else match findSplit (· == LF) w with
      | some (pre, _, _) =>
        .more (if pre.getLast? == some CR then st.1 ++ pre.dropLast
               else (if pre.length = 0 && st.2.1 then st.1.dropLast else st.1) ++ pre,
               false, st.2.2 + (pre.length + 1)) (pre.length + 1)
      | none => .more (st.1 ++ w, w.getLast? == some CR, st.2.2 + w.length) w.length

/-- async `read_sequence(reader, buf)` with an empty `buf`: (the sequence, bytes consumed).
NOTE the return value: the async function counts the bytes consumed (line terminators included), the
sync `read_sequence` (std `read_to_end` on the sequence reader) counts the bases. -/
def readSequenceA (fixed : Bool) (A : ARead σ UInt8) (cap : Nat) (b : ABuf σ UInt8) :
    Except Err (Bytes × Nat) × ABuf σ UInt8 :=
  scanA A cap (seqStepA fixed) ([], false, 0) b

/-- `read_definition` then `read_sequence` until `read_definition` returns 0 or something fails
(what `fasta::r#async` callers do; there is no async `records()`) -/
def fastaRecordsA (fixed : Bool) (A : ARead σ UInt8) (cap : Nat) :
    Nat → ABuf σ UInt8 → List FastaRec → (List FastaRec × Option Err) × ABuf σ UInt8
  | 0, b, acc => ((acc.reverse, some .fuel), b)
  | fuel+1, b, acc =>
    match readParsedLineA false parseDefinition A cap b with
    | (.error e, b1) => ((acc.reverse, some e), b1)
    | (.ok none, b1) => ((acc.reverse, none), b1)
    | (.ok (some (_, (name, desc))), b1) =>
      match readSequenceA fixed A cap b1 with
      | (.error e, b2) => ((acc.reverse, some e), b2)
      | (.ok (sq, _), b2) => fastaRecordsA fixed A cap fuel b2 (⟨name, desc, sq⟩ :: acc)

def fastaRecordsAllA (fixed : Bool) (A : ARead σ UInt8) (cap : Nat) (b : ABuf σ UInt8) :
    (List FastaRec × Option Err) × ABuf σ UInt8 :=
  fastaRecordsA fixed A cap ((b.stream A).length + 1) b []

/-! ## the async FASTQ `read_record` (noodles-fastq `async/io/reader.rs`)

NOT the sync algorithm: the sync `read_definition` scans the name up to the first space, tab or LF
window by window and reads the description with a second `read_line`; the async `read_name` reads the
WHOLE definition line with one `read_line` and splits it at the first space or tab afterwards; the
`+` line is `read_line` into a scratch `Vec` instead of `consume_line`. -/

/-- async `read_name`: (bytes read — 0 at a clean end of stream —, name, description) -/
def fastqReadNameA (A : ARead σ UInt8) (cap : Nat) (b : ABuf σ UInt8) :
    Except Err (Nat × Bytes × Bytes) × ABuf σ UInt8 :=
  match readU8A A cap b with
  | (.error .eof, b1) => (.ok (0, [], []), b1)
  | (.error e, b1) => (.error e, b1)
  | (.ok c, b1) =>
    if c ≠ AT then (.error .invalidData, b1)
    else match readLineA A cap b1 with
      | (.error e, b2) => (.error e, b2)
      | (.ok (n, l), b2) =>
        match findSplit (fun c => c == SPACE || c == TAB) l with
        | some (pre, _, post) => (.ok (n + 1, pre, post), b2)
        | none => (.ok (n + 1, l, []), b2)

/-- async `read_description`: `read_u8` must be `+` (`UnexpectedEof` at the end of the stream), then
`read_line` into a scratch buffer -/
def fastqReadDescriptionA (A : ARead σ UInt8) (cap : Nat) (b : ABuf σ UInt8) :
    Except Err Nat × ABuf σ UInt8 :=
  match readU8A A cap b with
  | (.error e, b1) => (.error e, b1)
  | (.ok c, b1) =>
    if c ≠ PLUS then (.error .invalidData, b1)
    else match readLineA A cap b1 with
      | (.error e, b2) => (.error e, b2)
      | (.ok (n, _), b2) => (.ok (n + 1), b2)

/-- async `read_record`: `none` = `Ok(0)` -/
def fastqReadRecordA (A : ARead σ UInt8) (cap : Nat) (b : ABuf σ UInt8) :
    Except Err (Option (Nat × FastqRec)) × ABuf σ UInt8 :=
  match fastqReadNameA A cap b with
  | (.error e, b1) => (.error e, b1)
  | (.ok (0, _, _), b1) => (.ok none, b1)
  | (.ok (n, name, desc), b1) =>
    match readLineA A cap b1 with
    | (.error e, b2) => (.error e, b2)
    | (.ok (ns, sq), b2) =>
      match fastqReadDescriptionA A cap b2 with
      | (.error e, b3) => (.error e, b3)
      | (.ok m, b3) =>
        match readLineA A cap b3 with
        | (.error e, b4) => (.error e, b4)
        | (.ok (nq, q), b4) => (.ok (some (n + ns + m + nq, ⟨name, desc, sq, q⟩)), b4)

/-- `records()`: `read_record` until `Ok(0)` or the first error -/
def fastqRecordsA (A : ARead σ UInt8) (cap : Nat) :
    Nat → ABuf σ UInt8 → List (Nat × FastqRec) → (List (Nat × FastqRec) × Option Err) × ABuf σ UInt8
  | 0, b, acc => ((acc.reverse, some .fuel), b)
  | fuel+1, b, acc =>
    match fastqReadRecordA A cap b with
    | (.error e, b') => ((acc.reverse, some e), b')
    | (.ok none, b') => ((acc.reverse, none), b')
    | (.ok (some r), b') => fastqRecordsA A cap fuel b' (r :: acc)

def fastqRecordsAllA (A : ARead σ UInt8) (cap : Nat) (b : ABuf σ UInt8) :
    (List (Nat × FastqRec) × Option Err) × ABuf σ UInt8 :=
  fastqRecordsA A cap ((b.stream A).length + 1) b []

/-! ## the async lazy SAM / VCF `read_record`: one line, then the SYNC record reader on the slice -/

/-- `&[u8]` as `BufRead`: `fill_buf` is the rest of the slice -/
def sliceBuf (l : Bytes) : BufR UInt8 := ⟨l, ⟨[], []⟩, 1⟩

/-- `Ok(0)` of a lazy record reader -/
def lazyOpt (r : LazyRec) : Option LazyRec := if r.len = 0 then none else some r

/-- noodles-sam `async/io/reader/record.rs::read_record`: `read_until(LF, buf)` — 0 is `Ok(0)` — then
`crate::io::reader::read_record(&mut &buf[..], record)`; noodles-vcf `async/io/reader/record.rs`:
`reader.read_line(buf)` on a `String` (tokio: `read_until` + UTF-8 validation of the line), then the
sync `read_record` on `buf.as_bytes()`.  `rd` is the sync record reader (`samReadRecord` /
`vcfReadRecord`). -/
def lazyReadRecordA (utf8 : Bool) (rd : RdB LazyRec) (A : ARead σ UInt8) (cap : Nat) (b : ABuf σ UInt8) :
    Except Err (Option LazyRec) × ABuf σ UInt8 :=
  match scanA A cap (untilStep (· == LF)) [] b with
  | (.error e, b') => (.error e, b')
  | (.ok l, b') =>
    if utf8 && !Noodles.Index.validUtf8 l then (.error .invalidData, b')
    else if l.length = 0 then (.ok none, b')
    else match rd (sliceBuf l) with
      | (.error e, _) => (.error e, b')
      | (.ok r, _) => (.ok (some r), b')

/-- `records()` of the async SAM / VCF readers -/
def lazyRecordsA (utf8 : Bool) (rd : RdB LazyRec) (A : ARead σ UInt8) (cap : Nat) :
    Nat → ABuf σ UInt8 → List LazyRec → (List LazyRec × Option Err) × ABuf σ UInt8
  | 0, b, acc => ((acc.reverse, some .fuel), b)
  | fuel+1, b, acc =>
    match lazyReadRecordA utf8 rd A cap b with
    | (.error e, b') => ((acc.reverse, some e), b')
    | (.ok none, b') => ((acc.reverse, none), b')
    | (.ok (some r), b') => lazyRecordsA utf8 rd A cap fuel b' (r :: acc)

def lazyRecordsAllA (utf8 : Bool) (rd : RdB LazyRec) (A : ARead σ UInt8) (cap : Nat) (b : ABuf σ UInt8) :
    (List LazyRec × Option Err) × ABuf σ UInt8 :=
  lazyRecordsA utf8 rd A cap ((b.stream A).length + 1) b []

/-! ## writers: tokio `WriteAll` over an abstract `AsyncWrite` -/

/-- `tokio::io::AsyncWrite` seen from its caller: `poll s buf` is `poll_write(cx, buf)` — `pending`, or
`ready n` with the number of bytes accepted.  Ghost: `sunk s` = everything accepted so far, `credit s`
bounds the `Pending` answers still to come. -/
structure AWrite (σ α : Type) where
  poll : σ → List α → Poll Nat × σ
  sunk : σ → List α
  credit : σ → Nat

/-- the contract of an `AsyncWrite` that accepts what it is given (no errors: failing sinks are C14):
`Pending` finitely often and without effect; `Ready(n)` has taken the first `n ≤ buf.len()` bytes,
at least one unless `buf` is empty -/
structure AWrite.Lawful (W : AWrite σ α) : Prop where
  pending : ∀ s buf s', W.poll s buf = (.pending, s') → W.sunk s' = W.sunk s ∧ W.credit s' < W.credit s
  ready : ∀ s buf n s', W.poll s buf = (.ready n, s') →
    n ≤ buf.length ∧ (buf ≠ [] → 0 < n) ∧ W.sunk s' = W.sunk s ++ buf.take n ∧ W.credit s' ≤ W.credit s

/-- the harness's `AsyncScriptSink`: accepted bytes, the schedule, bytes per poll after it
(`fallback.max(1)`), `poll_write` calls and `Pending` answers so far -/
structure ASink (α : Type) where
  accepted : List α
  sched : List Poll1
  fallback : Nat
  polls : Nat
  pendings : Nat

def ASink.poll (s : ASink α) (buf : List α) : Poll Nat × ASink α :=
  match s.sched with
  | .pending :: sc => (.pending, { s with sched := sc, polls := s.polls + 1, pendings := s.pendings + 1 })
  | .ready m :: sc =>
    (.ready (min (max m 1) buf.length),
     { s with accepted := s.accepted ++ buf.take (min (max m 1) buf.length), sched := sc, polls := s.polls + 1 })
  | [] =>
    (.ready (min (max s.fallback 1) buf.length),
     { s with accepted := s.accepted ++ buf.take (min (max s.fallback 1) buf.length), polls := s.polls + 1 })

def scriptedW : AWrite (ASink α) α := ⟨ASink.poll, (·.accepted), (·.sched.length)⟩

inductive WErrA | writeZero | fuel
  deriving Repr, DecidableEq

/-- tokio `WriteAll::poll` (`write_all.rs`; `WriteU32Le` etc. of `write_int.rs` are the same loop over
a 4-byte buffer); state = (what is left of `buf`, writer):
```
while !me.buf.is_empty() { let n = ready!(Pin::new(&mut *me.writer).poll_write(cx, me.buf))?;
    { let (_, rest) = mem::take(&mut *me.buf).split_at(n); *me.buf = rest; }
    if n == 0 { return Poll::Ready(Err(io::ErrorKind::WriteZero.into())); } }
Poll::Ready(Ok(()))
``` -/
def pollWriteAll (W : AWrite σ α) : Nat → List α × σ → Poll (Except WErrA Unit) × (List α × σ)
  | 0, t => (.ready (.error .fuel), t)
  | fuel+1, t =>
    if t.1.length = 0 then (.ready (.ok ()), t)
    else match W.poll t.2 t.1 with
      | (.pending, s') => (.pending, (t.1, s'))
      | (.ready n, s') =>
        if n = 0 then (.ready (.error .writeZero), (t.1, s'))
        else pollWriteAll W fuel (t.1.drop n, s')

/-- `writer.write_all(buf).await` -/
def writeAllA (W : AWrite σ α) (s : σ) (buf : List α) : Except WErrA Unit × σ :=
  match drive (pollWriteAll W (buf.length + 1)) (W.credit s + 1) (buf, s) with
  | (some r, t) => (r, t.2)
  | (none, t) => (.error .fuel, t.2)

/-- consecutive `write_all(..).await?` calls -/
def writePiecesA (W : AWrite σ α) : List (List α) → σ → Except WErrA Unit × σ
  | [], s => (.ok (), s)
  | p :: ps, s =>
    match writeAllA W s p with
    | (.error e, s') => (.error e, s')
    | (.ok _, s') => writePiecesA W ps s'

/-- the `write_all` calls of `write_record` of BOTH FASTQ writers (noodles-fastq `async/io/writer.rs`,
`io/writer/record.rs`); the async writer always uses `DEFAULT_DEFINITION_SEPARATOR` (a space), the sync
one its `definition_separator` (the same unless the builder changed it) -/
def fastqPieces (sep : UInt8) (r : FastqRec) : List Bytes :=
  [[AT], r.name] ++ (if r.description.length ≠ 0 then [[sep], r.description] else []) ++
  [[LF], r.sequence, [LF], [PLUS], [LF], r.quality, [LF]]

/-- `slice::chunks(n)` -/
def chunksOf (n : Nat) : Nat → Bytes → List Bytes
  | 0, _ => []
  | fuel+1, bs => if bs.length = 0 then [] else bs.take (max n 1) :: chunksOf n fuel (bs.drop (max n 1))

/-- the `write_all` calls of `write_record` of BOTH FASTA writers (noodles-fasta
`async/io/writer/record*.rs`, `io/writer/record*.rs`): `>`, name, (space, description)?, LF, then
every chunk of `line_base_count` bases followed by LF -/
def fastaPieces (width : Nat) (name : Bytes) (desc : Option Bytes) (sq : Bytes) : List Bytes :=
  [[GT], name] ++ (match desc with | some d => [[SPACE], d] | none => []) ++ [[LF]] ++
  ((chunksOf width (sq.length + 1) sq).flatMap fun c => [c, [LF]])

/-- the async SAM / VCF / BCF writers (`async/io/writer.rs`): every item is serialized by the SYNC
serializer `ser` into a `Vec` (cleared first) and handed over with ONE `write_all`; a serializer error
returns before anything of that item is written.  Returns the error of the first item that fails. -/
def bufferedWriteA {ρ ε : Type} (ser : ρ → Except ε Bytes) (W : AWrite σ UInt8) :
    List ρ → σ → Except (ε ⊕ WErrA) Unit × σ
  | [], s => (.ok (), s)
  | r :: rs, s =>
    match ser r with
    | .error e => (.error (.inl e), s)
    | .ok bs =>
      match writeAllA W s bs with
      | (.error e, s') => (.error (.inr e), s')
      | (.ok _, s') => bufferedWriteA ser W rs s'

end Noodles.IO.Async
