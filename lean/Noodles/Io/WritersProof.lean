import Noodles.Io.WProgProof
import Noodles.Io.Writers
/-!
Helper lemmas for `Noodles/Props/C14More.lean`, part 2: what the perfect-destination runs produce
(`pexec` over `pdirect`, `pbuffered`, `pbgzf`), and what `Drop` does in each layer.
-/
namespace Noodles.WP
open Noodles.Codec (Bytes)
open Noodles.Bgzf
open Noodles.Bgzf.SM (Step WRes WErr)

/-! ## own errors -/

theorem ownErr_seq_none (p q : WProg) (h : (WProg.seq p q).ownErr = none) :
    p.ownErr = none ∧ q.ownErr = none := by
  unfold WProg.ownErr at *
  simp only [WProg.outcome] at h
  cases hp : p.outcome.2 with
  | some e => rw [hp] at h; cases h
  | none => rw [hp] at h; exact ⟨rfl, h⟩

theorem bytes_seq_none (p q : WProg) (h : p.ownErr = none) :
    (WProg.seq p q).bytes = p.bytes ++ q.bytes ∧ (WProg.seq p q).ownErr = q.ownErr := by
  unfold WProg.ownErr WProg.bytes at *
  simp only [WProg.outcome]
  rw [h]
  exact ⟨rfl, rfl⟩

theorem seq_ownErr_some (p q : WProg) (e : Err) (h : p.ownErr = some e) :
    (WProg.seq p q).bytes = p.bytes ∧ (WProg.seq p q).ownErr = some e := by
  unfold WProg.ownErr WProg.bytes at *
  simp only [WProg.outcome]
  rw [h]
  exact ⟨rfl, rfl⟩

theorem pexec_seq {α : Type} (M : Pure α) (p q : WProg) (a : α) :
    pexec M (.seq p q) a =
      (match pexec M p a with
       | .error e => .error e
       | .ok a' => pexec M q a') := rfl

/-- a program with an own error cannot return `Ok`, whatever the layer -/
theorem pexec_ownErr {α : Type} (M : Pure α) (p : WProg) (a : α) (e : Err) (h : p.ownErr = some e) :
    ∃ e', pexec M p a = .error e' := by
  induction p generalizing a e with
  | skip => cases h
  | emit b => cases h
  | flush => cases h
  | finish => cases h
  | fail e0 => exact ⟨e0, rfl⟩
  | seq p q ihp ihq =>
    rw [pexec_seq]
    cases hp : p.ownErr with
    | some e1 =>
      obtain ⟨e', he'⟩ := ihp a e1 hp
      rw [he']; exact ⟨e', rfl⟩
    | none =>
      have hq : q.ownErr = some e := by rw [← (bytes_seq_none p q hp).2]; exact h
      cases hr : pexec M p a with
      | error e' => exact ⟨e', rfl⟩
      | ok a' => exact ihq a' e hq

/-! ## the perfect destination -/

theorem pexec_pdirect (p : WProg) (a : Bytes) :
    pexec pdirect p a =
      (match p.ownErr with
       | none => .ok (a ++ p.bytes)
       | some e => .error e) := by
  induction p generalizing a with
  | skip => show Except.ok a = .ok (a ++ []); rw [List.append_nil]
  | emit b => rfl
  | flush => show Except.ok a = .ok (a ++ []); rw [List.append_nil]
  | finish => show Except.ok a = .ok (a ++ []); rw [List.append_nil]
  | fail e => rfl
  | seq p q ihp ihq =>
    rw [pexec_seq, ihp]
    cases hp : p.ownErr with
    | some e =>
      simp only
      rw [(seq_ownErr_some p q e hp).2]
    | none =>
      simp only
      rw [ihq, (bytes_seq_none p q hp).2, (bytes_seq_none p q hp).1, List.append_assoc]

/-! ## `BufWriter` over a perfect destination -/

/-- everything handed to the buffered writer so far -/
def PBuf.tot (a : PBuf) : Bytes := a.sink ++ a.buf

theorem PBuf.flush_tot (a : PBuf) : a.flush.tot = a.tot ∧ a.flush.cap = a.cap ∧ a.flush.buf = [] := by
  unfold PBuf.flush PBuf.tot
  simp

theorem PBuf.stage2_tot (b : Bytes) (a : PBuf) (h : b.length ≥ a.cap → a.buf = [] ∨ b = []) :
    (a.stage2 b).tot = a.tot ++ b ∧ (a.stage2 b).cap = a.cap := by
  unfold PBuf.stage2 PBuf.tot
  by_cases h3 : b.length ≥ a.cap
  · rw [if_pos h3]
    rcases h h3 with h | h <;> simp [h]
  · rw [if_neg h3]
    simp

theorem PBuf.writeAll_tot (a : PBuf) (b : Bytes) :
    (a.writeAll b).tot = a.tot ++ b ∧ (a.writeAll b).cap = a.cap := by
  unfold PBuf.writeAll
  by_cases h1 : b.length < a.cap - a.buf.length
  · rw [if_pos h1]
    unfold PBuf.tot
    simp
  · rw [if_neg h1]
    by_cases h2 : b.length > a.cap - a.buf.length
    · rw [if_pos h2]
      obtain ⟨f1, f2, f3⟩ := a.flush_tot
      obtain ⟨g1, g2⟩ := PBuf.stage2_tot b a.flush (fun _ => Or.inl f3)
      rw [g1, g2, f1, f2]
      exact ⟨rfl, rfl⟩
    · rw [if_neg h2]
      refine PBuf.stage2_tot b a ?_
      intro h3
      -- b.length = spare and b.length ≥ cap: the buffer is empty, or cap = 0 and b is empty
      by_cases hl : a.buf.length = 0
      · exact Or.inl (List.length_eq_zero_iff.mp hl)
      · have : b.length = 0 := by omega
        exact Or.inr (List.length_eq_zero_iff.mp this)

theorem pexec_pbuffered (p : WProg) (a : PBuf) :
    (match p.ownErr with
     | none => ∃ a', pexec pbuffered p a = .ok a' ∧ a'.tot = a.tot ++ p.bytes ∧ a'.cap = a.cap
     | some e => pexec pbuffered p a = .error e) := by
  induction p generalizing a with
  | skip => exact ⟨a, rfl, by show a.tot = a.tot ++ []; rw [List.append_nil], rfl⟩
  | emit b => exact ⟨a.writeAll b, rfl, (a.writeAll_tot b).1, (a.writeAll_tot b).2⟩
  | flush => exact ⟨a.flush, rfl, by show a.flush.tot = a.tot ++ []; rw [List.append_nil]; exact a.flush_tot.1, a.flush_tot.2.1⟩
  | finish => exact ⟨a.flush, rfl, by show a.flush.tot = a.tot ++ []; rw [List.append_nil]; exact a.flush_tot.1, a.flush_tot.2.1⟩
  | fail e => exact rfl
  | seq p q ihp ihq =>
    have hp' := ihp a
    cases hp : p.ownErr with
    | some e =>
      rw [hp] at hp'
      rw [(seq_ownErr_some p q e hp).2]
      rw [pexec_seq, hp']
    | none =>
      rw [hp] at hp'
      obtain ⟨a1, h1, h2, h3⟩ := hp'
      rw [(bytes_seq_none p q hp).2]
      have hq' := ihq a1
      cases hq : q.ownErr with
      | some e =>
        rw [hq] at hq'
        rw [pexec_seq, h1]
        exact hq'
      | none =>
        rw [hq] at hq'
        obtain ⟨a2, g1, g2, g3⟩ := hq'
        refine ⟨a2, ?_, ?_, g3.trans h3⟩
        · rw [pexec_seq, h1]
          exact g1
        · rw [g2, h2, (bytes_seq_none p q hp).1, List.append_assoc]

/-! ## `bgzf::io::Writer` over a perfect destination: a finish-free program is a list of `Op`s -/

def WProg.ops : WProg → List Op
  | .emit b => [.write b]
  | .flush => [.flush]
  | .seq p q => p.ops ++ q.ops
  | _ => []

theorem run_append (D : Deflater) (lvl : Nat) (w : Writer) (a b : List Op) :
    Bgzf.run D lvl w (a ++ b) =
      (match Bgzf.run D lvl w a with
       | .error e => .error e
       | .ok w' => Bgzf.run D lvl w' b) := by
  induction a generalizing w with
  | nil => rfl
  | cons op a ih =>
    show Bgzf.run D lvl w (op :: (a ++ b)) = _
    rw [SM.prun_cons, SM.prun_cons]
    cases Bgzf.step D lvl w op with
    | error e => rfl
    | ok w' => exact ih w'

theorem payload_append (a b : List Op) : payload (a ++ b) = payload a ++ payload b := by
  induction a with
  | nil => rfl
  | cons op a ih =>
    cases op with
    | write x => show x ++ payload (a ++ b) = (x ++ payload a) ++ payload b; rw [ih, List.append_assoc]
    | flush => exact ih

theorem pexec_pbgzf (D : Deflater) (lvl : Nat) (p : WProg) (w : Writer)
    (hf : p.noFinish = true) (he : p.ownErr = none) :
    pexec (pbgzf D lvl) p w = Bgzf.run D lvl w p.ops ∧ payload p.ops = p.bytes := by
  induction p generalizing w with
  | skip => exact ⟨rfl, rfl⟩
  | emit b =>
    refine ⟨?_, by show b ++ [] = b; rw [List.append_nil]⟩
    show Bgzf.step D lvl w (.write b) = Bgzf.run D lvl w [.write b]
    rw [SM.prun_cons]
    cases Bgzf.step D lvl w (.write b) <;> rfl
  | flush =>
    refine ⟨?_, rfl⟩
    show Bgzf.flush D lvl w = Bgzf.run D lvl w [.flush]
    rw [SM.prun_cons]
    show _ = (match Bgzf.step D lvl w .flush with
      | Except.error e => Except.error e
      | Except.ok w' => Bgzf.run D lvl w' [])
    show _ = (match Bgzf.flush D lvl w with
      | Except.error e => Except.error e
      | Except.ok w' => Bgzf.run D lvl w' [])
    cases Bgzf.flush D lvl w <;> rfl
  | finish => cases hf
  | fail e => cases he
  | seq p q ihp ihq =>
    have hf' : p.noFinish = true ∧ q.noFinish = true := by
      have : (p.noFinish && q.noFinish) = true := hf
      simpa using this
    obtain ⟨hep, heq⟩ := ownErr_seq_none p q he
    refine ⟨?_, ?_⟩
    · show pexec (pbgzf D lvl) (.seq p q) w = Bgzf.run D lvl w (p.ops ++ q.ops)
      rw [pexec_seq, run_append, (ihp w hf'.1 hep).1]
      cases Bgzf.run D lvl w p.ops with
      | error e => rfl
      | ok w' => exact (ihq w' hf'.2 heq).1
    · show payload (p.ops ++ q.ops) = _
      rw [payload_append, (ihp w hf'.1 hep).2, (ihq w hf'.2 heq).2, (bytes_seq_none p q hep).1]

/-! ## `Drop` -/

theorem Dest.writeAllRF_nil (s : Dest) : s.writeAllRF [] = (none, s, []) := rfl

/-- `BufWriter::drop` with nothing buffered does not touch the destination -/
theorem BufW.drop_empty (w : BufW) (h : w.buf = []) : w.drop = w := by
  obtain ⟨c, b, d⟩ := w
  simp only at h
  subst h
  rfl

/-- once the staged block is out, `try_finish` leaves nothing staged -/
theorem SM.flush_ok_staging (D : Deflater) (lvl : Nat) (w w' : SM.FW)
    (h : SM.flush D lvl w = (none, w')) : w'.staging = [] := by
  unfold SM.flush at h
  by_cases he : w.staging.isEmpty
  · rw [if_pos he] at h
    injection h with _ h2
    subst h2
    simpa using he
  · rw [if_neg he] at h
    unfold SM.flushBlock at h
    cases hE : encodeBlock D lvl w.staging with
    | error e => rw [hE] at h; cases h
    | ok cdata =>
      rw [hE] at h
      simp only at h
      cases hW : SM.writeFrame w.sink cdata (D.crc w.staging) w.staging.length with
      | mk r s =>
        rw [hW] at h
        cases r with
        | error e => cases h
        | ok bs =>
          simp only at h
          injection h with _ h2
          subst h2
          rfl

theorem SM.tryFinish_ok_staging (D : Deflater) (lvl : Nat) (w : SM.FW)
    (h : (SM.tryFinish D lvl w).1 = none) : (SM.tryFinish D lvl w).2.staging = [] := by
  cases hF : SM.flush D lvl w with
  | mk r w' =>
    cases r with
    | some e =>
      rw [SM.tryFinish_flush_err D lvl w w' e hF] at h
      cases h
    | none =>
      rw [SM.tryFinish_flush_ok D lvl w w' hF]
      exact SM.flush_ok_staging D lvl w w' hF

end Noodles.WP
