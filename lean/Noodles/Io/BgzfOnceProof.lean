import Noodles.Io.BgzfOnce
import Noodles.Io.WProgProof
import Noodles.Bgzf.FrameProof
import Noodles.Bgzf.SinkProof
/-! Helper lemmas for `Noodles/Props/C14Once.lean` (model: `Noodles/Io/BgzfOnce.lean`). -/
namespace Noodles.WP.Once
open Noodles.Codec (Bytes le)
open Noodles.Bgzf
open Noodles.Bgzf.SM (WErr Sink FW)

/-! ## `recover` -/

theorem recoverW_failed (w : FW) : (recoverW w).sink.failed = false := by
  unfold recoverW
  cases h : w.sink.failed with
  | true => rfl
  | false => simp [h]

theorem recoverW_kind (w : FW) : (recoverW w).sink.kind = w.sink.kind := by
  unfold recoverW
  cases h : w.sink.failed <;> simp [recover]

theorem recoverW_of_ok (w : FW) (h : w.sink.failed = false) : recoverW w = w := by
  unfold recoverW; simp [h]

theorem recoverW_pure (w : FW) : (recoverW w).pure = w.pure := by
  unfold recoverW
  cases h : w.sink.failed <;> simp [recover, FW.pure]

theorem recoverW_staging (w : FW) : (recoverW w).staging = w.staging := by
  unfold recoverW
  cases h : w.sink.failed <;> simp

theorem recoverW_position (w : FW) : (recoverW w).position = w.position := by
  unfold recoverW
  cases h : w.sink.failed <;> simp

theorem recoverW_accepted (w : FW) : (recoverW w).sink.accepted = w.sink.accepted := by
  unfold recoverW
  cases h : w.sink.failed <;> simp [recover]

/-! ## one call -/

/-- the invariant of the caller's loop: between two calls the (recovered) destination is healthy -/
def Inv (s : St) : Prop := s.w.sink.failed = false

theorem Inv_init (S : Sink) (h : S.failed = false) : Inv (St.init S) := h

theorem call_fst (D : Deflater) (lvl : Nat) (c : WProg) (s : St) :
    (call D lvl c s).1 = (exec (bgzf D lvl) c s.w).1 := rfl

theorem call_w (D : Deflater) (lvl : Nat) (c : WProg) (s : St) :
    (call D lvl c s).2.w = recoverW (exec (bgzf D lvl) c s.w).2 := rfl

theorem call_hit (D : Deflater) (lvl : Nat) (c : WProg) (s : St) :
    (call D lvl c s).2.hit = (s.hit || (exec (bgzf D lvl) c s.w).2.sink.failed) := rfl

theorem call_inv (D : Deflater) (lvl : Nat) (c : WProg) (s : St) : Inv (call D lvl c s).2 :=
  recoverW_failed _

theorem call_kind (D : Deflater) (lvl : Nat) (c : WProg) (s : St) (h : Inv s) :
    (call D lvl c s).2.w.sink.kind = s.w.sink.kind := by
  rw [call_w, recoverW_kind]
  exact (exec_spec (bgzf_lawful D lvl) c s.w h).1

/-- the three outcomes of a call: `Ok` and the destination did not fail; the destination failed
and its error is the result; the writer's own error and the destination did not fail -/
theorem call_cases (D : Deflater) (lvl : Nat) (c : WProg) (s : St) (h : Inv s) :
    ((call D lvl c s).1 = none ∧ (exec (bgzf D lvl) c s.w).2.sink.failed = false) ∨
    ((call D lvl c s).1 = some (.sink s.w.sink.kind) ∧ (exec (bgzf D lvl) c s.w).2.sink.failed = true) ∨
    (∃ e, (call D lvl c s).1 = some (.enc e) ∧ (exec (bgzf D lvl) c s.w).2.sink.failed = false) := by
  obtain ⟨_, _, _, hc⟩ := exec_spec (bgzf_lawful D lvl) c s.w h
  rcases hc with ⟨a1, a2, _⟩ | ⟨a1, a2, _⟩ | ⟨e, a1, a2, _⟩
  · exact Or.inl ⟨a1, a2⟩
  · exact Or.inr (Or.inl ⟨a1, a2⟩)
  · exact Or.inr (Or.inr ⟨e, a1, a2⟩)

/-! ## the callers -/

/-- what a run `s0 ↦ (results, s1)` guarantees: the loop invariant, the error kind is still the
scripted one, and a destination failure during the run is among the results -/
def Rep (k : Nat) (s0 : St) (r : List (Option WErr) × St) : Prop :=
  Inv r.2 ∧ r.2.w.sink.kind = k ∧ (r.2.hit = true → s0.hit = true ∨ some (WErr.sink k) ∈ r.1)

theorem Rep.nil (s : St) (h : Inv s) : Rep s.w.sink.kind s ([], s) :=
  ⟨h, rfl, fun hh => Or.inl hh⟩

theorem Rep.call (D : Deflater) (lvl : Nat) (c : WProg) (s : St) (h : Inv s) :
    Rep s.w.sink.kind s ([(call D lvl c s).1], (call D lvl c s).2) := by
  refine ⟨call_inv D lvl c s, call_kind D lvl c s h, ?_⟩
  intro hh
  rw [call_hit] at hh
  cases hs : s.hit with
  | true => exact Or.inl rfl
  | false =>
    rw [hs, Bool.false_or] at hh
    rcases call_cases D lvl c s h with ⟨_, a2⟩ | ⟨a1, _⟩ | ⟨_, _, a2⟩
    · rw [a2] at hh; cases hh
    · right; show _ ∈ [_]; rw [a1]; exact List.mem_singleton.mpr rfl
    · rw [a2] at hh; cases hh

theorem Rep.append {k : Nat} {s0 s1 s2 : St} {l1 l2 : List (Option WErr)}
    (h1 : Rep k s0 (l1, s1)) (h2 : Rep k s1 (l2, s2)) : Rep k s0 (l1 ++ l2, s2) := by
  refine ⟨h2.1, h2.2.1, ?_⟩
  intro hh
  rcases h2.2.2 hh with a | a
  · rcases h1.2.2 a with b | b
    · exact Or.inl b
    · exact Or.inr (List.mem_append_left _ b)
  · exact Or.inr (List.mem_append_right _ a)

theorem retryCall_rep (D : Deflater) (lvl : Nat) (c : WProg) (n : Nat) (s : St) (h : Inv s) :
    Rep s.w.sink.kind s (retryCall D lvl c n s) := by
  induction n generalizing s with
  | zero => exact Rep.nil s h
  | succ n ih =>
    have hc := Rep.call D lvl c s h
    cases hr : call D lvl c s with
    | mk r s' =>
      rw [hr] at hc
      cases r with
      | none =>
        simp only [retryCall, hr]
        exact hc
      | some e =>
        simp only [retryCall, hr]
        have ih' := ih s' hc.1
        rw [hc.2.1] at ih'
        exact Rep.append hc ih'

theorem runPol_rep (D : Deflater) (lvl : Nat) (pol : Policy) (cs : List WProg) (s : St) (h : Inv s) :
    Rep s.w.sink.kind s (runPol D lvl pol cs s) := by
  induction cs generalizing s with
  | nil => exact Rep.nil s h
  | cons c cs ih =>
    have hc := Rep.call D lvl c s h
    cases hr : call D lvl c s with
    | mk r s' =>
      rw [hr] at hc
      simp only at hc
      have ih' := ih s' hc.1
      rw [hc.2.1] at ih'
      cases r with
      | none =>
        simp only [runPol, hr]
        exact Rep.append hc ih'
      | some e =>
        cases pol with
        | stop =>
          simp only [runPol, hr]
          exact hc
        | next =>
          simp only [runPol, hr]
          exact Rep.append hc ih'
        | retry =>
          simp only [runPol, hr]
          have h1 := retryCall_rep D lvl c 2 s' hc.1
          rw [hc.2.1] at h1
          have h2 := ih (retryCall D lvl c 2 s').2 h1.1
          rw [h1.2.1] at h2
          have := Rep.append (Rep.append hc h1) h2
          exact this
        | finishOnly =>
          simp only [runPol, hr]
          cases hl : cs.getLast? with
          | none => simp only; exact hc
          | some f =>
            simp only
            have h1 := Rep.call D lvl f s' hc.1
            rw [hc.2.1] at h1
            exact Rep.append hc h1

/-! ## all `Ok` = the run of `WP.runCalls` on the same destination -/

theorem runPol_all_ok (D : Deflater) (lvl : Nat) (pol : Policy) (cs : List WProg) (s : St) (h : Inv s)
    (hok : ∀ r ∈ (runPol D lvl pol cs s).1, r = none) :
    (runPol D lvl pol cs s).2.w = (runCalls (bgzf D lvl) cs 0 s.w).2 ∧
    (runCalls (bgzf D lvl) cs 0 s.w).1 = none ∧
    (runPol D lvl pol cs s).2.hit = s.hit ∧
    (runPol D lvl pol cs s).1.length = cs.length := by
  suffices H : ∀ i, (runPol D lvl pol cs s).2.w = (runCalls (bgzf D lvl) cs i s.w).2 ∧
      (runCalls (bgzf D lvl) cs i s.w).1 = none ∧ (runPol D lvl pol cs s).2.hit = s.hit ∧
      (runPol D lvl pol cs s).1.length = cs.length from H 0
  induction cs generalizing s with
  | nil => intro i; exact ⟨rfl, rfl, rfl, rfl⟩
  | cons c cs ih =>
    intro i
    have hcases := call_cases D lvl c s h
    have hw := call_w D lvl c s
    have hh := call_hit D lvl c s
    have hf := call_fst D lvl c s
    cases hr : call D lvl c s with
    | mk r s' =>
      rw [hr] at hcases hw hh hf
      simp only at hcases hw hh hf
      cases r with
      | some e =>
        exfalso
        have : some e ∈ (runPol D lvl pol (c :: cs) s).1 := by
          cases pol with
          | stop => simp [runPol, hr]
          | next => simp [runPol, hr]
          | retry => simp [runPol, hr]
          | finishOnly =>
            simp only [runPol, hr]
            cases cs.getLast? <;> simp
        cases hok _ this
      | none =>
        have hnf : (exec (bgzf D lvl) c s.w).2.sink.failed = false := by
          rcases hcases with ⟨_, a2⟩ | ⟨a1, _⟩ | ⟨_, a1, _⟩
          · exact a2
          · cases a1
          · cases a1
        rw [recoverW_of_ok _ hnf] at hw
        rw [hnf, Bool.or_false] at hh
        have hok' : ∀ r ∈ (runPol D lvl pol cs s').1, r = none := by
          intro r hr'
          apply hok
          simp only [runPol, hr]
          exact List.mem_cons_of_mem _ hr'
        have hi' : Inv s' := by have := call_inv D lvl c s; rw [hr] at this; exact this
        obtain ⟨i1, i2, i3, i4⟩ := ih s' hi' hok' (i + 1)
        have hrc : runCalls (bgzf D lvl) (c :: cs) i s.w = runCalls (bgzf D lvl) cs (i + 1) s'.w := by
          cases he : exec (bgzf D lvl) c s.w with
          | mk r1 w1 =>
            rw [he] at hf hw
            simp only at hf hw
            subst hf
            simp only [runCalls, he]
            rw [hw]
        rw [hrc]
        simp only [runPol, hr]
        refine ⟨i1, i2, ?_, ?_⟩
        · rw [i3, hh]
        · simp [i4]

/-! ## what a failed flush leaves behind (`flush_block`: the block stays staged) -/

theorem flush_err_keeps_block (D : Deflater) (lvl : Nat) (w : FW) (e : WErr)
    (h : (SM.flush D lvl w).1 = some e) :
    (SM.flush D lvl w).2.staging = w.staging ∧ (SM.flush D lvl w).2.position = w.position := by
  unfold SM.flush at h ⊢
  by_cases he : w.staging.isEmpty
  · rw [if_pos he] at h; cases h
  · rw [if_neg he] at h ⊢
    unfold SM.flushBlock at h ⊢
    cases hE : encodeBlock D lvl w.staging with
    | error e' => exact ⟨rfl, rfl⟩
    | ok cdata =>
      rw [hE] at h
      simp only at h ⊢
      cases hW : SM.writeFrame w.sink cdata (D.crc w.staging) w.staging.length with
      | mk r s =>
        rw [hW] at h
        cases r with
        | error e' => exact ⟨rfl, rfl⟩
        | ok bs => simp only at h; cases h

/-! ## what the destination holds after a failed `write_frame`: a proper prefix of the frame -/

open Noodles.Bgzf.SM in
/-- a computation that was to append `out` has appended a prefix of it; a proper one if it failed -/
def Pre (s : Sink) (r : Option WErr) (s' : Sink) (out : Bytes) : Prop :=
  ∃ pre suf, out = pre ++ suf ∧ s'.accepted = s.accepted ++ pre ∧ (r ≠ none → suf ≠ [])

theorem write_fail_accepted (s : Sink) (buf : Bytes) (h : s.failsNow = true) :
    (s.write buf).2.accepted = s.accepted := by
  unfold Sink.write; rw [h]; rfl

theorem writeAll_pre (fuel : Nat) (s : Sink) (buf : Bytes) (hnf : s.failed = false) :
    Pre s (Sink.writeAll fuel s buf).1 (Sink.writeAll fuel s buf).2 buf := by
  induction fuel generalizing s buf with
  | zero =>
    unfold Sink.writeAll
    by_cases hbe : buf.isEmpty
    · have : buf = [] := by simpa using hbe
      subst this
      exact ⟨[], [], rfl, by simp, fun h => absurd rfl h⟩
    · have hb : buf ≠ [] := by simpa using hbe
      rw [if_neg hbe]
      exact ⟨[], buf, rfl, by simp, fun _ => hb⟩
  | succ fuel ih =>
    unfold Sink.writeAll
    by_cases hbe : buf.isEmpty
    · have : buf = [] := by simpa using hbe
      subst this
      exact ⟨[], [], rfl, by simp, fun h => absurd rfl h⟩
    · have hb : buf ≠ [] := by simpa using hbe
      rw [if_neg hbe]
      obtain ⟨hp, hc, hcase⟩ := SM.write_cases s buf hb hnf
      rcases hcase with ⟨h1, h2, h3⟩ | ⟨h1, h2, h3, h4, h5⟩ | ⟨n, h1, h2, h3, h4, h5, h6, h7⟩
      · have e : s.write buf = (.fail, (s.write buf).2) := by rw [← h1]
        rw [e]
        simp only
        exact ⟨[], buf, rfl, by rw [write_fail_accepted s buf h3]; simp, fun _ => hb⟩
      · have e : s.write buf = (.interrupted, (s.write buf).2) := by rw [← h1]
        rw [e]
        simp only
        obtain ⟨pre, suf, e1, e2, e3⟩ := ih (s.write buf).2 buf h2
        exact ⟨pre, suf, e1, by rw [e2, h3], e3⟩
      · have e : s.write buf = (.ok n, (s.write buf).2) := by rw [← h1]
        rw [e]
        simp only
        rw [if_neg (by omega)]
        obtain ⟨pre, suf, e1, e2, e3⟩ := ih (s.write buf).2 (buf.drop n) h4
        refine ⟨buf.take n ++ pre, suf, ?_, ?_, e3⟩
        · rw [List.append_assoc, ← e1, List.take_append_drop]
        · rw [e2, h5, List.append_assoc]

theorem writeAllF_pre (s : Sink) (buf : Bytes) (hnf : s.failed = false) :
    Pre s (s.writeAllF buf).1 (s.writeAllF buf).2 buf :=
  writeAll_pre _ s buf hnf

theorem feed_pre (s : Sink) (cs : List Bytes) (hnf : s.failed = false) :
    Pre s (SM.feed s cs).1 (SM.feed s cs).2 cs.flatten := by
  induction cs generalizing s with
  | nil => exact ⟨[], [], rfl, by simp [SM.feed], fun h => absurd rfl h⟩
  | cons c cs ih =>
    have t := SM.writeAllF_trans s c hnf
    have p := writeAllF_pre s c hnf
    unfold SM.feed
    rcases t.res with ⟨h1, h2, h3⟩ | ⟨h1, h2, h3⟩
    · have e : s.writeAllF c = (none, (s.writeAllF c).2) := by rw [← h1]
      rw [e]
      simp only
      obtain ⟨pre, suf, e1, e2, e3⟩ := ih (s.writeAllF c).2 h2
      refine ⟨c ++ pre, suf, ?_, ?_, e3⟩
      · rw [List.flatten_cons, e1, List.append_assoc]
      · rw [e2, h3, List.append_assoc]
    · have e : s.writeAllF c = (some (.sink s.kind), (s.writeAllF c).2) := by rw [← h1]
      obtain ⟨pre, suf, e1, e2, e3⟩ := p
      have hs : suf ≠ [] := e3 (by rw [h1]; exact fun h => nomatch h)
      rw [e]
      simp only
      refine ⟨pre, suf ++ cs.flatten, ?_, e2, ?_⟩
      · rw [List.flatten_cons, e1, List.append_assoc]
      · intro _ h
        exact hs (List.append_eq_nil_iff.mp h).1

/-- `write_frame` returned the destination's error: the destination has taken a PROPER prefix of
the frame's bytes (cut where the failing `write` call began) -/
theorem writeFrame_pre (s : Sink) (cdata : Bytes) (crc isize : Nat) (hnf : s.failed = false) (k : Nat)
    (herr : (SM.writeFrame s cdata crc isize).1 = .error (.sink k)) :
    ∃ pre suf, mkFrame cdata crc isize = pre ++ suf ∧ suf ≠ [] ∧
      (SM.writeFrame s cdata crc isize).2.accepted = s.accepted ++ pre := by
  have t1 := SM.feed_trans s SM.headerChunks hnf
  have p1 := feed_pre s SM.headerChunks hnf
  unfold SM.writeFrame at herr ⊢
  generalize SM.feed s SM.headerChunks = o1 at t1 p1 herr ⊢
  obtain ⟨r1, s1⟩ := o1
  rcases t1.res with ⟨a1, a2, a3⟩ | ⟨a1, a2, a3⟩
  · simp only at a1 a2 a3
    subst a1
    simp only at herr ⊢
    by_cases hb : HEADER_SIZE + cdata.length + TRAILER_SIZE - 1 < 65536
    · rw [if_pos hb] at herr ⊢
      have t2 := SM.feed_trans s1 [le 2 (HEADER_SIZE + cdata.length + TRAILER_SIZE - 1), cdata, le 4 crc] a2
      have p2 := feed_pre s1 [le 2 (HEADER_SIZE + cdata.length + TRAILER_SIZE - 1), cdata, le 4 crc] a2
      generalize SM.feed s1 [le 2 (HEADER_SIZE + cdata.length + TRAILER_SIZE - 1), cdata, le 4 crc] = o2
        at t2 p2 herr ⊢
      obtain ⟨r2, s2⟩ := o2
      rcases t2.res with ⟨b1, b2, b3⟩ | ⟨b1, b2, b3⟩
      · simp only at b1 b2 b3
        subst b1
        simp only at herr ⊢
        by_cases hi : isize < 2^32
        · rw [if_pos hi] at herr ⊢
          have t3 := SM.feed_trans s2 [le 4 isize] b2
          have p3 := feed_pre s2 [le 4 isize] b2
          generalize SM.feed s2 [le 4 isize] = o3 at t3 p3 herr ⊢
          obtain ⟨r3, s3⟩ := o3
          rcases t3.res with ⟨c1, c2, c3⟩ | ⟨c1, c2, c3⟩
          · simp only at c1
            subst c1
            simp only at herr
            cases herr
          · simp only at c1
            subst c1
            obtain ⟨pre, suf, e1, e2, e3⟩ := p3
            have hs : suf ≠ [] := e3 (fun h => nomatch h)
            simp only at e2 ⊢
            refine ⟨headerPrefix ++ le 2 (HEADER_SIZE + cdata.length + TRAILER_SIZE - 1) ++ cdata ++ le 4 crc ++ pre,
              suf, ?_, hs, ?_⟩
            · have : le 4 isize = pre ++ suf := by simpa using e1
              unfold mkFrame
              rw [this]
              simp only [List.append_assoc]
            · rw [e2, b3, a3, SM.headerChunks_flatten]
              simp [List.append_assoc]
        · rw [if_neg hi] at herr
          simp only at herr
          cases herr
      · simp only at b1
        subst b1
        obtain ⟨pre, suf, e1, e2, e3⟩ := p2
        have hs : suf ≠ [] := e3 (fun h => nomatch h)
        simp only at e2 ⊢
        refine ⟨headerPrefix ++ pre, suf ++ le 4 isize, ?_, ?_, ?_⟩
        · have : le 2 (HEADER_SIZE + cdata.length + TRAILER_SIZE - 1) ++ (cdata ++ le 4 crc) = pre ++ suf := by
            simpa using e1
          unfold mkFrame
          simp only [List.append_assoc]
          rw [← List.append_assoc pre suf, ← this]
          simp only [List.append_assoc]
        · intro h; exact hs (List.append_eq_nil_iff.mp h).1
        · rw [e2, a3, SM.headerChunks_flatten, List.append_assoc]
    · rw [if_neg hb] at herr
      simp only at herr
      cases herr
  · simp only at a1
    subst a1
    obtain ⟨pre, suf, e1, e2, e3⟩ := p1
    have hs : suf ≠ [] := e3 (fun h => nomatch h)
    simp only at e2 ⊢
    refine ⟨pre, suf ++ (le 2 (HEADER_SIZE + cdata.length + TRAILER_SIZE - 1) ++ cdata ++ le 4 crc ++ le 4 isize),
      ?_, ?_, e2⟩
    · rw [SM.headerChunks_flatten] at e1
      unfold mkFrame
      rw [e1]
      simp only [List.append_assoc]
    · intro h; exact hs (List.append_eq_nil_iff.mp h).1

theorem frame_ok_eq (cdata : Bytes) (crc isize : Nat) (fr : Bytes) (h : frame cdata crc isize = .ok fr) :
    fr = mkFrame cdata crc isize := by
  by_cases h1 : HEADER_SIZE + cdata.length + TRAILER_SIZE - 1 < 65536
  · by_cases h2 : isize < 2^32
    · simp only [frame, h1, h2, if_true] at h
      injection h with h
      rw [← h]; rfl
    · simp only [frame, h1, h2, if_true, if_false] at h
      cases h
  · simp only [frame, h1, if_false] at h
    cases h

/-- a `flush` that returned the destination's error: the block compressed, and the destination has
taken a proper prefix of its frame -/
theorem flush_err_pre (D : Deflater) (lvl : Nat) (w : FW) (k : Nat) (hnf : w.sink.failed = false)
    (h : (SM.flush D lvl w).1 = some (.sink k)) :
    ∃ cdata pre suf, encodeBlock D lvl w.staging = .ok cdata ∧
      mkFrame cdata (D.crc w.staging) w.staging.length = pre ++ suf ∧ suf ≠ [] ∧
      (SM.flush D lvl w).2.sink.accepted = w.sink.accepted ++ pre := by
  unfold SM.flush at h ⊢
  by_cases he : w.staging.isEmpty
  · rw [if_pos he] at h; cases h
  · rw [if_neg he] at h ⊢
    unfold SM.flushBlock at h ⊢
    cases hE : encodeBlock D lvl w.staging with
    | error e' => rw [hE] at h; simp only at h; cases h
    | ok cdata =>
      rw [hE] at h
      simp only at h ⊢
      have p := writeFrame_pre w.sink cdata (D.crc w.staging) w.staging.length hnf k
      cases hW : SM.writeFrame w.sink cdata (D.crc w.staging) w.staging.length with
      | mk r s =>
        rw [hW] at h p
        cases r with
        | ok bs => simp only at h; cases h
        | error e' =>
          simp only at h p ⊢
          injection h with h
          subst h
          obtain ⟨pre, suf, e1, e2, e3⟩ := p rfl
          exact ⟨cdata, pre, suf, rfl, e1, e2, e3⟩

/-- … and when the `flush` is issued again on the recovered destination and returns `Ok`: the
destination holds what it held, the accepted part of the frame, and then the whole frame -/
theorem flush_retry_layout (D : Deflater) (lvl : Nat) (w : FW) (k : Nat) (hnf : w.sink.failed = false)
    (h : (SM.flush D lvl w).1 = some (.sink k))
    (hre : (SM.flush D lvl (recoverW (SM.flush D lvl w).2)).1 = none) :
    ∃ cdata pre suf, encodeBlock D lvl w.staging = .ok cdata ∧
      mkFrame cdata (D.crc w.staging) w.staging.length = pre ++ suf ∧ suf ≠ [] ∧
      (SM.flush D lvl (recoverW (SM.flush D lvl w).2)).2.sink.accepted =
        w.sink.accepted ++ pre ++ mkFrame cdata (D.crc w.staging) w.staging.length ∧
      (SM.flush D lvl (recoverW (SM.flush D lvl w).2)).2.staging = [] := by
  obtain ⟨cdata, pre, suf, hE, e1, e2, e3⟩ := flush_err_pre D lvl w k hnf h
  obtain ⟨k1, _⟩ := flush_err_keeps_block D lvl w _ h
  have hne : w.staging.isEmpty = false := by
    cases hq : w.staging.isEmpty with
    | false => rfl
    | true => unfold SM.flush at h; rw [if_pos hq] at h; cases h
  have f1 : (recoverW (SM.flush D lvl w).2).staging = w.staging := by rw [recoverW_staging, k1]
  have f2 : (recoverW (SM.flush D lvl w).2).sink.accepted = w.sink.accepted ++ pre := by
    rw [recoverW_accepted, e3]
  have f3 : (recoverW (SM.flush D lvl w).2).sink.failed = false := recoverW_failed _
  generalize recoverW (SM.flush D lvl w).2 = w2 at hre f1 f2 f3 ⊢
  refine ⟨cdata, pre, suf, hE, e1, e2, ?_⟩
  unfold SM.flush at hre ⊢
  have he2 : ¬ (w2.staging.isEmpty = true) := by rw [f1, hne]; exact fun h => nomatch h
  rw [if_neg he2] at hre ⊢
  unfold SM.flushBlock at hre ⊢
  rw [f1, hE] at hre ⊢
  simp only at hre ⊢
  have sp := SM.writeFrame_spec w2.sink cdata (D.crc w.staging) w.staging.length f3
  cases hW : SM.writeFrame w2.sink cdata (D.crc w.staging) w.staging.length with
  | mk r s =>
    rw [hW] at hre sp
    cases r with
    | error e' => simp only at hre; cases hre
    | ok bs =>
      simp only at sp ⊢
      obtain ⟨_, _, sp⟩ := sp
      rcases sp with ⟨fr, g1, _, _, g4⟩ | ⟨g1, _⟩ | ⟨_, _, g1, _⟩
      · rw [frame_ok_eq _ _ _ _ g1] at g4
        exact ⟨by rw [g4, f2], trivial⟩
      · cases g1
      · cases g1

end Noodles.WP.Once
