import Noodles.Cram.Chunk
import Noodles.Cram.Container
/-! helper lemmas for the writer's chunking state machine (see Props/C07Chunk.lean) -/
namespace Noodles.Cram.Chunk
open Noodles.Cram.Enc (RefCtx Res Err)
open Noodles.Cram.Container (sliceCounters)

variable {α : Type}

/-! ## `chunks` -/

theorem chunksGo_flatten (k : Nat) (hk : 1 ≤ k) (fuel : Nat) (l : List α) (h : l.length ≤ fuel) :
    (chunksGo k fuel l).flatten = l := by
  induction fuel generalizing l with
  | zero =>
    have : l = [] := List.eq_nil_of_length_eq_zero (by omega)
    subst this; simp [chunksGo]
  | succ n ih =>
    unfold chunksGo
    by_cases he : l.isEmpty
    · simp only [he, if_true]
      have : l = [] := by simpa using he
      subst this; rfl
    · rw [if_neg he]
      have hl : l ≠ [] := by simpa using he
      have hpos : 0 < l.length := List.length_pos_iff.mpr hl
      rw [List.flatten_cons, ih (l.drop k) (by rw [List.length_drop]; omega), List.take_append_drop]

theorem chunksGo_bounds (k : Nat) (_hk : 1 ≤ k) (fuel : Nat) (l : List α) :
    ∀ c ∈ chunksGo k fuel l, 1 ≤ c.length ∧ c.length ≤ k := by
  induction fuel generalizing l with
  | zero => intro c hc; simp [chunksGo] at hc
  | succ n ih =>
    intro c hc
    unfold chunksGo at hc
    by_cases he : l.isEmpty
    · simp [he] at hc
    · rw [if_neg he] at hc
      have hl : l ≠ [] := by simpa using he
      have hpos : 0 < l.length := List.length_pos_iff.mpr hl
      rcases List.mem_cons.mp hc with h | h
      · subst h; rw [List.length_take]; omega
      · exact ih _ c h

theorem chunksGo_length_le (k : Nat) (hk : 1 ≤ k) (fuel : Nat) (l : List α) (m : Nat) (h : l.length ≤ k * m) :
    (chunksGo k fuel l).length ≤ m := by
  induction fuel generalizing l m with
  | zero => simp [chunksGo]
  | succ n ih =>
    unfold chunksGo
    by_cases he : l.isEmpty
    · simp [he]
    · rw [if_neg he]
      have hl : l ≠ [] := by simpa using he
      have hpos : 0 < l.length := List.length_pos_iff.mpr hl
      cases m with
      | zero => exfalso; rw [Nat.mul_zero] at h; omega
      | succ m' =>
        rw [List.length_cons]
        have := ih (l.drop k) m' (by rw [List.length_drop, Nat.mul_succ] at *; omega)
        omega

theorem chunks_flatten (k : Nat) (hk : 1 ≤ k) (l : List α) : (chunks k l).flatten = l :=
  chunksGo_flatten k hk l.length l (Nat.le_refl _)

theorem chunks_ne_nil (k : Nat) (l : List α) (hl : l ≠ []) : chunks k l ≠ [] := by
  have hpos : 0 < l.length := List.length_pos_iff.mpr hl
  unfold chunks
  obtain ⟨n, hn⟩ : ∃ n, l.length = n + 1 := ⟨l.length - 1, by omega⟩
  rw [hn]; unfold chunksGo
  have : l.isEmpty = false := by simpa using hl
  simp [this]

/-! ## `sliceCounters` -/

theorem sliceCounters_append (c : Nat) (a : List Nat) (n : Nat) :
    sliceCounters c (a ++ [n]) = sliceCounters c a ++ [c + a.sum] := by
  induction a generalizing c with
  | nil => simp [sliceCounters]
  | cons x xs ih => simp [sliceCounters, ih, Nat.add_assoc]

/-! ## `buildSlices`, `buildContainer` -/

theorem buildSlices_spec (P : Params α) (all : List α) (cs : List (List α)) (counter : Nat) (ss : List (SliceOut α))
    (h : buildSlices P all counter cs = .ok ss) :
    ss.map (·.records) = cs ∧ (∀ s ∈ ss, P.ctxOf all s.records = .ok s.ctx) ∧
    ss.map (·.counter) = sliceCounters counter (cs.map List.length) := by
  induction cs generalizing counter ss with
  | nil => simp only [buildSlices] at h; cases h; simp [sliceCounters]
  | cons c cs ih =>
    simp only [buildSlices] at h
    cases hc : P.ctxOf all c with
    | error e => rw [hc] at h; cases h
    | ok ctx =>
      rw [hc] at h
      cases hr : buildSlices P all (counter + c.length) cs with
      | error e => rw [hr] at h; cases h
      | ok rest =>
        rw [hr] at h
        cases h
        obtain ⟨i1, i2, i3⟩ := ih _ _ hr
        refine ⟨by simp [i1], ?_, by simp [sliceCounters, i3]⟩
        intro s hs
        rcases List.mem_cons.mp hs with h | h
        · subst h; exact hc
        · exact i2 s h

/-- what a container written by the model satisfies -/
structure GoodC (P : Params α) (rps spc : Nat) (c : ContainerOut α) : Prop where
  slices_pos : 1 ≤ c.slices.length
  slices_le : c.slices.length ≤ spc
  rec_pos : ∀ s ∈ c.slices, 1 ≤ s.records.length
  rec_le : ∀ s ∈ c.slices, s.records.length ≤ rps
  ctx : ∀ s ∈ c.slices, P.ctxOf c.records s.records = .ok s.ctx
  cctx : containerCtx (c.slices.map (·.ctx)) = .ok c.ctx
  nrec : c.nrec = c.records.length
  bases : c.bases = (c.records.map P.readLen).sum
  scounters : c.slices.map (·.counter) = sliceCounters c.counter (c.slices.map (·.records.length))
  slices_eq : c.slices.map (·.records) = chunks rps c.records

theorem buildContainer_spec (P : Params α) (rps spc counter : Nat) (_hspc : 1 ≤ spc) (records : List α)
    (hne : records ≠ []) (hle : records.length ≤ rps * spc) (c : ContainerOut α)
    (h : buildContainer P rps counter records = .ok c) :
    GoodC P rps spc c ∧ c.counter = counter ∧ c.records = records := by
  unfold buildContainer at h
  by_cases h0 : rps = 0
  · simp [h0] at h
  · have hk : 1 ≤ rps := by omega
    simp only [h0, if_false] at h
    cases hs : buildSlices P records counter (chunks rps records) with
    | error e => rw [hs] at h; cases h
    | ok slices =>
      rw [hs] at h
      cases hc : containerCtx (slices.map (·.ctx)) with
      | error e => simp only [hc] at h; cases h
      | ok ctx =>
        simp only [hc] at h
        cases h
        obtain ⟨i1, i2, i3⟩ := buildSlices_spec P records _ _ _ hs
        have hrec : (slices.flatMap (·.records)) = records := by
          rw [List.flatMap_def, i1]; exact chunks_flatten rps hk records
        have hlen : slices.length = (chunks rps records).length := by rw [← i1, List.length_map]
        have hb : ∀ s ∈ slices, 1 ≤ s.records.length ∧ s.records.length ≤ rps := by
          intro s hs'
          have : s.records ∈ chunks rps records := by rw [← i1]; exact List.mem_map_of_mem hs'
          exact chunksGo_bounds rps hk _ _ _ this
        refine ⟨⟨?_, ?_, fun s hs' => (hb s hs').1, fun s hs' => (hb s hs').2, ?_, hc, ?_, ?_, ?_, ?_⟩, rfl, hrec⟩
        · show 1 ≤ slices.length
          rw [hlen]
          have := chunks_ne_nil rps records hne
          exact List.length_pos_iff.mpr this
        · show slices.length ≤ spc
          rw [hlen]; exact chunksGo_length_le rps hk _ _ spc hle
        · intro s hs'
          show P.ctxOf (slices.flatMap (·.records)) s.records = .ok s.ctx
          rw [hrec]; exact i2 s hs'
        · show records.length = (slices.flatMap (·.records)).length
          rw [hrec]
        · show (records.map P.readLen).sum = ((slices.flatMap (·.records)).map P.readLen).sum
          rw [hrec]
        · show slices.map (·.counter) = sliceCounters counter (slices.map (·.records.length))
          rw [i3, ← i1, List.map_map]; rfl
        · show slices.map (·.records) = chunks rps (slices.flatMap (·.records))
          rw [hrec]; exact i1

/-! ## the writer's invariant -/

/-- the writer after consuming `done` (between two `add_record` calls) -/
structure Inv (P : Params α) (rps spc : Nat) (done : List α) (w : W α) : Prop where
  rps_eq : w.rps = rps
  cap_eq : w.cap = rps * spc
  lt : w.records.length < rps * spc
  stream : allRecords w.out ++ w.records = done
  counter : w.counter = (w.out.map (·.nrec)).sum
  ccount : w.out.map (·.counter) = sliceCounters 0 (w.out.map (·.nrec))
  good : ∀ c ∈ w.out, GoodC P rps spc c

theorem allRecords_append (a : List (ContainerOut α)) (c : ContainerOut α) :
    allRecords (a ++ [c]) = allRecords a ++ c.records := by
  simp [allRecords, allSlices, ContainerOut.records]

theorem Inv.new (P : Params α) (rps spc : Nat) (h1 : 1 ≤ rps) (h2 : 1 ≤ spc) : Inv P rps spc [] (W.new rps spc) :=
  ⟨rfl, rfl, by show 0 < rps * spc; exact Nat.mul_pos h1 h2, rfl, rfl, rfl, fun c hc => by simp [W.new] at hc⟩

/-- `flush` on a writer holding `1 ≤ n ≤ rps·spc` records (or none) -/
theorem flush_spec (P : Params α) (rps spc : Nat) (h2 : 1 ≤ spc) (done : List α) (w w' : W α)
    (hr : w.rps = rps) (hc : w.cap = rps * spc) (hpos : 0 < rps * spc) (hle : w.records.length ≤ rps * spc)
    (hs : allRecords w.out ++ w.records = done) (hcount : w.counter = (w.out.map (·.nrec)).sum)
    (hcc : w.out.map (·.counter) = sliceCounters 0 (w.out.map (·.nrec)))
    (hg : ∀ c ∈ w.out, GoodC P rps spc c)
    (h : w.flush P = .ok w') : Inv P rps spc done w' ∧ w'.records = [] := by
  unfold W.flush at h
  by_cases he : w.records.isEmpty
  · simp only [he, if_true] at h
    cases h
    have : w.records = [] := by simpa using he
    exact ⟨⟨hr, hc, by rw [this]; exact hpos, hs, hcount, hcc, hg⟩, this⟩
  · simp only [he] at h
    have hne : w.records ≠ [] := by simpa using he
    cases hb : buildContainer P w.rps w.counter w.records with
    | error e => rw [hb] at h; cases h
    | ok c =>
      rw [hb] at h
      cases h
      rw [hr] at hb
      obtain ⟨g, gc, gr⟩ := buildContainer_spec P rps spc w.counter h2 w.records hne hle c hb
      refine ⟨⟨hr, hc, hpos, ?_, ?_, ?_, ?_⟩, rfl⟩
      · show allRecords (w.out ++ [c]) ++ [] = done
        rw [allRecords_append, gr, List.append_nil]; exact hs
      · show w.counter + w.records.length = ((w.out ++ [c]).map (·.nrec)).sum
        rw [List.map_append, List.sum_append, hcount]; simp [g.nrec, gr]
      · show (w.out ++ [c]).map (·.counter) = sliceCounters 0 ((w.out ++ [c]).map (·.nrec))
        rw [List.map_append, List.map_append, List.map_cons, List.map_nil, List.map_cons, List.map_nil,
          sliceCounters_append, hcc, gc, hcount]; simp
      · intro c' hc'
        rcases List.mem_append.mp hc' with h | h
        · exact hg c' h
        · have : c' = c := by simpa using h
          subst this; exact g

theorem addRecord_spec (P : Params α) (rps spc : Nat) (h2 : 1 ≤ spc) (done : List α) (w w' : W α) (r : α)
    (inv : Inv P rps spc done w) (h : w.addRecord P r = .ok w') : Inv P rps spc (done ++ [r]) w' := by
  obtain ⟨i1, i2, i3, i4, i5, i6, i7⟩ := inv
  have hg : growCap w.cap w.records.length = rps * spc := by
    unfold growCap; rw [i2]
    have : ¬ w.records.length = rps * spc := by omega
    simp [this]
  let w1 : W α := { w with cap := rps * spc, records := w.records ++ [r] }
  have h' : (if w1.records.length ≥ w1.cap then w1.flush P else .ok w1) = .ok w' := by
    have := h
    unfold W.addRecord at this
    rw [hg] at this
    exact this
  have hl1 : w1.records.length = w.records.length + 1 := by simp [w1]
  have hc1 : w1.cap = rps * spc := rfl
  have hs1 : allRecords w1.out ++ w1.records = done ++ [r] := by
    show allRecords w.out ++ (w.records ++ [r]) = done ++ [r]
    rw [← List.append_assoc, i4]
  by_cases hfull : w1.records.length ≥ w1.cap
  · rw [if_pos hfull] at h'
    exact (flush_spec P rps spc h2 (done ++ [r]) w1 w' i1 hc1 (by omega) (by omega) hs1 i5 i6 i7 h').1
  · rw [if_neg hfull] at h'
    have hw : w1 = w' := by injection h'
    rw [← hw]
    exact ⟨i1, hc1, by omega, hs1, i5, i6, i7⟩

theorem addAll_spec (P : Params α) (rps spc : Nat) (h2 : 1 ≤ spc) (rs : List α) (done : List α) (w w' : W α)
    (inv : Inv P rps spc done w) (h : W.addAll P w rs = .ok w') : Inv P rps spc (done ++ rs) w' := by
  induction rs generalizing done w with
  | nil => simp only [W.addAll] at h; cases h; simpa using inv
  | cons r rs ih =>
    simp only [W.addAll] at h
    cases ha : w.addRecord P r with
    | error e => rw [ha] at h; cases h
    | ok w1 =>
      rw [ha] at h
      have := ih (done ++ [r]) w1 (addRecord_spec P rps spc h2 done w w1 r inv ha) h
      simpa using this

/-- everything the final state of a successful `run` satisfies -/
theorem run_spec (P : Params α) (rps spc : Nat) (h1 : 1 ≤ rps) (h2 : 1 ≤ spc) (rs : List α)
    (out : List (ContainerOut α)) (h : run P rps spc rs = .ok out) :
    allRecords out = rs ∧ (∀ c ∈ out, GoodC P rps spc c) ∧
    out.map (·.counter) = sliceCounters 0 (out.map (·.nrec)) := by
  unfold run at h
  cases ha : W.addAll P (W.new rps spc) rs with
  | error e => rw [ha] at h; cases h
  | ok w =>
    rw [ha] at h
    cases hf : w.flush P with
    | error e => simp only [hf] at h; cases h
    | ok w' =>
      simp only [hf] at h
      cases h
      have inv := addAll_spec P rps spc h2 rs [] _ w (Inv.new P rps spc h1 h2) ha
      obtain ⟨i1, i2, i3, i4, i5, i6, i7⟩ := inv
      obtain ⟨j, jr⟩ := flush_spec P rps spc h2 ([] ++ rs) w w' i1 i2 (by omega) (by omega) i4 i5 i6 i7 hf
      refine ⟨?_, j.good, j.ccount⟩
      have := j.stream
      rw [jr] at this
      simpa using this

/-! ## the explicit layout -/

theorem chunksGo_of_flatten (k : Nat) (L : List (List α))
    (hall : ∀ c ∈ L, 1 ≤ c.length ∧ c.length ≤ k) (hinit : ∀ c ∈ L.dropLast, c.length = k)
    (fuel : Nat) (hf : L.flatten.length ≤ fuel) : chunksGo k fuel L.flatten = L := by
  induction L generalizing fuel with
  | nil => cases fuel <;> simp [chunksGo]
  | cons c L ih =>
    have hc := hall c (List.mem_cons_self ..)
    have hcne : c ≠ [] := by intro h; rw [h] at hc; simp at hc
    have hfl : (c :: L).flatten = c ++ L.flatten := List.flatten_cons
    rw [hfl] at hf ⊢
    rw [List.length_append] at hf
    cases fuel with
    | zero => omega
    | succ n =>
      unfold chunksGo
      have hne : ¬ (c ++ L.flatten).isEmpty = true := by simp [hcne]
      rw [if_neg hne]
      cases L with
      | nil =>
        simp only [List.flatten_nil, List.append_nil]
        rw [List.take_of_length_le hc.2, List.drop_of_length_le hc.2]
        cases n <;> simp [chunksGo]
      | cons d L' =>
        have hck : c.length = k := hinit c (by simp [List.dropLast])
        rw [List.take_left' hck, List.drop_left' hck]
        rw [ih (fun x hx => hall x (List.mem_cons_of_mem _ hx))
          (fun x hx => hinit x (by simp only [List.dropLast]; exact List.mem_cons_of_mem _ hx)) n (by omega)]

theorem flush_out (P : Params α) (w w' : W α) (h : w.flush P = .ok w') :
    (w.records = [] ∧ w' = w) ∨
    (w.records ≠ [] ∧ ∃ c, buildContainer P w.rps w.counter w.records = .ok c ∧ w'.out = w.out ++ [c]) := by
  unfold W.flush at h
  by_cases he : w.records.isEmpty
  · rw [if_pos he] at h
    left; exact ⟨by simpa using he, by injection h with h; exact h.symm⟩
  · rw [if_neg he] at h
    right
    refine ⟨by simpa using he, ?_⟩
    cases hb : buildContainer P w.rps w.counter w.records with
    | error e => rw [hb] at h; cases h
    | ok c => rw [hb] at h; cases h; exact ⟨c, rfl, rfl⟩

theorem addRecord_full (P : Params α) (rps spc : Nat) (h2 : 1 ≤ spc) (done : List α) (w w' : W α) (r : α)
    (inv : Inv P rps spc done w) (hfc : ∀ c ∈ w.out, c.records.length = rps * spc)
    (h : w.addRecord P r = .ok w') : ∀ c ∈ w'.out, c.records.length = rps * spc := by
  obtain ⟨i1, i2, i3, _, _, _, _⟩ := inv
  have hg : growCap w.cap w.records.length = rps * spc := by
    unfold growCap; rw [i2]
    have : ¬ w.records.length = rps * spc := by omega
    rw [if_neg this]
  let w1 : W α := { w with cap := rps * spc, records := w.records ++ [r] }
  have h' : (if w1.records.length ≥ w1.cap then w1.flush P else .ok w1) = .ok w' := by
    have := h
    unfold W.addRecord at this
    rw [hg] at this
    exact this
  have hl1 : w1.records.length = w.records.length + 1 := by simp [w1]
  have hc1 : w1.cap = rps * spc := rfl
  by_cases hfull : w1.records.length ≥ w1.cap
  · rw [if_pos hfull] at h'
    rcases flush_out P w1 w' h' with ⟨hnil, _⟩ | ⟨hne, c, hb, ho⟩
    · rw [hnil] at hl1; simp at hl1
    · have hb' : buildContainer P rps w1.counter w1.records = .ok c := by rw [← i1]; exact hb
      obtain ⟨_, _, gr⟩ := buildContainer_spec P rps spc w1.counter h2 w1.records hne (by omega) c hb'
      intro c' hc'
      rw [ho] at hc'
      rcases List.mem_append.mp hc' with hm | hm
      · exact hfc c' hm
      · have : c' = c := by simpa using hm
        rw [this, gr]; omega
  · rw [if_neg hfull] at h'
    have hw : w1 = w' := by injection h'
    rw [← hw]; exact hfc

theorem addAll_full (P : Params α) (rps spc : Nat) (h2 : 1 ≤ spc) (rs : List α) (done : List α) (w w' : W α)
    (inv : Inv P rps spc done w) (hfc : ∀ c ∈ w.out, c.records.length = rps * spc)
    (h : W.addAll P w rs = .ok w') : ∀ c ∈ w'.out, c.records.length = rps * spc := by
  induction rs generalizing done w with
  | nil => simp only [W.addAll] at h; cases h; exact hfc
  | cons r rs ih =>
    simp only [W.addAll] at h
    cases ha : w.addRecord P r with
    | error e => rw [ha] at h; cases h
    | ok w1 =>
      rw [ha] at h
      exact ih (done ++ [r]) w1 (addRecord_spec P rps spc h2 done w w1 r inv ha)
        (addRecord_full P rps spc h2 done w w1 r inv hfc ha) h

theorem allRecords_eq_flatten (out : List (ContainerOut α)) : allRecords out = (out.map (·.records)).flatten := by
  induction out with
  | nil => rfl
  | cons c cs ih =>
    have : allRecords (c :: cs) = c.records ++ allRecords cs := by
      simp [allRecords, allSlices, ContainerOut.records]
    rw [this, ih, List.map_cons, List.flatten_cons]

/-- the containers' record lists are the `rps·spc`-chunks of the stream -/
theorem run_layout (P : Params α) (rps spc : Nat) (h1 : 1 ≤ rps) (h2 : 1 ≤ spc) (rs : List α)
    (out : List (ContainerOut α)) (h : run P rps spc rs = .ok out) :
    out.map (·.records) = chunks (rps * spc) rs := by
  have hstream := (run_spec P rps spc h1 h2 rs out h).1
  have hcap : 0 < rps * spc := Nat.mul_pos h1 h2
  unfold run at h
  cases ha : W.addAll P (W.new rps spc) rs with
  | error e => rw [ha] at h; cases h
  | ok w =>
    rw [ha] at h
    cases hf : w.flush P with
    | error e => simp only [hf] at h; cases h
    | ok w' =>
      simp only [hf] at h
      cases h
      have inv := addAll_spec P rps spc h2 rs [] _ w (Inv.new P rps spc h1 h2) ha
      have hfc := addAll_full P rps spc h2 rs [] _ w (Inv.new P rps spc h1 h2)
        (fun c hc => by simp [W.new] at hc) ha
      have key : (∀ c ∈ w'.out.map (·.records), 1 ≤ c.length ∧ c.length ≤ rps * spc) ∧
          (∀ c ∈ (w'.out.map (·.records)).dropLast, c.length = rps * spc) := by
        rcases flush_out P w w' hf with ⟨_, hw⟩ | ⟨hne, c, hb, ho⟩
        · rw [hw]
          have hall : ∀ c ∈ w.out.map (·.records), c.length = rps * spc := by
            intro c hc
            obtain ⟨c0, hc0, rfl⟩ := List.mem_map.mp hc
            exact hfc c0 hc0
          exact ⟨fun c hc => by rw [hall c hc]; omega, fun c hc => hall c (List.dropLast_subset _ hc)⟩
        · have hb' : buildContainer P rps w.counter w.records = .ok c := by rw [← inv.rps_eq]; exact hb
          obtain ⟨_, _, gr⟩ := buildContainer_spec P rps spc w.counter h2 w.records hne (Nat.le_of_lt inv.lt) c hb'
          have hpos : 0 < w.records.length := List.length_pos_iff.mpr hne
          have hlt := inv.lt
          rw [ho, List.map_append, List.map_cons, List.map_nil]
          refine ⟨fun x hx => ?_, fun x hx => ?_⟩
          · rcases List.mem_append.mp hx with hm | hm
            · obtain ⟨c0, hc0, rfl⟩ := List.mem_map.mp hm
              rw [hfc c0 hc0]; omega
            · have : x = c.records := by simpa using hm
              rw [this, gr]; omega
          · rw [List.dropLast_concat] at hx
            obtain ⟨c0, hc0, rfl⟩ := List.mem_map.mp hx
            exact hfc c0 hc0
      have := chunksGo_of_flatten (rps * spc) (w'.out.map (·.records)) key.1 key.2 rs.length
        (by rw [← allRecords_eq_flatten, hstream]; exact Nat.le_refl _)
      rw [← allRecords_eq_flatten, hstream] at this
      exact this.symm

/-! ## totality for one slice per container (the public builder) -/

theorem buildSlices_total (P : Params α) (all : List α)
    (hP : ∀ chunk : List α, chunk ≠ [] → ∃ ctx, P.ctxOf all chunk = .ok ctx)
    (cs : List (List α)) (hcs : ∀ c ∈ cs, c ≠ []) (counter : Nat) : ∃ ss, buildSlices P all counter cs = .ok ss := by
  induction cs generalizing counter with
  | nil => exact ⟨[], rfl⟩
  | cons c cs ih =>
    obtain ⟨ctx, hc⟩ := hP c (hcs c (List.mem_cons_self ..))
    obtain ⟨rest, hr⟩ := ih (fun c' hc' => hcs c' (List.mem_cons_of_mem _ hc')) (counter + c.length)
    exact ⟨⟨ctx, counter, c⟩ :: rest, by simp only [buildSlices, hc, hr]⟩

theorem buildContainer_total (P : Params α) (rps counter : Nat) (h1 : 1 ≤ rps) (records : List α)
    (hP : ∀ all chunk : List α, chunk ≠ [] → ∃ ctx, P.ctxOf all chunk = .ok ctx)
    (hne : records ≠ []) (hle : records.length ≤ rps * 1) : ∃ c, buildContainer P rps counter records = .ok c := by
  have h0 : rps ≠ 0 := by omega
  obtain ⟨ss, hs⟩ := buildSlices_total P records (hP records) (chunks rps records)
    (fun c hc => by
      have := (chunksGo_bounds rps h1 _ _ c hc).1
      intro h; rw [h] at this; simp at this) counter
  obtain ⟨i1, _, _⟩ := buildSlices_spec P records _ _ _ hs
  have hlen : ss.length = (chunks rps records).length := by rw [← i1, List.length_map]
  have hle1 : ss.length ≤ 1 := by rw [hlen]; exact chunksGo_length_le rps h1 _ _ 1 hle
  have hpos : 0 < ss.length := by rw [hlen]; exact List.length_pos_iff.mpr (chunks_ne_nil rps records hne)
  match ss, hs, hle1, hpos with
  | [s], hs, _, _ =>
    exact ⟨⟨s.ctx, counter, records.length, (records.map P.readLen).sum, [s]⟩, by
      simp only [buildContainer, h0, if_false, hs, List.map_cons, List.map_nil, containerCtx, mergeAll]⟩
  | [], _, _, hpos => simp at hpos
  | _ :: _ :: _, _, hle1, _ => simp at hle1

theorem flush_total (P : Params α) (rps : Nat) (h1 : 1 ≤ rps) (w : W α) (hr : w.rps = rps)
    (hP : ∀ all chunk : List α, chunk ≠ [] → ∃ ctx, P.ctxOf all chunk = .ok ctx)
    (hle : w.records.length ≤ rps * 1) : ∃ w', w.flush P = .ok w' := by
  unfold W.flush
  by_cases he : w.records.isEmpty
  · exact ⟨w, by rw [if_pos he]⟩
  · rw [if_neg he]
    have hne : w.records ≠ [] := by simpa using he
    obtain ⟨c, hc⟩ := buildContainer_total P rps w.counter h1 w.records hP hne hle
    rw [hr, hc]
    exact ⟨_, rfl⟩

theorem addRecord_total (P : Params α) (rps : Nat) (h1 : 1 ≤ rps) (done : List α) (w : W α) (r : α)
    (hP : ∀ all chunk : List α, chunk ≠ [] → ∃ ctx, P.ctxOf all chunk = .ok ctx)
    (inv : Inv P rps 1 done w) : ∃ w', w.addRecord P r = .ok w' := by
  obtain ⟨i1, i2, i3, _, _, _, _⟩ := inv
  have hg : growCap w.cap w.records.length = rps * 1 := by
    unfold growCap; rw [i2]
    have : ¬ w.records.length = rps * 1 := by omega
    rw [if_neg this]
  let w1 : W α := { w with cap := rps * 1, records := w.records ++ [r] }
  have h' : w.addRecord P r = (if w1.records.length ≥ w1.cap then w1.flush P else .ok w1) := by
    unfold W.addRecord
    rw [hg]
  have hl1 : w1.records.length = w.records.length + 1 := by simp [w1]
  have hc1 : w1.cap = rps * 1 := rfl
  rw [h']
  by_cases hfull : w1.records.length ≥ w1.cap
  · rw [if_pos hfull]
    exact flush_total P rps h1 w1 i1 hP (by omega)
  · rw [if_neg hfull]; exact ⟨w1, rfl⟩

theorem addAll_total (P : Params α) (rps : Nat) (h1 : 1 ≤ rps)
    (hP : ∀ all chunk : List α, chunk ≠ [] → ∃ ctx, P.ctxOf all chunk = .ok ctx)
    (rs : List α) (done : List α) (w : W α) (inv : Inv P rps 1 done w) :
    ∃ w', W.addAll P w rs = .ok w' ∧ Inv P rps 1 (done ++ rs) w' := by
  induction rs generalizing done w with
  | nil => exact ⟨w, rfl, by simpa using inv⟩
  | cons r rs ih =>
    obtain ⟨w1, h1'⟩ := addRecord_total P rps h1 done w r hP inv
    obtain ⟨w2, h2, i2⟩ := ih (done ++ [r]) w1 (addRecord_spec P rps 1 (Nat.le_refl 1) done w w1 r inv h1')
    exact ⟨w2, by simp only [W.addAll, h1', h2], by simpa using i2⟩

theorem run_total (P : Params α) (rps : Nat) (h1 : 1 ≤ rps)
    (hP : ∀ all chunk : List α, chunk ≠ [] → ∃ ctx, P.ctxOf all chunk = .ok ctx)
    (rs : List α) : ∃ out, run P rps 1 rs = .ok out := by
  obtain ⟨w, hw, inv⟩ := addAll_total P rps h1 hP rs [] _ (Inv.new P rps 1 h1 (Nat.le_refl 1))
  obtain ⟨w', hf⟩ := flush_total P rps h1 w inv.rps_eq hP (Nat.le_of_lt inv.lt)
  exact ⟨w'.out, by simp only [run, hw, hf]⟩

/-! ## reading -/

theorem readAll_spec {ι γ : Type} (dec : ι → Res (List γ)) (R : ι → List γ → Prop) (is : List ι)
    (h : ∀ i ∈ is, ∃ o, dec i = .ok o ∧ R i o) :
    ∃ outs : List (List γ), readAll dec is = .ok outs.flatten ∧ Forall2 R is outs := by
  induction is with
  | nil => exact ⟨[], rfl, Forall2.nil⟩
  | cons i is ih =>
    obtain ⟨o, ho, hR⟩ := h i (List.mem_cons_self ..)
    obtain ⟨outs, h1, h2⟩ := ih (fun j hj => h j (List.mem_cons_of_mem _ hj))
    refine ⟨o :: outs, ?_, Forall2.cons hR h2⟩
    simp only [readAll, ho, h1, List.flatten_cons]

theorem items_records (out : List (ContainerOut α)) : (items out).flatMap (·.2.records) = allRecords out := by
  induction out with
  | nil => rfl
  | cons c cs ih =>
    have : items (c :: cs) = c.slices.map (fun s => (c, s)) ++ items cs := by simp [items]
    rw [this, List.flatMap_append, ih]
    simp [allRecords, allSlices, List.flatMap_map]

theorem mem_items (out : List (ContainerOut α)) (c : ContainerOut α) (s : SliceOut α) (h : (c, s) ∈ items out) :
    c ∈ out ∧ s ∈ c.slices := by
  simp only [items, List.mem_flatMap, List.mem_map] at h
  obtain ⟨c', hc', s', hs', heq⟩ := h
  cases heq
  exact ⟨hc', hs'⟩

/-! ## the container's context -/

/-- a container context `c` agrees with a slice context `s`: same kind, same reference, range covered -/
def Agrees (c s : RefCtx) : Prop :=
  match c, s with
  | .some id S E, .some id' s e => id' = id ∧ S ≤ s ∧ e ≤ E
  | .none, .none => True
  | .many, .many => True
  | _, _ => False

theorem Agrees.refl (c : RefCtx) : Agrees c c := by
  cases c <;> simp [Agrees]

theorem Agrees.trans {a b c : RefCtx} (h1 : Agrees a b) (h2 : Agrees b c) : Agrees a c := by
  cases a <;> cases b <;> cases c <;> simp_all [Agrees] <;> omega

theorem mergeCtx_agrees (c d r : RefCtx) (h : mergeCtx c d = .ok r) : Agrees r c ∧ Agrees r d := by
  cases c <;> cases d <;> simp only [mergeCtx] at h
  case some.some id s e id' s' e' =>
    by_cases hid : id = id'
    · rw [if_pos hid] at h
      cases h
      subst hid
      simp only [Agrees, true_and]
      omega
    · rw [if_neg hid] at h; cases h
  all_goals (first | (cases h; simp [Agrees]) | cases h)

theorem mergeAll_agrees (ds : List RefCtx) (c r : RefCtx) (h : mergeAll c ds = .ok r) :
    Agrees r c ∧ ∀ d ∈ ds, Agrees r d := by
  induction ds generalizing c with
  | nil => simp only [mergeAll] at h; cases h; exact ⟨Agrees.refl _, fun d hd => by cases hd⟩
  | cons d ds ih =>
    simp only [mergeAll] at h
    cases hm : mergeCtx c d with
    | error e => rw [hm] at h; cases h
    | ok c' =>
      rw [hm] at h
      obtain ⟨a1, a2⟩ := ih c' h
      obtain ⟨b1, b2⟩ := mergeCtx_agrees c d c' hm
      refine ⟨a1.trans b1, fun x hx => ?_⟩
      rcases List.mem_cons.mp hx with h' | h'
      · subst h'; exact a1.trans b2
      · exact a2 x h'

theorem containerCtx_agrees (cs : List RefCtx) (r : RefCtx) (h : containerCtx cs = .ok r) :
    ∀ d ∈ cs, Agrees r d := by
  cases cs with
  | nil => simp [containerCtx] at h
  | cons c cs =>
    obtain ⟨a1, a2⟩ := mergeAll_agrees cs c r h
    intro d hd
    rcases List.mem_cons.mp hd with h' | h'
    · subst h'; exact a1
    · exact a2 d h'

end Noodles.Cram.Chunk
