import Noodles.Cram.Tok
import Noodles.Cram.NumProof
/-!
# Read name tokenizer: lemmas for `Noodles/Props/C08Tok.lean`

Contents: fixed-width integers and type bytes; decimal rendering against `parse_u32`; `tokenize`;
one token written by `TokenWriter::write_token` and read back by `TokenReader::read_token`; the
loop of `decode_single_name` against the loop of `build_diff`; the specification of `buildDiffs`;
all names; the container layout (`serialise` / `parseStreams`); `splitNames` / `joinNul`.
-/
namespace Noodles.Cram.Tok
open Noodles.Cram.Num (readUint7 writeUint7)

/-! ## type bytes, fixed-width integers -/

theorem Ty.ofByte_toByte (t : Ty) : Ty.ofByte t.toByte = some t := by
  cases t <;> rfl

theorem Ty.toByte_lt (t : Ty) : t.toByte < 13 := by
  cases t <;> decide

theorem readU32_le32 (n : Nat) (h : n < 2 ^ 32) (r : Bytes) :
    readU32 (le32 n ++ r) = .ok (n, r) := by
  simp only [le32, List.cons_append, List.nil_append, readU32]
  congr 2
  omega

theorem le32_bytes (n : Nat) : ∀ b ∈ le32 n, b < 256 := by
  intro b hb
  simp only [le32, List.mem_cons, List.not_mem_nil, or_false] at hb
  omega

/-! ## decimal rendering -/

def AllDigits (s : Bytes) : Prop := ∀ b ∈ s, 48 ≤ b ∧ b ≤ 57

theorem digitsVal_allDigits : ∀ (s : Bytes) (acc v : Nat), digitsVal s acc = some v → AllDigits s
  | [], _, _, _ => by intro b hb; cases hb
  | b :: r, acc, v, h => by
    unfold digitsVal at h
    split at h
    · rename_i hb
      intro x hx
      rcases List.mem_cons.mp hx with rfl | hx
      · exact hb
      · exact digitsVal_allDigits r _ v h x hx
    · cases h

theorem decFuel_indep : ∀ (f1 f2 n : Nat), n < f1 → n < f2 → decFuel f1 n = decFuel f2 n
  | 0, _, _, h, _ => by omega
  | _, 0, _, _, h => by omega
  | f1 + 1, f2 + 1, n, h1, h2 => by
    unfold decFuel
    split
    · rfl
    · rw [decFuel_indep f1 f2 (n / 10) (by omega) (by omega)]

theorem dec_lt10 (n : Nat) (h : n < 10) : dec n = [48 + n] := by
  unfold dec decFuel
  rw [if_pos h]

theorem dec_step (a d : Nat) (ha : 0 < a) (hd : d < 10) : dec (a * 10 + d) = dec a ++ [48 + d] := by
  unfold dec
  rw [decFuel, if_neg (by omega)]
  have h1 : (a * 10 + d) / 10 = a := by omega
  have h2 : (a * 10 + d) % 10 = d := by omega
  rw [h1, h2, decFuel_indep (a * 10 + d) (a + 1) a (by omega) (by omega)]

/-- a digit string read after a positive accumulator prints as the accumulator followed by it -/
theorem dec_digitsVal : ∀ (s : Bytes) (acc v : Nat), 0 < acc → digitsVal s acc = some v →
    dec v = dec acc ++ s
  | [], acc, v, _, h => by
    simp only [digitsVal, Option.some.injEq] at h
    simp [h]
  | b :: r, acc, v, hacc, h => by
    unfold digitsVal at h
    split at h
    · rename_i hb
      have := dec_digitsVal r _ v (by omega) h
      rw [this, dec_step acc (b - 48) hacc (by omega)]
      have : 48 + (b - 48) = b := by omega
      simp [this]
    · cases h

/-- a digit string without a leading zero is the decimal form of its value -/
theorem dec_of_canonical (s : Bytes) (v : Nat) (hne : s ≠ []) (h0 : s.head? ≠ some 48)
    (h : digitsVal s 0 = some v) : dec v = s := by
  cases s with
  | nil => exact absurd rfl hne
  | cons b r =>
    unfold digitsVal at h
    split at h
    · rename_i hb
      have hb48 : b ≠ 48 := fun e => h0 (by simp [e])
      have := dec_digitsVal r _ v (by omega) h
      rw [this]
      have h1 : 0 * 10 + (b - 48) = b - 48 := by omega
      rw [h1, dec_lt10 _ (by omega)]
      have : 48 + (b - 48) = b := by omega
      simp [this]
    · cases h

theorem dec_ne_nil (n : Nat) : dec n ≠ [] := by
  unfold dec decFuel
  split <;> simp

/-- `{:0width$}` with `width` = the length of the digit string gives the digit string back -/
theorem pad_of_digits : ∀ (s : Bytes) (v : Nat), s ≠ [] → digitsVal s 0 = some v →
    List.replicate (s.length - (dec v).length) 48 ++ dec v = s
  | [], _, hne, _ => absurd rfl hne
  | b :: r, v, _, h => by
    by_cases hb : b = 48
    · subst hb
      have h' : digitsVal r 0 = some v := by
        unfold digitsVal at h
        simpa using h
      cases r with
      | nil =>
        simp only [digitsVal, Option.some.injEq] at h'
        subst h'
        rw [dec_lt10 0 (by omega)]
        rfl
      | cons c t =>
        have ih := pad_of_digits (c :: t) v (by simp) h'
        have hlen : (dec v).length ≤ (c :: t).length := by
          have := congrArg List.length ih
          simp only [List.length_append, List.length_replicate] at this
          omega
        have e : (48 :: c :: t).length - (dec v).length = ((c :: t).length - (dec v).length) + 1 := by
          simp only [List.length_cons] at hlen ⊢
          omega
        rw [e, List.replicate_succ, List.cons_append, ih]
    · have := dec_of_canonical (b :: r) v (by simp) (by simp [hb]) h
      rw [this]
      simp

/-! ## `tokenize` -/

theorem flatten_tokenize : ∀ b : Bytes, (tokenize b).flatten = b
  | [] => rfl
  | b :: r => by
    have ih := flatten_tokenize r
    unfold tokenize
    split
    · rename_i c t ts heq
      rw [heq] at ih
      split
      · simpa using ih
      · simpa using ih
    · rename_i ts heq
      rw [heq] at ih
      simpa using ih
    · rename_i heq
      rw [heq] at ih
      simp at ih
      simp [ih]

/-- a raw token: not empty, all bytes of the class of its first byte -/
def Uniform (t : Bytes) : Prop := ∃ c r, t = c :: r ∧ ∀ x ∈ t, isAlnum x = isAlnum c

theorem tokenize_uniform : ∀ (b : Bytes) (t : Bytes), t ∈ tokenize b → Uniform t
  | [], t, h => by simp [tokenize] at h
  | b :: r, t, h => by
    have ih := tokenize_uniform r
    unfold tokenize at h
    split at h
    · rename_i c t' ts heq
      rw [heq] at ih
      split at h
      · rename_i hcl
        rcases List.mem_cons.mp h with rfl | h
        · obtain ⟨c', r', e, hu⟩ := ih (c :: t') (by simp)
          cases e
          refine ⟨b, c :: t', rfl, ?_⟩
          intro x hx
          rcases List.mem_cons.mp hx with rfl | hx
          · rfl
          · rw [hu x hx, hcl]
        · exact ih t (by simp [h])
      · rcases List.mem_cons.mp h with rfl | h
        · exact ⟨b, [], rfl, by simp⟩
        · exact ih t h
    · rename_i ts heq
      rw [heq] at ih
      rcases List.mem_cons.mp h with rfl | h
      · exact ⟨b, [], rfl, by simp⟩
      · exact ih t (by simp [h])
    · simp only [List.mem_cons, List.not_mem_nil, or_false] at h
      subst h
      exact ⟨b, [], rfl, by simp⟩

theorem parseDigits_some (d : Bytes) (n : Nat) (h : parseDigits d = some n) :
    d ≠ [] ∧ digitsVal d 0 = some n ∧ n < 2 ^ 32 := by
  unfold parseDigits at h
  by_cases hd : d = []
  · simp [hd] at h
  · rw [if_neg hd] at h
    cases hv : digitsVal d 0 with
    | none => simp [hv] at h
    | some v =>
      rw [hv] at h
      by_cases hlt : v < 2 ^ 32
      · simp only [hlt, if_true, Option.some.injEq] at h
        subst h
        exact ⟨hd, rfl, hlt⟩
      · simp [hlt] at h

/-- `parse_u32` on a raw token: when it answers, the token is a non-empty digit string (the sign
branch of `lexical_core` is never taken) -/
theorem parseU32_uniform (t : Bytes) (n : Nat) (hu : Uniform t) (h : parseU32 t = some n) :
    t ≠ [] ∧ digitsVal t 0 = some n ∧ n < 2 ^ 32 := by
  obtain ⟨c, r, rfl, hu⟩ := hu
  by_cases hc : c = 43
  · subst hc
    -- the first digit after the sign would be alphanumeric, the sign is not
    exfalso
    have h' : parseDigits r = some n := h
    obtain ⟨hr, hv, _⟩ := parseDigits_some r n h'
    cases r with
    | nil => exact hr rfl
    | cons d r' =>
      have hd := digitsVal_allDigits _ _ _ hv d (by simp)
      have := hu d (by simp)
      have h43 : isAlnum 43 = false := by decide
      rw [h43] at this
      unfold isAlnum at this
      have h1 : decide (48 ≤ d) = true := by simpa using hd.1
      have h2 : decide (d ≤ 57) = true := by simpa using hd.2
      simp [h1, h2] at this
  · have h' : parseDigits (c :: r) = some n := by
      unfold parseU32 at h
      split at h
      · rename_i heq
        cases heq
        exact absurd rfl hc
      · exact h
    exact parseDigits_some _ n h'

/-! ## the ten streams of a position as a monoid; one token -/

def Streams.append (a b : Streams) : Streams :=
  { ty := a.ty ++ b.ty, str := a.str ++ b.str, chr := a.chr ++ b.chr, d0 := a.d0 ++ b.d0,
    dz := a.dz ++ b.dz, dup := a.dup ++ b.dup, diff := a.diff ++ b.diff, dig := a.dig ++ b.dig,
    del := a.del ++ b.del, del0 := a.del0 ++ b.del0 }

theorem Streams.empty_append (a : Streams) : ({} : Streams).append a = a := by
  cases a; simp [Streams.append]

theorem Streams.append_empty (a : Streams) : a.append {} = a := by
  cases a; simp [Streams.append]

theorem Streams.append_assoc (a b c : Streams) : (a.append b).append c = a.append (b.append c) := by
  simp [Streams.append, List.append_assoc]

/-- what `write_token` appends for a token -/
def tokBytes : Token → Streams
  | .string s => { ty := [1], str := s ++ [0] }
  | .char b => { ty := [2], chr := [b] }
  | .padded n w => { ty := [3], d0 := le32 n, dz := [w] }
  | .dup d => { ty := [5], dup := le32 d }
  | .diff d => { ty := [6], diff := le32 d }
  | .digits n => { ty := [7], dig := le32 n }
  | .delta _ d => { ty := [8], del := [d] }
  | .delta0 _ d => { ty := [9], del0 := [d] }
  | .match => { ty := [10] }
  | .end => { ty := [12] }

/-- the conditions under which `write_token` does not refuse a token -/
def tokOk : Token → Prop
  | .padded _ w => w < 256
  | .dup d => d < 2 ^ 32
  | .diff d => d < 2 ^ 32
  | _ => True

theorem writeToken_ok (w w' : Streams) (tk : Token) (h : writeToken w tk = .ok w') :
    tokOk tk ∧ w' = w.append (tokBytes tk) := by
  cases tk <;> simp only [writeToken] at h
  case padded n wd =>
    split at h
    · rename_i hw
      cases h
      exact ⟨hw, by simp [Streams.append, tokBytes]⟩
    · cases h
  case dup d =>
    split at h
    · rename_i hw
      cases h
      exact ⟨hw, by simp [Streams.append, tokBytes]⟩
    · cases h
  case diff d =>
    split at h
    · rename_i hw
      cases h
      exact ⟨hw, by simp [Streams.append, tokBytes]⟩
    · cases h
  all_goals
    cases h
    exact ⟨trivial, by simp [Streams.append, tokBytes]⟩

theorem writeTokens_ok : ∀ (tks : List Token) (w w' : Streams), writeTokens w tks = .ok w' →
    (∀ tk ∈ tks, tokOk tk) ∧ w' = w.append (tks.foldr (fun tk acc => (tokBytes tk).append acc) {})
  | [], w, w', h => by
    simp only [writeTokens, Except.ok.injEq] at h
    simp [h, Streams.append_empty]
  | tk :: tks, w, w', h => by
    unfold writeTokens at h
    split at h
    · rename_i w1 h1
      obtain ⟨ok1, e1⟩ := writeToken_ok w w1 tk h1
      obtain ⟨ok2, e2⟩ := writeTokens_ok tks w1 w' h
      refine ⟨?_, ?_⟩
      · intro x hx
        rcases List.mem_cons.mp hx with rfl | hx
        · exact ok1
        · exact ok2 x hx
      · rw [e2, e1, List.foldr_cons, Streams.append_assoc]
    · cases h

@[simp] theorem ofByte_1 : Ty.ofByte 1 = some .string := rfl
@[simp] theorem ofByte_2 : Ty.ofByte 2 = some .char := rfl
@[simp] theorem ofByte_3 : Ty.ofByte 3 = some .digits0 := rfl
@[simp] theorem ofByte_5 : Ty.ofByte 5 = some .dup := rfl
@[simp] theorem ofByte_6 : Ty.ofByte 6 = some .diff := rfl
@[simp] theorem ofByte_7 : Ty.ofByte 7 = some .digits := rfl
@[simp] theorem ofByte_8 : Ty.ofByte 8 = some .delta := rfl
@[simp] theorem ofByte_9 : Ty.ofByte 9 = some .delta0 := rfl
@[simp] theorem ofByte_10 : Ty.ofByte 10 = some .match := rfl
@[simp] theorem ofByte_12 : Ty.ofByte 12 = some .end := rfl

theorem readString_append : ∀ (s r : Bytes), 0 ∉ s → readString (s ++ 0 :: r) = (s, r)
  | [], r, _ => by simp [readString]
  | b :: s, r, h => by
    have hb : b ≠ 0 := fun e => h (by simp [e])
    have hs : 0 ∉ s := fun e => h (List.mem_cons_of_mem _ e)
    have ih := readString_append s r hs
    simp only [List.cons_append]
    unfold readString
    rw [if_neg hb]
    cases hsr : s ++ 0 :: r with
    | nil => simp at hsr
    | cons c t =>
      rw [hsr] at ih
      simp only [ih]

/-- the relation between the encoder's token for a raw token `s` and the decoder's token: the
decoder's token prints as `s`, and a numeric encoder token carries the value (and, padded, the
width) the decoder holds — what `parse_delta` / `parse_delta0` of the next name rely on -/
def PrevOK (tk : Token) (s : Bytes) (dt : DTok) : Prop :=
  render dt = s ∧
  match tk with
  | .digits n => dt = .digits n
  | .delta n _ => dt = .digits n
  | .padded n _ => dt = .padded n s.length
  | .delta0 n _ => dt = .padded n s.length
  | _ => True

/-- properties of a raw token of a name without NUL -/
structure RawTok (s : Bytes) : Prop where
  uniform : Uniform s
  noNul : 0 ∉ s

theorem head_ne_48_of_parseDigits0_none (s : Bytes) (n : Nat) (h0 : parseDigits0 s = none)
    (h : parseU32 s = some n) : s.head? ≠ some 48 := by
  intro e
  unfold parseDigits0 at h0
  rw [if_pos e, h] at h0
  cases h0

theorem readToken_fresh (s : Bytes) (hs : RawTok s) (pd : Option DTok) (R : Streams)
    (hok : tokOk (freshToken s)) :
    ∃ dt, readToken ((tokBytes (freshToken s)).append R) pd = .ok (some dt, R) ∧
      PrevOK (freshToken s) s dt := by
  cases R
  unfold freshToken at hok ⊢
  cases h0 : parseDigits0 s with
  | some n =>
    simp only [h0] at hok ⊢
    have hp : parseU32 s = some n := by
      unfold parseDigits0 at h0
      split at h0
      · exact h0
      · cases h0
    obtain ⟨hne, hv, hlt⟩ := parseU32_uniform s n hs.uniform hp
    refine ⟨.padded n s.length, ?_, ?_, rfl⟩
    · simp [readToken, tokBytes, Streams.append, readU32_le32 n hlt]
    · exact pad_of_digits s n hne hv
  | none =>
    simp only [h0] at hok ⊢
    cases hp : parseU32 s with
    | some n =>
      simp only [hp] at hok ⊢
      obtain ⟨hne, hv, hlt⟩ := parseU32_uniform s n hs.uniform hp
      refine ⟨.digits n, ?_, ?_, rfl⟩
      · simp [readToken, tokBytes, Streams.append, readU32_le32 n hlt]
      · exact dec_of_canonical s n hne (head_ne_48_of_parseDigits0_none s n h0 hp) hv
    | none =>
      simp only [hp] at hok ⊢
      split
      · rename_i b
        exact ⟨.char b, by simp [readToken, tokBytes, Streams.append], rfl, trivial⟩
      · refine ⟨.string s, ?_, rfl, trivial⟩
        simp [readToken, tokBytes, Streams.append, readString_append s _ hs.noNul]

theorem deltaOf_some (n0 : Nat) (s : Bytes) (n d : Nat) (h : deltaOf n0 s = some (n, d)) :
    parseU32 s = some n ∧ n0 ≤ n ∧ d = n - n0 ∧ d ≤ 255 := by
  unfold deltaOf at h
  cases hp : parseU32 s with
  | none => simp [hp] at h
  | some m =>
    simp only [hp] at h
    split at h
    · rename_i hc
      cases h
      exact ⟨rfl, hc.1, rfl, hc.2⟩
    · cases h

/-- one token of `build_diff` written by `write_token` is read back by `read_token` against the
decoder's token of the previous name at the same position -/
theorem readToken_diffToken (s : Bytes) (hs : RawTok s)
    (pr : Option Bytes) (pt : Option Token) (pd : Option DTok)
    (hprev : ∀ r t, pr = some r → pt = some t → ∃ d, pd = some d ∧ PrevOK t r d)
    (hok : tokOk (diffToken pr pt s)) (R : Streams) :
    ∃ dt, readToken ((tokBytes (diffToken pr pt s)).append R) pd = .ok (some dt, R) ∧
      PrevOK (diffToken pr pt s) s dt := by
  cases pr with
  | none => exact readToken_fresh s hs pd R hok
  | some r =>
    cases pt with
    | none => exact readToken_fresh s hs pd R hok
    | some t =>
      obtain ⟨d, rfl, hrd, hval⟩ := hprev r t rfl rfl
      simp only [diffToken] at hok ⊢
      by_cases hsr : s = r
      · -- Match
        rw [if_pos hsr]
        refine ⟨d, ?_, ?_, trivial⟩
        · cases R
          simp [readToken, tokBytes, Streams.append]
        · rw [hsr]; exact hrd
      · rw [if_neg hsr] at hok ⊢
        cases hpd : parseDelta t s with
        | some nd =>
          obtain ⟨n, dl⟩ := nd
          simp only [hpd] at hok ⊢
          -- Delta: the previous encoder token is Digits / Delta, so the decoder holds Digits
          have key : ∃ n0, d = .digits n0 ∧ s.head? ≠ some 48 ∧ deltaOf n0 s = some (n, dl) := by
            cases t <;> simp only [parseDelta] at hpd <;> try cases hpd
            all_goals
              split at hpd
              · cases hpd
              · rename_i h48
                exact ⟨_, hval, h48, hpd⟩
          obtain ⟨n0, rfl, h48, hdl⟩ := key
          obtain ⟨hp, hle, rfl, _⟩ := deltaOf_some n0 s n dl hdl
          obtain ⟨hne, hv, hlt⟩ := parseU32_uniform s n hs.uniform hp
          have hsum : n0 + (n - n0) = n := by omega
          refine ⟨.digits n, ?_, ?_, rfl⟩
          · cases R
            simp [readToken, tokBytes, Streams.append, hsum, hlt]
          · exact dec_of_canonical s n hne h48 hv
        | none =>
          simp only [hpd] at hok ⊢
          cases hpd0 : parseDelta0 r t s with
          | some nd =>
            obtain ⟨n, dl⟩ := nd
            simp only [hpd0] at hok ⊢
            have key : ∃ n0, d = .padded n0 r.length ∧ s.length = r.length ∧
                deltaOf n0 s = some (n, dl) := by
              cases t <;> simp only [parseDelta0] at hpd0 <;> try cases hpd0
              all_goals
                split at hpd0
                · rename_i hlen
                  exact ⟨_, hval, hlen, hpd0⟩
                · cases hpd0
            obtain ⟨n0, rfl, hlen, hdl⟩ := key
            obtain ⟨hp, hle, rfl, _⟩ := deltaOf_some n0 s n dl hdl
            obtain ⟨hne, hv, hlt⟩ := parseU32_uniform s n hs.uniform hp
            have hsum : n0 + (n - n0) = n := by omega
            refine ⟨.padded n s.length, ?_, ?_, rfl⟩
            · cases R
              simp [readToken, tokBytes, Streams.append, hsum, hlt, hlen]
            · exact pad_of_digits s n hne hv
          | none =>
            simp only [hpd0] at hok ⊢
            exact readToken_fresh s hs _ R hok

/-! ## one name: the loop of `decode_single_name` against the loop of `build_diff` -/

/-- encoder tokens, raw tokens and decoder tokens of one name, position by position (the encoder
list may be longer: its `End`) -/
inductive Agree : List Token → List Bytes → List DTok → Prop
  | nil (pts : List Token) : Agree pts [] []
  | cons {pt : Token} {pr : Bytes} {pd : DTok} {pts : List Token} {prs : List Bytes}
      {pds : List DTok} : PrevOK pt pr pd → Agree pts prs pds →
      Agree (pt :: pts) (pr :: prs) (pd :: pds)

theorem Agree.length_eq {pts prs pds} (h : Agree pts prs pds) : pds.length = prs.length := by
  induction h with
  | nil => rfl
  | cons _ _ ih => simp [ih]

theorem Agree.flatten_render {pts prs pds} (h : Agree pts prs pds) :
    (pds.map render).flatten = prs.flatten := by
  induction h with
  | nil => rfl
  | cons h1 _ ih => simp [ih, h1.1]

/-- the streams of all positions while a name is being decoded: positions below `t` have given up
this name's contribution `C p`, the others still start with it -/
def mid (P : Nat) (C S' : Nat → Streams) (t : Nat) : List Streams :=
  (List.range P).map fun p => if p < t then S' p else (C p).append (S' p)

theorem mid_get (P : Nat) (C S' : Nat → Streams) (t : Nat) (h : t < P) :
    (mid P C S' t)[t]? = some ((C t).append (S' t)) := by
  simp [mid, h]

theorem mid_set (P : Nat) (C S' : Nat → Streams) (t : Nat) :
    (mid P C S' t).set t (S' t) = mid P C S' (t + 1) := by
  apply List.ext_getElem?
  intro p
  simp only [mid, List.getElem?_set, List.length_map, List.length_range, List.getElem?_map]
  by_cases hp : p < P
  · rw [List.getElem?_range hp]
    by_cases htp : t = p
    · subst htp
      simp [hp]
    · simp only [htp, if_false, Option.map_some]
      congr 1
      by_cases h1 : p < t
      · rw [if_pos h1, if_pos (by omega)]
      · rw [if_neg h1, if_neg (by omega)]
  · have : (List.range P)[p]? = none := by
      rw [List.getElem?_eq_none_iff]; simp; omega
    by_cases htp : t = p
    · subst htp
      simp [hp]
    · simp [htp, this]

theorem mid_done (P : Nat) (C S' : Nat → Streams) (t : Nat) (h : ∀ p, t ≤ p → C p = {}) :
    mid P C S' t = (List.range P).map S' := by
  unfold mid
  apply List.map_congr_left
  intro p _
  by_cases hp : p < t
  · rw [if_pos hp]
  · rw [if_neg hp, h p (by omega), Streams.empty_append]

theorem diffTokens_length : ∀ (ss prs : List Bytes) (pts : List Token),
    (diffTokens ss prs pts).length = ss.length
  | [], _, _ => rfl
  | _ :: ss, prs, pts => by simp [diffTokens, diffTokens_length ss]

/-- The loop of `decode_single_name`, started at position `t` on streams that begin with what
`write_token` appended for the tokens `build_diff` chose for the raw tokens `ss`, re-creates `ss`,
consumes exactly those contributions, and leaves decoder tokens that agree with the encoder's. -/
theorem nameLoop_spec (P : Nat) (C S' : Nat → Streams) (prevFull : List DTok) :
    ∀ (ss prs : List Bytes) (pts : List Token) (pds : List DTok) (t fuel : Nat)
      (cur : List DTok) (name : Bytes),
      Agree pts prs pds → 1 ≤ t → prevFull.drop (t - 1) = pds →
      (∀ s ∈ ss, RawTok s) →
      (∀ tk ∈ diffTokens ss prs pts, tokOk tk) →
      (∀ j, C (t + j) = match (diffTokens ss prs pts ++ [.end])[j]? with
        | some tk => tokBytes tk
        | none => {}) →
      t + ss.length < P → ss.length < fuel →
      ∃ dts, nameLoop fuel t (mid P C S' t) prevFull cur name =
          .ok (mid P C S' (t + ss.length + 1), name ++ ss.flatten, cur ++ dts) ∧
        Agree (diffTokens ss prs pts ++ [.end]) ss dts
  | [], prs, pts, pds, t, fuel, cur, name, _, _, _, _, _, hC, hP, hfuel => by
    obtain ⟨fuel, rfl⟩ : ∃ f, fuel = f + 1 := ⟨fuel - 1, by simp at hfuel; omega⟩
    refine ⟨[], ?_, Agree.nil _⟩
    have hCt : C t = tokBytes .end := by simpa [diffTokens] using hC 0
    unfold nameLoop
    rw [mid_get P C S' t (by simpa using hP), hCt]
    have : readToken ((tokBytes .end).append (S' t)) prevFull[t - 1]? = .ok (none, S' t) := by
      cases S' t
      simp [readToken, tokBytes, Streams.append]
    simp only [this, mid_set]
    simp
  | s :: ss, prs, pts, pds, t, fuel, cur, name, hag, ht, hprev, hraw, hok, hC, hP, hfuel => by
    obtain ⟨fuel, rfl⟩ : ∃ f, fuel = f + 1 := ⟨fuel - 1, by simp at hfuel; omega⟩
    have hs : RawTok s := hraw s (by simp)
    -- the previous name's data at this position
    have hpd : prevFull[t - 1]? = pds.head? := by rw [← hprev, List.head?_drop]
    have hprevOK : ∀ r tk, prs.head? = some r → pts.head? = some tk →
        ∃ d, prevFull[t - 1]? = some d ∧ PrevOK tk r d := by
      intro r tk h1 h2
      cases hag with
      | nil => simp at h1
      | cons hp _ =>
        simp only [List.head?_cons, Option.some.injEq] at h1 h2
        subst h1 h2
        exact ⟨_, by rw [hpd]; rfl, hp⟩
    have hagTail : Agree pts.tail prs.tail pds.tail := by
      cases hag with
      | nil => exact Agree.nil _
      | cons _ h => exact h
    have hok0 : tokOk (diffToken prs.head? pts.head? s) := hok _ (by simp [diffTokens])
    obtain ⟨dt, hread, hprevNew⟩ :=
      readToken_diffToken s hs prs.head? pts.head? prevFull[t - 1]? hprevOK hok0 (S' t)
    have hCt : C t = tokBytes (diffToken prs.head? pts.head? s) := by
      simpa [diffTokens] using hC 0
    obtain ⟨dts, hrec, hag'⟩ := nameLoop_spec P C S' prevFull ss prs.tail pts.tail pds.tail
      (t + 1) fuel (cur ++ [dt]) (name ++ render dt) hagTail (by omega)
      (by rw [← hprev, List.tail_drop]; congr 1; omega)
      (fun x hx => hraw x (List.mem_cons_of_mem _ hx))
      (fun tk htk => hok tk (by simp [diffTokens, htk]))
      (by
        intro j
        have := hC (j + 1)
        have e : t + (j + 1) = t + 1 + j := by omega
        rw [e] at this
        rw [this]
        simp [diffTokens])
      (by simp only [List.length_cons] at hP; omega)
      (by simp only [List.length_cons] at hfuel; omega)
    refine ⟨dt :: dts, ?_, ?_⟩
    · unfold nameLoop
      rw [mid_get P C S' t (by simp only [List.length_cons] at hP; omega), hCt]
      simp only [hread, mid_set]
      rw [hrec]
      simp only [List.length_cons, List.flatten_cons, hprevNew.1, List.append_assoc,
        List.cons_append, List.nil_append]
      congr 3
      omega
    · simp only [diffTokens, List.cons_append]
      exact Agree.cons hprevNew hag'

/-- what a name contributes to the streams of position `p` -/
def contrib (d : Diff) (p : Nat) : Streams :=
  match p with
  | 0 => tokBytes d.modeToken
  | j + 1 =>
    if d.isDup then {}
    else match d.tokens[j]? with
      | some tk => tokBytes tk
      | none => {}

theorem mid_zero (P : Nat) (C S' : Nat → Streams) :
    mid P C S' 0 = (List.range P).map fun p => (C p).append (S' p) := by
  simp [mid]

theorem readDistance_diff (k : Nat) (hk : k < 2 ^ 32) (R : Streams) :
    readDistance ((tokBytes (.diff k)).append R) = .ok (.diff, k, R) := by
  cases R
  simp [readDistance, tokBytes, Streams.append, readU32_le32 k hk]

theorem readDistance_dup (k : Nat) (hk : k < 2 ^ 32) (R : Streams) :
    readDistance ((tokBytes (.dup k)).append R) = .ok (.dup, k, R) := by
  cases R
  simp [readDistance, tokBytes, Streams.append, readU32_le32 k hk]

/-- `decode_single_name` on a name that the encoder coded as a difference to name `n - k` -/
theorem decodeSingleName_diff (P : Nat) (S' : Nat → Streams) (d : Diff) (k : Nat)
    (done : List (Bytes × List DTok)) (prs : List Bytes) (pts : List Token)
    (hmode : d.mode = .diff k) (hk : k < 2 ^ 32) (hkn : k ≤ done.length)
    (hag : Agree pts prs
      (if done.length - k = done.length then (([] : Bytes), ([] : List DTok))
        else done.getD (done.length - k) ([], [])).2)
    (htok : d.tokens = diffTokens d.raw prs pts ++ [.end])
    (hraw : ∀ s ∈ d.raw, RawTok s) (hok : ∀ tk ∈ d.tokens, tokOk tk)
    (hP : d.tokens.length < P) (h128 : d.tokens.length < 128) :
    ∃ dts, decodeSingleName ((List.range P).map fun p => (contrib d p).append (S' p)) done =
        .ok ((List.range P).map S', d.raw.flatten, dts) ∧ Agree d.tokens d.raw dts := by
  have hlen : d.tokens.length = d.raw.length + 1 := by
    rw [htok, List.length_append, diffTokens_length]; rfl
  have hnd : d.isDup = false := by simp [Diff.isDup, hmode]
  rw [← mid_zero]
  unfold decodeSingleName
  rw [mid_get P (contrib d) S' 0 (by omega)]
  have hc0 : contrib d 0 = tokBytes (.diff k) := by simp [contrib, Diff.modeToken, hmode]
  rw [hc0]
  simp only [readDistance_diff k hk, mid_set]
  rw [if_neg (by omega)]
  simp only [show (Ty.diff = Ty.dup) = False by simp, if_false]
  generalize (if done.length - k = done.length then (([] : Bytes), ([] : List DTok))
    else done.getD (done.length - k) ([], [])) = prev at hag ⊢
  obtain ⟨dts, hloop, hag'⟩ := nameLoop_spec P (contrib d) S' prev.2 d.raw prs pts prev.2 1 127
    [] [] hag (by omega) (by simp) hraw
    (by intro tk htk; exact hok tk (by rw [htok]; exact List.mem_append_left _ htk))
    (by
      intro j
      have : contrib d (1 + j) = contrib d (j + 1) := by rw [Nat.add_comm]
      rw [this]
      simp only [contrib, hnd, Bool.false_eq_true, if_false, htok])
    (by omega) (by omega)
  refine ⟨dts, ?_, by rw [htok]; exact hag'⟩
  simp only [Nat.zero_add] at hloop ⊢
  rw [hloop]
  simp only [List.nil_append]
  congr 2
  apply mid_done
  intro p hp
  obtain ⟨j, rfl⟩ : ∃ j, p = j + 1 := ⟨p - 1, by omega⟩
  simp only [contrib, hnd, Bool.false_eq_true, if_false]
  have : d.tokens[j]? = none := by
    rw [List.getElem?_eq_none_iff]; omega
  rw [this]

/-- `decode_single_name` on a name that the encoder coded as a duplicate of name `n - k` -/
theorem decodeSingleName_dup (P : Nat) (S' : Nat → Streams) (d : Diff) (k : Nat)
    (done : List (Bytes × List DTok)) (e : Bytes × List DTok)
    (hmode : d.mode = .dup k) (hk : k < 2 ^ 32) (hk1 : 1 ≤ k) (hkn : k ≤ done.length)
    (hprev : done[done.length - k]? = some e) (hP : 0 < P) :
    decodeSingleName ((List.range P).map fun p => (contrib d p).append (S' p)) done =
      .ok ((List.range P).map S', e.1, e.2) := by
  have hd : d.isDup = true := by simp [Diff.isDup, hmode]
  rw [← mid_zero]
  unfold decodeSingleName
  rw [mid_get P (contrib d) S' 0 hP]
  have hc0 : contrib d 0 = tokBytes (.dup k) := by simp [contrib, Diff.modeToken, hmode]
  rw [hc0]
  simp only [readDistance_dup k hk, mid_set]
  rw [if_neg (show ¬ done.length < k by omega),
    if_neg (show ¬ done.length - k = done.length by omega)]
  simp only [if_true]
  have hget : done.getD (done.length - k) ([], []) = e := by
    rw [List.getD_eq_getElem?_getD, hprev]; rfl
  rw [hget]
  congr 2
  apply mid_done
  intro p hp
  obtain ⟨j, rfl⟩ : ∃ j, p = j + 1 := ⟨p - 1, by omega⟩
  simp [contrib, hd]

/-! ## what `buildDiffs` builds -/

/-- Name `k` of `names` and its `Diff` `d` within the list `D` of all diffs: the raw tokens are
those of the name; the first name is a `Diff(0)` coded against nothing; a later name is either a
`Dup(k - j)` of an earlier name `j ≥ 1` with the same bytes whose own diff is not a duplicate, coded
against that name, or a `Diff(1)` coded against its predecessor. -/
def StepSpec (names : List Bytes) (D : List Diff) (k : Nat) (d : Diff) : Prop :=
  ∃ name, names[k]? = some name ∧ d.raw = tokenize name ∧
    ((k = 0 ∧ d.mode = .diff 0 ∧ d.tokens = diffTokens d.raw [] [] ++ [.end]) ∨
     (∃ j dj, 1 ≤ j ∧ j < k ∧ names[j]? = some name ∧ D[j]? = some dj ∧ dj.isDup = false ∧
        d.mode = .dup (k - j) ∧ d.tokens = diffTokens d.raw dj.raw dj.tokens ++ [.end]) ∨
     (∃ dp, 0 < k ∧ D[k - 1]? = some dp ∧ d.mode = .diff 1 ∧
        d.tokens = diffTokens d.raw dp.raw dp.tokens ++ [.end]))

/-- the specification of `buildDiffs` -/
def Spec (names : List Bytes) (D : List Diff) : Prop :=
  D.length = names.length ∧ ∀ k d, D[k]? = some d → StepSpec names D k d

theorem getElem?_append_of_some {α : Type} (l x : List α) (j : Nat) (a : α) (h : l[j]? = some a) :
    (l ++ x)[j]? = some a := by
  have hj : j < l.length := (List.getElem?_eq_some_iff.mp h).1
  rw [List.getElem?_append_left hj, h]

theorem StepSpec.mono {names : List Bytes} {D : List Diff} {k : Nat} {d : Diff}
    (h : StepSpec names D k d) (X : List Diff) : StepSpec names (D ++ X) k d := by
  obtain ⟨name, h1, h2, h3⟩ := h
  refine ⟨name, h1, h2, ?_⟩
  rcases h3 with h3 | ⟨j, dj, a, b, c, e, f, g, i⟩ | ⟨dp, a, b, c, e⟩
  · exact Or.inl h3
  · exact Or.inr (Or.inl ⟨j, dj, a, b, c, getElem?_append_of_some _ _ _ _ e, f, g, i⟩)
  · exact Or.inr (Or.inr ⟨dp, a, getElem?_append_of_some _ _ _ _ b, c, e⟩)

theorem lookup_append (nm : Bytes) (seen : List (Bytes × Nat)) (k : Bytes) (v j : Nat)
    (h : lookup nm (seen ++ [(k, v)]) = some j) :
    lookup nm seen = some j ∨ (lookup nm seen = none ∧ k = nm ∧ v = j) := by
  induction seen with
  | nil =>
    simp only [List.nil_append, lookup] at h
    split at h
    · rename_i hk
      simp only [Option.some.injEq] at h
      exact Or.inr ⟨rfl, hk, h⟩
    · cases h
  | cons e seen ih =>
    obtain ⟨k', v'⟩ := e
    simp only [List.cons_append, lookup] at h ⊢
    split
    · rename_i hk
      rw [if_pos hk] at h
      exact Or.inl h
    · rename_i hk
      rw [if_neg hk] at h
      exact ih h

/-- the invariant of the loop of `encode` that builds the diffs -/
structure BInv (names : List Bytes) (diffs : List Diff) (seen : List (Bytes × Nat)) : Prop where
  step : ∀ k d, diffs[k]? = some d → StepSpec names diffs k d
  seen : ∀ nm j, lookup nm seen = some j → 1 ≤ j ∧ j < diffs.length ∧ names[j]? = some nm ∧
    ∃ dj, diffs[j]? = some dj ∧ dj.isDup = false

theorem buildRest_spec : ∀ (rest pre : List Bytes) (diffs : List Diff) (seen : List (Bytes × Nat))
    (names : List Bytes), names = pre ++ rest → pre.length = diffs.length → 1 ≤ diffs.length →
    BInv names diffs seen → Spec names (buildRest rest diffs.length diffs seen)
  | [], pre, diffs, seen, names, hn, hl, _, inv => by
    simp only [buildRest]
    refine ⟨?_, inv.step⟩
    rw [hn, List.append_nil, hl]
  | name :: rest, pre, diffs, seen, names, hn, hl, h1, inv => by
    simp only [buildRest]
    have hname : names[diffs.length]? = some name := by
      rw [hn, ← hl]; simp
    have hlen' : (diffs ++ [buildDiff diffs seen diffs.length name]).length = diffs.length + 1 := by
      simp
    rw [← hlen']
    apply buildRest_spec rest (pre ++ [name]) _ _ names (by simp [hn]) (by simp [hl]) (by simp)
    -- the new diff
    have hnew : StepSpec names (diffs ++ [buildDiff diffs seen diffs.length name]) diffs.length
        (buildDiff diffs seen diffs.length name) ∧
        (lookup name seen = none → (buildDiff diffs seen diffs.length name).isDup = false) := by
      cases hl' : lookup name seen with
      | some j =>
        obtain ⟨hj1, hjk, hnj, dj, hdj, hnd⟩ := inv.seen name j hl'
        refine ⟨⟨name, hname, by simp [buildDiff], Or.inr (Or.inl ⟨j, dj, hj1, hjk, hnj,
          getElem?_append_of_some _ _ _ _ hdj, hnd, by simp [buildDiff, hl'], ?_⟩)⟩, by simp⟩
        have e : diffs.length - (diffs.length - j) = j := by omega
        simp [buildDiff, hl', e, List.getD_eq_getElem?_getD, hdj]
      | none =>
        obtain ⟨dp, hdp⟩ : ∃ dp, diffs[diffs.length - 1]? = some dp := by
          have : diffs.length - 1 < diffs.length := by omega
          exact ⟨diffs[diffs.length - 1], by simp [this]⟩
        refine ⟨⟨name, hname, by simp [buildDiff], Or.inr (Or.inr ⟨dp, by omega,
          getElem?_append_of_some _ _ _ _ hdp, by simp [buildDiff, hl'], ?_⟩)⟩, ?_⟩
        · simp [buildDiff, hl', List.getD_eq_getElem?_getD, hdp]
        · intro _; simp [buildDiff, hl', Diff.isDup]
    constructor
    · intro k d hk
      by_cases hkl : k < diffs.length
      · rw [List.getElem?_append_left hkl] at hk
        exact (inv.step k d hk).mono _
      · have hk' : k = diffs.length := by
          have := (List.getElem?_eq_some_iff.mp hk).1
          simp at this; omega
        subst hk'
        simp only [List.getElem?_append_right (Nat.le_refl _), Nat.sub_self, List.getElem?_cons_zero,
          Option.some.injEq] at hk
        subst hk
        exact hnew.1
    · intro nm j hj
      simp only [List.length_append, List.length_cons, List.length_nil, Nat.zero_add]
      have old : lookup nm seen = some j → 1 ≤ j ∧ j < diffs.length + 1 ∧ names[j]? = some nm ∧
          ∃ dj, (diffs ++ [buildDiff diffs seen diffs.length name])[j]? = some dj ∧
            dj.isDup = false := by
        intro h
        obtain ⟨a, b, c, dj, e, f⟩ := inv.seen nm j h
        exact ⟨a, by omega, c, dj, getElem?_append_of_some _ _ _ _ e, f⟩
      unfold insertIfAbsent at hj
      cases hl' : lookup name seen with
      | some j' =>
        rw [hl'] at hj
        exact old hj
      | none =>
        rw [hl'] at hj
        rcases lookup_append nm seen name diffs.length j hj with h | ⟨_, rfl, rfl⟩
        · exact old h
        · refine ⟨h1, by omega, hname, _, ?_, hnew.2 hl'⟩
          simp

theorem buildDiffs_spec (names : List Bytes) : Spec names (buildDiffs names) := by
  cases names with
  | nil => exact ⟨rfl, by intro k d h; simp [buildDiffs] at h⟩
  | cons name rest =>
    simp only [buildDiffs]
    have := buildRest_spec rest [name] [buildFirstDiff name] [] (name :: rest) rfl rfl
      (by simp) ⟨?_, ?_⟩
    · simpa using this
    · intro k d hk
      have hk0 : k = 0 := by
        have := (List.getElem?_eq_some_iff.mp hk).1
        simp at this; omega
      subst hk0
      simp only [List.getElem?_cons_zero, Option.some.injEq] at hk
      subst hk
      exact ⟨name, rfl, rfl, Or.inl ⟨rfl, rfl, rfl⟩⟩
    · intro nm j h
      simp [lookup] at h

theorem StepSpec.tokens_length {names : List Bytes} {D : List Diff} {k : Nat} {d : Diff}
    (h : StepSpec names D k d) : d.tokens.length = d.raw.length + 1 := by
  obtain ⟨name, _, _, h3⟩ := h
  rcases h3 with ⟨_, _, h⟩ | ⟨j, dj, _, _, _, _, _, _, h⟩ | ⟨dp, _, _, _, h⟩ <;>
    rw [h, List.length_append, diffTokens_length] <;> rfl

/-! ## all names -/

/-- the streams of position `p` that the names `F` contribute, in order -/
def streamsAt (F : List Diff) (p : Nat) : Streams :=
  F.foldr (fun d acc => (contrib d p).append acc) {}

theorem rawTok_of_tokenize (name : Bytes) (h0 : 0 ∉ name) : ∀ s ∈ tokenize name, RawTok s := by
  intro s hs
  refine ⟨tokenize_uniform name s hs, ?_⟩
  intro h
  apply h0
  rw [← flatten_tokenize name]
  exact List.mem_flatten.mpr ⟨s, hs, h⟩

/-- a name with the raw tokens of the name it is coded against gets `Match` everywhere -/
theorem agree_dup {pts : List Token} {prs : List Bytes} {pds : List DTok}
    (h : Agree pts prs pds) : Agree (diffTokens prs prs pts ++ [.end]) prs pds := by
  induction h with
  | nil pts => exact Agree.nil _
  | cons hp _ ih =>
    simp only [diffTokens, List.head?_cons, List.tail_cons, diffToken, if_true, List.cons_append]
    exact Agree.cons ⟨hp.1, trivial⟩ ih

/-- what the decoder holds after `k` names -/
structure DoneInv (names : List Bytes) (D : List Diff) (k : Nat)
    (done : List (Bytes × List DTok)) : Prop where
  len : done.length = k
  ent : ∀ j, j < k → ∃ d e, D[j]? = some d ∧ done[j]? = some e ∧ names[j]? = some e.1 ∧
    Agree d.tokens d.raw e.2

theorem DoneInv.push {names : List Bytes} {D : List Diff} {k : Nat}
    {done : List (Bytes × List DTok)} (inv : DoneInv names D k done) (d : Diff) (nm : Bytes)
    (dt : List DTok) (hd : D[k]? = some d) (hn : names[k]? = some nm)
    (hag : Agree d.tokens d.raw dt) : DoneInv names D (k + 1) (done ++ [(nm, dt)]) := by
  constructor
  · simp [inv.len]
  · intro j hj
    by_cases hjk : j < k
    · obtain ⟨d', e, a, b, c, f⟩ := inv.ent j hjk
      exact ⟨d', e, a, getElem?_append_of_some _ _ _ _ b, c, f⟩
    · have : j = k := by omega
      subst this
      refine ⟨d, (nm, dt), hd, ?_, hn, hag⟩
      rw [List.getElem?_append_right (by rw [inv.len]; exact Nat.le_refl _), inv.len]
      simp

theorem decodeNames_spec (names : List Bytes) (D : List Diff) (hspec : Spec names D)
    (hnul : ∀ nm ∈ names, 0 ∉ nm) (P : Nat) (hP0 : 0 < P)
    (hP : ∀ d ∈ D, d.tokens.length < P) (h128 : ∀ d ∈ D, d.tokens.length < 128)
    (hok : ∀ d ∈ D, tokOk d.modeToken ∧ (d.isDup = false → ∀ tk ∈ d.tokens, tokOk tk)) :
    ∀ (r k : Nat) (done : List (Bytes × List DTok)), k + r = D.length → DoneInv names D k done →
      decodeNames r ((List.range P).map (streamsAt (D.drop k))) done = .ok names
  | 0, k, done, hk, inv => by
    simp only [decodeNames]
    congr 1
    apply List.ext_getElem?
    intro j
    by_cases hj : j < k
    · obtain ⟨d, e, _, b, c, _⟩ := inv.ent j hj
      rw [List.getElem?_map, b, c]; rfl
    · have h1 : (List.map (fun x => x.1) done)[j]? = none := by
        rw [List.getElem?_eq_none_iff]; simp [inv.len]; omega
      have h2 : names[j]? = none := by
        rw [List.getElem?_eq_none_iff, ← hspec.1]; omega
      rw [h1, h2]
  | r + 1, k, done, hk, inv => by
    have hkD : k < D.length := by omega
    have hd : D[k]? = some D[k] := by simp [hkD]
    have hmem : D[k] ∈ D := List.getElem_mem hkD
    rw [List.drop_eq_getElem_cons hkD]
    generalize D[k] = d at hd hmem
    have hstreams : (List.range P).map (streamsAt (d :: D.drop (k + 1))) =
        (List.range P).map fun p => (contrib d p).append (streamsAt (D.drop (k + 1)) p) := by
      apply List.map_congr_left
      intro p _
      rfl
    rw [hstreams]
    obtain ⟨hokm, hokt⟩ := hok d hmem
    obtain ⟨name, hname, hraw, hcase⟩ := hspec.2 k d hd
    have hnm0 : 0 ∉ name := hnul name (List.mem_of_getElem? hname)
    have hrt : ∀ s ∈ d.raw, RawTok s := by rw [hraw]; exact rawTok_of_tokenize name hnm0
    have hflat : d.raw.flatten = name := by rw [hraw]; exact flatten_tokenize name
    unfold decodeNames
    rcases hcase with ⟨hk0, hmode, htok⟩ | ⟨j, dj, hj1, hjk, hnj, hdj, _, hmode, htok⟩ |
      ⟨dp, hk0, hdp, hmode, htok⟩
    · -- the first name
      subst hk0
      have hdn : d.isDup = false := by simp [Diff.isDup, hmode]
      obtain ⟨dts, hdec, hag⟩ := decodeSingleName_diff P (streamsAt (D.drop 1)) d 0 done [] []
        hmode (by omega) (by omega) (by simp; exact Agree.nil _) htok hrt (hokt hdn)
        (hP d hmem) (h128 d hmem)
      simp only [Nat.zero_add] at hdec ⊢
      rw [hdec, hflat]
      exact decodeNames_spec names D hspec hnul P hP0 hP h128 hok r 1 _ (by omega)
        (inv.push d name dts hd hname hag)
    · -- a duplicate of name `j`
      obtain ⟨dj', e, hdj', hej, hnje, hagj⟩ := inv.ent j hjk
      rw [hdj] at hdj'
      cases hdj'
      have hke : tokOk (Token.dup (k - j)) := by simpa [Diff.modeToken, hmode] using hokm
      have hprev : done[done.length - (k - j)]? = some e := by
        rw [inv.len]
        have : k - (k - j) = j := by omega
        rw [this, hej]
      have hdec := decodeSingleName_dup P (streamsAt (D.drop (k + 1))) d (k - j) done e hmode hke
        (by omega) (by rw [inv.len]; omega) hprev hP0
      rw [hdec]
      have he1 : e.1 = name := by
        rw [hnj] at hnje
        cases hnje
        rfl
      have hrawj : dj.raw = d.raw := by
        obtain ⟨nj, hnj', hrawj, _⟩ := hspec.2 j dj hdj
        rw [hnj] at hnj'
        cases hnj'
        rw [hrawj, hraw]
      have hag : Agree d.tokens d.raw e.2 := by
        rw [htok, hrawj]
        rw [hrawj] at hagj
        exact agree_dup hagj
      simp only []
      rw [he1]
      exact decodeNames_spec names D hspec hnul P hP0 hP h128 hok r (k + 1) _ (by omega)
        (inv.push d name e.2 hd hname hag)
    · -- a difference to the previous name
      have hdn : d.isDup = false := by simp [Diff.isDup, hmode]
      obtain ⟨dp', e, hdp', hep, _, hagp⟩ := inv.ent (k - 1) (by omega)
      rw [hdp] at hdp'
      cases hdp'
      have hprev : (if done.length - 1 = done.length then (([] : Bytes), ([] : List DTok))
          else done.getD (done.length - 1) ([], [])) = e := by
        rw [if_neg (by rw [inv.len]; omega), List.getD_eq_getElem?_getD, inv.len, hep]
        rfl
      obtain ⟨dts, hdec, hag⟩ := decodeSingleName_diff P (streamsAt (D.drop (k + 1))) d 1 done
        dp.raw dp.tokens hmode (by omega) (by rw [inv.len]; omega) (by rw [hprev]; exact hagp)
        htok hrt (hokt hdn) (hP d hmem) (h128 d hmem)
      rw [hdec, hflat]
      exact decodeNames_spec names D hspec hnul P hP0 hP h128 hok r (k + 1) _ (by omega)
        (inv.push d name dts hd hname hag)

/-! ## the encoder's token streams are the contributions of the names -/

theorem tokensAt_streams : ∀ (D : List Diff) (p : Nat),
    (tokensAt D p).foldr (fun tk acc => (tokBytes tk).append acc) {} = streamsAt D p
  | [], p => by cases p <;> rfl
  | d :: D, 0 => by
    have ih := tokensAt_streams D 0
    simp only [tokensAt, List.map_cons, List.foldr_cons, streamsAt, contrib] at ih ⊢
    rw [ih]
  | d :: D, j + 1 => by
    have ih := tokensAt_streams D (j + 1)
    simp only [tokensAt, streamsAt, List.foldr_cons, contrib, List.filterMap_cons] at ih ⊢
    cases hd : d.isDup with
    | true => simp only [if_true, Streams.empty_append]; exact ih
    | false =>
      simp only [Bool.false_eq_true, if_false]
      cases ht : d.tokens[j]? with
      | none => simp only [Streams.empty_append]; exact ih
      | some tk => simp only [List.foldr_cons]; rw [ih]

theorem foldl_max_ge (D : List Diff) (a : Nat) :
    a ≤ D.foldl (fun m d => max m d.tokens.length) a ∧
      ∀ d ∈ D, d.tokens.length ≤ D.foldl (fun m d => max m d.tokens.length) a := by
  induction D generalizing a with
  | nil => simp
  | cons x D ih =>
    simp only [List.foldl_cons]
    obtain ⟨h1, h2⟩ := ih (max a x.tokens.length)
    refine ⟨by omega, ?_⟩
    intro d hd
    rcases List.mem_cons.mp hd with rfl | hd
    · omega
    · exact h2 d hd

theorem le_maxTokenCount (D : List Diff) : ∀ d ∈ D, d.tokens.length ≤ maxTokenCount D :=
  (foldl_max_ge D 0).2

theorem streamsFrom_ok (D : List Diff) : ∀ (k p : Nat) (ws : List Streams),
    streamsFrom D k p = .ok ws →
    ws = (List.range' p k).map (streamsAt D) ∧
      ∀ q, p ≤ q → q < p + k → ∀ tk ∈ tokensAt D q, tokOk tk
  | 0, p, ws, h => by
    simp only [streamsFrom, Except.ok.injEq] at h
    subst h
    exact ⟨rfl, by intro q h1 h2; omega⟩
  | k + 1, p, ws, h => by
    unfold streamsFrom at h
    split at h
    · cases h
    · rename_i w hw
      split at h
      · cases h
      · rename_i ws' hws
        cases h
        obtain ⟨ok1, e1⟩ := writeTokens_ok _ _ _ hw
        obtain ⟨e2, ok2⟩ := streamsFrom_ok D k (p + 1) ws' hws
        refine ⟨?_, ?_⟩
        · rw [List.range'_succ, List.map_cons, ← e2, e1, Streams.empty_append, tokensAt_streams]
        · intro q h1 h2
          by_cases hq : q = p
          · subst hq; exact ok1
          · exact ok2 q (by omega) (by omega)

theorem tokenStreams_ok (D : List Diff) (ws : List Streams) (h : tokenStreams D = .ok ws) :
    ws = (List.range (maxTokenCount D + 1)).map (streamsAt D) ∧
      ∀ d ∈ D, tokOk d.modeToken ∧ (d.isDup = false → ∀ tk ∈ d.tokens, tokOk tk) := by
  obtain ⟨e, ok⟩ := streamsFrom_ok D _ _ _ h
  refine ⟨by rw [e, List.range_eq_range'], ?_⟩
  intro d hd
  refine ⟨?_, ?_⟩
  · apply ok 0 (by omega) (by omega)
    simp only [tokensAt]
    exact List.mem_map_of_mem hd
  · intro hnd tk htk
    obtain ⟨j, hj, rfl⟩ := List.getElem_of_mem htk
    have := le_maxTokenCount D d hd
    apply ok (j + 1) (by omega) (by omega)
    simp only [tokensAt, List.mem_filterMap]
    exact ⟨d, hd, by simp [hnd, hj]⟩

/-- token level: the decoder's name loop undoes the encoder's tokenisation -/
theorem decodeNames_tokenStreams (names : List Bytes) (ws : List Streams)
    (hnul : ∀ nm ∈ names, 0 ∉ nm) (hmax : maxTokenCount (buildDiffs names) < 128)
    (h : tokenStreams (buildDiffs names) = .ok ws) :
    decodeNames names.length ws [] = .ok names := by
  have hspec := buildDiffs_spec names
  obtain ⟨e, ok⟩ := tokenStreams_ok _ _ h
  have := decodeNames_spec names (buildDiffs names) hspec hnul
    (maxTokenCount (buildDiffs names) + 1) (by omega)
    (fun d hd => by have := le_maxTokenCount _ d hd; omega)
    (fun d hd => by have := le_maxTokenCount _ d hd; omega)
    ok (buildDiffs names).length 0 [] (by omega) ⟨rfl, by intro j hj; omega⟩
  rw [List.drop_zero, ← e, hspec.1] at this
  exact this

/-! ## the container layout: `serialise` read back by `parseStreams` -/

/-- `set` when it succeeds (the ten stream types), otherwise unchanged -/
def setF (cur : Streams) (ty : Ty) (buf : Bytes) : Streams :=
  match cur.set ty buf with
  | .ok x => x
  | .error _ => cur

theorem set_eq_setF (cur : Streams) (ty : Ty) (buf : Bytes) (h : ty.toByte < 10) :
    cur.set ty buf = .ok (setF cur ty buf) := by
  cases ty <;> first | rfl | (simp [Ty.toByte] at h)

theorem get_setF_ne (cur : Streams) (ty ty' : Ty) (buf : Bytes) (h : ty ≠ ty') :
    (setF cur ty buf).get ty' = cur.get ty' := by
  cases ty <;> cases ty' <;> first | rfl | exact absurd rfl h

theorem setF_nil (cur : Streams) (ty : Ty) (h : cur.get ty = .ok []) : setF cur ty [] = cur := by
  cases cur
  cases ty <;> simp_all [setF, Streams.set, Streams.get]

theorem setLast_snoc (b : List Streams) (cur : Streams) (ty : Ty) (buf : Bytes)
    (h : ty.toByte < 10) : setLast (b ++ [cur]) ty buf = .ok (b ++ [setF cur ty buf]) := by
  simp [setLast, set_eq_setF cur ty buf h]

theorem readUint7_eq (n : Nat) (hn : n < 2 ^ 32) (l : Bytes) (hl : writeUint7 n = some l)
    (r : Bytes) : readUint7 (l ++ r) = .ok (n, r) := by
  obtain ⟨bs, h1, _, _, h2⟩ := Num.uint7_roundtrip' n hn
  rw [h1] at hl
  cases hl
  exact h2 r

/-- what `serialiseStream` produces for a non-empty stream -/
theorem serialiseStream_some (c : StreamCodec) (ty : Ty) (buf a : Bytes) (hne : buf ≠ [])
    (h : serialiseStream c ty buf = .ok a) :
    ∃ cdata l, c.enc buf = some cdata ∧ cdata.length < 2 ^ 32 ∧ writeUint7 cdata.length = some l ∧
      a = (if ty = .type then 128 else ty.toByte) :: (l ++ cdata) := by
  unfold serialiseStream at h
  rw [if_neg hne] at h
  cases he : c.enc buf with
  | none => simp [he] at h
  | some cdata =>
    simp only [he] at h
    by_cases hlt : cdata.length < 2 ^ 32
    · rw [if_pos hlt] at h
      cases hw : writeUint7 cdata.length with
      | none => simp [hw] at h
      | some l =>
        simp only [hw, Except.ok.injEq] at h
        exact ⟨cdata, l, rfl, hlt, hw, h.symm⟩
    · rw [if_neg hlt] at h
      cases h

/-- one item that continues the current position -/
theorem parse_step (c : StreamCodec) (hc : c.Lawful) (n : Nat) (ty : Ty) (buf a rest : Bytes)
    (b : List Streams) (cur : Streams) (f : Nat)
    (hty : ty.toByte < 10) (hnt : ty ≠ .type) (hbytes : ∀ x ∈ buf, x < 256) (hne : buf ≠ [])
    (h : serialiseStream c ty buf = .ok a) :
    parseStreams c 0 n (f + 1) (a ++ rest) (b ++ [cur]) =
      parseStreams c 0 n f rest (b ++ [setF cur ty buf]) := by
  obtain ⟨cdata, l, henc, hlt, hw, rfl⟩ := serialiseStream_some c ty buf a hne h
  have hdec := hc buf cdata hbytes henc
  rw [if_neg hnt]
  have h13 := Ty.toByte_lt ty
  simp only [List.cons_append, parseStreams]
  have h1 : ¬ 128 ≤ ty.toByte % 256 := by omega
  have h2 : ¬ 64 ≤ ty.toByte % 128 := by omega
  simp only [Ty.ofByte_toByte, h1, h2, if_false, List.append_assoc,
    readUint7_eq cdata.length hlt l hw]
  have h3 : ¬ (cdata ++ rest).length < cdata.length := by simp
  simp only [h3, if_false, List.take_left', List.drop_left', if_true, hdec,
    setLast_snoc b cur ty buf hty]

/-- the type stream opens a new position -/
theorem parse_step_new (c : StreamCodec) (hc : c.Lawful) (n : Nat) (buf a rest : Bytes)
    (b : List Streams) (f : Nat) (hb : b.length < 128)
    (hbytes : ∀ x ∈ buf, x < 256) (hne : buf ≠ [])
    (h : serialiseStream c .type buf = .ok a) :
    parseStreams c 0 n (f + 1) (a ++ rest) b = parseStreams c 0 n f rest (b ++ [{ ty := buf }]) := by
  obtain ⟨cdata, l, henc, hlt, hw, rfl⟩ := serialiseStream_some c .type buf a hne h
  have hdec := hc buf cdata hbytes henc
  simp only [if_true, List.cons_append, parseStreams]
  have h0 : Ty.ofByte 128 = some .type := rfl
  have h4 : ¬ 128 ≤ b.length := by omega
  simp only [h0, show (128 : Nat) ≤ 128 % 256 by decide, show ¬ (64 : Nat) ≤ 128 % 128 by decide,
    if_true, if_false, h4, ne_eq, not_true_eq_false, List.append_assoc,
    readUint7_eq cdata.length hlt l hw]
  have h3 : ¬ (cdata ++ rest).length < cdata.length := by simp
  simp only [h3, if_false, List.take_left', List.drop_left', hdec]
  have := setLast_snoc b {} .type buf (by decide)
  simp only [this]
  rfl

theorem serialiseItems_cons (c : StreamCodec) (ty : Ty) (buf : Bytes) (items : List (Ty × Bytes))
    (a : Bytes) (h : serialiseItems c ((ty, buf) :: items) = .ok a) :
    ∃ a1 a2, serialiseStream c ty buf = .ok a1 ∧ serialiseItems c items = .ok a2 ∧ a = a1 ++ a2 := by
  simp only [serialiseItems] at h
  cases h1 : serialiseStream c ty buf with
  | error e => simp [h1] at h
  | ok a1 =>
    cases h2 : serialiseItems c items with
    | error e => simp [h1, h2] at h
    | ok a2 =>
      simp only [h1, h2, Except.ok.injEq] at h
      exact ⟨a1, a2, rfl, rfl, h.symm⟩

theorem serialiseStream_nil (c : StreamCodec) (ty : Ty) : serialiseStream c ty [] = .ok [] := by
  simp [serialiseStream]

theorem serialiseStream_length (c : StreamCodec) (ty : Ty) (buf a : Bytes) (hne : buf ≠ [])
    (h : serialiseStream c ty buf = .ok a) : 1 ≤ a.length := by
  obtain ⟨_, _, _, _, _, rfl⟩ := serialiseStream_some c ty buf a hne h
  simp

/-- the remaining streams of a position -/
theorem parse_items (c : StreamCodec) (hc : c.Lawful) (n : Nat) (b : List Streams) (rest : Bytes) :
    ∀ (items : List (Ty × Bytes)) (cur : Streams) (a : Bytes) (fuel : Nat),
    (∀ it ∈ items, it.1.toByte < 10 ∧ it.1 ≠ .type ∧ ∀ x ∈ it.2, x < 256) →
    items.Pairwise (fun x y => x.1 ≠ y.1) →
    (∀ it ∈ items, cur.get it.1 = .ok []) →
    serialiseItems c items = .ok a → a.length + rest.length < fuel →
    ∃ fuel', rest.length < fuel' ∧
      parseStreams c 0 n fuel (a ++ rest) (b ++ [cur]) =
        parseStreams c 0 n fuel' rest (b ++ [items.foldl (fun cur it => setF cur it.1 it.2) cur])
  | [], cur, a, fuel, _, _, _, h, hf => by
    simp only [serialiseItems, Except.ok.injEq] at h
    subst h
    exact ⟨fuel, by simpa using hf, rfl⟩
  | (ty, buf) :: items, cur, a, fuel, hit, hpw, hget, h, hf => by
    obtain ⟨a1, a2, h1, h2, rfl⟩ := serialiseItems_cons c ty buf items a h
    obtain ⟨hty, hnt, hbytes⟩ := hit (ty, buf) (by simp)
    have hit' : ∀ it ∈ items, it.1.toByte < 10 ∧ it.1 ≠ .type ∧ ∀ x ∈ it.2, x < 256 :=
      fun it h => hit it (List.mem_cons_of_mem _ h)
    rw [List.pairwise_cons] at hpw
    by_cases hne : buf = []
    · subst hne
      rw [serialiseStream_nil] at h1
      cases h1
      simp only [List.foldl_cons, setF_nil cur ty (hget (ty, []) (by simp)), List.nil_append]
      exact parse_items c hc n b rest items cur a2 fuel hit' hpw.2
        (fun it h => hget it (List.mem_cons_of_mem _ h)) h2 (by simpa using hf)
    · have hlen := serialiseStream_length c ty buf a1 hne h1
      obtain ⟨f, rfl⟩ : ∃ f, fuel = f + 1 := ⟨fuel - 1, by omega⟩
      rw [List.append_assoc, parse_step c hc n ty buf a1 (a2 ++ rest) b cur f hty hnt hbytes hne h1]
      simp only [List.foldl_cons]
      exact parse_items c hc n b rest items (setF cur ty buf) a2 f hit' hpw.2
        (fun it h => by
          rw [get_setF_ne cur ty it.1 buf (hpw.1 it h)]
          exact hget it (List.mem_cons_of_mem _ h))
        h2 (by simp only [List.length_append] at hf; omega)

/-- every stream of the position consists of bytes -/
def Streams.IsBytes (w : Streams) : Prop := ∀ it ∈ w.items, ∀ x ∈ it.2, x < 256

/-- one position -/
theorem parse_position (c : StreamCodec) (hc : c.Lawful) (n : Nat) (w : Streams) (a rest : Bytes)
    (b : List Streams) (fuel : Nat) (hty : w.ty ≠ []) (hbytes : w.IsBytes) (hb : b.length < 128)
    (h : serialiseItems c w.items = .ok a) (hf : a.length + rest.length < fuel) :
    ∃ fuel', rest.length < fuel' ∧
      parseStreams c 0 n fuel (a ++ rest) b = parseStreams c 0 n fuel' rest (b ++ [w]) := by
  simp only [Streams.items] at h
  obtain ⟨a1, a2, h1, h2, rfl⟩ := serialiseItems_cons c _ _ _ a h
  have hlen := serialiseStream_length c .type w.ty a1 hty h1
  obtain ⟨f, rfl⟩ : ∃ f, fuel = f + 1 := ⟨fuel - 1, by omega⟩
  rw [List.append_assoc, parse_step_new c hc n w.ty a1 (a2 ++ rest) b f hb
    (hbytes (.type, w.ty) (by simp [Streams.items])) hty h1]
  obtain ⟨fuel', hf', e⟩ := parse_items c hc n b rest _ { ty := w.ty } a2 f
    (by
      intro it hit
      have hb' := hbytes it (by simp only [Streams.items]; exact List.mem_cons_of_mem _ hit)
      simp only [List.mem_cons, List.not_mem_nil, or_false] at hit
      rcases hit with rfl | rfl | rfl | rfl | rfl | rfl | rfl | rfl | rfl <;>
        exact ⟨by simp [Ty.toByte], by simp, hb'⟩)
    (by simp)
    (by
      intro it hit
      simp only [List.mem_cons, List.not_mem_nil, or_false] at hit
      rcases hit with rfl | rfl | rfl | rfl | rfl | rfl | rfl | rfl | rfl <;> rfl)
    h2 (by simp only [List.length_append] at hf; omega)
  refine ⟨fuel', hf', ?_⟩
  rw [e]
  cases w
  rfl

theorem serialise_cons (c : StreamCodec) (w : Streams) (ws : List Streams) (a : Bytes)
    (h : serialise c (w :: ws) = .ok a) :
    ∃ a1 a2, serialiseItems c w.items = .ok a1 ∧ serialise c ws = .ok a2 ∧ a = a1 ++ a2 := by
  simp only [serialise] at h
  cases h1 : serialiseItems c w.items with
  | error e => simp [h1] at h
  | ok a1 =>
    cases h2 : serialise c ws with
    | error e => simp [h1, h2] at h
    | ok a2 =>
      simp only [h1, h2, Except.ok.injEq] at h
      exact ⟨a1, a2, rfl, rfl, h.symm⟩

/-- all positions -/
theorem parse_serialise (c : StreamCodec) (hc : c.Lawful) (n : Nat) :
    ∀ (ws : List Streams) (b : List Streams) (a : Bytes) (fuel : Nat),
    (∀ w ∈ ws, w.ty ≠ [] ∧ w.IsBytes) → b.length + ws.length ≤ 128 →
    serialise c ws = .ok a → a.length < fuel →
    parseStreams c 0 n fuel a b = .ok (b ++ ws)
  | [], b, a, fuel, _, _, h, hf => by
    simp only [serialise, Except.ok.injEq] at h
    subst h
    obtain ⟨f, rfl⟩ : ∃ f, fuel = f + 1 := ⟨fuel - 1, by omega⟩
    simp [parseStreams]
  | w :: ws, b, a, fuel, hw, hlen, h, hf => by
    obtain ⟨a1, a2, h1, h2, rfl⟩ := serialise_cons c w ws a h
    obtain ⟨hty, hby⟩ := hw w (by simp)
    obtain ⟨fuel', hf', e⟩ := parse_position c hc n w a1 a2 b fuel hty hby
      (by simp only [List.length_cons] at hlen; omega) h1 (by simpa using hf)
    rw [e, parse_serialise c hc n ws (b ++ [w]) a2 fuel'
      (fun x hx => hw x (List.mem_cons_of_mem _ hx))
      (by simp only [List.length_append, List.length_cons, List.length_nil] at hlen ⊢; omega)
      h2 hf']
    simp

/-! ## names: `splitNames` / `joinNul` -/

theorem splitOn0_ne_nil : ∀ s : Bytes, splitOn0 s ≠ []
  | [] => by simp [splitOn0]
  | b :: r => by
    unfold splitOn0
    split
    · simp
    · split <;> simp

theorem splitOn0_noNul : ∀ (s : Bytes), ∀ f ∈ splitOn0 s, 0 ∉ f
  | [], f, h => by
    simp only [splitOn0, List.mem_cons, List.not_mem_nil, or_false] at h
    subst h; simp
  | b :: r, f, h => by
    have ih := splitOn0_noNul r
    unfold splitOn0 at h
    split at h
    · rcases List.mem_cons.mp h with rfl | h
      · simp
      · exact ih f h
    · rename_i hb
      split at h
      · simp only [List.mem_cons, List.not_mem_nil, or_false] at h
        subst h
        simpa using fun e => hb e.symm
      · rename_i f' fs heq
        rw [heq] at ih
        rcases List.mem_cons.mp h with rfl | h
        · intro hm
          rcases List.mem_cons.mp hm with e | hm
          · exact hb e.symm
          · exact ih f' (by simp) hm
        · exact ih f (by simp [h])

theorem splitOn0_bytes : ∀ (s : Bytes), (∀ x ∈ s, x < 256) → ∀ f ∈ splitOn0 s, ∀ x ∈ f, x < 256
  | [], _, f, h => by
    simp only [splitOn0, List.mem_cons, List.not_mem_nil, or_false] at h
    subst h; simp
  | b :: r, hs, f, h => by
    have ih := splitOn0_bytes r (fun x hx => hs x (List.mem_cons_of_mem _ hx))
    unfold splitOn0 at h
    split at h
    · rcases List.mem_cons.mp h with rfl | h
      · simp
      · exact ih f h
    · split at h
      · simp only [List.mem_cons, List.not_mem_nil, or_false] at h
        subst h
        intro x hx
        simp only [List.mem_cons, List.not_mem_nil, or_false] at hx
        subst hx
        exact hs _ (by simp)
      · rename_i f' fs heq
        rw [heq] at ih
        rcases List.mem_cons.mp h with rfl | h
        · intro x hx
          rcases List.mem_cons.mp hx with rfl | hx
          · exact hs _ (by simp)
          · exact ih f' (by simp) x hx
        · exact ih f (by simp [h])

theorem joinNul_splitOn0 : ∀ s : Bytes, joinNul (splitOn0 s) = s ++ [0]
  | [] => rfl
  | b :: r => by
    have ih := joinNul_splitOn0 r
    unfold splitOn0
    split
    · rename_i hb
      subst hb
      simp only [joinNul, List.flatMap_cons, List.nil_append, List.cons_append] at ih ⊢
      rw [ih]
    · split
      · rename_i heq
        exact absurd heq (splitOn0_ne_nil r)
      · rename_i f fs heq
        rw [heq] at ih
        simp only [joinNul, List.flatMap_cons, List.cons_append] at ih ⊢
        rw [ih]

theorem stripNul_append (src : Bytes) (h : src.getLast? = some 0) : stripNul src ++ [0] = src := by
  unfold stripNul
  rw [if_pos h]
  have hne : src ≠ [] := by intro e; simp [e] at h
  have := List.dropLast_concat_getLast hne
  rw [List.getLast?_eq_some_getLast hne] at h
  simp only [Option.some.injEq] at h
  rw [h] at this
  exact this

/-- what the round trip returns: the input itself when it is empty or NUL-terminated, otherwise
the input with the missing NUL added -/
theorem joinNul_splitNames (src : Bytes) :
    joinNul (splitNames src) =
      if src = [] then [] else if src.getLast? = some 0 then src else src ++ [0] := by
  unfold splitNames
  by_cases h : src = []
  · simp [h, joinNul]
  · rw [if_neg h, if_neg h, joinNul_splitOn0]
    by_cases hl : src.getLast? = some 0
    · rw [if_pos hl, stripNul_append src hl]
    · rw [if_neg hl]
      unfold stripNul
      rw [if_neg hl]

theorem splitNames_noNul (src : Bytes) : ∀ nm ∈ splitNames src, 0 ∉ nm := by
  unfold splitNames
  split
  · simp
  · exact splitOn0_noNul _

theorem stripNul_bytes (src : Bytes) (h : ∀ x ∈ src, x < 256) : ∀ x ∈ stripNul src, x < 256 := by
  unfold stripNul
  split
  · intro x hx; exact h x (List.dropLast_subset src hx)
  · exact h

theorem splitNames_bytes (src : Bytes) (h : ∀ x ∈ src, x < 256) :
    ∀ nm ∈ splitNames src, ∀ x ∈ nm, x < 256 := by
  unfold splitNames
  split
  · simp
  · exact splitOn0_bytes _ (stripNul_bytes src h)

/-! ## the encoder's streams consist of bytes and every position has a type stream -/

theorem isBytes_iff (w : Streams) : w.IsBytes ↔
    (∀ x ∈ w.ty, x < 256) ∧ (∀ x ∈ w.str, x < 256) ∧ (∀ x ∈ w.chr, x < 256) ∧
    (∀ x ∈ w.d0, x < 256) ∧ (∀ x ∈ w.dz, x < 256) ∧ (∀ x ∈ w.dup, x < 256) ∧
    (∀ x ∈ w.diff, x < 256) ∧ (∀ x ∈ w.dig, x < 256) ∧ (∀ x ∈ w.del, x < 256) ∧
    (∀ x ∈ w.del0, x < 256) := by
  simp [Streams.IsBytes, Streams.items]

theorem isBytes_empty : ({} : Streams).IsBytes := by
  rw [isBytes_iff]; simp

theorem isBytes_append (a b : Streams) (ha : a.IsBytes) (hb : b.IsBytes) :
    (a.append b).IsBytes := by
  rw [isBytes_iff] at ha hb ⊢
  obtain ⟨a1, a2, a3, a4, a5, a6, a7, a8, a9, a10⟩ := ha
  obtain ⟨b1, b2, b3, b4, b5, b6, b7, b8, b9, b10⟩ := hb
  simp only [Streams.append, List.mem_append]
  refine ⟨?_, ?_, ?_, ?_, ?_, ?_, ?_, ?_, ?_, ?_⟩ <;> intro x hx <;> rcases hx with h | h
  all_goals first
    | exact a1 x h | exact a2 x h | exact a3 x h | exact a4 x h | exact a5 x h
    | exact a6 x h | exact a7 x h | exact a8 x h | exact a9 x h | exact a10 x h
    | exact b1 x h | exact b2 x h | exact b3 x h | exact b4 x h | exact b5 x h
    | exact b6 x h | exact b7 x h | exact b8 x h | exact b9 x h | exact b10 x h

theorem isBytes_le32_field (n : Nat) : ∀ x ∈ le32 n, x < 256 := le32_bytes n

theorem isBytes_fresh (s : Bytes) (hs : ∀ x ∈ s, x < 256) (hok : tokOk (freshToken s)) :
    (tokBytes (freshToken s)).IsBytes := by
  rw [isBytes_iff]
  unfold freshToken at hok ⊢
  cases h0 : parseDigits0 s with
  | some n =>
    simp only [h0] at hok ⊢
    simp only [tokOk] at hok
    simp [tokBytes, hok]
    exact le32_bytes n
  | none =>
    simp only [h0] at hok ⊢
    cases hp : parseU32 s with
    | some n =>
      simp [tokBytes]
      exact le32_bytes n
    | none =>
      simp only []
      split
      · rename_i b
        simp [tokBytes, hs b (by simp)]
      · simp only [tokBytes]
        refine ⟨by simp, ?_, by simp, by simp, by simp, by simp, by simp, by simp, by simp, by simp⟩
        intro x hx
        rcases List.mem_append.mp hx with h | h
        · exact hs x h
        · simp only [List.mem_cons, List.not_mem_nil, or_false] at h; omega

theorem isBytes_diffToken (pr : Option Bytes) (pt : Option Token) (s : Bytes)
    (hs : ∀ x ∈ s, x < 256) (hok : tokOk (diffToken pr pt s)) :
    (tokBytes (diffToken pr pt s)).IsBytes := by
  cases pr with
  | none => exact isBytes_fresh s hs hok
  | some r =>
    cases pt with
    | none => exact isBytes_fresh s hs hok
    | some t =>
      simp only [diffToken] at hok ⊢
      by_cases hsr : s = r
      · rw [if_pos hsr, isBytes_iff]; simp [tokBytes]
      · rw [if_neg hsr] at hok ⊢
        cases hpd : parseDelta t s with
        | some nd =>
          obtain ⟨n, dl⟩ := nd
          simp only []
          have : dl ≤ 255 := by
            cases t <;> simp only [parseDelta] at hpd <;> try cases hpd
            all_goals
              split at hpd
              · cases hpd
              · exact (deltaOf_some _ s n dl hpd).2.2.2
          rw [isBytes_iff]; simp [tokBytes]; omega
        | none =>
          simp only [hpd] at hok ⊢
          cases hpd0 : parseDelta0 r t s with
          | some nd =>
            obtain ⟨n, dl⟩ := nd
            simp only []
            have : dl ≤ 255 := by
              cases t <;> simp only [parseDelta0] at hpd0 <;> try cases hpd0
              all_goals
                split at hpd0
                · exact (deltaOf_some _ s n dl hpd0).2.2.2
                · cases hpd0
            rw [isBytes_iff]; simp [tokBytes]; omega
          | none =>
            simp only [hpd0] at hok ⊢
            exact isBytes_fresh s hs hok

theorem mem_diffTokens : ∀ (ss prs : List Bytes) (pts : List Token) (tk : Token),
    tk ∈ diffTokens ss prs pts → ∃ s ∈ ss, ∃ pr pt, tk = diffToken pr pt s
  | [], _, _, tk, h => by simp [diffTokens] at h
  | s :: ss, prs, pts, tk, h => by
    simp only [diffTokens, List.mem_cons] at h
    rcases h with rfl | h
    · exact ⟨s, by simp, _, _, rfl⟩
    · obtain ⟨s', hs', pr, pt, e⟩ := mem_diffTokens ss _ _ tk h
      exact ⟨s', by simp [hs'], pr, pt, e⟩

theorem StepSpec.tokens_mem {names : List Bytes} {D : List Diff} {k : Nat} {d : Diff}
    (h : StepSpec names D k d) (tk : Token) (htk : tk ∈ d.tokens) :
    tk = .end ∨ ∃ s ∈ d.raw, ∃ pr pt, tk = diffToken pr pt s := by
  obtain ⟨name, _, _, h3⟩ := h
  rcases h3 with ⟨_, _, h⟩ | ⟨j, dj, _, _, _, _, _, _, h⟩ | ⟨dp, _, _, _, h⟩ <;>
  · rw [h] at htk
    rcases List.mem_append.mp htk with h' | h'
    · exact Or.inr (mem_diffTokens _ _ _ tk h')
    · simp only [List.mem_cons, List.not_mem_nil, or_false] at h'
      exact Or.inl h'

theorem isBytes_contrib (names : List Bytes) (D : List Diff) (hspec : Spec names D)
    (hb : ∀ nm ∈ names, ∀ x ∈ nm, x < 256)
    (hok : ∀ d ∈ D, tokOk d.modeToken ∧ (d.isDup = false → ∀ tk ∈ d.tokens, tokOk tk))
    (d : Diff) (hd : d ∈ D) (p : Nat) : (contrib d p).IsBytes := by
  cases p with
  | zero =>
    simp only [contrib, Diff.modeToken]
    cases d.mode <;> (rw [isBytes_iff]; simp [tokBytes]; exact le32_bytes _)
  | succ j =>
    simp only [contrib]
    cases hdup : d.isDup with
    | true => simp only [if_true]; exact isBytes_empty
    | false =>
      simp only [Bool.false_eq_true, if_false]
      cases ht : d.tokens[j]? with
      | none => exact isBytes_empty
      | some tk =>
        simp only []
        obtain ⟨k, hk, hdk⟩ := List.getElem_of_mem hd
        have hdk' : D[k]? = some d := by simp [hk, hdk]
        have hstep := hspec.2 k d hdk'
        have htk : tk ∈ d.tokens := List.mem_of_getElem? ht
        rcases hstep.tokens_mem tk htk with rfl | ⟨s, hs, pr, pt, rfl⟩
        · rw [isBytes_iff]; simp [tokBytes]
        · obtain ⟨name, hname, hraw, _⟩ := hstep
          apply isBytes_diffToken pr pt s _ ((hok d hd).2 hdup _ htk)
          intro x hx
          apply hb name (List.mem_of_getElem? hname)
          rw [← flatten_tokenize name, ← hraw]
          exact List.mem_flatten.mpr ⟨s, hs, hx⟩

theorem isBytes_streamsAt (F : List Diff) (p : Nat) (h : ∀ d ∈ F, (contrib d p).IsBytes) :
    (streamsAt F p).IsBytes := by
  induction F with
  | nil => exact isBytes_empty
  | cons d F ih =>
    exact isBytes_append _ _ (h d (by simp)) (ih (fun x hx => h x (List.mem_cons_of_mem _ hx)))

theorem ty_streamsAt_ne_nil (F : List Diff) (p : Nat) (d : Diff) (hd : d ∈ F)
    (h : (contrib d p).ty ≠ []) : (streamsAt F p).ty ≠ [] := by
  induction F with
  | nil => cases hd
  | cons x F ih =>
    show ((contrib x p).append (streamsAt F p)).ty ≠ []
    simp only [Streams.append]
    rcases List.mem_cons.mp hd with rfl | hd
    · simp [h]
    · simp [ih hd]

theorem tokBytes_ty_ne_nil (tk : Token) : (tokBytes tk).ty ≠ [] := by
  cases tk <;> simp [tokBytes]

theorem foldl_max_attained (D : List Diff) (a : Nat) :
    D.foldl (fun m d => max m d.tokens.length) a = a ∨
      ∃ d ∈ D, d.tokens.length = D.foldl (fun m d => max m d.tokens.length) a := by
  induction D generalizing a with
  | nil => exact Or.inl rfl
  | cons x D ih =>
    simp only [List.foldl_cons]
    rcases ih (max a x.tokens.length) with h | ⟨d, hd, h⟩
    · by_cases hx : x.tokens.length ≤ a
      · left; rw [h]; omega
      · right; exact ⟨x, by simp, by rw [h]; omega⟩
    · right; exact ⟨d, by simp [hd], h⟩

/-- every position up to `max_token_count` receives a token of a name that is not a duplicate -/
theorem ty_position_ne_nil (names : List Bytes) (D : List Diff) (hspec : Spec names D)
    (hne : D ≠ []) (p : Nat) (hp : p ≤ maxTokenCount D) : (streamsAt D p).ty ≠ [] := by
  cases p with
  | zero =>
    obtain ⟨d, hd⟩ := List.exists_mem_of_ne_nil D hne
    apply ty_streamsAt_ne_nil D 0 d hd
    simp only [contrib]
    exact tokBytes_ty_ne_nil _
  | succ j =>
    rcases foldl_max_attained D 0 with h | ⟨d, hd, h⟩
    · unfold maxTokenCount at hp; omega
    · -- a name with the largest number of tokens, or the name it duplicates
      have key : ∃ d' ∈ D, d'.isDup = false ∧ d'.tokens.length = maxTokenCount D := by
        obtain ⟨k, hk, hdk⟩ := List.getElem_of_mem hd
        have hdk' : D[k]? = some d := by simp [hk, hdk]
        have hstep := hspec.2 k d hdk'
        have hlen := hstep.tokens_length
        obtain ⟨name, _, hraw, h3⟩ := hstep
        rcases h3 with ⟨_, hm, _⟩ | ⟨j', dj, _, _, hnj, hdj, hnd, _, _⟩ | ⟨dp, _, _, hm, _⟩
        · exact ⟨d, hd, by simp [Diff.isDup, hm], h⟩
        · have hstepj := hspec.2 j' dj hdj
          have hlenj := hstepj.tokens_length
          obtain ⟨nj, hnj', hrawj, _⟩ := hstepj
          rw [hnj] at hnj'
          cases hnj'
          refine ⟨dj, List.mem_of_getElem? hdj, hnd, ?_⟩
          unfold maxTokenCount
          rw [← h, hlen, hlenj, hraw, hrawj]
        · exact ⟨d, hd, by simp [Diff.isDup, hm], h⟩
      obtain ⟨d', hd', hnd, hlen⟩ := key
      apply ty_streamsAt_ne_nil D (j + 1) d' hd'
      have hj : j < d'.tokens.length := by omega
      simp only [contrib, hnd, Bool.false_eq_true, if_false, List.getElem?_eq_getElem hj]
      exact tokBytes_ty_ne_nil _

/-! ## composition -/

theorem readHeader_writeHeader (L N : Nat) (hdr body : Bytes) (h : writeHeader L N = .ok hdr) :
    readHeader (hdr ++ body) = .ok (L, N, 0, body) := by
  unfold writeHeader at h
  split at h
  · rename_i hL
    split at h
    · rename_i hN
      cases h
      unfold readHeader
      rw [List.append_assoc, List.append_assoc, readU32_le32 L hL]
      simp only [readU32_le32 N hN]
      rfl
    · cases h
  · cases h

/-- the parts of a successful `encode` -/
theorem encode_ok (c : StreamCodec) (src bs : Bytes) (h : encode c src = .ok bs) :
    ∃ hdr ws body, writeHeader (stripNul src).length (splitNames src).length = .ok hdr ∧
      maxTokenCount (buildDiffs (splitNames src)) < 128 ∧
      tokenStreams (buildDiffs (splitNames src)) = .ok ws ∧ serialise c ws = .ok body ∧
      bs = hdr ++ body := by
  unfold encode at h
  simp only at h
  cases hh : writeHeader (stripNul src).length (splitNames src).length with
  | error e => simp [hh] at h
  | ok hdr =>
    simp only [hh] at h
    by_cases hm : 128 ≤ maxTokenCount (buildDiffs (splitNames src))
    · rw [if_pos hm] at h; cases h
    · rw [if_neg hm] at h
      cases ht : tokenStreams (buildDiffs (splitNames src)) with
      | error e => simp [ht] at h
      | ok ws =>
        simp only [ht] at h
        cases hs : serialise c ws with
        | error e => simp [hs] at h
        | ok body =>
          simp only [hs, Except.ok.injEq] at h
          exact ⟨hdr, ws, body, rfl, by omega, rfl, hs, h.symm⟩

theorem decode_encode (c : StreamCodec) (hc : c.Lawful) (src bs : Bytes)
    (hb : ∀ x ∈ src, x < 256) (h : encode c src = .ok bs) :
    decode c bs = .ok (joinNul (splitNames src)) := by
  obtain ⟨hdr, ws, body, hh, hmax, hts, hser, rfl⟩ := encode_ok c src bs h
  unfold decode
  rw [readHeader_writeHeader _ _ hdr body hh]
  simp only
  have hparse : parseStreams c 0 (splitNames src).length (body.length + 1) body [] = .ok ws ∨
      (splitNames src = [] ∧ body = []) := by
    by_cases hn : splitNames src = []
    · right
      refine ⟨hn, ?_⟩
      rw [hn] at hts
      have : ws = [{}] := by
        simp [tokenStreams, buildDiffs, maxTokenCount, streamsFrom, tokensAt, writeTokens] at hts
        exact hts.symm
      subst this
      simp [serialise, serialiseItems, Streams.items, serialiseStream] at hser
      exact hser
    · left
      have hspec := buildDiffs_spec (splitNames src)
      obtain ⟨e, ok⟩ := tokenStreams_ok _ _ hts
      have hD : buildDiffs (splitNames src) ≠ [] := by
        intro hD
        have := hspec.1
        rw [hD] at this
        exact hn (List.eq_nil_of_length_eq_zero this.symm)
      have := parse_serialise c hc (splitNames src).length ws [] body (body.length + 1) ?_ ?_ hser
        (by omega)
      · simpa using this
      · intro w hw
        rw [e] at hw
        obtain ⟨p, hp, rfl⟩ := List.mem_map.mp hw
        have hp' : p ≤ maxTokenCount (buildDiffs (splitNames src)) := by
          have := List.mem_range.mp hp; omega
        exact ⟨ty_position_ne_nil _ _ hspec hD p hp',
          isBytes_streamsAt _ p (fun d hd =>
            isBytes_contrib _ _ hspec (splitNames_bytes src hb) ok d hd p)⟩
      · rw [e]; simp; omega
  rcases hparse with hp | ⟨hn, hbody⟩
  · rw [hp]
    simp only
    rw [decodeNames_tokenStreams (splitNames src) ws (splitNames_noNul src) hmax hts]
  · subst hbody
    rw [hn]
    simp [parseStreams, decodeNames, joinNul]

/-! ## when the encoder answers -/

theorem writeTokens_of_ok : ∀ (tks : List Token) (w : Streams), (∀ tk ∈ tks, tokOk tk) →
    ∃ w', writeTokens w tks = .ok w'
  | [], w, _ => ⟨w, rfl⟩
  | tk :: tks, w, h => by
    have h1 : ∃ w1, writeToken w tk = .ok w1 := by
      have := h tk (by simp)
      cases tk <;> simp only [writeToken, tokOk] at this ⊢ <;> first
        | exact ⟨_, rfl⟩
        | (rw [if_pos this]; exact ⟨_, rfl⟩)
    obtain ⟨w1, h1⟩ := h1
    obtain ⟨w', h2⟩ := writeTokens_of_ok tks w1 (fun x hx => h x (List.mem_cons_of_mem _ hx))
    exact ⟨w', by unfold writeTokens; rw [h1]; exact h2⟩

theorem streamsFrom_of_ok (D : List Diff) (h : ∀ q, ∀ tk ∈ tokensAt D q, tokOk tk) :
    ∀ (k p : Nat), ∃ ws, streamsFrom D k p = .ok ws
  | 0, _ => ⟨[], rfl⟩
  | k + 1, p => by
    obtain ⟨w, hw⟩ := writeTokens_of_ok (tokensAt D p) {} (h p)
    obtain ⟨ws, hws⟩ := streamsFrom_of_ok D h k (p + 1)
    exact ⟨w :: ws, by unfold streamsFrom; rw [hw]; simp only [hws]⟩

theorem tokOk_fresh (s : Bytes) (hw : parseDigits0 s ≠ none → s.length < 256) :
    tokOk (freshToken s) := by
  unfold freshToken
  cases h0 : parseDigits0 s with
  | some n => exact hw (by simp [h0])
  | none =>
    simp only []
    cases parseU32 s with
    | some n => trivial
    | none => simp only []; split <;> trivial

theorem tokOk_diffToken (pr : Option Bytes) (pt : Option Token) (s : Bytes)
    (hw : parseDigits0 s ≠ none → s.length < 256) : tokOk (diffToken pr pt s) := by
  cases pr with
  | none => exact tokOk_fresh s hw
  | some r =>
    cases pt with
    | none => exact tokOk_fresh s hw
    | some t =>
      simp only [diffToken]
      split
      · trivial
      · cases parseDelta t s with
        | some nd => trivial
        | none =>
          simp only []
          cases parseDelta0 r t s with
          | some nd => trivial
          | none => exact tokOk_fresh s hw

theorem splitOn0_length : ∀ s : Bytes, (splitOn0 s).length ≤ s.length + 1
  | [] => by simp [splitOn0]
  | b :: r => by
    have ih := splitOn0_length r
    unfold splitOn0
    split
    · simp; omega
    · split
      · simp
      · rename_i f fs heq
        rw [heq] at ih
        simp at ih ⊢; omega

theorem stripNul_length (src : Bytes) : (stripNul src).length ≤ src.length := by
  unfold stripNul
  split <;> simp

theorem serialise_of_total (c : StreamCodec)
    (hc : ∀ x, x ≠ [] → ∃ y, c.enc x = some y ∧ y.length < 2 ^ 32) :
    ∀ ws : List Streams, ∃ bs, serialise c ws = .ok bs := by
  have hstream : ∀ ty buf, ∃ a, serialiseStream c ty buf = .ok a := by
    intro ty buf
    unfold serialiseStream
    by_cases hb : buf = []
    · exact ⟨[], by rw [if_pos hb]⟩
    · obtain ⟨y, hy, hlt⟩ := hc buf hb
      obtain ⟨l, hl, _⟩ := Num.uint7_roundtrip' y.length hlt
      exact ⟨(if ty = .type then 128 else ty.toByte) :: (l ++ y),
        by rw [if_neg hb]; simp only [hy, hlt, if_true, hl]⟩
  have hitems : ∀ items : List (Ty × Bytes), ∃ a, serialiseItems c items = .ok a := by
    intro items
    induction items with
    | nil => exact ⟨[], rfl⟩
    | cons it items ih =>
      obtain ⟨ty, buf⟩ := it
      obtain ⟨a1, h1⟩ := hstream ty buf
      obtain ⟨a2, h2⟩ := ih
      exact ⟨a1 ++ a2, by simp only [serialiseItems, h1, h2]⟩
  intro ws
  induction ws with
  | nil => exact ⟨[], rfl⟩
  | cons w ws ih =>
    obtain ⟨a1, h1⟩ := hitems w.items
    obtain ⟨a2, h2⟩ := ih
    exact ⟨a1 ++ a2, by simp only [serialise, h1, h2]⟩

/-- The encoder answers unless a name has 127 or more raw tokens, a zero-led numeric token that
fits `u32` is wider than 255 bytes, the input reaches 4 GiB, or the inner compressor refuses a
stream or returns 4 GiB. -/
theorem encode_answers (c : StreamCodec) (src : Bytes)
    (hc : ∀ x, x ≠ [] → ∃ y, c.enc x = some y ∧ y.length < 2 ^ 32)
    (hlen : src.length + 1 < 2 ^ 32)
    (htok : ∀ nm ∈ splitNames src, (tokenize nm).length < 127)
    (hwid : ∀ nm ∈ splitNames src, ∀ s ∈ tokenize nm, parseDigits0 s ≠ none → s.length < 256) :
    ∃ bs, encode c src = .ok bs := by
  have hspec := buildDiffs_spec (splitNames src)
  have hnames : (splitNames src).length < 2 ^ 32 := by
    unfold splitNames
    split
    · simp
    · have := splitOn0_length (stripNul src)
      have := stripNul_length src
      omega
  have hhdr : ∃ hdr, writeHeader (stripNul src).length (splitNames src).length = .ok hdr := by
    unfold writeHeader
    have := stripNul_length src
    rw [if_pos (by omega), if_pos hnames]
    exact ⟨_, rfl⟩
  obtain ⟨hdr, hhdr⟩ := hhdr
  -- token counts
  have hlenD : ∀ d ∈ buildDiffs (splitNames src), d.tokens.length < 128 := by
    intro d hd
    obtain ⟨k, hk, hdk⟩ := List.getElem_of_mem hd
    have hstep := hspec.2 k d (by simp [hk, hdk])
    have hl := hstep.tokens_length
    obtain ⟨name, hname, hraw, _⟩ := hstep
    have := htok name (List.mem_of_getElem? hname)
    rw [hl, hraw]; omega
  have hmax : ¬ 128 ≤ maxTokenCount (buildDiffs (splitNames src)) := by
    rcases foldl_max_attained (buildDiffs (splitNames src)) 0 with h | ⟨d, hd, h⟩
    · unfold maxTokenCount; omega
    · have := hlenD d hd
      unfold maxTokenCount; omega
  -- every token is accepted by `write_token`
  have hokAll : ∀ q, ∀ tk ∈ tokensAt (buildDiffs (splitNames src)) q, tokOk tk := by
    intro q tk htk
    cases q with
    | zero =>
      simp only [tokensAt, List.mem_map] at htk
      obtain ⟨d, hd, rfl⟩ := htk
      obtain ⟨k, hk, hdk⟩ := List.getElem_of_mem hd
      have hstep := hspec.2 k d (by simp [hk, hdk])
      obtain ⟨name, _, _, h3⟩ := hstep
      have hkn : k < 2 ^ 32 := by rw [hspec.1] at hk; omega
      rcases h3 with ⟨_, hm, _⟩ | ⟨j, dj, _, _, _, _, _, hm, _⟩ | ⟨dp, _, _, hm, _⟩ <;>
        simp only [Diff.modeToken, hm, tokOk] <;> omega
    | succ j =>
      simp only [tokensAt, List.mem_filterMap] at htk
      obtain ⟨d, hd, hsome⟩ := htk
      split at hsome
      · cases hsome
      · have htk' : tk ∈ d.tokens := List.mem_of_getElem? hsome
        obtain ⟨k, hk, hdk⟩ := List.getElem_of_mem hd
        have hstep := hspec.2 k d (by simp [hk, hdk])
        rcases hstep.tokens_mem tk htk' with rfl | ⟨s, hs, pr, pt, rfl⟩
        · trivial
        · obtain ⟨name, hname, hraw, _⟩ := hstep
          apply tokOk_diffToken
          rw [hraw] at hs
          exact hwid name (List.mem_of_getElem? hname) s hs
  obtain ⟨ws, hws⟩ := streamsFrom_of_ok _ hokAll
    (maxTokenCount (buildDiffs (splitNames src)) + 1) 0
  obtain ⟨body, hbody⟩ := serialise_of_total c hc ws
  refine ⟨hdr ++ body, ?_⟩
  unfold encode
  simp only [hhdr, if_neg hmax, tokenStreams, hws, hbody]

end Noodles.Cram.Tok
