import Noodles.Cram.Chunk
import Noodles.Cram.DriverC07Enc
/-! Line-protocol handler for the writer's chunking state machine (`c07 chunk …`):

`c07 chunk <records per slice> <slices per container> <rec;…>` with
`rec = name,reference id,alignment start,alignment end,read length` (`-` = missing; `-` alone = no records).
Answer: `-` (no data container) or `container|…` with
`container = ctx:record counter:record count:base count:slice/…`,
`slice = ctx+record counter+record count+first name+last name`, `ctx = S<id>.<start>.<end>` / `N` / `M`;
a failing run answers `<error>@<0-based number of the record whose add_record failed, or "finish">`.

`c07 chunk names <rps> <spc> <rec;…>`: the names of the whole file read back in order (`readAll` over `items`). -/
namespace Noodles.Cram.DrvChunk
open Noodles.Cram.Enc (RefCtx)
open Noodles.Cram.Chunk
open Noodles.Cram.DrvEnc (errStr listOf)

def optNat (s : String) : Option (Option Nat) := if s = "-" then some none else s.toNat?.map some

def parseRec (s : String) : Option LRec :=
  match s.splitOn "," with
  | [n, rid, st, en, len] => do
    pure { name := n, rid := ← optNat rid, start := ← optNat st, end_ := ← optNat en, readLen := ← len.toNat? }
  | _ => none

def fmtCtx : RefCtx → String
  | .some id s e => s!"S{id}.{s}.{e}"
  | .none => "N"
  | .many => "M"

def fmtSlice (s : SliceOut LRec) : String :=
  let first := (s.records.head?.map (·.name)).getD "-"
  let last := (s.records.getLast?.map (·.name)).getD "-"
  s!"{fmtCtx s.ctx}+{s.counter}+{s.records.length}+{first}+{last}"

def fmtContainer (c : ContainerOut LRec) : String :=
  s!"{fmtCtx c.ctx}:{c.counter}:{c.nrec}:{c.bases}:" ++ "/".intercalate (c.slices.map fmtSlice)

def runChunk (rps spc : Nat) (rs : List LRec) : String :=
  match run lparams rps spc rs with
  | .ok out => if out.isEmpty then "-" else "|".intercalate (out.map fmtContainer)
  | .error e =>
    let at_ := match failIndexGo lparams (W.new rps spc) 0 rs with
      | some i => toString i
      | none => "finish"
    s!"{errStr e}@{at_}"

/-- the whole file read back (`Reader::records`): `readAll` over `items`, each slice giving its names -/
def runNames (rps spc : Nat) (rs : List LRec) : String :=
  match run lparams rps spc rs with
  | .error e => errStr e
  | .ok out =>
    match readAll (fun (i : ContainerOut LRec × SliceOut LRec) => .ok (i.2.records.map (·.name))) (items out) with
    | .error e => errStr e
    | .ok ns => if ns.isEmpty then "-" else ",".intercalate ns

def handle : List String → Option String
  | ["chunk", "names", rps, spc, recs] => some <|
    match rps.toNat?, spc.toNat?, (listOf recs ";").mapM parseRec with
    | some rps, some spc, some rs => runNames rps spc rs
    | _, _, _ => "bad-op"
  | ["chunk", rps, spc, recs] => some <|
    match rps.toNat?, spc.toNat?, (listOf recs ";").mapM parseRec with
    | some rps, some spc, some rs => runChunk rps spc rs
    | _, _, _ => "bad-op"
  | _ => none

end Noodles.Cram.DrvChunk
