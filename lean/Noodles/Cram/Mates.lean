/-!
# Mate links inside a CRAM slice (model core 2 of C07)

Transcribed from noodles-cram `io/writer/container/slice.rs::set_mates` (+ `set_downstream_mate`,
`set_detached`), the mate part of `io/writer/container/slice/records.rs::write_mate` /
`io/reader/container/slice/records.rs::read_mate` (`wire`: which fields survive the file), and
`io/reader/container/slice.rs::resolve_mates` (+ `set_mate_chunk`, `calculate_template_length`,
`calculate_template_length_chunk`).

The model describes the code AFTER the fix "mates on different references, unsorted pairs, unmapped
ends and supplementary records": `set_mates` chains only the mapped primary segments of a template;
`calculate_template_length` is 0 between different references; the first record of a chain gets the
positive sign only when it is the leftmost.

A record is reduced to what these functions read or write. Names are identifiers (`none` = `*`);
`span` is `calculate_alignment_span(read_length, features)`.
-/
namespace Noodles.Cram.Mates

structure Rec where
  flags : Nat
  name : Option Nat
  rid : Option Nat
  pos : Option Nat
  span : Nat
  mrid : Option Nat
  mpos : Option Nat
  tlen : Int
  /-- CRAM flags `IS_DETACHED`, `MATE_IS_DOWNSTREAM`, and `mate_distance` -/
  detached : Bool
  downstream : Bool
  mateDist : Option Nat
  deriving DecidableEq, Repr

/-- bit `k` of the BAM flags -/
def bit (f k : Nat) : Bool := f / 2 ^ k % 2 == 1
/-- `flags |= 1 << k` -/
def setBit (f k : Nat) : Nat := if bit f k then f else f + 2 ^ k

def isPaired (f : Nat) : Bool := bit f 0
def isUnmapped (f : Nat) : Bool := bit f 2
def isMateUnmapped (f : Nat) : Bool := bit f 3
def isReverse (f : Nat) : Bool := bit f 4
def isMateReverse (f : Nat) : Bool := bit f 5
def isSecondary (f : Nat) : Bool := bit f 8
def isSupplementary (f : Nat) : Bool := bit f 11

/-- `is_attachable` in `set_mates` -/
def attachable (r : Rec) : Bool :=
  isPaired r.flags && !isUnmapped r.flags && !isSecondary r.flags && !isSupplementary r.flags

/-! ## writer: `set_mates` -/

/-- the `HashMap<name, index>`: newest binding first -/
abbrev Indices := List (Option Nat × Nat)

def lookup (m : Indices) (n : Option Nat) : Option Nat := (m.find? fun e => e.1 == n).map (·.2)

/-- the backward walk, as a right-to-left pass: `i` is the index of the head. Returns the updated
records and the map after the head has been processed. -/
def setGo : (i : Nat) → List Rec → List Rec × Indices
  | _, [] => ([], [])
  | i, r :: rest =>
    let (rest', m) := setGo (i + 1) rest
    if attachable r then
      match lookup m r.name with
      | some j =>
        -- set_downstream_mate(i, record, j, mate)
        let r' := { r with mateDist := some (j - i - 1), downstream := true }
        let rest'' := rest'.modify (j - (i + 1)) fun mate => { mate with detached := false }
        (r' :: rest'', (r.name, i) :: m)
      | none => ({ r with detached := true } :: rest', (r.name, i) :: m)
    else ({ r with detached := true } :: rest', m)

def setMates (rs : List Rec) : List Rec := (setGo 0 rs).1

/-! ## the file: what `write_mate` stores and `read_mate` restores -/

/-- a detached record keeps its mate fields verbatim; an attached one keeps only the distance to its
downstream mate (read back iff `MATE_IS_DOWNSTREAM`), its mate fields start from `Record::default()` -/
def wire (r : Rec) : Rec :=
  if r.detached then { r with mateDist := none }
  else { r with mrid := none, mpos := none, tlen := 0, mateDist := if r.downstream then r.mateDist else none }

/-! ## reader: `resolve_mates` -/

/-- `set_mate_chunk`: OR in the mate's strand / unmapped bits, copy its reference and position -/
def setMate (r mate : Rec) : Rec :=
  let f := if isReverse mate.flags then setBit r.flags 5 else r.flags
  let f := if isUnmapped mate.flags then setBit f 3 else f
  { r with flags := f, mrid := mate.rid, mpos := mate.pos }

/-- `alignment_end` inside `calculate_template_length_chunk`; 0 stands for `None` -/
def alnEnd (r : Rec) : Nat :=
  match r.pos with
  | none => 0
  | some s => s + r.span - 1

/-- `calculate_template_length` (unsigned) -/
def calcTlen (r mate : Rec) : Nat :=
  if r.rid ≠ mate.rid then 0 else
  match r.pos, mate.pos with
  | some a, some b =>
    let start := min a b
    let e := max (alnEnd r) (alnEnd mate)
    if start > e then start - e + 1 else e - start + 1
  | _, _ => 0

/-- `Option<Position>` ordering: `None < Some` -/
def posLe : Option Nat → Option Nat → Bool
  | none, _ => true
  | some _, none => false
  | some a, some b => a ≤ b

/-- first `while let Some(mate_index) = mate_indices[j]`: every record takes its mate fields from
the next one in the chain; returns the index of the last record of the chain -/
def walk1 : (fuel : Nat) → List Rec → List (Option Nat) → Nat → List Rec × Nat
  | 0, rs, _, j => (rs, j)
  | fuel+1, rs, mi, j =>
    match mi.getD j none with
    | none => (rs, j)
    | some k =>
      match rs[k]? with
      | none => (rs, j)          -- out of range: the Rust code panics (hostile input only)
      | some mate => walk1 fuel (rs.modify j fun r => setMate r mate) mi k

/-- second `while`: the rest of the chain gets the negated template length; the links are consumed -/
def walk2 : (fuel : Nat) → List Rec → List (Option Nat) → Nat → Int → List Rec × List (Option Nat)
  | 0, rs, mi, _, _ => (rs, mi)
  | fuel+1, rs, mi, j, t =>
    match mi.getD j none with
    | none => (rs, mi)
    | some k => walk2 fuel (rs.modify k fun r => { r with tlen := -t }) (mi.set j none) k t

/-- one iteration of `for i in 0..records.len()` -/
def resolveAt (st : List Rec × List (Option Nat)) (i : Nat) : List Rec × List (Option Nat) :=
  let (rs, mi) := st
  match mi.getD i none with
  | none => st
  | some _ =>
    let (rs1, j) := walk1 rs.length rs mi i
    match rs1[i]?, rs1[j]? with
    | some first, some last =>
      -- set_mate(last, first)
      let last' := setMate last first
      let rs2 := rs1.set j last'
      let t : Int := calcTlen last' first
      let t := if posLe first.pos last'.pos then t else -t
      let rs3 := rs2.modify i fun r => { r with tlen := t }
      walk2 rs.length rs3 mi i t
    | _, _ => st

def mateIndices (rs : List Rec) : List (Option Nat) :=
  (List.range rs.length).zipWith (fun i r => r.mateDist.map fun d => i + d + 1) rs

def resolveMates (rs : List Rec) : List Rec :=
  ((List.range rs.length).foldl resolveAt (rs, mateIndices rs)).1

/-- write then read one slice -/
def roundTrip (rs : List Rec) : List Rec := resolveMates ((setMates rs).map wire)

end Noodles.Cram.Mates
