import Noodles.Cram.Num
/-! Helper lemmas for `Noodles/Props/C08.lean`: the integer codings (ITF8, LTF8, uint7). Every
branch of a writer is replayed through the reader; the bit-field identities are closed by `omega`
(division and remainder by literals). -/
namespace Noodles.Cram.Num

theorem toU32_lt (n : Int) : toU 32 n < 2 ^ 32 := by
  unfold toU; omega

theorem ofU_toU32 (n : Int) (h1 : -2 ^ 31 ≤ n) (h2 : n < 2 ^ 31) : ofU 32 (toU 32 n) = n := by
  unfold ofU toU
  split <;> omega

theorem toU64_lt (n : Int) : toU 64 n < 2 ^ 64 := by
  unfold toU; omega

theorem ofU_toU64 (n : Int) (h1 : -2 ^ 63 ≤ n) (h2 : n < 2 ^ 63) : ofU 64 (toU 64 n) = n := by
  unfold ofU toU
  split <;> omega

/-! ## ITF8 -/

theorem itf8_b1 (u : Nat) (h : u < 2 ^ 7) (r : List Nat) :
    readItf8 ([u] ++ r) = .ok (ofU 32 u, r) := by
  simp only [List.cons_append, List.nil_append, readItf8]
  have c1 : u < 128 := by omega
  simp only [c1, ↓reduceIte]

theorem itf8_b2 (u : Nat) (h1 : ¬ u < 2 ^ 7) (h2 : u < 2 ^ 14) (r : List Nat) :
    readItf8 ([128 + u / 2 ^ 8, u % 256] ++ r) = .ok (ofU 32 u, r) := by
  simp only [List.cons_append, List.nil_append, readItf8]
  have c1 : ¬ (128 + u / 2 ^ 8 < 128) := by omega
  have c2 : 128 + u / 2 ^ 8 < 192 := by omega
  have e : (128 + u / 2 ^ 8) % 128 * 2 ^ 8 + u % 256 = u := by omega
  simp only [c1, c2, ↓reduceIte, e]

theorem itf8_b3 (u : Nat) (h1 : ¬ u < 2 ^ 14) (h2 : u < 2 ^ 21) (r : List Nat) :
    readItf8 ([192 + u / 2 ^ 16, u / 2 ^ 8 % 256, u % 256] ++ r) = .ok (ofU 32 u, r) := by
  simp only [List.cons_append, List.nil_append, readItf8]
  have c1 : ¬ (192 + u / 2 ^ 16 < 128) := by omega
  have c2 : ¬ (192 + u / 2 ^ 16 < 192) := by omega
  have c3 : 192 + u / 2 ^ 16 < 224 := by omega
  have e : (192 + u / 2 ^ 16) % 64 * 2 ^ 16 + (u / 2 ^ 8 % 256 * 2 ^ 8 + u % 256) = u := by omega
  simp only [c1, c2, c3, ↓reduceIte, e]

theorem itf8_b4 (u : Nat) (h1 : ¬ u < 2 ^ 21) (h2 : u < 2 ^ 28) (r : List Nat) :
    readItf8 ([224 + u / 2 ^ 24, u / 2 ^ 16 % 256, u / 2 ^ 8 % 256, u % 256] ++ r)
      = .ok (ofU 32 u, r) := by
  simp only [List.cons_append, List.nil_append, readItf8]
  have c1 : ¬ (224 + u / 2 ^ 24 < 128) := by omega
  have c2 : ¬ (224 + u / 2 ^ 24 < 192) := by omega
  have c3 : ¬ (224 + u / 2 ^ 24 < 224) := by omega
  have c4 : 224 + u / 2 ^ 24 < 240 := by omega
  have e : (224 + u / 2 ^ 24) % 32 * 2 ^ 24
      + (u / 2 ^ 16 % 256 * 2 ^ 16 + u / 2 ^ 8 % 256 * 2 ^ 8 + u % 256) = u := by omega
  simp only [c1, c2, c3, c4, ↓reduceIte, e]

theorem itf8_b5 (u : Nat) (hu : u < 2 ^ 32) (h1 : ¬ u < 2 ^ 28) (r : List Nat) :
    readItf8 ([240 + u / 2 ^ 28, u / 2 ^ 20 % 256, u / 2 ^ 12 % 256, u / 2 ^ 4 % 256, u % 16] ++ r)
      = .ok (ofU 32 u, r) := by
  simp only [List.cons_append, List.nil_append, readItf8]
  have c1 : ¬ (240 + u / 2 ^ 28 < 128) := by omega
  have c2 : ¬ (240 + u / 2 ^ 28 < 192) := by omega
  have c3 : ¬ (240 + u / 2 ^ 28 < 224) := by omega
  have c4 : ¬ (240 + u / 2 ^ 28 < 240) := by omega
  have e : (240 + u / 2 ^ 28) % 16 * 2 ^ 28
      + (u / 2 ^ 20 % 256 * 2 ^ 16 + u / 2 ^ 12 % 256 * 2 ^ 8 + u / 2 ^ 4 % 256) * 2 ^ 4
      + u % 16 % 16 = u := by omega
  simp only [c1, c2, c3, c4, ↓reduceIte, e]

/-- ITF8 on the unsigned image: every `u32` bit pattern survives `write_itf8` / `read_itf8`. -/
theorem readItf8_write (n : Int) (r : List Nat) :
    readItf8 (writeItf8 n ++ r) = .ok (ofU 32 (toU 32 n), r) := by
  have hu := toU32_lt n
  unfold writeItf8
  generalize toU 32 n = u at hu ⊢
  simp only []
  split
  · exact itf8_b1 u ‹_› r
  · split
    · exact itf8_b2 u ‹_› ‹_› r
    · split
      · exact itf8_b3 u ‹_› ‹_› r
      · split
        · exact itf8_b4 u ‹_› ‹_› r
        · exact itf8_b5 u hu ‹_› r

theorem writeItf8_bytes (n : Int) : (writeItf8 n).length ≤ 5 ∧ ∀ b ∈ writeItf8 n, b < 256 := by
  have hu := toU32_lt n
  unfold writeItf8
  generalize toU 32 n = u at hu ⊢
  simp only []
  repeat' split
  all_goals (
    refine ⟨by simp, ?_⟩
    intro b hb
    simp only [List.mem_cons, List.not_mem_nil, or_false] at hb
    omega)

/-! ## LTF8 -/

theorem ltf8_f1 (u : Nat) (h1 : ¬ u < 2 ^ 7) (h2 : u < 2 ^ 14) (r : List Nat) :
    readLtf8 (((128 + u / 2 ^ 8) :: be 1 u) ++ r) = .ok (ofU 64 u, r) := by
  have t : takeN 1 (be 1 u ++ r) = .ok (be 1 u, r) := by simp [takeN, be]
  have e : unbe (be 1 u) = u % 2 ^ 8 := by
    simp only [be, unbe, List.foldl, Nat.reduceMul, Nat.reducePow]
    omega
  simp only [List.cons_append, readLtf8, t, e]
  have c0 : ¬ (128 + u / 2 ^ 8 < 128) := by omega
  have c1 : 128 + u / 2 ^ 8 < 192 := by omega
  have e2 : (128 + u / 2 ^ 8) % 128 * 2 ^ (8 * 1) + u % 2 ^ 8 = u := by omega
  simp only [c0, c1, ↓reduceIte, e2]

theorem ltf8_f2 (u : Nat) (h1 : ¬ u < 2 ^ 14) (h2 : u < 2 ^ 21) (r : List Nat) :
    readLtf8 (((192 + u / 2 ^ 16) :: be 2 u) ++ r) = .ok (ofU 64 u, r) := by
  have t : takeN 2 (be 2 u ++ r) = .ok (be 2 u, r) := by simp [takeN, be]
  have e : unbe (be 2 u) = u % 2 ^ 16 := by
    simp only [be, unbe, List.foldl, Nat.reduceMul, Nat.reducePow]
    omega
  simp only [List.cons_append, readLtf8, t, e]
  have c0 : ¬ (192 + u / 2 ^ 16 < 128) := by omega
  have c1 : ¬ (192 + u / 2 ^ 16 < 192) := by omega
  have c2 : 192 + u / 2 ^ 16 < 224 := by omega
  have e2 : (192 + u / 2 ^ 16) % 64 * 2 ^ (8 * 2) + u % 2 ^ 16 = u := by omega
  simp only [c0, c1, c2, ↓reduceIte, e2]

theorem ltf8_f3 (u : Nat) (h1 : ¬ u < 2 ^ 21) (h2 : u < 2 ^ 28) (r : List Nat) :
    readLtf8 (((224 + u / 2 ^ 24) :: be 3 u) ++ r) = .ok (ofU 64 u, r) := by
  have t : takeN 3 (be 3 u ++ r) = .ok (be 3 u, r) := by simp [takeN, be]
  have e : unbe (be 3 u) = u % 2 ^ 24 := by
    simp only [be, unbe, List.foldl, Nat.reduceMul, Nat.reducePow]
    omega
  simp only [List.cons_append, readLtf8, t, e]
  have c0 : ¬ (224 + u / 2 ^ 24 < 128) := by omega
  have c1 : ¬ (224 + u / 2 ^ 24 < 192) := by omega
  have c2 : ¬ (224 + u / 2 ^ 24 < 224) := by omega
  have c3 : 224 + u / 2 ^ 24 < 240 := by omega
  have e2 : (224 + u / 2 ^ 24) % 32 * 2 ^ (8 * 3) + u % 2 ^ 24 = u := by omega
  simp only [c0, c1, c2, c3, ↓reduceIte, e2]

theorem ltf8_f4 (u : Nat) (h1 : ¬ u < 2 ^ 28) (h2 : u < 2 ^ 35) (r : List Nat) :
    readLtf8 (((240 + u / 2 ^ 32) :: be 4 u) ++ r) = .ok (ofU 64 u, r) := by
  have t : takeN 4 (be 4 u ++ r) = .ok (be 4 u, r) := by simp [takeN, be]
  have e : unbe (be 4 u) = u % 2 ^ 32 := by
    simp only [be, unbe, List.foldl, Nat.reduceMul, Nat.reducePow]
    omega
  simp only [List.cons_append, readLtf8, t, e]
  have c0 : ¬ (240 + u / 2 ^ 32 < 128) := by omega
  have c1 : ¬ (240 + u / 2 ^ 32 < 192) := by omega
  have c2 : ¬ (240 + u / 2 ^ 32 < 224) := by omega
  have c3 : ¬ (240 + u / 2 ^ 32 < 240) := by omega
  have c4 : 240 + u / 2 ^ 32 < 248 := by omega
  have e2 : (240 + u / 2 ^ 32) % 16 * 2 ^ (8 * 4) + u % 2 ^ 32 = u := by omega
  simp only [c0, c1, c2, c3, c4, ↓reduceIte, e2]

theorem ltf8_f5 (u : Nat) (h1 : ¬ u < 2 ^ 35) (h2 : u < 2 ^ 42) (r : List Nat) :
    readLtf8 (((248 + u / 2 ^ 40) :: be 5 u) ++ r) = .ok (ofU 64 u, r) := by
  have t : takeN 5 (be 5 u ++ r) = .ok (be 5 u, r) := by simp [takeN, be]
  have e : unbe (be 5 u) = u % 2 ^ 40 := by
    simp only [be, unbe, List.foldl, Nat.reduceMul, Nat.reducePow]
    omega
  simp only [List.cons_append, readLtf8, t, e]
  have c0 : ¬ (248 + u / 2 ^ 40 < 128) := by omega
  have c1 : ¬ (248 + u / 2 ^ 40 < 192) := by omega
  have c2 : ¬ (248 + u / 2 ^ 40 < 224) := by omega
  have c3 : ¬ (248 + u / 2 ^ 40 < 240) := by omega
  have c4 : ¬ (248 + u / 2 ^ 40 < 248) := by omega
  have c5 : 248 + u / 2 ^ 40 < 252 := by omega
  have e2 : (248 + u / 2 ^ 40) % 8 * 2 ^ (8 * 5) + u % 2 ^ 40 = u := by omega
  simp only [c0, c1, c2, c3, c4, c5, ↓reduceIte, e2]

theorem ltf8_f6 (u : Nat) (h1 : ¬ u < 2 ^ 42) (h2 : u < 2 ^ 49) (r : List Nat) :
    readLtf8 (((252 + u / 2 ^ 48) :: be 6 u) ++ r) = .ok (ofU 64 u, r) := by
  have t : takeN 6 (be 6 u ++ r) = .ok (be 6 u, r) := by simp [takeN, be]
  have e : unbe (be 6 u) = u % 2 ^ 48 := by
    simp only [be, unbe, List.foldl, Nat.reduceMul, Nat.reducePow]
    omega
  simp only [List.cons_append, readLtf8, t, e]
  have c0 : ¬ (252 + u / 2 ^ 48 < 128) := by omega
  have c1 : ¬ (252 + u / 2 ^ 48 < 192) := by omega
  have c2 : ¬ (252 + u / 2 ^ 48 < 224) := by omega
  have c3 : ¬ (252 + u / 2 ^ 48 < 240) := by omega
  have c4 : ¬ (252 + u / 2 ^ 48 < 248) := by omega
  have c5 : ¬ (252 + u / 2 ^ 48 < 252) := by omega
  have c6 : 252 + u / 2 ^ 48 < 254 := by omega
  have e2 : (252 + u / 2 ^ 48) % 4 * 2 ^ (8 * 6) + u % 2 ^ 48 = u := by omega
  simp only [c0, c1, c2, c3, c4, c5, c6, ↓reduceIte, e2]

theorem ltf8_f0 (u : Nat) (h : u < 2 ^ 7) (r : List Nat) :
    readLtf8 ([u] ++ r) = .ok (ofU 64 u, r) := by
  simp only [List.cons_append, List.nil_append, readLtf8]
  have c1 : u < 128 := by omega
  simp only [c1, ↓reduceIte]

theorem ltf8_f7 (u : Nat) (h2 : u < 2 ^ 56) (r : List Nat) :
    readLtf8 ((254 :: be 7 u) ++ r) = .ok (ofU 64 u, r) := by
  have t : takeN 7 (be 7 u ++ r) = .ok (be 7 u, r) := by simp [takeN, be]
  have e : unbe (be 7 u) = u := by
    simp only [be, unbe, List.foldl, Nat.reduceMul, Nat.reducePow]
    omega
  simp only [List.cons_append, readLtf8, t, e]
  simp

theorem ltf8_f8 (u : Nat) (h2 : u < 2 ^ 64) (r : List Nat) :
    readLtf8 ((255 :: be 8 u) ++ r) = .ok (ofU 64 u, r) := by
  have t : takeN 8 (be 8 u ++ r) = .ok (be 8 u, r) := by simp [takeN, be]
  have e : unbe (be 8 u) = u := by
    simp only [be, unbe, List.foldl, Nat.reduceMul, Nat.reducePow]
    omega
  simp only [List.cons_append, readLtf8, t, e]
  simp

/-- LTF8 on the unsigned image: every `u64` bit pattern survives `write_ltf8` / `read_ltf8`. -/
theorem readLtf8_write (n : Int) (r : List Nat) :
    readLtf8 (writeLtf8 n ++ r) = .ok (ofU 64 (toU 64 n), r) := by
  have hu := toU64_lt n
  unfold writeLtf8
  generalize toU 64 n = u at hu ⊢
  simp only []
  split
  · exact ltf8_f0 u ‹_› r
  · split
    · exact ltf8_f1 u ‹_› ‹_› r
    · split
      · exact ltf8_f2 u ‹_› ‹_› r
      · split
        · exact ltf8_f3 u ‹_› ‹_› r
        · split
          · exact ltf8_f4 u ‹_› ‹_› r
          · split
            · exact ltf8_f5 u ‹_› ‹_› r
            · split
              · exact ltf8_f6 u ‹_› ‹_› r
              · split
                · exact ltf8_f7 u ‹_› r
                · exact ltf8_f8 u hu r

theorem be_length (k u : Nat) : (be k u).length = k := by
  induction k with
  | zero => rfl
  | succ k ih => simp [be, ih]

theorem be_bytes (k u : Nat) : ∀ b ∈ be k u, b < 256 := by
  induction k with
  | zero => simp [be]
  | succ k ih =>
    intro b hb
    simp only [be, List.mem_cons] at hb
    rcases hb with rfl | hb
    · exact Nat.mod_lt _ (by decide)
    · exact ih b hb

theorem writeLtf8_bytes (n : Int) : (writeLtf8 n).length ≤ 9 ∧ ∀ b ∈ writeLtf8 n, b < 256 := by
  have hu := toU64_lt n
  unfold writeLtf8
  generalize toU 64 n = u at hu ⊢
  simp only []
  repeat' split
  all_goals (
    refine ⟨by simp [be_length], ?_⟩
    intro b hb
    simp only [List.mem_cons, List.not_mem_nil, or_false] at hb
    first
      | omega
      | (rcases hb with hb | hb
         · omega
         · exact be_bytes _ _ b hb))

/-! ## uint7 -/

theorem uint7_c1 (n : Nat) (h : n < 2 ^ 7) (r : List Nat) :
    writeUint7 n = some [n] ∧ readUint7 ([n] ++ r) = .ok (n, r) := by
  have z : n / 128 = 0 := by omega
  have m : n % 128 = n := by omega
  refine ⟨by simp [writeUint7, writeUint7Go, z, m], ?_⟩
  have c : n < 128 := by omega
  simp [readUint7, readUint7Go, c, m]

theorem uint7_c2 (n : Nat) (h1 : ¬ n < 2 ^ 7) (h2 : n < 2 ^ 14) (r : List Nat) :
    writeUint7 n = some [n / 128 % 128 + 128, n % 128] ∧
    readUint7 ([n / 128 % 128 + 128, n % 128] ++ r) = .ok (n, r) := by
  have z1 : n / 128 ≠ 0 := by omega
  have z2 : n / 128 / 128 = 0 := by omega
  refine ⟨by simp [writeUint7, writeUint7Go, z1, z2], ?_⟩
  have c1 : ¬ (n / 128 % 128 + 128 < 128) := by omega
  have c2 : n % 128 < 128 := by omega
  have e : ((0 * 128 % 2 ^ 32 + (n / 128 % 128 + 128) % 128) * 128 % 2 ^ 32 + n % 128 % 128) = n := by
    omega
  simp only [readUint7, List.cons_append, List.nil_append, readUint7Go, c1, c2, ↓reduceIte, e]
  simp

theorem uint7_c3 (n : Nat) (h1 : ¬ n < 2 ^ 14) (h2 : n < 2 ^ 21) (r : List Nat) :
    writeUint7 n = some [n / 128 / 128 % 128 + 128, n / 128 % 128 + 128, n % 128] ∧
    readUint7 ([n / 128 / 128 % 128 + 128, n / 128 % 128 + 128, n % 128] ++ r) = .ok (n, r) := by
  have z1 : n / 128 ≠ 0 := by omega
  have z2 : n / 128 / 128 ≠ 0 := by omega
  have z3 : n / 128 / 128 / 128 = 0 := by omega
  refine ⟨by simp [writeUint7, writeUint7Go, z1, z2, z3], ?_⟩
  have c1 : ¬ (n / 128 / 128 % 128 + 128 < 128) := by omega
  have c2 : ¬ (n / 128 % 128 + 128 < 128) := by omega
  have c3 : n % 128 < 128 := by omega
  have e : (((0 * 128 % 2 ^ 32 + (n / 128 / 128 % 128 + 128) % 128) * 128 % 2 ^ 32
      + (n / 128 % 128 + 128) % 128) * 128 % 2 ^ 32 + n % 128 % 128) = n := by
    omega
  simp only [readUint7, List.cons_append, List.nil_append, readUint7Go, c1, c2, c3, ↓reduceIte, e]
  simp

theorem uint7_c4 (n : Nat) (h1 : ¬ n < 2 ^ 21) (h2 : n < 2 ^ 28) (r : List Nat) :
    writeUint7 n = some [n / 128 / 128 / 128 % 128 + 128, n / 128 / 128 % 128 + 128,
      n / 128 % 128 + 128, n % 128] ∧
    readUint7 ([n / 128 / 128 / 128 % 128 + 128, n / 128 / 128 % 128 + 128,
      n / 128 % 128 + 128, n % 128] ++ r) = .ok (n, r) := by
  have z1 : n / 128 ≠ 0 := by omega
  have z2 : n / 128 / 128 ≠ 0 := by omega
  have z3 : n / 128 / 128 / 128 ≠ 0 := by omega
  have z4 : n / 128 / 128 / 128 / 128 = 0 := by omega
  refine ⟨by simp [writeUint7, writeUint7Go, z1, z2, z3, z4], ?_⟩
  have c0 : ¬ (n / 128 / 128 / 128 % 128 + 128 < 128) := by omega
  have c1 : ¬ (n / 128 / 128 % 128 + 128 < 128) := by omega
  have c2 : ¬ (n / 128 % 128 + 128 < 128) := by omega
  have c3 : n % 128 < 128 := by omega
  have e : ((((0 * 128 % 2 ^ 32 + (n / 128 / 128 / 128 % 128 + 128) % 128) * 128 % 2 ^ 32
      + (n / 128 / 128 % 128 + 128) % 128) * 128 % 2 ^ 32
      + (n / 128 % 128 + 128) % 128) * 128 % 2 ^ 32 + n % 128 % 128) = n := by
    omega
  simp only [readUint7, List.cons_append, List.nil_append, readUint7Go, c0, c1, c2, c3,
    ↓reduceIte, e]
  simp

theorem uint7_c5 (n : Nat) (h1 : ¬ n < 2 ^ 28) (h2 : n < 2 ^ 32) (r : List Nat) :
    writeUint7 n = some [n / 128 / 128 / 128 / 128 % 128 + 128, n / 128 / 128 / 128 % 128 + 128,
      n / 128 / 128 % 128 + 128, n / 128 % 128 + 128, n % 128] ∧
    readUint7 ([n / 128 / 128 / 128 / 128 % 128 + 128, n / 128 / 128 / 128 % 128 + 128,
      n / 128 / 128 % 128 + 128, n / 128 % 128 + 128, n % 128] ++ r) = .ok (n, r) := by
  have z1 : n / 128 ≠ 0 := by omega
  have z2 : n / 128 / 128 ≠ 0 := by omega
  have z3 : n / 128 / 128 / 128 ≠ 0 := by omega
  have z4 : n / 128 / 128 / 128 / 128 ≠ 0 := by omega
  have z5 : n / 128 / 128 / 128 / 128 / 128 = 0 := by omega
  refine ⟨by simp [writeUint7, writeUint7Go, z1, z2, z3, z4, z5], ?_⟩
  have c00 : ¬ (n / 128 / 128 / 128 / 128 % 128 + 128 < 128) := by omega
  have c0 : ¬ (n / 128 / 128 / 128 % 128 + 128 < 128) := by omega
  have c1 : ¬ (n / 128 / 128 % 128 + 128 < 128) := by omega
  have c2 : ¬ (n / 128 % 128 + 128 < 128) := by omega
  have c3 : n % 128 < 128 := by omega
  have e : (((((0 * 128 % 2 ^ 32 + (n / 128 / 128 / 128 / 128 % 128 + 128) % 128) * 128 % 2 ^ 32
      + (n / 128 / 128 / 128 % 128 + 128) % 128) * 128 % 2 ^ 32
      + (n / 128 / 128 % 128 + 128) % 128) * 128 % 2 ^ 32
      + (n / 128 % 128 + 128) % 128) * 128 % 2 ^ 32 + n % 128 % 128) = n := by
    omega
  simp only [readUint7, List.cons_append, List.nil_append, readUint7Go, c00, c0, c1, c2, c3,
    ↓reduceIte, e]
  simp

/-- uint7: the writer never underflows its 5-byte buffer for a `u32`, emits at most 5 bytes, and
the reader returns the value and the unread rest. -/
theorem uint7_roundtrip' (n : Nat) (h : n < 2 ^ 32) :
    ∃ bs, writeUint7 n = some bs ∧ bs.length ≤ 5 ∧ (∀ b ∈ bs, b < 256) ∧
      ∀ r, readUint7 (bs ++ r) = .ok (n, r) := by
  by_cases a1 : n < 2 ^ 7
  · exact ⟨_, (uint7_c1 n a1 []).1, by simp, by simp; omega, fun r => (uint7_c1 n a1 r).2⟩
  by_cases a2 : n < 2 ^ 14
  · exact ⟨_, (uint7_c2 n a1 a2 []).1, by simp, by simp; omega, fun r => (uint7_c2 n a1 a2 r).2⟩
  by_cases a3 : n < 2 ^ 21
  · exact ⟨_, (uint7_c3 n a2 a3 []).1, by simp, by simp; omega, fun r => (uint7_c3 n a2 a3 r).2⟩
  by_cases a4 : n < 2 ^ 28
  · exact ⟨_, (uint7_c4 n a3 a4 []).1, by simp, by simp; omega, fun r => (uint7_c4 n a3 a4 r).2⟩
  · exact ⟨_, (uint7_c5 n a4 h []).1, by simp, by simp; omega, fun r => (uint7_c5 n a4 h r).2⟩

end Noodles.Cram.Num
