/-!
# CRAM variable-length integers: ITF8, LTF8, uint7 (VLQ)

Transcribed from
* `noodles-cram/src/io/writer/num/itf8.rs` (`write_itf8`), `…/reader/num/itf8.rs` (`read_itf8`),
* `noodles-cram/src/io/writer/num/ltf8.rs` (`write_ltf8`), `…/reader/num/ltf8.rs` (`read_ltf8`),
* `noodles-cram/src/io/writer/num/vlq.rs` (`write_uint7`), `…/reader/num/vlq.rs` (`read_uint7`).

Bytes are natural numbers `< 256` (the writers only produce such; `*_bytes` lemmas in
`NumProof.lean`). Rust's fixed-width integers are modelled as follows: a signed value `n : Int` in
range is viewed through its two's-complement image `toU k n = n mod 2^k` (`n as u32`, `n as u64`),
which is what the writers' shifts and masks operate on; `|` of disjoint bit fields is `+`, `& mask`
is `%`, `>>` is `/`. The arithmetic shift tests `n >> (8k - k) == 0` of the writers hold exactly
when `0 ≤ n < 2^(7k)`, i.e. when the unsigned image is below `2^(7k)` (negative numbers have the
top bit set and fall through to the longest form).
-/
namespace Noodles.Cram.Num

inductive Err | eof | invalidData
  deriving Repr, DecidableEq

/-- bytes are natural numbers below 256 -/
abbrev Byte := Nat

/-- `n as u32` / `n as u64`: two's complement image in `k` bits -/
def toU (k : Nat) (n : Int) : Nat := (n % (2 : Int) ^ k).toNat

/-- `u as i32` / `u as i64` -/
def ofU (k : Nat) (u : Nat) : Int := if u < 2 ^ (k - 1) then (u : Int) else (u : Int) - (2 : Int) ^ k

/-! ## ITF8 -/

/-- `write_itf8` -/
def writeItf8 (n : Int) : List Nat :=
  let u := toU 32 n
  if u < 2 ^ 7 then [u]
  else if u < 2 ^ 14 then [128 + u / 2 ^ 8, u % 256]
  else if u < 2 ^ 21 then [192 + u / 2 ^ 16, u / 2 ^ 8 % 256, u % 256]
  else if u < 2 ^ 28 then [224 + u / 2 ^ 24, u / 2 ^ 16 % 256, u / 2 ^ 8 % 256, u % 256]
  else [240 + u / 2 ^ 28, u / 2 ^ 20 % 256, u / 2 ^ 12 % 256, u / 2 ^ 4 % 256, u % 16]

/-- `read_itf8`: value and the unread rest -/
def readItf8 : List Nat → Except Err (Int × List Nat)
  | [] => .error .eof
  | b0 :: r =>
    if b0 < 128 then .ok (ofU 32 b0, r)
    else if b0 < 192 then
      match r with
      | b1 :: r => .ok (ofU 32 (b0 % 128 * 2 ^ 8 + b1), r)
      | _ => .error .eof
    else if b0 < 224 then
      match r with
      | b1 :: b2 :: r => .ok (ofU 32 (b0 % 64 * 2 ^ 16 + (b1 * 2 ^ 8 + b2)), r)
      | _ => .error .eof
    else if b0 < 240 then
      match r with
      | b1 :: b2 :: b3 :: r => .ok (ofU 32 (b0 % 32 * 2 ^ 24 + (b1 * 2 ^ 16 + b2 * 2 ^ 8 + b3)), r)
      | _ => .error .eof
    else
      match r with
      | b1 :: b2 :: b3 :: b4 :: r =>
        -- `(b0 & 0x0f) << 28 | (b1_4 & 0xffffff0f) >> 4 | b1_4 & 0x0f`
        .ok (ofU 32 (b0 % 16 * 2 ^ 28 + (b1 * 2 ^ 16 + b2 * 2 ^ 8 + b3) * 2 ^ 4 + b4 % 16), r)
      | _ => .error .eof

/-! ## LTF8 -/

/-- big-endian bytes of `u`, `k` of them -/
def be : Nat → Nat → List Nat
  | 0, _ => []
  | k + 1, u => u / 2 ^ (8 * k) % 256 :: be k u

/-- value of a big-endian byte string -/
def unbe (bs : List Nat) : Nat := bs.foldl (fun a b => a * 256 + b) 0

/-- `write_ltf8` -/
def writeLtf8 (n : Int) : List Nat :=
  let u := toU 64 n
  if u < 2 ^ 7 then [u]
  else if u < 2 ^ 14 then (128 + u / 2 ^ 8) :: be 1 u
  else if u < 2 ^ 21 then (192 + u / 2 ^ 16) :: be 2 u
  else if u < 2 ^ 28 then (224 + u / 2 ^ 24) :: be 3 u
  else if u < 2 ^ 35 then (240 + u / 2 ^ 32) :: be 4 u
  else if u < 2 ^ 42 then (248 + u / 2 ^ 40) :: be 5 u
  else if u < 2 ^ 49 then (252 + u / 2 ^ 48) :: be 6 u
  else if u < 2 ^ 56 then 254 :: be 7 u
  else 255 :: be 8 u

/-- take exactly `k` bytes -/
def takeN (k : Nat) (bs : List Nat) : Except Err (List Nat × List Nat) :=
  if k ≤ bs.length then .ok (bs.take k, bs.drop k) else .error .eof

/-- `read_ltf8` -/
def readLtf8 : List Nat → Except Err (Int × List Nat)
  | [] => .error .eof
  | b0 :: r =>
    let form (k : Nat) (hi : Nat) : Except Err (Int × List Nat) :=
      match takeN k r with
      | .ok (bs, r') => .ok (ofU 64 (hi * 2 ^ (8 * k) + unbe bs), r')
      | .error e => .error e
    if b0 < 128 then .ok (ofU 64 b0, r)
    else if b0 < 192 then form 1 (b0 % 128)
    else if b0 < 224 then form 2 (b0 % 64)
    else if b0 < 240 then form 3 (b0 % 32)
    else if b0 < 248 then form 4 (b0 % 16)
    else if b0 < 252 then form 5 (b0 % 8)
    else if b0 < 254 then form 6 (b0 % 4)
    else if b0 < 255 then form 7 0
    else form 8 0

/-! ## uint7 (big-endian base-128, continuation bit on all but the last byte) -/

/-- the `while n > 0` loop of `write_uint7`, filling the 5-byte buffer from its end; `fuel` is the
number of free slots left (`i`), so running out of fuel is the `i -= 1` underflow -/
def writeUint7Go : Nat → Nat → List Nat → Option (List Nat)
  | 0, n, acc => if n = 0 then some acc else none
  | fuel + 1, n, acc =>
    if n = 0 then some acc else writeUint7Go fuel (n / 128) ((n % 128 + 128) :: acc)

/-- `write_uint7`; `none` would be an index underflow (impossible for `u32`, see `writeUint7_isSome`) -/
def writeUint7 (n : Nat) : Option (List Nat) := writeUint7Go 4 (n / 128) [n % 128]

/-- the loop of `read_uint7`: `n` accumulates in a `u32` (`<<=` drops the high bits), at most 5 bytes -/
def readUint7Go : Nat → Nat → List Nat → Except Err (Nat × List Nat)
  | _, _, [] => .error .eof
  | len, n, b :: r =>
    if len + 1 > 5 then .error .invalidData
    else
      let n' := n * 128 % 2 ^ 32 + b % 128
      if b < 128 then .ok (n', r) else readUint7Go (len + 1) n' r

def readUint7 (bs : List Nat) : Except Err (Nat × List Nat) := readUint7Go 0 0 bs

end Noodles.Cram.Num
