import Noodles.Cram.AsyncQuery
import Noodles.Cram.IndexProof
import Noodles.Io.AsyncMoreProgProof
/-!
# Lemmas for `Props/C19Async.lean`: the async query state machines follow the sync ones step by step
-/
namespace Noodles.Cram.Index
open Noodles.IO Noodles.IO.Async

variable {χ σ : Type}

/-- one index entry: the same `Step` -/
theorem nextContainer_eq (C : Codec χ) (A : ARead σ UInt8) (hA : A.Lawful) (ask : Nat × σ → Nat)
    (hask : ∀ t, 0 < ask t) (sz : Nat → List Nat) (bytes : Bytes) (seekA : σ → Nat → σ)
    (hseek : ∀ s off, A.rest (seekA s off) = bytes.drop off) (k : Nat) (en : Entry) (s : σ) (src : Src UInt8) :
    (asyncNextContainer C A ask seekA k en s).1 = (syncNextContainer C sz bytes k en src).1 := by
  unfold asyncNextContainer syncNextContainer
  by_cases hk : en.ref = some k
  · have h1 := (runA_eq_sync A hA ask hask sz C.rd (seekA s en.offset) (seekS bytes src en.offset)
      (hseek _ _)).1
    simp only [hk, ne_eq, not_true_eq_false, if_false]
    rw [h1]
    cases (Prog.run sz C.rd (seekS bytes src en.offset)).1 with
    | error e => rfl
    | ok o =>
      cases o with
      | none => rfl
      | some c => cases hc : C.sliceRecs c en.landmark <;> simp only [hc]
  · simp only [ne_eq, hk, not_false_eq_true, if_true]

theorem queryGo_eq (C : Codec χ) (A : ARead σ UInt8) (hA : A.Lawful) (ask : Nat × σ → Nat)
    (hask : ∀ t, 0 < ask t) (sz : Nat → List Nat) (bytes : Bytes) (seekA : σ → Nat → σ)
    (hseek : ∀ s off, A.rest (seekA s off) = bytes.drop off) (k qs qe : Nat) :
    ∀ (idx : List Entry) (s : σ) (src : Src UInt8),
      (asyncQueryGo C A ask seekA k qs qe idx s).1 = (syncQueryGo C sz bytes k qs qe idx src).1
  | [], _, _ => rfl
  | en :: rest, s, src => by
    have h := nextContainer_eq C A hA ask hask sz bytes seekA hseek k en s src
    simp only [asyncQueryGo, syncQueryGo]
    rcases ha : asyncNextContainer C A ask seekA k en s with ⟨sa, s'⟩
    rcases hs : syncNextContainer C sz bytes k en src with ⟨ss, src'⟩
    rw [ha, hs] at h
    simp only at h
    subst h
    cases sa with
    | stop => rfl
    | fail e => rfl
    | recs rs =>
      simp only []
      rw [queryGo_eq C A hA ask hask sz bytes seekA hseek k qs qe rest s' src']

theorem recordsGo_eq (C : Codec χ) (A : ARead σ UInt8) (hA : A.Lawful) (ask : Nat × σ → Nat)
    (hask : ∀ t, 0 < ask t) (sz : Nat → List Nat) (flag : Rec → Bool) :
    ∀ (fuel : Nat) (s : σ) (src : Src UInt8), A.rest s = src.data →
      (asyncRecordsGo C A ask flag fuel s).1 = (syncRecordsGo C sz flag fuel src).1
  | 0, _, _, _ => rfl
  | fuel + 1, s, src, h => by
    obtain ⟨h1, h2⟩ := runA_eq_sync A hA ask hask sz C.rd s src h
    simp only [asyncRecordsGo, syncRecordsGo]
    rw [h1]
    cases hr : (Prog.run sz C.rd src).1 with
    | error e => rfl
    | ok o =>
      cases o with
      | none => rfl
      | some c =>
        cases hc : C.allRecs c with
        | error e => simp only [hc]
        | ok rs =>
          simp only [hc]
          rw [recordsGo_eq C A hA ask hask sz flag fuel _ _ h2]

/-! ## the sync state machine over bytes that hold a layout = the query of `IndexModel` -/

theorem syncQueryGo_model (C : Codec χ) (sz : Nat → List Nat) (bytes : Bytes) (f : FileL) (k qs qe : Nat) :
    ∀ (idx : List Entry), HoldsAt C bytes f k idx → ∀ (rs : List Rec) (src : Src UInt8),
      queryGo (containerAt f.start f.cs) k qs qe idx = some rs →
      (syncQueryGo C sz bytes k qs qe idx src).1 = okItems rs
  | [], _, rs, _, h => by
    simp only [queryGo, Option.some.injEq] at h
    subst h; rfl
  | en :: rest, hold, rs, src, h => by
    have hold' : HoldsAt C bytes f k rest := fun e he => hold e (List.mem_cons_of_mem _ he)
    simp only [queryGo] at h
    cases hsv : serve (containerAt f.start f.cs) k qs qe en with
    | none => rw [hsv] at h; cases h
    | some r1 =>
      rw [hsv] at h
      cases hq : queryGo (containerAt f.start f.cs) k qs qe rest with
      | none => rw [hq] at h; cases h
      | some more =>
        rw [hq] at h
        simp only [Option.some.injEq] at h
        subst h
        simp only [syncQueryGo]
        by_cases hk : en.ref = some k
        · simp only [serve, hk, if_true] at hsv
          cases hc : containerAt f.start f.cs en.offset with
          | none => rw [hc] at hsv; cases hsv
          | some c =>
            rw [hc] at hsv
            simp only [Option.some.injEq] at hsv
            obtain ⟨x, hx1, hx2⟩ := hold en (List.mem_cons_self ..) hk c hc
            have hrun : (Prog.run sz C.rd (seekS bytes src en.offset)).1 = .ok (some x) := by
              rw [(Prog.run_spec sz C.rd (seekS bytes src en.offset)).1]; exact hx1
            simp only [syncNextContainer, hk, ne_eq, not_true_eq_false, if_false, hrun, hx2]
            rw [syncQueryGo_model C sz bytes f k qs qe rest hold' more _ hq, ← hsv]
            simp [okItems]
        · simp only [serve, hk, if_false, Option.some.injEq] at hsv
          subst hsv
          simp only [syncNextContainer, ne_eq, hk, not_false_eq_true, if_true]
          rw [syncQueryGo_model C sz bytes f k qs qe rest hold' more _ hq]
          simp [okItems]

/-- (`Props/C19.lean::cram_query_eq_scan`, restated here because that file imports this development) -/
theorem cramQuery_own_eq_scan (f : FileL) (hwf : f.WF) (k qs qe : Nat) :
    cramQuery f (craiOf f) k qs qe = some (scan f k qs qe) := by
  have := queryGo_file f hwf k qs qe [] f.cs rfl
  simpa [cramQuery, craiOf, scan, FileL.recs] using this

end Noodles.Cram.Index
