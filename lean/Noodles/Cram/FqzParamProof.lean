import Noodles.Cram.FqzArrayProof
/-!
Helper lemmas for `Noodles/Props/C08Fqz.lean`: the fqzcomp parameter block —
`fqz_decode_params (fqz_encode_params P) = P` for every parameter value the encoder's writer can
write, and the one parameter set `build_parameters` builds.
-/
namespace Noodles.Cram.Fqz
open Noodles.Cram.Aac

/-! ## what the decoder reads back -/

/-- the decoder's view of a parameter set the encoder's writer can write (no quality map, no q / d
table: the quality table is the identity) -/
def EParam.toDec (p : EParam) : Param :=
  ⟨p.context, p.flags, p.symbolCount - 1, p.qbits, p.qshift, p.qloc, p.sloc, p.ploc, p.dloc,
    none, (List.range 256).toArray, (if bit p.flags 5 then some p.ptab.toArray else none), none⟩

/-- the decoder's view of the encoder's `Parameters` -/
def EParams.toDec (P : EParams) : Params :=
  ⟨P.gflags, (if bit P.gflags 1 then some P.stab.toArray else none), P.params.map EParam.toDec,
    (P.params.map fun p => p.symbolCount).foldl max 0,
    (if bit P.gflags 1 then some (P.maxSel + 1) else if bit P.gflags 0 then some (P.params.length + 1) else none)⟩

/-- a parameter set that `fqz_encode_single_param` writes (none of its `todo!()` is reached) and
that is inside the format's ranges -/
structure EParam.Writable (p : EParam) : Prop where
  context : p.context < 65536
  flags : p.flags < 256
  noQmap : bit p.flags 4 = false
  noDtab : bit p.flags 6 = false
  noQtab : bit p.flags 7 = false
  sym1 : 1 ≤ p.symbolCount
  sym2 : p.symbolCount ≤ 256
  qbits : p.qbits < 16
  qshift : p.qshift < 16
  qloc : p.qloc < 16
  sloc : p.sloc < 16
  ploc : p.ploc < 16
  dloc : p.dloc < 16
  qtab : p.qtab = List.range 256
  ptabLen : bit p.flags 5 = true → p.ptab.length = 1024
  ptabOk : bit p.flags 5 = true → ArrayOk p.ptab

/-- a `Parameters` value that `fqz_encode_params` writes and `fqz_decode_params` accepts -/
structure EParams.Writable (P : EParams) : Prop where
  gflags : P.gflags < 8
  count : if bit P.gflags 0 then 1 ≤ P.params.length ∧ P.params.length ≤ 255 else P.params.length = 1
  maxSel : bit P.gflags 1 = true → 1 ≤ P.maxSel ∧ P.maxSel ≤ 255
  stabLen : bit P.gflags 1 = true → P.stab.length = 256
  stabOk : bit P.gflags 1 = true → ArrayOk P.stab
  params : ∀ p ∈ P.params, p.Writable

/-! ## one parameter set -/

theorem nibbles (a b : Nat) (ha : a < 16) (hb : b < 16) : a * 16 % 256 ||| b = a * 16 + b := by
  have : ∀ a, a < 16 → ∀ b, b < 16 → a * 16 % 256 ||| b = a * 16 + b := by decide
  exact this a ha b hb

theorem readTable_write (present : Bool) (n : Nat) (tab rest : List Nat) (hlen : present = true → tab.length = n)
    (hok : present = true → ArrayOk tab) :
    ∃ w, (if present then writeArray tab else .ok []) = .ok w ∧
      readTable present n (w ++ rest) = .ok ((if present then some tab.toArray else none), rest) := by
  cases present with
  | false => exact ⟨[], rfl, rfl⟩
  | true =>
    obtain ⟨w, hw, hr⟩ := readArray_writeArray tab rest (hok rfl)
    rw [hlen rfl] at hr
    exact ⟨w, hw, by simp only [readTable, if_true, hr]⟩

theorem readParam_writeParam (p : EParam) (rest : List Nat) (h : p.Writable) :
    ∃ w, writeParam p = .ok w ∧ readParam (w ++ rest) = .ok (p.toDec, rest) := by
  obtain ⟨w, hw, hr⟩ := readTable_write (bit p.flags 5) 1024 p.ptab rest h.ptabLen h.ptabOk
  refine ⟨_, by simp only [writeParam, h.noQmap, h.noQtab, h.noDtab, hw]; rfl, ?_⟩
  have h1 := nibbles p.qbits p.qshift h.qbits h.qshift
  have h2 := nibbles p.qloc p.sloc h.qloc h.sloc
  have h3 := nibbles p.ploc p.dloc h.ploc h.dloc
  have hc := h.context
  have hs1 := h.sym1
  have hs2 := h.sym2
  have hq1 := h.qbits
  have hq2 := h.qshift
  have hq3 := h.qloc
  have hq4 := h.sloc
  have hq5 := h.ploc
  have hq6 := h.dloc
  have e1 : p.context % 256 + 256 * (p.context / 256 % 256) = p.context := by omega
  have e2 : (p.symbolCount - 1) % 256 = p.symbolCount - 1 := by omega
  have e3 : (p.qbits * 16 + p.qshift) / 16 = p.qbits := by omega
  have e4 : (p.qbits * 16 + p.qshift) % 16 = p.qshift := by omega
  have e5 : (p.qloc * 16 + p.sloc) / 16 = p.qloc := by omega
  have e6 : (p.qloc * 16 + p.sloc) % 16 = p.sloc := by omega
  have e7 : (p.ploc * 16 + p.dloc) / 16 = p.ploc := by omega
  have e8 : (p.ploc * 16 + p.dloc) % 16 = p.dloc := by omega
  simp only [List.cons_append, List.nil_append, readParam, h.noQmap, h.noQtab, h.noDtab, hr, h1, h2, h3,
    e1, e2, e3, e4, e5, e6, e7, e8, Bool.false_eq_true, if_false]
  rfl

theorem readParamN_write (ps : List EParam) (rest : List Nat) (h : ∀ p ∈ ps, p.Writable) :
    ∃ w, writeParamList ps = .ok w ∧ readParamN ps.length (w ++ rest) = .ok (ps.map EParam.toDec, rest) := by
  induction ps with
  | nil => exact ⟨[], rfl, rfl⟩
  | cons p ps ih =>
    obtain ⟨b, hb, hrb⟩ := ih (fun q hq => h q (List.mem_cons_of_mem _ hq))
    obtain ⟨a, ha, hra⟩ := readParam_writeParam p (b ++ rest) (h p (by simp))
    refine ⟨a ++ b, by simp only [writeParamList, ha, hb], ?_⟩
    simp only [List.length_cons, readParamN, List.append_assoc, hra, hrb, List.map_cons]

/-! ## the whole block -/

theorem map_toDec_maxSym (ps : List EParam) (h : ∀ p ∈ ps, 1 ≤ p.symbolCount) :
    (ps.map EParam.toDec).map (fun p => p.maxSym + 1) = ps.map fun p => p.symbolCount := by
  induction ps with
  | nil => rfl
  | cons p ps ih =>
    have := h p (by simp)
    simp only [List.map_cons, ih (fun q hq => h q (List.mem_cons_of_mem _ hq)), EParam.toDec]
    congr 1
    omega

theorem readParams_writeParams (P : EParams) (rest : List Nat) (h : P.Writable) :
    ∃ w, writeParams P = .ok w ∧ readParams (w ++ rest) = .ok (P.toDec, rest) := by
  obtain ⟨ps, hps, hrps⟩ := readParamN_write P.params rest h.params
  have hmax := map_toDec_maxSym P.params (fun p hp => (h.params p hp).sym1)
  have hg : P.gflags % 8 = P.gflags := Nat.mod_eq_of_lt h.gflags
  have hcount := h.count
  cases h0 : bit P.gflags 0 with
  | false =>
    simp only [h0, Bool.false_eq_true, if_false] at hcount
    cases h1 : bit P.gflags 1 with
    | false =>
      refine ⟨[5, P.gflags] ++ [] ++ [] ++ ps, by simp only [writeParams, h0, h1, hps]; rfl, ?_⟩
      rw [hcount] at hrps
      simp only [List.cons_append, List.nil_append, readParams, h0, h1, hrps, hmax, hg, EParams.toDec,
        Bool.false_eq_true, if_false]
      simp
    | true =>
      obtain ⟨hm1, hm2⟩ := h.maxSel h1
      obtain ⟨t, ht, hrt⟩ := readArray_writeArray P.stab (ps ++ rest) (h.stabOk h1)
      rw [h.stabLen h1] at hrt
      refine ⟨[5, P.gflags] ++ [] ++ (P.maxSel :: t) ++ ps, by simp only [writeParams, h0, h1, hps, ht]; rfl, ?_⟩
      have hm0 : ¬ P.maxSel = 0 := by omega
      rw [hcount] at hrps
      simp only [List.cons_append, List.nil_append, List.append_assoc, readParams, h0, h1, hrt, hrps,
        hmax, hg, hm0, EParams.toDec, Bool.false_eq_true, if_false, if_true]
      simp
  | true =>
    simp only [h0, if_true] at hcount
    have hlt : P.params.length < 256 := by omega
    have hn0 : ¬ P.params.length = 0 := by omega
    cases h1 : bit P.gflags 1 with
    | false =>
      refine ⟨[5, P.gflags] ++ [P.params.length] ++ [] ++ ps, by simp only [writeParams, h0, h1, hps, hlt]; rfl, ?_⟩
      simp only [List.cons_append, List.nil_append, readParams, h0, h1, hrps, hmax, hg, hn0, EParams.toDec,
        Bool.false_eq_true, if_false, if_true]
      simp
    | true =>
      obtain ⟨hm1, hm2⟩ := h.maxSel h1
      obtain ⟨t, ht, hrt⟩ := readArray_writeArray P.stab (ps ++ rest) (h.stabOk h1)
      rw [h.stabLen h1] at hrt
      refine ⟨[5, P.gflags] ++ [P.params.length] ++ (P.maxSel :: t) ++ ps,
        by simp only [writeParams, h0, h1, hps, ht, hlt]; rfl, ?_⟩
      have hm0 : ¬ P.maxSel = 0 := by omega
      simp only [List.cons_append, List.nil_append, List.append_assoc, readParams, h0, h1, hrt, hrps,
        hmax, hg, hm0, hn0, EParams.toDec, if_false, if_true]
      simp

/-! ## the parameters `build_parameters` builds -/

/-- a linear check of "nondecreasing" -/
def sortedB : List Nat → Bool
  | a :: b :: r => decide (a ≤ b) && sortedB (b :: r)
  | _ => true

theorem pairwise_of_sortedB : ∀ (l : List Nat), sortedB l = true → l.Pairwise (· ≤ ·)
  | [], _ => List.Pairwise.nil
  | [_], _ => List.pairwise_singleton _ _
  | a :: b :: r, h => by
    simp only [sortedB, Bool.and_eq_true, decide_eq_true_eq] at h
    have ih := pairwise_of_sortedB (b :: r) h.2
    refine List.pairwise_cons.mpr ⟨?_, ih⟩
    intro x hx
    rcases List.mem_cons.mp hx with rfl | hx
    · exact h.1
    · exact Nat.le_trans h.1 ((List.pairwise_cons.mp ih).1 x hx)

theorem buildPtab_ok (s : Nat) (hs : s = 0 ∨ s = 1) : ArrayOk (buildPtab s) ∧ (buildPtab s).length = 1024 := by
  refine ⟨⟨?_, ?_, ?_, ?_⟩, by simp [buildPtab]⟩
  · intro x hx
    simp only [buildPtab, List.mem_map] at hx
    obtain ⟨i, _, rfl⟩ := hx
    omega
  · rcases hs with rfl | rfl <;> exact pairwise_of_sortedB _ (by decide +kernel)
  · rcases hs with rfl | rfl <;> decide +kernel
  · rcases hs with rfl | rfl <;> decide +kernel

end Noodles.Cram.Fqz
