import Noodles.Cram.SamConvProof
/-! The reader's range validation (`record/sequence/iter.rs::validate`) accepts what
`cigar_to_features` builds from a read that lies inside its reference. -/
namespace Noodles.Cram.Sam
open Noodles.Cram Noodles.Cram.Enc Noodles.Cram.Mates

/-- the validator, lagging `k` matching bases behind the position `(r, q)` the writer's loop is at,
accepts the remaining features -/
def VOk (s : List Nat) (L : Nat) (fs : List Feature) (r q : Nat) : Prop :=
  ∀ r' q' k, r = r' + k → q = q' + k → validateSeqGo (some s) L r' q' fs = .ok ()

theorem VOk.end_ (s : List Nat) (L r : Nat) (hr : r ≤ s.length) : VOk s L [] r L := by
  intro r' q' k h1 h2
  unfold validateSeqGo
  have : ¬ L < q' := by omega
  simp only [this, if_false, chkRef]
  split
  · rfl
  · have : r' + (L - q') ≤ s.length := by omega
    simp [this]

theorem VOk.lag {s : List Nat} {L : Nat} {fs : List Feature} {r q : Nat} (h : VOk s L fs (r + 1) (q + 1)) :
    VOk s L fs r q :=
  fun r' q' k h1 h2 => h r' q' (k + 1) (by omega) (by omega)

theorem VOk.step {s : List Nat} {L : Nat} {fs : List Feature} {r q : Nat} (f : Feature) (dr dq : Nat)
    (hpos : f.pos = q + 1) (hd : f.delta = some (dr, dq)) (hr : r ≤ s.length)
    (hsub : ∀ p c, f = .subst p c → r + 1 ≤ s.length) (hnext : VOk s L fs (r + dr) (q + dq)) :
    VOk s L (f :: fs) r q := by
  intro r' q' k h1 h2
  unfold validateSeqGo
  simp only [hd]
  have hk : f.pos - (q' + 1) = k := by omega
  rw [hk]
  have c1 : chkRef (some s) r' k = .ok () := by
    unfold chkRef
    split
    · rfl
    · have : r' + k ≤ s.length := by omega
      simp [this]
  simp only [c1]
  have c2 : chkSubst (some s) (r' + k) f = .ok () := by
    cases f <;> try rfl
    rename_i p c
    have := hsub p c rfl
    have : r' + k + 1 ≤ s.length := by omega
    simp [chkSubst, chkRef, this]
  rw [c2]
  exact hnext (r' + k + dr) (q' + k + dq) 0 (by omega) (by omega)

theorem VOk_matchGo (s seq : List Nat) (L : Nat) (m : Matrix) (qOp : Nat) (rest : List Feature) :
    ∀ (n r q : Nat), r + n ≤ s.length → VOk s L rest (r + n) (q + n) →
      VOk s L (matchGo s seq m qOp r q n ++ rest) r q := by
  intro n
  induction n with
  | zero => intro r q _ h; simpa [matchGo] using h
  | succ n ih =>
    intro r q hr h
    have hn := ih (r + 1) (q + 1) (by omega) (by simpa [Nat.add_assoc, Nat.add_comm 1 n] using h)
    unfold matchGo
    split
    · simpa using hn.lag
    · simp only [List.cons_append, List.nil_append]
      rcases mismatchFeature_cases m (q + 1) (s.getD r 0) (seq.getD q 0) qOp with ⟨x, hx⟩ | hx
      · rw [hx]
        exact VOk.step _ 1 1 rfl rfl (by omega) (fun _ _ _ => by omega) hn
      · rw [hx]
        exact VOk.step _ 1 1 rfl rfl (by omega) (fun _ _ e => by cases e) hn

theorem refLen_cons (op : Op) (ops : Cigar) :
    refLen (op :: ops) = (if op.kind.consumesRef then op.len else 0) + refLen ops := by
  simp [refLen]

theorem VOk_featGo (s seq quals : List Nat) (L : Nat) (m : Matrix) (rest : List Feature) :
    ∀ (c : Cigar) (r q : Nat), r + refLen c ≤ s.length → q + readLen c ≤ seq.length →
      VOk s L rest (r + refLen c) (q + readLen c) → VOk s L (featGo s seq quals m r q c ++ rest) r q := by
  intro c
  induction c with
  | nil => intro r q _ _ h; simpa [featGo, refLen, readLen] using h
  | cons op ops ih =>
    intro r q hr hq h
    rw [refLen_cons] at hr h
    rw [readLen_cons] at hq h
    unfold featGo
    have hslice : op.kind.consumesRead = true → (slice seq q op.len).length = op.len := fun hc =>
      slice_length seq q op.len (by simp [hc] at hq; omega)
    split <;> rename_i hk <;> simp only [hk, Kind.consumesRef, Kind.consumesRead, if_true, if_false,
      Bool.false_eq_true, Nat.zero_add] at hr hq h hslice
    · rw [List.append_assoc]
      exact VOk_matchGo s seq L m _ _ op.len r q (by omega)
        (ih _ _ (by omega) (by omega) (by simpa [Nat.add_assoc] using h))
    · rw [List.append_assoc]
      exact VOk_matchGo s seq L m _ _ op.len r q (by omega)
        (ih _ _ (by omega) (by omega) (by simpa [Nat.add_assoc] using h))
    · rw [List.append_assoc]
      exact VOk_matchGo s seq L m _ _ op.len r q (by omega)
        (ih _ _ (by omega) (by omega) (by simpa [Nat.add_assoc] using h))
    · simp only [List.cons_append]
      have hnext := ih r (q + op.len) (by omega) (by omega) (by simpa [Nat.add_assoc] using h)
      split
      · rename_i h1
        exact VOk.step _ 0 1 rfl rfl (by omega) (fun _ _ e => by cases e) (by simpa [h1] using hnext)
      · exact VOk.step _ 0 op.len rfl (by simp [Feature.delta, hslice]) (by omega) (fun _ _ e => by cases e) hnext
    · simp only [List.cons_append]
      exact VOk.step _ op.len 0 rfl rfl (by omega) (fun _ _ e => by cases e)
        (ih (r + op.len) q (by omega) (by omega) (by simpa [Nat.add_assoc] using h))
    · simp only [List.cons_append]
      exact VOk.step _ op.len 0 rfl rfl (by omega) (fun _ _ e => by cases e)
        (ih (r + op.len) q (by omega) (by omega) (by simpa [Nat.add_assoc] using h))
    · simp only [List.cons_append]
      exact VOk.step _ 0 op.len rfl (by simp [Feature.delta, hslice]) (by omega) (fun _ _ e => by cases e)
        (ih r (q + op.len) (by omega) (by omega) (by simpa [Nat.add_assoc] using h))
    · simp only [List.cons_append]
      exact VOk.step _ 0 0 rfl rfl (by omega) (fun _ _ e => by cases e)
        (ih r q (by omega) (by omega) (by simpa using h))
    · simp only [List.cons_append]
      exact VOk.step _ 0 0 rfl rfl (by omega) (fun _ _ e => by cases e)
        (ih r q (by omega) (by omega) (by simpa using h))

/-- **the reader's validation accepts the writer's features** of a read inside its reference -/
theorem validateSeq_features (s : List Nat) (start : Nat) (c : Cigar) (seq quals : List Nat) (m : Matrix)
    (h : ConsistentRead s start c seq) :
    validateSeqGo (some s) seq.length (start - 1) 0 (features s start c seq quals m) = .ok () := by
  obtain ⟨h1, h2, h3, _⟩ := h
  have := VOk_featGo s seq quals seq.length m [] c (start - 1) 0 h2 (by omega)
    (by rw [Nat.zero_add, h3]; exact VOk.end_ s seq.length _ h2)
  rw [List.append_nil] at this
  exact this (start - 1) 0 0 rfl rfl

theorem attachRefs_ok (refs : Refs) (ctx : RefCtx) : ∀ (cs : List CRec),
    (∀ c ∈ cs, refBased c = true → ∃ ref, recordRef refs ctx c = .ok ref ∧ validateRec ref c = .ok ()) →
    ∃ rfs, attachRefs refs ctx cs = .ok rfs := by
  intro cs
  induction cs with
  | nil => intro _; exact ⟨[], rfl⟩
  | cons x xs ih =>
    intro h
    obtain ⟨l, hl⟩ := ih (fun c hc => h c (List.mem_cons_of_mem _ hc))
    unfold attachRefs
    by_cases hb : refBased x = true
    · obtain ⟨ref, h1, h2⟩ := h x (List.mem_cons_self ..) hb
      exact ⟨ref :: l, by simp [hb, h1, h2, hl]⟩
    · exact ⟨none :: l, by simp [hb, hl]⟩

/-- **the reader's validation accepts every slice the theorem speaks about** -/
theorem validation_accepts (ch : CH) (refs : Refs) (m : Matrix) (rs : List SamRec) (ctx : RefCtx)
    (core : List Nat) (ext : Int → Option (List Nat)) (hwf : ∀ r ∈ rs, SamWF refs ch m r)
    (henc : encodeSlice ch refs m rs = .ok (ctx, core, ext)) : ValidationAccepts ch refs m ctx rs := by
  obtain ⟨_, hrd⟩ := read_back ch refs m rs ctx core ext hwf henc
  unfold ValidationAccepts
  apply attachRefs_ok
  intro c hc hb
  obtain ⟨p, hp⟩ := List.mem_iff_getElem?.mp hc
  have hpl : p < rs.length := by
    rcases Nat.lt_or_ge p rs.length with hh | hh
    · exact hh
    · rw [List.getElem?_eq_none (by simp [setMatesC_length, hh])] at hp; cases hp
  obtain ⟨dt, g1, _, gc⟩ := hrd p rs[p] (List.getElem?_eq_getElem hpl)
  rw [hp] at g1
  cases g1
  have hw := hwf rs[p] (List.getElem_mem hpl)
  obtain ⟨_, _, _, _, f5⟩ := linkRec_flags refs m rs[p] dt (md (rs.map (mateView refs m)) p)
  have hsm : seqMissing (readRec refs m ch.recordsHaveNames rs[p] dt (md (rs.map (mateView refs m)) p)) =
      rs[p].seq.isEmpty := f5
  have hun : (readRec refs m ch.recordsHaveNames rs[p] dt (md (rs.map (mateView refs m)) p)).unmapped =
      bitSet rs[p].flags 2 := rfl
  simp only [refBased, hsm, hun, Bool.and_eq_true, Bool.not_eq_true'] at hb
  obtain ⟨hu, _⟩ := hb
  obtain ⟨id, start, rf, hid, hst, hrf, hcr⟩ := hw.mapped hu
  refine ⟨some rf, recordRef_mapped refs ctx _ id rf hid hrf gc, ?_⟩
  show (match (readRec refs m ch.recordsHaveNames rs[p] dt (md (rs.map (mateView refs m)) p)).alignmentStart with
    | none => Except.error Err.invalidData
    | some st => validateSeqGo (some rf) _ (st - 1) 0 _) = .ok ()
  have hst' : (readRec refs m ch.recordsHaveNames rs[p] dt (md (rs.map (mateView refs m)) p)).alignmentStart =
      some start := hst
  have hfeat : (readRec refs m ch.recordsHaveNames rs[p] dt (md (rs.map (mateView refs m)) p)).features =
      features rf start rs[p].cigar rs[p].seq (encodeQuals rs[p].quals rs[p].seq.length) m := by
    show (if bitSet rs[p].flags 2 then [] else featuresOf refs m rs[p]) = _
    simp [hu, featuresOf_mapped refs m rs[p] id start rf hid hst hrf]
  rw [hst']
  simp only [hfeat]
  exact validateSeq_features rf start _ _ _ m hcr

end Noodles.Cram.Sam
