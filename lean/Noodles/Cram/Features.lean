/-!
# CRAM records as edit scripts against the reference (model core 1 of C07)

Transcribed from noodles-cram:

* writer — `io/writer/record/convert.rs::cigar_to_features` fused with
  `io/writer/container/slice/records.rs::write_base_substitution_code` (the writer's in-memory
  feature carries the pair (reference base, read base); what reaches the file, and what the reader
  sees, is the *code* `SubstitutionMatrix::find` assigns to that pair — the model's `Feature.subst`
  carries the code);
* reader — `record/sequence/iter.rs` + `record/sequence/iter/with_positions.rs` (bases),
  `record/cigar/iter.rs` + `noodles-sam …/cigar/iter/try_simplify.rs` (CIGAR),
  `io/reader/container/slice/records.rs::read_quality_scores` (quality array);
* `container/compression_header/preservation_map/substitution_matrix.rs` (`get`, `find`, `Base`).

Bytes are `Nat`s (< 256 on the wire). Positions inside the model are 0-based offsets (`r` into the
reference, `q` into the read); the `pos` field of a feature is the 1-based read position of the
Rust code (`q + 1`).

`cram_flags` always contains `QUALITY_SCORES_ARE_STORED_AS_ARRAY` in
`Record::try_from_alignment_record` (convert.rs), so the `!flags.quality_scores_are_stored_as_array()`
branches of `cigar_to_features` (the `QualityScore` / `Scores` features) are dead code in the
writer and are not modelled on the writer side; the reader side handles every feature kind.
Out-of-range slicing panics in Rust; here it truncates — the theorems assume `ConsistentRead`,
under which every access is in range.

The model describes the code AFTER the fix "records with bases but no quality scores": a missing
quality string is stored as `0xff` per base (`encodeQuals`).
-/
namespace Noodles.Cram

/-! ## bytes and bases -/

def isLower (b : Nat) : Bool := 97 ≤ b && b ≤ 122
def isUpper (b : Nat) : Bool := 65 ≤ b && b ≤ 90
/-- `u8::to_ascii_uppercase` -/
def upper (b : Nat) : Nat := if isLower b then b - 32 else b
/-- `u8::to_ascii_lowercase` -/
def lower (b : Nat) : Nat := if isUpper b then b + 32 else b
/-- `u8::eq_ignore_ascii_case` -/
def eqIC (a b : Nat) : Bool := upper a == upper b

inductive Base | A | C | G | T | N
  deriving DecidableEq, Repr

/-- `Base::try_from(u8)` (upper-cases first) -/
def Base.ofByte (b : Nat) : Option Base :=
  match upper b with
  | 65 => some .A
  | 67 => some .C
  | 71 => some .G
  | 84 => some .T
  | 78 => some .N
  | _ => none

/-- `u8::from(Base)` -/
def Base.toByte : Base → Nat
  | .A => 65 | .C => 67 | .G => 71 | .T => 84 | .N => 78

/-- `SubstitutionMatrix`: for a reference base, the read base of each of the four codes -/
abbrev Matrix := Base → Nat → Base

/-- `SubstitutionMatrix::get`: `self.0[reference_base][code & 0x03]` -/
def Matrix.get (m : Matrix) (r : Base) (code : Nat) : Base := m r (code % 4)

/-- `SubstitutionMatrix::find`: the first code whose read base is `b` (`unwrap()` panics when there is
none — modelled as 0; impossible for a row that lists every other base) -/
def Matrix.find (m : Matrix) (r b : Base) : Nat :=
  if m.get r 0 = b then 0 else if m.get r 1 = b then 1 else if m.get r 2 = b then 2
  else if m.get r 3 = b then 3 else 0

/-- every row lists each of the four other bases (what `Frequencies::into` builds and what the
compression header's 5-byte encoding can express) -/
def Matrix.OK (m : Matrix) : Prop := ∀ r b, r ≠ b → ∃ c, c < 4 ∧ m r c = b

/-! ## CIGAR -/

inductive Kind | M | I | D | N | S | H | P | Eq | X
  deriving DecidableEq, Repr

structure Op where
  kind : Kind
  len : Nat
  deriving DecidableEq, Repr

abbrev Cigar := List Op

/-- `Kind::consumes_read` -/
def Kind.consumesRead : Kind → Bool
  | .M | .I | .S | .Eq | .X => true
  | _ => false

/-- `Kind::consumes_reference` -/
def Kind.consumesRef : Kind → Bool
  | .M | .D | .N | .Eq | .X => true
  | _ => false

def readLen (c : Cigar) : Nat := (c.map fun op => if op.kind.consumesRead then op.len else 0).sum
def refLen (c : Cigar) : Nat := (c.map fun op => if op.kind.consumesRef then op.len else 0).sum

/-! ## features -/

inductive Feature
  | bases (pos : Nat) (bs : List Nat)
  | scores (pos : Nat) (qs : List Nat)
  | readBase (pos : Nat) (base q : Nat)
  | subst (pos : Nat) (code : Nat)
  | insertion (pos : Nat) (bs : List Nat)
  | deletion (pos len : Nat)
  | insertBase (pos : Nat) (base : Nat)
  | qualityScore (pos : Nat) (q : Nat)
  | refSkip (pos len : Nat)
  | softClip (pos : Nat) (bs : List Nat)
  | padding (pos len : Nat)
  | hardClip (pos len : Nat)
  deriving DecidableEq, Repr

def Feature.pos : Feature → Nat
  | .bases p _ | .scores p _ | .readBase p _ _ | .subst p _ | .insertion p _ | .deletion p _
  | .insertBase p _ | .qualityScore p _ | .refSkip p _ | .softClip p _ | .padding p _
  | .hardClip p _ => p

/-- `l[i .. i+n)` -/
def slice {α : Type} (l : List α) (i n : Nat) : List α := (l.drop i).take n

/-! ## writer: `cigar_to_features` -/

/-- the feature pushed for a read base that differs from the reference base -/
def mismatchFeature (m : Matrix) (pos refB readB q : Nat) : Feature :=
  match Base.ofByte refB, Base.ofByte readB with
  | some r, some b => .subst pos (m.find r b)
  | _, _ => .readBase pos readB q

/-- the `Match | SequenceMatch | SequenceMismatch` arm over `n` bases from reference offset `r` / read
offset `q`. Both the `op.len() == 1` branch and the zip loop push, per differing base, one feature
at that base's read position; the quality score of a `ReadBase` is `quality_scores[read_position]`
— the score at the START of the operation in both branches (`qOp`). -/
def matchGo (ref seq : List Nat) (m : Matrix) (qOp : Nat) : (r q n : Nat) → List Feature
  | _, _, 0 => []
  | r, q, n+1 =>
    (if eqIC (ref.getD r 0) (seq.getD q 0) then []
     else [mismatchFeature m (q + 1) (ref.getD r 0) (seq.getD q 0) qOp])
      ++ matchGo ref seq m qOp (r + 1) (q + 1) n

def featGo (ref seq quals : List Nat) (m : Matrix) : (r q : Nat) → Cigar → List Feature
  | _, _, [] => []
  | r, q, op :: ops =>
    match op.kind with
    | .M | .Eq | .X =>
      matchGo ref seq m (quals.getD q 255) r q op.len ++ featGo ref seq quals m (r + op.len) (q + op.len) ops
    | .I =>
      (if op.len = 1 then Feature.insertBase (q + 1) (seq.getD q 0)
       else Feature.insertion (q + 1) (slice seq q op.len))
        :: featGo ref seq quals m r (q + op.len) ops
    | .D => .deletion (q + 1) op.len :: featGo ref seq quals m (r + op.len) q ops
    | .N => .refSkip (q + 1) op.len :: featGo ref seq quals m (r + op.len) q ops
    | .S => .softClip (q + 1) (slice seq q op.len) :: featGo ref seq quals m r (q + op.len) ops
    | .H => .hardClip (q + 1) op.len :: featGo ref seq quals m r q ops
    | .P => .padding (q + 1) op.len :: featGo ref seq quals m r q ops

/-- features of a read aligned at 1-based `start` -/
def features (ref : List Nat) (start : Nat) (c : Cigar) (seq quals : List Nat) (m : Matrix) : List Feature :=
  featGo ref seq quals m (start - 1) 0 c

/-- the quality array the writer stores (fixed behaviour: `0xff` per base when missing) -/
def encodeQuals (quals : List Nat) (readLength : Nat) : List Nat :=
  if quals.isEmpty then List.replicate readLength 255 else quals

/-- `read_quality_scores`: an all-`0xff` array is "missing" -/
def decodeQuals (qs : List Nat) : List Nat :=
  if qs.all (· == 255) then [] else qs

/-! ## reader: bases (`record/sequence/iter.rs`) -/

/-- `WithPositions`: (reference delta, read delta) of a feature; `none` = skipped (`continue`) -/
def Feature.delta : Feature → Option (Nat × Nat)
  | .bases _ bs => some (bs.length, bs.length)
  | .scores _ _ => none
  | .readBase _ _ _ => some (1, 1)
  | .subst _ _ => some (1, 1)
  | .insertion _ bs => some (0, bs.length)
  | .deletion _ n => some (n, 0)
  | .insertBase _ _ => some (0, 1)
  | .qualityScore _ _ => none
  | .refSkip _ n => some (n, 0)
  | .softClip _ bs => some (0, bs.length)
  | .padding _ _ => some (0, 0)
  | .hardClip _ _ => some (0, 0)

/-- the read base a `Substitution` decodes to at reference offset `r` -/
def substBase (ref : List Nat) (m : Matrix) (r code : Nat) : Nat :=
  let rb := ref.getD r 0
  let b := (m.get ((Base.ofByte rb).getD .N) code).toByte
  if isLower rb then lower b else b

/-- bases a feature contributes (`State::Prepare` → `Base` / `Bases`) -/
def Feature.emit (ref : List Nat) (m : Matrix) (r : Nat) : Feature → List Nat
  | .bases _ bs => bs
  | .readBase _ b _ => [b]
  | .subst _ code => [substBase ref m r code]
  | .insertion _ bs => bs
  | .insertBase _ b => [b]
  | .softClip _ bs => bs
  | _ => []

/-- `Iter::next`, all states unrolled: reference bases up to the feature, then the feature's bases;
after the last feature the reference fills the read up to `read_length` -/
def seqGo (ref : List Nat) (m : Matrix) (readLength : Nat) : (r q : Nat) → List Feature → List Nat
  | r, q, [] => slice ref r (readLength - q)
  | r, q, f :: fs =>
    match f.delta with
    | none => seqGo ref m readLength r q fs
    | some (dr, dq) =>
      let k := f.pos - (q + 1)
      slice ref r k ++ f.emit ref m (r + k) ++ seqGo ref m readLength (r + k + dr) (q + k + dq) fs

def rebuildBases (ref : List Nat) (start readLength : Nat) (fs : List Feature) (m : Matrix) : List Nat :=
  seqGo ref m readLength (start - 1) 0 fs

/-! ## reader: CIGAR (`record/cigar/iter.rs` then `TrySimplify`) -/

def Feature.cigarOp : Feature → Option Op
  | .subst _ _ => some ⟨.M, 1⟩
  | .insertion _ bs => some ⟨.I, bs.length⟩
  | .deletion _ n => some ⟨.D, n⟩
  | .insertBase _ _ => some ⟨.I, 1⟩
  | .refSkip _ n => some ⟨.N, n⟩
  | .softClip _ bs => some ⟨.S, bs.length⟩
  | .padding _ n => some ⟨.P, n⟩
  | .hardClip _ n => some ⟨.H, n⟩
  | _ => none

/-- the raw operation stream; `q` = `read_position - 1` -/
def cigGo (readLength : Nat) : (q : Nat) → List Feature → Cigar
  | q, [] => if q + 1 ≤ readLength then [⟨.M, readLength - (q + 1) + 1⟩] else []
  | q, f :: fs =>
    let pre : Cigar := if f.pos > q + 1 then [⟨.M, f.pos - (q + 1)⟩] else []
    let q1 := if f.pos > q + 1 then f.pos - 1 else q
    match f.cigarOp with
    | none => pre ++ cigGo readLength q1 fs
    | some op => pre ++ op :: cigGo readLength (if op.kind.consumesRead then q1 + op.len else q1) fs

/-- `TrySimplify::next` with its `prev_op` register -/
def simpGo : Option Op → Cigar → Cigar
  | none, [] => []
  | some p, [] => [p]
  | none, op :: ops => simpGo (some op) ops
  | some p, op :: ops =>
    if p.kind = op.kind then simpGo (some ⟨p.kind, p.len + op.len⟩) ops
    else p :: simpGo (some op) ops

def simplify (c : Cigar) : Cigar := simpGo none c

def rebuildCigar (readLength : Nat) (fs : List Feature) : Cigar := simplify (cigGo readLength 0 fs)

/-! ## the normal form `≈` of a CIGAR, stated independently of the code -/

/-- `=` and `X` are alignment matches -/
def Kind.toM : Kind → Kind
  | .Eq | .X => .M
  | k => k

/-- one symbol per unit of length -/
def expand : Cigar → List Kind
  | [] => []
  | op :: ops => List.replicate op.len op.kind ++ expand ops

/-- run-length encoding of a symbol string -/
def rle : List Kind → Cigar
  | [] => []
  | k :: ks =>
    match rle ks with
    | [] => [⟨k, 1⟩]
    | op :: rest => if k = op.kind then ⟨k, op.len + 1⟩ :: rest else ⟨k, 1⟩ :: op :: rest

/-- `=`/`X` read back as `M`, adjacent operations of one kind merged -/
def normCigar (c : Cigar) : Cigar := rle (expand (c.map fun op => ⟨op.kind.toM, op.len⟩))

end Noodles.Cram
