import Noodles.Basic.Wire
import Noodles.Cram.Features
import Noodles.Cram.Mates
import Noodles.Cram.Container
import Noodles.Cram.DriverC07Enc
import Noodles.Cram.DriverC07Sam
import Noodles.Cram.DriverC07Chunk
/-! Line-protocol handler for the CRAM record / mate / container models (`c07 …`). -/
namespace Noodles.Cram.Drv
open Noodles.Wire

def hexN (l : List Nat) : String := hex (l.map UInt8.ofNat)
def unhexN (s : String) : Option (List Nat) := (unhex s).map fun b => b.map (·.toNat)

def kindOfChar : Char → Option Kind
  | 'M' => some .M | 'I' => some .I | 'D' => some .D | 'N' => some .N | 'S' => some .S
  | 'H' => some .H | 'P' => some .P | '=' => some .Eq | 'X' => some .X | _ => none

def kindChar : Kind → Char
  | .M => 'M' | .I => 'I' | .D => 'D' | .N => 'N' | .S => 'S' | .H => 'H' | .P => 'P' | .Eq => '=' | .X => 'X'

def parseCigarGo : List Char → Nat → Bool → Option Cigar
  | [], _, digits => if digits then none else some []
  | c :: cs, acc, digits =>
    if c.isDigit then parseCigarGo cs (acc * 10 + (c.toNat - '0'.toNat)) true
    else match kindOfChar c with
      | some k => if digits then (parseCigarGo cs 0 false).map (⟨k, acc⟩ :: ·) else none
      | none => none

def parseCigar (s : String) : Option Cigar := if s = "*" then some [] else parseCigarGo s.toList 0 false

def fmtCigar (c : Cigar) : String :=
  if c.isEmpty then "*" else String.join (c.map fun op => s!"{op.len}{kindChar op.kind}")

def baseOfChar : Char → Option Base
  | 'A' => some .A | 'C' => some .C | 'G' => some .G | 'T' => some .T | 'N' => some .N | _ => none

def baseIdx : Base → Nat
  | .A => 0 | .C => 1 | .G => 2 | .T => 3 | .N => 4

/-- 20 letters: for reference base A, C, G, T, N the read base of codes 0..3 -/
def parseMatrix (s : String) : Option Matrix := do
  let l ← s.toList.mapM baseOfChar
  if l.length ≠ 20 then none else
  pure fun r c => l.getD (baseIdx r * 4 + c) .N

def fmtFeature : Feature → String
  | .bases p bs => s!"b{p}:{hexN bs}"
  | .scores p qs => s!"q{p}:{hexN qs}"
  | .readBase p b q => s!"B{p}:{b}:{q}"
  | .subst p c => s!"X{p}:{c}"
  | .insertion p bs => s!"I{p}:{hexN bs}"
  | .deletion p n => s!"D{p}:{n}"
  | .insertBase p b => s!"i{p}:{b}"
  | .qualityScore p q => s!"Q{p}:{q}"
  | .refSkip p n => s!"N{p}:{n}"
  | .softClip p bs => s!"S{p}:{hexN bs}"
  | .padding p n => s!"P{p}:{n}"
  | .hardClip p n => s!"H{p}:{n}"

def fmtFeatures (fs : List Feature) : String := if fs.isEmpty then "-" else ",".intercalate (fs.map fmtFeature)

def optNat (s : String) : Option (Option Nat) := if s = "-" then some none else s.toNat?.map some
def fmtOpt : Option Nat → String
  | none => "-"
  | some n => toString n

def parseRec (s : String) : Option Mates.Rec :=
  match s.splitOn "," with
  | [f, n, rid, pos, span, mrid, mpos, tlen] => do
    pure { flags := ← f.toNat?, name := ← optNat n, rid := ← optNat rid, pos := ← optNat pos, span := ← span.toNat?,
           mrid := ← optNat mrid, mpos := ← optNat mpos, tlen := ← tlen.toInt?, detached := false, downstream := false,
           mateDist := none }
  | _ => none

def b01 (b : Bool) : String := if b then "1" else "0"

def parseBlock (s : String) : Option Container.Block :=
  match s.splitOn ":" with
  | [cid, cs, rs] => do pure ⟨0, 0, ← cid.toInt?, ← rs.toNat?, List.replicate (← cs.toNat?) 0⟩
  | _ => none

def parseSlice (s : String) : Option Container.Slice := do
  match ← (s.splitOn ",").mapM parseBlock with
  | h :: c :: ext => pure ⟨h, c, ext, 0⟩
  | _ => none

def fmtInfo (c : Container.ContainerInfo) : String :=
  s!"{c.counter}:{c.nrec}:{c.bases}:" ++ "/".intercalate (c.slices.map fun p => s!"{p.1}+{p.2}")

def handleC07 : List String → String
  | ["feat", ref, start, cigar, seq, qual, matrix] =>
    match unhexN ref, start.toNat?, parseCigar cigar, unhexN seq, unhexN qual, parseMatrix matrix with
    | some ref, some start, some c, some seq, some qual, some m =>
      let fs := features ref start c seq (encodeQuals qual seq.length) m
      let cig := rebuildCigar seq.length fs
      let bases := rebuildBases ref start seq.length fs m
      let q := decodeQuals (encodeQuals qual seq.length)
      s!"{fmtFeatures fs} {fmtCigar cig} {hexN bases} {hexN q}"
    | _, _, _, _, _, _ => "bad-op"
  | ["mates", recs] =>
    match (recs.splitOn ";").mapM parseRec with
    | some rs =>
      let w := Mates.setMates rs
      let r := Mates.resolveMates (w.map Mates.wire)
      ";".intercalate ((w.zip r).map fun (a, b) =>
        s!"d{b01 a.detached}s{b01 a.downstream}n{fmtOpt a.mateDist}|{b.flags},{fmtOpt b.mrid},{fmtOpt b.mpos},{b.tlen}")
    | none => "bad-op"
  | ["layout", ch, slices] =>
    match parseBlock ch, (slices.splitOn ";").mapM parseSlice with
    | some ch, some ss =>
      let (len, lm) := Container.layout ch ss
      s!"{len} {",".intercalate (lm.map toString)} {Container.blockCount ch ss}"
    | _, _ => "bad-op"
  | ["counters", rps, spc, lens] =>
    match rps.toNat?, spc.toNat?, nats lens with
    | some rps, some spc, some lens => ";".intercalate ((Container.containers rps spc lens).map fmtInfo)
    | _, _, _ => "bad-op"
  | ["itf8", n] =>
    match n.toInt? with
    | some n => hexN (Container.writeItf8 n)
    | none => "bad-op"
  | ["itf8size", n] =>
    match n.toInt? with
    | some n => toString (Container.itf8SizeOf n)
    | none => "bad-op"
  | ["eof"] => hexN Container.eof
  | "sam" :: ws => (DrvSam.handle ("sam" :: ws)).getD "bad-op"
  | "chunk" :: ws => (DrvChunk.handle ("chunk" :: ws)).getD "bad-op"
  | ws => (DrvEnc.handle ws).getD "bad-op"

end Noodles.Cram.Drv
