import Noodles.Cram.Num
/-!
# CRAM core-data bit I/O and the canonical Huffman decoder (C07, encodings layer)

Transcribed from noodles-cram

* `io/bit_writer.rs` (`BitWriter::{write_u32, write_bit, flush, finish}`),
* `io/bit_reader.rs` (`BitReader::{new, read_bit, read_u32, read_i32}`),
* `huffman.rs` (`build_canonical_code_book`, `CanonicalHuffmanDecoder::{new, decode}`).

Bytes are `Nat`s below 256. Bits travel most-significant first. `buf |= 1 << (8 - i - 1)` sets a bit
that is clear (every position of `buf` is written at most once between two pushes), so it is
modelled as `+`. `(n << 1) | bit` in `read_u32` cannot overflow for `len ≤ 31`, so it is `2n + bit`.

The harness is built with overflow checks (the profile of the test suite): an `i32` shift by 32 or
more bits and an `i32` addition that leaves the type are panics there, and are modelled as the
outcome `Err.panic`; bits shifted out of an `i32` are silently lost in both profiles (`shl32`).
-/
namespace Noodles.Cram.Enc
open Noodles.Cram.Num (toU ofU)

/-- `io::ErrorKind` classes of the modelled code, plus `panic` -/
inductive Err | eof | invalidData | invalidInput | panic
  deriving DecidableEq, Repr

abbrev Res (α : Type) := Except Err α

/-! ## `BitWriter` -/

structure BitWriter where
  dst : List Nat := []
  buf : Nat := 0
  i : Nat := 0
  deriving DecidableEq, Repr

/-- `write_bit` -/
def BitWriter.writeBit (w : BitWriter) (b : Bool) : BitWriter :=
  let buf := if b then w.buf + 2 ^ (8 - w.i - 1) else w.buf
  if w.i + 1 = 8 then ⟨w.dst ++ [buf], 0, 0⟩ else ⟨w.dst, buf, w.i + 1⟩

/-- the `for _ in 0..len` loop of `write_u32`: bit `k` of `value` for `k = len-1, …, 0` -/
def BitWriter.writeBits (w : BitWriter) (value : Nat) : Nat → BitWriter
  | 0 => w
  | k + 1 => (w.writeBit (value / 2 ^ k % 2 == 1)).writeBits value k

/-- `write_u32(value, len)` -/
def BitWriter.writeU32 (w : BitWriter) (value len : Nat) : Res BitWriter :=
  if len = 0 then .ok w
  else if len > 32 then .error .invalidInput
  else .ok (w.writeBits value len)

/-- `flush`: pad the last byte with zero bits -/
def BitWriter.flush (w : BitWriter) : Res BitWriter :=
  if w.i > 0 then w.writeU32 0 (8 - w.i) else .ok w

/-- `finish` -/
def BitWriter.finish (w : BitWriter) : Res (List Nat) := do
  let w ← w.flush
  pure w.dst

/-! ## `BitReader` -/

structure BitReader where
  src : List Nat
  buf : Nat
  i : Nat
  deriving DecidableEq, Repr

/-- `BitReader::new` -/
def BitReader.new (src : List Nat) : BitReader := ⟨src, 0, 8⟩

/-- `read_bit` -/
def BitReader.readBit (r : BitReader) : Res (Nat × BitReader) :=
  if r.i ≥ 8 then
    match r.src with
    | [] => .error .eof
    | b :: rest => .ok (b / 2 ^ 7 % 2, ⟨rest, b, 1⟩)
  else .ok (r.buf / 2 ^ (8 - r.i - 1) % 2, { r with i := r.i + 1 })

/-- the loop of `read_u32`; `n` is the accumulator -/
def BitReader.readBits : Nat → Nat → BitReader → Res (Nat × BitReader)
  | 0, n, r => .ok (n, r)
  | k + 1, n, r =>
    match r.readBit with
    | .error e => .error e
    | .ok (b, r') => readBits k (2 * n + b) r'

/-- `read_u32(len)` / `read_i32(len)` (the value is below `2^31`, so the cast is the identity) -/
def BitReader.readU32 (r : BitReader) (len : Nat) : Res (Nat × BitReader) :=
  if len > 31 then .error .invalidInput else BitReader.readBits len 0 r

/-- the state a reader is left in when a call returned an error (`&mut self` is not rolled back):
a failed `read_bit` found the source empty with the current byte used up; `InvalidInput` is raised
before anything is read -/
def BitReader.afterError (r : BitReader) : Err → BitReader
  | .eof => ⟨[], r.buf, 8⟩
  | _ => r

/-! ## canonical Huffman code (`huffman.rs`) -/

/-- `x.checked_shl(d).unwrap_or(0)`: every bit is shifted out for `d ≥ 32`; loses the bits shifted out
(after the fix `cram-encoding-decoders-panic`: before it `d ≥ 32` was a panic under overflow checks) -/
def shl32 (x : Int) (d : Nat) : Res Int :=
  if d ≥ 32 then .ok 0 else .ok (ofU 32 (toU 32 x * 2 ^ d % 2 ^ 32))

/-- `i32::wrapping_add` (after the fix `cram-encoding-decoders-panic`: before it an overflow was a panic) -/
def add32 (x y : Int) : Res Int :=
  if -2 ^ 31 ≤ x + y ∧ x + y < 2 ^ 31 then .ok (x + y) else .ok (ofU 32 (toU 32 (x + y)))

/-- `i32::checked_sub(..).ok_or(InvalidData "value overflow")` (after the fix
`cram-encoding-decoders-panic`: before it an overflow was a panic) -/
def sub32 (x y : Int) : Res Int :=
  if -2 ^ 31 ≤ x - y ∧ x - y < 2 ^ 31 then .ok (x - y) else .error .invalidData

def insertBy {α : Type} (le : α → α → Bool) (x : α) : List α → List α
  | [] => [x]
  | y :: ys => if le x y then x :: y :: ys else y :: insertBy le x ys

/-- a stable sort (`sort_by_key` is stable; `sort_unstable` is used on distinct keys only) -/
def isort {α : Type} (le : α → α → Bool) (l : List α) : List α := l.foldr (insertBy le) []

/-- the key `(bit_len, symbol)` of `sort_by_key` -/
def keyLe (a b : Int × Nat) : Bool := a.2 < b.2 || (a.2 == b.2 && a.1 ≤ b.1)

/-- a code book entry: symbol, code, length -/
structure Entry where
  sym : Int
  code : Int
  len : Nat
  deriving DecidableEq, Repr

/-- the `for (&symbol, &bit_len) in sorted_alphabet` loop: `code` and `prev_bit_len` are its registers -/
def assignCodes : Int → Nat → List (Int × Nat) → Res (List Entry)
  | _, _, [] => .ok []
  | code, prev, (sym, len) :: rest =>
    match (if len > prev then shl32 code (len - prev) else .ok code) with
    | .error e => .error e
    | .ok code =>
      match add32 code 1 with
      | .error e => .error e
      | .ok code' =>
        match assignCodes code' len rest with
        | .error e => .error e
        | .ok tl => .ok (⟨sym, code, len⟩ :: tl)

/-- `HashMap::insert`: a later entry for the same symbol replaces the earlier one -/
def insertBook (book : List Entry) (e : Entry) : List Entry :=
  if book.any (·.sym == e.sym) then book.map (fun x => if x.sym == e.sym then e else x) else book ++ [e]

/-- `build_canonical_code_book`; an empty (zipped) alphabet has an empty code book (after the fix
`cram-encoding-decoders-panic`: before it `sorted_alphabet[0]` panicked) -/
def buildCodeBook (alphabet : List Int) (lens : List Nat) : Res (List Entry) :=
  match isort keyLe (alphabet.zip lens) with
  | [] => .ok []
  | (s, l) :: rest =>
    match assignCodes 0 l ((s, l) :: rest) with
    | .error e => .error e
    | .ok cs => .ok (cs.foldl insertBook [])

/-- `sorted_lens`: the distinct code lengths, ascending -/
def distinctLens (book : List Entry) : List Nat := (isort (fun a b => decide (a ≤ b)) (book.map (·.len))).eraseDups

/-- `CanonicalHuffmanDecoder::decode`: the `for &len in &self.sorted_lens` loop with its registers
`prev_len` and `input_code`. `input_code |= b` adds `b < 2^(len - prev_len)` to a value whose low
`len - prev_len` bits are zero. A (length, code) pair occurs at most once in a code book, so the
hash map's iteration order does not matter to `find`. -/
def huffDecodeGo (book : List Entry) : List Nat → Nat → Int → BitReader → Res (Int × BitReader)
  | [], _, _, _ => .error .invalidData
  | len :: rest, prev, input, r =>
    match shl32 input (len - prev) with
    | .error e => .error e
    | .ok input =>
      match r.readU32 (len - prev) with
      | .error e => .error e
      | .ok (b, r) =>
        let input := ofU 32 (toU 32 input + b)
        match book.find? (fun e => e.len == len && e.code == input) with
        | some e => .ok (e.sym, r)
        | none => huffDecodeGo book rest len input r

/-- `CanonicalHuffmanDecoder::new(alphabet, bit_lens).decode(reader)` -/
def huffDecode (alphabet : List Int) (lens : List Nat) (r : BitReader) : Res (Int × BitReader) :=
  match buildCodeBook alphabet lens with
  | .error e => .error e
  | .ok book => huffDecodeGo book (distinctLens book) 0 0 r

/-! ## the specification's Huffman *encoder* (noodles has none: its `encode` is `todo!()`)

Used to state what the decoder is an inverse of: the code word of a symbol is the `len` low bits of
its canonical code, most significant first. -/

/-- the `len` low bits of `code`, most significant first -/
def codeBits (code : Nat) : Nat → List Bool
  | 0 => []
  | k + 1 => (code / 2 ^ k % 2 == 1) :: codeBits code k

def huffEncode (book : List Entry) (sym : Int) : Option (List Bool) :=
  (book.find? (·.sym == sym)).map fun e => codeBits (toU 32 e.code) e.len

end Noodles.Cram.Enc
