import Noodles.Cram.EncSpec
/-! helper lemmas: `cigar_to_features` output passes `validate_features` (see Props/C07Enc.lean) -/
namespace Noodles.Cram.Enc
open Noodles.Cram

/-- one step of `validateGo` on a feature that carries `n` bases and no scores -/
theorem validateGo_cons_nobase (rp qp : Nat) (f : Feature) (fs : List Feature) (n : Nat)
    (hf : (∃ bs, (f = .insertion f.pos bs ∨ f = .softClip f.pos bs) ∧ n = bs.length) ∨
          ((∃ x, f = .subst f.pos x ∨ f = .insertBase f.pos x) ∧ n = 1) ∨
          ((∃ x, f = .deletion f.pos x ∨ f = .refSkip f.pos x ∨ f = .padding f.pos x ∨ f = .hardClip f.pos x) ∧ n = 0))
    (hp : rp ≤ f.pos) :
    validateGo rp qp (f :: fs) = validateGo (f.pos + n) qp fs := by
  have hlt : ¬ f.pos < rp := by omega
  rcases hf with ⟨bs, h | h, rfl⟩ | ⟨⟨x, h | h⟩, rfl⟩ | ⟨⟨x, h | h | h | h⟩, rfl⟩ <;>
    (rw [h] at hlt ⊢; simp only [Feature.pos] at hlt; simp [validateGo, Feature.pos, hlt])

/-- one step of `validateGo` on a `readBase` -/
theorem validateGo_cons_readBase (rp qp pos b s : Nat) (fs : List Feature) (hp : rp ≤ pos) :
    validateGo rp qp (.readBase pos b s :: fs) = validateGo (pos + 1) (max qp pos + 1) fs := by
  have hlt : ¬ pos < rp := by omega
  simp [validateGo, Feature.pos, hlt]

theorem mismatchFeature_cases (m : Matrix) (pos a b s : Nat) :
    (∃ x, mismatchFeature m pos a b s = .subst pos x) ∨ mismatchFeature m pos a b s = .readBase pos b s := by
  unfold mismatchFeature
  split
  · exact .inl ⟨_, rfl⟩
  · exact .inr rfl

theorem validateGo_matchGo (ref seq : List Nat) (m : Matrix) (qOp : Nat) (n : Nat) :
    ∀ (r q rp qp : Nat), rp ≤ q + 1 → qp ≤ q + 1 →
      ∃ rp' qp', rp' ≤ q + n + 1 ∧ qp' ≤ q + n + 1 ∧
        ∀ rest, validateGo rp qp (matchGo ref seq m qOp r q n ++ rest) = validateGo rp' qp' rest := by
  induction n with
  | zero =>
    intro r q rp qp h1 h2
    exact ⟨rp, qp, by omega, by omega, fun rest => by simp [matchGo]⟩
  | succ n ih =>
    intro r q rp qp h1 h2
    simp only [matchGo]
    by_cases he : eqIC (ref.getD r 0) (seq.getD q 0) = true
    · obtain ⟨rp', qp', h1', h2', h⟩ := ih (r + 1) (q + 1) rp qp (by omega) (by omega)
      refine ⟨rp', qp', by omega, by omega, fun rest => ?_⟩
      simp only [he, if_true, List.nil_append]
      exact h rest
    · simp only [he, if_false, Bool.false_eq_true, List.cons_append, List.nil_append]
      rcases mismatchFeature_cases m (q + 1) (ref.getD r 0) (seq.getD q 0) qOp with ⟨x, hx⟩ | hx
      · obtain ⟨rp', qp', h1', h2', h⟩ := ih (r + 1) (q + 1) (q + 1 + 1) qp (by omega) (by omega)
        refine ⟨rp', qp', by omega, by omega, fun rest => ?_⟩
        rw [hx, ← h rest]
        exact validateGo_cons_nobase rp qp (.subst (q + 1) x) _ 1
          (.inr (.inl ⟨⟨x, .inl rfl⟩, rfl⟩)) h1
      · obtain ⟨rp', qp', h1', h2', h⟩ :=
          ih (r + 1) (q + 1) (q + 1 + 1) (max qp (q + 1) + 1) (by omega) (by omega)
        refine ⟨rp', qp', by omega, by omega, fun rest => ?_⟩
        rw [hx, ← h rest]
        exact validateGo_cons_readBase rp qp (q + 1) _ _ _ h1

theorem slice_length_le {α : Type} (l : List α) (i n : Nat) : (slice l i n).length ≤ n := by
  unfold slice
  exact List.length_take_le _ _

theorem readLen_cons (op : Op) (ops : Cigar) :
    readLen (op :: ops) = (if op.kind.consumesRead then op.len else 0) + readLen ops := by
  simp [readLen]

theorem validateGo_featGo (ref seq quals : List Nat) (m : Matrix) (c : Cigar) :
    ∀ (r q rp qp : Nat), rp ≤ q + 1 → qp ≤ q + 1 →
      ∃ rp' qp', rp' ≤ q + readLen c + 1 ∧ qp' ≤ q + readLen c + 1 ∧
        ∀ rest, validateGo rp qp (featGo ref seq quals m r q c ++ rest) = validateGo rp' qp' rest := by
  induction c with
  | nil =>
    intro r q rp qp h1 h2
    exact ⟨rp, qp, by omega, by omega, fun rest => by simp [featGo]⟩
  | cons op ops ih =>
    intro r q rp qp h1 h2
    rw [readLen_cons]
    have hM : op.kind.consumesRead = true →
        ∃ rp' qp', rp' ≤ q + (op.len + readLen ops) + 1 ∧ qp' ≤ q + (op.len + readLen ops) + 1 ∧
        ∀ rest, validateGo rp qp ((matchGo ref seq m (quals.getD q 255) r q op.len ++
          featGo ref seq quals m (r + op.len) (q + op.len) ops) ++ rest) = validateGo rp' qp' rest := by
      intro _
      obtain ⟨rp1, qp1, a1, a2, a⟩ := validateGo_matchGo ref seq m (quals.getD q 255) op.len r q rp qp h1 h2
      obtain ⟨rp2, qp2, b1, b2, b⟩ := ih (r + op.len) (q + op.len) rp1 qp1 (by omega) (by omega)
      refine ⟨rp2, qp2, by omega, by omega, fun rest => ?_⟩
      rw [List.append_assoc, a, b]
    -- a single feature `f` at position q+1 with `n ≤ dq` bases and no scores, then the tail from q+dq
    have hOne : ∀ (f : Feature) (n dq r' : Nat), f.pos = q + 1 → n ≤ dq →
        ((∃ bs, (f = .insertion f.pos bs ∨ f = .softClip f.pos bs) ∧ n = bs.length) ∨
          ((∃ x, f = .subst f.pos x ∨ f = .insertBase f.pos x) ∧ n = 1) ∨
          ((∃ x, f = .deletion f.pos x ∨ f = .refSkip f.pos x ∨ f = .padding f.pos x ∨ f = .hardClip f.pos x) ∧ n = 0)) →
        ∃ rp' qp', rp' ≤ q + (dq + readLen ops) + 1 ∧ qp' ≤ q + (dq + readLen ops) + 1 ∧
        ∀ rest, validateGo rp qp ((f :: featGo ref seq quals m r' (q + dq) ops) ++ rest) = validateGo rp' qp' rest := by
      intro f n dq r' hpos hn hf
      obtain ⟨rp2, qp2, b1, b2, b⟩ := ih r' (q + dq) (f.pos + n) qp (by omega) (by omega)
      refine ⟨rp2, qp2, by omega, by omega, fun rest => ?_⟩
      rw [List.cons_append, validateGo_cons_nobase rp qp f _ n hf (by omega), b]
    cases hk : op.kind <;> simp only [featGo, hk, Kind.consumesRead, if_true, Bool.false_eq_true, if_false]
    case M => exact hM (by simp [hk, Kind.consumesRead])
    case Eq => exact hM (by simp [hk, Kind.consumesRead])
    case X => exact hM (by simp [hk, Kind.consumesRead])
    case I =>
      by_cases hl : op.len = 1
      · simp only [hl, if_true]
        have := hOne (.insertBase (q + 1) (seq.getD q 0)) 1 1 r rfl (by omega)
          (.inr (.inl ⟨⟨_, .inr rfl⟩, rfl⟩))
        exact this
      · simp only [hl, if_false]
        exact hOne (.insertion (q + 1) (slice seq q op.len)) _ op.len r rfl (slice_length_le _ _ _)
          (.inl ⟨_, .inl rfl, rfl⟩)
    case S =>
      exact hOne (.softClip (q + 1) (slice seq q op.len)) _ op.len r rfl (slice_length_le _ _ _)
        (.inl ⟨_, .inr rfl, rfl⟩)
    case D =>
      have := hOne (.deletion (q + 1) op.len) 0 0 (r + op.len) rfl (by omega)
        (.inr (.inr ⟨⟨_, .inl rfl⟩, rfl⟩))
      simpa using this
    case N =>
      have := hOne (.refSkip (q + 1) op.len) 0 0 (r + op.len) rfl (by omega)
        (.inr (.inr ⟨⟨_, .inr (.inl rfl)⟩, rfl⟩))
      simpa using this
    case H =>
      have := hOne (.hardClip (q + 1) op.len) 0 0 r rfl (by omega)
        (.inr (.inr ⟨⟨_, .inr (.inr (.inr rfl))⟩, rfl⟩))
      simpa using this
    case P =>
      have := hOne (.padding (q + 1) op.len) 0 0 r rfl (by omega)
        (.inr (.inr ⟨⟨_, .inr (.inr (.inl rfl))⟩, rfl⟩))
      simpa using this

theorem validateFeatures_features (ref : List Nat) (start : Nat) (c : Cigar) (seq quals : List Nat)
    (m : Matrix) (h : readLen c ≤ seq.length) :
    validateFeatures seq.length (features ref start c seq quals m) = .ok () := by
  obtain ⟨rp', qp', h1, h2, hv⟩ :=
    validateGo_featGo ref seq quals m c (start - 1) 0 1 1 (by omega) (by omega)
  have := hv []
  rw [List.append_nil] at this
  unfold validateFeatures features
  rw [this]
  simp only [validateGo]
  have : max rp' qp' - 1 ≤ seq.length := by omega
  simp [this]

end Noodles.Cram.Enc
