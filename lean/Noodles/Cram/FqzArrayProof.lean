import Noodles.Cram.Fqz
import Noodles.Cram.Nx16Proof
/-!
Helper lemmas for `Noodles/Props/C08Fqz.lean`: the run-length coded tables of fqzcomp —
`read_array (write_array data) = data`, and exactly when.
-/
namespace Noodles.Cram.Fqz
open Noodles.Cram.Aac

/-! ## the parts of one run length -/

theorem lenParts_eq (fuel : Nat) : ∀ len, len / 255 < fuel →
    lenParts fuel len = List.replicate (len / 255) 255 ++ [len % 255] := by
  induction fuel with
  | zero => intro len h; omega
  | succ fuel ih =>
    intro len h
    unfold lenParts
    split
    · next hlt =>
      have h0 : len / 255 = 0 := by omega
      have h1 : len % 255 = len := by omega
      rw [h0, h1]; rfl
    · next hge =>
      have h0 : len / 255 = (len - 255) / 255 + 1 := by omega
      have h1 : len % 255 = (len - 255) % 255 := by omega
      rw [ih (len - 255) (by omega), h0, h1, List.replicate_succ, List.cons_append]

theorem lenParts_sum (len : Nat) : (lenParts (len / 255 + 1) len).sum = len := by
  rw [lenParts_eq _ len (by omega), List.sum_append, List.sum_replicate_nat]
  simp only [List.sum_cons, List.sum_nil]
  omega

theorem lenParts_length (len : Nat) : (lenParts (len / 255 + 1) len).length = len / 255 + 1 := by
  rw [lenParts_eq _ len (by omega)]; simp

theorem lenParts_ne_nil (len : Nat) : lenParts (len / 255 + 1) len ≠ [] := by
  intro h
  have := lenParts_length len
  rw [h] at this
  simp at this

theorem lenParts_getLast (len : Nat) : (lenParts (len / 255 + 1) len).getLast? = some (len % 255) := by
  rw [lenParts_eq _ len (by omega), List.getLast?_append]; simp

theorem lenParts_head (len : Nat) (h : 1 ≤ len) :
    ∃ x t, lenParts (len / 255 + 1) len = x :: t ∧ x ≠ 0 := by
  unfold lenParts
  split
  · exact ⟨len, [], rfl, by omega⟩
  · exact ⟨255, _, rfl, by omega⟩

theorem takeRun_replicate (k : Nat) : ∀ (r : Nat) (rest : List Nat) (acc : Nat), r ≠ 255 →
    takeRun (List.replicate k 255 ++ r :: rest) acc = some (acc + 255 * k + r, rest) := by
  induction k with
  | zero => intro r rest acc hr; simp [takeRun, hr]
  | succ k ih =>
    intro r rest acc hr
    rw [List.replicate_succ, List.cons_append]
    simp only [takeRun, if_true]
    rw [ih r rest (acc + 255) hr]
    congr 2
    omega

/-- the decoder's run loop reads the parts of one run back -/
theorem takeRun_lenParts (len : Nat) (rest : List Nat) :
    takeRun (lenParts (len / 255 + 1) len ++ rest) 0 = some (len, rest) := by
  rw [lenParts_eq _ len (by omega), List.append_assoc]
  have := takeRun_replicate (len / 255) (len % 255) rest 0 (by omega)
  simp only [List.singleton_append]
  rw [this]
  congr 2
  omega

/-! ## runs of one value at the head of a nondecreasing table -/

theorem head_drop_runOf (s : Nat) (l : List Nat) : (l.drop (Nx.runOf s l)).head? ≠ some s := by
  induction l with
  | nil => simp [Nx.runOf]
  | cons a l ih =>
    simp only [Nx.runOf]
    split
    · simpa using ih
    · next h => simp; exact h

/-- a nondecreasing table whose entries are at least `i`: after the leading `i`s, the entries are
above `i` -/
theorem drop_runOf_bounds (i : Nat) (data : List Nat) (hs : data.Pairwise (· ≤ ·))
    (hb : ∀ x ∈ data, i ≤ x) : ∀ x ∈ data.drop (Nx.runOf i data), i + 1 ≤ x := by
  have hne := head_drop_runOf i data
  have hs' : (data.drop (Nx.runOf i data)).Pairwise (· ≤ ·) := hs.drop
  have hb' : ∀ x ∈ data.drop (Nx.runOf i data), i ≤ x := fun x hx => hb x (List.mem_of_mem_drop hx)
  generalize data.drop (Nx.runOf i data) = d at *
  cases d with
  | nil => intro x hx; simp at hx
  | cons h t =>
    have h1 : i ≤ h := hb' h (by simp)
    have h2 : h ≠ i := by simpa using hne
    intro x hx
    rcases List.mem_cons.mp hx with rfl | hx
    · omega
    · have := (List.pairwise_cons.mp hs').1 x hx
      omega

theorem split_runOf (s : Nat) (l : List Nat) :
    l = List.replicate (Nx.runOf s l) s ++ l.drop (Nx.runOf s l) := by
  rw [← Nx.take_runOf, List.take_append_drop]

theorem runOf_pos (s : Nat) (rest : List Nat) : 1 ≤ Nx.runOf s (s :: rest) := by
  simp [Nx.runOf]

/-! ## the first level: `rle1` -/

/-- `write_array` terminates on every nondecreasing byte table -/
theorem rle1_total (fuel : Nat) : ∀ (i : Nat) (data : List Nat), data.Pairwise (· ≤ ·) →
    (∀ x ∈ data, i ≤ x ∧ x < 256) → 257 ≤ fuel + i → ∃ R, rle1 fuel i data = some R := by
  induction fuel with
  | zero =>
    intro i data _ hb hf
    cases data with
    | nil => exact ⟨[], rfl⟩
    | cons a rest => have := hb a (by simp); omega
  | succ fuel ih =>
    intro i data hs hb hf
    cases data with
    | nil => exact ⟨[], rfl⟩
    | cons a rest =>
      have hd := drop_runOf_bounds i (a :: rest) hs (fun x hx => (hb x hx).1)
      obtain ⟨r, hr⟩ := ih (i + 1) ((a :: rest).drop (Nx.runOf i (a :: rest))) hs.drop
        (fun x hx => ⟨hd x hx, (hb x (List.mem_of_mem_drop hx)).2⟩) (by omega)
      refine ⟨lenParts (Nx.runOf i (a :: rest) / 255 + 1) (Nx.runOf i (a :: rest)) ++ r, ?_⟩
      simp only [rle1, hr]

/-- one step of `rle1`, as an equation -/
theorem rle1_cons (fuel i a : Nat) (rest R : List Nat) (h : rle1 (fuel + 1) i (a :: rest) = some R) :
    ∃ r, rle1 fuel (i + 1) ((a :: rest).drop (Nx.runOf i (a :: rest))) = some r ∧
      R = lenParts (Nx.runOf i (a :: rest) / 255 + 1) (Nx.runOf i (a :: rest)) ++ r := by
  simp only [rle1] at h
  split at h
  · simp at h
  · next r hr => exact ⟨r, hr, by simpa using h.symm⟩

theorem rle1_sum (fuel : Nat) : ∀ (i : Nat) (data R : List Nat), rle1 fuel i data = some R →
    R.sum = data.length := by
  induction fuel with
  | zero =>
    intro i data R h
    cases data with
    | nil => simp only [rle1, Option.some.injEq] at h; subst h; rfl
    | cons a rest => simp [rle1] at h
  | succ fuel ih =>
    intro i data R h
    cases data with
    | nil => simp only [rle1, Option.some.injEq] at h; subst h; rfl
    | cons a rest =>
      obtain ⟨r, hr, rfl⟩ := rle1_cons fuel i a rest R h
      have := ih _ _ _ hr
      have hle := Nx.runOf_le i (a :: rest)
      rw [List.sum_append, lenParts_sum, this, List.length_drop]
      omega

/-- at most 256 runs, and one more part for every 255 entries: the decoder's limit on the number
of parts (`max_run_part_count`) is never reached by the encoder's output -/
theorem rle1_length (fuel : Nat) : ∀ (i : Nat) (data R : List Nat), i ≤ 256 → (∀ x ∈ data, i ≤ x ∧ x < 256) →
    data.Pairwise (· ≤ ·) → rle1 fuel i data = some R → R.length + i ≤ 256 + data.length / 255 := by
  induction fuel with
  | zero =>
    intro i data R _ _ _ h
    cases data with
    | nil => simp only [rle1, Option.some.injEq] at h; subst h; simp; omega
    | cons a rest => simp [rle1] at h
  | succ fuel ih =>
    intro i data R hi hb hs h
    cases data with
    | nil => simp only [rle1, Option.some.injEq] at h; subst h; simp; omega
    | cons a rest =>
      obtain ⟨r, hr, rfl⟩ := rle1_cons fuel i a rest R h
      have hd := drop_runOf_bounds i (a :: rest) hs (fun x hx => (hb x hx).1)
      have ha := hb a (by simp)
      have := ih _ _ _ (by omega) (fun x hx => ⟨hd x hx, (hb x (List.mem_of_mem_drop hx)).2⟩) hs.drop hr
      have hle := Nx.runOf_le i (a :: rest)
      rw [List.length_append, lenParts_length]
      rw [List.length_drop] at this
      omega

/-- the second loop of `read_array` undoes the first loop of `write_array` -/
theorem expand_rle1 (fuel : Nat) : ∀ (i : Nat) (data R : List Nat) (fuelE : Nat),
    data.Pairwise (· ≤ ·) → (∀ x ∈ data, i ≤ x ∧ x < 256) → rle1 fuel i data = some R →
    256 ≤ fuelE + i → expand fuelE i R data.length = .ok data := by
  induction fuel with
  | zero =>
    intro i data R fuelE _ _ h _
    cases data with
    | nil => simp only [rle1, Option.some.injEq] at h; subst h; cases fuelE <;> rfl
    | cons a rest => simp [rle1] at h
  | succ fuel ih =>
    intro i data R fuelE hs hb h hf
    cases data with
    | nil => simp only [rle1, Option.some.injEq] at h; subst h; cases fuelE <;> rfl
    | cons a rest =>
      obtain ⟨r, hr, rfl⟩ := rle1_cons fuel i a rest R h
      have ha := hb a (by simp)
      cases fuelE with
      | zero => omega
      | succ fuelE =>
        have hd := drop_runOf_bounds i (a :: rest) hs (fun x hx => (hb x hx).1)
        have hle := Nx.runOf_le i (a :: rest)
        have hrec := ih (i + 1) _ r fuelE hs.drop
          (fun x hx => ⟨hd x hx, (hb x (List.mem_of_mem_drop hx)).2⟩) hr (by omega)
        simp only [List.length_cons] at hle ⊢
        simp only [expand, takeRun_lenParts]
        have hmin : min (Nx.runOf i (a :: rest)) (rest.length + 1) = Nx.runOf i (a :: rest) := by omega
        rw [hmin]
        have hlen : rest.length + 1 - Nx.runOf i (a :: rest)
            = ((a :: rest).drop (Nx.runOf i (a :: rest))).length := by
          rw [List.length_drop]; rfl
        rw [hlen, hrec]
        simp only
        rw [← split_runOf]

/-- the last part the first loop writes is the number of entries with the largest value, modulo 255 -/
theorem rle1_getLast (fuel : Nat) : ∀ (i : Nat) (data R : List Nat) (v : Nat),
    data.Pairwise (· ≤ ·) → (∀ x ∈ data, i ≤ x) → rle1 fuel i data = some R →
    data.getLast? = some v → R.getLast? = some (data.count v % 255) := by
  induction fuel with
  | zero =>
    intro i data R v _ _ h hv
    cases data with
    | nil => simp at hv
    | cons a rest => simp [rle1] at h
  | succ fuel ih =>
    intro i data R v hs hb h hv
    cases data with
    | nil => simp at hv
    | cons a rest =>
      obtain ⟨r, hr, rfl⟩ := rle1_cons fuel i a rest R h
      have hd := drop_runOf_bounds i (a :: rest) hs hb
      have hle := Nx.runOf_le i (a :: rest)
      have hsplit := split_runOf i (a :: rest)
      generalize hk : Nx.runOf i (a :: rest) = k at *
      by_cases hnil : (a :: rest).drop k = []
      · -- the run of `i` is the whole table
        rw [hnil] at hr hsplit
        have : r = [] := by cases fuel <;> simpa [rle1] using hr.symm
        subst this
        rw [List.append_nil] at hsplit ⊢
        rw [lenParts_getLast]
        have hv' : v = i := by
          rw [hsplit, List.getLast?_replicate] at hv
          split at hv
          · simp at hv
          · simpa using hv.symm
        subst hv'
        rw [hsplit, List.count_replicate]
        simp
      · have hlt : k < (a :: rest).length := by
          rcases Nat.lt_or_ge k (a :: rest).length with h1 | h1
          · exact h1
          · exact absurd (List.drop_eq_nil_iff.mpr h1) hnil
        have hv2 : ((a :: rest).drop k).getLast? = some v := by
          rw [List.getLast?_drop, if_neg (by omega)]; exact hv
        have hrec := ih (i + 1) _ r v hs.drop hd hr hv2
        have hvmem : v ∈ (a :: rest).drop k := List.mem_of_getLast? hv2
        have hvi : v ≠ i := by have := hd v hvmem; omega
        have hcount : (a :: rest).count v = ((a :: rest).drop k).count v := by
          conv => lhs; rw [hsplit]
          rw [List.count_append, List.count_replicate]
          have : (i == v) = false := by simpa using fun h => hvi h.symm
          simp [this]
        rw [List.getLast?_append, hrec, hcount]
        rfl

/-! ## the second level: `rle2` against the first loop of `read_array` -/

theorem take_of_le_runOf (c : Nat) (r : List Nat) (k : Nat) (h : k ≤ Nx.runOf c r) :
    r.take k = List.replicate k c := by
  have := congrArg (List.take k) (Nx.take_runOf c r)
  simpa [List.take_take, List.take_replicate, Nat.min_eq_left h] using this

theorem getLast?_le_sum (l : List Nat) (x : Nat) (h : l.getLast? = some x) : x ≤ l.sum := by
  obtain ⟨ys, rfl⟩ := List.getLast?_eq_some_iff.mp h
  rw [List.sum_append]; simp

/-- the first loop of `read_array`, started with `last` = the encoder's `last`, reads the parts back
and stops exactly at their end — PROVIDED the last part is not 0 (a part 0 at the end is not read:
the loop stops as soon as the parts cover the table) -/
theorem readRuns_rle2 (n maxParts : Nat) (fuel : Nat) : ∀ (R : List Nat) (l z cnt : Nat) (rest : List Nat),
    R.length ≤ fuel → z + R.sum = n → (∀ x, R.getLast? = some x → x ≠ 0) → cnt + R.length ≤ maxParts →
    readRuns n maxParts z l cnt (rle2 fuel (some l) R ++ rest) = .ok (R, rest) := by
  induction fuel with
  | zero =>
    intro R l z cnt rest hlen hz _ _
    have : R = [] := List.length_eq_zero_iff.mp (by omega)
    subst this
    simp only [List.sum_nil, Nat.add_zero] at hz
    unfold readRuns
    simp [rle2, hz]
  | succ fuel ih =>
    intro R l z cnt rest hlen hz hlast hcnt
    cases R with
    | nil =>
      simp only [List.sum_nil, Nat.add_zero] at hz
      unfold readRuns
      simp [rle2, hz]
    | cons c r =>
      have hpos : 0 < (c :: r).sum := by
        cases hg : (c :: r).getLast? with
        | none => simp at hg
        | some x =>
          have := getLast?_le_sum _ x hg
          have := hlast x hg
          omega
      have hnz : ¬ n ≤ z := by omega
      simp only [List.sum_cons, List.length_cons] at hz hlen hcnt
      simp only [rle2]
      by_cases hc : l = c
      · subst hc
        simp only [if_true]
        generalize hk : min (Nx.runOf l r) 255 = k
        have hk1 : k ≤ Nx.runOf l r := by omega
        have hk2 := Nx.runOf_le l r
        have htake := take_of_le_runOf l r k hk1
        have hsum : r.sum = k * l + (r.drop k).sum := by
          conv => lhs; rw [← List.take_append_drop k r]
          rw [List.sum_append, htake, List.sum_replicate_nat]
        unfold readRuns
        simp only [hnz, if_false, List.cons_append, if_true]
        have hc2 : ¬ cnt + 1 + k > maxParts := by omega
        simp only [hc2, if_false]
        rw [ih (r.drop k) l (z + l + l * k) (cnt + 1 + k) rest (by rw [List.length_drop]; omega)
          (by rw [Nat.mul_comm l k]; omega) ?_ (by rw [List.length_drop]; omega)]
        · simp only
          rw [← htake, List.take_append_drop]
        · intro x hx
          rw [List.getLast?_drop] at hx
          split at hx
          · simp at hx
          · refine hlast x ?_
            cases r with
            | nil => simp at hx
            | cons b r' => simpa using hx
      · have hc' : ¬ (some l = some c) := by simpa using hc
        simp only [hc', if_false]
        unfold readRuns
        have hc3 : ¬ c = l := fun h => hc h.symm
        simp only [hnz, if_false, List.cons_append, hc3]
        have hc2 : ¬ cnt + 1 > maxParts := by omega
        simp only [hc2, if_false]
        rw [ih r c (z + c) (cnt + 1) rest (by omega) (by omega) ?_ (by omega)]
        intro x hx
        cases r with
        | nil => simp at hx
        | cons b r' => exact hlast x (by simpa using hx)

/-! ## `read_array ∘ write_array` -/

/-- the tables `read_array` returns unchanged: nondecreasing byte tables that are empty or start
with the value 0 (the reader's `last` starts as 0, the writer's as −1) and whose largest value does
not fill a multiple of 255 entries (the writer then ends with a part 0 that the reader leaves
unread — and then misses) -/
structure ArrayOk (data : List Nat) : Prop where
  bytes : ∀ x ∈ data, x < 256
  sorted : data.Pairwise (· ≤ ·)
  zero : ∀ x, data.head? = some x → x = 0
  last : ∀ v, data.getLast? = some v → data.count v % 255 ≠ 0

theorem readArray_writeArray (data rest : List Nat) (h : ArrayOk data) :
    ∃ w, writeArray data = .ok w ∧ readArray data.length (w ++ rest) = .ok (data, rest) := by
  obtain ⟨hb, hs, h0, hl⟩ := h
  have hb' : ∀ x ∈ data, 0 ≤ x ∧ x < 256 := fun x hx => ⟨Nat.zero_le _, hb x hx⟩
  obtain ⟨R, hR⟩ := rle1_total 257 0 data hs hb' (by omega)
  refine ⟨rle2 R.length none R, by simp only [writeArray, hR], ?_⟩
  have hsum := rle1_sum 257 0 data R hR
  have hlen := rle1_length 257 0 data R (by omega) hb' hs hR
  have hexp := expand_rle1 257 0 data R 256 hs hb' hR (by omega)
  cases data with
  | nil =>
    simp only [rle1, Option.some.injEq] at hR
    subst hR
    unfold readArray readRuns
    simp [rle2, expand]
  | cons a rest' =>
    have ha : a = 0 := h0 a rfl
    subst ha
    obtain ⟨r, _, hRr⟩ := rle1_cons 256 0 0 rest' R hR
    obtain ⟨x, t, hxt, hx0⟩ := lenParts_head (Nx.runOf 0 (0 :: rest')) (runOf_pos 0 rest')
    rw [hxt, List.cons_append] at hRr
    obtain ⟨v, hv⟩ : ∃ v, (0 :: rest').getLast? = some v := by
      cases hg : (0 :: rest').getLast? with
      | none => simp at hg
      | some v => exact ⟨v, rfl⟩
    have hgl := rle1_getLast 257 0 (0 :: rest') R v hs (fun _ _ => Nat.zero_le _) hR hv
    have hlv := hl v hv
    generalize hT : t ++ r = T at hRr
    subst hRr
    simp only [List.sum_cons, List.length_cons] at hsum hlen hgl hexp
    have hne : ¬ (none : Option Nat) = some x := by simp
    simp only [List.length_cons, rle2, hne, if_false, List.cons_append]
    unfold readArray readRuns
    have hnz : ¬ (rest'.length + 1 ≤ 0) := by omega
    have hx0' : ¬ x = 0 := hx0
    have hcnt : ¬ (0 + 1 > 256 + (rest'.length + 1) / 255 + 1) := by omega
    simp only [hnz, if_false, hx0', hcnt]
    rw [readRuns_rle2 (rest'.length + 1) _ T.length T x (0 + x) (0 + 1) rest (Nat.le_refl _) (by omega)
      ?_ (by omega)]
    · simp only
      rw [hexp]
    · intro y hy
      have : (x :: T).getLast? = some y := by
        cases T with
        | nil => simp at hy
        | cons b T' => simpa using hy
      rw [this] at hgl
      simp only [Option.some.injEq] at hgl
      omega

end Noodles.Cram.Fqz
