import Noodles.Basic.Wire
import Noodles.Cram.IndexModel
import Noodles.Cram.DriverC19More
import Noodles.Cram.DriverC19Async
/-! Line-protocol handler for the CRAM index / query model (`c19 …`).

    c19 layout <rps> <spc> <recs>                  → per container `ctx#n/ctx#n+ctx#n|…` or err:invalid-input
    c19 index  <start> <file>                      → `ref:start:span:offset:landmark:size,…`
    c19 query  <start> <file> <ref> <qs> <qe>      → `recs=<ids>`

  rec  = `id:ref:s:e` (`ref` = `-` for an unmapped record), recs = `-` | rec;rec;…
  file = `-` | container|container|…, container = `hdrLen/chLen/slice+slice+…`, slice = `size=recs` -/
namespace Noodles.Cram.Index
open Noodles.Wire

def parseRec (s : String) : Option Rec :=
  match s.splitOn ":" with
  | [i, r, a, b] => do
    let ref ← if r = "-" then pure none else (r.toNat?).map some
    pure ⟨← i.toNat?, ref, ← a.toNat?, ← b.toNat?⟩
  | _ => none

def parseRecs (s : String) : Option (List Rec) :=
  if s = "-" then some [] else (s.splitOn ";").mapM parseRec

def parseSlice (s : String) : Option SliceL :=
  match s.splitOn "=" with
  | [n, rs] => do pure ⟨← n.toNat?, ← parseRecs rs⟩
  | _ => none

def parseContainer (s : String) : Option ContainerL :=
  match s.splitOn "/" with
  | [h, c, ss] => do pure ⟨← h.toNat?, ← c.toNat?, ← (ss.splitOn "+").mapM parseSlice⟩
  | _ => none

def parseFile (start : String) (s : String) : Option FileL := do
  let st ← start.toNat?
  if s = "-" then pure ⟨st, []⟩ else pure ⟨st, ← (s.splitOn "|").mapM parseContainer⟩

def fmtCtx : Ctx → String
  | .some k a b => s!"{k}:{a}:{b - a + 1}"
  | .none => "-1:0:0"
  | .many => "-2:0:0"

def fmtIds (l : List Nat) : String := if l.isEmpty then "-" else ",".intercalate (l.map toString)

def fmtEntry (e : Entry) : String :=
  let r := match e.ref with
    | some k => toString k
    | none => "-1"
  s!"{r}:{e.start}:{e.span}:{e.offset}:{e.landmark}:{e.size}"

def fmtContainer (slices : List (List Rec)) : Option String :=
  match containerCtx (slices.map sliceCtx) with
  | none => none
  | some c =>
    let n := (slices.map List.length).sum
    some (s!"{fmtCtx c}#{n}/" ++ "+".intercalate (slices.map fun s => s!"{fmtCtx (sliceCtx s)}#{s.length}"))

def handleC19 : List String → String
  | ["layout", rps, spc, recs] =>
    match rps.toNat?, spc.toNat?, parseRecs recs with
    | some rps, some spc, some rs =>
      match (layoutOf rps spc rs).mapM fmtContainer with
      | none => "err:invalid-input"
      | some l => if l.isEmpty then "-" else "|".intercalate l
    | _, _, _ => "bad-op"
  | ["index", start, file] =>
    match parseFile start file with
    | some f =>
      let es := craiOf f
      if es.isEmpty then "-" else ",".intercalate (es.map fmtEntry)
    | none => "bad-op"
  | ["query", start, file, k, qs, qe] =>
    match parseFile start file, k.toNat?, qs.toNat?, qe.toNat? with
    | some f, some k, some qs, some qe =>
      match cramQuery f (craiOf f) k qs qe with
      | some rs => s!"recs={fmtIds (rs.map (·.id))}"
      | none => "err:other"
    | _, _, _, _ => "bad-op"
  | "async" :: rest => handleC19Async rest
  | ws => handleC19More ws

end Noodles.Cram.Index
