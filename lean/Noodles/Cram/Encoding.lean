import Noodles.Cram.Bits
/-!
# CRAM data-series encodings: values on streams, parameters in the compression header

Transcribed from noodles-cram

* `container/compression_header/encoding/codec/{integer,byte,byte_array}.rs` — `Decode::decode`,
  `Encode::encode`, `Byte::{decode_take, encode_extend}`;
* `io/reader/container/slice/records/external_data_readers.rs` (a map content id → unread bytes);
* `io/writer/container/compression_header/encoding.rs` (`write_*_encoding`, `write_kind`,
  `write_args`, the per-codec writers) and `io/reader/container/compression_header/encoding.rs`
  (`read_*_encoding`, `read_kind`, the per-codec readers), `io/reader/collections.rs::read_array`.

What exists and what does not (modelled as it is):

* DECODING is implemented for External, Huffman, Beta and Gamma integers, External and Huffman
  bytes, ByteArrayLength and ByteArrayStop. Golomb, Subexp and GolombRice are `todo!()` — a panic.
* ENCODING is implemented for External integers and bytes and for both byte-array codecs; every
  other integer/byte codec is `todo!()` — a panic. The writer never builds a Huffman code.
* every codec's PARAMETERS are written and read.

`i - offset` / `x - offset` are plain `i32` subtractions (overflow → panic under overflow checks).
-/
namespace Noodles.Cram.Enc
open Noodles.Cram.Num (toU ofU writeItf8 readItf8)

/-! ## the codecs -/

inductive IntEnc
  | external (id : Int)
  | golomb (offset m : Int)
  | huffman (alphabet : List Int) (lens : List Nat)
  | beta (offset : Int) (len : Nat)
  | subexp (offset k : Int)
  | golombRice (offset log2m : Int)
  | gamma (offset : Int)
  deriving DecidableEq, Repr

inductive ByteEnc
  | external (id : Int)
  | huffman (alphabet : List Int) (lens : List Nat)
  deriving DecidableEq, Repr

inductive ByteArrayEnc
  | len (lenEnc : IntEnc) (valueEnc : ByteEnc)
  | stop (stopByte : Nat) (id : Int)
  deriving DecidableEq, Repr

/-! ## reader state: the core bit reader and `ExternalDataReaders` -/

structure RS where
  core : BitReader
  /-- `ExternalDataReaders`: content id → unread bytes (`none`: no such block) -/
  ext : Int → Option (List Nat)

/-- `external_data_readers.get_mut(id).ok_or_else(InvalidData "missing external block")` -/
def RS.get (s : RS) (id : Int) : Res (List Nat) :=
  match s.ext id with
  | some l => .ok l
  | none => .error .invalidData

/-- `*src = rest` -/
def RS.set (s : RS) (id : Int) (l : List Nat) : RS :=
  { s with ext := fun j => if j = id then some l else s.ext j }

def liftNum {α : Type} : Except Noodles.Cram.Num.Err α → Res α
  | .ok a => .ok a
  | .error .eof => .error .eof
  | .error .invalidData => .error .invalidData

/-- `read_itf8` -/
def readItf8' (src : List Nat) : Res (Int × List Nat) := liftNum (readItf8 src)

/-- the `while core_data_reader.read_bit()? == 0 { n += 1 }` loop of the Gamma decoder. `fuel` bounds
the number of bits left in the reader (`gammaFuel`), so it never runs out. -/
def gammaZeros : Nat → Nat → BitReader → Res (Nat × BitReader)
  | 0, _, _ => .error .eof
  | f + 1, n, r =>
    match r.readBit with
    | .error e => .error e
    | .ok (b, r') => if b = 0 then gammaZeros f (n + 1) r' else .ok (n, r')

def gammaFuel (r : BitReader) : Nat := 8 * r.src.length + 9

/-- `impl Decode for Integer` -/
def IntEnc.decode (e : IntEnc) (s : RS) : Res (Int × RS) :=
  match e with
  | .external id =>
    match s.get id with
    | .error e => .error e
    | .ok src =>
      match readItf8' src with
      | .error e => .error e
      | .ok (n, rest) => .ok (n, s.set id rest)
  | .huffman alphabet lens =>
    match alphabet with
    | [a] => .ok (a, s)
    | _ =>
      match huffDecode alphabet lens s.core with
      | .error e => .error e
      | .ok (v, r) => .ok (v, { s with core := r })
  | .beta offset len =>
    match s.core.readU32 len with
    | .error e => .error e
    | .ok (i, r) =>
      match sub32 i offset with
      | .error e => .error e
      | .ok v => .ok (v, { s with core := r })
  | .gamma offset =>
    match gammaZeros (gammaFuel s.core) 0 s.core with
    | .error e => .error e
    | .ok (n, r) =>
      match r.readU32 n with
      | .error e => .error e
      | .ok (m, r) =>
        -- `(1 << n) + m`: `1 << 31` is `i32::MIN`; the sum never leaves `i32`
        match sub32 (ofU 32 (2 ^ n + m)) offset with
        | .error e => .error e
        | .ok v => .ok (v, { s with core := r })
  /- Golomb, Subexp, GolombRice: `InvalidData "unsupported encoding"` (after the fix
  `cram-encoding-decoders-panic`: before it `todo!()`, a panic) -/
  | _ => .error .invalidData

/-- `impl Decode for Byte` -/
def ByteEnc.decode (e : ByteEnc) (s : RS) : Res (Nat × RS) :=
  match e with
  | .external id =>
    match s.get id with
    | .error e => .error e
    | .ok [] => .error .eof
    | .ok (b :: rest) => .ok (b, s.set id rest)
  | .huffman alphabet lens =>
    match alphabet with
    | [a] => .ok (toU 8 a, s)
    | _ =>
      match huffDecode alphabet lens s.core with
      | .error e => .error e
      | .ok (v, r) => .ok (toU 8 v, { s with core := r })

/-- `(0..len).map(|_| decoder.decode(..)).collect()` -/
def huffTake (alphabet : List Int) (lens : List Nat) : Nat → BitReader → Res (List Nat × BitReader)
  | 0, r => .ok ([], r)
  | k + 1, r =>
    match huffDecode alphabet lens r with
    | .error e => .error e
    | .ok (v, r) =>
      match huffTake alphabet lens k r with
      | .error e => .error e
      | .ok (vs, r) => .ok (toU 8 v :: vs, r)

/-- `Byte::decode_take` -/
def ByteEnc.decodeTake (e : ByteEnc) (s : RS) (len : Nat) : Res (List Nat × RS) :=
  if len = 0 then .ok ([], s) else
  match e with
  | .external id =>
    match s.get id with
    | .error e => .error e
    | .ok src => if len ≤ src.length then .ok (src.take len, s.set id (src.drop len)) else .error .eof
  | .huffman alphabet lens =>
    match alphabet with
    | [a] => .ok (List.replicate len (toU 8 a), s)
    | _ =>
      match huffTake alphabet lens len s.core with
      | .error e => .error e
      | .ok (vs, r) => .ok (vs, { s with core := r })

/-- `src.iter().position(|&b| b == stop_byte)` and `split_at` -/
def splitStop (stop : Nat) : List Nat → Option (List Nat × List Nat)
  | [] => none
  | b :: rest =>
    if b = stop then some ([], rest)
    else match splitStop stop rest with
      | none => none
      | some (v, r) => some (b :: v, r)

/-- `impl Decode for ByteArray` -/
def ByteArrayEnc.decode (e : ByteArrayEnc) (s : RS) : Res (List Nat × RS) :=
  match e with
  | .len lenEnc valueEnc =>
    match lenEnc.decode s with
    | .error e => .error e
    | .ok (n, s) => if n < 0 then .error .invalidData else valueEnc.decodeTake s n.toNat
  | .stop stopByte id =>
    match s.get id with
    | .error e => .error e
    | .ok src =>
      match splitStop stopByte src with
      | none => .error .invalidData
      | some (v, rest) => .ok (v, s.set id rest)

/-! ## writer state: the core bit writer and `ExternalDataWriters` -/

structure WS where
  core : BitWriter
  /-- `HashMap<ContentId, Vec<u8>>` -/
  ext : Int → Option (List Nat)

/-- `external_data_writers.get_mut(id).ok_or_else(missing)?.extend(bytes)` -/
def WS.push (s : WS) (id : Int) (bytes : List Nat) (missing : Err) : Res WS :=
  match s.ext id with
  | none => .error missing
  | some l => .ok { s with ext := fun j => if j = id then some (l ++ bytes) else s.ext j }

/-- `impl Encode for Integer` -/
def IntEnc.encode (e : IntEnc) (s : WS) (v : Int) : Res WS :=
  match e with
  | .external id => s.push id (writeItf8 v) .invalidData
  | _ => .error .panic

/-- `impl Encode for Byte` -/
def ByteEnc.encode (e : ByteEnc) (s : WS) (v : Nat) : Res WS :=
  match e with
  | .external id => s.push id [v] .invalidData
  | _ => .error .panic

/-- `Byte::encode_extend` -/
def ByteEnc.encodeExtend (e : ByteEnc) (s : WS) (src : List Nat) : Res WS :=
  match e with
  | .external id => s.push id src .invalidData
  | _ => .error .panic

/-- `for &v in value { value_encoding.encode(..)? }` -/
def ByteEnc.encodeEach (e : ByteEnc) : WS → List Nat → Res WS
  | s, [] => .ok s
  | s, v :: vs =>
    match e.encode s v with
    | .error e => .error e
    | .ok s => encodeEach e s vs

/-- `impl Encode for ByteArray` (a missing block of ByteArrayStop is `InvalidInput` here) -/
def ByteArrayEnc.encode (e : ByteArrayEnc) (s : WS) (v : List Nat) : Res WS :=
  match e with
  | .len lenEnc valueEnc =>
    if v.length < 2 ^ 31 then
      match lenEnc.encode s v.length with
      | .error e => .error e
      | .ok s => valueEnc.encodeEach s v
    else .error .invalidInput
  | .stop stopByte id => s.push id (v ++ [stopByte]) .invalidInput

/-! ## parameters: writers -/

/-- `write_args`: ITF8 length, bytes -/
def writeArgs (buf : List Nat) : Res (List Nat) :=
  if buf.length < 2 ^ 31 then .ok (writeItf8 buf.length ++ buf) else .error .invalidInput

/-- `write_kind` then `write_args` -/
def writeCodec (kind : Nat) (args : List Nat) : Res (List Nat) :=
  match writeArgs args with
  | .error e => .error e
  | .ok a => .ok (writeItf8 kind ++ a)

/-- `write_huffman_codec`'s argument buffer; `i32::try_from` of the two lengths and of every bit length -/
def huffmanArgs (alphabet : List Int) (lens : List Nat) : Res (List Nat) :=
  if ¬ alphabet.length < 2 ^ 31 then .error .invalidInput
  else if ¬ lens.length < 2 ^ 31 then .error .invalidInput
  else if lens.any (fun l => ¬ l < 2 ^ 31) then .error .invalidInput
  else .ok (writeItf8 alphabet.length ++ (alphabet.map writeItf8).flatten ++
            writeItf8 lens.length ++ (lens.map fun (l : Nat) => writeItf8 (Int.ofNat l)).flatten)

/-- `write_integer_encoding` -/
def IntEnc.write : IntEnc → Res (List Nat)
  | .external id => writeCodec 1 (writeItf8 id)
  | .golomb offset m => writeCodec 2 (writeItf8 offset ++ writeItf8 m)
  | .huffman alphabet lens =>
    match huffmanArgs alphabet lens with
    | .error e => .error e
    | .ok a => writeCodec 3 a
  | .beta offset len =>
    if len < 2 ^ 31 then writeCodec 6 (writeItf8 offset ++ writeItf8 len) else .error .invalidInput
  | .subexp offset k => writeCodec 7 (writeItf8 offset ++ writeItf8 k)
  | .golombRice offset log2m => writeCodec 8 (writeItf8 offset ++ writeItf8 log2m)
  | .gamma offset => writeCodec 9 (writeItf8 offset)

/-- `write_byte_encoding` -/
def ByteEnc.write : ByteEnc → Res (List Nat)
  | .external id => writeCodec 1 (writeItf8 id)
  | .huffman alphabet lens =>
    match huffmanArgs alphabet lens with
    | .error e => .error e
    | .ok a => writeCodec 3 a

/-- `write_byte_array_encoding` -/
def ByteArrayEnc.write : ByteArrayEnc → Res (List Nat)
  | .len lenEnc valueEnc =>
    match lenEnc.write with
    | .error e => .error e
    | .ok a =>
      match valueEnc.write with
      | .error e => .error e
      | .ok b => writeCodec 4 (a ++ b)
  | .stop stopByte id => writeCodec 5 (stopByte :: writeItf8 id)

/-! ## parameters: readers -/

/-- `read_itf8_as::<usize>` / `::<u32>`: a negative value is `InvalidData` -/
def readItf8Nat (src : List Nat) : Res (Nat × List Nat) :=
  match readItf8' src with
  | .error e => .error e
  | .ok (n, rest) => if n < 0 then .error .invalidData else .ok (n.toNat, rest)

/-- `read_array`: ITF8 length, then that many bytes -/
def readArray (src : List Nat) : Res (List Nat × List Nat) :=
  match readItf8Nat src with
  | .error e => .error e
  | .ok (len, rest) => if len ≤ rest.length then .ok (rest.take len, rest.drop len) else .error .eof

/-- `(0..n).map(|_| f(&mut args)).collect::<io::Result<_>>()` -/
def readN {α : Type} (f : List Nat → Res (α × List Nat)) : Nat → List Nat → Res (List α × List Nat)
  | 0, src => .ok ([], src)
  | n + 1, src =>
    match f src with
    | .error e => .error e
    | .ok (a, src) =>
      match readN f n src with
      | .error e => .error e
      | .ok (as, src) => .ok (a :: as, src)

/-- `read_huffman_codec` on the argument buffer -/
def readHuffmanArgs (args : List Nat) : Res (List Int × List Nat) :=
  match readItf8Nat args with
  | .error e => .error e
  | .ok (n, args) =>
    match readN readItf8' n args with
    | .error e => .error e
    | .ok (alphabet, args) =>
      match readItf8Nat args with
      | .error e => .error e
      | .ok (m, args) =>
        match readN readItf8Nat m args with
        | .error e => .error e
        | .ok (lens, _) => .ok (alphabet, lens)

/-- two ITF8 integers (`read_golomb_codec`, `read_subexp_codec`, `read_golomb_rice_codec`) -/
def readTwo (args : List Nat) : Res (Int × Int) :=
  match readItf8' args with
  | .error e => .error e
  | .ok (a, args) =>
    match readItf8' args with
    | .error e => .error e
    | .ok (b, _) => .ok (a, b)

/-- `read_integer_encoding`: `read_kind`, `read_array`, the codec's arguments (bytes of the argument
array that the codec does not read are ignored) -/
def IntEnc.read (src : List Nat) : Res (IntEnc × List Nat) :=
  match readItf8' src with
  | .error e => .error e
  | .ok (kind, src) =>
    if kind = 1 ∨ kind = 2 ∨ kind = 3 ∨ kind = 6 ∨ kind = 7 ∨ kind = 8 ∨ kind = 9 then
      match readArray src with
      | .error e => .error e
      | .ok (args, src) =>
        if kind = 1 then
          match readItf8' args with
          | .error e => .error e
          | .ok (id, _) => .ok (.external id, src)
        else if kind = 2 then
          match readTwo args with
          | .error e => .error e
          | .ok (a, b) => .ok (.golomb a b, src)
        else if kind = 3 then
          match readHuffmanArgs args with
          | .error e => .error e
          | .ok (a, l) => .ok (.huffman a l, src)
        else if kind = 6 then
          match readItf8' args with
          | .error e => .error e
          | .ok (offset, args) =>
            match readItf8Nat args with
            | .error e => .error e
            | .ok (len, _) => .ok (.beta offset len, src)
        else if kind = 7 then
          match readTwo args with
          | .error e => .error e
          | .ok (a, b) => .ok (.subexp a b, src)
        else if kind = 8 then
          match readTwo args with
          | .error e => .error e
          | .ok (a, b) => .ok (.golombRice a b, src)
        else
          match readItf8' args with
          | .error e => .error e
          | .ok (offset, _) => .ok (.gamma offset, src)
    else .error .invalidData

/-- `read_byte_encoding` -/
def ByteEnc.read (src : List Nat) : Res (ByteEnc × List Nat) :=
  match readItf8' src with
  | .error e => .error e
  | .ok (kind, src) =>
    if kind = 1 ∨ kind = 3 then
      match readArray src with
      | .error e => .error e
      | .ok (args, src) =>
        if kind = 1 then
          match readItf8' args with
          | .error e => .error e
          | .ok (id, _) => .ok (.external id, src)
        else
          match readHuffmanArgs args with
          | .error e => .error e
          | .ok (a, l) => .ok (.huffman a l, src)
    else .error .invalidData

/-- `read_byte_array_encoding` -/
def ByteArrayEnc.read (src : List Nat) : Res (ByteArrayEnc × List Nat) :=
  match readItf8' src with
  | .error e => .error e
  | .ok (kind, src) =>
    if kind = 4 ∨ kind = 5 then
      match readArray src with
      | .error e => .error e
      | .ok (args, src) =>
        if kind = 4 then
          match IntEnc.read args with
          | .error e => .error e
          | .ok (l, args) =>
            match ByteEnc.read args with
            | .error e => .error e
            | .ok (v, _) => .ok (.len l v, src)
        else
          match args with
          | [] => .error .eof
          | stopByte :: args =>
            match readItf8' args with
            | .error e => .error e
            | .ok (id, _) => .ok (.stop stopByte id, src)
    else .error .invalidData

/-- `consume_any_encoding` (the legacy `TC` / `TN` series): any ITF8 as the kind, then an array -/
def consumeAnyEncoding (src : List Nat) : Res (List Nat) :=
  match readItf8' src with
  | .error e => .error e
  | .ok (kind, src) =>
    if 0 ≤ kind ∧ kind ≤ 9 then
      match readArray src with
      | .error e => .error e
      | .ok (_, src) => .ok src
    else .error .invalidData

/-! ## the specification's encoders for the core-data codecs noodles only decodes

noodles' `encode` is `todo!()` for these; the round-trip theorems state that its decoders invert the
CRAM specification's encoders (what another writer, e.g. htslib, produces). -/

/-- Beta: `len` bits of `v + offset` -/
def betaBits (offset : Int) (len : Nat) (v : Int) : List Bool := codeBits (v + offset).toNat len

/-- bit length of `x > 0` minus one: `⌊log2 x⌋` (fuel-bounded) -/
def log2Go : Nat → Nat → Nat
  | 0, _ => 0
  | f + 1, x => if x ≤ 1 then 0 else 1 + log2Go f (x / 2)
def log2 (x : Nat) : Nat := log2Go x x

/-- Elias gamma of `x = v + offset ≥ 1`: `n = ⌊log2 x⌋` zeros, a one, the `n` low bits of `x` -/
def gammaBits (offset : Int) (v : Int) : List Bool :=
  let x := (v + offset).toNat
  List.replicate (log2 x) false ++ [true] ++ codeBits x (log2 x)

end Noodles.Cram.Enc
