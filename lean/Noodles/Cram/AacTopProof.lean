import Noodles.Cram.AacCodecProof
/-!
Helper lemmas for `Noodles/Props/C08Aac.lean`: the complete entropy coders (`encode0`, `encode1`,
`encodeRle` against `decodeOrd`, `decodeRle`), the bit-pack decoder, the stripes, and `encode` /
`decode` for every flag byte.
-/
namespace Noodles.Cram.Aac
open Noodles.Cram.Num

/-! ## the entropy coders -/

theorem foldl_max_ge (l : List Nat) (a : Nat) : a ≤ l.foldl max a := by
  induction l generalizing a with
  | nil => exact Nat.le_refl _
  | cons x l ih => exact Nat.le_trans (Nat.le_max_left a x) (ih (max a x))

theorem countSymbols_pos (src : List Nat) : 1 ≤ countSymbols src := by
  unfold countSymbols; omega

theorem allWF_replicate (k n : Nat) (h : n ≤ 256) : AllWF (List.replicate k (Model.new n)) := by
  intro m hm
  rw [List.mem_replicate] at hm
  exact hm.2 ▸ Model.new_wf n h

theorem rleModels_wf : AllWF rleModels := allWF_replicate 258 4 (by decide)

theorem AllWF.append {a b : List Model} (ha : AllWF a) (hb : AllWF b) : AllWF (a ++ b) := by
  intro m hm
  rcases List.mem_append.mp hm with h | h
  · exact ha m h
  · exact hb m h

/-- the byte `write_symbol_count` writes: 0 for a full alphabet -/
def countByte (n : Nat) : Nat := if n = 256 then 0 else n

/-- what `encodeWith` returns when it answers -/
theorem encodeWith_ok (ms : List Model) (evs : List (Nat × Nat)) (n : Nat) (enc : List Nat)
    (h : encodeWith ms evs n = .ok enc) :
    n ≤ 256 ∧ ∃ ms' e', encSyms ms Enc.init evs = some (ms', e') ∧ enc = [countByte n] ++ e'.finish := by
  unfold encodeWith symbolCountByte at h
  by_cases h256 : n = 256
  · simp only [h256, if_true] at h
    split at h
    · simp at h
    · next ms' e' hrun =>
      simp only [Except.ok.injEq] at h
      exact ⟨by omega, ms', e', hrun, by simp [countByte, h256, ← h]⟩
  · by_cases hn : n < 256
    · simp only [h256, hn, if_true, if_false] at h
      split at h
      · simp at h
      · next ms' e' hrun =>
        simp only [Except.ok.injEq] at h
        exact ⟨by omega, ms', e', hrun, by simp [countByte, h256, ← h]⟩
    · simp [h256, hn] at h

/-- `read_symbol_count` maps the byte back: 0 stands for 256 -/
theorem readSymbolCount_cons (n : Nat) (r : List Nat) (h : 1 ≤ n) (h2 : n ≤ 256) :
    readSymbolCount ([countByte n] ++ r) = .ok (n, r) := by
  unfold countByte
  by_cases h256 : n = 256
  · simp [readSymbolCount, h256]
  · have : ¬ n = 0 := by omega
    simp [readSymbolCount, h256, this]

/-- order 0 and order 1: `decode(encode(src)) = src` -/
theorem decodeOrd_encode (o1 : Bool) (src enc : List Nat)
    (h : (if o1 then encode1 src else encode0 src) = .ok enc) :
    decodeOrd o1 src.length enc = .ok src := by
  have hpos := countSymbols_pos src
  cases o1 with
  | false =>
    simp only [Bool.false_eq_true, if_false] at h
    obtain ⟨hn, ms', e', hrun, rfl⟩ := encodeWith_ok _ _ _ _ h
    have hwf : AllWF [Model.new (countSymbols src)] := allWF_replicate 1 _ (by omega)
    obtain ⟨d, hd, hsync⟩ := sync_init _ ms' e' _ hwf hrun
    unfold decodeOrd
    rw [readSymbolCount_cons _ _ hpos hn]
    simp only [hd, Bool.false_eq_true, if_false]
    rw [events0_eq 0] at hsync
    exact decSyms_sync _ false src 0 _ _ d hsync
  | true =>
    simp only [if_true] at h
    obtain ⟨hn, ms', e', hrun, rfl⟩ := encodeWith_ok _ _ _ _ h
    have hwf := allWF_replicate (countSymbols src) (countSymbols src) (by omega)
    obtain ⟨d, hd, hsync⟩ := sync_init _ ms' e' _ hwf hrun
    unfold decodeOrd
    rw [readSymbolCount_cons _ _ hpos hn]
    simp only [hd, if_true]
    rw [events1_eq 0] at hsync
    exact decSyms_sync _ true src 0 _ _ d hsync

/-- the run-length codecs: `decode(encode(src)) = src` -/
theorem decodeRle_encode (o1 : Bool) (src enc : List Nat) (h : encodeRle o1 src = .ok enc) :
    decodeRle o1 src.length enc = .ok src := by
  have hpos := countSymbols_pos src
  unfold encodeRle at h
  obtain ⟨hn, ms', e', hrun, rfl⟩ := encodeWith_ok _ _ _ _ h
  have hwf : AllWF (List.replicate (if o1 = true then countSymbols src else 1) (Model.new (countSymbols src))
      ++ rleModels) := (allWF_replicate _ _ (by omega)).append rleModels_wf
  obtain ⟨d, hd, hsync⟩ := sync_init _ ms' e' _ hwf hrun
  unfold decodeRle
  rw [readSymbolCount_cons _ _ hpos hn]
  simp only [hd]
  exact decRuns_sync _ o1 _ src.length src.length src 0 _ _ d (Nat.le_refl _) (Nat.le_refl _) hsync

/-! ## bit packing: noodles' decoder undoes noodles' encoder -/

theorem unpackByteN_packByte (syms : List Nat) (bits : Nat) (hb : syms.length ≤ 2 ^ bits) (c : List Nat)
    (hin : ∀ s ∈ c, s ∈ syms) : unpackByteN syms bits c.length (Nx.packByte syms bits c) = .ok c := by
  induction c with
  | nil => rfl
  | cons s r ih =>
    have hs := hin s (by simp)
    have hr : Nx.rank syms s < 2 ^ bits := Nat.lt_of_lt_of_le (Nx.rank_lt syms s hs) hb
    have hget : syms[Nx.rank syms s]? = some s := by
      have := Nx.getD_rank syms s hs
      rw [List.getD_eq_getElem?_getD] at this
      rw [List.getElem?_eq_getElem (Nx.rank_lt syms s hs)] at this ⊢
      simpa using this
    simp only [List.length_cons, Nx.packByte, unpackByteN]
    have h1 : (Nx.rank syms s + 2 ^ bits * Nx.packByte syms bits r) % 2 ^ bits = Nx.rank syms s := by
      rw [Nat.add_mul_mod_self_left, Nat.mod_eq_of_lt hr]
    have h2 : (Nx.rank syms s + 2 ^ bits * Nx.packByte syms bits r) / 2 ^ bits = Nx.packByte syms bits r := by
      rw [Nat.add_mul_div_left _ _ (Nat.pow_pos (by decide)), Nat.div_eq_of_lt hr, Nat.zero_add]
    rw [h1, h2, hget]
    simp only [ih (fun x hx => hin x (List.mem_cons_of_mem _ hx))]

theorem unpackGo_pack (syms : List Nat) (per : Nat) (hper : 1 ≤ per) (hb : syms.length ≤ 2 ^ (8 / per))
    (fuel : Nat) : ∀ (l : List Nat), l.length ≤ fuel → (∀ s ∈ l, s ∈ syms) →
      unpackGo syms per ((Nx.chunks per fuel l).map fun c => Nx.packByte syms (8 / per) c) l.length = .ok l := by
  induction fuel with
  | zero =>
    intro l hl _
    have : l = [] := List.eq_nil_of_length_eq_zero (by omega)
    subst this; rfl
  | succ fuel ih =>
    intro l hl hin
    cases l with
    | nil => simp [Nx.chunks, unpackGo]
    | cons a l =>
      have hne : (a :: l).isEmpty = false := rfl
      simp only [Nx.chunks, hne, Bool.false_eq_true, if_false, List.map_cons, List.length_cons, unpackGo]
      have hk : min per (l.length + 1) = ((a :: l).take per).length := by
        rw [List.length_take, List.length_cons]
      rw [hk, unpackByteN_packByte syms (8 / per) hb _ (fun s hs => hin s (List.mem_of_mem_take hs))]
      simp only
      have hrem : l.length + 1 - ((a :: l).take per).length = ((a :: l).drop per).length := by
        rw [List.length_take, List.length_drop, List.length_cons]; omega
      rw [hrem, ih _ (by rw [List.length_drop, List.length_cons]; simp only [List.length_cons] at hl; omega)
        (fun s hs => hin s (List.mem_of_mem_drop hs))]
      simp only [List.take_append_drop]

/-- `bit_pack::decode` (noodles') on what `bit_pack::encode` produced -/
theorem unpackN_packEnc (src : List Nat) (hsym : ∀ x ∈ src, x < 256)
    (h1 : 1 ≤ (Nx.symbols src).length) (h16 : (Nx.symbols src).length ≤ 16) :
    unpackN (Nx.symbols src) src.length (Nx.packEnc (Nx.symbols src) src) = .ok src := by
  have hin : ∀ s ∈ src, s ∈ Nx.symbols src := fun s hs => Nx.mem_symbols src s hs (hsym s hs)
  unfold unpackN Nx.packEnc
  by_cases hone : (Nx.symbols src).length = 1
  · simp only [hone, if_true]
    congr 1
    obtain ⟨z, hz⟩ := List.length_eq_one_iff.mp hone
    rw [hz]
    apply List.ext_getElem (by simp)
    intro i h1 _
    have := hin src[i] (List.getElem_mem _)
    rw [hz] at this
    simp at this
    simp [this]
  · simp only [hone, if_false]
    unfold Nx.pack Nx.perByte
    by_cases h2 : (Nx.symbols src).length = 2
    · simp only [h2, if_true, Nat.le_refl]
      exact unpackGo_pack _ 8 (by decide) (by rw [h2]; decide) _ src (Nat.le_refl _) hin
    · simp only [h2, if_false]
      have hn2 : ¬ (Nx.symbols src).length ≤ 2 := by omega
      by_cases h4 : (Nx.symbols src).length ≤ 4
      · simp only [hn2, h4, if_true, if_false]
        exact unpackGo_pack _ 4 (by decide) (by simpa using h4) _ src (Nat.le_refl _) hin
      · simp only [hn2, h4, h16, if_true, if_false]
        exact unpackGo_pack _ 2 (by decide) (by simpa using h16) _ src (Nat.le_refl _) hin

/-! ## flags, sizes -/

theorem ofByte_toByte (f : Flags) : Flags.ofByte f.toByte = f := by
  obtain ⟨a, b, c, d, e, g, h, i⟩ := f
  cases a <;> cases b <;> cases c <;> cases d <;> cases e <;> cases g <;> cases h <;> cases i <;> rfl

theorem rdU7_write (n : Nat) (hn : n < 2 ^ 32) (rest : List Nat) :
    rdU7 ((writeUint7 n).getD [] ++ rest) = .ok (n, rest) := by
  obtain ⟨bs, h1, _, _, h2⟩ := uint7_roundtrip' n hn
  simp [rdU7, h1, h2 rest]

theorem takeN_append (a b : List Nat) : takeN a.length (a ++ b) = .ok (a, b) := by
  simp [takeN]

/-- the law assumed of bzip2 (validated by the harness on every EXT payload): decompressing what
`bz` produced, asking for the input's length, returns the input -/
structure BzLawful (bz : List Nat → List Nat) (unbz : List Nat → Nat → Except DecErr (List Nat)) : Prop where
  law : ∀ x, unbz (bz x) x.length = .ok x

/-! ## a stream without STRIPE -/

/-- the entropy stage: whichever of CAT / EXT / RLE / order 0 / order 1 the flags select -/
theorem decEntropy_stageEntropy (bz : List Nat → List Nat)
    (unbz : List Nat → Nat → Except DecErr (List Nat)) (hbz : BzLawful bz unbz) (f : Flags)
    (data body : List Nat) (h : stageEntropy bz f data = .ok body) :
    decEntropy unbz f data.length body = .ok data := by
  unfold stageEntropy at h
  unfold decEntropy
  by_cases hcat : f.cat = true
  · simp only [hcat, if_true, Except.ok.injEq] at h ⊢
    subst h
    simp
  · simp only [hcat, Bool.false_eq_true, if_false] at h ⊢
    by_cases hext : f.ext = true
    · simp only [hext, if_true, Except.ok.injEq] at h ⊢
      subst h
      exact hbz.law data
    · simp only [hext, Bool.false_eq_true, if_false] at h ⊢
      by_cases hrle : f.rle = true
      · simp only [hrle, if_true] at h ⊢
        exact decodeRle_encode f.order data body h
      · simp only [hrle, Bool.false_eq_true, if_false] at h ⊢
        exact decodeOrd_encode f.order data body h

/-- `decode_chunk` on a stream whose flag byte decodes to flags without STRIPE -/
theorem decodeWith_flat (unbz : List Nat → Nat → Except DecErr (List Nat))
    (deeper : Option (List Nat → Nat → Except DecErr (List Nat))) (f : Flags) (hst : f.stripe = false)
    (bs : List Nat) (outer : Nat) :
    decodeWith unbz deeper (f.toByte :: bs) outer =
      match (if f.nosz then .ok (outer, bs) else rdU7 bs) with
      | .error e => .error e
      | .ok (ulen, bs) =>
        if f.pack then
          match readPack bs with
          | .error e => .error e
          | .ok (map, len, bs) =>
            match decEntropy unbz f len bs with
            | .error e => .error e
            | .ok data => unpackN map ulen data
        else decEntropy unbz f ulen bs := by
  rw [decodeWith]
  simp only [ofByte_toByte, hst, Bool.false_eq_true, if_false]
  rfl

/-- `decode_chunk` on what `encode` returns for flags without STRIPE — at any nesting depth -/
theorem decodeWith_encodeFlat (bz : List Nat → List Nat)
    (unbz : List Nat → Nat → Except DecErr (List Nat)) (hbz : BzLawful bz unbz)
    (deeper : Option (List Nat → Nat → Except DecErr (List Nat))) (f : Flags) (hst : f.stripe = false)
    (src enc : List Nat) (hsym : ∀ x ∈ src, x < 256) (h : encodeFlat bz f src = .ok enc) :
    decodeWith unbz deeper enc src.length = .ok src := by
  unfold encodeFlat at h
  split at h
  · simp at h
  · next size hsize =>
    split at h
    · simp at h
    · next f1 data m hpack =>
      split at h
      · simp at h
      · next body hbody =>
        simp only [Except.ok.injEq] at h
        subst h
        -- the size field
        have hsz : ∀ rest : List Nat, (if f.nosz = true then (Except.ok (src.length, size ++ rest) : Except DecErr _)
            else rdU7 (size ++ rest)) = .ok (src.length, rest) := by
          intro rest
          unfold sizeBytes at hsize
          by_cases hn : f.nosz = true
          · simp only [hn, if_true, Except.ok.injEq] at hsize ⊢
            subst hsize
            rfl
          · simp only [hn, Bool.false_eq_true, if_false] at hsize ⊢
            split at hsize
            · next hlt =>
              simp only [Except.ok.injEq] at hsize
              subst hsize
              exact rdU7_write _ hlt _
            · simp at hsize
        have hent := decEntropy_stageEntropy bz unbz hbz f1 data body hbody
        have henc : [f1.toByte] ++ size ++ m ++ body = f1.toByte :: (size ++ (m ++ body)) := by simp
        rw [henc]
        -- the bit-packing stage
        unfold stagePack at hpack
        by_cases hp : f.pack = true
        · simp only [hp, if_true] at hpack
          by_cases hdrop : (Nx.symbols src).length = 0 ∨ (Nx.symbols src).length > 16
          · simp only [hdrop, if_true, Except.ok.injEq, Prod.mk.injEq] at hpack
            obtain ⟨rfl, rfl, rfl⟩ := hpack
            rw [decodeWith_flat _ _ _ (show ({ f with pack := false } : Flags).stripe = false from hst)]
            simp only [List.nil_append]
            rw [hsz body]
            simp only [Bool.false_eq_true, if_false]
            exact hent
          · simp only [hdrop, if_false] at hpack
            split at hpack
            · next hlt =>
              simp only [Except.ok.injEq, Prod.mk.injEq] at hpack
              obtain ⟨rfl, rfl, rfl⟩ := hpack
              rw [decodeWith_flat _ _ _ hst, hsz]
              have hk : ¬ (Nx.symbols src).length = 0 := by omega
              simp only [hp, if_true, List.append_assoc, List.cons_append,
                List.nil_append, readPack, hk, if_false, takeN_append, rdU7_write _ hlt, hent]
              exact unpackN_packEnc src hsym (by omega) (by omega)
            · simp at hpack
        · simp only [hp, Bool.false_eq_true, if_false, Except.ok.injEq, Prod.mk.injEq] at hpack
          obtain ⟨rfl, rfl, rfl⟩ := hpack
          rw [decodeWith_flat _ _ _ hst]
          simp only [List.nil_append]
          rw [hsz body]
          simp only [hp, Bool.false_eq_true, if_false]
          exact hent

/-! ## stripes -/

theorem chunks_filterMap_getElem? (j : Nat) (hj : j < 4) (fuel : Nat) :
    ∀ (l : List Nat) (i : Nat), l.length ≤ fuel →
      ((Nx.chunks 4 fuel l).filterMap fun c => c[j]?)[i]? = l[4 * i + j]? := by
  induction fuel with
  | zero =>
    intro l i hl
    have : l = [] := List.eq_nil_of_length_eq_zero (by omega)
    subst this; simp [Nx.chunks]
  | succ fuel ih =>
    intro l i hl
    cases hl0 : l with
    | nil => simp [Nx.chunks]
    | cons a r =>
      rw [← hl0]
      have hne : l.isEmpty = false := by rw [hl0]; rfl
      simp only [Nx.chunks, hne, Bool.false_eq_true, if_false, List.filterMap_cons]
      have htk : (l.take 4)[j]? = l[j]? := by rw [List.getElem?_take]; simp [hj]
      rw [htk]
      have hdl : (l.drop 4).length ≤ fuel := by
        rw [List.length_drop]; rw [hl0] at hl ⊢; simp only [List.length_cons] at hl ⊢; omega
      cases hlj : l[j]? with
      | none =>
        simp only
        have hjl : l.length ≤ j := by
          rcases Nat.lt_or_ge j l.length with h | h
          · rw [List.getElem?_eq_getElem h] at hlj; simp at hlj
          · exact h
        have hd : l.drop 4 = [] := List.drop_eq_nil_of_le (by omega)
        rw [hd]
        have hc : Nx.chunks 4 fuel [] = [] := by cases fuel <;> simp [Nx.chunks]
        rw [hc]
        simp only [List.filterMap_nil, List.getElem?_nil]
        exact (List.getElem?_eq_none (by omega)).symm
      | some v =>
        simp only
        cases i with
        | zero => simp [hlj]
        | succ i =>
          rw [List.getElem?_cons_succ, ih (l.drop 4) i hdl, List.getElem?_drop]
          congr 1
          omega

theorem transpose_getElem? (l : List Nat) (j : Nat) (hj : j < 4) (i : Nat) :
    (Nx.transpose 4 l j)[i]? = l[4 * i + j]? :=
  chunks_filterMap_getElem? j hj l.length l i (Nat.le_refl _)

/-- `transpose` of `decode/stripe.rs` undoes `transpose` of `encode/stripe.rs` -/
theorem transposeDec_transpose (src : List Nat) :
    transposeDec [Nx.transpose 4 src 0, Nx.transpose 4 src 1, Nx.transpose 4 src 2, Nx.transpose 4 src 3]
      src.length = src := by
  unfold transposeDec
  apply List.ext_getElem?
  intro k
  rw [List.getElem?_map]
  rcases Nat.lt_or_ge k src.length with hk | hk
  · rw [List.getElem?_range hk]
    simp only [Option.map_some, List.length_cons, List.length_nil, Nat.zero_add]
    have hmod : k % 4 < 4 := Nat.mod_lt _ (by decide)
    have hsplit : 4 * (k / 4) + k % 4 = k := Nat.div_add_mod k 4
    rw [List.getElem?_eq_getElem hk]
    congr 1
    have key : ∀ j, j < 4 → k % 4 = j → ((Nx.transpose 4 src j).getD (k / 4) 0) = src[k] := by
      intro j hj hkj
      rw [List.getD_eq_getElem?_getD, transpose_getElem? src j hj, ← hkj, hsplit,
        List.getElem?_eq_getElem hk]
      rfl
    rcases (by omega : k % 4 = 0 ∨ k % 4 = 1 ∨ k % 4 = 2 ∨ k % 4 = 3) with h | h | h | h
    · rw [h]; exact key 0 (by decide) h
    · rw [h]; exact key 1 (by decide) h
    · rw [h]; exact key 2 (by decide) h
    · rw [h]; exact key 3 (by decide) h
  · rw [List.getElem?_eq_none (by simpa using hk), List.getElem?_eq_none hk]
    rfl

theorem readSizes4 (a0 a1 a2 a3 : Nat) (h0 : a0 < 2 ^ 32) (h1 : a1 < 2 ^ 32) (h2 : a2 < 2 ^ 32)
    (h3 : a3 < 2 ^ 32) (rest : List Nat) :
    readSizes 4 (((writeUint7 a0).getD [] ++ (writeUint7 a1).getD [] ++ (writeUint7 a2).getD []
      ++ (writeUint7 a3).getD []) ++ rest) = .ok ([a0, a1, a2, a3], rest) := by
  simp only [readSizes, List.append_assoc, rdU7_write _ h0, rdU7_write _ h1, rdU7_write _ h2,
    rdU7_write _ h3]

/-- a striped stream: `decode_chunk` with one more level available below -/
theorem decodeWith_encodeStripe (bz : List Nat → List Nat)
    (unbz : List Nat → Nat → Except DecErr (List Nat)) (hbz : BzLawful bz unbz)
    (budget : Nat) (f : Flags) (hst : f.stripe = true)
    (src enc : List Nat) (hsym : ∀ x ∈ src, x < 256) (h : encode bz f src = .ok enc) :
    decodeWith unbz (some (decodeD unbz budget)) enc src.length = .ok src := by
  unfold encode at h
  simp only [hst, if_true] at h
  split at h
  · simp at h
  · next size hsize =>
    split at h
    · simp at h
    · next s hs =>
      simp only [Except.ok.injEq] at h
      subst h
      have hsz : ∀ rest : List Nat, (if f.nosz = true then (Except.ok (src.length, size ++ rest) : Except DecErr _)
          else rdU7 (size ++ rest)) = .ok (src.length, rest) := by
        intro rest
        unfold sizeBytes at hsize
        by_cases hn : f.nosz = true
        · simp only [hn, if_true, Except.ok.injEq] at hsize ⊢
          subst hsize
          rfl
        · simp only [hn, Bool.false_eq_true, if_false] at hsize ⊢
          split at hsize
          · next hlt =>
            simp only [Except.ok.injEq] at hsize
            subst hsize
            exact rdU7_write _ hlt _
          · simp at hsize
      unfold encodeStripe at hs
      split at hs
      · simp at hs
      · next p0 hp0 =>
        split at hs
        · simp at hs
        · next p1 hp1 =>
          split at hs
          · simp at hs
          · next p2 hp2 =>
            split at hs
            · simp at hs
            · next p3 hp3 =>
              split at hs
              · next hlens =>
                simp only [Except.ok.injEq] at hs
                subst hs
                have hnost : Flags.noSize.stripe = false := rfl
                have hdec : ∀ j, j < 4 → ∀ p, encodeFlat bz Flags.noSize (Nx.transpose 4 src j) = .ok p →
                    decodeD unbz budget p (src.length / 4 + (if src.length % 4 > j then 1 else 0))
                      = .ok (Nx.transpose 4 src j) := by
                  intro j hj p hp
                  rw [← Nx.transpose_length src j hj]
                  cases budget with
                  | zero => exact decodeWith_encodeFlat bz unbz hbz none _ hnost _ _ (Nx.transpose_sym src hsym j) hp
                  | succ b => exact decodeWith_encodeFlat bz unbz hbz _ _ hnost _ _ (Nx.transpose_sym src hsym j) hp
                have henc : [f.toByte] ++ size ++ ([4] ++ ((writeUint7 p0.length).getD [] ++ (writeUint7 p1.length).getD []
                    ++ (writeUint7 p2.length).getD [] ++ (writeUint7 p3.length).getD []) ++ (p0 ++ p1 ++ p2 ++ p3))
                    = f.toByte :: (size ++ (4 :: (((writeUint7 p0.length).getD [] ++ (writeUint7 p1.length).getD []
                    ++ (writeUint7 p2.length).getD [] ++ (writeUint7 p3.length).getD []) ++ (p0 ++ (p1 ++ (p2 ++ (p3 ++ []))))))) := by
                  simp
                rw [henc, decodeWith]
                simp only [ofByte_toByte, hst, if_true]
                rw [hsz]
                simp only [Nat.succ_ne_zero, if_false, readSizes4 _ _ _ _ hlens.1 hlens.2.1 hlens.2.2.1 hlens.2.2.2]
                simp only [decodeChunks, takeN_append, hdec 0 (by decide) p0 hp0, hdec 1 (by decide) p1 hp1,
                  hdec 2 (by decide) p2 hp2, hdec 3 (by decide) p3 hp3,
                  Nx.transpose_length src _ (by decide : 0 < 4), Nx.transpose_length src _ (by decide : 1 < 4),
                  Nx.transpose_length src _ (by decide : 2 < 4), Nx.transpose_length src _ (by decide : 3 < 4),
                  ne_eq, not_true_eq_false, if_false, Nat.zero_add, Nat.reduceAdd]
                rw [transposeDec_transpose]
              · simp at hs

/-- **`aac::decode(aac::encode(flags, src), |src|) = src`** for every flag byte and every byte
string the encoder answers for -/
theorem decode_encode (bz : List Nat → List Nat)
    (unbz : List Nat → Nat → Except DecErr (List Nat)) (hbz : BzLawful bz unbz) (f : Flags)
    (src enc : List Nat) (hsym : ∀ x ∈ src, x < 256) (h : encode bz f src = .ok enc) :
    decode unbz enc src.length = .ok src := by
  unfold decode
  show decodeWith unbz (some (decodeD unbz 7)) enc src.length = .ok src
  by_cases hst : f.stripe = true
  · exact decodeWith_encodeStripe bz unbz hbz 7 f hst src enc hsym h
  · have hst' : f.stripe = false := by simpa using hst
    unfold encode at h
    simp only [hst', Bool.false_eq_true, if_false] at h
    exact decodeWith_encodeFlat bz unbz hbz _ f hst' src enc hsym h

end Noodles.Cram.Aac
