import Noodles.Basic.Wire
import Noodles.Cram.AsyncQuery
import Noodles.Cram.DriverC19More
import Noodles.Io.DriverC16Formats
/-! Line-protocol handler for the sync / async CRAM query state machines (`c19 async …`).

    c19 async aq <start> <file> <idx> <trunc> <asched> <fallback> <ref> <qs> <qe>  → items
    c19 async au <start> <file> <idx> <trunc> <asched> <fallback>                  → items
    c19 async sq <start> <file> <idx> <trunc> <ssched> <ref> <qs> <qe>             → items
    c19 async su <start> <file> <idx> <trunc> <ssched>                             → items

  `file` / `idx` as in `c19 query` / `c19 qunm`; `trunc` = number of bytes of the stream that exist
  (`-` = all); `asched` as in `c16` (`p`, `<n>`, `x*k`), `ssched` as in `c12` (`c<n>`, `i`, `x*k`);
  items = `recs=<ids>` followed by `;err:<class>` when the iterator / stream ended with an error.
  `a*` run `asyncQuery` / `asyncQueryUnmapped` over the scripted poll source, `s*` run `syncQuery` /
  `syncQueryUnmapped` over the scheduled `Src`, both over `toyBytes f` read with `toyCodec f`. -/
namespace Noodles.Cram.Index
open Noodles.Wire hiding Bytes
open Noodles.IO Noodles.IO.Async
open More

def fmtItems (l : List Item) : String :=
  let ids := l.filterMap fun | .record r => some r.id | .err _ => none
  let errs := l.filterMap fun | .record _ => none | .err e => some e
  s!"recs={fmtIds ids}" ++ (match errs.head? with
    | some e => ";" ++ errStr e
    | none => "")

def truncTo (t : String) (b : Noodles.IO.Bytes) : Option Noodles.IO.Bytes :=
  if t = "-" then some b else t.toNat?.map fun n => b.take n

def unmappedFlag (r : Rec) : Bool := r.ref.isNone

def handleC19Async : List String → String
  | ["aq", start, file, idx, tr, sc, fb, k, qs, qe] =>
    match More.parseFile start file, parseEntries idx, parseASched sc, fb.toNat?, k.toNat?, qs.toNat?, qe.toNat? with
    | some f, some idx, some sc, some fb, some k, some qs, some qe =>
      match truncTo tr (toyBytes f) with
      | some bytes =>
        fmtItems (asyncQuery (toyCodec f) scripted (fun _ => 32) (seekScripted bytes) idx k qs qe
          ⟨bytes, sc, fb, 0, 0⟩)
      | none => "bad-op"
    | _, _, _, _, _, _, _ => "bad-op"
  | ["au", start, file, idx, tr, sc, fb] =>
    match More.parseFile start file, parseEntries idx, parseASched sc, fb.toNat? with
    | some f, some idx, some sc, some fb =>
      match truncTo tr (toyBytes f) with
      | some bytes =>
        fmtItems (asyncQueryUnmapped (toyCodec f) scripted (fun _ => 32) (seekScripted bytes) idx unmappedFlag
          (bytes.length + 1) ⟨bytes, sc, fb, 0, 0⟩)
      | none => "bad-op"
    | _, _, _, _ => "bad-op"
  | ["sq", start, file, idx, tr, sc, k, qs, qe] =>
    match More.parseFile start file, parseEntries idx, parseSched sc, k.toNat?, qs.toNat?, qe.toNat? with
    | some f, some idx, some sc, some k, some qs, some qe =>
      match truncTo tr (toyBytes f) with
      | some bytes => fmtItems (syncQuery (toyCodec f) (fun _ => []) bytes idx k qs qe ⟨bytes, sc⟩)
      | none => "bad-op"
    | _, _, _, _, _, _ => "bad-op"
  | ["su", start, file, idx, tr, sc] =>
    match More.parseFile start file, parseEntries idx, parseSched sc with
    | some f, some idx, some sc =>
      match truncTo tr (toyBytes f) with
      | some bytes =>
        fmtItems (syncQueryUnmapped (toyCodec f) (fun _ => []) bytes idx unmappedFlag (bytes.length + 1) ⟨bytes, sc⟩)
      | none => "bad-op"
    | _, _, _ => "bad-op"
  | _ => "bad-op"

end Noodles.Cram.Index
