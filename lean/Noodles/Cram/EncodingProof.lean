import Noodles.Cram.EncSpec
import Noodles.Cram.NumProof
/-! helper lemmas (see Props/C07Enc.lean): parameter round trips and single-encoding round trips -/
namespace Noodles.Cram.Enc
open Noodles.Cram.Num (toU ofU writeItf8 readItf8)

/-! ## ITF8 base facts -/

theorem readItf8'_write (n : Int) (h : isI32 n) (r : List Nat) :
    readItf8' (writeItf8 n ++ r) = .ok (n, r) := by
  unfold readItf8'
  rw [Num.readItf8_write, Num.ofU_toU32 n h.1 h.2]
  rfl

theorem isI32_ofNat (l : Nat) (h : l < 2 ^ 31) : isI32 (l : Int) := by
  unfold isI32; omega

theorem readItf8Nat_write (l : Nat) (h : l < 2 ^ 31) (r : List Nat) :
    readItf8Nat (writeItf8 (l : Int) ++ r) = .ok (l, r) := by
  unfold readItf8Nat
  rw [readItf8'_write _ (isI32_ofNat l h)]
  have : ¬ ((l : Int) < 0) := by omega
  simp only [this, ↓reduceIte, Int.toNat_natCast]

theorem writeItf8_length (n : Int) : (writeItf8 n).length ≤ 5 := (Num.writeItf8_bytes n).1

theorem readArray_write (buf rest : List Nat) (h : buf.length < 2 ^ 31) :
    readArray (writeItf8 (buf.length : Int) ++ (buf ++ rest)) = .ok (buf, rest) := by
  unfold readArray
  rw [readItf8Nat_write _ h]
  simp

theorem writeCodec_ok (kind : Nat) (args : List Nat) (h : args.length < 2 ^ 31) :
    writeCodec kind args = .ok (writeItf8 (kind : Int) ++ (writeItf8 (args.length : Int) ++ args)) := by
  unfold writeCodec writeArgs
  simp [h]

/-! ## Huffman arguments -/

theorem flatten_itf8_length {α : Type} (f : α → Int) (l : List α) :
    ((l.map fun a => writeItf8 (f a)).flatten).length ≤ 5 * l.length := by
  induction l with
  | nil => simp
  | cons a l ih =>
    have := writeItf8_length (f a)
    simp only [List.map_cons, List.flatten_cons, List.length_append, List.length_cons]
    omega

theorem readN_alphabet (a : List Int) (h : ∀ x ∈ a, isI32 x) (r : List Nat) :
    readN readItf8' a.length ((a.map writeItf8).flatten ++ r) = .ok (a, r) := by
  induction a with
  | nil => simp [readN]
  | cons x a ih =>
    have hx := h x (by simp)
    have ih := ih (fun y hy => h y (by simp [hy]))
    simp only [List.length_cons, List.map_cons, List.flatten_cons, List.append_assoc, readN,
      readItf8'_write x hx, ih]

theorem readN_lens (l : List Nat) (h : ∀ x ∈ l, x < 2 ^ 31) (r : List Nat) :
    readN readItf8Nat l.length ((l.map fun (x : Nat) => writeItf8 (Int.ofNat x)).flatten ++ r) = .ok (l, r) := by
  induction l with
  | nil => simp [readN]
  | cons x l ih =>
    have hx := h x (by simp)
    have ih := ih (fun y hy => h y (by simp [hy]))
    simp only [List.length_cons, List.map_cons, List.flatten_cons, List.append_assoc, readN,
      Int.ofNat_eq_natCast, readItf8Nat_write x hx]
    simp only [Int.ofNat_eq_natCast] at ih
    simp only [ih]

theorem huffmanArgs_ok (a : List Int) (l : List Nat) (ha : ∀ x ∈ a, isI32 x) (hl : ∀ x ∈ l, x < 2 ^ 31)
    (hsz : a.length + l.length < 2 ^ 28) :
    ∃ args, huffmanArgs a l = .ok args ∧ args.length ≤ 10 + 5 * (a.length + l.length) ∧
      ∀ sfx, readHuffmanArgs (args ++ sfx) = .ok (a, l) := by
  have h1 : a.length < 2 ^ 31 := by omega
  have h2 : l.length < 2 ^ 31 := by omega
  have h3 : l.any (fun x => ¬ x < 2 ^ 31) = false := by
    rw [List.any_eq_false]; intro x hx; simpa using hl x hx
  refine ⟨_, by unfold huffmanArgs; simp only [h1, h2, h3, not_true_eq_false, ↓reduceIte]; rfl, ?_, ?_⟩
  · have e1 := writeItf8_length (a.length : Int)
    have e2 := writeItf8_length (l.length : Int)
    have e3 : ((a.map writeItf8).flatten).length ≤ 5 * a.length := flatten_itf8_length (fun x : Int => x) a
    have e4 := flatten_itf8_length (fun x : Nat => Int.ofNat x) l
    simp only [List.length_append]
    omega
  · intro sfx
    unfold readHuffmanArgs
    simp only [List.append_assoc, readItf8Nat_write _ h1, readN_alphabet a ha, readItf8Nat_write _ h2,
      readN_lens l hl]

/-! ## integer / byte encoding parameters -/

theorem readItf8'_write0 (n : Int) (h : isI32 n) : readItf8' (writeItf8 n) = .ok (n, []) := by
  simpa using readItf8'_write n h []

theorem readItf8Nat_write0 (l : Nat) (h : l < 2 ^ 31) : readItf8Nat (writeItf8 (l : Int)) = .ok (l, []) := by
  simpa using readItf8Nat_write l h []

theorem readTwo_write (a b : Int) (ha : isI32 a) (hb : isI32 b) :
    readTwo (writeItf8 a ++ writeItf8 b) = .ok (a, b) := by
  unfold readTwo
  simp only [readItf8'_write a ha, readItf8'_write0 b hb]

theorem codec_length (k : Nat) (args : List Nat) :
    (writeItf8 (k : Int) ++ (writeItf8 (args.length : Int) ++ args)).length ≤ 10 + args.length := by
  have := writeItf8_length (k : Int)
  have := writeItf8_length (args.length : Int)
  simp only [List.length_append]; omega

theorem two_length (a b : Int) : (writeItf8 a ++ writeItf8 b).length ≤ 10 := by
  have := writeItf8_length a
  have := writeItf8_length b
  simp only [List.length_append]; omega

/-- the size parameter of an integer encoding's argument array -/
def IntEnc.sz : IntEnc → Nat
  | .huffman a l => a.length + l.length
  | _ => 0

def ByteEnc.sz : ByteEnc → Nat
  | .huffman a l => a.length + l.length
  | _ => 0

theorem isI32_lit (k : Nat) (h : k < 2 ^ 31) : isI32 ((k : Nat) : Int) := isI32_ofNat k h

theorem IntEnc.params_ok (e : IntEnc) (h : e.ParamsOK) :
    ∃ bs, e.write = .ok bs ∧ bs.length ≤ 20 + 5 * e.sz ∧
      ∀ rest, IntEnc.read (bs ++ rest) = .ok (e, rest) := by
  cases e with
  | external id =>
    have hl := writeItf8_length id
    have hlen : (writeItf8 id).length < 2 ^ 31 := by omega
    refine ⟨_, writeCodec_ok 1 _ hlen, ?_, ?_⟩
    · have := codec_length 1 (writeItf8 id); simp only [IntEnc.sz]; omega
    · intro rest
      unfold IntEnc.read
      simp only [List.append_assoc, readItf8'_write _ (isI32_lit 1 (by omega)), readArray_write _ _ hlen,
        readItf8'_write0 id h]
      simp
  | golomb a b =>
    have hl := two_length a b
    have hlen : (writeItf8 a ++ writeItf8 b).length < 2 ^ 31 := by omega
    refine ⟨_, writeCodec_ok 2 _ hlen, ?_, ?_⟩
    · have := codec_length 2 (writeItf8 a ++ writeItf8 b); simp only [IntEnc.sz]; omega
    · intro rest
      unfold IntEnc.read
      simp only [List.append_assoc, readItf8'_write _ (isI32_lit 2 (by omega))]
      rw [← List.append_assoc (writeItf8 a), readArray_write _ _ hlen]
      simp [readTwo_write a b h.1 h.2]
  | huffman a l =>
    obtain ⟨ha, hl, hsz⟩ := h
    obtain ⟨args, hw, hal, hr⟩ := huffmanArgs_ok a l ha hl hsz
    have hlen : args.length < 2 ^ 31 := by omega
    refine ⟨_, by simp only [IntEnc.write, hw]; exact writeCodec_ok 3 _ hlen, ?_, ?_⟩
    · have := codec_length 3 args; simp only [IntEnc.sz]; omega
    · intro rest
      unfold IntEnc.read
      simp only [List.append_assoc, readItf8'_write _ (isI32_lit 3 (by omega)), readArray_write _ _ hlen]
      have := hr []
      rw [List.append_nil] at this
      simp [this]
  | beta o len =>
    obtain ⟨ho, hlen'⟩ := h
    have hl := two_length o (len : Int)
    have hlen : (writeItf8 o ++ writeItf8 (len : Int)).length < 2 ^ 31 := by omega
    refine ⟨_, by simp only [IntEnc.write, hlen', ↓reduceIte]; exact writeCodec_ok 6 _ hlen, ?_, ?_⟩
    · have := codec_length 6 (writeItf8 o ++ writeItf8 (len : Int)); simp only [IntEnc.sz]; omega
    · intro rest
      unfold IntEnc.read
      simp only [List.append_assoc, readItf8'_write _ (isI32_lit 6 (by omega))]
      rw [← List.append_assoc (writeItf8 o), readArray_write _ _ hlen]
      simp [readItf8'_write o ho, readItf8Nat_write0 len hlen']
  | subexp a b =>
    have hl := two_length a b
    have hlen : (writeItf8 a ++ writeItf8 b).length < 2 ^ 31 := by omega
    refine ⟨_, writeCodec_ok 7 _ hlen, ?_, ?_⟩
    · have := codec_length 7 (writeItf8 a ++ writeItf8 b); simp only [IntEnc.sz]; omega
    · intro rest
      unfold IntEnc.read
      simp only [List.append_assoc, readItf8'_write _ (isI32_lit 7 (by omega))]
      rw [← List.append_assoc (writeItf8 a), readArray_write _ _ hlen]
      simp [readTwo_write a b h.1 h.2]
  | golombRice a b =>
    have hl := two_length a b
    have hlen : (writeItf8 a ++ writeItf8 b).length < 2 ^ 31 := by omega
    refine ⟨_, writeCodec_ok 8 _ hlen, ?_, ?_⟩
    · have := codec_length 8 (writeItf8 a ++ writeItf8 b); simp only [IntEnc.sz]; omega
    · intro rest
      unfold IntEnc.read
      simp only [List.append_assoc, readItf8'_write _ (isI32_lit 8 (by omega))]
      rw [← List.append_assoc (writeItf8 a), readArray_write _ _ hlen]
      simp [readTwo_write a b h.1 h.2]
  | gamma o =>
    have hl := writeItf8_length o
    have hlen : (writeItf8 o).length < 2 ^ 31 := by omega
    refine ⟨_, writeCodec_ok 9 _ hlen, ?_, ?_⟩
    · have := codec_length 9 (writeItf8 o); simp only [IntEnc.sz]; omega
    · intro rest
      unfold IntEnc.read
      simp only [List.append_assoc, readItf8'_write _ (isI32_lit 9 (by omega)), readArray_write _ _ hlen,
        readItf8'_write0 o h]
      simp

theorem ByteEnc.params_ok (e : ByteEnc) (h : e.ParamsOK) :
    ∃ bs, e.write = .ok bs ∧ bs.length ≤ 20 + 5 * e.sz ∧
      ∀ rest, ByteEnc.read (bs ++ rest) = .ok (e, rest) := by
  cases e with
  | external id =>
    have hl := writeItf8_length id
    have hlen : (writeItf8 id).length < 2 ^ 31 := by omega
    refine ⟨_, writeCodec_ok 1 _ hlen, ?_, ?_⟩
    · have := codec_length 1 (writeItf8 id); simp only [ByteEnc.sz]; omega
    · intro rest
      unfold ByteEnc.read
      simp only [List.append_assoc, readItf8'_write _ (isI32_lit 1 (by omega)), readArray_write _ _ hlen,
        readItf8'_write0 id h]
      simp
  | huffman a l =>
    obtain ⟨ha, hl, hsz⟩ := h
    obtain ⟨args, hw, hal, hr⟩ := huffmanArgs_ok a l ha hl (by omega)
    have hlen : args.length < 2 ^ 31 := by omega
    refine ⟨_, by simp only [ByteEnc.write, hw]; exact writeCodec_ok 3 _ hlen, ?_, ?_⟩
    · have := codec_length 3 args; simp only [ByteEnc.sz]; omega
    · intro rest
      unfold ByteEnc.read
      simp only [List.append_assoc, readItf8'_write _ (isI32_lit 3 (by omega)), readArray_write _ _ hlen]
      have := hr []
      rw [List.append_nil] at this
      simp [this]

theorem ByteArrayEnc.params_ok (e : ByteArrayEnc) (h : e.ParamsOK) :
    ∃ bs, e.write = .ok bs ∧ ∀ rest, ByteArrayEnc.read (bs ++ rest) = .ok (e, rest) := by
  cases e with
  | len l v =>
    obtain ⟨hl, hv, hb⟩ := h
    obtain ⟨a, hwa, hla, hra⟩ := IntEnc.params_ok l hl
    obtain ⟨b, hwb, hlb, hrb⟩ := ByteEnc.params_ok v hv
    have hls : l.sz < 2 ^ 27 := by
      cases l <;> simp only [IntEnc.sz] at * <;> omega
    have hvs : v.sz < 2 ^ 27 := by
      cases v with
      | external id => simp only [ByteEnc.sz]; omega
      | huffman a l => simp only [ByteEnc.sz]; exact hv.2.2
    have hlen : (a ++ b).length < 2 ^ 31 := by
      simp only [List.length_append]; omega
    refine ⟨_, by simp only [ByteArrayEnc.write, hwa, hwb]; exact writeCodec_ok 4 _ hlen, ?_⟩
    intro rest
    unfold ByteArrayEnc.read
    simp only [List.append_assoc, readItf8'_write _ (isI32_lit 4 (by omega))]
    rw [← List.append_assoc a, readArray_write _ _ hlen]
    have := hrb []
    rw [List.append_nil] at this
    simp [hra b, this]
  | stop sb id =>
    have hl := writeItf8_length id
    have hlen : (sb :: writeItf8 id).length < 2 ^ 31 := by simp only [List.length_cons]; omega
    refine ⟨_, writeCodec_ok 5 _ hlen, ?_⟩
    intro rest
    unfold ByteArrayEnc.read
    simp only [List.append_assoc, readItf8'_write _ (isI32_lit 5 (by omega)), readArray_write _ _ hlen,
        readItf8'_write0 id h]
    simp

/-! ## single-encoding round trips -/

theorem WS.push_ok (s : WS) (id : Int) (bytes : List Nat) (m : Err) (pre : List Nat)
    (h : s.ext id = some pre) :
    ∃ ws', s.push id bytes m = .ok ws' ∧ ws'.ext id = some (pre ++ bytes) := by
  unfold WS.push
  rw [h]
  exact ⟨_, rfl, by simp⟩

theorem external_int_rt (id v : Int) (hv : isI32 v) (ws : WS) (pre : List Nat) (hws : ws.ext id = some pre)
    (rs : RS) (rest : List Nat) :
    ∃ ws', (IntEnc.external id).encode ws v = .ok ws' ∧ ws'.ext id = some (pre ++ writeItf8 v) ∧
      (rs.ext id = some (writeItf8 v ++ rest) → (IntEnc.external id).decode rs = .ok (v, rs.set id rest)) := by
  obtain ⟨ws', h1, h2⟩ := WS.push_ok ws id (writeItf8 v) .invalidData pre hws
  refine ⟨ws', h1, h2, ?_⟩
  intro hr
  simp only [IntEnc.decode, RS.get, hr, readItf8'_write v hv]

theorem external_byte_rt (id : Int) (b : Nat) (ws : WS) (pre : List Nat)
    (hws : ws.ext id = some pre) (rs : RS) (rest : List Nat) :
    ∃ ws', (ByteEnc.external id).encode ws b = .ok ws' ∧ ws'.ext id = some (pre ++ [b]) ∧
      (rs.ext id = some (b :: rest) → (ByteEnc.external id).decode rs = .ok (b, rs.set id rest)) := by
  obtain ⟨ws', h1, h2⟩ := WS.push_ok ws id [b] .invalidData pre hws
  refine ⟨ws', h1, h2, ?_⟩
  intro hr
  simp only [ByteEnc.decode, RS.get, hr]

theorem decodeTake_external (id : Int) (bs : List Nat) (rs : RS) (rest : List Nat)
    (hr : rs.ext id = some (bs ++ rest)) (hne : bs ≠ []) :
    (ByteEnc.external id).decodeTake rs bs.length = .ok (bs, rs.set id rest) := by
  have h0 : ¬ bs.length = 0 := by
    intro h; exact hne (List.eq_nil_of_length_eq_zero h)
  simp only [ByteEnc.decodeTake, h0, ↓reduceIte, RS.get, hr, List.length_append, Nat.le_add_right,
    List.take_left', List.drop_left']

theorem external_bytes_rt (id : Int) (bs : List Nat) (ws : WS) (pre : List Nat)
    (hws : ws.ext id = some pre) (rs : RS) (rest : List Nat) :
    ∃ ws', (ByteEnc.external id).encodeExtend ws bs = .ok ws' ∧ ws'.ext id = some (pre ++ bs) ∧
      (rs.ext id = some (bs ++ rest) → bs ≠ [] →
        (ByteEnc.external id).decodeTake rs bs.length = .ok (bs, rs.set id rest)) ∧
      (bs = [] → (ByteEnc.external id).decodeTake rs bs.length = .ok ([], rs)) := by
  obtain ⟨ws', h1, h2⟩ := WS.push_ok ws id bs .invalidData pre hws
  refine ⟨ws', h1, h2, decodeTake_external id bs rs rest, ?_⟩
  intro h
  subst h
  simp [ByteEnc.decodeTake]

theorem splitStop_append (sb : Nat) (v : List Nat) (hv : sb ∉ v) (rest : List Nat) :
    splitStop sb (v ++ [sb] ++ rest) = some (v, rest) := by
  induction v with
  | nil => simp [splitStop]
  | cons b v ih =>
    have hb : ¬ b = sb := by intro h; exact hv (by simp [h])
    have ih := ih (fun h => hv (by simp [h]))
    simp only [List.cons_append, splitStop, hb, ↓reduceIte]
    simp only [ih]

theorem bytearray_stop_rt (sb : Nat) (id : Int) (v : List Nat) (hv : sb ∉ v) (ws : WS) (pre : List Nat)
    (hws : ws.ext id = some pre) (rs : RS) (rest : List Nat) :
    ∃ ws', (ByteArrayEnc.stop sb id).encode ws v = .ok ws' ∧ ws'.ext id = some (pre ++ v ++ [sb]) ∧
      (rs.ext id = some (v ++ [sb] ++ rest) → (ByteArrayEnc.stop sb id).decode rs = .ok (v, rs.set id rest)) := by
  obtain ⟨ws', h1, h2⟩ := WS.push_ok ws id (v ++ [sb]) .invalidInput pre hws
  refine ⟨ws', h1, by rw [h2, List.append_assoc], ?_⟩
  intro hr
  simp only [ByteArrayEnc.decode, RS.get, hr, splitStop_append sb v hv rest]

theorem encodeEach_external (id : Int) (vs : List Nat) (ws : WS) (pre : List Nat) (hws : ws.ext id = some pre) :
    ∃ ws', (ByteEnc.external id).encodeEach ws vs = .ok ws' ∧ ws'.ext id = some (pre ++ vs) := by
  induction vs generalizing ws pre with
  | nil => exact ⟨ws, rfl, by simpa using hws⟩
  | cons b vs ih =>
    obtain ⟨ws1, h1, h2⟩ := WS.push_ok ws id [b] .invalidData pre hws
    obtain ⟨ws2, h3, h4⟩ := ih ws1 (pre ++ [b]) h2
    refine ⟨ws2, ?_, by simpa using h4⟩
    simp only [ByteEnc.encodeEach, ByteEnc.encode, h1, h3]

theorem bytearray_len_rt (id : Int) (v : List Nat) (hv : v.length < 2 ^ 31) (ws : WS) (pre : List Nat)
    (hws : ws.ext id = some pre) (rs : RS) (rest : List Nat) :
    ∃ ws', (ByteArrayEnc.len (.external id) (.external id)).encode ws v = .ok ws' ∧
      ws'.ext id = some (pre ++ writeItf8 v.length ++ v) ∧
      (rs.ext id = some (writeItf8 v.length ++ v ++ rest) →
        ∃ rs', (ByteArrayEnc.len (.external id) (.external id)).decode rs = .ok (v, rs') ∧
          rs'.ext id = some rest ∧ ∀ j, j ≠ id → rs'.ext j = rs.ext j) := by
  obtain ⟨ws1, h1, h2⟩ := WS.push_ok ws id (writeItf8 v.length) .invalidData pre hws
  obtain ⟨ws2, h3, h4⟩ := encodeEach_external id v ws1 _ h2
  refine ⟨ws2, ?_, h4, ?_⟩
  · simp only [ByteArrayEnc.encode, hv, ↓reduceIte, IntEnc.encode, h1, h3]
  · intro hr
    have hn : ¬ ((v.length : Int) < 0) := by omega
    simp only [ByteArrayEnc.decode, IntEnc.decode, RS.get, hr, List.append_assoc,
      readItf8'_write _ (isI32_ofNat _ hv), hn, ↓reduceIte, Int.toNat_natCast]
    by_cases hnil : v = []
    · subst hnil
      refine ⟨_, by simp [ByteEnc.decodeTake]; rfl, by simp [RS.set], ?_⟩
      intro j hj; simp [RS.set, hj]
    · have hg : (rs.set id (v ++ rest)).ext id = some (v ++ rest) := by simp [RS.set]
      refine ⟨_, decodeTake_external id v _ rest hg hnil, by simp [RS.set], ?_⟩
      intro j hj; simp [RS.set, hj]

end Noodles.Cram.Enc
