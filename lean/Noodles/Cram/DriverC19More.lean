import Noodles.Basic.Wire
import Noodles.Cram.IndexMore
/-! Line-protocol handler for the C19 extension (`c19 span|valid|ap|apdec|qunm …`), reached from
`handleC19` by its fall-through line.

    c19 span  <unmapped 0/1> <start|-> <readLength> <features>   → `span=<n> end=<e|-> cigar=<c> bufend=<e|->` | `panic`
    c19 valid <readLength> <features>                            → `ok` | `err:invalid-data`   (`validate_features`)
    c19 ap    <deltas 0/1> <init|-> <starts>                     → `vals=<ints> starts=<nats>` | err class
    c19 apdec <deltas 0/1> <init|-> <ints>                       → `starts=<nats>` | err class
    c19 qunm  <start> <file> <flagged ids> <own|entries>         → `recs=<ids>`

  features = `-` | item,item,… in the syntax of the C07 driver's `fmtFeature`
  (`b<pos>:<hex>` Bases, `q` Scores, `B<pos>:<base>:<q>` ReadBase, `X<pos>:<code>` Substitution,
  `I<pos>:<hex>` Insertion, `D<pos>:<len>` Deletion, `i<pos>:<base>` InsertBase, `Q<pos>:<q>`
  QualityScore, `N<pos>:<len>` ReferenceSkip, `S<pos>:<hex>` SoftClip, `P<pos>:<len>` Padding,
  `H<pos>:<len>` HardClip); starts: `0` = no alignment start; entries as `fmtEntry` prints them. -/
namespace Noodles.Cram.Index
open Noodles.Wire Noodles.Cram

namespace More

def unhexN (s : String) : Option (List Nat) := (unhex s).map fun b => b.map (·.toNat)

def kindChar : Kind → Char
  | .M => 'M' | .I => 'I' | .D => 'D' | .N => 'N' | .S => 'S' | .H => 'H' | .P => 'P' | .Eq => '=' | .X => 'X'

def fmtCigar (c : Cigar) : String :=
  if c.isEmpty then "*" else String.join (c.map fun op => s!"{op.len}{kindChar op.kind}")

def parseFeature (s : String) : Option Feature :=
  match s.toList with
  | [] => none
  | tag :: rest =>
    match (String.ofList rest).splitOn ":" with
    | [p, a] => do
      let p ← p.toNat?
      match tag with
      | 'b' => pure (.bases p (← unhexN a))
      | 'q' => pure (.scores p (← unhexN a))
      | 'X' => pure (.subst p (← a.toNat?))
      | 'I' => pure (.insertion p (← unhexN a))
      | 'D' => pure (.deletion p (← a.toNat?))
      | 'i' => pure (.insertBase p (← a.toNat?))
      | 'Q' => pure (.qualityScore p (← a.toNat?))
      | 'N' => pure (.refSkip p (← a.toNat?))
      | 'S' => pure (.softClip p (← unhexN a))
      | 'P' => pure (.padding p (← a.toNat?))
      | 'H' => pure (.hardClip p (← a.toNat?))
      | _ => none
    | [p, a, b] =>
      if tag = 'B' then do pure (.readBase (← p.toNat?) (← a.toNat?) (← b.toNat?)) else none
    | _ => none

def parseFeatures (s : String) : Option (List Feature) :=
  if s = "-" then some [] else (s.splitOn ",").mapM parseFeature

def optNat (s : String) : Option (Option Nat) := if s = "-" then some none else s.toNat?.map some

def fmtOpt : Option Nat → String
  | none => "-"
  | some n => toString n

def bool01 (s : String) : Option Bool := if s = "1" then some true else if s = "0" then some false else none

/-- `0` = no alignment start -/
def parseStarts (s : String) : Option (List (Option Nat)) :=
  (nats s).map fun l => l.map posNew

def fmtStarts (l : List (Option Nat)) : String :=
  if l.isEmpty then "-" else ",".intercalate (l.map fun s => toString (s.getD 0))

def parseInts (s : String) : Option (List Int) :=
  if s = "-" then some [] else (s.splitOn ",").mapM (·.toInt?)

def fmtInts (l : List Int) : String := if l.isEmpty then "-" else ",".intercalate (l.map toString)

def fmtErr : ApErr → String
  | .invalidInput => "err:invalid-input"
  | .invalidData => "err:invalid-data"

def parseEntry (s : String) : Option Entry :=
  match s.splitOn ":" with
  | [r, a, b, c, d, e] => do
    let ref ← if r = "-1" then pure none else (r.toNat?).map some
    pure ⟨ref, ← a.toNat?, ← b.toNat?, ← c.toNat?, ← d.toNat?, ← e.toNat?⟩
  | _ => none

def parseEntries (s : String) : Option (List Entry) :=
  if s = "-" then some [] else (s.splitOn ",").mapM parseEntry

/-! the file syntax of `DriverC19.lean` (that file imports this one, so its parsers are repeated) -/

def parseRec (s : String) : Option Rec :=
  match s.splitOn ":" with
  | [i, r, a, b] => do
    let ref ← if r = "-" then pure none else (r.toNat?).map some
    pure ⟨← i.toNat?, ref, ← a.toNat?, ← b.toNat?⟩
  | _ => none

def parseRecs (s : String) : Option (List Rec) :=
  if s = "-" then some [] else (s.splitOn ";").mapM parseRec

def parseSlice (s : String) : Option SliceL :=
  match s.splitOn "=" with
  | [n, rs] => do pure ⟨← n.toNat?, ← parseRecs rs⟩
  | _ => none

def parseContainer (s : String) : Option ContainerL :=
  match s.splitOn "/" with
  | [h, c, ss] => do pure ⟨← h.toNat?, ← c.toNat?, ← (ss.splitOn "+").mapM parseSlice⟩
  | _ => none

def parseFile (start : String) (s : String) : Option FileL := do
  let st ← start.toNat?
  if s = "-" then pure ⟨st, []⟩ else pure ⟨st, ← (s.splitOn "|").mapM parseContainer⟩

def fmtIds (l : List Nat) : String := if l.isEmpty then "-" else ",".intercalate (l.map toString)

end More

open More in
def handleC19More : List String → String
  | ["span", u, start, len, feats] =>
    match bool01 u, optNat start, len.toNat?, parseFeatures feats with
    | some u, some start, some len, some fs =>
      let r : CRec := ⟨u, none, start, len, fs⟩
      if !spanSafe len fs then "panic"
      else s!"span={r.span} end={fmtOpt r.aend} cigar={fmtCigar r.cigar} bufend={fmtOpt (bufEnd start r.cigar)}"
    | _, _, _, _ => "bad-op"
  | ["valid", len, feats] =>
    match len.toNat?, parseFeatures feats with
    | some len, some fs => if featuresValid len fs then "ok" else "err:invalid-data"
    | _, _ => "bad-op"
  | ["ap", d, init, starts] =>
    match bool01 d, optNat init, parseStarts starts with
    | some d, some init, some ss =>
      match apEncode d init ss with
      | .error e => fmtErr e
      | .ok vs =>
        match apDecode d init vs with
        | .error e => fmtErr e
        | .ok back => s!"vals={fmtInts vs} starts={fmtStarts back}"
    | _, _, _ => "bad-op"
  | ["apdec", d, init, vals] =>
    match bool01 d, optNat init, parseInts vals with
    | some d, some init, some vs =>
      match apDecode d init vs with
      | .error e => fmtErr e
      | .ok back => s!"starts={fmtStarts back}"
    | _, _, _ => "bad-op"
  | ["qunm", start, file, flagged, idx] =>
    match parseFile start file, nats flagged, (if idx = "own" then some none else (parseEntries idx).map some) with
    | some f, some fl, some idx =>
      match queryUnmapped f (idx.getD (craiOf f)) (fun r => fl.contains r.id) with
      | some rs => s!"recs={fmtIds (rs.map (·.id))}"
      | none => "err:other"
    | _, _, _ => "bad-op"
  | _ => "bad-op"

end Noodles.Cram.Index
