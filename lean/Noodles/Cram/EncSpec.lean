import Noodles.Cram.RecordCodec
import Noodles.Cram.CompressionHeader
/-!
# Specification-side definitions for the C07 encodings theorems

Nothing here is a transcription: these are the notions the theorems of `Props/C07Enc.lean` are
stated with — the bit string a byte string stands for, the bits a reader has not read yet, runs of
bit writes / reads, the Kraft condition on Huffman code lengths, the parameter ranges of the
encodings, and, for the record codec, which records the writer produces (`WF`) and what of a
record is stored in the series (`stored`).
-/
namespace Noodles.Cram.Enc
open Noodles.Cram (Feature)

/-! ## bits -/

/-- the eight bits of a byte, most significant first -/
def byteBits (b : Nat) : List Bool := codeBits b 8

/-- the bit string of a byte string -/
def bytesBits (bs : List Nat) : List Bool := bs.flatMap byteBits

/-- the bits a reader has not read yet: the unread bits of its current byte, then the source -/
def BitReader.rem (r : BitReader) : List Bool := codeBits r.buf (8 - r.i) ++ bytesBits r.src

/-- the bits a writer has accepted so far -/
def BitWriter.bits (w : BitWriter) : List Bool := bytesBits w.dst ++ (byteBits w.buf).take w.i

/-- a run of `write_u32(value, len)` calls -/
def writeAll : BitWriter → List (Nat × Nat) → Res BitWriter
  | w, [] => .ok w
  | w, (v, len) :: ops =>
    match w.writeU32 v len with
    | .error e => .error e
    | .ok w => writeAll w ops

/-- a run of `read_u32(len)` calls -/
def readAll : BitReader → List Nat → Res (List Nat × BitReader)
  | r, [] => .ok ([], r)
  | r, len :: lens =>
    match r.readU32 len with
    | .error e => .error e
    | .ok (v, r) =>
      match readAll r lens with
      | .error e => .error e
      | .ok (vs, r) => .ok (v :: vs, r)

/-- the reader invariant: the current byte is a byte, the cursor is inside it -/
def BitReader.OK (r : BitReader) : Prop := r.buf < 256 ∧ r.i ≤ 8 ∧ ∀ b ∈ r.src, b < 256

/-- the writer invariant: bytes are bytes, the cursor is inside the current byte, whose unwritten low
bits are still zero -/
def BitWriter.OK (w : BitWriter) : Prop :=
  w.buf < 256 ∧ w.i < 8 ∧ w.buf % 2 ^ (8 - w.i) = 0 ∧ ∀ b ∈ w.dst, b < 256

/-! ## Huffman -/

/-- `Σ 2^(L - len)`: the Kraft sum of the code lengths at scale `2^L` -/
def kraftSum (L : Nat) (lens : List Nat) : Nat := (lens.map fun l => 2 ^ (L - l)).sum

/-- code lengths a canonical Huffman code exists for, within what the decoder's `i32` registers hold:
one length per symbol, distinct symbols, lengths at most `L ≤ 31` (`L` is a parameter), Kraft's inequality, and the
running code never reaches `2^31` (automatic for `L ≤ 30`; for `L = 31` it excludes the complete
codes, on which `code += 1` after the last symbol overflows — a panic under overflow checks) -/
structure HuffOK (alphabet : List Int) (lens : List Nat) (L : Nat) : Prop where
  same : alphabet.length = lens.length
  nodup : alphabet.Nodup
  hL : L ≤ 31
  le : ∀ l ∈ lens, l ≤ L
  kraft : kraftSum L lens ≤ 2 ^ L
  small : kraftSum L lens < 2 ^ 31

/-! ## parameter ranges -/

def isI32 (n : Int) : Prop := -2 ^ 31 ≤ n ∧ n < 2 ^ 31

/-- the parameters fit the types of the Rust enum (`i32` ids and offsets, `u32` lengths that the
header can hold, i.e. below `2^31`) and the argument array's length fits an `i32` -/
def IntEnc.ParamsOK : IntEnc → Prop
  | .external id => isI32 id
  | .golomb a b | .subexp a b | .golombRice a b => isI32 a ∧ isI32 b
  | .huffman alphabet lens =>
    (∀ a ∈ alphabet, isI32 a) ∧ (∀ l ∈ lens, l < 2 ^ 31) ∧ alphabet.length + lens.length < 2 ^ 28
  | .beta offset len => isI32 offset ∧ len < 2 ^ 31
  | .gamma offset => isI32 offset

def ByteEnc.ParamsOK : ByteEnc → Prop
  | .external id => isI32 id
  | .huffman alphabet lens =>
    (∀ a ∈ alphabet, isI32 a) ∧ (∀ l ∈ lens, l < 2 ^ 31) ∧ alphabet.length + lens.length < 2 ^ 27

def ByteArrayEnc.ParamsOK : ByteArrayEnc → Prop
  | .len l v => l.ParamsOK ∧ v.ParamsOK ∧
      (match l with | .huffman a b => a.length + b.length < 2 ^ 27 | _ => True)
  | .stop _ id => isI32 id

/-! ## the compression header -/

def optOK {α : Type} (p : α → Prop) : Option α → Prop
  | none => True
  | some a => p a

/-- every present data series encoding has parameters in range -/
def DSE.ParamsOK (d : DSE) : Prop :=
  optOK IntEnc.ParamsOK d.bf ∧ optOK IntEnc.ParamsOK d.cf ∧ optOK IntEnc.ParamsOK d.ri ∧
  optOK IntEnc.ParamsOK d.rl ∧ optOK IntEnc.ParamsOK d.ap ∧ optOK IntEnc.ParamsOK d.rg ∧
  optOK ByteArrayEnc.ParamsOK d.rn ∧ optOK IntEnc.ParamsOK d.mf ∧ optOK IntEnc.ParamsOK d.ns ∧
  optOK IntEnc.ParamsOK d.np ∧ optOK IntEnc.ParamsOK d.ts ∧ optOK IntEnc.ParamsOK d.nf ∧
  optOK IntEnc.ParamsOK d.tl ∧ optOK IntEnc.ParamsOK d.fn ∧ optOK ByteEnc.ParamsOK d.fc ∧
  optOK IntEnc.ParamsOK d.fp ∧ optOK IntEnc.ParamsOK d.dl ∧ optOK ByteArrayEnc.ParamsOK d.bb ∧
  optOK ByteArrayEnc.ParamsOK d.qq ∧ optOK ByteEnc.ParamsOK d.bs ∧ optOK ByteArrayEnc.ParamsOK d.in_ ∧
  optOK IntEnc.ParamsOK d.rs ∧ optOK IntEnc.ParamsOK d.pd ∧ optOK IntEnc.ParamsOK d.hc ∧
  optOK ByteArrayEnc.ParamsOK d.sc ∧ optOK IntEnc.ParamsOK d.mq ∧ optOK ByteEnc.ParamsOK d.ba ∧
  optOK ByteEnc.ParamsOK d.qs

/-- a compression header the format can carry: the substitution matrix lists, for each of the five
reference bases, the four other bases in some order; tag bytes are not NUL and tag types are BAM
types; encoding parameters are in range; tag encoding ids are `i32`s -/
structure CHdr.OK (h : CHdr) : Prop where
  sm : h.sm.length = 5 ∧ ∀ (i : Nat) (row : List Base), h.sm[i]? = some row → ∃ dflt, readBases[i]? = some dflt ∧ List.Perm row dflt
  td : ∀ keys ∈ h.td, ∀ k ∈ keys, k.t0 ≠ 0 ∧ k.t1 ≠ 0 ∧ validType k.ty = true
  dse : h.dse.ParamsOK
  te : ∀ p ∈ h.te, isI32 p.1 ∧ p.2.ParamsOK

/-! ## the record codec -/

/-- a byte array its encoding can carry: a ByteArrayStop value does not contain the stop byte -/
def ByteArrayEnc.Carries : Option ByteArrayEnc → List Nat → Prop
  | some (.stop sb _), v => sb ∉ v
  | _, _ => True

/-- the byte arrays of a feature fit their series' encodings -/
def featureCarried (ch : CH) : Feature → Prop
  | .bases _ bs => ByteArrayEnc.Carries ch.dse.bb bs
  | .scores _ qs => ByteArrayEnc.Carries ch.dse.qq qs
  | .insertion _ bs => ByteArrayEnc.Carries ch.dse.in_ bs
  | .softClip _ bs => ByteArrayEnc.Carries ch.dse.sc bs
  | _ => True

/-- positions are 1-based and do not decrease -/
def featuresSorted : Nat → List Feature → Prop
  | _, [] => True
  | prev, f :: fs => prev ≤ f.pos ∧ 1 ≤ f.pos ∧ featuresSorted f.pos fs

/-- What `Record::try_from_alignment_record` + `set_mates` hand to `write_record` (and what the types
of `io::writer::Record` enforce), relative to the compression header and the slice's reference
context: flag words within their bit sets; the reference id agrees with a single-reference /
unmapped context; positions are `Position`s (≥ 1); the name is not the missing marker and fits the
name encoding; a record that is not detached has a mate distance exactly when it is flagged as
having a downstream mate; tag values have the shape of their type and fit their tag's encoding; a mapping quality is not the
missing marker; features are sorted, fit their encodings and pass the reader's `validate_features`
(ordered, not overlapping, inside the read: `features_pass_validation` shows that `cigar_to_features`
produces such lists); an unmapped record carries
`read_length` bases; the quality array has `read_length` entries. -/
structure WF (ch : CH) (ctx : RefCtx) (r : CRec) : Prop where
  bam : r.bamFlags < 4096
  cram : r.cramFlags < 16
  ctxSome : ∀ id s e, ctx = .some id s e → r.refId = some id
  ctxNone : ctx = .none → r.refId = none
  start : ∀ p, r.alignmentStart = some p → 1 ≤ p
  mstart : ∀ p, r.mateStart = some p → 1 ≤ p
  name : r.name ≠ some [42]
  nameFits : ByteArrayEnc.Carries ch.dse.rn (r.name.getD [42])
  mateFlags : r.mateFlags < 256
  tlen : isI32 r.templateLength
  link : r.detached = false → r.downstream = r.mateDistance.isSome
  data : ∀ kv ∈ r.data, readValue kv.1.ty kv.2 = .ok kv.2
  dataFits : ∀ kv ∈ r.data, ByteArrayEnc.Carries (ch.tagEnc kv.1.id) kv.2
  mq : ∀ q, r.mappingQuality = some q → q < 255
  sorted : r.unmapped = false → featuresSorted 0 r.features
  carried : r.unmapped = false → ∀ f ∈ r.features, featureCarried ch f
  valid : r.unmapped = false → validateFeatures r.readLength r.features = .ok ()
  seqLen : r.unmapped = true → r.sequence.length = r.readLength
  qsLen : r.qsArray = true → r.qualityScores.length = r.readLength

/-- What of a record the data series hold — the record the reader must return. Everything is kept
except: the reference id of a single-reference / unmapped slice comes from the slice header; the
name is kept when the container preserves names or the record is detached; mate reference, mate
position and template length are kept for detached records only (attached records are re-linked
by `resolve_mates`: this is `Noodles.Cram.Mates.wire`), and the mate flags of a detached record are
OR-ed into its BAM flags; features and mapping quality are kept for mapped records, the bases for
unmapped ones (a mapped record's bases are its features); an all-`0xff` quality array is "missing". -/
def stored (ch : CH) (ctx : RefCtx) (r : CRec) : CRec :=
  let mf := r.mateFlags % 4
  let f := if bitSet mf 0 then orBit r.bamFlags 5 else r.bamFlags
  let f := if bitSet mf 1 then orBit f 3 else f
  { bamFlags := if r.detached then f else r.bamFlags
    cramFlags := r.cramFlags
    refId := match ctx with
      | .some id _ _ => some id
      | .none => none
      | .many => r.refId
    readLength := r.readLength
    alignmentStart := r.alignmentStart
    readGroupId := r.readGroupId
    name := if ch.recordsHaveNames || r.detached then r.name else none
    mateFlags := if r.detached then mf else 0
    mateRefId := if r.detached then r.mateRefId else none
    mateStart := if r.detached then r.mateStart else none
    templateLength := if r.detached then r.templateLength else 0
    mateDistance := if r.detached then none else if r.downstream then r.mateDistance else none
    data := r.data
    features := if r.unmapped then [] else r.features
    mappingQuality := if r.unmapped then none else r.mappingQuality
    sequence := if r.unmapped then r.sequence else []
    qualityScores := if r.qsArray then (if r.qualityScores.all (· == 255) then [] else r.qualityScores) else [] }

/-- a record that is stored verbatim -/
structure Verbatim (ch : CH) (ctx : RefCtx) (r : CRec) : Prop where
  ref : ctx = .many ∨ (∃ id s e, ctx = .some id s e ∧ r.refId = some id) ∨ (ctx = .none ∧ r.refId = none)
  name : ch.recordsHaveNames = true ∨ r.detached = true ∨ r.name = none
  mateFlags : if r.detached then r.mateFlags < 4 ∧ (bitSet r.mateFlags 0 = true → bitSet r.bamFlags 5 = true) ∧
      (bitSet r.mateFlags 1 = true → bitSet r.bamFlags 3 = true) else r.mateFlags = 0
  mate : r.detached = false → r.mateRefId = none ∧ r.mateStart = none ∧ r.templateLength = 0
  dist : r.mateDistance.isSome = true → r.detached = false ∧ r.downstream = true
  mapped : r.unmapped = false → r.sequence = []
  unmapped : r.unmapped = true → r.features = [] ∧ r.mappingQuality = none
  quals : if r.qsArray then (r.qualityScores = [] ∨ ∃ q ∈ r.qualityScores, q ≠ 255) else r.qualityScores = []

end Noodles.Cram.Enc
