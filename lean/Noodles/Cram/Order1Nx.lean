import Noodles.Cram.Order1
/-!
# rANS Nx16 with the ORDER flag, and `rans_nx16::encode` / `decode` for EVERY flag byte

**Encoder** — transcribed from noodles (`noodles-cram/src/codecs/rans_nx16/encode/order_1.rs`,
`encode.rs`): `build_alphabet` (NUL is always a member), `build_frequencies`,
`normalize_frequencies` (every row by the order-0 function, total 4096), `write_context`
(`12 << 4`: 12 bits, table not compressed — noodles never compresses the table), `write_alphabet`
(order-0 model), `write_frequencies` (for every context of the alphabet one value per symbol of the
alphabet, a zero followed by the number of FURTHER zeros), `split_chunks`, the three loops of
`encode` (`Order1.lean`), `write_states`. `encodeA` is `rans_nx16::encode` for every flag byte: the
order-0 model `Nx.encode` with the ORDER branch of the entropy stage filled in.

**Decoder** — the specification's `RansDecodeNx16_1` / `ReadFrequencies1` (`decode/order_1.rs`):
the first byte carries the table's bit count (any of 0..15, not only the 10 and 12 that encoders
use) and the flag "table is itself compressed" (then: uncompressed size, compressed size, an
order-0 Nx16 stream with 4 states); rows that sum to less than `2^bits` are scaled up by a power of
two, and the decoder validates every row (`normalize_frequencies`): the stored frequencies must sum
to 0 or to a power of two that is at most `2^bits`, i.e. to exactly `2^bits` after scaling. With
that no `u32` operation of the decoder can overflow.
`decodeA` is `rans_nx16::decode` for every flag byte: `Nx.decode` with the ORDER branch filled in.
-/
namespace Noodles.Cram.O1
open Noodles.Cram.Num Noodles.Cram.R4

/-- Nx16: renormalisation in 16-bit words (`Nx.renormEnc` returns the bytes in push order, high
byte first; the final buffer is reversed) -/
def kit16 : Kit where
  renE s f := ((Nx.renormEnc 2 s f).1, (Nx.renormEnc 2 s f).2.reverse)
  renD bs x := match Nx.renormDec bs x with
    | .ok r => some r
    | .error _ => none

/-! ## encoder -/

/-- `build_alphabet`: NUL and every symbol of the input -/
def alphabet1 (src : List Nat) : List Bool := (List.range 256).map fun s => s = 0 || src.contains s

/-- the entries of a row at the symbols of the alphabet: `alphabet.iter().zip(fs).filter(|(b, _)| **b)` -/
def sel {α : Type} (A : List Bool) (r : List α) : List α :=
  (A.zip r).filterMap fun p => if p.1 then some p.2 else none

/-- number of leading zeros -/
def leadZ : List Nat → Nat
  | [] => 0
  | f :: r => if f = 0 then leadZ r + 1 else 0

/-- one row of `write_frequencies` over the selected entries: `write_uint7(f)`, and after a zero
the number of zeros that follow it directly, which are then skipped (`u8::try_from(len)` cannot
fail: at most 255 entries follow) -/
def rowRle : List Nat → List Nat
  | [] => []
  | f :: rest =>
    if f = 0 then [0, leadZ rest] ++ rowRle (rest.drop (leadZ rest))
    else (writeUint7 f).getD [] ++ rowRle rest
termination_by l => l.length
decreasing_by
  all_goals simp only [List.length_cons, List.length_drop]
  all_goals omega

/-- `write_frequencies`: the rows of the contexts of the alphabet -/
def writeTable1 (A : List Bool) (F : Table) : List Nat := ((sel A F).map fun r => rowRle (sel A r)).flatten

/-- `order_1::build_context`, `write_context`, `encode` with `n` states -/
def encodeO1 (n : Nat) (src : List Nat) : Except Nx.EncErr (List Nat) :=
  let F := freqTable 4096 n src
  match encLanes kit16 F (cumTable F) Nx.L n src with
  | none => .error .zeroFreq
  | some (st, out) =>
    .ok ([192] ++ Nx.writeAlpha (alphabet1 src) ++ writeTable1 (alphabet1 src) F
      ++ (st.map le4).flatten ++ out)

/-! ## decoder -/

def ok? {ε α : Type} : Except ε α → Option α
  | .ok a => some a
  | .error _ => none

/-- `ReadAlphabet` (the order-0 model's loop) with enough fuel for every input: an iteration
either consumes a byte or belongs to a run, a run has at most 255 iterations and costs two bytes -/
def readAlpha1 : List Nat → Option (List Bool × List Nat)
  | [] => none
  | s :: bs => ok? (Nx.alphaLoop (256 * (bs.length + 2)) (List.replicate 256 false) s 0 bs)

/-- `normalize_frequencies(fs, bits)` of the decoder: the sum (checked `u32` additions) must be at
most `2^bits`; nothing to do for a sum of 0 or `2^bits`; else `shift` = the number of doublings that
bring the sum to at least `2^bits`, which must then be exactly `2^bits`. -/
def shiftTo (bits : Nat) : Nat → Nat → Nat
  | 0, _ => 0
  | fuel + 1, sum => if sum < 2 ^ bits then shiftTo bits fuel (sum * 2) + 1 else 0

def normRow (bits : Nat) (r : List Nat) : Option (List Nat) :=
  if r.sum > 2 ^ bits then none
  else if r.sum = 0 ∨ r.sum = 2 ^ bits then some r
  else if r.sum * 2 ^ shiftTo bits 16 r.sum ≠ 2 ^ bits then none
  else some (r.map (· * 2 ^ shiftTo bits 16 r.sum))

/-- the frequencies of one context: one uint7 per symbol of the alphabet; a 0 is followed by a byte
`z` and the next `z` symbols of the alphabet keep frequency 0 (`z` running past the end of the row
is not an error: `take(n)` just ends) -/
def readRow16 : List Bool → Nat → List Nat → Option (List Nat × List Nat)
  | [], _, bs => some ([], bs)
  | false :: A, z, bs =>
    match readRow16 A z bs with
    | none => none
    | some (r, bs) => some (0 :: r, bs)
  | true :: A, z + 1, bs =>
    match readRow16 A z bs with
    | none => none
    | some (r, bs) => some (0 :: r, bs)
  | true :: A, 0, bs =>
    match ok? (readUint7 bs) with
    | none => none
    | some (f, bs) =>
      if f = 0 then
        match bs with
        | [] => none
        | z :: bs =>
          match readRow16 A z bs with
          | none => none
          | some (r, bs) => some (0 :: r, bs)
      else
        match readRow16 A 0 bs with
        | none => none
        | some (r, bs) => some (f :: r, bs)

/-- the rows of the contexts of the alphabet, each normalised as soon as it is read; the other rows
stay zero. `Ar` is the part of the alphabet whose rows are still to come. -/
def readRows (bits : Nat) (A : List Bool) : List Bool → List Nat → Option (Table × List Nat)
  | [], bs => some ([], bs)
  | false :: Ar, bs =>
    match readRows bits A Ar bs with
    | none => none
    | some (T, bs) => some (List.replicate 256 0 :: T, bs)
  | true :: Ar, bs =>
    match readRow16 A 0 bs with
    | none => none
    | some (r, bs) =>
      match normRow bits r with
      | none => none
      | some r =>
        match readRows bits A Ar bs with
        | none => none
        | some (T, bs) => some (r :: T, bs)

/-- `read_frequencies_inner` -/
def readTableInner (bits : Nat) (bs : List Nat) : Option (Table × List Nat) :=
  match readAlpha1 bs with
  | none => none
  | some (A, bs) => readRows bits A A bs

/-- `order_0::decode` as the decoder of a compressed order-1 table (hostile input like everything
else): alphabet, one uint7 per symbol, `normalize_frequencies(…, 12)` with its validation, states,
symbols round robin (`Nx.decSyms`) -/
def decodeO0v (n len : Nat) (bs : List Nat) : Option (List Nat) :=
  match readAlpha1 bs with
  | none => none
  | some (A, bs) =>
    match ok? (Nx.readFreqs16 A bs) with
    | none => none
    | some (F, bs) =>
      match normRow 12 F with
      | none => none
      | some F =>
        match rdStates n bs with
        | none => none
        | some (st, bs) =>
          match Nx.decSyms F (cums 0 F) n len 0 st bs [] with
          | .error _ => none
          | .ok (out, _, _) => some out

/-- `read_frequencies`: `bits = b >> 4`; bit 0 of `b`: the table is an order-0 Nx16 stream (4
states) preceded by its uncompressed and compressed sizes -/
def readTable1 : List Nat → Option (Nat × Table × List Nat)
  | [] => none
  | b :: bs =>
    if b % 2 = 1 then
      match ok? (readUint7 bs) with
      | none => none
      | some (ulen, bs) =>
        match ok? (readUint7 bs) with
        | none => none
        | some (clen, bs) =>
          if clen ≤ bs.length then
            match decodeO0v 4 ulen (bs.take clen) with
            | none => none
            | some tbl =>
              match readTableInner (b / 16) tbl with
              | none => none
              | some (F, _) => some (b / 16, F, bs.drop clen)
          else none
    else
      match readTableInner (b / 16) bs with
      | none => none
      | some (F, bs) => some (b / 16, F, bs)

/-- `order_1::decode` with `n` states, `len` symbols -/
def decodeO1 (n len : Nat) (bs : List Nat) : Option (List Nat) :=
  match readTable1 bs with
  | none => none
  | some (bits, F, bs) =>
    match rdStates n bs with
    | none => none
    | some (st, bs) => decLanes kit16 bits F (cumTable F) n len st bs

end Noodles.Cram.O1

/-! ## every flag byte -/

namespace Noodles.Cram.Nx
open Noodles.Cram.Num Noodles.Cram.R4 Noodles.Cram.O1

/-- entropy stage of `encode`: raw bytes under CAT, else order 0 or order 1 -/
def stageEntropyA (f : Flags) (src : List Nat) : Except EncErr (Flags × List Nat) :=
  if (forceCat f src).cat then .ok (forceCat f src, src)
  else if (forceCat f src).order then
    match encodeO1 (stateCount (forceCat f src)) src with
    | .error e => .error e
    | .ok e => .ok (forceCat f src, e)
  else
    match encodeO0 (stateCount (forceCat f src)) src with
    | .error e => .error e
    | .ok e => .ok (forceCat f src, e)

/-- `Nx.encodeBody` with the complete entropy stage -/
def encodeBodyA (f : Flags) (src : List Nat) : Except EncErr (Flags × List Nat) :=
  match stagePack f src with
  | .error e => .error e
  | .ok (f1, s1, m1) =>
    match stageRle f1 s1 with
    | .error e => .error e
    | .ok (f2, s2, m2) =>
      match stageEntropyA f2 s2 with
      | .error e => .error e
      | .ok (f3, e) => .ok (f3, m1 ++ m2 ++ e)

/-- `rans_nx16::encode(flags, src)` for every flag byte. The sub-streams of a striped stream are
encoded with `Flags::NO_SIZE` alone, i.e. at order 0 (`Nx.encodeStripe`). -/
def encodeA (f : Flags) (src : List Nat) : Except EncErr (List Nat) :=
  match (if f.nosz then .ok [] else u7 src.length) with
  | .error e => .error e
  | .ok size =>
    if f.stripe then
      match encodeStripe src with
      | .error e => .error e
      | .ok s => .ok ([f.toByte] ++ size ++ s)
    else
      match encodeBodyA f src with
      | .error e => .error e
      | .ok (f', body) => .ok ([f'.toByte] ++ size ++ body)

def decEntropyA (f : Flags) (len : Nat) (bs : List Nat) : Except DecErr (List Nat) :=
  if f.cat then
    match takeN len bs with
    | .error e => .error e
    | .ok (d, _) => .ok d
  else if f.order then
    match decodeO1 (stateCount f) len bs with
    | none => .error .invalidData
    | some d => .ok d
  else decodeO0 (stateCount f) len bs

def decodeBodyA (f : Flags) (ulen : Nat) (bs : List Nat) : Except DecErr (List Nat) :=
  match readPack f ulen bs with
  | .error e => .error e
  | .ok (pm, len1, bs) =>
    match readRle f len1 bs with
    | .error e => .error e
    | .ok (rm, len2, bs) =>
      match decEntropyA f len2 bs with
      | .error e => .error e
      | .ok data =>
        match undoRle rm len1 data with
        | .error e => .error e
        | .ok data => undoPack pm ulen data

def decodePartA (ulenj : Nat) : List Nat → Except DecErr (List Nat)
  | [] => .error .eof
  | b :: body =>
    if (Flags.ofByte b).stripe then .error .nested
    else if (Flags.ofByte b).nosz then decodeBodyA (Flags.ofByte b) ulenj body
    else
      match rdU7 body with
      | .error e => .error e
      | .ok (u, body) => decodeBodyA (Flags.ofByte b) u body

def decodePartsA (ulen x : Nat) : Nat → List Nat → List Nat → Except DecErr (List (List Nat))
  | _, [], _ => .ok []
  | j, c :: cs, bs =>
    match takeN c bs with
    | .error e => .error e
    | .ok (part, bs) =>
      match decodePartA (ulen / x + (if ulen % x > j then 1 else 0)) part with
      | .error e => .error e
      | .ok out =>
        match decodePartsA ulen x (j + 1) cs bs with
        | .error e => .error e
        | .ok rest => .ok (out :: rest)

/-- `RansDecodeNx16(len)` for every flag byte: `Nx.decode` with the complete entropy stage -/
def decodeA (bs : List Nat) (outer : Nat) : Except DecErr (List Nat) :=
  match bs with
  | [] => .error .eof
  | b :: bs =>
    match (if (Flags.ofByte b).nosz then .ok (outer, bs) else rdU7 bs) with
    | .error e => .error e
    | .ok (ulen, bs) =>
      if (Flags.ofByte b).stripe then
        match rdU8 bs with
        | .error e => .error e
        | .ok (x, bs) =>
          if x = 0 then .error .invalidData
          else
            match readSizes x bs with
            | .error e => .error e
            | .ok (sizes, bs) =>
              match decodePartsA ulen x 0 sizes bs with
              | .error e => .error e
              | .ok parts => .ok ((interleave ulen parts).take ulen)
      else decodeBodyA (Flags.ofByte b) ulen bs

end Noodles.Cram.Nx
