import Noodles.Cram.IndexMore
import Noodles.Io.AsyncMore
/-!
# The sync and the async CRAM `Query` / `query_unmapped` as state machines over a seekable source
(model for C19, async extension)

Transcribed from `noodles-cram` (HEAD, after the fixes `207921d` / `67e01c9` / `query-unmapped-no-unplaced`):

* sync: `io/reader/query.rs` (`Query::read_record_buf`, `Query::read_next_container`, `intersects`),
  `io/reader/query/records.rs` (`Records::next`), `io/reader.rs::query_unmapped`,
  `io/reader/records.rs` (`Records::next`, `read_container_records`),
  `io/reader/container.rs::read_container`;
* async: `async/io/reader/query.rs` (`Query::read_record_buf`, `read_next_container`, `Query::records` =
  `stream::try_unfold`), `async/io/reader.rs::query_unmapped` (`stream::iter(records).flatten()
  .try_filter_map(..)`), `async/io/reader/records.rs` (`records`, `read_next_container`),
  `async/io/reader/container.rs::read_container`.

What the two readers do NOT share is how bytes reach them: the sync reader calls `Read::read` /
`Seek::seek` on a source that may deliver short reads and `Interrupted` (a `Src` with its delivery
schedule), the async one awaits tokio futures (`ReadExact`, `ReadToEnd` over `Take`, `Seek`) over an
`AsyncRead + AsyncSeek` that may answer `Pending` and deliver partially (an `ARead` with its poll
schedule).  What they DO share is every line that runs once the bytes of a container are in memory
(`Container::compression_header`, `Container::slices`, `Slice::decode_blocks`, `Slice::records`,
`RecordBuf::try_from_alignment_record` are the same sync functions, called with the same arguments):
that code is the `Codec` parameter below, a deterministic function of the container read.

`read_container` is a `Prog` (`Noodles.IO.Prog.cramReadContainer` of `Io/Binary.lean` for the real
format; the theorems hold for every `Prog`): the sync reader runs it with `Prog.run`, the async
reader with `Prog.runA`.

An OBSERVATION of a query is the list of items its iterator / stream delivers up to and including
the first error (`for r in query.records() { let r = r?; .. }`, `try_next().await?`, `try_collect`).
After an error item the two differ by construction and nobody can tell without ignoring the error:
the async streams are `try_unfold` / `try_filter_map` streams, which end after their first `Err`,
while the sync `Iterator`s would go on with the next index entry / container if polled again.
-/
namespace Noodles.Cram.Index
open Noodles.IO Noodles.IO.Async

/-- one item of the iterator / stream: `Ok(record)` or `Err(e)` -/
inductive Item where
  | record (r : Rec)
  | err (e : Err)
deriving DecidableEq, Repr

/-- the code both readers run on a container that is in memory; `χ` is `Container`
(header + `src`).  `rd` is `read_container` (`none` = `Ok(0)`: the EOF container or a zero length).
`sliceRecs c lm` is `compression_header()?` followed by
`slices().zip(landmarks).filter(landmark == lm).map(decode).collect::<Result<_>>()?` flattened;
`allRecs c` the same without the filter (`Records`). -/
structure Codec (χ : Type) where
  rd : Prog (Option χ)
  sliceRecs : χ → Nat → Except Err (List Rec)
  allRecs : χ → Except Err (List Rec)

/-- what `read_next_container` returns: `None`, `Some(Err(e))`, `Some(Ok(()))` with the new
contents of `self.records` -/
inductive Step where
  | stop
  | fail (e : Err)
  | recs (rs : List Rec)
deriving Repr

variable {χ σ : Type}

/-! ## sync -/

/-- `Seek::seek(SeekFrom::Start(off))` on a source over `bytes`: the delivery schedule goes on -/
def seekS (bytes : Bytes) (s : Src UInt8) (off : Nat) : Src UInt8 := ⟨bytes.drop off, s.sched⟩

/-- `Query::read_next_container` after `self.index.next()` returned `en` (`io/reader/query.rs`) -/
def syncNextContainer (C : Codec χ) (sz : Nat → List Nat) (bytes : Bytes) (k : Nat) (en : Entry)
    (s : Src UInt8) : Step × Src UInt8 :=
  if en.ref ≠ some k then (.recs [], s)                       -- `return Some(Ok(()))`
  else
    let r := Prog.run sz C.rd (seekS bytes s en.offset)       -- `seek`, `read_container`
    match r.1 with
    | .error e => (.fail e, r.2)
    | .ok none => (.stop, r.2)                                -- `Ok(0) => return None`
    | .ok (some c) =>
      match C.sliceRecs c en.landmark with
      | .error e => (.fail e, r.2)
      | .ok rs => (.recs rs, r.2)

/-- `Query::records()` drained up to the first error: `read_record_buf` takes records from
`self.records`, keeps those that `intersects`, and calls `read_next_container` when it is empty -/
def syncQueryGo (C : Codec χ) (sz : Nat → List Nat) (bytes : Bytes) (k qs qe : Nat) :
    List Entry → Src UInt8 → List Item × Src UInt8
  | [], s => ([], s)                                          -- `self.index.next()?`
  | en :: rest, s =>
    match syncNextContainer C sz bytes k en s with
    | (.stop, s') => ([], s')
    | (.fail e, s') => ([.err e], s')
    | (.recs rs, s') =>
      let t := syncQueryGo C sz bytes k qs qe rest s'
      ((rs.filter (keep k qs qe)).map .record ++ t.1, t.2)

/-- `reader.query(header, index, region)?.records()` (the reference name is resolved: `k`) -/
def syncQuery (C : Codec χ) (sz : Nat → List Nat) (bytes : Bytes) (idx : List Entry) (k qs qe : Nat)
    (s : Src UInt8) : List Item :=
  (syncQueryGo C sz bytes k qs qe idx s).1

/-- `Records::next` of `io/reader/records.rs` drained up to the first error, with the
`filter_map` of `query_unmapped`.  `fuel` bounds the number of containers (a `read_container` that
consumes nothing would loop forever; running out is reported as `Err.fuel`, never silently). -/
def syncRecordsGo (C : Codec χ) (sz : Nat → List Nat) (flag : Rec → Bool) :
    Nat → Src UInt8 → List Item × Src UInt8
  | 0, s => ([.err .fuel], s)
  | fuel + 1, s =>
    let r := Prog.run sz C.rd s
    match r.1 with
    | .error e => ([.err e], r.2)
    | .ok none => ([], r.2)                                   -- `Ok(true) => return None`
    | .ok (some c) =>
      match C.allRecs c with
      | .error e => ([.err e], r.2)
      | .ok rs =>
        let t := syncRecordsGo C sz flag fuel r.2
        ((rs.filter flag).map .record ++ t.1, t.2)

/-- `Reader::query_unmapped(header, index)` drained up to the first error -/
def syncQueryUnmapped (C : Codec χ) (sz : Nat → List Nat) (bytes : Bytes) (idx : List Entry)
    (flag : Rec → Bool) (fuel : Nat) (s : Src UInt8) : List Item :=
  match unmappedOffset idx with
  | none => []                                                -- `None => None`, nothing to read
  | some off => (syncRecordsGo C sz flag fuel (seekS bytes s off)).1

/-! ## async

`A` is the `AsyncRead` (poll function + ghost fields), `ask` the size of the buffer `ReadToEnd`
offers at each poll, `seekA s off` the state after `reader.seek(SeekFrom::Start(off)).await`
(tokio `Seek`: `start_seek`, then `poll_complete` until `Ready`). -/

/-- `read_next_container` of `async/io/reader/query.rs` after `ctx.index.next()` returned `en` -/
def asyncNextContainer (C : Codec χ) (A : ARead σ UInt8) (ask : Nat × σ → Nat) (seekA : σ → Nat → σ)
    (k : Nat) (en : Entry) (s : σ) : Step × σ :=
  if en.ref ≠ some k then (.recs [], s)
  else
    let r := C.rd.runA A ask (seekA s en.offset)
    match r.1 with
    | .error e => (.fail e, r.2)
    | .ok none => (.stop, r.2)
    | .ok (some c) =>
      match C.sliceRecs c en.landmark with
      | .error e => (.fail e, r.2)
      | .ok rs => (.recs rs, r.2)

/-- `Query::records()` (`try_unfold` over `read_record_buf`) drained: the stream ends after `Ok(None)`
and after its first `Err` -/
def asyncQueryGo (C : Codec χ) (A : ARead σ UInt8) (ask : Nat × σ → Nat) (seekA : σ → Nat → σ)
    (k qs qe : Nat) : List Entry → σ → List Item × σ
  | [], s => ([], s)
  | en :: rest, s =>
    match asyncNextContainer C A ask seekA k en s with
    | (.stop, s') => ([], s')
    | (.fail e, s') => ([.err e], s')
    | (.recs rs, s') =>
      let t := asyncQueryGo C A ask seekA k qs qe rest s'
      ((rs.filter (keep k qs qe)).map .record ++ t.1, t.2)

def asyncQuery (C : Codec χ) (A : ARead σ UInt8) (ask : Nat × σ → Nat) (seekA : σ → Nat → σ)
    (idx : List Entry) (k qs qe : Nat) (s : σ) : List Item :=
  (asyncQueryGo C A ask seekA k qs qe idx s).1

/-- `records` of `async/io/reader/records.rs` (`try_unfold`) under the `try_filter_map` of
`query_unmapped`, drained -/
def asyncRecordsGo (C : Codec χ) (A : ARead σ UInt8) (ask : Nat × σ → Nat) (flag : Rec → Bool) :
    Nat → σ → List Item × σ
  | 0, s => ([.err .fuel], s)
  | fuel + 1, s =>
    let r := C.rd.runA A ask s
    match r.1 with
    | .error e => ([.err e], r.2)
    | .ok none => ([], r.2)
    | .ok (some c) =>
      match C.allRecs c with
      | .error e => ([.err e], r.2)
      | .ok rs =>
        let t := asyncRecordsGo C A ask flag fuel r.2
        ((rs.filter flag).map .record ++ t.1, t.2)

/-- `Reader::query_unmapped(header, index).await?` drained -/
def asyncQueryUnmapped (C : Codec χ) (A : ARead σ UInt8) (ask : Nat × σ → Nat) (seekA : σ → Nat → σ)
    (idx : List Entry) (flag : Rec → Bool) (fuel : Nat) (s : σ) : List Item :=
  match unmappedOffset idx with
  | none => []
  | some off => (asyncRecordsGo C A ask flag fuel (seekA s off)).1

/-! ## the abstract file of `IndexModel` behind a `Codec` -/

/-- what a reader positioned at `off` finds, in terms of the layout `f`: a data container, the EOF
container (it starts where the last data container ends), or something else (the middle of a
container, the end of the stream) -/
inductive Look where
  | container (c : ContainerL)
  | eof
  | other
deriving Repr

def eofOffset (f : FileL) : Nat := f.start + lenSum f.cs

def lookAt (f : FileL) (off : Nat) : Look :=
  match containerAt f.start f.cs off with
  | some c => .container c
  | none => if off = eofOffset f then .eof else .other

/-- the items a successful query delivers -/
def okItems (rs : List Rec) : List Item := rs.map .record

/-- `bytes`, read through `C`, hold the layout `f` at every offset the index entries of reference `k`
name: a data container there is read completely and decodes to its slices. -/
def HoldsAt (C : Codec χ) (bytes : Bytes) (f : FileL) (k : Nat) (idx : List Entry) : Prop :=
  ∀ en ∈ idx, en.ref = some k → ∀ c, containerAt f.start f.cs en.offset = some c →
    ∃ x, (Prog.runPure C.rd (bytes.drop en.offset)).1 = .ok (some x) ∧
      C.sliceRecs x en.landmark = .ok (sliceAt c en.landmark)

/-! ## an executable instance: the layout `f` laid out in bytes (used by the driver and for the
non-vacuity examples)

Container `i` occupies exactly `hdrLen + bodyLen` bytes at its true offset; its first six bytes are
`1, i, hdrLen, bodyLen` (little endian, 1 + 2 + 1 + 2 bytes); the EOF container is `0` followed by 37
filler bytes, of which the first 22 complete its header (the real EOF container is a 23-byte header
and a 15-byte block that `read_container` never reads).  `toyRd` has the shape of `read_container`: a header read with `read_exact`s, `Ok(0)`
for the EOF container, then `take(len).read_to_end` with the `UnexpectedEof` check. -/

def le2 (n : Nat) : Bytes := [UInt8.ofNat (n % 256), UInt8.ofNat (n / 256 % 256)]

def toyContainer (i : Nat) (c : ContainerL) : Bytes :=
  ([1] ++ le2 i ++ [UInt8.ofNat c.hdrLen] ++ le2 c.bodyLen ++ List.replicate (c.hdrLen - 6) 0xcc) ++
    List.replicate c.bodyLen 0xdd

def toyContainers : Nat → List ContainerL → Bytes
  | _, [] => []
  | i, c :: cs => toyContainer i c ++ toyContainers (i + 1) cs

def toyBytes (f : FileL) : Bytes :=
  List.replicate f.start 0xee ++ toyContainers 0 f.cs ++ (0 :: List.replicate 37 0xff)

def un2 (b : Bytes) : Nat := (b.getD 0 0).toNat + 256 * (b.getD 1 0).toNat

/-- the toy `read_container`; the value is the container's number -/
def toyRd : Prog (Option Nat) :=
  .exact 1 fun
    | .error e => .fail e
    | .ok t =>
      if t = [0] then .exact 22 fun
        | .error e => .fail e
        | .ok _ => .ret none
      else if t ≠ [1] then .fail .invalidData
      else .exact 5 fun
        | .error e => .fail e
        | .ok h =>
          .exact ((h.getD 2 0).toNat - 6) fun
            | .error e => .fail e
            | .ok _ =>
              .upTo (un2 (h.drop 3)) fun src =>
                if src.length < un2 (h.drop 3) then .fail .eof else .ret (some (un2 h))

/-- the `Codec` of the layout `f`: container `i` decodes to the slices of `f.cs[i]` -/
def toyCodec (f : FileL) : Codec Nat where
  rd := toyRd
  sliceRecs := fun i lm => match f.cs[i]? with
    | some c => .ok (sliceAt c lm)
    | none => .error .invalidData
  allRecs := fun i => match f.cs[i]? with
    | some c => .ok c.recs
    | none => .error .invalidData

/-- `AsyncSchedReader::start_seek` of the harness (`poll_complete` is `Ready` at once) -/
def seekScripted (bytes : Bytes) (s : ASrc UInt8) (off : Nat) : ASrc UInt8 :=
  { s with data := bytes.drop off }

end Noodles.Cram.Index
