import Noodles.Cram.SamConv
import Noodles.Cram.EncSpec
import Noodles.Cram.MatesProof
/-!
# Specification-side definitions for the SAM ⇄ CRAM slice theorem (`Props/C07Sam.lean`)

Nothing here is a transcription: which SAM records the theorem speaks about (`SamWF`, `SliceWF`) and
the normal form a record comes back in (`expected`).
-/
namespace Noodles.Cram.Sam
open Noodles.Cram Noodles.Cram.Enc Noodles.Cram.Mates

/-- a read the SAM data model allows over the supplied reference: the alignment lies inside the
reference, the CIGAR consumes exactly the read's bases, no operation is empty -/
structure ConsistentRead (ref : List Nat) (start : Nat) (c : Cigar) (seq : List Nat) : Prop where
  start_pos : 1 ≤ start
  inside : start - 1 + refLen c ≤ ref.length
  read_len : readLen c = seq.length
  ops_pos : ∀ op ∈ c, 0 < op.len

/-- One SAM record the CRAM writer can carry, relative to the reference repository, the compression
header (its encodings must be able to carry the byte arrays: a `ByteArrayStop` series cannot carry its
stop byte) and the substitution matrix.

* flags are 12 bits; positions are `Position`s (≥ 1); TLEN is an `i32`; MAPQ is not the missing marker;
* the name is not the missing marker `*` and fits the name encoding;
* tag values have the shape of their BAM type and fit their tag's encoding;
* qualities are missing, or one per base and not all `0xff` (SAM qualities are ≤ 93);
* a mapped record (flag 0x4 clear) has a reference the repository knows and a position, and is a
  `ConsistentRead` over it (this includes a mapped record without bases: then the CIGAR consumes none);
* an unmapped record (flag 0x4 set) has no CIGAR and no mapping quality (the reader returns neither);
* the bases fit the encodings of the insertion and soft clip series (a `ByteArrayStop` series cannot
  carry its stop byte: NUL in the writer's default header). -/
structure SamWF (refs : Refs) (ch : CH) (m : Matrix) (r : SamRec) : Prop where
  flags : r.flags < 4096
  pos1 : ∀ p, r.pos = some p → 1 ≤ p
  mpos1 : ∀ p, r.mpos = some p → 1 ≤ p
  name : r.name ≠ some [42]
  nameFits : ByteArrayEnc.Carries ch.dse.rn (r.name.getD [42])
  tlen : isI32 r.tlen
  mapq : ∀ q, r.mapq = some q → q < 255
  tags : ∀ kv ∈ r.tags, readValue kv.1.ty kv.2 = .ok kv.2 ∧ ByteArrayEnc.Carries (ch.tagEnc kv.1.id) kv.2
  quals : r.quals = [] ∨ (r.quals.length = r.seq.length ∧ ∃ q ∈ r.quals, q ≠ 255)
  mapped : isUnmapped r.flags = false →
    ∃ id start ref, r.rid = some id ∧ r.pos = some start ∧ refs id = some ref ∧ ConsistentRead ref start r.cigar r.seq
  unmapped : isUnmapped r.flags = true → r.cigar = [] ∧ r.mapq = none
  seqFits : ∀ sb id, (ch.dse.in_ = some (.stop sb id) ∨ ch.dse.sc = some (.stop sb id)) → sb ∉ r.seq

instance : (e : Option ByteArrayEnc) → (v : List Nat) → Decidable (ByteArrayEnc.Carries e v)
  | some (.stop sb _), v => inferInstanceAs (Decidable (sb ∉ v))
  | some (.len ..), _ => isTrue trivial
  | none, _ => isTrue trivial

instance (ch : CH) : (f : Feature) → Decidable (featureCarried ch f)
  | .bases _ bs => inferInstanceAs (Decidable (ByteArrayEnc.Carries ch.dse.bb bs))
  | .scores _ qs => inferInstanceAs (Decidable (ByteArrayEnc.Carries ch.dse.qq qs))
  | .insertion _ bs => inferInstanceAs (Decidable (ByteArrayEnc.Carries ch.dse.in_ bs))
  | .softClip _ bs => inferInstanceAs (Decidable (ByteArrayEnc.Carries ch.dse.sc bs))
  | .readBase .. | .subst .. | .deletion .. | .insertBase .. | .qualityScore .. | .refSkip .. | .padding ..
  | .hardClip .. => isTrue trivial

/-- the view of a SAM record the mate rules are stated on: flags, name (as an identifier), reference,
position, mate fields, TLEN, and `span` = `calculate_alignment_span` of the record's features (the
number of reference bases its CIGAR consumes) -/
def mateView (refs : Refs) (m : Matrix) (r : SamRec) : Mates.Rec := toM (cramOf refs m r)

/-- mate information consistent in the sense of the SAM specification (the hypothesis of
`Noodles.Props.C07.mates_roundtrip`, without the part that holds by construction): at most two mapped
primary segments per read name in the slice; the two segments of such a pair name each other
(RNEXT/PNEXT), carry each other's strand bit, consume reference bases, and have TLEN per §1.4.9 (0
across references). Every other record (unpaired, unmapped, secondary, supplementary, mate in another
slice) is arbitrary. -/
structure MateOK (vs : List Mates.Rec) : Prop where
  pairs : PairsOnly vs
  mates : ∀ (i j : Nat) (a b : Mates.Rec), i < j → vs[i]? = some a → vs[j]? = some b →
    attachable a = true → attachable b = true → a.name = b.name →
    1 ≤ a.span ∧ 1 ≤ b.span ∧ a.mrid = b.rid ∧ a.mpos = b.pos ∧ b.mrid = a.rid ∧ b.mpos = a.pos ∧
    (isReverse b.flags = true → isMateReverse a.flags = true) ∧
    (isReverse a.flags = true → isMateReverse b.flags = true) ∧
    a.tlen = samTlen a b ∧ b.tlen = -a.tlen

/-- the same view stated on the SAM record alone: `span` is the number of reference bases the CIGAR
consumes (for an unmapped record, which no mate rule looks at, `calculate_alignment_span` gives the
read length). `mateView = samView` on `SamWF` records (`mateView_eq_samView`). -/
def samView (r : SamRec) : Mates.Rec :=
  { flags := r.flags, name := r.name.map nameCode, rid := r.rid, pos := r.pos,
    span := if isUnmapped r.flags then r.seq.length else refLen r.cigar,
    mrid := r.mrid, mpos := r.mpos, tlen := r.tlen, detached := false, downstream := false, mateDist := none }

/-- **the well-formedness predicate of `sam_slice_roundtrip`**: every record is `SamWF`, and the mate
information of the slice is SAM-consistent (`MateOK`) -/
structure SamSliceWF (refs : Refs) (ch : CH) (m : Matrix) (rs : List SamRec) : Prop where
  recs : ∀ r ∈ rs, SamWF refs ch m r
  mates : MateOK (rs.map samView)

/-- the same with the mate rules stated on the writer's view (used inside the proofs) -/
structure SliceWF (refs : Refs) (ch : CH) (m : Matrix) (rs : List SamRec) : Prop where
  recs : ∀ r ∈ rs, SamWF refs ch m r
  mates : MateOK (rs.map (mateView refs m))

/-- The reader's range validation (`Record::validate_sequence`, a pure check added to
`Slice::records`) accepts the records the series hold for this slice (proved for every `SamWF` slice
in `SamValidateProof.lean`: `validation_accepts`). -/
def ValidationAccepts (ch : CH) (refs : Refs) (m : Matrix) (ctx : RefCtx) (rs : List SamRec) : Prop :=
  ∃ rfs, attachRefs refs ctx ((setMatesC (rs.map (cramOf refs m))).map (stored ch ctx)) = .ok rfs

/-- the first record of the linked pair whose second record is `p` (`Mates.md`: the distance `set_mates`
gives a record to the next mapped primary segment of the same name) -/
def pairFirst (vs : List Mates.Rec) (p : Nat) : Option Nat :=
  (List.range p).find? fun i => (md vs i).map (fun d => i + d + 1) == some p

/-- **the name rule.** With preserved names: the record's own name (a missing name stays missing).
Without: both records of a linked pair get the decimal record number (slice record counter + index)
of the pair's first record; every other record keeps its name, a missing one becomes the record's own
record number. -/
def expectedName (pn : Bool) (counter : Nat) (vs : List Mates.Rec) (p : Nat) (name : Option (List Nat)) :
    Option (List Nat) :=
  if pn then name else
  match pairFirst vs p with
  | some i => some (idName (counter + i))
  | none =>
    if (md vs p).isSome then some (idName (counter + p)) else
    match name with
    | some n => some n
    | none => some (idName (counter + p))

/-- How a record `r` comes back as `r'`: field for field, with two normal forms — the CIGAR has `=`/`X`
as `M` and adjacent operations merged (`normCigar`), the bases of a mapped record are equal up to ASCII
case (exactly equal for an unmapped record) — and the name `ename` the name rule gives. -/
structure Back (ename : Option (List Nat)) (r r' : SamRec) : Prop where
  flags : r'.flags = r.flags
  rid : r'.rid = r.rid
  pos : r'.pos = r.pos
  mapq : r'.mapq = r.mapq
  cigar : r'.cigar = normCigar r.cigar
  mrid : r'.mrid = r.mrid
  mpos : r'.mpos = r.mpos
  tlen : r'.tlen = r.tlen
  seq : r'.seq.map upper = r.seq.map upper
  seqExact : isUnmapped r.flags = true → r'.seq = r.seq
  quals : r'.quals = r.quals
  rg : r'.rg = r.rg
  tags : r'.tags = r.tags
  name : r'.name = ename

end Noodles.Cram.Sam
