import Noodles.Basic.Wire
import Noodles.Cram.EncSpec
/-! Line-protocol handler for the C07 encodings extension: bit I/O, data-series encodings, the
compression header and the record codec (`c07 bitw|bitr|encparse|encdec|encenc|chparse|chwrite|recw|recr|refctx …`). -/
namespace Noodles.Cram.DrvEnc
open Noodles.Wire Noodles.Cram Noodles.Cram.Enc

def hexN (l : List Nat) : String := hex (l.map UInt8.ofNat)
def unhexN (s : String) : Option (List Nat) := (unhex s).map fun b => b.map (·.toNat)

def errStr : Err → String
  | .eof => "err:eof"
  | .invalidData => "err:invalid-data"
  | .invalidInput => "err:invalid-input"
  | .panic => "panic"

def listOf (s : String) (sep : String) : List String := if s = "-" then [] else s.splitOn sep

/-! ## bits -/

def parseBitW (s : String) : Option (List (Nat × Nat)) :=
  (listOf s ",").mapM fun p => match p.splitOn ":" with
    | [a, b] => do pure ((← a.toNat?), (← b.toNat?))
    | _ => none

def runBitW (ops : List (Nat × Nat)) : String :=
  match writeAll {} ops with
  | .error e => errStr e
  | .ok w => match w.finish with
    | .error e => errStr e
    | .ok bs => hexN bs

/-- `b` = `read_bit`, a number = `read_i32(len)`; the run continues after an error -/
def runBitR : BitReader → List String → List String
  | _, [] => []
  | r, op :: ops =>
    let res : Option (Res (Nat × BitReader)) :=
      if op = "b" then some r.readBit else op.toNat?.map fun len => r.readU32 len
    match res with
    | none => ["bad-op"]
    | some (.ok (v, r')) => toString v :: runBitR r' ops
    | some (.error e) => errStr e :: runBitR (r.afterError e) ops

/-! ## encodings -/

def intList (l : List Int) : String := "[" ++ ", ".intercalate (l.map toString) ++ "]"
def natList (l : List Nat) : String := "[" ++ ", ".intercalate (l.map toString) ++ "]"

/-- `{:?}` of `Integer` -/
def dbgInt : IntEnc → String
  | .external id => s!"External \{ block_content_id: {id} }"
  | .golomb o m => s!"Golomb \{ offset: {o}, m: {m} }"
  | .huffman a l => s!"Huffman \{ alphabet: {intList a}, bit_lens: {natList l} }"
  | .beta o l => s!"Beta \{ offset: {o}, len: {l} }"
  | .subexp o k => s!"Subexp \{ offset: {o}, k: {k} }"
  | .golombRice o k => s!"GolombRice \{ offset: {o}, log2_m: {k} }"
  | .gamma o => s!"Gamma \{ offset: {o} }"

def dbgByte : ByteEnc → String
  | .external id => s!"External \{ block_content_id: {id} }"
  | .huffman a l => s!"Huffman \{ alphabet: {intList a}, bit_lens: {natList l} }"

def dbgBytes : ByteArrayEnc → String
  | .len l v => s!"ByteArrayLength \{ len_encoding: Encoding({dbgInt l}), value_encoding: Encoding({dbgByte v}) }"
  | .stop sb id => s!"ByteArrayStop \{ stop_byte: {sb}, block_content_id: {id} }"

inductive AnyEnc
  | int (e : IntEnc)
  | byte (e : ByteEnc)
  | bytes (e : ByteArrayEnc)

def AnyEnc.read (kind : String) (src : List Nat) : Option (Res (AnyEnc × List Nat)) :=
  let lift {α : Type} (f : α → AnyEnc) (r : Res (α × List Nat)) : Res (AnyEnc × List Nat) :=
    match r with
    | .ok (e, rest) => .ok (f e, rest)
    | .error e => .error e
  if kind = "i" then some (lift .int (IntEnc.read src))
  else if kind = "b" then some (lift .byte (ByteEnc.read src))
  else if kind = "a" then some (lift .bytes (ByteArrayEnc.read src))
  else none

def AnyEnc.dbg : AnyEnc → String
  | .int e => s!"Integer(Encoding({dbgInt e}))"
  | .byte e => s!"Byte(Encoding({dbgByte e}))"
  | .bytes e => s!"ByteArray(Encoding({dbgBytes e}))"

def AnyEnc.write : AnyEnc → Res (List Nat)
  | .int e => e.write
  | .byte e => e.write
  | .bytes e => e.write

def resHex : Res (List Nat) → String
  | .ok bs => hexN bs
  | .error e => errStr e

/-- `i.<hex>;b.<hex>;a.<hex>` -/
def parseEncs (s : String) : Option (List AnyEnc) :=
  (listOf s ";").mapM fun item => match item.splitOn "." with
    | [k, h] => do
      let src ← unhexN h
      match ← AnyEnc.read k src with
      | .ok (e, _) => some e
      | .error _ => none
    | _ => none

/-- `id=hex;id=hex`: `ExternalDataReaders::insert` in order (a later block with the same id wins) -/
def parseExt (s : String) : Option (List (Int × List Nat)) :=
  (listOf s ";").mapM fun item => match item.splitOn "=" with
    | [i, h] => do pure ((← i.toInt?), (← unhexN h))
    | _ => none

def extFn (l : List (Int × List Nat)) : Int → Option (List Nat) :=
  fun id => (l.reverse.find? (·.1 == id)).map (·.2)

def sortedIds (l : List Int) : List Int := (isort (fun a b => decide (a ≤ b)) l).eraseDups

inductive Val
  | int (n : Int)
  | byte (b : Nat)
  | bytes (bs : List Nat)

def Val.fmt : Val → String
  | .int n => s!"i{n}"
  | .byte b => s!"b{b}"
  | .bytes bs => s!"x{hexN bs}"

def decodeOne (e : AnyEnc) (take : Option Nat) (s : RS) : Res (Val × RS) :=
  match e, take with
  | .int e, _ => match e.decode s with
    | .ok (v, s) => .ok (.int v, s)
    | .error e => .error e
  | .byte e, none => match e.decode s with
    | .ok (v, s) => .ok (.byte v, s)
    | .error e => .error e
  | .byte e, some n => match e.decodeTake s n with
    | .ok (v, s) => .ok (.bytes v, s)
    | .error e => .error e
  | .bytes e, _ => match e.decode s with
    | .ok (v, s) => .ok (.bytes v, s)
    | .error e => .error e

/-- decoding stops after the first error; the state at that point is what the rest lengths are taken
from (a failed decode may have consumed input in the real code; the harness reports rest lengths only
for error-free runs) -/
def runDecode (encs : List AnyEnc) : RS → List String → List String × Option RS
  | s, [] => ([], some s)
  | s, op :: ops =>
    let parsed : Option (Nat × Option Nat) := match op.splitOn "/" with
      | [i] => i.toNat?.map fun i => (i, none)
      | [i, t] => do pure ((← i.toNat?), some (← t.toNat?))
      | _ => none
    match parsed with
    | none => (["bad-op"], none)
    | some (i, take) =>
      match encs[i]? with
      | none => (["bad-op"], none)
      | some e =>
        match decodeOne e take s with
        | .error err => ([errStr err], none)
        | .ok (v, s) =>
          let (rest, fin) := runDecode encs s ops
          (v.fmt :: rest, fin)

def parseVal (s : String) : Option Val :=
  if s.startsWith "i" then (s.drop 1).toString.toInt?.map .int
  else if s.startsWith "b" then (s.drop 1).toString.toNat?.map .byte
  else if s.startsWith "x" then (unhexN (s.drop 1).toString).map .bytes
  else none

def encodeOne (e : AnyEnc) (v : Val) (s : WS) : Option (Res WS) :=
  match e, v with
  | .int e, .int n => some (e.encode s n)
  | .byte e, .byte b => some (e.encode s b)
  | .byte e, .bytes bs => some (e.encodeExtend s bs)
  | .bytes e, .bytes bs => some (e.encode s bs)
  | _, _ => none

def runEncode (encs : List AnyEnc) : WS → List String → Option (Res WS)
  | s, [] => some (.ok s)
  | s, op :: ops =>
    match op.splitOn ":" with
    | [i, v] =>
      match i.toNat?, parseVal v with
      | some i, some v =>
        match encs[i]? with
        | none => none
        | some e =>
          match encodeOne e v s with
          | none => none
          | some (.error err) => some (.error err)
          | some (.ok s) => runEncode encs s ops
      | _, _ => none
    | _ => none

def fmtStreams (ids : List Int) (ext : Int → Option (List Nat)) : String :=
  if ids.isEmpty then "-" else ";".intercalate (ids.map fun id => s!"{id}={hexN ((ext id).getD [])}")

def wsOf (ids : List Int) : WS := ⟨{}, fun id => if id ∈ ids then some [] else none⟩

/-! ## compression header -/

def baseChar : Base → Char
  | .A => 'A' | .C => 'C' | .G => 'G' | .T => 'T' | .N => 'N'

def hex2 (n : Nat) : String := String.ofList [hexNibble (n / 16 % 16), hexNibble (n % 16)]

def fmtKey (k : Key) : String := hex2 k.t0 ++ hex2 k.t1 ++ hex2 k.ty

def fmtTagSets (sets : List (List Key)) : String :=
  if sets.isEmpty then "~" else
  "/".intercalate (sets.map fun ks => if ks.isEmpty then "-" else ".".intercalate (ks.map fmtKey))

def optDbg {α : Type} (f : α → String) : Option α → String
  | none => "None"
  | some a => s!"Some(Encoding({f a}))"

/-- `{:?}` of `DataSeriesEncodings` -/
def dbgDSE (d : DSE) : String :=
  "DataSeriesEncodings { " ++ ", ".intercalate [
    s!"bam_flags: {optDbg dbgInt d.bf}", s!"cram_flags: {optDbg dbgInt d.cf}",
    s!"reference_sequence_ids: {optDbg dbgInt d.ri}", s!"read_lengths: {optDbg dbgInt d.rl}",
    s!"alignment_starts: {optDbg dbgInt d.ap}", s!"read_group_ids: {optDbg dbgInt d.rg}",
    s!"names: {optDbg dbgBytes d.rn}", s!"mate_flags: {optDbg dbgInt d.mf}",
    s!"mate_reference_sequence_ids: {optDbg dbgInt d.ns}", s!"mate_alignment_starts: {optDbg dbgInt d.np}",
    s!"template_lengths: {optDbg dbgInt d.ts}", s!"mate_distances: {optDbg dbgInt d.nf}",
    s!"tag_set_ids: {optDbg dbgInt d.tl}", s!"feature_counts: {optDbg dbgInt d.fn}",
    s!"feature_codes: {optDbg dbgByte d.fc}", s!"feature_position_deltas: {optDbg dbgInt d.fp}",
    s!"deletion_lengths: {optDbg dbgInt d.dl}", s!"stretches_of_bases: {optDbg dbgBytes d.bb}",
    s!"stretches_of_quality_scores: {optDbg dbgBytes d.qq}", s!"base_substitution_codes: {optDbg dbgByte d.bs}",
    s!"insertion_bases: {optDbg dbgBytes d.in_}", s!"reference_skip_lengths: {optDbg dbgInt d.rs}",
    s!"padding_lengths: {optDbg dbgInt d.pd}", s!"hard_clip_lengths: {optDbg dbgInt d.hc}",
    s!"soft_clip_bases: {optDbg dbgBytes d.sc}", s!"mapping_qualities: {optDbg dbgInt d.mq}",
    s!"bases: {optDbg dbgByte d.ba}", s!"quality_scores: {optDbg dbgByte d.qs}"] ++ " }"

def b01 (b : Bool) : String := if b then "1" else "0"

def fmtCHdr (h : CHdr) : String :=
  let ids := sortedIds (h.te.map (·.1))
  let te := if ids.isEmpty then "-" else
    ";".intercalate (ids.map fun id => s!"{id}:Encoding({((lookupTag h.te id).map dbgBytes).getD "?"})")
  s!"rn={b01 h.rn} ap={b01 h.ap} rr={b01 h.rr} sm={String.ofList (h.sm.flatten.map baseChar)} td={fmtTagSets h.td} " ++
  s!"dse={dbgDSE h.dse} te={te}"

/-! ## records -/

def fmtOpt : Option Nat → String
  | none => "~"
  | some n => toString n

def parseOpt (s : String) : Option (Option Nat) := if s = "~" then some none else s.toNat?.map some

def fmtFeat : Feature → String
  | .bases p bs => s!"b{p}:{hexN bs}"
  | .scores p qs => s!"q{p}:{hexN qs}"
  | .readBase p b q => s!"B{p}:{b}:{q}"
  | .subst p c => s!"X{p}:{c}"
  | .insertion p bs => s!"I{p}:{hexN bs}"
  | .deletion p n => s!"D{p}:{n}"
  | .insertBase p b => s!"i{p}:{b}"
  | .qualityScore p q => s!"Q{p}:{q}"
  | .refSkip p n => s!"N{p}:{n}"
  | .softClip p bs => s!"S{p}:{hexN bs}"
  | .padding p n => s!"P{p}:{n}"
  | .hardClip p n => s!"H{p}:{n}"

def parseFeat (s : String) : Option Feature :=
  let code := (s.take 1).toString
  match (s.drop 1).toString.splitOn ":" with
  | [p, a] => do
    let p ← p.toNat?
    if code = "b" then pure (.bases p (← unhexN a))
    else if code = "q" then pure (.scores p (← unhexN a))
    else if code = "X" then pure (.subst p (← a.toNat?))
    else if code = "I" then pure (.insertion p (← unhexN a))
    else if code = "D" then pure (.deletion p (← a.toNat?))
    else if code = "i" then pure (.insertBase p (← a.toNat?))
    else if code = "Q" then pure (.qualityScore p (← a.toNat?))
    else if code = "N" then pure (.refSkip p (← a.toNat?))
    else if code = "S" then pure (.softClip p (← unhexN a))
    else if code = "P" then pure (.padding p (← a.toNat?))
    else if code = "H" then pure (.hardClip p (← a.toNat?))
    else none
  | [p, a, b] => do
    if code = "B" then pure (.readBase (← p.toNat?) (← a.toNat?) (← b.toNat?)) else none
  | _ => none

def fmtData (d : List (Key × List Nat)) : String :=
  if d.isEmpty then "-" else "+".intercalate (d.map fun (k, v) => s!"{hex2 k.t0}{hex2 k.t1}.{hex2 k.ty}.{hexN v}")

def parseData (s : String) : Option (List (Key × List Nat)) :=
  (listOf s "+").mapM fun item => match item.splitOn "." with
    | [t, ty, v] => do
      match ← unhexN t, ← unhexN ty with
      | [t0, t1], [ty] => pure (⟨t0, t1, ty⟩, ← unhexN v)
      | _, _ => none
    | _ => none

def fmtRec (r : CRec) : String :=
  ",".intercalate [toString r.bamFlags, toString r.cramFlags, fmtOpt r.refId, toString r.readLength,
    fmtOpt r.alignmentStart, fmtOpt r.readGroupId, (r.name.map hexN).getD "~", toString r.mateFlags,
    fmtOpt r.mateRefId, fmtOpt r.mateStart, toString r.templateLength, fmtOpt r.mateDistance, fmtData r.data,
    (if r.features.isEmpty then "-" else "+".intercalate (r.features.map fmtFeat)),
    fmtOpt r.mappingQuality, hexN r.sequence, hexN r.qualityScores]

def parseRec (s : String) : Option CRec :=
  match s.splitOn "," with
  | [bf, cf, ri, rl, ap, rg, name, mf, ns, np, ts, nf, data, feats, mq, seq, qs] => do
    pure { bamFlags := ← bf.toNat?, cramFlags := ← cf.toNat?, refId := ← parseOpt ri, readLength := ← rl.toNat?,
           alignmentStart := ← parseOpt ap, readGroupId := ← parseOpt rg,
           name := ← (if name = "~" then some none else (unhexN name).map some),
           mateFlags := ← mf.toNat?, mateRefId := ← parseOpt ns, mateStart := ← parseOpt np,
           templateLength := ← ts.toInt?, mateDistance := ← parseOpt nf, data := ← parseData data,
           features := ← (listOf feats "+").mapM parseFeat, mappingQuality := ← parseOpt mq,
           sequence := ← unhexN seq, qualityScores := ← unhexN qs }
  | _ => none

def parseRecs (s : String) : Option (List CRec) := (listOf s ";").mapM parseRec

def parseCtx (s : String) : Option RefCtx :=
  if s = "-1" then some .none else if s = "-2" then some .many else
  match s.splitOn ":" with
  | [a, b, c] => do pure (.some (← a.toNat?) (← b.toNat?) (← c.toNat?))
  | _ => none

def fmtCtx : RefCtx → String
  | .none => "-1"
  | .many => "-2"
  | .some a b c => s!"{a}:{b}:{c}"

def parseIds (s : String) : Option (List Int) := (listOf s ",").mapM (·.toInt?)

/-- `write_records` over exactly the given external ids (the hook's `ExternalDataWriters`) -/
def runRecW (ch : CH) (ctx : RefCtx) (ids : List Int) (recs : List CRec) : String :=
  match writeRecordsGo ch ctx (wsOf ids, ctx.initialStart) recs with
  | .error e => errStr e
  | .ok (s, _) =>
    match s.core.finish with
    | .error e => errStr e
    | .ok core => s!"{hexN core} {fmtStreams (sortedIds ids) s.ext}"

def handle : List String → Option String
  | ["bitw", ops] => some <|
    match parseBitW ops with
    | some ops => runBitW ops
    | none => "bad-op"
  | ["bitr", src, ops] => some <|
    match unhexN src with
    | some src => ",".intercalate (runBitR (BitReader.new src) (listOf ops ","))
    | none => "bad-op"
  | ["encparse", kind, src] => some <|
    match unhexN src with
    | none => "bad-op"
    | some src =>
      match AnyEnc.read kind src with
      | none => "bad-op"
      | some (.error e) => errStr e
      | some (.ok (e, rest)) => s!"{e.dbg} | {src.length - rest.length} | {resHex e.write}"
  | ["encdec", encs, core, ext, ops] => some <|
    match parseEncs encs, unhexN core, parseExt ext with
    | some encs, some core, some ext =>
      let (vals, fin) := runDecode encs ⟨BitReader.new core, extFn ext⟩ (listOf ops ",")
      let ids := sortedIds (ext.map (·.1))
      let tail := match fin with
        | some s => " | " ++ (if ids.isEmpty then "-" else ";".intercalate (ids.map fun id => s!"{id}={((s.ext id).getD []).length}"))
        | none => ""
      (if vals.isEmpty then "-" else ",".intercalate vals) ++ tail
    | _, _, _ => "bad-op"
  | ["encenc", encs, ids, ops] => some <|
    match parseEncs encs, parseIds ids with
    | some encs, some ids =>
      match runEncode encs (wsOf ids) (listOf ops ",") with
      | none => "bad-op"
      | some (.error e) => errStr e
      | some (.ok s) =>
        match s.core.finish with
        | .error e => errStr e
        | .ok core => s!"{hexN core} {fmtStreams (sortedIds ids) s.ext}"
    | _, _ => "bad-op"
  | ["chparse", src] => some <|
    match unhexN src with
    | none => "bad-op"
    | some src =>
      match readCHdr src with
      | .error e => errStr e
      | .ok (h, _) => fmtCHdr h
  | ["chwrite", src] => some <|
    match unhexN src with
    | none => "bad-op"
    | some src =>
      match readCHdr src with
      | .error e => errStr e
      | .ok (h, _) =>
        -- the hash map holds one entry per id (the last one read), written here in ascending id order
        let ids := sortedIds (h.te.map (·.1))
        let te := ids.filterMap fun id => (lookupTag h.te id).map fun e => (id, e)
        resHex (writeCHdr { h with te := te })
  | ["recw", chs, ctx, ids, recs] => some <|
    match unhexN chs, parseCtx ctx, parseIds ids, parseRecs recs with
    | some chs, some ctx, some ids, some recs =>
      match readCHdr chs with
      | .error _ => "bad-header"
      | .ok (h, _) => runRecW h.toCH ctx ids recs
    | _, _, _, _ => "bad-op"
  | ["recr", chs, ctx, core, ext, n] => some <|
    match unhexN chs, parseCtx ctx, unhexN core, parseExt ext, n.toNat? with
    | some chs, some ctx, some core, some ext, some n =>
      match readCHdr chs with
      | .error _ => "bad-header"
      | .ok (h, _) =>
        match readRecords h.toCH ctx n core (extFn ext) with
        | .error e => errStr e
        | .ok rs => if rs.isEmpty then "-" else ";".intercalate (rs.map fmtRec)
    | _, _, _, _, _ => "bad-op"
  | ["refctx", recs] => some <|
    match parseRecs recs with
    | some recs =>
      match getRefCtx recs with
      | .ok c => fmtCtx c
      | .error e => errStr e
    | none => "bad-op"
  | ["stored", chs, ctx, recs] => some <|
    match unhexN chs, parseCtx ctx, parseRecs recs with
    | some chs, some ctx, some recs =>
      match readCHdr chs with
      | .error _ => "bad-header"
      | .ok (h, _) => if recs.isEmpty then "-" else ";".intercalate (recs.map fun r => fmtRec (stored h.toCH ctx r))
    | _, _, _ => "bad-op"
  | _ => none

end Noodles.Cram.DrvEnc
