import Noodles.Cram.AacTopProof
/-!
Helper lemmas for `Noodles/Props/C08Aac.lean`: the encoder ANSWERS — `Model::encode` never walks
past its symbol table (the `EncErr.trap` outcome of the model is dead), and the only refusal of the
entropy coders is the symbol count 256.
-/
namespace Noodles.Cram.Aac
open Noodles.Cram.Num

/-- a well-formed model over the alphabet `0..n`: every symbol below `n` is in its table -/
structure Model.Full (n : Nat) (m : Model) : Prop where
  wf : m.WF
  perm : m.syms.Perm (List.range n)

theorem Model.new_full (n : Nat) (h : n ≤ 256) : (Model.new n).Full n :=
  ⟨Model.new_wf n h, List.Perm.refl _⟩

theorem Model.update_full (n : Nat) (m : Model) (x : Nat) (h : m.Full n) (hx : x < m.freqs.length) :
    (m.update x).Full n :=
  ⟨Model.update_wf m x h.wf hx, (Model.update_syms_perm m x).trans h.perm⟩

/-- `Model::encode` finds every symbol of the alphabet -/
theorem Model.encode_total (n : Nat) (m : Model) (e : Enc) (s : Nat) (h : m.Full n) (hs : s < n) :
    ∃ x acc f, findGo s m.syms m.freqs 0 0 = some (x, acc, f) ∧ x < m.freqs.length ∧
      m.encode e s = some (m.update x, e.encode acc f m.total) := by
  have hmem : s ∈ m.syms := h.perm.mem_iff.mpr (List.mem_range.mpr hs)
  obtain ⟨⟨x, acc, f⟩, hr⟩ := findGo_of_mem s m.syms m.freqs 0 0 h.wf.len hmem
  obtain ⟨_, h2, _⟩ := findGo_spec s m.syms m.freqs 0 0 x acc f hr
  exact ⟨x, acc, f, hr, by simpa using h2, by simp [Model.encode, hr]⟩

/-- the models of a codec: model `c` is over the alphabet `0..ns[c]` -/
def Sized (ns : List Nat) (ms : List Model) : Prop :=
  ms.length = ns.length ∧ ∀ (c n : Nat) (m : Model), ns[c]? = some n → ms[c]? = some m → m.Full n

theorem Sized.set {ns : List Nat} {ms : List Model} (h : Sized ns ms) (c n : Nat) (m' : Model)
    (hn : ns[c]? = some n) (hm : m'.Full n) : Sized ns (ms.set c m') := by
  refine ⟨by rw [List.length_set]; exact h.1, ?_⟩
  intro c' n' m hn' hm'
  rw [List.getElem?_set] at hm'
  split at hm'
  · next heq =>
    subst heq
    split at hm'
    · simp only [Option.some.injEq] at hm'
      rw [hn] at hn'
      simp only [Option.some.injEq] at hn'
      exact hm' ▸ hn' ▸ hm
    · simp at hm'
  · exact h.2 c' n' m hn' hm'

/-- `encSyms` answers when every event names an existing model and a symbol of its alphabet -/
theorem encSyms_total (ns : List Nat) (evs : List (Nat × Nat)) :
    ∀ (ms : List Model) (e : Enc), Sized ns ms →
      (∀ ev ∈ evs, ∃ n, ns[ev.1]? = some n ∧ ev.2 < n) → ∃ r, encSyms ms e evs = some r := by
  induction evs with
  | nil => intro ms e _ _; exact ⟨_, rfl⟩
  | cons ev evs ih =>
    intro ms e hsz hev
    obtain ⟨c, s⟩ := ev
    obtain ⟨n, hn, hs⟩ := hev (c, s) (by simp)
    have hc : c < ms.length := by
      rw [hsz.1]
      rcases Nat.lt_or_ge c ns.length with h | h
      · exact h
      · rw [List.getElem?_eq_none h] at hn; simp at hn
    have hm : ms[c]? = some ms[c] := List.getElem?_eq_getElem hc
    have hfull := hsz.2 c n ms[c] hn hm
    obtain ⟨x, acc, f, _, hx, henc⟩ := Model.encode_total n ms[c] e s hfull hs
    simp only [encSyms, hm, henc]
    exact ih _ _ (hsz.set c n _ hn (Model.update_full n _ x hfull hx))
      (fun ev h => hev ev (List.mem_cons_of_mem _ h))

/-! ## the events of the four codecs are valid -/

theorem foldl_max_mem (l : List Nat) (a x : Nat) (h : x ∈ l) : x ≤ l.foldl max a := by
  induction l generalizing a with
  | nil => simp at h
  | cons y l ih =>
    simp only [List.mem_cons] at h
    rcases h with rfl | h
    · exact Nat.le_trans (Nat.le_max_right a x) (foldl_max_ge l (max a x))
    · exact ih (max a y) h

theorem lt_countSymbols (src : List Nat) (x : Nat) (h : x ∈ src) : x < countSymbols src := by
  have := foldl_max_mem src 0 x h
  unfold countSymbols; omega

theorem foldl_max_cases (l : List Nat) (a : Nat) : l.foldl max a = a ∨ l.foldl max a ∈ l := by
  induction l generalizing a with
  | nil => exact Or.inl rfl
  | cons y l ih =>
    simp only [List.foldl_cons, List.mem_cons]
    rcases ih (max a y) with h | h
    · rcases Nat.le_total a y with h1 | h1
      · rw [Nat.max_eq_right h1] at h ⊢; exact Or.inr (Or.inl h)
      · rw [Nat.max_eq_left h1] at h ⊢; exact Or.inl h
    · exact Or.inr (Or.inr h)

/-- the symbol count of a byte string is at most 256 -/
theorem countSymbols_le (src : List Nat) (hsym : ∀ x ∈ src, x < 256) : countSymbols src ≤ 256 := by
  unfold countSymbols
  rcases foldl_max_cases src 0 with h0 | h0
  · omega
  · have := hsym _ h0; omega

/-- `write_symbol_count` answers for every count up to 256 -/
theorem symbolCountByte_ok (n : Nat) (h : n ≤ 256) : symbolCountByte n = .ok [countByte n] := by
  unfold symbolCountByte countByte
  by_cases h256 : n = 256
  · simp [h256]
  · have : n < 256 := by omega
    simp [h256, this]

theorem getElem?_replicate_some {α : Type} (k : Nat) (a : α) (c : Nat) (h : c < k) :
    (List.replicate k a)[c]? = some a := by
  rw [List.getElem?_eq_getElem (by simpa using h)]; simp

theorem sized_replicate (k n : Nat) (h : n ≤ 256) :
    Sized (List.replicate k n) (List.replicate k (Model.new n)) := by
  refine ⟨by simp, ?_⟩
  intro c n' m hn hm
  rcases Nat.lt_or_ge c k with hc | hc
  · rw [getElem?_replicate_some k n c hc] at hn
    rw [getElem?_replicate_some k _ c hc] at hm
    simp only [Option.some.injEq] at hn hm
    exact hn ▸ hm ▸ Model.new_full n h
  · rw [List.getElem?_eq_none (by simpa using hc)] at hn; simp at hn

theorem eventsO_valid (o1 : Bool) (n k : Nat) (hk : if o1 then k = n else k = 1) (_hn : 1 ≤ n) (src : List Nat) :
    ∀ prev, prev < n → (∀ x ∈ src, x < n) →
      ∀ ev ∈ eventsO o1 prev src, ∃ n', (List.replicate k n)[ev.1]? = some n' ∧ ev.2 < n' := by
  induction src with
  | nil => intro prev _ _ ev hev; simp [eventsO] at hev
  | cons s rest ih =>
    intro prev hp hsrc ev hev
    simp only [eventsO, List.mem_cons] at hev
    rcases hev with rfl | hev
    · refine ⟨n, ?_, hsrc s (by simp)⟩
      apply getElem?_replicate_some
      cases o1 with
      | false => simp only [Bool.false_eq_true, if_false] at hk ⊢; omega
      | true => simp only [if_true] at hk ⊢; omega
    · exact ih s (hsrc s (by simp)) (fun x hx => hsrc x (by simp [hx])) ev hev

/-- order 0 / order 1 answer when the symbol count is at most 256 (every byte string) -/
theorem encodeOrd_total (o1 : Bool) (src : List Nat) (h : countSymbols src ≤ 256) :
    ∃ enc, (if o1 then encode1 src else encode0 src) = .ok enc := by
  have hpos := countSymbols_pos src
  have hlt := lt_countSymbols src
  cases o1 with
  | false =>
    simp only [Bool.false_eq_true, if_false]
    have hs : Sized (List.replicate 1 (countSymbols src)) [Model.new (countSymbols src)] :=
      sized_replicate 1 _ (by omega)
    obtain ⟨⟨ms', e'⟩, hr⟩ := encSyms_total _ (events0 src) _ Enc.init hs (by
      rw [events0_eq 0]
      exact eventsO_valid false _ 1 (by simp) hpos src 0 (by omega) hlt)
    exact ⟨[countByte (countSymbols src)] ++ e'.finish, by simp [encode0, encodeWith, symbolCountByte_ok _ h, hr]⟩
  | true =>
    simp only [if_true]
    have hs := sized_replicate (countSymbols src) (countSymbols src) (by omega)
    obtain ⟨⟨ms', e'⟩, hr⟩ := encSyms_total _ (events1 0 src) _ Enc.init hs (by
      rw [events1_eq 0]
      exact eventsO_valid true _ _ (by simp) hpos src 0 (by omega) hlt)
    exact ⟨[countByte (countSymbols src)] ++ e'.finish, by simp [encode1, encodeWith, symbolCountByte_ok _ h, hr]⟩

theorem sized_append {ns1 ns2 : List Nat} {ms1 ms2 : List Model} (h1 : Sized ns1 ms1) (h2 : Sized ns2 ms2) :
    Sized (ns1 ++ ns2) (ms1 ++ ms2) := by
  refine ⟨by simp [h1.1, h2.1], ?_⟩
  intro c n m hn hm
  rcases Nat.lt_or_ge c ns1.length with hc | hc
  · rw [List.getElem?_append_left hc] at hn
    rw [List.getElem?_append_left (by rw [h1.1]; exact hc)] at hm
    exact h1.2 c n m hn hm
  · rw [List.getElem?_append_right hc] at hn
    rw [List.getElem?_append_right (by rw [h1.1]; exact hc), h1.1] at hm
    exact h2.2 _ n m hn hm

theorem runParts_valid (ns1 : List Nat) (k : Nat) :
    ∀ c len, c < 258 → ∀ ev ∈ runParts ns1.length k c len,
      ∃ n', (ns1 ++ List.replicate 258 4)[ev.1]? = some n' ∧ ev.2 < n' := by
  induction k with
  | zero => intro c len _ ev hev; simp [runParts] at hev
  | succ k ih =>
    intro c len hc ev hev
    simp only [runParts, List.mem_cons] at hev
    rcases hev with rfl | hev
    · refine ⟨4, ?_, by simp only; omega⟩
      simp only
      rw [List.getElem?_append_right (by omega), Nat.add_sub_cancel_left]
      exact getElem?_replicate_some 258 4 c hc
    · split at hev
      · exact ih (nextRunCtx c) (len - 3) (by unfold nextRunCtx; split <;> omega) ev hev
      · simp at hev

theorem eventsRle_valid (o1 : Bool) (n base : Nat) (hb : if o1 then base = n else base = 1) (_hn : 1 ≤ n)
    (fuel : Nat) : ∀ (src : List Nat) (prev : Nat), prev < n → (∀ x ∈ src, x < n ∧ x < 256) →
      ∀ ev ∈ eventsRle o1 (List.replicate base n).length fuel prev src,
        ∃ n', (List.replicate base n ++ List.replicate 258 4)[ev.1]? = some n' ∧ ev.2 < n' := by
  induction fuel with
  | zero => intro src prev _ _ ev hev; simp [eventsRle] at hev
  | succ fuel ih =>
    intro src prev hp hsrc ev hev
    cases src with
    | nil => simp [eventsRle] at hev
    | cons s rest =>
      simp only [eventsRle, List.mem_cons, List.mem_append] at hev
      rcases hev with rfl | hev | hev
      · refine ⟨n, ?_, (hsrc s (by simp)).1⟩
        simp only
        rw [List.getElem?_append_left (by
          rw [List.length_replicate]
          cases o1 with
          | false => simp only [Bool.false_eq_true, if_false] at hb ⊢; omega
          | true => simp only [if_true] at hb ⊢; omega)]
        apply getElem?_replicate_some
        cases o1 with
        | false => simp only [Bool.false_eq_true, if_false] at hb ⊢; omega
        | true => simp only [if_true] at hb ⊢; omega
      · exact runParts_valid _ _ s _ (by have := (hsrc s (by simp)).2; omega) ev hev
      · exact ih _ s (hsrc s (by simp)).1
          (fun x hx => hsrc x (List.mem_cons_of_mem _ (List.mem_of_mem_drop hx))) ev hev

/-- the run-length coders answer for every byte string -/
theorem encodeRle_total (o1 : Bool) (src : List Nat) (hsym : ∀ x ∈ src, x < 256)
    (h : countSymbols src ≤ 256) : ∃ enc, encodeRle o1 src = .ok enc := by
  have hpos := countSymbols_pos src
  have hs : Sized (List.replicate (if o1 = true then countSymbols src else 1) (countSymbols src)
        ++ List.replicate 258 4)
      (List.replicate (if o1 = true then countSymbols src else 1) (Model.new (countSymbols src)) ++ rleModels) :=
    sized_append (sized_replicate _ _ (by omega)) (sized_replicate 258 4 (by decide))
  have hev := eventsRle_valid o1 (countSymbols src) (if o1 = true then countSymbols src else 1)
    (by cases o1 <;> simp) hpos src.length src 0 (by omega)
    (fun x hx => ⟨lt_countSymbols src x hx, hsym x hx⟩)
  rw [List.length_replicate] at hev
  obtain ⟨⟨ms', e'⟩, hr⟩ := encSyms_total _ _ _ Enc.init hs hev
  exact ⟨[countByte (countSymbols src)] ++ e'.finish, by simp [encodeRle, encodeWith, symbolCountByte_ok _ h, hr]⟩

/-- … and refuse (`InvalidInput`) a symbol count above 256, which takes a symbol that is not a byte -/
theorem encodeWith_refuses (ms : List Model) (evs : List (Nat × Nat)) (n : Nat) (h : 256 < n) :
    encodeWith ms evs n = .error .invalidInput := by
  have h1 : ¬ n = 256 := by omega
  have h2 : ¬ n < 256 := by omega
  simp [encodeWith, symbolCountByte, h1, h2]

/-! ## `encode` answers for every flag byte and every byte string below 4 GiB -/

theorem chunks_length_le (per : Nat) (hper : 1 ≤ per) (fuel : Nat) :
    ∀ l : List Nat, (Nx.chunks per fuel l).length ≤ l.length := by
  induction fuel with
  | zero => intro l; simp [Nx.chunks]
  | succ fuel ih =>
    intro l
    cases l with
    | nil => simp [Nx.chunks]
    | cons a l =>
      have hne : (a :: l).isEmpty = false := rfl
      simp only [Nx.chunks, hne, Bool.false_eq_true, if_false, List.length_cons]
      have := ih ((a :: l).drop per)
      rw [List.length_drop, List.length_cons] at this
      omega

theorem packEnc_length_le (syms src : List Nat) : (Nx.packEnc syms src).length ≤ src.length := by
  unfold Nx.packEnc
  split
  · simp
  · unfold Nx.pack
    rw [List.length_map]
    apply chunks_length_le
    unfold Nx.perByte
    split
    · decide
    · split <;> decide

/-- the entropy stage answers for every byte string -/
theorem stageEntropy_total (bz : List Nat → List Nat) (f : Flags) (data : List Nat)
    (hsym : ∀ x ∈ data, x < 256) : ∃ body, stageEntropy bz f data = .ok body := by
  have hc : countSymbols data ≤ 256 := countSymbols_le data hsym
  unfold stageEntropy
  by_cases h1 : f.cat = true
  · exact ⟨data, by simp [h1]⟩
  · by_cases h2 : f.ext = true
    · exact ⟨bz data, by simp [h1, h2]⟩
    · by_cases h3 : f.rle = true
      · obtain ⟨enc, he⟩ := encodeRle_total f.order data hsym hc
        exact ⟨enc, by simp [h1, h2, h3, he]⟩
      · obtain ⟨enc, he⟩ := encodeOrd_total f.order data hc
        exact ⟨enc, by simp only [h1, h2, h3, Bool.false_eq_true, if_false]; exact he⟩

/-- `encode` answers for every flag byte without STRIPE and every byte string below 4 GiB -/
theorem encodeFlat_total (bz : List Nat → List Nat) (f : Flags) (src : List Nat)
    (hlen : src.length < 2 ^ 32) (hsym : ∀ x ∈ src, x < 256) : ∃ enc, encodeFlat bz f src = .ok enc := by
  have hsize : ∃ size, sizeBytes f src.length = .ok size := by
    unfold sizeBytes
    by_cases hn : f.nosz = true
    · exact ⟨[], by simp [hn]⟩
    · exact ⟨(writeUint7 src.length).getD [], by simp [hn, hlen]⟩
  obtain ⟨size, hs⟩ := hsize
  by_cases hp : f.pack = true
  · by_cases hdrop : (Nx.symbols src).length = 0 ∨ (Nx.symbols src).length > 16
    · obtain ⟨body, hb⟩ := stageEntropy_total bz { f with pack := false } src hsym
      have hpk : stagePack f src = .ok ({ f with pack := false }, src, []) := by
        unfold stagePack; simp only [hp, if_true, hdrop]
      exact ⟨[({ f with pack := false } : Flags).toByte] ++ size ++ [] ++ body,
        by simp only [encodeFlat, hs, hpk, hb]⟩
    · have hpl := packEnc_length_le (Nx.symbols src) src
      have hpb := Nx.packEnc_bytes src hsym (by omega)
      obtain ⟨body, hb⟩ := stageEntropy_total bz f (Nx.packEnc (Nx.symbols src) src) hpb
      have hlt : (Nx.packEnc (Nx.symbols src) src).length < 2 ^ 32 := by omega
      have hpk : stagePack f src = .ok (f, Nx.packEnc (Nx.symbols src) src,
          [(Nx.symbols src).length] ++ Nx.symbols src
            ++ (writeUint7 (Nx.packEnc (Nx.symbols src) src).length).getD []) := by
        unfold stagePack; simp only [hp, if_true, hdrop, if_false, hlt]
      exact ⟨_, by simp only [encodeFlat, hs, hpk, hb]; rfl⟩
  · have hpk : stagePack f src = .ok (f, src, []) := by
      unfold stagePack; simp only [hp, Bool.false_eq_true, if_false]
    obtain ⟨body, hb⟩ := stageEntropy_total bz f src hsym
    exact ⟨_, by simp only [encodeFlat, hs, hpk, hb]; rfl⟩

/-! ### the size of a stripe chunk -/

theorem normEnc_D_le (fuel : Nat) : ∀ (e : Enc) (k : Nat), 2 ^ 24 ≤ e.range * 256 ^ k →
    D (normEnc fuel e) ≤ D e + k := by
  induction fuel with
  | zero => intro e k _; unfold normEnc; omega
  | succ fuel ih =>
    intro e k h
    unfold normEnc
    split
    · next hr =>
      cases k with
      | zero => simp at h; omega
      | succ k =>
        have h2 := ih (shiftLow { e with range := e.range * 256 }) k (by
          rw [shiftLow_range]
          show 2 ^ 24 ≤ e.range * 256 * 256 ^ k
          have : e.range * 256 * 256 ^ k = e.range * 256 ^ (k + 1) := by
            rw [Nat.pow_succ, Nat.mul_assoc, Nat.mul_comm 256]
          omega)
        have h3 : D (shiftLow { e with range := e.range * 256 }) = D e + 1 := shiftLow_D _
        omega
    · omega

/-- a coded symbol makes the stream at most two bytes longer -/
theorem encode_D_le (e : Enc) (lo f tot : Nat) (h : Inv e) (hf : 1 ≤ f) (hlf : lo + f ≤ tot)
    (htot : tot ≤ 2 ^ 16) (hr : 2 ^ 24 ≤ e.range) : D (e.encode lo f tot) ≤ D e + 2 := by
  obtain ⟨_, _, hD, hR, h256, _⟩ := narrowed_spec e lo f tot h hf hlf htot hr
  rw [encode_eq]
  have := normEnc_D_le 4 (narrowed e lo f tot) 2 (by rw [hR]; omega)
  omega

theorem encSyms_D_le (evs : List (Nat × Nat)) : ∀ (ms : List Model) (e : Enc) (ms' : List Model) (e' : Enc),
    AllWF ms → Inv e → 2 ^ 24 ≤ e.range → encSyms ms e evs = some (ms', e') →
    D e' ≤ D e + 2 * evs.length := by
  induction evs with
  | nil =>
    intro ms e ms' e' _ _ _ h
    simp only [encSyms, Option.some.injEq, Prod.mk.injEq] at h
    rw [← h.2]; simp
  | cons ev evs ih =>
    intro ms e ms' e' hwf hinv hr h
    obtain ⟨c, s⟩ := ev
    simp only [encSyms] at h
    split at h
    · simp at h
    · next m hm =>
      split at h
      · simp at h
      · next m1 e1 henc =>
        obtain ⟨x, acc, f, _, rfl, rfl, hf, hlf, htot, hx, _⟩ :=
          Model.encode_spec m e s m1 e1 (hwf.get hm) henc
        obtain ⟨hi1, hr1⟩ := encode_inv e acc f m.total hinv hf hlf htot hr
        have h1 := ih _ _ ms' e' (hwf.set c _ (Model.update_wf m x (hwf.get hm) hx)) hi1 hr1 h
        have h2 := encode_D_le e acc f m.total hinv hf hlf htot hr
        simp only [List.length_cons]
        omega

/-- a stripe chunk (`encode(Flags::NO_SIZE, chunk)`: order 0) is at most `7 + 2 |chunk|` bytes -/
theorem encodeFlat_noSize_length (bz : List Nat → List Nat) (c p : List Nat)
    (h : encodeFlat bz Flags.noSize c = .ok p) : p.length ≤ 7 + 2 * c.length := by
  have hs : sizeBytes Flags.noSize c.length = .ok [] := rfl
  have hp : stagePack Flags.noSize c = .ok (Flags.noSize, c, []) := rfl
  have he : stageEntropy bz Flags.noSize c = encode0 c := rfl
  simp only [encodeFlat, hs, hp, he] at h
  split at h
  · simp at h
  · next body hb =>
    simp only [Except.ok.injEq] at h
    subst h
    obtain ⟨hn, ms', e', hrun, rfl⟩ := encodeWith_ok _ _ _ _ hb
    have hwf : AllWF [Model.new (countSymbols c)] := allWF_replicate 1 _ hn
    have hD := encSyms_D_le _ _ _ ms' e' hwf init_inv (by decide) hrun
    have hall := encSyms_inv _ _ _ ms' e' hwf init_inv (by decide) hrun
    have hfin := (finish_spec e' hall.2.1.inv0).2.1
    rw [D_init] at hD
    simp only [events0, List.length_map] at hD
    simp only [List.length_append, List.length_cons, List.length_nil, hfin]
    omega

/-- **`aac::encode` answers** for every flag byte and every byte string below 4 GiB -/
theorem encode_total (bz : List Nat → List Nat) (f : Flags) (src : List Nat)
    (hlen : src.length < 2 ^ 32) (hsym : ∀ x ∈ src, x < 256) : ∃ enc, encode bz f src = .ok enc := by
  unfold encode
  by_cases hst : f.stripe = true
  · have hsize : ∃ size, sizeBytes f src.length = .ok size := by
      unfold sizeBytes
      by_cases hn : f.nosz = true
      · exact ⟨[], by simp [hn]⟩
      · exact ⟨(writeUint7 src.length).getD [], by simp [hn, hlen]⟩
    obtain ⟨size, hs⟩ := hsize
    have hchunk : ∀ j, j < 4 → ∃ p, encodeFlat bz Flags.noSize (Nx.transpose 4 src j) = .ok p ∧
        p.length < 2 ^ 32 := by
      intro j hj
      have hl := Nx.transpose_length src j hj
      have hl2 : (Nx.transpose 4 src j).length ≤ src.length / 4 + 1 := by rw [hl]; split <;> omega
      obtain ⟨p, hp⟩ := encodeFlat_total bz Flags.noSize (Nx.transpose 4 src j) (by omega)
        (Nx.transpose_sym src hsym j)
      have := encodeFlat_noSize_length bz _ p hp
      exact ⟨p, hp, by omega⟩
    obtain ⟨p0, h0, l0⟩ := hchunk 0 (by decide)
    obtain ⟨p1, h1, l1⟩ := hchunk 1 (by decide)
    obtain ⟨p2, h2, l2⟩ := hchunk 2 (by decide)
    obtain ⟨p3, h3, l3⟩ := hchunk 3 (by decide)
    exact ⟨[f.toByte] ++ size ++ ([4] ++ ((writeUint7 p0.length).getD [] ++ (writeUint7 p1.length).getD []
        ++ (writeUint7 p2.length).getD [] ++ (writeUint7 p3.length).getD []) ++ (p0 ++ p1 ++ p2 ++ p3)),
      by simp [hst, hs, encodeStripe, h0, h1, h2, h3, l0, l1, l2, l3]⟩
  · simp only [hst, Bool.false_eq_true, if_false]
    exact encodeFlat_total bz f src hlen hsym

end Noodles.Cram.Aac
