import Noodles.Cram.Num
/-!
# rANS 4x8, order 0

**Encoder** — transcribed from noodles (`noodles-cram/src/codecs/rans_4x8/encode/order_0.rs`,
`encode.rs`, `encode/header.rs`): `build_raw_frequencies`, `describe_frequencies`,
`normalize_frequencies`, `build_cumulative_frequencies`, `write_frequencies`, `state_renormalize`,
`state_step`, the reverse 4-way interleaved loop of `encode`, `write_states`, `write_header`.
The model describes the code WITH the `fix:` commits of the C08 round applied:
* `write_frequencies`: `prev_sym` starts as "none" (not symbol 0) and a run that reaches symbol 255
  has the length of the remaining alphabet (not 0)                         — findings F5, F17;
* `normalize_frequencies`: the product `f * 4095` is 64-bit (F6) and an excess of the rounded-up
  sum over 4095 is taken from the largest frequencies one at a time, instead of all from the most
  frequent symbol (which underflowed, or left it at 0 and then `state_renormalize` never returned);
* `decode` returns the empty output for an uncompressed size of 0 (F7).

**Decoder** — written from the CRAM codecs specification (section 2, `ReadFrequencies0`,
`RansDecode0`, `RansGetCumulativeFreq`, `RansGetSymbolFromFreq`, `RansAdvanceStep`, `RansRenorm`),
not from noodles; the correspondence check shows that it agrees with noodles' decoder.

Bytes and symbols are natural numbers `< 256`; states are `u32` values held in `Nat` (every
operation below stays under `2^32` on the streams the encoder produces — part of what
`Rans4x8Proof.lean` proves — so no wrap-around is modelled).
-/
namespace Noodles.Cram.R4
open Noodles.Cram.Num

inductive EncErr
  /-- a size does not fit the 32-bit header field (`io::ErrorKind::InvalidInput`) -/
  | invalidInput
  /-- a symbol of the input has normalised frequency 0: the real `state_renormalize` would never
      return (`s >= (L >> 4) * 0` holds forever). Dead for the fixed normalisation
      (`Props.C08.rans4x8_o0_encode_total`). -/
  | zeroFreq
  deriving Repr, DecidableEq

/-- `LOWER_BOUND` -/
def L : Nat := 2 ^ 23

/-- table lookup, 0 outside the table (tables have 256 entries) -/
def getF (F : List Nat) (s : Nat) : Nat := F.getD s 0

/-! ## frequencies -/

/-- `build_raw_frequencies` -/
def hist (src : List Nat) : List Nat := (List.range 256).map fun s => src.count s

/-- The scan of `describe_frequencies` (`if f >= max { max = f; max_index = i }`), which is also
what `Iterator::max` returns for equal maxima: the index of the LAST maximum. Arguments: rest of
the table, index of its head, running maximum, its index. -/
def argmaxLast : List Nat → Nat → Nat → Nat → Nat
  | [], _, _, mi => mi
  | f :: fs, i, m, mi => if f ≥ m then argmaxLast fs (i + 1) f i else argmaxLast fs (i + 1) m mi

def maxIndex (F : List Nat) : Nat := argmaxLast F 0 0 0

/-- one entry of the first pass: `(f * total / sum).max(1)` for `f > 0` (64-bit product) -/
def scale (total sum f : Nat) : Nat := if f = 0 then 0 else max (f * total / sum) 1

/-- `if let Some(g) = normalized_frequencies.iter_mut().max() { *g -= 1 }` -/
def decLargest (F : List Nat) : List Nat := F.set (maxIndex F) (getF F (maxIndex F) - 1)

def iter {α : Type} (f : α → α) : Nat → α → α
  | 0, x => x
  | n + 1, x => iter f n (f x)

/-- `normalize_frequencies` (fixed) for the total `total` (4095 for rANS 4x8, 4096 for Nx16) -/
def normalizeTo (total : Nat) (raw : List Nat) : List Nat :=
  let sum := raw.sum
  if sum = 0 then List.replicate 256 0
  else
    let n0 := raw.map (scale total sum)
    let ns := n0.sum
    if ns < total then n0.set (maxIndex raw) (getF n0 (maxIndex raw) + (total - ns))
    else iter decLargest (ns - total) n0

/-- rANS 4x8: "the total sum of symbol frequencies are normalised to add up to 4095" -/
def normalize (raw : List Nat) : List Nat := normalizeTo 4095 raw

/-- `C[s] = F[0] + … + F[s-1]` -/
def cum (F : List Nat) (s : Nat) : Nat := (F.take s).sum

/-- `build_cumulative_frequencies` (256 entries) -/
def cumL (F : List Nat) : List Nat := (List.range 256).map (cum F)

/-! ## frequency table: writer (noodles, fixed) and reader (specification) -/

/-- number of leading non-zero frequencies: `position(|&g| g == 0).unwrap_or(len)` -/
def lead : List Nat → Nat
  | [] => 0
  | f :: rest => if f = 0 then 0 else lead rest + 1

/-- `write_frequencies`, at symbol `sym` with the frequencies of `sym, sym+1, …` still to be
visited; `prev` is `prev_sym` -/
def writeFreqsGo : Nat → List Nat → Option Nat → List Nat
  | _, [], _ => [0]
  | sym, f :: rest, prev =>
    if f = 0 then writeFreqsGo (sym + 1) rest prev
    else if sym > 0 ∧ prev = some (sym - 1) then
      let len := lead rest
      [sym, len] ++ writeItf8 (f : Int) ++ ((rest.take len).map fun (g : Nat) => writeItf8 (g : Int)).flatten
        ++ writeFreqsGo (sym + 1 + len) (rest.drop len) (some (sym + len))
    else [sym] ++ writeItf8 (f : Int) ++ writeFreqsGo (sym + 1) rest (some sym)
termination_by _ l => l.length
decreasing_by
  all_goals simp only [List.length_cons, List.length_drop]
  all_goals omega

def writeFreqs (F : List Nat) : List Nat := writeFreqsGo 0 F none

/-- `ReadFrequencies0`, the part after a frequency has been read with no run pending:
`sym ← ReadUint8()`; 0 ends the table; a symbol that continues the previous one (`last_sym + 1`)
is followed by a run length. `k` is the loop to continue with. -/
def readNext (k : List Nat → Nat → Nat → List Nat → Except Err (List Nat × List Nat))
    (F : List Nat) (last : Nat) : List Nat → Except Err (List Nat × List Nat)
  | [] => .error .eof
  | s :: bs =>
    if s = 0 then .ok (F, bs)
    else if s = last + 1 then
      match bs with
      | [] => .error .eof
      | r :: bs => k F s r bs
    else k F s 0 bs

/-- `ReadFrequencies0` of the specification, at "`F[sym] ← ReadITF8()`" with `rle` symbols of a
run still to come. `fuel` bounds the iterations (each consumes at least a byte). A frequency must
fit `u16` (`read_itf8_as`), a symbol must stay below 256. -/
def readFreqsLoop : Nat → List Nat → Nat → Nat → List Nat → Except Err (List Nat × List Nat)
  | 0, _, _, _, _ => .error .eof
  | fuel + 1, F, sym, rle, bs =>
    match readItf8 bs with
    | .error e => .error e
    | .ok (f, bs) =>
      if f < 0 ∨ f > 65535 ∨ sym ≥ 256 then .error .invalidData
      else if rle > 0 then readFreqsLoop fuel (F.set sym f.toNat) (sym + 1) (rle - 1) bs
      else readNext (fun F s r bs => readFreqsLoop fuel F s r bs) (F.set sym f.toNat) sym bs

/-- The loop has no bound of its own in the specification: it ends at the 0 byte or at the end of
the input. Every iteration consumes at least one byte, so any fuel above `bs.length` is never
exhausted before the input is. -/
def readFreqs : List Nat → Except Err (List Nat × List Nat)
  | [] => .error .eof
  | s :: bs => readFreqsLoop (bs.length + 257) (List.replicate 256 0) s 0 bs

/-! ## the state machine -/

/-- `state_renormalize` (encoder): `while s >= (L >> 4) * f { emit s & 0xff; s >>= 8 }`; the bytes
are returned in emission order. For `f ≥ 1` and `s < 2^32` four rounds of fuel are never
exhausted. -/
def renormEnc : Nat → Nat → Nat → Nat × List Nat
  | 0, s, _ => (s, [])
  | fuel + 1, s, f =>
    if s ≥ 2 ^ 19 * f then
      let r := renormEnc fuel (s / 256) f
      (r.1, s % 256 :: r.2)
    else (s, [])

/-- `state_step` (encoder): `((s / f) << 12) + s % f + g` -/
def encStep (s f g : Nat) : Nat := s / f * 4096 + s % f + g

/-- The encoder loop `for (i, &sym) in src.iter().enumerate().rev()`. The first argument is the
not-yet-encoded prefix REVERSED (its head is the next symbol to encode), the second is the length
of that prefix, so the head has index `i - 1`; `out` is the emitted bytes in their final order
(`dst.extend(buf.iter().rev())`: the model keeps the buffer reversed from the start). -/
def encLoop (F C : List Nat) :
    List Nat → Nat → List Nat → List Nat → Except EncErr (List Nat × List Nat)
  | [], _, st, out => .ok (st, out)
  | x :: rest, i, st, out =>
    let f := getF F x
    if f = 0 then .error .zeroFreq
    else
      let j := (i - 1) % 4
      let r := renormEnc 4 (st.getD j 0) f
      encLoop F C rest (i - 1) (st.set j (encStep r.1 f (getF C x))) (r.2.reverse ++ out)

/-- `u32::to_le_bytes` -/
def le4 (n : Nat) : List Nat := [n % 256, n / 2 ^ 8 % 256, n / 2 ^ 16 % 256, n / 2 ^ 24 % 256]

def initStates : List Nat := [L, L, L, L]

/-- `rans_4x8::encode(Order::Zero, src)` -/
def encode0 (src : List Nat) : Except EncErr (List Nat) :=
  let F := normalize (hist src)
  let C := cumL F
  match encLoop F C src.reverse src.length initStates [] with
  | .error e => .error e
  | .ok (st, out) =>
    let body := writeFreqs F ++ (st.map le4).flatten ++ out
    if body.length ≥ 2 ^ 32 ∨ src.length ≥ 2 ^ 32 then .error .invalidInput
    else .ok (0 :: le4 body.length ++ le4 src.length ++ body)

/-! ## decoder (specification) -/

def readU32le : List Nat → Except Err (Nat × List Nat)
  | b0 :: b1 :: b2 :: b3 :: r => .ok (b0 + b1 * 2 ^ 8 + b2 * 2 ^ 16 + b3 * 2 ^ 24, r)
  | _ => .error .eof

/-- `RansGetSymbolFromFreq`: `s ← 0; while slot ≥ C[s+1]: s ← s+1`, over the tail `C[s+1], …` of
the table (so `s` stops at 255) -/
def lookupL : List Nat → Nat → Nat → Nat
  | [], _, s => s
  | c :: cs, slot, s => if slot ≥ c then lookupL cs slot (s + 1) else s

def lookup (C : List Nat) (slot : Nat) : Nat := lookupL (C.drop 1) slot 0

/-- `RansRenorm`: `while x < L: x ← (x << 8) + ReadUint8()` -/
def renormDec : List Nat → Nat → Except Err (Nat × List Nat)
  | [], x => if x ≥ L then .ok (x, []) else .error .eof
  | b :: r, x => if x ≥ L then .ok (x, b :: r) else renormDec r (x * 256 + b)

/-- `RansAdvanceStep`: `f * (x >> 12) + (x & 0xfff) - c` -/
def decStep (x f c : Nat) : Nat := f * (x / 4096) + x % 4096 - c

/-- `RansDecode0` main loop: `n` symbols from index `i` on, state `i mod 4` each; `acc` is the
output so far, reversed -/
def decSyms (F C : List Nat) : Nat → Nat → List Nat → List Nat → List Nat →
    Except Err (List Nat × List Nat × List Nat)
  | 0, _, st, bs, acc => .ok (acc.reverse, st, bs)
  | n + 1, i, st, bs, acc =>
    let j := i % 4
    let x := st.getD j 0
    let s := lookup C (x % 4096)
    match renormDec bs (decStep x (getF F s) (getF C s)) with
    | .error e => .error e
    | .ok (x', bs') => decSyms F C n (i + 1) (st.set j x') bs' (s :: acc)

inductive DecErr | eof | invalidData | order1
  deriving Repr, DecidableEq

def liftErr : Err → DecErr
  | .eof => .eof
  | .invalidData => .invalidData

/-- `rans_4x8::decode` for order-0 streams (order 1 is outside this model) -/
def decode : List Nat → Except DecErr (List Nat)
  | [] => .error .eof
  | order :: bs =>
    if order ≥ 2 then .error .invalidData
    else
      match readU32le bs with
      | .error e => .error (liftErr e)
      | .ok (_, bs) =>
        match readU32le bs with
        | .error e => .error (liftErr e)
        | .ok (n, bs) =>
          if n = 0 then .ok []
          else if order = 1 then .error .order1
          else
            match readFreqs bs with
            | .error e => .error (liftErr e)
            | .ok (F, bs) =>
              let C := cumL F
              match readU32le bs with
              | .error e => .error (liftErr e)
              | .ok (r0, bs) =>
              match readU32le bs with
              | .error e => .error (liftErr e)
              | .ok (r1, bs) =>
              match readU32le bs with
              | .error e => .error (liftErr e)
              | .ok (r2, bs) =>
              match readU32le bs with
              | .error e => .error (liftErr e)
              | .ok (r3, bs) =>
                match decSyms F C n 0 [r0, r1, r2, r3] bs [] with
                | .error e => .error (liftErr e)
                | .ok (out, _, _) => .ok out

end Noodles.Cram.R4
