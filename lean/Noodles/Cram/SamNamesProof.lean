import Noodles.Cram.SamSpec
/-! The names `resolve_mates_with` leaves, for a slice whose links form disjoint pairs. -/
namespace Noodles.Cram.Sam
open Noodles.Cram Noodles.Cram.Enc Noodles.Cram.Mates

/-- the name record `i` has after the generation step of its own iteration -/
def genName (gen : Bool) (c : Nat) (orig : List (Option (List Nat))) (i : Nat) : Option (List Nat) :=
  if gen && (orig.getD i none).isNone then some (idName (c + i)) else orig.getD i none

/-- the record that links to `p`, if any -/
def predOf (mi : List (Option Nat)) (p : Nat) : Option Nat :=
  (List.range p).find? fun i => mi.getD i none == some p

/-- **the name rule**: the second record of a linked pair without a name of its own takes the first's
(generated, if asked to and missing); every other record keeps its name or, if asked to and missing,
gets its own record number -/
def specName (gen : Bool) (c : Nat) (orig : List (Option (List Nat))) (mi : List (Option Nat)) (p : Nat) :
    Option (List Nat) :=
  match predOf mi p with
  | some i => if (orig.getD p none).isNone then genName gen c orig i else orig.getD p none
  | none => genName gen c orig p

theorem predOf_none (mi : List (Option Nat)) (p : Nat) (h : ∀ i, mi.getD i none ≠ some p) : predOf mi p = none := by
  unfold predOf
  rw [List.find?_eq_none]
  intro x _
  simpa using h x

theorem predOf_some (mi : List (Option Nat)) (n : Nat) (hp : PairLinks mi n) (i p : Nat)
    (h : mi.getD i none = some p) : predOf mi p = some i := by
  unfold predOf
  cases hf : (List.range p).find? (fun i => mi.getD i none == some p) with
  | none =>
    rw [List.find?_eq_none] at hf
    have := hf i (by simp; exact (hp.fwd i p h).1)
    simp only [beq_iff_eq] at this
    exact absurd h this
  | some x =>
    have := List.find?_some hf
    simp only [beq_iff_eq] at this
    rw [hp.inj x i p this h]

/-- record `p` has been named: its own iteration is over, or the iteration of the record that links to it -/
def Done (mi : List (Option Nat)) (k p : Nat) : Prop := p < k ∨ ∃ i, i < k ∧ mi.getD i none = some p

/-- the state after the first `k` iterations -/
structure NInv (gen : Bool) (c : Nat) (orig : List (Option (List Nat))) (mi : List (Option Nat)) (k : Nat)
    (ns : List (Option (List Nat))) (mi' : List (Option Nat)) : Prop where
  len : ns.length = orig.length
  done : ∀ p, Done mi k p → ns.getD p none = specName gen c orig mi p
  todo : ∀ p, ¬ Done mi k p → ns.getD p none = orig.getD p none
  links : ∀ q, k ≤ q → mi'.getD q none = mi.getD q none

theorem getD_modify {α : Type} (l : List α) (i j : Nat) (f : α → α) (d : α) :
    (l.modify i f).getD j d = if i = j ∧ j < l.length then f (l.getD j d) else l.getD j d := by
  rw [List.getD_eq_getElem?_getD, List.getD_eq_getElem?_getD, List.getElem?_modify]
  by_cases hij : i = j
  · subst hij
    rcases Nat.lt_or_ge i l.length with hl | hl
    · simp [List.getElem?_eq_getElem hl, hl]
    · simp [List.getElem?_eq_none hl, Nat.not_lt.mpr hl]
  · simp [hij]

theorem getD_set' {α : Type} (l : List α) (i j : Nat) (a d : α) :
    (l.set i a).getD j d = if i = j ∧ j < l.length then a else l.getD j d := by
  rw [List.getD_eq_getElem?_getD, List.getD_eq_getElem?_getD, List.getElem?_set]
  by_cases hij : i = j
  · subst hij
    rcases Nat.lt_or_ge i l.length with hl | hl
    · simp [hl]
    · simp [List.getElem?_eq_none hl, Nat.not_lt.mpr hl]
  · simp [hij]

/-- one iteration of the `for i in 0..records.len()` loop, names only -/
def nStep (gen : Bool) (c k : Nat) (ns : List (Option (List Nat))) (mi' : List (Option Nat)) :
    List (Option (List Nat)) × List (Option Nat) :=
  let ns1 := if gen && (ns.getD k none).isNone then ns.set k (some (idName (c + k))) else ns
  match mi'.getD k none with
  | none => (ns1, mi')
  | some _ => (nameWalk ns1.length ns1 mi' k, (Mates.walk2 ns1.length [] mi' k 0).2)

theorem namesGo_cons (gen : Bool) (c k : Nat) (rest : List Nat) (ns : List (Option (List Nat)))
    (mi' : List (Option Nat)) :
    namesGo gen c (k :: rest) ns mi' = namesGo gen c rest (nStep gen c k ns mi').1 (nStep gen c k ns mi').2 := by
  rw [namesGo]
  simp only [nStep]
  cases h : mi'.getD k none <;> rfl

theorem nameWalk_pair (fuel : Nat) (hf : 1 ≤ fuel) (ns : List (Option (List Nat))) (mi : List (Option Nat)) (k j : Nat)
    (h1 : mi.getD k none = some j) (h2 : mi.getD j none = none) :
    nameWalk fuel ns mi k = ns.modify j fun n => if n.isNone then ns.getD k none else n := by
  cases fuel with
  | zero => omega
  | succ f =>
    rw [nameWalk]
    simp only [h1]
    cases f with
    | zero => rfl
    | succ f => rw [nameWalk]; simp only [h2]

theorem walk2_links_pair (fuel : Nat) (hf : 1 ≤ fuel) (mi : List (Option Nat)) (k j : Nat) (hkj : k ≠ j)
    (h1 : mi.getD k none = some j) (h2 : mi.getD j none = none) :
    (Mates.walk2 fuel [] mi k 0).2 = mi.set k none := by
  cases fuel with
  | zero => omega
  | succ f =>
    rw [Mates.walk2]
    simp only [h1]
    cases f with
    | zero => rfl
    | succ f =>
      rw [Mates.walk2]
      have : (mi.set k none).getD j none = none := by
        rw [getD_set', if_neg (fun e => hkj e.1)]; exact h2
      simp only [this]

theorem NInv.step (gen : Bool) (c : Nat) (orig : List (Option (List Nat))) (mi : List (Option Nat))
    (hp : PairLinks mi orig.length) (k : Nat) (hk : k < orig.length) (ns : List (Option (List Nat)))
    (mi' : List (Option Nat)) (h : NInv gen c orig mi k ns mi') :
    NInv gen c orig mi (k + 1) (nStep gen c k ns mi').1 (nStep gen c k ns mi').2 := by
  obtain ⟨hlen, hdone, htodo, hlinks⟩ := h
  -- the generation step
  have hgen : ∃ ns1, (if (gen && (ns.getD k none).isNone) = true then ns.set k (some (idName (c + k))) else ns) = ns1 ∧
      ns1.length = orig.length ∧ ns1.getD k none = specName gen c orig mi k ∧
      ∀ p, p ≠ k → ns1.getD p none = ns.getD p none := by
    refine ⟨_, rfl, ?_, ?_, ?_⟩
    · split <;> simp [hlen]
    · by_cases htar : ∃ i, i < k ∧ mi.getD i none = some k
      · -- `k` is the second record of a pair: it has its name already
        have hd := hdone k (.inr htar)
        obtain ⟨i, hik, hi⟩ := htar
        have hs : specName gen c orig mi k =
            if (orig.getD k none).isNone then genName gen c orig i else orig.getD k none := by
          simp only [specName, predOf_some mi _ hp i k hi]
        have hnone : (gen && (ns.getD k none).isNone) = false := by
          rw [hd, hs]
          cases gen with
          | false => rfl
          | true =>
            simp only [Bool.true_and]
            split
            · simp only [genName, Bool.true_and]
              split
              · rfl
              · rename_i h2; cases hx : orig.getD i none <;> simp_all
            · rename_i h1; cases hx : orig.getD k none <;> simp_all
        simp only [hnone, Bool.false_eq_true, if_false]
        exact hd
      · have hno : ∀ i, mi.getD i none ≠ some k := fun i hi => htar ⟨i, (hp.fwd i k hi).1, hi⟩
        have ht := htodo k (by
          intro hd
          rcases hd with hd | hd
          · omega
          · exact htar hd)
        have hs : specName gen c orig mi k = genName gen c orig k := by
          simp only [specName, predOf_none mi k hno]
        rw [hs, ht]
        unfold genName
        split
        · rw [getD_set']; simp [hlen, hk]
        · exact ht
    · intro p hpk
      split
      · rw [getD_set']; simp [Ne.symm hpk]
      · rfl
  obtain ⟨ns1, hns1, l1, g1, o1⟩ := hgen
  have hmk : mi'.getD k none = mi.getD k none := hlinks k (Nat.le_refl _)
  cases hm : mi.getD k none with
  | none =>
    have hst : nStep gen c k ns mi' = (ns1, mi') := by
      simp only [nStep, hns1, hmk, hm]
    rw [hst]
    refine ⟨l1, ?_, ?_, fun q hq => hlinks q (by omega)⟩
    · intro p hd
      by_cases hpk : p = k
      · subst hpk; exact g1
      · rw [o1 p hpk]
        apply hdone
        rcases hd with hd | ⟨i, hi, hl⟩
        · exact .inl (by omega)
        · by_cases hik : i = k
          · subst hik; rw [hm] at hl; cases hl
          · exact .inr ⟨i, by omega, hl⟩
    · intro p hd
      have hpk : p ≠ k := fun e => hd (.inl (by omega))
      rw [o1 p hpk]
      apply htodo
      intro hd'
      rcases hd' with hd' | ⟨i, hi, hl⟩
      · exact hd (.inl (by omega))
      · exact hd (.inr ⟨i, by omega, hl⟩)
  | some j =>
    obtain ⟨hkj, hjn⟩ := hp.fwd k j hm
    have hmj : mi.getD j none = none := hp.last k j hm
    have hmj' : mi'.getD j none = none := by rw [hlinks j (by omega)]; exact hmj
    have hmk' : mi'.getD k none = some j := by rw [hmk]; exact hm
    have hst : nStep gen c k ns mi' =
        (ns1.modify j (fun n => if n.isNone then ns1.getD k none else n), mi'.set k none) := by
      simp only [nStep, hns1, hmk']
      rw [nameWalk_pair _ (by omega) ns1 mi' k j hmk' hmj', walk2_links_pair _ (by omega) mi' k j (by omega) hmk' hmj']
    rw [hst]
    have hknt : ∀ i, mi.getD i none ≠ some k := by
      intro i hi
      have := hp.last i k hi
      rw [hm] at this; cases this
    have hsk : specName gen c orig mi k = genName gen c orig k := by
      simp only [specName, predOf_none mi k hknt]
    have hjtodo : ¬ Done mi k j := by
      intro hd
      rcases hd with hd | ⟨i, hi, hl⟩
      · omega
      · have := hp.inj i k j hl hm; omega
    refine ⟨by simp [l1], ?_, ?_, ?_⟩
    · intro p hd
      rw [getD_modify]
      by_cases hpj : p = j
      · subst hpj
        have hjl : p < ns1.length := by omega
        simp only [true_and, hjl, if_true]
        rw [o1 p (by omega), htodo p hjtodo, g1, hsk]
        simp only [specName, predOf_some mi _ hp k p hm]
      · have : ¬ (j = p ∧ p < ns1.length) := fun e => hpj e.1.symm
        simp only [this, if_false]
        by_cases hpk : p = k
        · subst hpk; exact g1
        · rw [o1 p hpk]
          apply hdone
          rcases hd with hd | ⟨i, hi, hl⟩
          · exact .inl (by omega)
          · by_cases hik : i = k
            · subst hik; rw [hm] at hl; cases hl; exact absurd rfl hpj
            · exact .inr ⟨i, by omega, hl⟩
    · intro p hd
      have hpk : p ≠ k := fun e => hd (.inl (by omega))
      have hpj : p ≠ j := fun e => hd (.inr ⟨k, by omega, by rw [e]; exact hm⟩)
      rw [getD_modify]
      have : ¬ (j = p ∧ p < ns1.length) := fun e => hpj e.1.symm
      simp only [this, if_false]
      rw [o1 p hpk]
      apply htodo
      intro hd'
      rcases hd' with hd' | ⟨i, hi, hl⟩
      · exact hd (.inl (by omega))
      · exact hd (.inr ⟨i, by omega, hl⟩)
    · intro q hq
      rw [getD_set']
      have : ¬ (k = q ∧ q < mi'.length) := fun e => by omega
      simp only [this, if_false]
      exact hlinks q (by omega)

theorem namesGo_range' (gen : Bool) (c : Nat) (orig : List (Option (List Nat))) (mi : List (Option Nat))
    (hp : PairLinks mi orig.length) : ∀ (m k : Nat) (ns : List (Option (List Nat))) (mi' : List (Option Nat)),
    k + m = orig.length → NInv gen c orig mi k ns mi' →
    ∃ ns' mi'', namesGo gen c (List.range' k m) ns mi' = ns' ∧ NInv gen c orig mi orig.length ns' mi'' := by
  intro m
  induction m with
  | zero =>
    intro k ns mi' hk h
    have : k = orig.length := by omega
    subst this
    exact ⟨ns, mi', rfl, h⟩
  | succ m ih =>
    intro k ns mi' hk h
    rw [List.range'_succ, namesGo_cons]
    exact ih (k + 1) _ _ (by omega) (NInv.step gen c orig mi hp k (by omega) ns mi' h)

/-- **the names `resolve_mates_with` leaves** on a slice whose links form disjoint pairs -/
theorem namesGo_spec (gen : Bool) (c : Nat) (orig : List (Option (List Nat))) (mi : List (Option Nat))
    (hp : PairLinks mi orig.length) (p : Nat) (hpl : p < orig.length) :
    (namesGo gen c (List.range orig.length) orig mi).getD p none = specName gen c orig mi p := by
  have h0 : NInv gen c orig mi 0 orig mi :=
    ⟨rfl, fun p hd => by rcases hd with hd | ⟨i, hi, _⟩ <;> omega, fun _ _ => rfl, fun _ _ => rfl⟩
  obtain ⟨ns', mi'', e, h⟩ := namesGo_range' gen c orig mi hp orig.length 0 orig mi (by omega) h0
  rw [List.range_eq_range', e]
  exact h.done p (.inl hpl)

theorem pairFirst_some (vs : List Mates.Rec) (p i : Nat) (h : pairFirst vs p = some i) :
    ∃ d, md vs i = some d ∧ i + d + 1 = p := by
  have := List.find?_some h
  simp only [beq_iff_eq] at this
  cases hm : md vs i with
  | none => rw [hm] at this; cases this
  | some d => rw [hm] at this; exact ⟨d, rfl, by simpa using this⟩

theorem pairFirst_of_hasPred (vs : List Mates.Rec) (p : Nat) (h : hasPred vs p) : pairFirst vs p ≠ none := by
  obtain ⟨p', d, hpd, hm⟩ := h
  intro hn
  unfold pairFirst at hn
  rw [List.find?_eq_none] at hn
  have := hn p' (by simp; omega)
  simp [hm, hpd] at this

/-- the reader-side rule (`specName`: stored names and links) is the SAM-side rule (`expectedName`) -/
theorem names_expected (pn : Bool) (counter : Nat) (rs : List SamRec) (ms : List Mates.Rec)
    (view : SamRec → Mates.Rec) (hms : ms = rs.map view) (hview : ∀ r, (view r).name = r.name.map nameCode)
    (orig : List (Option (List Nat))) (mi : List (Option Nat))
    (hmiw : ∀ q, mi.getD q none = (md ms q).map fun d => q + d + 1)
    (horig : ∀ (q : Nat) (rq : SamRec), rs[q]? = some rq → ∃ dtq : Bool,
      orig.getD q none = (if pn || dtq then rq.name else none) ∧
      (dtq = false ↔ ((md ms q).isSome = true ∨ hasPred ms q)))
    (p : Nat) (r : SamRec) (hp : rs[p]? = some r) :
    specName (!pn) counter orig mi p = expectedName pn counter ms p r.name := by
  have hpred : predOf mi p = pairFirst ms p := by
    unfold predOf pairFirst
    congr 1
    funext i
    rw [hmiw]
  obtain ⟨dt, o1, o2⟩ := horig p r hp
  unfold specName expectedName
  rw [hpred]
  cases pn with
  | true =>
    simp only [Bool.not_true, Bool.true_or, if_true] at o1 ⊢
    cases hpf : pairFirst ms p with
    | none =>
      simp only [genName, Bool.false_and, Bool.false_eq_true, if_false]
      exact o1
    | some i =>
      simp only [genName, Bool.false_and, Bool.false_eq_true, if_false, o1]
      split
      · rename_i hnone
        have hrn : r.name = none := by cases hx : r.name <;> simp_all
        obtain ⟨d, hmd, hid⟩ := pairFirst_some ms p i hpf
        obtain ⟨a, b, ha, hb, _, _, hn⟩ := md_some ms i d hmd
        rw [hid, hms, List.getElem?_map, hp] at hb
        rw [hms, List.getElem?_map] at ha
        cases hri : rs[i]? with
        | none => rw [hri] at ha; cases ha
        | some ri =>
          rw [hri] at ha
          simp only [Option.map_some, Option.some.injEq] at ha hb
          subst ha; subst hb
          rw [hview, hview, hrn] at hn
          have : ri.name = none := by cases hx : ri.name <;> simp_all
          obtain ⟨dti, q1, _⟩ := horig i ri hri
          simp only [Bool.true_or, if_true] at q1
          rw [q1, this, hrn]
      · rfl
  | false =>
    simp only [Bool.not_false, Bool.false_or, Bool.false_eq_true, if_false] at o1 ⊢
    cases hpf : pairFirst ms p with
    | some i =>
      obtain ⟨d, hmd, hid⟩ := pairFirst_some ms p i hpf
      have hdt : dt = false := o2.mpr (.inr ⟨i, d, hid, hmd⟩)
      have hri : ∃ ri, rs[i]? = some ri := by
        obtain ⟨a, b, ha, _⟩ := md_some ms i d hmd
        rw [hms, List.getElem?_map] at ha
        cases hx : rs[i]? with
        | none => rw [hx] at ha; cases ha
        | some ri => exact ⟨ri, rfl⟩
      obtain ⟨ri, hri⟩ := hri
      obtain ⟨dti, q1, q2⟩ := horig i ri hri
      have hdti : dti = false := q2.mpr (.inl (by rw [hmd]; rfl))
      simp only [hdti, Bool.false_or, Bool.false_eq_true, if_false] at q1
      simp only [genName, Bool.true_and, o1, hdt, Bool.false_eq_true, if_false, q1, Option.isNone_none, if_true]
    | none =>
      simp only
      cases hmd : md ms p with
      | some d =>
        have hdt : dt = false := o2.mpr (.inl (by rw [hmd]; rfl))
        simp only [genName, Bool.true_and, o1, hdt, Bool.false_eq_true, if_false, Option.isNone_none, if_true,
          Option.isSome_some]
      | none =>
        have hdt : dt = true := by
          cases hx : dt with
          | true => rfl
          | false =>
            rcases o2.mp hx with h1 | h1
            · rw [hmd] at h1; cases h1
            · exact absurd hpf (pairFirst_of_hasPred ms p h1)
        simp only [genName, o1, hdt, if_true, Bool.true_and, Option.isSome_none, Bool.false_eq_true, if_false]
        cases r.name <;> simp

end Noodles.Cram.Sam
