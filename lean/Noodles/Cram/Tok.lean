import Noodles.Cram.Num
/-!
# CRAM 3.1 read name tokenizer

Transcribed from
* `noodles-cram/src/codecs/name_tokenizer.rs` (`Type`, `TryFrom<u8> for Type`, `From<Type> for u8`),
* `noodles-cram/src/codecs/name_tokenizer/encode.rs` (`encode`, `write_header`, `tokenize`,
  `build_first_diff`, `build_diff`, `parse_digits0`, `parse_digits`, `parse_delta`, `parse_delta0`,
  `parse_u32`, `TokenWriter::write_token`, `write_type`, `encode_token_byte_streams`,
  `encode_token_byte_stream`),
* `noodles-cram/src/codecs/name_tokenizer/decode.rs` (`decode`, `TokenReader::{get, set, read_type,
  read_distance, read_token}`, `decode_token_byte_streams`, `decode_single_name`, `split_off`),
* `noodles-cram/src/codecs/name_tokenizer/decode/header.rs` (`read_header`).

Bytes are natural numbers `< 256` as in `Noodles/Cram/Num.lean`, whose `writeUint7` / `readUint7`
are reused for the 7-bit lengths.

The compressor applied to every token byte stream (`rans_nx16::encode(Flags::empty(), ·)` in the
encoder; `rans_nx16::decode(·, 0)` or `aac::decode(·, 0)`, chosen by the header's method byte, in
the decoder) is a PARAMETER, `StreamCodec`; the only thing assumed about it is `StreamCodec.Lawful`
(what it encodes it decodes). rANS Nx16 itself is modelled and proved in `Nx16.lean`.

Modelling decisions (each is checked on every run by the correspondence requests `tokenc` /
`tokdec`, see `DriverC08Tok.lean` and `harness/src/props/c08_tok.rs`):
* `Cursor<Vec<u8>>` readers are the lists of bytes not yet read. (`get_ref().clone()` of a stream
  that is copied by a `tok_dup` item happens before anything is read, so "the whole buffer" and
  "the unread rest" coincide.)
* the decoder's `tokens[n] : Vec<Option<Token>>` (`vec![None]` for the distance token, then one
  `Some(token)` pushed per token by `decode_single_name`) is the list of the pushed tokens;
  `tokens[m].get(t)` is `toks[t-1]?`.
* `names` / `tokens` grow by one entry per name and are indexed by `n` and `m = n - dist ≤ n`; the
  model keeps the list `done` of the names decoded so far (`m = n` reads the entry that is being
  filled: an empty name and, at position `t`, no token yet).
* the decoder described is the one WITH the hardening fix (`b8ecbd9`): out-of-range positions,
  distances, token counts and `u32` overflows of deltas are `InvalidData` errors. On corrupt input
  the correspondence only compares accepted-with-these-bytes against rejected, so the error
  classes of the model are documentation.
* `dst.try_reserve_exact(uncompressed_size)` is assumed to succeed (the declared size is not used
  otherwise; the harness keeps it small).
* `names_indices : HashMap<&[u8], usize>` is an association list with the same `get` /
  `entry(..).or_insert(..)` behaviour.
* the order in which the encoder detects its (all `InvalidInput`) refusals is not observable; the
  model builds all token streams first and serialises them afterwards.
-/
namespace Noodles.Cram.Tok
open Noodles.Cram.Num (readUint7 writeUint7)

abbrev Bytes := List Nat

inductive Err | eof | invalidData | invalidInput
  deriving Repr, DecidableEq

/-! ## the inner stream compressor (parameter) -/

/-- `enc`: `rans_nx16::encode(Flags::empty(), ·)` (`none`: the compressor refuses);
`dec`: `rans_nx16::decode(·, 0)`; `decAlt`: `aac::decode(·, 0)`. -/
structure StreamCodec where
  enc : Bytes → Option Bytes
  dec : Bytes → Option Bytes
  decAlt : Bytes → Option Bytes

/-- The assumed law: a byte string that the compressor encodes is decoded back by the
decompressor the encoder's header selects (method 0). Validated by the harness on every inner
stream of every run. -/
def StreamCodec.Lawful (c : StreamCodec) : Prop :=
  ∀ x y, (∀ b ∈ x, b < 256) → c.enc x = some y → c.dec y = some x

/-! ## token types -/

inductive Ty
  | type | string | char | digits0 | dzLen | dup | diff | digits | delta | delta0 | «match» | nop
  | «end»
  deriving Repr, DecidableEq

/-- `From<Type> for u8` (= `write_type`) -/
def Ty.toByte : Ty → Nat
  | .type => 0 | .string => 1 | .char => 2 | .digits0 => 3 | .dzLen => 4 | .dup => 5 | .diff => 6
  | .digits => 7 | .delta => 8 | .delta0 => 9 | .match => 10 | .nop => 11 | .end => 12

/-- `TryFrom<u8> for Type`: `n & 0x3f`, values above 12 are an error -/
def Ty.ofByte (n : Nat) : Option Ty :=
  match n % 64 with
  | 0 => some .type | 1 => some .string | 2 => some .char | 3 => some .digits0 | 4 => some .dzLen
  | 5 => some .dup | 6 => some .diff | 7 => some .digits | 8 => some .delta | 9 => some .delta0
  | 10 => some .match | 11 => some .nop | 12 => some .end
  | _ => none

/-! ## fixed-width integers -/

/-- `write_u32_le` -/
def le32 (n : Nat) : Bytes := [n % 256, n / 256 % 256, n / 65536 % 256, n / 16777216 % 256]

/-- `read_u32_le` -/
def readU32 : Bytes → Except Err (Nat × Bytes)
  | a :: b :: c :: d :: r => .ok (a + 256 * b + 65536 * c + 16777216 * d, r)
  | _ => .error .eof

/-- `read_u8` -/
def readU8 : Bytes → Except Err (Nat × Bytes)
  | b :: r => .ok (b, r)
  | [] => .error .eof

/-! ## the ten byte streams of one token position (`TokenWriter` / `TokenReader`) -/

structure Streams where
  ty : Bytes := []
  str : Bytes := []
  chr : Bytes := []
  d0 : Bytes := []
  dz : Bytes := []
  dup : Bytes := []
  diff : Bytes := []
  dig : Bytes := []
  del : Bytes := []
  del0 : Bytes := []
  deriving Repr, DecidableEq

/-- the streams in the order `encode_token_byte_streams` writes them -/
def Streams.items (w : Streams) : List (Ty × Bytes) :=
  [(.type, w.ty), (.string, w.str), (.char, w.chr), (.digits0, w.d0), (.dzLen, w.dz),
   (.dup, w.dup), (.diff, w.diff), (.digits, w.dig), (.delta, w.del), (.delta0, w.del0)]

/-- `TokenReader::get` (`Match`, `Nop`, `End` have no byte stream) -/
def Streams.get (r : Streams) : Ty → Except Err Bytes
  | .type => .ok r.ty | .string => .ok r.str | .char => .ok r.chr | .digits0 => .ok r.d0
  | .dzLen => .ok r.dz | .dup => .ok r.dup | .diff => .ok r.diff | .digits => .ok r.dig
  | .delta => .ok r.del | .delta0 => .ok r.del0
  | _ => .error .invalidData

/-- `TokenReader::set` (`Match`, `Nop`, `End` have no byte stream) -/
def Streams.set (r : Streams) : Ty → Bytes → Except Err Streams
  | .type, b => .ok { r with ty := b } | .string, b => .ok { r with str := b }
  | .char, b => .ok { r with chr := b } | .digits0, b => .ok { r with d0 := b }
  | .dzLen, b => .ok { r with dz := b } | .dup, b => .ok { r with dup := b }
  | .diff, b => .ok { r with diff := b } | .digits, b => .ok { r with dig := b }
  | .delta, b => .ok { r with del := b } | .delta0, b => .ok { r with del0 := b }
  | _, _ => .error .invalidData

/-! ## encoder: splitting the input into names -/

/-- `slice::split(|b| b == NUL)`: always at least one field -/
def splitOn0 : Bytes → List Bytes
  | [] => [[]]
  | b :: r =>
    if b = 0 then [] :: splitOn0 r
    else match splitOn0 r with
      | [] => [[b]]          -- unreachable, kept total
      | f :: fs => (b :: f) :: fs

/-- `src.strip_suffix(&[NUL])` (or `src` itself) -/
def stripNul (src : Bytes) : Bytes := if src.getLast? = some 0 then src.dropLast else src

/-- the `names` of `encode`: an empty input is an empty list, otherwise one trailing NUL is
dropped and the rest is split at every NUL -/
def splitNames (src : Bytes) : List Bytes := if src = [] then [] else splitOn0 (stripNul src)

/-! ## encoder: raw tokens -/

/-- `u8::is_ascii_alphanumeric` -/
def isAlnum (b : Nat) : Bool := (48 ≤ b && b ≤ 57) || (65 ≤ b && b ≤ 90) || (97 ≤ b && b ≤ 122)

/-- `tokenize`: the maximal runs of alphanumeric / non-alphanumeric bytes, in order. (The Rust
iterator alternates two `while` loops; both stop exactly where the class of the byte changes.) -/
def tokenize : Bytes → List Bytes
  | [] => []
  | b :: r =>
    match tokenize r with
    | (c :: t) :: ts => if isAlnum b = isAlnum c then (b :: c :: t) :: ts else [b] :: (c :: t) :: ts
    | [] :: ts => [b] :: ts   -- unreachable
    | [] => [[b]]

/-- value of a string of ASCII digits read after `acc`; `none` at the first other byte -/
def digitsVal : Bytes → Nat → Option Nat
  | [], acc => some acc
  | b :: r, acc => if 48 ≤ b ∧ b ≤ 57 then digitsVal r (acc * 10 + (b - 48)) else none

/-- at least one digit, nothing but digits, value at most `u32::MAX` -/
def parseDigits (d : Bytes) : Option Nat :=
  if d = [] then none
  else match digitsVal d 0 with
    | some v => if v < 2 ^ 32 then some v else none
    | none => none

/-- `parse_u32` = `lexical_core::parse::<u32>` (complete parser, default format): an optional `+`,
at least one digit, nothing but digits, value at most `u32::MAX` (leading zeros do not count).
Which of `Empty` / `InvalidDigit` / `Overflow` is reported is dropped by `.ok()`. -/
def parseU32 (s : Bytes) : Option Nat :=
  match s with
  | 43 :: r => parseDigits r
  | _ => parseDigits s

/-- `parse_digits0` -/
def parseDigits0 (s : Bytes) : Option Nat := if s.head? = some 48 then parseU32 s else none

/-- encoder tokens (`enum Token` of `encode.rs`) -/
inductive Token
  | string (s : Bytes)
  | char (b : Nat)
  | padded (n w : Nat)
  | dup (d : Nat)
  | diff (d : Nat)
  | digits (n : Nat)
  | delta (n d : Nat)
  | delta0 (n d : Nat)
  | «match»
  | «end»
  deriving Repr, DecidableEq

/-- `Token::ty` -/
def Token.ty : Token → Ty
  | .string _ => .string | .char _ => .char | .padded .. => .digits0 | .dup _ => .dup
  | .diff _ => .diff | .digits _ => .digits | .delta .. => .delta | .delta0 .. => .delta0
  | .match => .match | .end => .end

/-- the token of a raw token that is not coded against the previous name (the `if let Some(n) =
parse_digits0 … else if … parse_digits … else if len == 1 … else …` chain, identical in
`build_first_diff` and `build_diff`) -/
def freshToken (s : Bytes) : Token :=
  match parseDigits0 s with
  | some n => .padded n s.length
  | none =>
    match parseU32 s with
    | some n => .digits n
    | none =>
      match s with
      | [b] => .char b
      | _ => .string s

/-- the common tail of `parse_delta` / `parse_delta0`: `m = parse_u32(s)?`, `m >= n`,
`m - n <= u8::MAX` -/
def deltaOf (n : Nat) (s : Bytes) : Option (Nat × Nat) :=
  match parseU32 s with
  | some m => if n ≤ m ∧ m - n ≤ 255 then some (m, m - n) else none
  | none => none

/-- `parse_delta` (with the leading-zero guard of the fix) -/
def parseDelta : Token → Bytes → Option (Nat × Nat)
  | .digits n, s => if s.head? = some 48 then none else deltaOf n s
  | .delta n _, s => if s.head? = some 48 then none else deltaOf n s
  | _, _ => none

/-- `parse_delta0` -/
def parseDelta0 (prevS : Bytes) : Token → Bytes → Option (Nat × Nat)
  | .padded n _, s => if s.length = prevS.length then deltaOf n s else none
  | .delta0 n _, s => if s.length = prevS.length then deltaOf n s else none
  | _, _ => none

/-- one iteration of the loop of `build_diff`: `prevRaw` / `prevTok` are
`prev_diff.raw_tokens.get(j)` / `prev_diff.tokens.get(j)` -/
def diffToken (prevRaw : Option Bytes) (prevTok : Option Token) (s : Bytes) : Token :=
  match prevRaw, prevTok with
  | some pr, some pt =>
    if s = pr then .match
    else match parseDelta pt s with
      | some (n, d) => .delta n d
      | none =>
        match parseDelta0 pr pt s with
        | some (n, d) => .delta0 n d
        | none => freshToken s
  | _, _ => freshToken s

/-- the loop of `build_diff` over `tokenize(name).enumerate()`: the two `get(j)` are the heads of
the previous name's lists with `j` elements dropped. With both lists empty this is the loop of
`build_first_diff`. -/
def diffTokens : List Bytes → List Bytes → List Token → List Token
  | [], _, _ => []
  | s :: ss, prs, pts => diffToken prs.head? pts.head? s :: diffTokens ss prs.tail pts.tail

inductive Mode
  | diff (d : Nat)
  | dup (d : Nat)
  deriving Repr, DecidableEq

/-- `struct Diff` -/
structure Diff where
  mode : Mode
  raw : List Bytes
  tokens : List Token
  deriving Repr

instance : Inhabited Diff := ⟨⟨.diff 0, [], []⟩⟩

/-- `Diff::delta` -/
def Diff.delta (d : Diff) : Nat := match d.mode with | .diff k => k | .dup k => k
/-- `Diff::is_dup` -/
def Diff.isDup (d : Diff) : Bool := match d.mode with | .dup _ => true | .diff _ => false

/-- `build_first_diff` -/
def buildFirstDiff (name : Bytes) : Diff :=
  { mode := .diff 0, raw := tokenize name, tokens := diffTokens (tokenize name) [] [] ++ [.end] }

/-- `names_indices.get(name)` -/
def lookup (name : Bytes) : List (Bytes × Nat) → Option Nat
  | [] => none
  | (k, v) :: r => if k = name then some v else lookup name r

/-- `names_indices.entry(name).or_insert(i)` -/
def insertIfAbsent (seen : List (Bytes × Nat)) (name : Bytes) (i : Nat) : List (Bytes × Nat) :=
  match lookup name seen with
  | some _ => seen
  | none => seen ++ [(name, i)]

/-- `build_diff`; `diffs[i - delta]` is always in range (`getD` never takes its default, see
`TokProof.lean`) -/
def buildDiff (diffs : List Diff) (seen : List (Bytes × Nat)) (i : Nat) (name : Bytes) : Diff :=
  let mode := match lookup name seen with
    | some j => Mode.dup (i - j)
    | none => Mode.diff 1
  let delta := match mode with | .diff k => k | .dup k => k
  let prev := diffs.getD (i - delta) default
  let raw := tokenize name
  { mode := mode, raw := raw, tokens := diffTokens raw prev.raw prev.tokens ++ [.end] }

/-- the loop `for (i, name) in names.iter().enumerate().skip(1)` of `encode` -/
def buildRest : List Bytes → Nat → List Diff → List (Bytes × Nat) → List Diff
  | [], _, diffs, _ => diffs
  | name :: rest, i, diffs, seen =>
    buildRest rest (i + 1) (diffs ++ [buildDiff diffs seen i name]) (insertIfAbsent seen name i)

/-- all `diffs` of `encode` -/
def buildDiffs : List Bytes → List Diff
  | [] => []
  | name :: rest => buildRest rest 1 [buildFirstDiff name] []

/-- `max_token_count` -/
def maxTokenCount (diffs : List Diff) : Nat := diffs.foldl (fun m d => max m d.tokens.length) 0

/-! ## encoder: token byte streams -/

/-- `TokenWriter::write_token` (the type byte first, then the payload) -/
def writeToken (w : Streams) : Token → Except Err Streams
  | .string s => .ok { w with ty := w.ty ++ [1], str := w.str ++ (s ++ [0]) }
  | .char b => .ok { w with ty := w.ty ++ [2], chr := w.chr ++ [b] }
  | .padded n wd =>
    if wd < 256 then .ok { w with ty := w.ty ++ [3], d0 := w.d0 ++ le32 n, dz := w.dz ++ [wd] }
    else .error .invalidInput
  | .dup d =>
    if d < 2 ^ 32 then .ok { w with ty := w.ty ++ [5], dup := w.dup ++ le32 d }
    else .error .invalidInput
  | .diff d =>
    if d < 2 ^ 32 then .ok { w with ty := w.ty ++ [6], diff := w.diff ++ le32 d }
    else .error .invalidInput
  | .digits n => .ok { w with ty := w.ty ++ [7], dig := w.dig ++ le32 n }
  | .delta _ d => .ok { w with ty := w.ty ++ [8], del := w.del ++ [d] }
  | .delta0 _ d => .ok { w with ty := w.ty ++ [9], del0 := w.del0 ++ [d] }
  | .match => .ok { w with ty := w.ty ++ [10] }
  | .end => .ok { w with ty := w.ty ++ [12] }

/-- write a list of tokens into one `TokenWriter` -/
def writeTokens : Streams → List Token → Except Err Streams
  | w, [] => .ok w
  | w, t :: ts =>
    match writeToken w t with
    | .ok w' => writeTokens w' ts
    | .error e => .error e

/-- the `Dup` / `Diff` token of a name (`match diff.mode`) -/
def Diff.modeToken (d : Diff) : Token := match d.mode with | .dup k => .dup k | .diff k => .diff k

/-- the tokens that go to position `p` (0: the distance tokens of all names; `p ≥ 1`:
`diff.tokens.get(p - 1)` of the names that are not duplicates) -/
def tokensAt (diffs : List Diff) (p : Nat) : List Token :=
  match p with
  | 0 => diffs.map Diff.modeToken
  | i + 1 => diffs.filterMap fun d => if d.isDup then none else d.tokens[i]?

/-- the `TokenWriter`s of `k` consecutive positions starting at `p` -/
def streamsFrom (diffs : List Diff) : Nat → Nat → Except Err (List Streams)
  | 0, _ => .ok []
  | k + 1, p =>
    match writeTokens {} (tokensAt diffs p) with
    | .error e => .error e
    | .ok w =>
      match streamsFrom diffs k (p + 1) with
      | .error e => .error e
      | .ok ws => .ok (w :: ws)

/-- the `TokenWriter` of every position: the distance position, then `for i in 0..max_token_count` -/
def tokenStreams (diffs : List Diff) : Except Err (List Streams) :=
  streamsFrom diffs (maxTokenCount diffs + 1) 0

/-! ## serialisation -/

/-- `encode_token_byte_stream`: nothing for an empty stream; otherwise the type byte (`0x80`, the
new-token flag, for `Type::Type`), the compressed length as uint7, the compressed bytes -/
def serialiseStream (c : StreamCodec) (ty : Ty) (buf : Bytes) : Except Err Bytes :=
  if buf = [] then .ok []
  else
    let hdr := if ty = .type then 128 else ty.toByte
    match c.enc buf with
    | none => .error .invalidInput
    | some cdata =>
      if cdata.length < 2 ^ 32 then
        match writeUint7 cdata.length with
        | some l => .ok (hdr :: (l ++ cdata))
        | none => .error .invalidInput   -- unreachable for a `u32` (`Num.uint7_roundtrip'`)
      else .error .invalidInput

def serialiseItems (c : StreamCodec) : List (Ty × Bytes) → Except Err Bytes
  | [] => .ok []
  | (ty, buf) :: r =>
    match serialiseStream c ty buf with
    | .error e => .error e
    | .ok a =>
      match serialiseItems c r with
      | .error e => .error e
      | .ok b => .ok (a ++ b)

/-- `encode_token_byte_streams` for every position in turn -/
def serialise (c : StreamCodec) : List Streams → Except Err Bytes
  | [] => .ok []
  | w :: ws =>
    match serialiseItems c w.items with
    | .error e => .error e
    | .ok a =>
      match serialise c ws with
      | .error e => .error e
      | .ok b => .ok (a ++ b)

/-- `write_header`: `ulen`, `n_names` as `u32` LE, `use_arith = 0` -/
def writeHeader (srcLen nNames : Nat) : Except Err Bytes :=
  if srcLen < 2 ^ 32 then
    if nNames < 2 ^ 32 then .ok (le32 srcLen ++ le32 nNames ++ [0])
    else .error .invalidInput
  else .error .invalidInput

/-- `encode` -/
def encode (c : StreamCodec) (src : Bytes) : Except Err Bytes :=
  let names := splitNames src
  match writeHeader (stripNul src).length names.length with
  | .error e => .error e
  | .ok hdr =>
    let diffs := buildDiffs names
    if 128 ≤ maxTokenCount diffs then .error .invalidInput
    else
      match tokenStreams diffs with
      | .error e => .error e
      | .ok ws =>
        match serialise c ws with
        | .error e => .error e
        | .ok body => .ok (hdr ++ body)

/-! ## decoder -/

/-- `read_header`: uncompressed size, name count, method byte (0: rANS Nx16, otherwise AAC) -/
def readHeader (src : Bytes) : Except Err (Nat × Nat × Nat × Bytes) :=
  match readU32 src with
  | .error e => .error e
  | .ok (ulen, r) =>
    match readU32 r with
    | .error e => .error e
    | .ok (n, r) =>
      match readU8 r with
      | .error e => .error e
      | .ok (m, r) => .ok (ulen, n, m, r)

/-- `b.last_mut()?.set(ty, buf)?` (no position yet: "missing new token flag") -/
def setLast (b : List Streams) (ty : Ty) (buf : Bytes) : Except Err (List Streams) :=
  match b.getLast? with
  | none => .error .invalidData
  | some cur =>
    match cur.set ty buf with
    | .error e => .error e
    | .ok cur' => .ok (b.dropLast ++ [cur'])

/-- `decode_token_byte_streams`; `fuel` bounds the `while !src.is_empty()` loop, every iteration
of which consumes at least the type byte -/
def parseStreams (c : StreamCodec) (method nNames : Nat) :
    Nat → Bytes → List Streams → Except Err (List Streams)
  | 0, _, _ => .error .invalidData   -- unreachable with `fuel = src.length + 1`
  | _ + 1, [], b => .ok b
  | fuel + 1, ttype :: src, b =>
    let tokNew := 128 ≤ ttype % 256
    let tokDup := 64 ≤ ttype % 128
    match Ty.ofByte ttype with
    | none => .error .invalidData
    | some ty =>
      let b1 : Except Err (List Streams) :=
        if tokNew then
          if 128 ≤ b.length then .error .invalidData     -- `MAX_TOKEN_COUNT` positions
          else if ty ≠ .type then
            -- `n_names` times `Match`, the first replaced by `ty` (if there is a first)
            .ok (b ++ [{ ty := (ty.toByte :: List.replicate (nNames - 1) 10).take nNames }])
          else .ok (b ++ [{}])
        else .ok b
      match b1 with
      | .error e => .error e
      | .ok b =>
        if tokDup then
          match src with
          | dupPos :: dupTy :: src =>
            match Ty.ofByte dupTy with
            | none => .error .invalidData
            | some dty =>
              match b[dupPos]? with
              | none => .error .invalidData
              | some r =>
                match r.get dty with
                | .error e => .error e
                | .ok buf =>
                  match setLast b ty buf with
                  | .error e => .error e
                  | .ok b => parseStreams c method nNames fuel src b
          | _ => .error .eof
        else
          match readUint7 src with
          | .error .eof => .error .eof
          | .error .invalidData => .error .invalidData
          | .ok (clen, src) =>
            if src.length < clen then .error .eof
            else
              match (if method = 0 then c.dec else c.decAlt) (src.take clen) with
              | none => .error .invalidData
              | some buf =>
                match setLast b ty buf with
                | .error e => .error e
                | .ok b => parseStreams c method nNames fuel (src.drop clen) b

/-- decoder tokens (`enum Token` of `decode.rs`) -/
inductive DTok
  | char (c : Nat)
  | string (s : Bytes)
  | digits (n : Nat)
  | padded (n w : Nat)
  | nop
  deriving Repr, DecidableEq

/-- decimal digits of `n`, most significant first; `fuel > n` is never exhausted -/
def decFuel : Nat → Nat → Bytes
  | 0, _ => []
  | fuel + 1, n => if n < 10 then [48 + n] else decFuel fuel (n / 10) ++ [48 + n % 10]

/-- `Display for u32` -/
def dec (n : Nat) : Bytes := decFuel (n + 1) n

/-- what `decode_single_name` appends for a token: the byte, the string, `{d}`, `{:0width$}` -/
def render : DTok → Bytes
  | .char c => [c]
  | .string s => s
  | .digits n => dec n
  | .padded n w => List.replicate (w - (dec n).length) 48 ++ dec n
  | .nop => []

/-- `read_until(0x00, &mut buf); buf.pop()`: the bytes up to the next NUL, which is consumed; when
there is no NUL everything is consumed and the LAST BYTE IS DROPPED by the `pop` -/
def readString : Bytes → Bytes × Bytes
  | [] => ([], [])
  | b :: r =>
    if b = 0 then ([], r)
    else match r with
      | [] => ([], [])          -- `b` was the last byte and there was no NUL: popped
      | _ => let (s, r') := readString r; (b :: s, r')

/-- `TokenReader::read_token`: `none` is the `End` token -/
def readToken (r : Streams) (prev : Option DTok) : Except Err (Option DTok × Streams) :=
  match r.ty with
  | [] => .error .eof
  | tb :: tys =>
    let r := { r with ty := tys }
    match Ty.ofByte tb with
    | none => .error .invalidData
    | some .char =>
      match r.chr with
      | c :: rest => .ok (some (.char c), { r with chr := rest })
      | [] => .error .eof
    | some .string =>
      let (s, rest) := readString r.str
      .ok (some (.string s), { r with str := rest })
    | some .digits =>
      match readU32 r.dig with
      | .ok (d, rest) => .ok (some (.digits d), { r with dig := rest })
      | .error e => .error e
    | some .digits0 =>
      match readU32 r.d0 with
      | .ok (d, rest) =>
        match r.dz with
        | l :: rest' => .ok (some (.padded d l), { r with d0 := rest, dz := rest' })
        | [] => .error .eof
      | .error e => .error e
    | some .delta =>
      match r.del with
      | d :: rest =>
        match prev with
        | some (.digits n) =>
          if n + d < 2 ^ 32 then .ok (some (.digits (n + d)), { r with del := rest })
          else .error .invalidData
        | _ => .error .invalidData
      | [] => .error .eof
    | some .delta0 =>
      match r.del0 with
      | d :: rest =>
        match prev with
        | some (.padded n w) =>
          if n + d < 2 ^ 32 then .ok (some (.padded (n + d) w), { r with del0 := rest })
          else .error .invalidData
        | _ => .error .invalidData
      | [] => .error .eof
    | some .match => .ok (prev, r)
    | some .end => .ok (none, r)
    | some _ => .ok (some .nop, r)

/-- the `loop` of `decode_single_name` from position `t` on; `fuel = 128 - t` (`t >= 128`: too many
tokens). `prev` are the tokens of name `m`, `cur` / `name` those of the name being decoded. -/
def nameLoop : Nat → Nat → List Streams → List DTok → List DTok → Bytes →
    Except Err (List Streams × Bytes × List DTok)
  | 0, _, _, _, _, _ => .error .invalidData
  | fuel + 1, t, b, prev, cur, name =>
    match b[t]? with
    | none => .error .invalidData
    | some r =>
      match readToken r prev[t - 1]? with
      | .error e => .error e
      | .ok (none, r') => .ok (b.set t r', name, cur)
      | .ok (some tok, r') => nameLoop fuel (t + 1) (b.set t r') prev (cur ++ [tok]) (name ++ render tok)

/-- `read_type` and `read_distance` on the streams of position 0: the type (`Dup` or `Diff`), the
distance, the streams after the read -/
def readDistance (b0 : Streams) : Except Err (Ty × Nat × Streams) :=
  match b0.ty with
  | [] => .error .eof
  | tb :: tys =>
    match Ty.ofByte tb with
    | none => .error .invalidData
    | some .dup =>
      match readU32 b0.dup with
      | .ok (d, rest) => .ok (.dup, d, { b0 with ty := tys, dup := rest })
      | .error e => .error e
    | some .diff =>
      match readU32 b0.diff with
      | .ok (d, rest) => .ok (.diff, d, { b0 with ty := tys, diff := rest })
      | .error e => .error e
    | some _ => .error .invalidData

/-- `decode_single_name` for name number `n = done.length` -/
def decodeSingleName (b : List Streams) (done : List (Bytes × List DTok)) :
    Except Err (List Streams × Bytes × List DTok) :=
  match b[0]? with
  | none => .error .invalidData
  | some b0 =>
    match readDistance b0 with
    | .error e => .error e
    | .ok (ty, dist, b0') =>
      let n := done.length
      if n < dist then .error .invalidData   -- `n.checked_sub(dist)`
      else
        let m := n - dist
        let prev : Bytes × List DTok := if m = n then ([], []) else done.getD m ([], [])
        if ty = .dup then .ok (b.set 0 b0', prev.1, prev.2)
        else nameLoop 127 1 (b.set 0 b0') prev.2 [] []

/-- the `for i in 0..name_count` loop of `decode` -/
def decodeNames : Nat → List Streams → List (Bytes × List DTok) → Except Err (List Bytes)
  | 0, _, done => .ok (done.map (·.1))
  | k + 1, b, done =>
    match decodeSingleName b done with
    | .error e => .error e
    | .ok (b', nm, dt) => decodeNames k b' (done ++ [(nm, dt)])

/-- every name followed by a NUL -/
def joinNul (names : List Bytes) : Bytes := names.flatMap (· ++ [0])

/-- `decode` -/
def decode (c : StreamCodec) (src : Bytes) : Except Err Bytes :=
  match readHeader src with
  | .error e => .error e
  | .ok (_ulen, count, method, rest) =>
    match parseStreams c method count (rest.length + 1) rest [] with
    | .error e => .error e
    | .ok b =>
      match decodeNames count b [] with
      | .error e => .error e
      | .ok names => .ok (joinNul names)

end Noodles.Cram.Tok
