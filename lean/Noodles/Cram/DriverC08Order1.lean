import Noodles.Basic.Wire
import Noodles.Basic.Crc32
import Noodles.Cram.Order1R4
import Noodles.Cram.Order1Nx
/-! Line-protocol handler for the order-1 rANS requests of C08 (`c08 r4enc1 …`, `c08 r4dec1 …`,
`c08 nxenc1 …`, `c08 nxdec1 …`, `c08 nxdec1c …`). `handle?` answers `none` for request words that
are not its own, so that handlers can be chained. -/
namespace Noodles.Cram.DriverC08Order1
open Noodles.Wire Noodles.Cram

def toNats (b : List UInt8) : List Nat := b.map (·.toNat)
def ofNats (l : List Nat) : List UInt8 := l.map UInt8.ofNat

/-- short byte strings in full, long ones as `length:crc32` (as `DriverC08.fmtBytes`) -/
def fmtBytes (l : List Nat) : String :=
  if l.length ≤ 64 then hex (ofNats l) else s!"{l.length}:{Noodles.Crc32.crc32 (ofNats l)}"

def fmtOpt : Option (List Nat) → String
  | some d => fmtBytes d
  | none => "rej"

def handle? : List String → Option String
  | ["r4enc1", h] => some <| match unhex h with
    | some b => match O1.encode1 (toNats b) with
      | .ok e => fmtBytes e
      | .error .invalidInput => "err:invalid-input"
      | .error .zeroFreq => "hang"
    | none => "bad-op"
  -- `r4dec1`: a stream the real encoder produced; `r4dec1c`: a corrupted / hand-made stream
  | ["r4dec1", h] => some <| match unhex h with
    | some b => fmtOpt (O1.decode1 (toNats b))
    | none => "bad-op"
  | ["r4dec1c", h] => some <| match unhex h with
    | some b => fmtOpt (O1.decode1 (toNats b))
    | none => "bad-op"
  | ["nxenc1", fl, h] => some <| match (unhex fl).map toNats, unhex h with
    | some [fl], some b => match Nx.encodeA (Nx.Flags.ofByte fl) (toNats b) with
      | .ok e => fmtBytes e
      | .error .invalidInput => "err:invalid-input"
      | .error .zeroFreq => "hang"
      | .error .order1 => "unsupported-order-1"
    | _, _ => "bad-op"
  | ["nxdec1", n, h] => some <| match n.toNat?, unhex h with
    | some n, some b => match Nx.decodeA (toNats b) n with
      | .ok d => fmtBytes d
      | .error _ => "rej"
    | _, _ => "bad-op"
  -- the order-1 entropy stage alone: number of states, number of symbols, the bytes behind the
  -- flag byte of a `ORDER | NO_SIZE [| N32]` stream
  | ["nxdec1c", k, n, h] => some <| match k.toNat?, n.toNat?, unhex h with
    | some k, some n, some b =>
      if k = 0 then "bad-op" else fmtOpt (O1.decodeO1 k n (toNats b))
    | _, _, _ => "bad-op"
  | _ => none

end Noodles.Cram.DriverC08Order1
