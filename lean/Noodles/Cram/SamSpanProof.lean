import Noodles.Cram.SamValidateProof
/-! `calculate_alignment_span` of the features `cigar_to_features` builds = the number of reference
bases the CIGAR consumes. -/
namespace Noodles.Cram.Sam
open Noodles.Cram Noodles.Cram.Enc

/-- one step of the fold in `calculate_alignment_span` -/
def spanStep (acc : Option Nat) (f : Feature) : Option Nat :=
  acc.bind fun span => match f with
    | .insertion _ bs => if bs.length ≤ span then some (span - bs.length) else none
    | .insertBase _ _ => if 1 ≤ span then some (span - 1) else none
    | .deletion _ n => some (span + n)
    | .refSkip _ n => some (span + n)
    | .softClip _ bs => if bs.length ≤ span then some (span - bs.length) else none
    | _ => some span

theorem alignmentSpan_eq (n : Nat) (fs : List Feature) : alignmentSpan n fs = fs.foldl spanStep (some n) := rfl

/-- bases of the read that are not aligned to the reference (`I`, `S`) -/
def offLen (c : Cigar) : Nat := (c.map fun op => match op.kind with | .I | .S => op.len | _ => 0).sum

theorem span_matchGo (ref seq : List Nat) (m : Matrix) (qOp : Nat) (rest : List Feature) (acc : Nat) :
    ∀ (n r q : Nat), (matchGo ref seq m qOp r q n ++ rest).foldl spanStep (some acc) = rest.foldl spanStep (some acc) := by
  intro n
  induction n with
  | zero => intro r q; simp [matchGo]
  | succ n ih =>
    intro r q
    unfold matchGo
    split
    · simpa using ih (r + 1) (q + 1)
    · simp only [List.cons_append, List.nil_append, List.foldl_cons]
      rcases mismatchFeature_cases m (q + 1) (ref.getD r 0) (seq.getD q 0) qOp with ⟨x, hx⟩ | hx <;>
        (rw [hx]; simpa [spanStep] using ih (r + 1) (q + 1))

/-- reference bases without read bases (`D`, `N`) -/
def delLen (c : Cigar) : Nat := (c.map fun op => match op.kind with | .D | .N => op.len | _ => 0).sum

theorem offLen_cons (op : Op) (ops : Cigar) :
    offLen (op :: ops) = (match op.kind with | .I | .S => op.len | _ => 0) + offLen ops := by simp [offLen]

theorem delLen_cons (op : Op) (ops : Cigar) :
    delLen (op :: ops) = (match op.kind with | .D | .N => op.len | _ => 0) + delLen ops := by simp [delLen]

theorem span_featGo (ref seq quals : List Nat) (m : Matrix) (rest : List Feature) :
    ∀ (c : Cigar) (r q acc : Nat), q + readLen c ≤ seq.length → offLen c ≤ acc →
      (featGo ref seq quals m r q c ++ rest).foldl spanStep (some acc) =
        rest.foldl spanStep (some (acc - offLen c + delLen c)) := by
  intro c
  induction c with
  | nil => intro r q acc _ _; simp [featGo, offLen, delLen]
  | cons op ops ih =>
    intro r q acc hq ha
    rw [offLen_cons, delLen_cons]
    rw [readLen_cons] at hq
    rw [offLen_cons] at ha
    have hslice : op.kind.consumesRead = true → (slice seq q op.len).length = op.len := fun hc =>
      slice_length seq q op.len (by simp [hc] at hq; omega)
    unfold featGo
    split <;> rename_i hk <;> simp only [hk, Kind.consumesRead, if_true, if_false,
      Bool.false_eq_true, Nat.zero_add] at hq ha hslice ⊢
    · rw [List.append_assoc, span_matchGo, ih _ _ acc (by omega) (by omega)]
    · rw [List.append_assoc, span_matchGo, ih _ _ acc (by omega) (by omega)]
    · rw [List.append_assoc, span_matchGo, ih _ _ acc (by omega) (by omega)]
    · simp only [List.cons_append, List.foldl_cons]
      split
      · rename_i h1
        have : 1 ≤ acc := by omega
        simp only [spanStep, Option.bind_some, this, if_true]
        rw [ih _ _ (acc - 1) (by omega) (by omega)]
        have : acc - 1 - offLen ops + delLen ops = acc - (op.len + offLen ops) + delLen ops := by omega
        rw [this]
      · have : op.len ≤ acc := by omega
        simp only [spanStep, Option.bind_some, hslice, this, if_true]
        rw [ih _ _ (acc - op.len) (by omega) (by omega)]
        have : acc - op.len - offLen ops + delLen ops = acc - (op.len + offLen ops) + delLen ops := by omega
        rw [this]
    · simp only [List.cons_append, List.foldl_cons, spanStep, Option.bind_some]
      rw [ih _ _ (acc + op.len) (by omega) (by omega)]
      have : acc + op.len - offLen ops + delLen ops = acc - offLen ops + (op.len + delLen ops) := by omega
      rw [this]
    · simp only [List.cons_append, List.foldl_cons, spanStep, Option.bind_some]
      rw [ih _ _ (acc + op.len) (by omega) (by omega)]
      have : acc + op.len - offLen ops + delLen ops = acc - offLen ops + (op.len + delLen ops) := by omega
      rw [this]
    · have : op.len ≤ acc := by omega
      simp only [List.cons_append, List.foldl_cons, spanStep, Option.bind_some, hslice, this, if_true]
      rw [ih _ _ (acc - op.len) (by omega) (by omega)]
      have : acc - op.len - offLen ops + delLen ops = acc - (op.len + offLen ops) + delLen ops := by omega
      rw [this]
    · simp only [List.cons_append, List.foldl_cons, spanStep, Option.bind_some]
      rw [ih _ _ acc (by omega) (by omega)]
    · simp only [List.cons_append, List.foldl_cons, spanStep, Option.bind_some]
      rw [ih _ _ acc (by omega) (by omega)]

theorem lens_balance : ∀ c : Cigar, readLen c + delLen c = refLen c + offLen c := by
  intro c
  induction c with
  | nil => simp [offLen, readLen, refLen, delLen]
  | cons o os ih =>
    rw [offLen_cons, delLen_cons, readLen_cons, refLen_cons]
    cases o.kind <;> simp [Kind.consumesRead, Kind.consumesRef] <;> omega

theorem offLen_le_readLen : ∀ c : Cigar, offLen c ≤ readLen c := by
  intro c
  induction c with
  | nil => simp [offLen, readLen]
  | cons o os ih =>
    rw [offLen_cons, readLen_cons]
    cases o.kind <;> simp [Kind.consumesRead] <;> omega

/-- **`calculate_alignment_span` is the CIGAR's reference length** -/
theorem span_features (ref : List Nat) (start : Nat) (c : Cigar) (seq quals : List Nat) (m : Matrix)
    (h : readLen c = seq.length) : alignmentSpan seq.length (features ref start c seq quals m) = some (refLen c) := by
  have hb := lens_balance c
  have ho := offLen_le_readLen c
  have := span_featGo ref seq quals m [] c (start - 1) 0 seq.length (by omega) (by omega)
  rw [List.append_nil] at this
  rw [alignmentSpan_eq]
  unfold features
  rw [this]
  simp only [List.foldl_nil]
  congr 1
  omega

theorem mateView_eq_samView (refs : Refs) (ch : CH) (m : Matrix) (r : SamRec) (h : SamWF refs ch m r) :
    mateView refs m r = samView r := by
  have hfl : (cramOf refs m r).cramFlags = 1 ∨ (cramOf refs m r).cramFlags = 9 := cramOf_cramFlags refs m r
  have hd : (cramOf refs m r).detached = false ∧ (cramOf refs m r).downstream = false := by
    have := fresh_views refs m [r] (mateView refs m r) (by simp)
    exact ⟨this.1, this.2.1⟩
  have hspan : (alignmentSpan r.seq.length (featuresOf refs m r)).getD 0 =
      if Mates.isUnmapped r.flags then r.seq.length else refLen r.cigar := by
    cases hu : Mates.isUnmapped r.flags with
    | true =>
      rw [featuresOf_nil refs m r (h.unmapped hu).1]
      rfl
    | false =>
      obtain ⟨id, start, rf, hid, hst, hrf, hcr⟩ := h.mapped hu
      rw [featuresOf_mapped refs m r id start rf hid hst hrf, span_features _ _ _ _ _ _ hcr.read_len]
      rfl
  show ({ flags := r.flags, name := r.name.map nameCode, rid := r.rid, pos := r.pos,
          span := (alignmentSpan r.seq.length (featuresOf refs m r)).getD 0,
          mrid := r.mrid, mpos := r.mpos, tlen := r.tlen, detached := (cramOf refs m r).detached,
          downstream := (cramOf refs m r).downstream, mateDist := none } : Mates.Rec) = samView r
  rw [hspan, hd.1, hd.2]
  rfl

theorem sliceWF_of_sam (refs : Refs) (ch : CH) (m : Matrix) (rs : List SamRec) (h : SamSliceWF refs ch m rs) :
    SliceWF refs ch m rs := by
  refine ⟨h.recs, ?_⟩
  have : rs.map (mateView refs m) = rs.map samView :=
    List.map_congr_left fun r hr => mateView_eq_samView refs ch m r (h.recs r hr)
  rw [this]
  exact h.mates

end Noodles.Cram.Sam
