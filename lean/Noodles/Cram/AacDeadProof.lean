import Noodles.Cram.AacTotalProof
/-!
Helper lemmas for `Noodles/Props/C08Aac.lean`: on ANY input — corrupt streams included — the
model's decoder never reaches its two artificial outcomes: `DecErr.trap` (an index panic:
`models[prev_sym]`, `rle_models[sym]`) and `DecErr.fuel` (the model's recursion budget).
-/
namespace Noodles.Cram.Aac
open Noodles.Cram.Num

/-- an answer that is neither of the two artificial outcomes -/
def Clean {α : Type} (r : Except DecErr α) : Prop := r ≠ .error .trap ∧ r ≠ .error .fuel

theorem clean_ok {α : Type} (a : α) : Clean (.ok a : Except DecErr α) := ⟨by simp, by simp⟩
theorem clean_eof {α : Type} : Clean (.error .eof : Except DecErr α) := ⟨by simp, by simp⟩
theorem clean_invalidData {α : Type} : Clean (.error .invalidData : Except DecErr α) := ⟨by simp, by simp⟩
theorem clean_invalidInput {α : Type} : Clean (.error .invalidInput : Except DecErr α) := ⟨by simp, by simp⟩

theorem Clean.cast {α β : Type} {e : DecErr} (h : Clean (.error e : Except DecErr α)) :
    Clean (.error e : Except DecErr β) := by
  obtain ⟨h1, h2⟩ := h
  exact ⟨fun h => h1 (by simp at h ⊢; exact h), fun h => h2 (by simp at h ⊢; exact h)⟩

theorem normDec_clean (fuel : Nat) (d : Dec) : Clean (normDec fuel d) := by
  induction fuel generalizing d with
  | zero => exact clean_ok _
  | succ fuel ih =>
    unfold normDec
    split
    · split
      · exact clean_eof
      · exact ih _
    · exact clean_ok _

/-- `Model::decode` on any state: never a trap, and an answer is a symbol of the alphabet and a
model over the same alphabet -/
theorem Model.decode_full (n : Nat) (m : Model) (d : Dec) (h : m.Full n) :
    Clean (m.decode d) ∧ ∀ s m' d', m.decode d = .ok (s, m', d') → s < n ∧ m'.Full n := by
  unfold Model.decode
  dsimp only
  split
  · exact ⟨clean_invalidData, fun _ _ _ h => by simp at h⟩
  · next x acc f hloc =>
    obtain ⟨_, hx, _, _, _⟩ := locateGo_spec _ m.freqs 0 0 x acc f hloc
    simp only [Nat.sub_zero] at hx
    have hc := normDec_clean 4 ⟨d.range / m.total * f, d.code - acc * (d.range / m.total), d.src⟩
    split
    · next e he =>
      rw [he] at hc
      exact ⟨hc.cast, fun _ _ _ h => by simp at h⟩
    · next d1 _ =>
      refine ⟨clean_ok _, ?_⟩
      intro s m' d' heq
      simp only [Except.ok.injEq, Prod.mk.injEq] at heq
      obtain ⟨rfl, rfl, _⟩ := heq
      refine ⟨?_, Model.update_full n m x h hx⟩
      have hxs : x < m.syms.length := by rw [h.wf.len]; exact hx
      have hmem : m.syms.getD x 0 ∈ m.syms := by
        rw [List.getD_eq_getElem?_getD, List.getElem?_eq_getElem hxs]
        exact List.getElem_mem hxs
      exact List.mem_range.mp (h.perm.mem_iff.mp hmem)

/-- the decoder's model list: `k` main models over `0..n`, then (run-length codecs) 258 models over
`0..4` -/
def DecModels (k n : Nat) (rle : Bool) (ms : List Model) : Prop :=
  Sized (List.replicate k n ++ (if rle then List.replicate 258 4 else [])) ms

theorem sized_get {ns : List Nat} {ms : List Model} (h : Sized ns ms) (c n : Nat) (hn : ns[c]? = some n) :
    ∃ m, ms[c]? = some m ∧ m.Full n := by
  have hc : c < ms.length := by
    rw [h.1]
    rcases Nat.lt_or_ge c ns.length with h1 | h1
    · exact h1
    · rw [List.getElem?_eq_none h1] at hn; simp at hn
  exact ⟨ms[c], List.getElem?_eq_getElem hc, h.2 c n ms[c] hn (List.getElem?_eq_getElem hc)⟩

theorem decSyms_clean (o1 : Bool) (k n : Nat) (hk : if o1 then k = n else k = 1) (cnt : Nat) :
    ∀ (prev : Nat) (ms : List Model) (d : Dec), prev < n → Sized (List.replicate k n) ms →
      Clean (decSyms o1 cnt prev ms d) := by
  induction cnt with
  | zero => intro _ _ _ _ _; exact clean_ok _
  | succ cnt ih =>
    intro prev ms d hp hs
    have hc : (if o1 then prev else 0) < k := by
      cases o1 with
      | false => simp only [Bool.false_eq_true, if_false] at hk ⊢; omega
      | true => simp only [if_true] at hk ⊢; omega
    obtain ⟨m, hm, hfull⟩ := sized_get hs _ n (getElem?_replicate_some k n _ hc)
    simp only [decSyms, hm]
    obtain ⟨hclean, hres⟩ := Model.decode_full n m d hfull
    split
    · next e he => rw [he] at hclean; exact hclean.cast
    · next s m' d' he =>
      obtain ⟨hs', hf'⟩ := hres s m' d' he
      have := ih s _ d' hs' (hs.set _ n m' (getElem?_replicate_some k n _ hc) hf')
      split
      · next e he2 => rw [he2] at this; exact this
      · exact clean_ok _

theorem Dec.init_clean (r : List Nat) : Clean (Dec.init r) := by
  unfold Dec.init
  split
  · exact clean_ok _
  · exact clean_eof

/-- `decode/order_0.rs`, `decode/order_1.rs` on ANY byte string -/
theorem decodeOrd_clean (o1 : Bool) (cnt : Nat) (bs : List Nat) (hb : ∀ b ∈ bs, b < 256) :
    Clean (decodeOrd o1 cnt bs) := by
  unfold decodeOrd readSymbolCount
  cases bs with
  | nil => exact clean_eof
  | cons b r =>
    simp only
    have hi := Dec.init_clean r
    split
    · next e he => rw [he] at hi; exact hi.cast
    · next d _ =>
      have hb0 := hb b (by simp)
      have hk : 1 ≤ (if b = 0 then 256 else b) ∧ (if b = 0 then 256 else b) ≤ 256 := by split <;> omega
      exact decSyms_clean o1 _ _ (by cases o1 <;> simp) cnt 0 _ d (by omega) (sized_replicate _ _ hk.2)

/-! ## the run-length decoders -/

theorem rle_index (k n c : Nat) (hc : c < 258) :
    (List.replicate k n ++ List.replicate 258 4)[k + c]? = some 4 := by
  rw [List.getElem?_append_right (by simp), List.length_replicate, Nat.add_sub_cancel_left]
  exact getElem?_replicate_some 258 4 c hc

/-- the parts of a run length, on any state: never a trap, never out of fuel (every further round
needs three more bytes of output), and the models stay over their alphabets -/
theorem decParts_clean (k n rem : Nat) (fuel : Nat) :
    ∀ (c acc : Nat) (ms : List Model) (d : Dec), c < 258 → acc ≤ rem → rem < acc + 3 * fuel →
      Sized (List.replicate k n ++ List.replicate 258 4) ms →
      Clean (decParts k rem fuel c acc ms d) ∧
      ∀ len ms' d', decParts k rem fuel c acc ms d = .ok (len, ms', d') →
        Sized (List.replicate k n ++ List.replicate 258 4) ms' := by
  induction fuel with
  | zero => intro c acc ms d _ h1 h2 _; omega
  | succ fuel ih =>
    intro c acc ms d hc h1 h2 hs
    obtain ⟨m, hm, hfull⟩ := sized_get hs _ 4 (rle_index k n c hc)
    simp only [decParts, hm]
    obtain ⟨hclean, hres⟩ := Model.decode_full 4 m d hfull
    split
    · next e he => rw [he] at hclean; exact ⟨hclean.cast, fun _ _ _ h => by simp at h⟩
    · next s m' d' he =>
      obtain ⟨_, hf'⟩ := hres s m' d' he
      have hs' := hs.set _ 4 m' (rle_index k n c hc) hf'
      split
      · next hcond =>
        exact ih (nextRunCtx c) (acc + s) _ d' (by unfold nextRunCtx; split <;> omega) (by omega) (by omega) hs'
      · refine ⟨clean_ok _, ?_⟩
        intro len ms' d'' heq
        simp only [Except.ok.injEq, Prod.mk.injEq] at heq
        exact heq.2.1 ▸ hs'

theorem decRuns_clean (o1 : Bool) (k n : Nat) (hk : if o1 then k = n else k = 1) (hn : n ≤ 256) (fuel : Nat) :
    ∀ (rem prev : Nat) (ms : List Model) (d : Dec), prev < n →
      Sized (List.replicate k n ++ List.replicate 258 4) ms →
      Clean (decRuns o1 k fuel rem prev ms d) := by
  induction fuel with
  | zero => intro _ _ _ _ _ _; exact clean_ok _
  | succ fuel ih =>
    intro rem prev ms d hp hs
    cases rem with
    | zero => exact clean_ok _
    | succ rem =>
      have hc : (if o1 then prev else 0) < k := by
        cases o1 with
        | false => simp only [Bool.false_eq_true, if_false] at hk ⊢; omega
        | true => simp only [if_true] at hk ⊢; omega
      have hidx : (List.replicate k n ++ List.replicate 258 4)[if o1 then prev else 0]? = some n := by
        rw [List.getElem?_append_left (by simpa using hc)]
        exact getElem?_replicate_some k n _ hc
      obtain ⟨m, hm, hfull⟩ := sized_get hs _ n hidx
      simp only [decRuns, hm]
      obtain ⟨hclean, hres⟩ := Model.decode_full n m d hfull
      split
      · next e he => rw [he] at hclean; exact hclean.cast
      · next s m' d' he =>
        obtain ⟨hs', hf'⟩ := hres s m' d' he
        obtain ⟨hpc, hps⟩ := decParts_clean k n rem (rem + 1) s 0 _ d' (by omega) (by omega) (by omega)
          (hs.set _ n m' hidx hf')
        split
        · next e he2 => rw [he2] at hpc; exact hpc.cast
        · next len ms' d'' he2 =>
          have := ih (rem - min len rem) s ms' d'' hs' (hps len ms' d'' he2)
          split
          · next e he3 => rw [he3] at this; exact this
          · exact clean_ok _

/-- `decode/rle/order_{0,1}.rs` on ANY byte string -/
theorem decodeRle_clean (o1 : Bool) (cnt : Nat) (bs : List Nat) (hb : ∀ b ∈ bs, b < 256) :
    Clean (decodeRle o1 cnt bs) := by
  unfold decodeRle readSymbolCount
  cases bs with
  | nil => exact clean_eof
  | cons b r =>
    simp only
    have hi := Dec.init_clean r
    split
    · next e he => rw [he] at hi; exact hi.cast
    · next d _ =>
      have hb0 := hb b (by simp)
      have hk : 1 ≤ (if b = 0 then 256 else b) ∧ (if b = 0 then 256 else b) ≤ 256 := by split <;> omega
      exact decRuns_clean o1 _ _ (by cases o1 <;> simp) hk.2 cnt cnt 0 _ d (by omega)
        (sized_append (sized_replicate _ _ hk.2) (sized_replicate 258 4 (by decide)))

/-! ## `decode` -/

/-- what is left of a byte string is a byte string -/
def Bytes (bs : List Nat) : Prop := ∀ b ∈ bs, b < 256

theorem Bytes.tail {b : Nat} {bs : List Nat} (h : Bytes (b :: bs)) : Bytes bs :=
  fun x hx => h x (List.mem_cons_of_mem _ hx)

theorem Bytes.drop {bs : List Nat} (h : Bytes bs) (k : Nat) : Bytes (bs.drop k) :=
  fun x hx => h x (List.mem_of_mem_drop hx)

theorem Bytes.take {bs : List Nat} (h : Bytes bs) (k : Nat) : Bytes (bs.take k) :=
  fun x hx => h x (List.mem_of_mem_take hx)

theorem readUint7Go_rest (bs : List Nat) : ∀ (len n v : Nat) (r : List Nat),
    readUint7Go len n bs = .ok (v, r) → ∃ k, r = bs.drop k := by
  induction bs with
  | nil => intro len n v r h; simp [readUint7Go] at h
  | cons b bs ih =>
    intro len n v r h
    simp only [readUint7Go] at h
    split at h
    · simp at h
    · split at h
      · simp only [Except.ok.injEq, Prod.mk.injEq] at h
        exact ⟨1, by simp [h.2]⟩
      · obtain ⟨k, hk⟩ := ih _ _ v r h
        exact ⟨k + 1, by simp [hk]⟩

theorem rdU7_clean (bs : List Nat) (hb : Bytes bs) :
    Clean (rdU7 bs) ∧ ∀ v r, rdU7 bs = .ok (v, r) → Bytes r := by
  unfold rdU7
  split
  · next p hr =>
    refine ⟨clean_ok _, ?_⟩
    intro v r heq
    simp only [Except.ok.injEq] at heq
    subst heq
    obtain ⟨k, hk⟩ := readUint7Go_rest bs 0 0 v r (by simpa [readUint7] using hr)
    rw [hk]
    exact hb.drop k
  · next e _ =>
    cases e <;> exact ⟨by simp [liftErr, Clean], fun _ _ h => by simp at h⟩

theorem takeN_clean (k : Nat) (bs : List Nat) (hb : Bytes bs) :
    Clean (takeN k bs) ∧ ∀ a r, takeN k bs = .ok (a, r) → Bytes a ∧ Bytes r := by
  unfold takeN
  split
  · refine ⟨clean_ok _, ?_⟩
    intro a r heq
    simp only [Except.ok.injEq, Prod.mk.injEq] at heq
    exact heq.1 ▸ heq.2 ▸ ⟨hb.take k, hb.drop k⟩
  · exact ⟨clean_eof, fun _ _ h => by simp at h⟩

theorem readPack_clean (bs : List Nat) (hb : Bytes bs) :
    Clean (readPack bs) ∧ ∀ map len r, readPack bs = .ok (map, len, r) → Bytes r := by
  unfold readPack
  cases bs with
  | nil => exact ⟨clean_eof, fun _ _ _ h => by simp at h⟩
  | cons nsym bs =>
    simp only
    split
    · exact ⟨clean_invalidData, fun _ _ _ h => by simp at h⟩
    · obtain ⟨ht, htr⟩ := takeN_clean nsym bs hb.tail
      split
      · next e he => rw [he] at ht; exact ⟨ht.cast, fun _ _ _ h => by simp at h⟩
      · next map r1 he =>
        obtain ⟨hu, hur⟩ := rdU7_clean r1 (htr map r1 he).2
        split
        · next e he2 => rw [he2] at hu; exact ⟨hu.cast, fun _ _ _ h => by simp at h⟩
        · next len r2 he2 =>
          refine ⟨clean_ok _, ?_⟩
          intro map' len' r' heq
          simp only [Except.ok.injEq, Prod.mk.injEq] at heq
          exact heq.2.2 ▸ hur len r2 he2

theorem unpackByteN_clean (map : List Nat) (bits k v : Nat) : Clean (unpackByteN map bits k v) := by
  induction k generalizing v with
  | zero => exact clean_ok _
  | succ k ih =>
    unfold unpackByteN
    split
    · exact clean_invalidData
    · have := ih (v / 2 ^ bits)
      split
      · next e he => rw [he] at this; exact this
      · exact clean_ok _

theorem unpackGo_clean (map : List Nat) (per : Nat) (data : List Nat) :
    ∀ rem, Clean (unpackGo map per data rem) := by
  induction data with
  | nil => intro rem; cases rem <;> exact clean_ok _
  | cons b data ih =>
    intro rem
    cases rem with
    | zero => exact clean_ok _
    | succ rem =>
      simp only [unpackGo]
      have h1 := unpackByteN_clean map (8 / per) (min per (rem + 1)) b
      split
      · next e he => rw [he] at h1; exact h1
      · have h2 := ih (rem + 1 - min per (rem + 1))
        split
        · next e he => rw [he] at h2; exact h2
        · exact clean_ok _

theorem unpackN_clean (map : List Nat) (ulen : Nat) (data : List Nat) : Clean (unpackN map ulen data) := by
  unfold unpackN
  repeat' split
  all_goals first | exact clean_ok _ | exact unpackGo_clean _ _ _ _ | exact clean_invalidInput

/-- bzip2 (a parameter) answers with data or an ordinary error -/
def UnbzClean (unbz : List Nat → Nat → Except DecErr (List Nat)) : Prop := ∀ x n, Clean (unbz x n)

theorem decEntropy_clean (unbz : List Nat → Nat → Except DecErr (List Nat)) (hu : UnbzClean unbz)
    (f : Flags) (len : Nat) (bs : List Nat) (hb : Bytes bs) : Clean (decEntropy unbz f len bs) := by
  unfold decEntropy
  repeat' split
  all_goals first | exact clean_ok _ | exact clean_eof | exact hu _ _ | exact decodeRle_clean _ _ _ hb | exact decodeOrd_clean _ _ _ hb

theorem readSizes_clean (n : Nat) : ∀ (bs : List Nat), Bytes bs →
    Clean (readSizes n bs) ∧ ∀ cs r, readSizes n bs = .ok (cs, r) → Bytes r := by
  induction n with
  | zero =>
    intro bs hb
    refine ⟨clean_ok _, ?_⟩
    intro cs r heq
    simp only [readSizes, Except.ok.injEq, Prod.mk.injEq] at heq
    exact heq.2 ▸ hb
  | succ n ih =>
    intro bs hb
    simp only [readSizes]
    obtain ⟨hu, hur⟩ := rdU7_clean bs hb
    split
    · next e he => rw [he] at hu; exact ⟨hu.cast, fun _ _ h => by simp at h⟩
    · next c r1 he =>
      obtain ⟨h2, h2r⟩ := ih r1 (hur c r1 he)
      split
      · next e he2 => rw [he2] at h2; exact ⟨h2.cast, fun _ _ h => by simp at h⟩
      · next cs r2 he2 =>
        refine ⟨clean_ok _, ?_⟩
        intro cs' r' heq
        simp only [Except.ok.injEq, Prod.mk.injEq] at heq
        exact heq.2 ▸ h2r cs r2 he2

theorem decodeChunks_clean (dec : List Nat → Nat → Except DecErr (List Nat))
    (hd : ∀ bs n, Bytes bs → Clean (dec bs n)) (len x : Nat) (cs : List Nat) :
    ∀ (i : Nat) (bs : List Nat), Bytes bs → Clean (decodeChunks dec len x i cs bs) := by
  induction cs with
  | nil => intro _ _ _; exact clean_ok _
  | cons c cs ih =>
    intro i bs hb
    simp only [decodeChunks]
    generalize (len / x + if len % x > i then 1 else 0) = want
    obtain ⟨ht, htr⟩ := takeN_clean c bs hb
    split
    · next e he => rw [he] at ht; exact ht.cast
    · next part r he =>
      have h1 := hd part want (htr part r he).1
      split
      · next e he2 => rw [he2] at h1; exact h1.cast
      · split
        · exact clean_invalidData
        · have h2 := ih (i + 1) r (htr part r he).2
          split
          · next e he3 => rw [he3] at h2; exact h2
          · exact clean_ok _

theorem decodeWith_clean (unbz : List Nat → Nat → Except DecErr (List Nat)) (hu : UnbzClean unbz)
    (deeper : Option (List Nat → Nat → Except DecErr (List Nat)))
    (hd : ∀ dec, deeper = some dec → ∀ bs n, Bytes bs → Clean (dec bs n))
    (bs : List Nat) (outer : Nat) (hb : Bytes bs) : Clean (decodeWith unbz deeper bs outer) := by
  cases bs with
  | nil => exact clean_eof
  | cons b bs =>
    rw [decodeWith]
    have hsz : Clean (if (Flags.ofByte b).nosz = true then (Except.ok (outer, bs) : Except DecErr _) else rdU7 bs) ∧
        ∀ v r, (if (Flags.ofByte b).nosz = true then (Except.ok (outer, bs) : Except DecErr _) else rdU7 bs)
          = .ok (v, r) → Bytes r := by
      split
      · refine ⟨clean_ok _, ?_⟩
        intro v r heq
        simp only [Except.ok.injEq, Prod.mk.injEq] at heq
        exact heq.2 ▸ hb.tail
      · exact rdU7_clean bs hb.tail
    obtain ⟨h1, h1r⟩ := hsz
    split
    · next e he => rw [he] at h1; exact h1.cast
    · next ulen r he =>
      have hr := h1r ulen r he
      split
      · cases deeper with
        | none => exact clean_invalidData
        | some dec =>
          simp only
          split
          · exact clean_eof
          · next x r2 =>
            split
            · exact clean_invalidData
            · obtain ⟨h2, h2r⟩ := readSizes_clean x r2 hr.tail
              split
              · next e he2 => rw [he2] at h2; exact h2.cast
              · next sizes r3 he2 =>
                have h3 := decodeChunks_clean dec (hd dec rfl) ulen x sizes 0 r3 (h2r sizes r3 he2)
                split
                · next e he3 => rw [he3] at h3; exact h3.cast
                · exact clean_ok _
      · split
        · obtain ⟨h2, h2r⟩ := readPack_clean r hr
          split
          · next e he2 => rw [he2] at h2; exact h2.cast
          · next map len r2 he2 =>
            have h3 := decEntropy_clean unbz hu (Flags.ofByte b) len r2 (h2r map len r2 he2)
            split
            · next e he3 => rw [he3] at h3; exact h3
            · exact unpackN_clean _ _ _
        · exact decEntropy_clean unbz hu (Flags.ofByte b) ulen r hr

theorem decodeD_clean (unbz : List Nat → Nat → Except DecErr (List Nat)) (hu : UnbzClean unbz)
    (budget : Nat) : ∀ bs n, Bytes bs → Clean (decodeD unbz budget bs n) := by
  induction budget with
  | zero =>
    intro bs n hb
    exact decodeWith_clean unbz hu none (fun _ h => by simp at h) bs n hb
  | succ budget ih =>
    intro bs n hb
    exact decodeWith_clean unbz hu (some (decodeD unbz budget))
      (fun dec h => by simp only [Option.some.injEq] at h; exact h ▸ ih) bs n hb

/-- `aac::decode` on ANY byte string and any size: data or an ordinary error, never `trap`, never
`fuel` -/
theorem decode_clean (unbz : List Nat → Nat → Except DecErr (List Nat)) (hu : UnbzClean unbz)
    (bs : List Nat) (n : Nat) (hb : Bytes bs) : Clean (decode unbz bs n) :=
  decodeD_clean unbz hu 8 bs n hb

end Noodles.Cram.Aac
