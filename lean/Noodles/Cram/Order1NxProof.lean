import Noodles.Cram.Order1Nx
import Noodles.Cram.Order1Proof
import Noodles.Cram.Nx16Proof
/-! Helper lemmas for `Noodles/Props/C08Order1.lean`: rANS Nx16 with the ORDER flag, and the codec
for every flag byte. -/
namespace Noodles.Cram.O1
open Noodles.Cram.Num Noodles.Cram.R4

/-! ## the renormalisation pair of Nx16 -/

theorem kit16_ok : KitOK kit16 Nx.L := by
  constructor
  intro s f c rest hs1 hs2 hf hc
  obtain ⟨a1, a2⟩ := Nx.renormEnc_range s f hs1 hs2 hf (by omega)
  obtain ⟨r1, r2⟩ := Nx.encStep_range (Nx.renormEnc 2 s f).1 f c hf hc a1 a2
  refine ⟨r1, r2, ?_⟩
  simp only [kit16, Nx.renormDec_renormEnc s f rest hs1 hs2 hf]

/-! ## the alphabet, read with the larger fuel -/

theorem alpha1_top (T' : List Bool) :
    ∀ (a : Nat) (rest : List Nat), a + T'.length = 256 → (∃ f ∈ T', f = true) →
      readAlpha1 (Nx.writeAlphaGo a T' none ++ rest) = some (List.replicate a false ++ T', rest) := by
  induction T' with
  | nil => intro _ _ _ h; obtain ⟨f, hf, _⟩ := h; simp at hf
  | cons f T'' ih =>
    intro a rest hlen hex
    rw [Nx.writeAlphaGo]
    cases f with
    | false =>
      simp only [Bool.not_false, ↓reduceIte]
      have := ih (a + 1) rest (by simp at hlen ⊢; omega)
        (by
          obtain ⟨g, hg, hg0⟩ := hex
          simp only [List.mem_cons] at hg
          rcases hg with rfl | hg
          · exact absurd hg0 (by simp)
          · exact ⟨g, hg, hg0⟩)
      rw [this, List.replicate_succ']
      simp
    | true =>
      simp only [Bool.not_true, Bool.false_eq_true, ↓reduceIte]
      have hno : ¬ (a > 0 ∧ (none : Option Nat) = some (a - 1)) := by simp
      rw [if_neg hno]
      simp only [List.cons_append, List.nil_append, readAlpha1]
      have hpre : (List.replicate a false).length = a := by simp
      have hzero : List.replicate 256 false = Nx.partB (List.replicate a false) (0 + 1 + T''.length) := by
        unfold Nx.partB
        rw [List.replicate_append_replicate]
        congr 1
        simp at hlen; omega
      have hr := Nx.alphaRun 0 (List.replicate a false) T''.length
        (256 * ((Nx.writeAlphaGo (a + 1) T'' (some a) ++ rest).length + 2))
        (Nx.writeAlphaGo (a + 1) T'' (some a) ++ rest)
        (by simp at hlen ⊢; omega) (by omega)
      simp only [hpre] at hr
      rw [hzero, hr]
      have := Nx.alpha_spec T''.length T'' (List.replicate a false ++ [true]) a
        (256 * ((Nx.writeAlphaGo (a + 1) T'' (some a) ++ rest).length + 2) - (0 + 1)) rest rfl
        (by simp at hlen ⊢; omega) (by simp)
        (by have := Nx.nzB_le_length T''; simp at hlen; omega)
      simp only [List.length_append, List.length_replicate, List.length_cons, List.length_nil,
        Nat.zero_add] at this
      simp only [List.replicate_succ, List.replicate_zero, Nat.add_zero, Nat.zero_add,
        List.length_append]
      rw [this]
      simp [ok?]

theorem readAlpha1_writeAlpha (A : List Bool) (rest : List Nat) (hlen : A.length = 256)
    (hex : ∃ f ∈ A, f = true) : readAlpha1 (Nx.writeAlpha A ++ rest) = some (A, rest) := by
  have := alpha1_top A 0 rest (by omega) hex
  simpa [Nx.writeAlpha] using this

/-! ## one row of the order-1 table -/

/-- the row `r` lives on the alphabet `A`: zero outside it, `u32` entries -/
def Fits : List Bool → List Nat → Prop
  | [], [] => True
  | a :: A, x :: r => (a = false → x = 0) ∧ x < 2 ^ 32 ∧ Fits A r
  | _, _ => False

theorem sel_cons_true {α : Type} (A : List Bool) (x : α) (r : List α) : sel (true :: A) (x :: r) = x :: sel A r := by
  simp [sel]

theorem sel_cons_false {α : Type} (A : List Bool) (x : α) (r : List α) : sel (false :: A) (x :: r) = sel A r := by
  simp [sel]

theorem leadZ_take (l : List Nat) : ∀ z, z ≤ leadZ l → ∀ x ∈ l.take z, x = 0 := by
  induction l with
  | nil => intro z _ x hx; simp at hx
  | cons f l ih =>
    intro z hz x hx
    cases z with
    | zero => simp at hx
    | succ z =>
      simp only [leadZ] at hz
      split at hz
      · rename_i hf
        simp only [List.take_succ_cons, List.mem_cons] at hx
        rcases hx with rfl | hx
        · exact hf
        · exact ih z (by omega) x hx
      · omega

theorem readUint7_write (f : Nat) (hf : f < 2 ^ 32) (rest : List Nat) :
    ok? (readUint7 ((writeUint7 f).getD [] ++ rest)) = some (f, rest) := by
  obtain ⟨bs, h1, _, _, h2⟩ := uint7_roundtrip' f hf
  simp [h1, h2 rest, ok?]

/-- the reader with `z` zeros of a run still pending, against the writer resumed behind them -/
theorem readRow16_rowRle (A : List Bool) :
    ∀ (r : List Nat) (z : Nat) (rest : List Nat), Fits A r → z ≤ leadZ (sel A r) →
      readRow16 A z (rowRle ((sel A r).drop z) ++ rest) = some (r, rest) := by
  induction A with
  | nil =>
    intro r z rest hf _
    cases r with
    | nil => simp [readRow16, sel, rowRle]
    | cons x r => exact absurd hf (by simp [Fits])
  | cons a A ih =>
    intro r z rest hf hz
    cases r with
    | nil => exact absurd hf (by simp [Fits])
    | cons x r =>
      obtain ⟨h0, hx, hfit⟩ := hf
      cases a with
      | false =>
        have hx0 : x = 0 := h0 rfl
        subst hx0
        rw [sel_cons_false] at hz ⊢
        simp only [readRow16, ih r z rest hfit hz]
      | true =>
        rw [sel_cons_true] at hz ⊢
        cases z with
        | succ z =>
          simp only [leadZ] at hz
          split at hz
          · rename_i hx0
            subst hx0
            simp only [List.drop_succ_cons, readRow16, ih r z rest hfit (by omega)]
          · omega
        | zero =>
          simp only [List.drop_zero]
          rw [rowRle]
          split
          · rename_i hx0
            subst hx0
            simp only [List.cons_append, List.nil_append, readRow16]
            have : ok? (readUint7 (0 :: leadZ (sel A r) :: (rowRle (List.drop (leadZ (sel A r)) (sel A r)) ++ rest)))
                = some (0, leadZ (sel A r) :: (rowRle (List.drop (leadZ (sel A r)) (sel A r)) ++ rest)) := by
              simp [readUint7, readUint7Go, ok?]
            rw [this]
            simp only [↓reduceIte, ih r (leadZ (sel A r)) rest hfit (Nat.le_refl _)]
          · rename_i hx0
            rw [List.append_assoc]
            simp only [readRow16, readUint7_write x hx, hx0, ↓reduceIte]
            have := ih r 0 rest hfit (Nat.zero_le _)
            simp only [List.drop_zero] at this
            rw [this]

/-! ## the rows -/

theorem normRow_id (r : List Nat) (h : r.sum = 0 ∨ r.sum = 4096) : normRow 12 r = some r := by
  unfold normRow
  rcases h with h | h <;> simp [h]

/-- `Ar`, `Fr`: the part of the alphabet and of the table still to come -/
theorem readRows_write (A : List Bool) (Ar : List Bool) :
    ∀ (Fr : Table) (rest : List Nat), Ar.length = Fr.length →
      (∀ p ∈ Ar.zip Fr, (p.1 = false → p.2 = List.replicate 256 0) ∧
        (p.1 = true → Fits A p.2 ∧ (p.2.sum = 0 ∨ p.2.sum = 4096))) →
      readRows 12 A Ar (((sel Ar Fr).map fun r => rowRle (sel A r)).flatten ++ rest) = some (Fr, rest) := by
  induction Ar with
  | nil =>
    intro Fr rest hlen _
    cases Fr with
    | nil => simp [readRows, sel]
    | cons r Fr => simp at hlen
  | cons a Ar ih =>
    intro Fr rest hlen h
    cases Fr with
    | nil => simp at hlen
    | cons r Fr =>
      have hr := h (a, r) (by simp)
      have ih' := ih Fr rest (by simpa using hlen) (fun p hp => h p (by simp [hp]))
      cases a with
      | false =>
        rw [sel_cons_false]
        have hz : r = List.replicate 256 0 := hr.1 rfl
        simp only [readRows, ih', hz]
      | true =>
        obtain ⟨hfit, hsum⟩ := hr.2 rfl
        rw [sel_cons_true]
        simp only [List.map_cons, List.flatten_cons, List.append_assoc, readRows]
        have := readRow16_rowRle A r 0 (((sel Ar Fr).map fun r => rowRle (sel A r)).flatten ++ rest) hfit
          (Nat.zero_le _)
        simp only [List.drop_zero] at this
        rw [this]
        simp only [normRow_id r hsum, ih']

/-! ## the table the encoder writes -/

theorem fits_of_get (A : List Bool) : ∀ (r : List Nat), A.length = r.length →
    (∀ j, j < A.length → (A.getD j false = false → getF r j = 0) ∧ getF r j < 2 ^ 32) → Fits A r := by
  induction A with
  | nil =>
    intro r hl _
    cases r with
    | nil => trivial
    | cons x r => simp at hl
  | cons a A ih =>
    intro r hl h
    cases r with
    | nil => simp at hl
    | cons x r =>
      have h0 := h 0 (by simp)
      simp only [List.getD_cons_zero, getF_cons_zero] at h0
      refine ⟨h0.1, h0.2, ih r (by simpa using hl) ?_⟩
      intro j hj
      have := h (j + 1) (by simpa using hj)
      simpa [getF_cons_succ] using this

theorem alphabet1_length (src : List Nat) : (alphabet1 src).length = 256 := by simp [alphabet1]

theorem alphabet1_getD (src : List Nat) (j : Nat) (hj : j < 256) :
    (alphabet1 src).getD j false = (j = 0 || src.contains j) := by
  simp [alphabet1, List.getD_eq_getElem?_getD, hj]

theorem alphabet1_ex (src : List Nat) : ∃ f ∈ alphabet1 src, f = true := by
  refine ⟨true, ?_, rfl⟩
  unfold alphabet1
  exact List.mem_map.mpr ⟨0, List.mem_range.mpr (by decide), by simp⟩

theorem succs_nil_of_not_mem (c : Nat) (l : List Nat) (h : c ∉ l) : succs c l = [] := by
  induction l with
  | nil => simp [succs]
  | cons a l ih =>
    cases l with
    | nil => simp [succs]
    | cons b t =>
      simp only [List.mem_cons, not_or] at h
      have hac : ¬ (a = c) := fun e => h.1 e.symm
      simp only [succs, hac, ↓reduceIte]
      exact ih (by simp only [List.mem_cons, not_or]; exact h.2)

theorem hist_nil_sum : (hist []).sum = 0 := by
  apply sum_eq_zero
  intro s
  by_cases hs : s < 256
  · rw [getF_hist [] s hs]; simp
  · exact getF_of_ge _ _ (by rw [hist_length]; omega)

/-- the elements of the list whose histogram is row `c` are symbols of the alphabet -/
theorem rawRow_support (n : Nat) (src : List Nat) (c j : Nat) (hj : j < 256)
    (hA : (alphabet1 src).getD j false = false) : getF (rawRow n src c) j = 0 := by
  rw [alphabet1_getD src j hj] at hA
  simp only [Bool.or_eq_false_iff, decide_eq_false_iff_not, List.contains_eq_mem] at hA
  obtain ⟨hj0, hjs⟩ := hA
  unfold rawRow
  rw [getF_hist _ j hj]
  apply List.count_eq_zero.mpr
  intro hmem
  simp only [List.mem_append] at hmem
  rcases hmem with hm | hm
  · split at hm
    · obtain ⟨i, _, hi⟩ := List.mem_map.mp hm
      rw [List.getD_eq_getElem?_getD] at hi
      cases hg : src[i * (src.length / n)]? with
      | none => rw [hg] at hi; simp at hi; exact hj0 hi.symm
      | some v =>
        rw [hg] at hi
        simp only [Option.getD_some] at hi
        subst hi
        exact hjs (List.mem_of_getElem? hg)
    · simp at hm
  · exact hjs (succs_subset c src j hm)

theorem table16_rows (n : Nat) (src : List Nat) :
    ∀ p ∈ (alphabet1 src).zip (freqTable 4096 n src),
      (p.1 = false → p.2 = List.replicate 256 0) ∧
      (p.1 = true → Fits (alphabet1 src) p.2 ∧ (p.2.sum = 0 ∨ p.2.sum = 4096)) := by
  intro p hp
  unfold alphabet1 freqTable at hp
  rw [List.zip_map'] at hp
  obtain ⟨c, hc, rfl⟩ := List.mem_map.mp hp
  have hc' : c < 256 := List.mem_range.mp hc
  obtain ⟨hr1, hr2, hr3⟩ := freqTable_row 4096 (by decide) n src (normalizeTo 4096 (rawRow n src c))
    (List.mem_map.mpr ⟨c, hc, rfl⟩)
  -- the row is zero outside the alphabet
  have hzero : ∀ j, j < 256 → (alphabet1 src).getD j false = false →
      getF (normalizeTo 4096 (rawRow n src c)) j = 0 := by
    intro j hj hA
    have hraw := rawRow_support n src c j hj hA
    by_cases hs : (rawRow n src c).sum = 0
    · rw [normalizeTo_zero 4096 _ hs]
      exact getF_replicate_zero 256 j
    · exact (normalizeTo_spec 4096 (rawRow n src c) (by rw [rawRow_length]; decide) hs).zero j hraw
  -- a context outside the alphabet has no successors
  have habsent : (decide (c = 0) || src.contains c) = false →
      normalizeTo 4096 (rawRow n src c) = List.replicate 256 0 := by
    intro hf
    simp only [Bool.or_eq_false_iff, decide_eq_false_iff_not, List.contains_eq_mem] at hf
    have hs : (rawRow n src c).sum = 0 := by
      unfold rawRow
      rw [if_neg hf.1, List.nil_append, succs_nil_of_not_mem c src hf.2]
      exact hist_nil_sum
    exact normalizeTo_zero 4096 _ hs
  simp only []
  generalize normalizeTo 4096 (rawRow n src c) = r at *
  constructor
  · exact habsent
  · intro _
    refine ⟨?_, ?_⟩
    · refine fits_of_get (alphabet1 src) r ?_ ?_
      · rw [alphabet1_length, hr1]
      · intro j hj
        rw [alphabet1_length] at hj
        refine ⟨hzero j hj, ?_⟩
        have := hr3 _ (getF_mem r j (by rw [hr1]; exact hj))
        omega
    · rcases hr2 with h | h
      · left; rw [h]; exact sum_replicate_zero 256
      · right; exact h

/-- `nx16_o1_table_roundtrip`: bit count 12, not compressed -/
theorem readTable1_write (n : Nat) (src rest : List Nat) :
    readTable1 ([192] ++ Nx.writeAlpha (alphabet1 src) ++ writeTable1 (alphabet1 src) (freqTable 4096 n src) ++ rest)
      = some (12, freqTable 4096 n src, rest) := by
  simp only [readTable1, List.cons_append, List.nil_append, List.append_assoc]
  rw [if_neg (by decide)]
  simp only [readTableInner, readAlpha1_writeAlpha _ _ (alphabet1_length src) (alphabet1_ex src)]
  have := readRows_write (alphabet1 src) (alphabet1 src) (freqTable 4096 n src) rest
    (by rw [alphabet1_length, freqTable_length]) (table16_rows n src)
  unfold writeTable1
  rw [show (192 : Nat) / 16 = 12 from rfl, this]

/-- `rans_nx16_o1_stage` -/
theorem decodeO1_encodeO1 (n : Nat) (hn : 0 < n) (src : List Nat) (hsym : ∀ x ∈ src, x < 256)
    (rest : List Nat) :
    ∃ e, encodeO1 n src = .ok e ∧ decodeO1 n src.length (e ++ rest) = some src := by
  obtain ⟨st, out, e1, e2, e3, e4⟩ := decLanes_encLanes kit16 Nx.L kit16_ok (by unfold Nx.L; decide)
    (freqTable 4096 n src) n hn src
    (tableOK_freqTable 4096 (by decide) (by decide) n src hsym)
  have henc : encodeO1 n src = .ok ([192] ++ Nx.writeAlpha (alphabet1 src)
      ++ writeTable1 (alphabet1 src) (freqTable 4096 n src) ++ (st.map le4).flatten ++ out) := by
    simp only [encodeO1, e1]
  refine ⟨_, henc, ?_⟩
  unfold decodeO1
  have := readTable1_write n src ((st.map le4).flatten ++ out ++ rest)
  simp only [List.append_assoc] at this ⊢
  rw [this]
  simp only []
  have hs := rdStates_write st (out ++ rest) e3
  rw [e2] at hs
  rw [hs]
  simp only []
  exact e4 rest

end Noodles.Cram.O1

/-! ## every flag byte -/

namespace Noodles.Cram.Nx
open Noodles.Cram.Num Noodles.Cram.R4 Noodles.Cram.O1

theorem stageEntropyA_spec (f f3 : Flags) (src e : List Nat) (hsym : ∀ x ∈ src, x < 256)
    (h : stageEntropyA f src = .ok (f3, e)) :
    f3.n32 = f.n32 ∧ f3.stripe = f.stripe ∧ f3.nosz = f.nosz ∧
    f3.pack = f.pack ∧ f3.rle = f.rle ∧ decEntropyA f3 src.length e = .ok src := by
  have hfc : (forceCat f src).n32 = f.n32 ∧
      (forceCat f src).stripe = f.stripe ∧ (forceCat f src).nosz = f.nosz ∧
      (forceCat f src).pack = f.pack ∧ (forceCat f src).rle = f.rle := by
    unfold forceCat
    split <;> simp
  have hn : 0 < stateCount (forceCat f src) := by unfold stateCount; split <;> decide
  unfold stageEntropyA at h
  split at h
  · rename_i hcat
    simp only [Except.ok.injEq, Prod.mk.injEq] at h
    obtain ⟨rfl, rfl⟩ := h
    refine ⟨hfc.1, hfc.2.1, hfc.2.2.1, hfc.2.2.2.1, hfc.2.2.2.2, ?_⟩
    have := takeN_append src []
    rw [List.append_nil] at this
    simp [decEntropyA, hcat, this]
  · rename_i hcat
    split at h
    · rename_i hord
      split at h
      · exact absurd h (by simp)
      · rename_i e' henc
        simp only [Except.ok.injEq, Prod.mk.injEq] at h
        obtain ⟨rfl, rfl⟩ := h
        refine ⟨hfc.1, hfc.2.1, hfc.2.2.1, hfc.2.2.2.1, hfc.2.2.2.2, ?_⟩
        obtain ⟨e2, h1, h2⟩ := decodeO1_encodeO1 (stateCount (forceCat f src)) hn src hsym []
        rw [henc] at h1
        simp only [Except.ok.injEq] at h1
        subst h1
        rw [List.append_nil] at h2
        simp only [decEntropyA, hcat, Bool.false_eq_true, ↓reduceIte, hord, h2]
    · rename_i hord
      split at h
      · exact absurd h (by simp)
      · rename_i e' henc
        simp only [Except.ok.injEq, Prod.mk.injEq] at h
        obtain ⟨rfl, rfl⟩ := h
        refine ⟨hfc.1, hfc.2.1, hfc.2.2.1, hfc.2.2.2.1, hfc.2.2.2.2, ?_⟩
        have hlen : ¬ (src.length < stateCount f) := by
          intro hc
          apply hcat
          simp [forceCat, hc]
        have hne : src ≠ [] := by
          intro h0
          subst h0
          apply hlen
          unfold stateCount
          split <;> simp
        have := decodeO0_encodeO0 (stateCount (forceCat f src)) hn src e' hsym hne henc []
        rw [List.append_nil] at this
        simp only [decEntropyA, hcat, Bool.false_eq_true, ↓reduceIte, hord, this]

/-- Non-striped streams, EVERY flag byte: what `encode` writes behind the flag byte and the size
decodes to the input under the specification decoder run with the flag byte the encoder finally
wrote. -/
theorem decodeBodyA_encodeBodyA (f f3 : Flags) (src body : List Nat) (hsym : ∀ x ∈ src, x < 256)
    (h : encodeBodyA f src = .ok (f3, body)) :
    f3.stripe = f.stripe ∧ f3.nosz = f.nosz ∧ decodeBodyA f3 src.length body = .ok src := by
  unfold encodeBodyA at h
  split at h
  · exact absurd h (by simp)
  · rename_i f1 s1 m1 h1
    split at h
    · exact absurd h (by simp)
    · rename_i f2 s2 m2 h2
      split at h
      · exact absurd h (by simp)
      · rename_i f3' e h3
        simp only [Except.ok.injEq, Prod.mk.injEq] at h
        obtain ⟨rfl, rfl⟩ := h
        obtain ⟨⟨_, _, a3, a4⟩, a5, _, hs1, hP⟩ := stagePack_spec f f1 src s1 m1 hsym h1
        obtain ⟨⟨_, _, b3, b4⟩, b5, _, hs2, hR⟩ := stageRle_spec f1 f2 s1 s2 m2 hs1 h2
        obtain ⟨_, c3, c4, c5, c6, hE⟩ := stageEntropyA_spec f2 f3' s2 e hs2 h3
        refine ⟨by rw [c3, b3, a3], by rw [c4, b4, a4], ?_⟩
        obtain ⟨pm, hp1, hp2⟩ := hP f3' (m2 ++ e) (by rw [c5, b5])
        obtain ⟨rm, hr1, hr2⟩ := hR f3' e (by rw [c6])
        unfold decodeBodyA
        rw [List.append_assoc, hp1]
        simp only []
        rw [hr1]
        simp only []
        rw [hE]
        simp only []
        rw [hr2]
        simp only []
        exact hp2

/-! the complete decoder extends the order-0 one -/

theorem decEntropyA_of (f : Flags) (len : Nat) (bs d : List Nat)
    (h : decEntropy f len bs = .ok d) : decEntropyA f len bs = .ok d := by
  unfold decEntropy at h
  unfold decEntropyA
  split
  · rename_i hc
    simp only [hc, ↓reduceIte] at h
    exact h
  · rename_i hc
    simp only [hc, Bool.false_eq_true, ↓reduceIte] at h
    split
    · rename_i ho
      simp [ho] at h
    · rename_i ho
      simp only [ho, Bool.false_eq_true, ↓reduceIte] at h
      exact h

theorem decodeBodyA_of (f : Flags) (ulen : Nat) (bs d : List Nat)
    (h : decodeBody f ulen bs = .ok d) : decodeBodyA f ulen bs = .ok d := by
  unfold decodeBody at h
  unfold decodeBodyA
  split at h
  · exact absurd h (by simp)
  · rename_i pm len1 bs1 e1
    rw [e1]
    simp only []
    split at h
    · exact absurd h (by simp)
    · rename_i rm len2 bs2 e2
      rw [e2]
      simp only []
      split at h
      · exact absurd h (by simp)
      · rename_i data e3
        rw [decEntropyA_of f len2 bs2 data e3]
        exact h

theorem decodePartA_of (u : Nat) (p d : List Nat) (h : decodePart u p = .ok d) :
    decodePartA u p = .ok d := by
  cases p with
  | nil => simp [decodePart] at h
  | cons b body =>
    simp only [decodePart] at h
    simp only [decodePartA]
    split
    · rename_i hs
      simp [hs] at h
    · rename_i hs
      simp only [hs, Bool.false_eq_true, ↓reduceIte] at h
      split
      · rename_i hn
        simp only [hn, ↓reduceIte] at h
        exact decodeBodyA_of _ _ _ _ h
      · rename_i hn
        simp only [hn, Bool.false_eq_true, ↓reduceIte] at h
        split at h
        · exact absurd h (by simp)
        · rename_i u' body' e
          rw [e]
          exact decodeBodyA_of _ _ _ _ h

theorem decodePartsA_of (ulen x : Nat) (cs : List Nat) :
    ∀ (j : Nat) (bs : List Nat) (d : List (List Nat)), decodeParts ulen x j cs bs = .ok d →
      decodePartsA ulen x j cs bs = .ok d := by
  induction cs with
  | nil => intro j bs d h; simpa [decodeParts, decodePartsA] using h
  | cons c cs ih =>
    intro j bs d h
    simp only [decodeParts] at h
    simp only [decodePartsA]
    split at h
    · exact absurd h (by simp)
    · rename_i part bs1 e1
      rw [e1]
      simp only []
      split at h
      · exact absurd h (by simp)
      · rename_i out e2
        rw [decodePartA_of _ _ _ e2]
        simp only []
        split at h
        · exact absurd h (by simp)
        · rename_i rest e3
          rw [ih (j + 1) bs1 rest e3]
          exact h

theorem decodeA_of (bs : List Nat) (outer : Nat) (d : List Nat) (h : decode bs outer = .ok d) :
    decodeA bs outer = .ok d := by
  cases bs with
  | nil => simp [decode] at h
  | cons b bs =>
    simp only [decode] at h
    simp only [decodeA]
    split at h
    · exact absurd h (by simp)
    · rename_i ulen bs1 e1
      rw [e1]
      simp only []
      split
      · rename_i hs
        simp only [hs, ↓reduceIte] at h
        split at h
        · exact absurd h (by simp)
        · rename_i x bs2 e2
          rw [e2]
          simp only []
          split
          · rename_i hx
            simp [hx] at h
          · rename_i hx
            simp only [hx, ↓reduceIte] at h
            split at h
            · exact absurd h (by simp)
            · rename_i sizes bs3 e3
              rw [e3]
              simp only []
              split at h
              · exact absurd h (by simp)
              · rename_i parts e4
                rw [decodePartsA_of _ _ _ _ _ _ e4]
                exact h
      · rename_i hs
        simp only [hs, Bool.false_eq_true, ↓reduceIte] at h
        exact decodeBodyA_of _ _ _ _ h

/-- the complete encoder is the order-0 one where that answers at all -/
theorem encodeA_stripe (f : Flags) (src : List Nat) (hs : f.stripe = true) :
    encodeA f src = encode f src := by
  simp only [encodeA, encode, hs, ↓reduceIte]
  rfl

/-- `rans_nx16_roundtrip_all_flags` -/
theorem decodeA_encodeA (f : Flags) (src bs : List Nat) (hsym : ∀ x ∈ src, x < 256)
    (h : encodeA f src = .ok bs) : decodeA bs src.length = .ok src := by
  by_cases hstripe : f.stripe = true
  · -- the sub-streams of a striped stream are coded at order 0 whatever the outer ORDER bit says
    rw [encodeA_stripe f src hstripe] at h
    have h' : encode { f with order := false } src
        = .ok (({ f with order := false } : Flags).toByte :: bs.tail) := by
      unfold encode at h ⊢
      simp only [hstripe, ↓reduceIte] at h ⊢
      split at h
      · exact absurd h (by simp)
      · rename_i size hsize
        rw [hsize]
        simp only []
        split at h
        · exact absurd h (by simp)
        · rename_i s hs
          simp only [Except.ok.injEq] at h
          subst h
          simp
    have hd := decode_encode { f with order := false } src _ hsym rfl h'
    apply decodeA_of
    have hb : bs = f.toByte :: bs.tail := by
      unfold encode at h
      simp only [hstripe, ↓reduceIte] at h
      split at h
      · exact absurd h (by simp)
      · split at h
        · exact absurd h (by simp)
        · simp only [Except.ok.injEq] at h
          subst h
          simp
    rw [hb]
    simp only [decode, ofByte_toByte, hstripe, ↓reduceIte] at hd ⊢
    exact hd
  · have hstripe' : f.stripe = false := by simpa using hstripe
    unfold encodeA at h
    split at h
    · exact absurd h (by simp)
    · rename_i size hsize
      have hrd' : ∀ tail : List Nat, (if f.nosz then (.ok (src.length, size ++ tail) : Except DecErr _)
          else rdU7 (size ++ tail)) = .ok (src.length, tail) := by
        intro tail
        split at hsize
        · rename_i hn
          simp only [Except.ok.injEq] at hsize
          subst hsize
          simp [hn]
        · rename_i hn
          simp only [hn, Bool.false_eq_true, ↓reduceIte]
          exact rdU7_u7 _ _ _ hsize
      simp only [hstripe', Bool.false_eq_true, ↓reduceIte] at h
      split at h
      · exact absurd h (by simp)
      · rename_i f' body hb
        simp only [Except.ok.injEq] at h
        subst h
        obtain ⟨h2, h3, h4⟩ := decodeBodyA_encodeBodyA f f' src body hsym hb
        simp only [decodeA, List.cons_append, List.nil_append, ofByte_toByte, h2, h3, hrd', hstripe',
          Bool.false_eq_true, ↓reduceIte]
        exact h4

end Noodles.Cram.Nx

namespace Noodles.Cram.Nx
open Noodles.Cram.Num Noodles.Cram.R4 Noodles.Cram.O1

theorem stageEntropyA_of (f : Flags) (src : List Nat) (r : Flags × List Nat)
    (h : stageEntropy f src = .ok r) : stageEntropyA f src = .ok r := by
  unfold stageEntropy at h
  unfold stageEntropyA
  split
  · rename_i hc
    simp only [hc, ↓reduceIte] at h
    exact h
  · rename_i hc
    simp only [hc, Bool.false_eq_true, ↓reduceIte] at h
    split
    · rename_i ho
      simp [ho] at h
    · rename_i ho
      simp only [ho, Bool.false_eq_true, ↓reduceIte] at h
      exact h

theorem encodeBodyA_of (f : Flags) (src : List Nat) (r : Flags × List Nat)
    (h : encodeBody f src = .ok r) : encodeBodyA f src = .ok r := by
  unfold encodeBody at h
  unfold encodeBodyA
  split at h
  · exact absurd h (by simp)
  · rename_i f1 s1 m1 e1
    rw [e1]
    simp only []
    split at h
    · exact absurd h (by simp)
    · rename_i f2 s2 m2 e2
      rw [e2]
      simp only []
      split at h
      · exact absurd h (by simp)
      · rename_i f3 e e3
        rw [stageEntropyA_of f2 s2 _ e3]
        exact h

/-- whatever the order-0 model of the encoder answers, the complete model answers too -/
theorem encodeA_of (f : Flags) (src bs : List Nat) (h : encode f src = .ok bs) :
    encodeA f src = .ok bs := by
  by_cases hs : f.stripe = true
  · rw [encodeA_stripe f src hs]; exact h
  · have hs' : f.stripe = false := by simpa using hs
    unfold encode at h
    unfold encodeA
    split at h
    · exact absurd h (by simp)
    · rename_i size e1
      rw [e1]
      simp only [hs', Bool.false_eq_true, ↓reduceIte] at h ⊢
      split at h
      · exact absurd h (by simp)
      · rename_i f' body e2
        rw [encodeBodyA_of f src _ e2]
        exact h

end Noodles.Cram.Nx
