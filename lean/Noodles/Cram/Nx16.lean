import Noodles.Cram.Num
import Noodles.Cram.Rans4x8
/-!
# rANS Nx16, order 0, with the bit-pack / run-length / stripe / cat transforms

**Encoder** — transcribed from noodles (`noodles-cram/src/codecs/rans_nx16/encode.rs`,
`encode/order_0.rs`, `encode/bit_pack.rs`, `encode/bit_pack/context.rs`, `encode/rle.rs`,
`encode/rle/context.rs`, `encode/stripe.rs`) for every flag byte WITHOUT the `ORDER` bit: the
flags `N32`, `STRIPE`, `NO_SIZE`, `CAT`, `RLE`, `PACK` (and the reserved bit, which the code
ignores) in any combination, including the places where the encoder rewrites its own flag byte
(PACK dropped for an empty or > 16 symbol alphabet, RLE dropped when no symbol qualifies, CAT
forced when fewer bytes than states remain). As in `Rans4x8.lean` the model describes the code
WITH the C08 `fix:` commits (`write_alphabet` run lengths, `normalize_frequencies` excess).
An order-1 request is outside the model (`EncErr.order1`).

**Decoder** — written from the CRAM codecs specification (section 3: `RansDecodeNx16`,
`ReadAlphabet`, `ReadFrequencies0`, `RansDecodeNx16_0`, `DecodePack`, `DecodeRLE`, the striped
layout), not from noodles.

Bytes and symbols are natural numbers `< 256`; states are `u32` values held in `Nat`.
-/
namespace Noodles.Cram.Nx
open Noodles.Cram.Num Noodles.Cram.R4

inductive EncErr
  | invalidInput
  | zeroFreq
  | order1
  deriving Repr, DecidableEq

inductive DecErr
  | eof
  | invalidData
  | order1
  | nested
  deriving Repr, DecidableEq

/-! ## flags -/

/-- `rans_nx16::Flags` (all eight bits are defined flags, so `Flags::from(u8)` keeps them all) -/
structure Flags where
  order : Bool
  reserved : Bool
  n32 : Bool
  stripe : Bool
  nosz : Bool
  cat : Bool
  rle : Bool
  pack : Bool
  deriving DecidableEq, Repr

def Flags.toByte (f : Flags) : Nat :=
  (if f.order then 1 else 0) + (if f.reserved then 2 else 0) + (if f.n32 then 4 else 0)
    + (if f.stripe then 8 else 0) + (if f.nosz then 16 else 0) + (if f.cat then 32 else 0)
    + (if f.rle then 64 else 0) + (if f.pack then 128 else 0)

def Flags.ofByte (b : Nat) : Flags :=
  ⟨b % 2 = 1, b / 2 % 2 = 1, b / 4 % 2 = 1, b / 8 % 2 = 1, b / 16 % 2 = 1, b / 32 % 2 = 1,
    b / 64 % 2 = 1, b / 128 % 2 = 1⟩

/-- `Flags::NO_SIZE` -/
def Flags.noSize : Flags := ⟨false, false, false, false, true, false, false, false⟩

def stateCount (f : Flags) : Nat := if f.n32 then 32 else 4

/-! ## bit packing (`encode/bit_pack.rs`, `bit_pack/context.rs`) -/

/-- the symbols that occur, ascending (`build_alphabet` + the enumeration order of
`build_mapping_table` / `write_context`) -/
def symbols (src : List Nat) : List Nat := (List.range 256).filter fun s => src.contains s

/-- `mapping_table[sym]`: the rank of `sym` among the symbols that occur -/
def rank (syms : List Nat) (s : Nat) : Nat := syms.idxOf s

/-- one output byte of `pack`: `d |= n_i << (shift * i)` over the symbols `n_0, n_1, …` of a
chunk, i.e. `n_0 + 2^shift * (n_1 + 2^shift * (…))` (the fields do not overlap) -/
def packByte (syms : List Nat) (shift : Nat) : List Nat → Nat
  | [] => 0
  | s :: rest => rank syms s + 2 ^ shift * packByte syms shift rest

/-- `src.chunks(n)` -/
def chunks (n : Nat) : Nat → List Nat → List (List Nat)
  | 0, _ => []
  | fuel + 1, l => if l.isEmpty then [] else l.take n :: chunks n fuel (l.drop n)

/-- `pack(src, mapping_table, chunk_size)` -/
def pack (syms : List Nat) (per : Nat) (src : List Nat) : List Nat :=
  (chunks per src.length src).map fun c => packByte syms (8 / per) c

/-- symbols per byte for an alphabet of `n` symbols: 2 → 8, 3..4 → 4, 5..16 → 2 -/
def perByte (n : Nat) : Nat := if n ≤ 2 then 8 else if n ≤ 4 then 4 else 2

/-- `bit_pack::encode`: nothing at all for a single symbol -/
def packEnc (syms : List Nat) (src : List Nat) : List Nat :=
  if syms.length = 1 then [] else pack syms (perByte syms.length) src

/-- `DecodePack`: `ulen` symbols, low bits first -/
def unpackByte (map : List Nat) (bits : Nat) : Nat → Nat → List Nat
  | 0, _ => []
  | k + 1, v => map.getD (v % 2 ^ bits) 0 :: unpackByte map bits k (v / 2 ^ bits)

def unpack (map : List Nat) (ulen : Nat) (data : List Nat) : Except DecErr (List Nat) :=
  if map.length = 0 ∨ map.length > 16 then .error .invalidData
  else if map.length = 1 then .ok (List.replicate ulen (map.getD 0 0))
  else
    let per := perByte map.length
    let out := (data.map fun b => unpackByte map (8 / per) per b).flatten
    if out.length < ulen then .error .eof else .ok (out.take ulen)

/-! ## run lengths (`encode/rle.rs`, `rle/context.rs`) -/

/-- the score of `build_context`: over adjacent pairs, `+1` when the symbol repeats its
predecessor, `-1` when it does not -/
def rleScore (s : Nat) : List Nat → Int
  | a :: b :: rest => (if b = s then (if a = b then 1 else -1) else 0) + rleScore s (b :: rest)
  | _ => 0

/-- the symbols whose runs are stored as lengths -/
def rleSyms (src : List Nat) : List Nat := (List.range 256).filter fun s => rleScore s src > 0

/-- number of leading copies of `s` -/
def runOf (s : Nat) : List Nat → Nat
  | [] => 0
  | a :: rest => if a = s then runOf s rest + 1 else 0

/-- `rle::encode`: (literals, run lengths as uint7); `fuel` is the input length. A run of `2^32`
or more is refused (`InvalidInput`). -/
def rleEnc (rs : List Nat) : Nat → List Nat → Option (List Nat × List Nat)
  | 0, _ => some ([], [])
  | _ + 1, [] => some ([], [])
  | fuel + 1, s :: rest =>
    if rs.contains s then
      let n := runOf s rest
      match writeUint7 n, rleEnc rs fuel (rest.drop n) with
      | some u, some (lits, mt) => if n < 2 ^ 32 then some (s :: lits, u ++ mt) else none
      | _, _ => none
    else
      match rleEnc rs fuel rest with
      | some (lits, mt) => some (s :: lits, mt)
      | none => none

/-- `DecodeRLE`: expand the literals; `mt` is the stream of run lengths, `fuel` the literal count -/
def rleDec (isRun : Nat → Bool) : List Nat → List Nat → Except DecErr (List Nat)
  | [], _ => .ok []
  | s :: lits, mt =>
    if isRun s then
      match readUint7 mt with
      | .error .eof => .error .eof
      | .error .invalidData => .error .invalidData
      | .ok (n, mt) =>
        match rleDec isRun lits mt with
        | .error e => .error e
        | .ok out => .ok (List.replicate (n + 1) s ++ out)
    else
      match rleDec isRun lits mt with
      | .error e => .error e
      | .ok out => .ok (s :: out)

/-! ## order-0 entropy stage (`encode/order_0.rs`, `encode.rs`) -/

/-- `LOWER_BOUND` -/
def L : Nat := 2 ^ 15

/-- `write_alphabet` (fixed), at symbol `sym` with the flags of `sym, sym+1, …` still to visit -/
def leadT : List Bool → Nat
  | [] => 0
  | a :: rest => if a then leadT rest + 1 else 0

def writeAlphaGo : Nat → List Bool → Option Nat → List Nat
  | _, [], _ => [0]
  | sym, a :: rest, prev =>
    if !a then writeAlphaGo (sym + 1) rest prev
    else if sym > 0 ∧ prev = some (sym - 1) then
      let len := leadT rest
      [sym, len] ++ writeAlphaGo (sym + 1 + len) (rest.drop len) (some (sym + len))
    else [sym] ++ writeAlphaGo (sym + 1) rest (some sym)
termination_by _ l => l.length
decreasing_by
  all_goals simp only [List.length_cons, List.length_drop]
  all_goals omega

def writeAlpha (A : List Bool) : List Nat := writeAlphaGo 0 A none

/-- `write_frequencies`: the non-zero frequencies as uint7, in symbol order (a frequency is at
most 4096, two bytes) -/
def writeFreqs16 (F : List Nat) : List Nat :=
  ((F.filter (· ≠ 0)).map fun f => (writeUint7 f).getD []).flatten

/-- `state_renormalize`: `while s >= (1 << 19) * f { push (s & 0xffff) big-endian; s >>= 16 }`;
bytes in push order -/
def renormEnc : Nat → Nat → Nat → Nat × List Nat
  | 0, s, _ => (s, [])
  | fuel + 1, s, f =>
    if s ≥ 2 ^ 19 * f then
      let r := renormEnc fuel (s / 65536) f
      (r.1, s / 256 % 256 :: s % 256 :: r.2)
    else (s, [])

/-- `order_0::encode` loop, as `R4.encLoop` with `n` states -/
def encLoop (F C : List Nat) (n : Nat) :
    List Nat → Nat → List Nat → List Nat → Except EncErr (List Nat × List Nat)
  | [], _, st, out => .ok (st, out)
  | x :: rest, i, st, out =>
    let f := getF F x
    if f = 0 then .error .zeroFreq
    else
      let j := (i - 1) % n
      let r := renormEnc 2 (st.getD j 0) f
      encLoop F C n rest (i - 1) (st.set j (encStep r.1 f (getF C x))) (r.2.reverse ++ out)

/-- alphabet, frequencies, states, payload -/
def encodeO0 (n : Nat) (src : List Nat) : Except EncErr (List Nat) :=
  let F := normalizeTo 4096 (hist src)
  let C := cumL F
  match encLoop F C n src.reverse src.length (List.replicate n L) [] with
  | .error e => .error e
  | .ok (st, out) => .ok (writeAlpha (F.map (· ≠ 0)) ++ writeFreqs16 F ++ (st.map le4).flatten ++ out)

/-! ## `encode` -/

def u7 (n : Nat) : Except EncErr (List Nat) :=
  if n < 2 ^ 32 then .ok ((writeUint7 n).getD []) else .error .invalidInput

/-- bit packing stage of `encode`: (flags, data, meta data). PACK is dropped for an empty input or
more than 16 distinct symbols. -/
def stagePack (f : Flags) (src : List Nat) : Except EncErr (Flags × List Nat × List Nat) :=
  if f.pack then
    if (symbols src).length = 0 ∨ (symbols src).length > 16 then .ok ({ f with pack := false }, src, [])
    else
      match u7 (packEnc (symbols src) src).length with
      | .error e => .error e
      | .ok n => .ok (f, packEnc (symbols src) src, [(symbols src).length] ++ symbols src ++ n)
  else .ok (f, src, [])

/-- run-length stage: RLE is dropped when no symbol qualifies; the meta data (symbol count, the
symbols, the run lengths) is stored uncompressed (`(len << 1) | 1`) -/
def stageRle (f : Flags) (src : List Nat) : Except EncErr (Flags × List Nat × List Nat) :=
  if f.rle then
    if (rleSyms src).length = 0 then .ok ({ f with rle := false }, src, [])
    else
      match rleEnc (rleSyms src) src.length src with
      | none => .error .invalidInput
      | some (lits, runs) =>
        match u7 (([(rleSyms src).length % 256] ++ rleSyms src ++ runs).length * 2 + 1),
            u7 lits.length with
        | .ok a, .ok b => .ok (f, lits, a ++ b ++ ([(rleSyms src).length % 256] ++ rleSyms src ++ runs))
        | _, _ => .error .invalidInput
  else .ok (f, src, [])

/-- `if src.len() < state_count { flags.remove(ORDER); flags.insert(CAT) }` -/
def forceCat (f : Flags) (src : List Nat) : Flags :=
  if src.length < stateCount f then { f with order := false, cat := true } else f

/-- entropy stage: raw bytes under CAT, else the order-0 coder -/
def stageEntropy (f : Flags) (src : List Nat) : Except EncErr (Flags × List Nat) :=
  if (forceCat f src).cat then .ok (forceCat f src, src)
  else if (forceCat f src).order then .error .order1
  else
    match encodeO0 (stateCount (forceCat f src)) src with
    | .error e => .error e
    | .ok e => .ok (forceCat f src, e)

/-- everything after the flag byte and the size, for a non-striped stream: the final flags (the
encoder rewrites its flag byte) and the bytes -/
def encodeBody (f : Flags) (src : List Nat) : Except EncErr (Flags × List Nat) :=
  match stagePack f src with
  | .error e => .error e
  | .ok (f1, s1, m1) =>
    match stageRle f1 s1 with
    | .error e => .error e
    | .ok (f2, s2, m2) =>
      match stageEntropy f2 s2 with
      | .error e => .error e
      | .ok (f3, e) => .ok (f3, m1 ++ m2 ++ e)

/-- `stripe::encode`: transpose into 4 sub-streams (`chunk_j[k] = src[k * 4 + j]`, the first
`len % 4` sub-streams one byte longer), each encoded with `Flags::NO_SIZE` -/
def transpose (x : Nat) (src : List Nat) (j : Nat) : List Nat :=
  (chunks x src.length src).filterMap fun c => c[j]?

/-- one sub-stream: `super::encode(Flags::NO_SIZE, &chunk)` -/
def encPart (src : List Nat) (j : Nat) : Except EncErr (List Nat) :=
  match encodeBody Flags.noSize (transpose 4 src j) with
  | .error e => .error e
  | .ok (f, body) => .ok (f.toByte :: body)

def encodeStripe (src : List Nat) : Except EncErr (List Nat) :=
  match encPart src 0 with
  | .error e => .error e
  | .ok p0 =>
  match encPart src 1 with
  | .error e => .error e
  | .ok p1 =>
  match encPart src 2 with
  | .error e => .error e
  | .ok p2 =>
  match encPart src 3 with
  | .error e => .error e
  | .ok p3 =>
  match u7 p0.length, u7 p1.length, u7 p2.length, u7 p3.length with
  | .ok a0, .ok a1, .ok a2, .ok a3 => .ok ([4] ++ (a0 ++ a1 ++ a2 ++ a3) ++ (p0 ++ p1 ++ p2 ++ p3))
  | _, _, _, _ => .error .invalidInput

/-- `rans_nx16::encode(flags, src)` -/
def encode (f : Flags) (src : List Nat) : Except EncErr (List Nat) :=
  match (if f.nosz then .ok [] else u7 src.length) with
  | .error e => .error e
  | .ok size =>
    if f.stripe then
      match encodeStripe src with
      | .error e => .error e
      | .ok s => .ok ([f.toByte] ++ size ++ s)
    else
      match encodeBody f src with
      | .error e => .error e
      | .ok (f', body) => .ok ([f'.toByte] ++ size ++ body)

/-! ## decoder (specification) -/

def liftErr : Err → DecErr
  | .eof => .eof
  | .invalidData => .invalidData

def rdU7 (bs : List Nat) : Except DecErr (Nat × List Nat) :=
  match readUint7 bs with
  | .ok r => .ok r
  | .error e => .error (liftErr e)

def rdU8 : List Nat → Except DecErr (Nat × List Nat)
  | [] => .error .eof
  | b :: r => .ok (b, r)

def takeN (k : Nat) (bs : List Nat) : Except DecErr (List Nat × List Nat) :=
  if k ≤ bs.length then .ok (bs.take k, bs.drop k) else .error .eof

/-- `ReadAlphabet`, the part after a symbol has been marked with no run pending -/
def alphaNext (k : List Bool → Nat → Nat → List Nat → Except DecErr (List Bool × List Nat))
    (A : List Bool) (last : Nat) : List Nat → Except DecErr (List Bool × List Nat)
  | [] => .error .eof
  | s :: bs =>
    if s = 0 then .ok (A, bs)
    else if s = last + 1 then
      match bs with
      | [] => .error .eof
      | r :: bs => k A s r bs
    else k A s 0 bs

/-- `ReadAlphabet` at "`A[sym] ← 1`" with `rle` more symbols of a run to come -/
def alphaLoop : Nat → List Bool → Nat → Nat → List Nat → Except DecErr (List Bool × List Nat)
  | 0, _, _, _, _ => .error .eof
  | fuel + 1, A, sym, rle, bs =>
    if sym ≥ 256 then .error .invalidData
    else if rle > 0 then alphaLoop fuel (A.set sym true) (sym + 1) (rle - 1) bs
    else alphaNext (fun A s r bs => alphaLoop fuel A s r bs) (A.set sym true) sym bs

def readAlpha : List Nat → Except DecErr (List Bool × List Nat)
  | [] => .error .eof
  | s :: bs => alphaLoop (bs.length + 513) (List.replicate 256 false) s 0 bs

/-- one uint7 per symbol of the alphabet -/
def readFreqs16 : List Bool → List Nat → Except DecErr (List Nat × List Nat)
  | [], bs => .ok ([], bs)
  | a :: A, bs =>
    if a then
      match rdU7 bs with
      | .error e => .error e
      | .ok (f, bs) =>
        match readFreqs16 A bs with
        | .error e => .error e
        | .ok (F, bs) => .ok (f :: F, bs)
    else
      match readFreqs16 A bs with
      | .error e => .error e
      | .ok (F, bs) => .ok (0 :: F, bs)

/-- the decoder scales a table that sums to less than `2^12` up by a power of two -/
def shiftUp : Nat → Nat → Nat
  | 0, _ => 0
  | fuel + 1, tot => if tot < 4096 then shiftUp fuel (tot * 2) + 1 else 0

def normaliseDec (F : List Nat) : List Nat :=
  if F.sum = 0 ∨ F.sum = 4096 then F else F.map (· * 2 ^ shiftUp 13 F.sum)

def readStates : Nat → List Nat → Except DecErr (List Nat × List Nat)
  | 0, bs => .ok ([], bs)
  | n + 1, bs =>
    match readU32le bs with
    | .error e => .error (liftErr e)
    | .ok (x, bs) =>
      match readStates n bs with
      | .error e => .error e
      | .ok (st, bs) => .ok (x :: st, bs)

/-- `RansRenormNx16`: `if x < 2^15: x ← (x << 16) + ReadUint16LE()` -/
def renormDec (bs : List Nat) (x : Nat) : Except DecErr (Nat × List Nat) :=
  if x ≥ L then .ok (x, bs)
  else
    match bs with
    | lo :: hi :: r => .ok (x * 65536 + (hi * 256 + lo), r)
    | _ => .error .eof

/-- `RansDecodeNx16_0` main loop -/
def decSyms (F C : List Nat) (n : Nat) : Nat → Nat → List Nat → List Nat → List Nat →
    Except DecErr (List Nat × List Nat × List Nat)
  | 0, _, st, bs, acc => .ok (acc.reverse, st, bs)
  | k + 1, i, st, bs, acc =>
    let j := i % n
    let x := st.getD j 0
    let s := lookup C (x % 4096)
    match renormDec bs (decStep x (getF F s) (getF C s)) with
    | .error e => .error e
    | .ok (x', bs') => decSyms F C n k (i + 1) (st.set j x') bs' (s :: acc)

def decodeO0 (n len : Nat) (bs : List Nat) : Except DecErr (List Nat) :=
  match readAlpha bs with
  | .error e => .error e
  | .ok (A, bs) =>
    match readFreqs16 A bs with
    | .error e => .error e
    | .ok (F, bs) =>
      let F := normaliseDec F
      let C := cumL F
      match readStates n bs with
      | .error e => .error e
      | .ok (st, bs) =>
        match decSyms F C n len 0 st bs [] with
        | .error e => .error e
        | .ok (out, _, _) => .ok out

/-- pack meta data: symbol count, the map, the packed length -/
def readPack (f : Flags) (ulen : Nat) (bs : List Nat) :
    Except DecErr (Option (List Nat) × Nat × List Nat) :=
  if f.pack then
    match rdU8 bs with
    | .error e => .error e
    | .ok (nsym, bs) =>
      match takeN nsym bs with
      | .error e => .error e
      | .ok (map, bs) =>
        match rdU7 bs with
        | .error e => .error e
        | .ok (len, bs) => .ok (some map, len, bs)
  else .ok (none, ulen, bs)

/-- run-length meta data: its length field (odd: stored raw, as noodles always writes it; the
compressed form is outside this model), the literal count, the meta data -/
def readRle (f : Flags) (len : Nat) (bs : List Nat) :
    Except DecErr (Option (List Nat) × Nat × List Nat) :=
  if f.rle then
    match rdU7 bs with
    | .error e => .error e
    | .ok (mlen, bs) =>
      match rdU7 bs with
      | .error e => .error e
      | .ok (len', bs) =>
        if mlen % 2 = 1 then
          match takeN (mlen / 2) bs with
          | .error e => .error e
          | .ok (mt, bs) => .ok (some mt, len', bs)
        else .error .nested
  else .ok (none, len, bs)

def decEntropy (f : Flags) (len : Nat) (bs : List Nat) : Except DecErr (List Nat) :=
  if f.cat then
    match takeN len bs with
    | .error e => .error e
    | .ok (d, _) => .ok d
  else if f.order then .error .order1
  else decodeO0 (stateCount f) len bs

def undoRle : Option (List Nat) → Nat → List Nat → Except DecErr (List Nat)
  | none, _, data => .ok data
  | some mt, preRle, data =>
    match rdU8 mt with
    | .error e => .error e
    | .ok (nsym, mt) =>
      match takeN (if nsym = 0 then 256 else nsym) mt with
      | .error e => .error e
      | .ok (syms, mt) =>
        match rleDec (fun s => syms.contains s) data mt with
        | .error e => .error e
        | .ok out => if out.length = preRle then .ok out else .error .invalidData

def undoPack : Option (List Nat) → Nat → List Nat → Except DecErr (List Nat)
  | none, _, data => .ok data
  | some map, ulen, data => unpack map ulen data

/-- `RansDecodeNx16` for a non-striped stream whose flag byte and size have been read -/
def decodeBody (f : Flags) (ulen : Nat) (bs : List Nat) : Except DecErr (List Nat) :=
  match readPack f ulen bs with
  | .error e => .error e
  | .ok (pm, len1, bs) =>
    match readRle f len1 bs with
    | .error e => .error e
    | .ok (rm, len2, bs) =>
      match decEntropy f len2 bs with
      | .error e => .error e
      | .ok data =>
        match undoRle rm len1 data with
        | .error e => .error e
        | .ok data => undoPack pm ulen data

/-- interleave the sub-streams: `out[k * x + j] = part_j[k]` (round robin over the sub-streams
that still have bytes); `fuel` is the output length -/
def interleave : Nat → List (List Nat) → List Nat
  | 0, _ => []
  | fuel + 1, parts =>
    let heads := parts.filterMap List.head?
    if heads.isEmpty then [] else heads ++ interleave fuel (parts.map List.tail)

/-- one sub-stream of a striped stream: a complete (non-striped) Nx16 stream -/
def decodePart (ulenj : Nat) : List Nat → Except DecErr (List Nat)
  | [] => .error .eof
  | b :: body =>
    if (Flags.ofByte b).stripe then .error .nested
    else if (Flags.ofByte b).nosz then decodeBody (Flags.ofByte b) ulenj body
    else
      match rdU7 body with
      | .error e => .error e
      | .ok (u, body) => decodeBody (Flags.ofByte b) u body

def decodeParts (ulen x : Nat) : Nat → List Nat → List Nat → Except DecErr (List (List Nat))
  | _, [], _ => .ok []
  | j, c :: cs, bs =>
    match takeN c bs with
    | .error e => .error e
    | .ok (part, bs) =>
      match decodePart (ulen / x + (if ulen % x > j then 1 else 0)) part with
      | .error e => .error e
      | .ok out =>
        match decodeParts ulen x (j + 1) cs bs with
        | .error e => .error e
        | .ok rest => .ok (out :: rest)

def readSizes : Nat → List Nat → Except DecErr (List Nat × List Nat)
  | 0, bs => .ok ([], bs)
  | n + 1, bs =>
    match rdU7 bs with
    | .error e => .error e
    | .ok (c, bs) =>
      match readSizes n bs with
      | .error e => .error e
      | .ok (cs, bs) => .ok (c :: cs, bs)

/-- `RansDecodeNx16(len)`: `outer` is the size the container gives (used under `NO_SIZE`) -/
def decode (bs : List Nat) (outer : Nat) : Except DecErr (List Nat) :=
  match bs with
  | [] => .error .eof
  | b :: bs =>
    match (if (Flags.ofByte b).nosz then .ok (outer, bs) else rdU7 bs) with
    | .error e => .error e
    | .ok (ulen, bs) =>
      if (Flags.ofByte b).stripe then
        match rdU8 bs with
        | .error e => .error e
        | .ok (x, bs) =>
          if x = 0 then .error .invalidData
          else
            match readSizes x bs with
            | .error e => .error e
            | .ok (sizes, bs) =>
              match decodeParts ulen x 0 sizes bs with
              | .error e => .error e
              | .ok parts => .ok ((interleave ulen parts).take ulen)
      else decodeBody (Flags.ofByte b) ulen bs

end Noodles.Cram.Nx
