import Noodles.Basic.Wire
import Noodles.Basic.Crc32
import Noodles.Cram.Tok
/-! Line-protocol handler for the read name tokenizer (`c08 tokenc …`, `c08 tokdec …`).

The inner stream compressor of the model is instantiated with the *flat* codec: a token byte stream
is stored as it is under method 0 and reversed under any other method byte (so that the decoder's
choice between its two decompressors is observable). The harness converts between the real
container (inner streams compressed by the real rANS Nx16 / arithmetic coder) and the flat one. -/
namespace Noodles.Cram.DriverC08Tok
open Noodles.Wire Noodles.Cram.Tok

def flat : StreamCodec := { enc := some, dec := some, decAlt := fun x => some x.reverse }

def toNats (b : List UInt8) : List Nat := b.map (·.toNat)
def ofNats (l : List Nat) : List UInt8 := l.map UInt8.ofNat

/-- short byte strings in full, long ones as `length:crc32` -/
def fmtBytes (l : List Nat) : String :=
  if l.length ≤ 64 then hex (ofNats l) else s!"{l.length}:{Noodles.Crc32.crc32 (ofNats l)}"

def handle? : List String → Option String
  | ["tokenc", h] => some <| match unhex h with
    | some b => match encode flat (toNats b) with
      | .ok e => s!"ok {fmtBytes e}"
      | .error .invalidInput => "err:invalid-input"
      | .error .invalidData => "err:invalid-data"
      | .error .eof => "err:eof"
    | none => "bad-op"
  | ["tokdec", h] => some <| match unhex h with
    | some b => match decode flat (toNats b) with
      | .ok d => s!"ok {fmtBytes d}"
      | .error _ => "rej"
    | none => "bad-op"
  | _ => none

end Noodles.Cram.DriverC08Tok
