import Noodles.Cram.Aac
/-! Helper lemmas for `Noodles/Props/C08Aac.lean`: the adaptive model (`model.rs`). -/
namespace Noodles.Cram.Aac

/-! ## the list operations of the update -/

theorem bumpAt_length (x : Nat) (fs : List Nat) : (bumpAt x fs).length = fs.length := by
  induction fs generalizing x with
  | nil => cases x <;> rfl
  | cons f fs ih => cases x <;> simp [bumpAt, ih]

theorem bumpAt_sum (x : Nat) (fs : List Nat) (h : x < fs.length) :
    (bumpAt x fs).sum = fs.sum + STEP := by
  induction fs generalizing x with
  | nil => simp at h
  | cons f fs ih =>
    cases x with
    | zero => simp [bumpAt]; omega
    | succ x =>
      simp only [List.length_cons] at h
      simp [bumpAt, ih x (by omega)]; omega

theorem bumpAt_pos (x : Nat) (fs : List Nat) (h : ∀ f ∈ fs, 1 ≤ f) : ∀ f ∈ bumpAt x fs, 1 ≤ f := by
  induction fs generalizing x with
  | nil => cases x <;> simp [bumpAt]
  | cons f fs ih =>
    cases x with
    | zero =>
      intro g hg
      simp only [bumpAt, List.mem_cons] at hg
      rcases hg with rfl | hg
      · have := h f (by simp); omega
      · exact h g (by simp [hg])
    | succ x =>
      intro g hg
      simp only [bumpAt, List.mem_cons] at hg
      rcases hg with rfl | hg
      · exact h g (by simp)
      · exact ih x (fun f hf => h f (by simp [hf])) g hg

theorem halve_length (fs : List Nat) : (halve fs).length = fs.length := by simp [halve]

theorem halve_pos (fs : List Nat) (h : ∀ f ∈ fs, 1 ≤ f) : ∀ f ∈ halve fs, 1 ≤ f := by
  intro g hg
  simp only [halve, List.mem_map] at hg
  obtain ⟨f, hf, rfl⟩ := hg
  have := h f hf
  omega

/-- halving rounds up: the new total is at most half the old one plus half the table size -/
theorem halve_sum_le (fs : List Nat) : (halve fs).sum * 2 ≤ fs.sum + fs.length := by
  induction fs with
  | nil => simp [halve]
  | cons f fs ih =>
    simp only [halve, List.map_cons, List.sum_cons, List.length_cons] at *
    omega

theorem swapAt_length (i : Nat) (l : List Nat) : (swapAt i l).length = l.length := by
  induction l generalizing i with
  | nil => cases i <;> rfl
  | cons a r ih =>
    cases i with
    | zero => cases r <;> simp [swapAt]
    | succ i => simp [swapAt, ih]

theorem swapAt_perm (i : Nat) (l : List Nat) : (swapAt i l).Perm l := by
  induction l generalizing i with
  | nil => cases i <;> exact List.Perm.refl _
  | cons a r ih =>
    cases i with
    | zero =>
      cases r with
      | nil => exact List.Perm.refl _
      | cons b r => exact List.Perm.swap a b r
    | succ i => exact List.Perm.cons a (ih i)

theorem swapAt_sum (i : Nat) (l : List Nat) : (swapAt i l).sum = l.sum :=
  (swapAt_perm i l).sum_nat

theorem swapAt_mem (i : Nat) (l : List Nat) (x : Nat) : x ∈ swapAt i l ↔ x ∈ l :=
  (swapAt_perm i l).mem_iff

/-! ## well-formed models -/

/-- What `Model::new` establishes and the update keeps: the two arrays have one length (at most
256), `total_freq` is the sum of the frequencies, no frequency is 0 (so no symbol ever becomes
uncodable, renormalisation included) and the total stays at most `(1 << 16) - 17`. -/
structure Model.WF (m : Model) : Prop where
  len : m.syms.length = m.freqs.length
  small : m.freqs.length ≤ 256
  total : m.total = m.freqs.sum
  pos : ∀ f ∈ m.freqs, 1 ≤ f
  bound : m.total ≤ MAXTOT

theorem sum_replicate_one (n : Nat) : (List.replicate n 1).sum = n := by
  induction n with
  | zero => rfl
  | succ n ih => simp [List.replicate_succ, ih]; omega

theorem Model.new_wf (n : Nat) (h : n ≤ 256) : (Model.new n).WF := by
  refine ⟨by simp [Model.new], by simpa [Model.new] using h, by simp [Model.new], ?_, ?_⟩
  · intro f hf
    simp only [Model.new, List.mem_replicate] at hf
    omega
  · simp only [Model.new, MAXTOT]; omega

theorem Model.update_wf (m : Model) (x : Nat) (h : m.WF) (hx : x < m.freqs.length) :
    (m.update x).WF := by
  have hsum := bumpAt_sum x m.freqs hx
  have hlen := bumpAt_length x m.freqs
  have hpos := bumpAt_pos x m.freqs h.pos
  have hh := halve_sum_le (bumpAt x m.freqs)
  have hs := h.small
  have ht := h.total
  have hb := h.bound
  unfold Model.update
  simp only [STEP, MAXTOT] at *
  by_cases hr : m.total + 16 > 65519
  · simp only [hr, if_true]
    split
    · refine ⟨by simp [swapAt_length, halve_length, hlen, h.len], by simp [swapAt_length, halve_length, hlen, hs],
        by simp [swapAt_sum], ?_, ?_⟩
      · intro f hf
        rw [swapAt_mem] at hf
        exact halve_pos _ hpos f hf
      · show (halve (bumpAt x m.freqs)).sum ≤ 65519
        omega
    · refine ⟨by simp [halve_length, hlen, h.len], by simp [halve_length, hlen, hs], rfl, halve_pos _ hpos, ?_⟩
      show (halve (bumpAt x m.freqs)).sum ≤ 65519
      omega
  · simp only [hr, if_false]
    split
    · refine ⟨by simp [swapAt_length, hlen, h.len], by simp [swapAt_length, hlen, hs],
        by simp [swapAt_sum]; omega, ?_, by show m.total + 16 ≤ 65519; omega⟩
      intro f hf
      rw [swapAt_mem] at hf
      exact hpos f hf
    · exact ⟨by simp [hlen, h.len], by simp [hlen, hs],
        by show m.total + 16 = (bumpAt x m.freqs).sum; omega, hpos,
        by show m.total + 16 ≤ 65519; omega⟩

/-- the symbols stay a permutation of what they were (so every symbol `< n` stays codable) -/
theorem Model.update_syms_perm (m : Model) (x : Nat) : (m.update x).syms.Perm m.syms := by
  unfold Model.update
  dsimp only
  repeat' split
  all_goals first | exact swapAt_perm _ _ | exact List.Perm.refl _

/-! ## the two searches pick the same interval -/

theorem findGo_acc_ge (s : Nat) (ss fs : List Nat) (x0 a0 x acc f : Nat)
    (h : findGo s ss fs x0 a0 = some (x, acc, f)) : a0 ≤ acc := by
  induction ss generalizing fs x0 a0 with
  | nil => simp [findGo] at h
  | cons a ss ih =>
    cases fs with
    | nil => simp [findGo] at h
    | cons f0 fs =>
      simp only [findGo] at h
      split at h
      · simp only [Option.some.injEq, Prod.mk.injEq] at h; omega
      · have := ih fs (x0 + 1) (a0 + f0) h; omega

/-- what `Model::encode`'s search returns: the position of (the first occurrence of) the symbol,
its frequency, and the sum of the frequencies before it; the interval lies inside the total -/
theorem findGo_spec (s : Nat) (ss fs : List Nat) (x0 a0 x acc f : Nat)
    (h : findGo s ss fs x0 a0 = some (x, acc, f)) :
    x0 ≤ x ∧ x - x0 < fs.length ∧ ss[x - x0]? = some s ∧ fs[x - x0]? = some f ∧
    acc + f ≤ a0 + fs.sum := by
  induction ss generalizing fs x0 a0 with
  | nil => simp [findGo] at h
  | cons a ss ih =>
    cases fs with
    | nil => simp [findGo] at h
    | cons f0 fs =>
      simp only [findGo] at h
      split at h
      · next heq =>
        simp only [Option.some.injEq, Prod.mk.injEq] at h
        obtain ⟨rfl, rfl, rfl⟩ := h
        simp [heq]
      · obtain ⟨h1, h2, h3, h4, h5⟩ := ih fs (x0 + 1) (a0 + f0) h
        have hx : x - x0 = (x - (x0 + 1)) + 1 := by omega
        refine ⟨by omega, by simp only [List.length_cons]; omega, ?_, ?_, by simp only [List.sum_cons]; omega⟩
        · rw [hx, List.getElem?_cons_succ]; exact h3
        · rw [hx, List.getElem?_cons_succ]; exact h4

/-- `encodeSymbol` / `decodeSymbol` pick the same cumulative interval: for ANY frequency value
inside the interval the encoder used, the decoder's search stops at the same position with the
same `acc` and the same frequency. -/
theorem locateGo_findGo (s : Nat) (ss fs : List Nat) (x0 a0 x acc f fr : Nat)
    (h : findGo s ss fs x0 a0 = some (x, acc, f)) (h1 : acc ≤ fr) (h2 : fr < acc + f) :
    locateGo fr fs x0 a0 = some (x, acc, f) := by
  induction ss generalizing fs x0 a0 with
  | nil => simp [findGo] at h
  | cons a ss ih =>
    cases fs with
    | nil => simp [findGo] at h
    | cons f0 fs =>
      simp only [findGo] at h
      split at h
      · simp only [Option.some.injEq, Prod.mk.injEq] at h
        obtain ⟨rfl, rfl, rfl⟩ := h
        have : ¬ (a0 + f0 ≤ fr) := by omega
        simp [locateGo, this]
      · have hge := findGo_acc_ge s ss fs (x0 + 1) (a0 + f0) x acc f h
        have : a0 + f0 ≤ fr := by omega
        simp only [locateGo, this, if_true]
        exact ih fs (x0 + 1) (a0 + f0) h

/-- a symbol that is in the table is found -/
theorem findGo_of_mem (s : Nat) (ss fs : List Nat) (x0 a0 : Nat) (hlen : ss.length = fs.length)
    (hs : s ∈ ss) : ∃ r, findGo s ss fs x0 a0 = some r := by
  induction ss generalizing fs x0 a0 with
  | nil => simp at hs
  | cons a ss ih =>
    cases fs with
    | nil => simp at hlen
    | cons f0 fs =>
      simp only [findGo]
      split
      · exact ⟨_, rfl⟩
      · next hne =>
        simp only [List.mem_cons] at hs
        rcases hs with rfl | hs
        · exact absurd rfl hne
        · exact ih fs (x0 + 1) (a0 + f0) (by simpa using hlen) hs

/-- what the decoder's search returns lies in the table, and the frequency value lies in the
interval found -/
theorem locateGo_spec (fr : Nat) (fs : List Nat) (x0 a0 x acc f : Nat)
    (h : locateGo fr fs x0 a0 = some (x, acc, f)) :
    x0 ≤ x ∧ x - x0 < fs.length ∧ fs[x - x0]? = some f ∧ (a0 ≤ fr → acc ≤ fr) ∧ fr < acc + f := by
  induction fs generalizing x0 a0 with
  | nil => simp [locateGo] at h
  | cons f0 fs ih =>
    simp only [locateGo] at h
    split at h
    · obtain ⟨h1, h2, h3, h4, h5⟩ := ih (x0 + 1) (a0 + f0) h
      have hx : x - x0 = (x - (x0 + 1)) + 1 := by omega
      refine ⟨by omega, by simp only [List.length_cons]; omega, ?_, fun _ => h4 (by omega), h5⟩
      rw [hx, List.getElem?_cons_succ]; exact h3
    · simp only [Option.some.injEq, Prod.mk.injEq] at h
      obtain ⟨rfl, rfl, rfl⟩ := h
      exact ⟨Nat.le_refl _, by simp, by simp, fun h => h, by omega⟩

end Noodles.Cram.Aac
