import Noodles.Cram.EncSpec
/-! Helper lemmas for the bit reader / writer (see `Props/C07Enc.lean`): the state machines refine
the bit strings `BitReader.rem` / `BitWriter.bits`. -/
namespace Noodles.Cram.Enc

theorem codeBits_length (v n : Nat) : (codeBits v n).length = n := by
  induction n with
  | zero => rfl
  | succ k ih => simp [codeBits, ih]

/-! ## generalities -/

theorem bit_toNat (x : Nat) : (x % 2 == 1).toNat = x % 2 := by
  rcases Nat.mod_two_eq_zero_or_one x with h | h <;> simp [h]

theorem bytesBits_nil : bytesBits [] = [] := rfl

theorem bytesBits_cons (b : Nat) (bs : List Nat) : bytesBits (b :: bs) = codeBits b 8 ++ bytesBits bs := by
  simp [bytesBits, byteBits]

theorem bytesBits_append (a b : List Nat) : bytesBits (a ++ b) = bytesBits a ++ bytesBits b := by
  simp [bytesBits]

theorem codeBits_zero (k : Nat) : codeBits 0 k = List.replicate k false := by
  induction k with
  | zero => rfl
  | succ k ih => simp [codeBits, ih, List.replicate_succ]

/-! ## the reader, without its invariant

`codeBits b 8` only looks at the eight low bits of `b`, and so does `read_bit`: the refinement holds
for every state. -/

theorem readBit_rem_nil (r : BitReader) (h : r.rem = []) : r.readBit = .error .eof := by
  unfold BitReader.rem at h
  unfold BitReader.readBit
  by_cases hi : r.i ≥ 8
  · rw [if_pos hi]
    cases hs : r.src with
    | nil => rfl
    | cons b rest =>
      rw [hs, bytesBits_cons] at h
      have := congrArg List.length h
      simp [codeBits_length] at this
  · have : 8 - r.i = (8 - r.i - 1) + 1 := by omega
    rw [this] at h
    simp [codeBits] at h

theorem readBit_rem_cons (r : BitReader) (b : Bool) (t : List Bool) (h : r.rem = b :: t) :
    ∃ r', r.readBit = .ok (b.toNat, r') ∧ r'.rem = t := by
  unfold BitReader.rem at h
  unfold BitReader.readBit
  by_cases hi : r.i ≥ 8
  · rw [if_pos hi]
    have h0 : 8 - r.i = 0 := by omega
    rw [h0] at h
    cases hs : r.src with
    | nil => rw [hs] at h; simp [codeBits, bytesBits_nil] at h
    | cons x rest =>
      have e : codeBits x 8 = (x / 2 ^ 7 % 2 == 1) :: codeBits x 7 := rfl
      have e0 : codeBits r.buf 0 = [] := rfl
      rw [hs, bytesBits_cons, e, e0] at h
      simp only [List.nil_append, List.cons_append, List.cons.injEq] at h
      refine ⟨⟨rest, x, 1⟩, ?_, ?_⟩
      · rw [← h.1, bit_toNat]
      · exact h.2
  · rw [if_neg hi]
    have h1 : 8 - r.i = (8 - r.i - 1) + 1 := by omega
    rw [h1] at h
    simp only [codeBits, List.cons_append, List.cons.injEq] at h
    refine ⟨{ r with i := r.i + 1 }, ?_, ?_⟩
    · rw [← h.1, bit_toNat]
    · have : 8 - (r.i + 1) = 8 - r.i - 1 := by omega
      simpa [BitReader.rem, this] using h.2

theorem readBit_OK (r : BitReader) (h : r.OK) (b : Nat) (r' : BitReader) (hr : r.readBit = .ok (b, r')) :
    r'.OK := by
  obtain ⟨h1, h2, h3⟩ := h
  unfold BitReader.readBit at hr
  by_cases hi : r.i ≥ 8
  · rw [if_pos hi] at hr
    cases hs : r.src with
    | nil => rw [hs] at hr; simp at hr
    | cons x rest =>
      rw [hs] at hr
      simp only [Except.ok.injEq, Prod.mk.injEq] at hr
      rw [← hr.2]
      rw [hs] at h3
      exact ⟨h3 x (by simp), by simp, fun y hy => h3 y (by simp [hy])⟩
  · rw [if_neg hi] at hr
    simp only [Except.ok.injEq, Prod.mk.injEq] at hr
    rw [← hr.2]
    exact ⟨h1, by simp; omega, h3⟩

/-- the loop of `read_u32`, with its accumulator -/
theorem readBits_rem (k : Nat) : ∀ (n : Nat) (r : BitReader) (v : Nat) (t : List Bool),
    r.rem = codeBits v k ++ t →
    ∃ r', BitReader.readBits k n r = .ok (n * 2 ^ k + v % 2 ^ k, r') ∧ r'.rem = t := by
  induction k with
  | zero =>
    intro n r v t h
    exact ⟨r, by simp [BitReader.readBits, Nat.mod_one], by simpa [codeBits] using h⟩
  | succ k ih =>
    intro n r v t h
    simp only [codeBits, List.cons_append] at h
    obtain ⟨r1, h1, h2⟩ := readBit_rem_cons r _ _ h
    obtain ⟨r2, h3, h4⟩ := ih (2 * n + (v / 2 ^ k % 2 == 1).toNat) r1 v t h2
    refine ⟨r2, ?_, h4⟩
    simp only [BitReader.readBits, h1, h3]
    congr 2
    rw [bit_toNat, Nat.mod_pow_succ, Nat.pow_succ, Nat.add_mul, Nat.mul_comm (2 ^ k) (v / 2 ^ k % 2)]
    rw [Nat.mul_comm 2 n, Nat.mul_assoc, Nat.mul_comm 2 (2 ^ k)]
    omega

theorem readBits_OK (k : Nat) : ∀ (n : Nat) (r : BitReader), r.OK → ∀ (x : Nat) (r' : BitReader),
    BitReader.readBits k n r = .ok (x, r') → r'.OK := by
  induction k with
  | zero =>
    intro n r h x r' hr
    simp only [BitReader.readBits, Except.ok.injEq, Prod.mk.injEq] at hr
    rw [← hr.2]; exact h
  | succ k ih =>
    intro n r h x r' hr
    simp only [BitReader.readBits] at hr
    cases hb : r.readBit with
    | error e => rw [hb] at hr; simp at hr
    | ok p =>
      obtain ⟨b, r1⟩ := p
      rw [hb] at hr
      exact ih _ r1 (readBit_OK r h b r1 hb) x r' hr

/-- `read_u32(len)` on any reader state -/
theorem readU32_rem' (r : BitReader) (len v : Nat) (hl : len ≤ 31) (t : List Bool)
    (hr : r.rem = codeBits v len ++ t) :
    ∃ r', r.readU32 len = .ok (v % 2 ^ len, r') ∧ r'.rem = t := by
  obtain ⟨r', h1, h2⟩ := readBits_rem len 0 r v t hr
  refine ⟨r', ?_, h2⟩
  unfold BitReader.readU32
  rw [if_neg (by omega), h1]
  simp

theorem readU32_OK (r : BitReader) (h : r.OK) (len x : Nat) (r' : BitReader)
    (hr : r.readU32 len = .ok (x, r')) : r'.OK := by
  unfold BitReader.readU32 at hr
  by_cases hl : len > 31
  · rw [if_pos hl] at hr; simp at hr
  · rw [if_neg hl] at hr; exact readBits_OK len 0 r h x r' hr

theorem new_rem' (src : List Nat) : (BitReader.new src).rem = bytesBits src := by
  simp [BitReader.new, BitReader.rem, codeBits]

/-- a run of reads on any reader state -/
theorem readAll_rem (ops : List (Nat × Nat)) : ∀ (r : BitReader) (t : List Bool),
    (∀ op ∈ ops, op.2 ≤ 31) →
    r.rem = ops.flatMap (fun op => codeBits op.1 op.2) ++ t →
    ∃ r', readAll r (ops.map (·.2)) = .ok (ops.map (fun op => op.1 % 2 ^ op.2), r') ∧ r'.rem = t := by
  induction ops with
  | nil => intro r t _ h; exact ⟨r, rfl, by simpa using h⟩
  | cons op ops ih =>
    intro r t hl h
    simp only [List.flatMap_cons, List.append_assoc] at h
    obtain ⟨r1, h1, h2⟩ := readU32_rem' r op.2 op.1 (hl op (by simp)) _ h
    obtain ⟨r2, h3, h4⟩ := ih r1 t (fun o ho => hl o (by simp [ho])) h2
    exact ⟨r2, by simp only [List.map_cons, readAll, h1, h3], h4⟩

/-! ## the reader: interface lemmas -/

/-- a fresh reader has the whole source ahead of it -/
theorem new_rem (src : List Nat) (h : ∀ b ∈ src, b < 256) :
    (BitReader.new src).rem = bytesBits src ∧ (BitReader.new src).OK := by
  refine ⟨new_rem' src, ?_, ?_, h⟩ <;> simp [BitReader.new]

/-- `read_bit` takes the first unread bit -/
theorem readBit_rem (r : BitReader) (h : r.OK) :
    match r.rem with
    | [] => r.readBit = .error .eof
    | b :: t => ∃ r', r.readBit = .ok (b.toNat, r') ∧ r'.rem = t ∧ r'.OK := by
  split
  · next hn => exact readBit_rem_nil r hn
  · next b t hc =>
    obtain ⟨r', h1, h2⟩ := readBit_rem_cons r b t hc
    exact ⟨r', h1, h2, readBit_OK r h _ r' h1⟩

/-- `read_u32(len)` takes the first `len` unread bits, most significant first -/
theorem readU32_rem (r : BitReader) (h : r.OK) (len v : Nat) (hl : len ≤ 31) (t : List Bool)
    (hr : r.rem = codeBits v len ++ t) :
    ∃ r', r.readU32 len = .ok (v % 2 ^ len, r') ∧ r'.rem = t ∧ r'.OK := by
  obtain ⟨r', h1, h2⟩ := readU32_rem' r len v hl t hr
  exact ⟨r', h1, h2, readU32_OK r h len _ r' h1⟩

/-! ## the writer -/

theorem beq1_eq (a b : Nat) : ((a == 1) = (b == 1)) = (a = 1 ↔ b = 1) := by
  rw [Bool.eq_iff_iff]; simp

/-- `write_bit` appends one bit (the eight cursor positions are checked one by one) -/
theorem writeBit_bits (w : BitWriter) (hw : w.OK) (b : Bool) :
    (w.writeBit b).bits = w.bits ++ [b] ∧ (w.writeBit b).OK ∧ (w.writeBit b).i = (w.i + 1) % 8 := by
  obtain ⟨dst, buf, i⟩ := w
  obtain ⟨h1, h2, h3, h4⟩ := hw
  simp only at h1 h2 h3 h4
  have hi : i = 0 ∨ i = 1 ∨ i = 2 ∨ i = 3 ∨ i = 4 ∨ i = 5 ∨ i = 6 ∨ i = 7 := by omega
  rcases hi with rfl | rfl | rfl | rfl | rfl | rfl | rfl | rfl <;> cases b <;>
    simp [BitWriter.writeBit, BitWriter.bits, BitWriter.OK, bytesBits_append, bytesBits_cons,
      bytesBits_nil, byteBits, codeBits, beq1_eq] at h3 ⊢
  all_goals and_intros
  all_goals first
    | omega
    | assumption
    | (intro x hx; rcases hx with hx | rfl; exact h4 x hx; omega)

/-- the loop of `write_u32` -/
theorem writeBits_bits (v k : Nat) : ∀ (w : BitWriter), w.OK →
    (w.writeBits v k).bits = w.bits ++ codeBits v k ∧ (w.writeBits v k).OK ∧
      (w.writeBits v k).i = (w.i + k) % 8 := by
  induction k with
  | zero =>
    intro w hw
    refine ⟨by simp [BitWriter.writeBits, codeBits], hw, ?_⟩
    have := hw.2.1
    simp only [BitWriter.writeBits, Nat.add_zero]; omega
  | succ k ih =>
    intro w hw
    obtain ⟨h1, h2, h3⟩ := writeBit_bits w hw (v / 2 ^ k % 2 == 1)
    obtain ⟨h4, h5, h6⟩ := ih _ h2
    simp only [BitWriter.writeBits, codeBits]
    refine ⟨by rw [h4, h1]; simp, h5, ?_⟩
    rw [h6, h3]; omega

/-- `write_u32(v, len)` appends the `len` low bits of `v`, most significant first -/
theorem writeU32_bits (w : BitWriter) (hw : w.OK) (v len : Nat) (h : len ≤ 32) :
    ∃ w', w.writeU32 v len = .ok w' ∧ w'.bits = w.bits ++ codeBits v len ∧ w'.OK := by
  unfold BitWriter.writeU32
  by_cases h0 : len = 0
  · subst h0
    exact ⟨w, by simp, by simp [codeBits], hw⟩
  · rw [if_neg h0, if_neg (by omega)]
    obtain ⟨h1, h2, _⟩ := writeBits_bits v len w hw
    exact ⟨_, rfl, h1, h2⟩

theorem flush_bits (w : BitWriter) (hw : w.OK) :
    ∃ w' pad, w.flush = .ok w' ∧ pad < 8 ∧ w'.OK ∧ w'.i = 0 ∧
      w'.bits = w.bits ++ List.replicate pad false := by
  unfold BitWriter.flush
  by_cases hi : w.i > 0
  · have h8 := hw.2.1
    rw [if_pos hi]
    unfold BitWriter.writeU32
    rw [if_neg (by omega), if_neg (by omega)]
    obtain ⟨h1, h2, h3⟩ := writeBits_bits 0 (8 - w.i) w hw
    refine ⟨_, 8 - w.i, rfl, by omega, h2, ?_, ?_⟩
    · rw [h3]; have : w.i + (8 - w.i) = 8 := by omega
      rw [this]
    · rw [h1, codeBits_zero]
  · rw [if_neg hi]
    exact ⟨w, 0, rfl, by omega, hw, by omega, by simp⟩

/-- `finish` pads with fewer than 8 zero bits -/
theorem finish_bits (w : BitWriter) (hw : w.OK) :
    ∃ bytes pad, w.finish = .ok bytes ∧ pad < 8 ∧ (∀ b ∈ bytes, b < 256) ∧
      bytesBits bytes = w.bits ++ List.replicate pad false := by
  obtain ⟨w', pad, h1, h2, h3, h4, h5⟩ := flush_bits w hw
  refine ⟨w'.dst, pad, ?_, h2, h3.2.2.2, ?_⟩
  · simp [BitWriter.finish, h1, bind, Except.bind, pure, Except.pure]
  · rw [← h5]; simp [BitWriter.bits, h4]

/-! ## runs of writes -/

theorem empty_OK : ({} : BitWriter).OK := by
  simp [BitWriter.OK]

theorem empty_bits : ({} : BitWriter).bits = [] := by
  simp [BitWriter.bits, bytesBits_nil]

theorem writeAll_bits (ops : List (Nat × Nat)) : ∀ (w : BitWriter), w.OK → (∀ op ∈ ops, op.2 ≤ 32) →
    ∃ w', writeAll w ops = .ok w' ∧ w'.OK ∧
      w'.bits = w.bits ++ ops.flatMap (fun op => codeBits op.1 op.2) := by
  induction ops with
  | nil => intro w hw _; exact ⟨w, rfl, hw, by simp⟩
  | cons op ops ih =>
    intro w hw hl
    obtain ⟨w1, h1, h2, h3⟩ := writeU32_bits w hw op.1 op.2 (hl op (by simp))
    obtain ⟨w2, h4, h5, h6⟩ := ih w1 h3 (fun o ho => hl o (by simp [ho]))
    refine ⟨w2, ?_, h5, ?_⟩
    · obtain ⟨v, len⟩ := op
      simp only [writeAll, h1, h4]
    · rw [h6, h2]; simp

/-- a run of writes into an empty writer, then `finish` -/
theorem writeAll_finish (ops : List (Nat × Nat)) (h : ∀ op ∈ ops, op.2 ≤ 32) :
    ∃ w bytes pad, writeAll {} ops = .ok w ∧ w.finish = .ok bytes ∧ pad < 8 ∧ (∀ b ∈ bytes, b < 256) ∧
      bytesBits bytes = ops.flatMap (fun op => codeBits op.1 op.2) ++ List.replicate pad false := by
  obtain ⟨w, h1, h2, h3⟩ := writeAll_bits ops {} empty_OK h
  obtain ⟨bytes, pad, h4, h5, h6, h7⟩ := finish_bits w h2
  refine ⟨w, bytes, pad, h1, h4, h5, h6, ?_⟩
  rw [h7, h3, empty_bits]; simp

/-- what the writer wrote, the reader reads back (whatever follows the finished bytes) -/
theorem writeAll_readAll (ops : List (Nat × Nat)) (h : ∀ op ∈ ops, op.2 ≤ 31) (rest : List Nat) :
    ∃ w bytes, writeAll {} ops = .ok w ∧ w.finish = .ok bytes ∧
      ∃ r, readAll (BitReader.new (bytes ++ rest)) (ops.map (·.2)) =
        .ok (ops.map (fun op => op.1 % 2 ^ op.2), r) := by
  obtain ⟨w, bytes, pad, h1, h2, _, _, h5⟩ :=
    writeAll_finish ops (fun op ho => Nat.le_trans (h op ho) (by omega))
  refine ⟨w, bytes, h1, h2, ?_⟩
  obtain ⟨r, h6, _⟩ := readAll_rem ops (BitReader.new (bytes ++ rest))
    (List.replicate pad false ++ bytesBits rest) h
    (by rw [new_rem', bytesBits_append, h5, List.append_assoc])
  exact ⟨r, h6⟩

end Noodles.Cram.Enc
