import Noodles.Cram.EncSpec
import Noodles.Cram.NumProof
/-! helper lemmas for the record codec round trip (see Props/C07Enc.lean) -/
namespace Noodles.Cram.Enc
open Noodles.Cram (Feature)
open Noodles.Cram.Num (toU ofU writeItf8 readItf8)

/-! ## `Except` plumbing -/

theorem bind_eq_ok {ε α β : Type} {x : Except ε α} {f : α → Except ε β} {b : β} :
    (x >>= f) = .ok b ↔ ∃ a, x = .ok a ∧ f a = .ok b := by
  cases x with
  | error e => simp [bind, Except.bind]
  | ok a => simp [bind, Except.bind]

/-! ## ITF8 -/

theorem rc_readItf8'_write (n : Int) (h : isI32 n) (r : List Nat) : readItf8' (writeItf8 n ++ r) = .ok (n, r) := by
  unfold readItf8'
  rw [Noodles.Cram.Num.readItf8_write, Noodles.Cram.Num.ofU_toU32 n h.1 h.2]
  rfl

theorem writeItf8_ne_nil (n : Int) : writeItf8 n ≠ [] := by
  unfold writeItf8
  simp only []
  repeat' split
  all_goals simp

/-! ## the framework: what a writer appends (`Ext`), what a reader still has ahead (`Inv`) -/

abbrev Delta := Int → List Nat
def Delta.app (a b : Delta) : Delta := fun id => a id ++ b id
def Delta.zero : Delta := fun _ => []
def Delta.single (id : Int) (bs : List Nat) : Delta := fun j => if j = id then bs else []

theorem Delta.app_assoc (a b c : Delta) : (a.app b).app c = a.app (b.app c) := by
  funext id; simp [Delta.app]
theorem Delta.zero_app (a : Delta) : Delta.zero.app a = a := by
  funext id; simp [Delta.app, Delta.zero]
theorem Delta.app_zero (a : Delta) : a.app Delta.zero = a := by
  funext id; simp [Delta.app, Delta.zero]
theorem Delta.single_nil (id : Int) : Delta.single id [] = Delta.zero := by
  funext j; simp [Delta.single, Delta.zero]
theorem Delta.single_app_single (id : Int) (a b : List Nat) :
    (Delta.single id a).app (Delta.single id b) = Delta.single id (a ++ b) := by
  funext j; simp only [Delta.single, Delta.app]; split <;> simp

/-- `ws'` is `ws` with `d` appended -/
def Ext (ws : WS) (d : Delta) (ws' : WS) : Prop :=
  ∀ id, ws'.ext id = (ws.ext id).map (· ++ d id) ∧ (ws.ext id = none → d id = [])

/-- the reader still has exactly `t` ahead of it (an exhausted / absent stream may be `none` or `some []`) -/
def Inv (t : Delta) (rs : RS) : Prop :=
  ∀ id, (t id ≠ [] → rs.ext id = some (t id)) ∧ (t id = [] → rs.ext id = none ∨ rs.ext id = some [])

/-- `rd` consumes exactly `d` and returns `v` -/
def Reads {α : Type} (d : Delta) (rd : RS → Res (α × RS)) (v : α) : Prop :=
  ∀ t rs, Inv (d.app t) rs → ∃ rs', rd rs = .ok (v, rs') ∧ Inv t rs'

theorem Ext.refl (ws : WS) : Ext ws Delta.zero ws := by
  intro id; cases h : ws.ext id <;> simp [Delta.zero]

theorem Ext.trans {ws ws1 ws2 : WS} {d1 d2 : Delta} (h1 : Ext ws d1 ws1) (h2 : Ext ws1 d2 ws2) :
    Ext ws (d1.app d2) ws2 := by
  intro id
  obtain ⟨a1, b1⟩ := h1 id
  obtain ⟨a2, b2⟩ := h2 id
  cases h : ws.ext id with
  | none =>
    rw [h] at a1 b1
    simp at a1
    simp [a2, a1, Delta.app, b1, b2 a1]
  | some l =>
    rw [h] at a1
    simp at a1
    simp [a2, a1, Delta.app]

theorem push_ext {s s' : WS} {id : Int} {bs : List Nat} {e : Err} (h : s.push id bs e = .ok s') :
    Ext s (Delta.single id bs) s' := by
  unfold WS.push at h
  split at h
  · cases h
  · rename_i l hl
    cases h
    intro j
    by_cases hj : j = id
    · subst hj; simp [Delta.single, hl]
    · cases hj' : s.ext j <;> simp [Delta.single, hj, hj']

theorem inv_single_get {id : Int} {bs : List Nat} {t : Delta} {rs : RS} (hne : bs ≠ [])
    (h : Inv ((Delta.single id bs).app t) rs) : rs.ext id = some (bs ++ t id) := by
  have := (h id).1
  simp only [Delta.app, Delta.single, if_true] at this
  exact this (by simp [hne])

theorem inv_single_set {id : Int} {bs : List Nat} {t : Delta} {rs : RS}
    (h : Inv ((Delta.single id bs).app t) rs) : Inv t (rs.set id (t id)) := by
  intro j
  by_cases hj : j = id
  · subst hj
    simp [RS.set]
  · have := h j
    simp only [Delta.app, Delta.single, if_neg hj, List.nil_append] at this
    simpa [RS.set, hj] using this

theorem Reads.zero {α : Type} {rd : RS → Res (α × RS)} {v : α} (h : ∀ rs, rd rs = .ok (v, rs)) :
    Reads Delta.zero rd v := by
  intro t rs hinv
  rw [Delta.zero_app] at hinv
  exact ⟨rs, h rs, hinv⟩

/-! ## primitives -/

theorem putInt_rt {e : Option IntEnc} {s s' : WS} {v : Int} (hv : isI32 v) (h : putInt e s v = .ok s') :
    ∃ d, Ext s d s' ∧ Reads d (getInt e) v := by
  unfold putInt at h
  cases e with
  | none => simp [need, bind, Except.bind] at h
  | some e =>
    cases e with
    | external id =>
      simp only [need, bind, Except.bind, IntEnc.encode] at h
      refine ⟨_, push_ext h, ?_⟩
      intro t rs hinv
      have hg := inv_single_get (writeItf8_ne_nil v) hinv
      refine ⟨rs.set id (t id), ?_, inv_single_set hinv⟩
      simp [getInt, need, bind, Except.bind, IntEnc.decode, RS.get, hg, rc_readItf8'_write v hv]
    | _ => simp [need, bind, Except.bind, IntEnc.encode] at h

theorem putByte_rt {e : Option ByteEnc} {s s' : WS} {v : Nat} (h : putByte e s v = .ok s') :
    ∃ d, Ext s d s' ∧ Reads d (getByte e) v := by
  unfold putByte at h
  cases e with
  | none => simp [need, bind, Except.bind] at h
  | some e =>
    cases e with
    | external id =>
      simp only [need, bind, Except.bind, ByteEnc.encode] at h
      refine ⟨_, push_ext h, ?_⟩
      intro t rs hinv
      have hg := inv_single_get (by simp) hinv
      refine ⟨rs.set id (t id), ?_, inv_single_set hinv⟩
      simp [getByte, need, bind, Except.bind, ByteEnc.decode, RS.get, hg]
    | _ => simp [need, bind, Except.bind, ByteEnc.encode] at h

theorem decodeTake_nil (e : ByteEnc) : Reads Delta.zero (fun s => e.decodeTake s 0) [] :=
  Reads.zero fun rs => by simp [ByteEnc.decodeTake]

theorem decodeTake_reads (b : Int) (v : List Nat) :
    Reads (Delta.single b v) (fun s => (ByteEnc.external b).decodeTake s v.length) v := by
  by_cases hne : v = []
  · subst hne; rw [Delta.single_nil]; exact decodeTake_nil _
  · intro t rs hinv
    have hg := inv_single_get hne hinv
    refine ⟨rs.set b (t b), ?_, inv_single_set hinv⟩
    have : v.length ≠ 0 := by simpa using hne
    simp [ByteEnc.decodeTake, this, RS.get, hg]

theorem putExtend_rt {e : Option ByteEnc} {s s' : WS} {v : List Nat} (h : putExtend e s v = .ok s') :
    ∃ d, Ext s d s' ∧ Reads d (fun s => getTake e s v.length) v := by
  unfold putExtend at h
  cases e with
  | none => simp [need, bind, Except.bind] at h
  | some e =>
    cases e with
    | external id =>
      simp only [need, bind, Except.bind, ByteEnc.encodeExtend] at h
      refine ⟨_, push_ext h, ?_⟩
      simpa [getTake, need, bind, Except.bind] using decodeTake_reads id v
    | _ => simp [need, bind, Except.bind, ByteEnc.encodeExtend] at h

theorem rc_splitStop_append (sb : Nat) (v rest : List Nat) (h : sb ∉ v) :
    splitStop sb (v ++ [sb] ++ rest) = some (v, rest) := by
  induction v with
  | nil => simp [splitStop]
  | cons x xs ih =>
    have hx : x ≠ sb := fun e => h (by simp [e])
    have hxs : sb ∉ xs := fun e => h (by simp [e])
    simp only [List.cons_append, splitStop, if_neg hx]
    rw [ih hxs]

theorem encodeEach_ext {e : ByteEnc} : ∀ {v : List Nat} {s s' : WS}, e.encodeEach s v = .ok s' →
    (v = [] ∧ s' = s) ∨ ∃ b, e = .external b ∧ Ext s (Delta.single b v) s' := by
  intro v
  induction v with
  | nil => intro s s' h; simp [ByteEnc.encodeEach] at h; exact .inl ⟨rfl, h.symm⟩
  | cons x xs ih =>
    intro s s' h
    simp only [ByteEnc.encodeEach] at h
    split at h
    · cases h
    · rename_i s1 h1
      cases e with
      | external b =>
        simp only [ByteEnc.encode] at h1
        have e1 := push_ext h1
        refine .inr ⟨b, rfl, ?_⟩
        rcases ih h with ⟨rfl, rfl⟩ | ⟨b', hb', e2⟩
        · exact e1
        · cases hb'
          have := e1.trans e2
          rwa [Delta.single_app_single] at this
      | huffman a l => simp [ByteEnc.encode] at h1

theorem putBytes_rt {e : Option ByteArrayEnc} {s s' : WS} {v : List Nat} (hc : ByteArrayEnc.Carries e v)
    (h : putBytes e s v = .ok s') : ∃ d, Ext s d s' ∧ Reads d (getBytes e) v := by
  unfold putBytes at h
  cases e with
  | none => simp [need, bind, Except.bind] at h
  | some e =>
    cases e with
    | stop sb id =>
      simp only [need, bind, Except.bind, ByteArrayEnc.encode] at h
      refine ⟨_, push_ext h, ?_⟩
      intro t rs hinv
      have hg := inv_single_get (by simp) hinv
      refine ⟨rs.set id (t id), ?_, inv_single_set hinv⟩
      simp only [ByteArrayEnc.Carries] at hc
      simp only [getBytes, need, bind, Except.bind, ByteArrayEnc.decode, RS.get, hg, rc_splitStop_append sb v (t id) hc]
    | len l ve =>
      simp only [need, bind, Except.bind, ByteArrayEnc.encode] at h
      split at h
      · rename_i hlen
        split at h
        · cases h
        · rename_i s1 h1
          have hi : isI32 (v.length : Int) := by
            constructor
            · omega
            · exact_mod_cast hlen
          obtain ⟨d1, e1, r1⟩ := putInt_rt (e := some l) hi (by simpa [putInt, need, bind, Except.bind] using h1)
          have key : ∃ d2, Ext s1 d2 s' ∧ Reads d2 (fun s => ve.decodeTake s v.length) v := by
            rcases encodeEach_ext h with ⟨rfl, rfl⟩ | ⟨b, rfl, e2⟩
            · exact ⟨_, Ext.refl _, decodeTake_nil _⟩
            · exact ⟨_, e2, decodeTake_reads b v⟩
          obtain ⟨d2, e2, r2⟩ := key
          refine ⟨_, e1.trans e2, ?_⟩
          intro t rs hinv
          rw [Delta.app_assoc] at hinv
          obtain ⟨rs1, g1, hinv1⟩ := r1 _ _ hinv
          obtain ⟨rs2, g2, hinv2⟩ := r2 _ _ hinv1
          refine ⟨rs2, ?_, hinv2⟩
          simp only [getInt, need, bind, Except.bind] at g1
          have : ¬ ((v.length : Int) < 0) := by omega
          simp [getBytes, need, bind, Except.bind, ByteArrayEnc.decode, g1, this, g2]
      · cases h

/-! ## conversions -/

theorem toI32_ok {n : Nat} {e : Err} {v : Int} (h : toI32 n e = .ok v) : v = (n : Int) ∧ n < 2 ^ 31 := by
  unfold toI32 at h
  split at h
  · cases h; exact ⟨rfl, ‹_›⟩
  · cases h

theorem rc_isI32_ofNat {n : Nat} (h : n < 2 ^ 31) : isI32 (n : Int) := by
  constructor
  · omega
  · exact_mod_cast h

theorem toNatBelow_ofNat {n bound : Nat} (h : n < bound) : toNatBelow (n : Int) bound = .ok n := by
  unfold toNatBelow
  have : (0 : Int) ≤ n ∧ (n : Int) < bound := ⟨by omega, by exact_mod_cast h⟩
  simp [this]

/-- sentinel `-1` -/
theorem optToI32_neg {o : Option Nat} {v : Int} (h : optToI32 o (-1) = .ok v) : isI32 v ∧ optOfI32 v = .ok o := by
  cases o with
  | none =>
    simp only [optToI32] at h
    cases h
    exact ⟨⟨by decide, by decide⟩, by simp [optOfI32]⟩
  | some n =>
    simp only [optToI32] at h
    obtain ⟨rfl, hn⟩ := toI32_ok h
    refine ⟨rc_isI32_ofNat hn, ?_⟩
    have h1 : ¬ ((n : Int) = -1) := by omega
    have h2 : ¬ ((n : Int) < 0) := by omega
    simp [optOfI32, h1, h2]

/-- sentinel `0` (positions) -/
theorem optToI32_zero {o : Option Nat} {v : Int} (h : optToI32 o 0 = .ok v) :
    v = ((o.getD 0 : Nat) : Int) ∧ o.getD 0 < 2 ^ 31 := by
  cases o with
  | none =>
    simp only [optToI32] at h
    cases h
    exact ⟨rfl, by decide⟩
  | some n =>
    simp only [optToI32] at h
    obtain ⟨rfl, hn⟩ := toI32_ok h
    exact ⟨rfl, hn⟩

theorem posOf_getD {o : Option Nat} (h : ∀ p, o = some p → 1 ≤ p) : posOf (o.getD 0) = o := by
  cases o with
  | none => simp [posOf]
  | some p =>
    have := h p rfl
    have : p ≠ 0 := by omega
    simp [posOf, this]

/-! ## names -/

theorem writeName_rt {ch : CH} {s s' : WS} {name : Option (List Nat)} (hn : name ≠ some [42])
    (hc : ByteArrayEnc.Carries ch.dse.rn (name.getD [42])) (h : writeName ch s name = .ok s') :
    ∃ d, Ext s d s' ∧ Reads d (readName ch) name := by
  obtain ⟨d, e, r⟩ := putBytes_rt hc h
  refine ⟨d, e, ?_⟩
  intro t rs hinv
  obtain ⟨rs1, g1, hinv1⟩ := r _ _ hinv
  refine ⟨rs1, ?_, hinv1⟩
  simp only [readName, bind, Except.bind, g1, pure, Except.pure]
  cases name with
  | none => simp
  | some n =>
    have : n ≠ [42] := fun e => hn (by rw [e])
    simp [this]

theorem writePositions_eq (ch : CH) (ctx : RefCtx) (prev : Option Nat) (s : WS) (r : CRec) :
    writePositions ch ctx prev s r =
    ((if ctx = .many then (optToI32 r.refId (-1) >>= fun n => putInt ch.dse.ri s n) else pure s) >>= fun s =>
     toI32 r.readLength .invalidData >>= fun n => putInt ch.dse.rl s n >>= fun s =>
     (if ch.apDelta then (optToI32 r.alignmentStart 0 >>= fun a => optToI32 prev 0 >>= fun b => pure (a - b))
      else optToI32 r.alignmentStart 0) >>= fun v =>
     putInt ch.dse.ap s v >>= fun s => optToI32 r.readGroupId (-1) >>= fun g => putInt ch.dse.rg s g) := by
  unfold writePositions
  by_cases hc : ctx = .many <;> cases hd : ch.apDelta <;> simp [hc]

/-- NOT `rfl`-lemmas on purpose: as definitional (`dsimp`) steps they make the kernel compare
`ok a >>= f` with `x >>= g` argument-wise and evaluate `x` (a `toNatBelow _ (2^31)` → deep recursion) -/
theorem ok_bind {ε α β : Type} (a : α) (f : α → Except ε β) : (Except.ok a >>= f) = f a := by
  cases h : f a <;> simp [bind, Except.bind, h]
theorem pure_bind' {ε α β : Type} (a : α) (f : α → Except ε β) : ((pure a : Except ε α) >>= f) = f a := by
  cases h : f a <;> simp [bind, Except.bind, pure, Except.pure, h]
theorem error_bind {ε α β : Type} (e : ε) (f : α → Except ε β) : (Except.error e >>= f) = .error e := by
  simp [bind, Except.bind]

theorem apValue_rt {ch : CH} {prev start : Option Nat} {v : Int} (hstart : ∀ p, start = some p → 1 ≤ p)
    (hv : (if ch.apDelta = true then (optToI32 start 0 >>= fun a => optToI32 prev 0 >>= fun b => pure (a - b))
      else optToI32 start 0) = Except.ok v) :
    isI32 v ∧ ∀ rs rs', getInt ch.dse.ap rs = .ok (v, rs') → readAlignmentStart ch prev rs = .ok (start, rs') := by
  cases hd : ch.apDelta with
  | true =>
    rw [hd, if_pos rfl] at hv
    simp only [bind_eq_ok] at hv
    obtain ⟨a, ha, b, hb, hv⟩ := hv
    cases hv
    obtain ⟨rfl, ha'⟩ := optToI32_zero ha
    obtain ⟨rfl, hb'⟩ := optToI32_zero hb
    refine ⟨⟨by omega, by omega⟩, ?_⟩
    intro rs rs' hg
    have e1 : toI32 (prev.getD 0) Err.invalidData = .ok ((prev.getD 0 : Nat) : Int) := by simp [toI32, hb']
    have e2 : ((prev.getD 0 : Nat) : Int) + (((start.getD 0 : Nat) : Int) - ((prev.getD 0 : Nat) : Int))
        = ((start.getD 0 : Nat) : Int) := by omega
    have e3 : ((start.getD 0 : Nat) : Int) < 2 ^ 31 ∧ -2 ^ 31 ≤ ((start.getD 0 : Nat) : Int) := ⟨by omega, by omega⟩
    unfold readAlignmentStart
    rw [hg, ok_bind]
    dsimp only
    rw [hd, if_pos rfl, e1, ok_bind, e2, if_pos e3, pure_bind', toNatBelow_ofNat ha', ok_bind, posOf_getD hstart]
    rfl
  | false =>
    rw [hd, if_neg (by decide)] at hv
    obtain ⟨rfl, ha'⟩ := optToI32_zero hv
    refine ⟨rc_isI32_ofNat ha', ?_⟩
    intro rs rs' hg
    unfold readAlignmentStart
    rw [hg, ok_bind]
    dsimp only
    rw [hd, if_neg (by decide), pure_bind', toNatBelow_ofNat ha', ok_bind, posOf_getD hstart]
    rfl

theorem writePositions_rt {ch : CH} {ctx : RefCtx} {prev : Option Nat} {s s' : WS} {r : CRec} (hwf : WF ch ctx r)
    (h : writePositions ch ctx prev s r = .ok s') (r0 : CRec) :
    ∃ d, Ext s d s' ∧ Reads d (fun rs => readPositions ch ctx prev rs r0)
      { r0 with refId := (stored ch ctx r).refId, readLength := r.readLength,
                alignmentStart := r.alignmentStart, readGroupId := r.readGroupId } := by
  rw [writePositions_eq] at h
  simp only [bind_eq_ok] at h
  obtain ⟨s1, h1, n, hn, s2, h2, v, hv, s3, h3, g, hg, h4⟩ := h
  have st1 : ∃ d1, Ext s d1 s1 ∧ ∀ t rs, Inv (d1.app t) rs → ∃ rs1, Inv t rs1 ∧
      (ctx = .many → ∃ m, getInt ch.dse.ri rs = .ok (m, rs1) ∧ optOfI32 m = .ok r.refId) ∧
      (ctx ≠ .many → rs1 = rs) := by
    by_cases hc : ctx = .many
    · simp only [hc, if_true, bind_eq_ok] at h1
      obtain ⟨m, hm, h1⟩ := h1
      obtain ⟨hi, ho⟩ := optToI32_neg hm
      obtain ⟨d1, e1, r1⟩ := putInt_rt hi h1
      refine ⟨d1, e1, fun t rs hinv => ?_⟩
      obtain ⟨rs1, g1, hinv1⟩ := r1 t rs hinv
      exact ⟨rs1, hinv1, fun _ => ⟨m, g1, ho⟩, fun h => absurd hc h⟩
    · simp only [hc, if_false, pure, Except.pure] at h1
      cases h1
      refine ⟨_, Ext.refl _, fun t rs hinv => ?_⟩
      rw [Delta.zero_app] at hinv
      exact ⟨rs, hinv, fun h => absurd h hc, fun _ => rfl⟩
  obtain ⟨d1, e1, r1⟩ := st1
  obtain ⟨rfl, hn'⟩ := toI32_ok hn
  obtain ⟨d2, e2, r2⟩ := putInt_rt (rc_isI32_ofNat hn') h2
  obtain ⟨hvi, hap⟩ := apValue_rt hwf.start hv
  obtain ⟨d3, e3, r3⟩ := putInt_rt hvi h3
  obtain ⟨hgi, hgo⟩ := optToI32_neg hg
  obtain ⟨d4, e4, r4⟩ := putInt_rt hgi h4
  refine ⟨_, e1.trans (e2.trans (e3.trans e4)), fun t rs hinv => ?_⟩
  simp only [Delta.app_assoc] at hinv
  obtain ⟨rs1, hinv1, a1, b1⟩ := r1 _ _ hinv
  obtain ⟨rs2, g2, hinv2⟩ := r2 _ _ hinv1
  obtain ⟨rs3, g3, hinv3⟩ := r3 _ _ hinv2
  obtain ⟨rs4, g4, hinv4⟩ := r4 _ _ hinv3
  refine ⟨rs4, ?_, hinv4⟩
  have g3' := hap _ _ g3
  cases ctx with
  | some id st en =>
    have := b1 (by simp)
    subst this
    simp only [readPositions, pure_bind', g2, ok_bind, toNatBelow_ofNat hn', g3', g4, hgo]
    rfl
  | none =>
    have := b1 (by simp)
    subst this
    simp only [readPositions, pure_bind', g2, ok_bind, toNatBelow_ofNat hn', g3', g4, hgo]
    rfl
  | many =>
    obtain ⟨m, gm, ho⟩ := a1 rfl
    simp only [readPositions, pure_bind', g2, ok_bind, toNatBelow_ofNat hn', g3', g4, hgo, gm, ho]
    rfl

/-! ## the reader's record after each stage -/

def rec0 (r : CRec) : CRec := { bamFlags := r.bamFlags, cramFlags := r.cramFlags }
def rec1 (ch : CH) (ctx : RefCtx) (r : CRec) : CRec :=
  { rec0 r with refId := (stored ch ctx r).refId, readLength := r.readLength,
                alignmentStart := r.alignmentStart, readGroupId := r.readGroupId }
def rec2 (ch : CH) (ctx : RefCtx) (r : CRec) : CRec :=
  { rec1 ch ctx r with name := if ch.recordsHaveNames then r.name else none }
def rec3 (ch : CH) (ctx : RefCtx) (r : CRec) : CRec :=
  { rec2 ch ctx r with bamFlags := (stored ch ctx r).bamFlags, mateFlags := (stored ch ctx r).mateFlags,
                       name := (stored ch ctx r).name, mateRefId := (stored ch ctx r).mateRefId,
                       mateStart := (stored ch ctx r).mateStart, templateLength := (stored ch ctx r).templateLength,
                       mateDistance := (stored ch ctx r).mateDistance }
def rec4 (ch : CH) (ctx : RefCtx) (r : CRec) : CRec := { rec3 ch ctx r with data := r.data }

theorem rec4_stored (ch : CH) (ctx : RefCtx) (r : CRec) :
    { rec4 ch ctx r with features := (stored ch ctx r).features, mappingQuality := (stored ch ctx r).mappingQuality,
                         sequence := (stored ch ctx r).sequence,
                         qualityScores := (stored ch ctx r).qualityScores } = stored ch ctx r := rfl

/-! ## mate -/

theorem writeMate_eq (ch : CH) (s : WS) (r : CRec) :
    writeMate ch s r =
    if r.detached then
      putInt ch.dse.mf s r.mateFlags >>= fun s =>
      (if ch.recordsHaveNames then pure s else writeName ch s r.name) >>= fun s =>
      optToI32 r.mateRefId (-1) >>= fun n => putInt ch.dse.ns s n >>= fun s =>
      optToI32 r.mateStart 0 >>= fun p => putInt ch.dse.np s p >>= fun s =>
      putInt ch.dse.ts s r.templateLength
    else match r.mateDistance with
      | some d => toI32 d .invalidInput >>= fun n => putInt ch.dse.nf s n
      | none => pure s := by
  unfold writeMate
  cases r.detached <;> cases ch.recordsHaveNames <;> simp <;> cases r.mateDistance <;> rfl

theorem writeMate_rt {ch : CH} {ctx : RefCtx} {s s' : WS} {r : CRec} (hwf : WF ch ctx r)
    (h : writeMate ch s r = .ok s') :
    ∃ d, Ext s d s' ∧ Reads d (fun rs => readMate ch rs (rec2 ch ctx r)) (rec3 ch ctx r) := by
  rw [writeMate_eq] at h
  cases hdet : r.detached with
  | true =>
    rw [hdet, if_pos rfl] at h
    simp only [bind_eq_ok] at h
    obtain ⟨s1, h1, s2, h2, n, hn, s3, h3, p, hp, s4, h4, h5⟩ := h
    obtain ⟨d1, e1, r1⟩ := putInt_rt (rc_isI32_ofNat (Nat.lt_trans hwf.mateFlags (by decide))) h1
    have st2 : ∃ d2, Ext s1 d2 s2 ∧ ∀ t rs, Inv (d2.app t) rs → ∃ rs2, Inv t rs2 ∧
        (ch.recordsHaveNames = true → rs2 = rs) ∧
        (ch.recordsHaveNames = false → readName ch rs = .ok (r.name, rs2)) := by
      cases hn : ch.recordsHaveNames with
      | true =>
        rw [hn, if_pos rfl] at h2
        cases h2
        refine ⟨_, Ext.refl _, fun t rs hinv => ?_⟩
        rw [Delta.zero_app] at hinv
        exact ⟨rs, hinv, fun _ => rfl, fun h => by cases h⟩
      | false =>
        rw [hn, if_neg (by decide)] at h2
        obtain ⟨d2, e2, r2⟩ := writeName_rt hwf.name hwf.nameFits h2
        refine ⟨d2, e2, fun t rs hinv => ?_⟩
        obtain ⟨rs2, g2, hinv2⟩ := r2 t rs hinv
        exact ⟨rs2, hinv2, by simp, fun _ => g2⟩
    obtain ⟨d2, e2, r2⟩ := st2
    obtain ⟨hni, hno⟩ := optToI32_neg hn
    obtain ⟨d3, e3, r3⟩ := putInt_rt hni h3
    obtain ⟨rfl, hp'⟩ := optToI32_zero hp
    obtain ⟨d4, e4, r4⟩ := putInt_rt (rc_isI32_ofNat hp') h4
    obtain ⟨d5, e5, r5⟩ := putInt_rt hwf.tlen h5
    refine ⟨_, e1.trans (e2.trans (e3.trans (e4.trans e5))), fun t rs hinv => ?_⟩
    simp only [Delta.app_assoc] at hinv
    obtain ⟨rs1, g1, hinv1⟩ := r1 _ _ hinv
    obtain ⟨rs2, hinv2, a2, b2⟩ := r2 _ _ hinv1
    obtain ⟨rs3, g3, hinv3⟩ := r3 _ _ hinv2
    obtain ⟨rs4, g4, hinv4⟩ := r4 _ _ hinv3
    obtain ⟨rs5, g5, hinv5⟩ := r5 _ _ hinv4
    refine ⟨rs5, ?_, hinv5⟩
    have hd2 : (rec2 ch ctx r).detached = true := hdet
    show readMate ch rs (rec2 ch ctx r) = _
    unfold readMate
    rw [hd2, if_pos rfl]
    cases hn : ch.recordsHaveNames with
    | true =>
      have := a2 hn
      subst this
      simp only [g1, ok_bind, toNatBelow_ofNat hwf.mateFlags, if_true, g3, hno, g4,
        toNatBelow_ofNat hp', posOf_getD hwf.mstart, g5, pure, Except.pure]
      simp [rec3, rec2, rec1, rec0, stored, hdet, hn]
    | false =>
      have := b2 hn
      simp only [g1, ok_bind, toNatBelow_ofNat hwf.mateFlags, if_false, Bool.false_eq_true, this, g3, hno, g4,
        toNatBelow_ofNat hp', posOf_getD hwf.mstart, g5, pure, Except.pure]
      simp [rec3, rec2, rec1, rec0, stored, hdet, hn]
  | false =>
    have hd2 : (rec2 ch ctx r).detached = false := hdet
    have hlink := hwf.link hdet
    rw [hdet, if_neg (by decide)] at h
    cases hmd : r.mateDistance with
    | none =>
      rw [hmd] at h hlink
      cases h
      refine ⟨_, Ext.refl _, Reads.zero fun rs => ?_⟩
      have hd3 : (rec2 ch ctx r).downstream = false := hlink
      show readMate ch rs (rec2 ch ctx r) = _
      unfold readMate
      rw [hd2, if_neg (by decide), hd3, if_neg (by decide)]
      simp [rec3, rec2, rec1, rec0, stored, hdet, hlink, pure, Except.pure]
    | some dist =>
      rw [hmd] at h hlink
      simp only [bind_eq_ok] at h
      obtain ⟨n, hn, h1⟩ := h
      obtain ⟨rfl, hn'⟩ := toI32_ok hn
      obtain ⟨d1, e1, r1⟩ := putInt_rt (rc_isI32_ofNat hn') h1
      refine ⟨d1, e1, fun t rs hinv => ?_⟩
      obtain ⟨rs1, g1, hinv1⟩ := r1 _ _ hinv
      refine ⟨rs1, ?_, hinv1⟩
      have hd3 : (rec2 ch ctx r).downstream = true := hlink
      show readMate ch rs (rec2 ch ctx r) = _
      unfold readMate
      rw [hd2, if_neg (by decide), hd3, if_pos rfl]
      simp only [g1, ok_bind, toNatBelow_ofNat hn', pure, Except.pure]
      simp [rec3, rec2, rec1, rec0, stored, hdet, hlink, hmd]

/-! ## tag data -/

theorem findTagSet_some {sets : List (List Key)} {set : List Key} {i : Nat} (h : findTagSet sets set = some i) :
    sets[i]? = some set := by
  unfold findTagSet at h
  simp only [] at h
  split at h
  · rename_i hlt
    cases h
    rw [List.getElem?_eq_getElem hlt]
    have := List.findIdx_getElem (p := (· == set)) (w := hlt)
    simp only [beq_iff_eq] at this
    rw [this]
  · cases h

theorem putBytes_some (e : ByteArrayEnc) (s : WS) (v : List Nat) : putBytes (some e) s v = e.encode s v := by
  simp only [putBytes, need, ok_bind]
theorem getBytes_some (e : ByteArrayEnc) (s : RS) : getBytes (some e) s = e.decode s := by
  simp only [getBytes, need, ok_bind]

theorem writeTagValues_rt {ch : CH} : ∀ (data : List (Key × List Nat)) {s s' : WS},
    (∀ kv ∈ data, readValue kv.1.ty kv.2 = .ok kv.2) →
    (∀ kv ∈ data, ByteArrayEnc.Carries (ch.tagEnc kv.1.id) kv.2) →
    writeTagValues ch s data = .ok s' →
    ∃ d, Ext s d s' ∧ Reads d (fun rs => readTagValues ch rs (data.map (·.1))) data := by
  intro data
  induction data with
  | nil =>
    intro s s' _ _ h
    simp only [writeTagValues] at h
    cases h
    exact ⟨_, Ext.refl _, Reads.zero fun rs => by simp [readTagValues]⟩
  | cons kv rest ih =>
    intro s s' hv hc h
    obtain ⟨k, v⟩ := kv
    simp only [writeTagValues] at h
    split at h
    · cases h
    · rename_i e hte
      split at h
      · cases h
      · rename_i s1 h1
        have hc1 := hc (k, v) (by simp)
        simp only [hte] at hc1
        obtain ⟨d1, e1, r1⟩ := putBytes_rt (e := some e) hc1 (by rw [putBytes_some]; exact h1)
        obtain ⟨d2, e2, r2⟩ := ih (fun kv hkv => hv kv (by simp [hkv])) (fun kv hkv => hc kv (by simp [hkv])) h
        refine ⟨_, e1.trans e2, fun t rs hinv => ?_⟩
        rw [Delta.app_assoc] at hinv
        obtain ⟨rs1, g1, hinv1⟩ := r1 _ _ hinv
        obtain ⟨rs2, g2, hinv2⟩ := r2 _ _ hinv1
        refine ⟨rs2, ?_, hinv2⟩
        rw [getBytes_some] at g1
        have hv1 := hv (k, v) (by simp)
        simp only at hv1 g2
        simp only [List.map_cons, readTagValues, hte, g1, hv1, g2]

theorem writeData_rt {ch : CH} {ctx : RefCtx} {s s' : WS} {r : CRec} (hwf : WF ch ctx r)
    (h : writeData ch s r = .ok s') (r0 : CRec) :
    ∃ d, Ext s d s' ∧ Reads d (fun rs => readData ch rs r0) { r0 with data := r.data } := by
  unfold writeData at h
  split at h
  · cases h
  · rename_i i hi
    simp only [bind_eq_ok] at h
    obtain ⟨n, hn, s1, h1, h2⟩ := h
    obtain ⟨rfl, hn'⟩ := toI32_ok hn
    obtain ⟨d1, e1, r1⟩ := putInt_rt (rc_isI32_ofNat hn') h1
    obtain ⟨d2, e2, r2⟩ := writeTagValues_rt r.data hwf.data hwf.dataFits h2
    refine ⟨_, e1.trans e2, fun t rs hinv => ?_⟩
    rw [Delta.app_assoc] at hinv
    obtain ⟨rs1, g1, hinv1⟩ := r1 _ _ hinv
    obtain ⟨rs2, g2, hinv2⟩ := r2 _ _ hinv1
    refine ⟨rs2, ?_, hinv2⟩
    simp only at g2
    simp only [readData, g1, ok_bind, toNatBelow_ofNat hn', findTagSet_some hi, g2, pure, Except.pure]

/-! ## features -/

theorem writeFeature_rt {ch : CH} {s s' : WS} {f : Feature} {prev : Nat} (hprev : prev ≤ f.pos) (hpos : 1 ≤ f.pos)
    (hc : featureCarried ch f) (h : writeFeature ch s f (f.pos - prev) = .ok s') :
    ∃ d, Ext s d s' ∧ Reads d (fun rs => readFeature ch rs prev) f := by
  unfold writeFeature at h
  simp only [bind_eq_ok] at h
  obtain ⟨s1, h1, dl, hd, s2, h2, h3⟩ := h
  obtain ⟨d1, e1, r1⟩ := putByte_rt h1
  obtain ⟨rfl, hd'⟩ := toI32_ok hd
  obtain ⟨d2, e2, r2⟩ := putInt_rt (rc_isI32_ofNat hd') h2
  have hadd : prev + (f.pos - prev) = f.pos := Nat.add_sub_of_le hprev
  have hne : f.pos ≠ 0 := by omega
  cases f with
  | bases pos bs | scores pos bs | insertion pos bs | softClip pos bs =>
    simp only [featureCarried] at hc
    simp only [Feature.pos] at hadd hne hd' r2
    obtain ⟨d3, e3, r3⟩ := putBytes_rt hc h3
    refine ⟨_, e1.trans (e2.trans e3), fun t rs hinv => ?_⟩
    simp only [Delta.app_assoc] at hinv
    obtain ⟨rs1, g1, hinv1⟩ := r1 _ _ hinv
    obtain ⟨rs2, g2, hinv2⟩ := r2 _ _ hinv1
    obtain ⟨rs3, g3, hinv3⟩ := r3 _ _ hinv2
    refine ⟨rs3, ?_, hinv3⟩
    simp [readFeature, g1, ok_bind, featureCode, g2, toNatBelow_ofNat hd', hadd, g3, pure, Except.pure] <;> (intro h0; omega)
  | subst pos b | insertBase pos b | qualityScore pos b =>
    simp only [Feature.pos] at hadd hne hd' r2
    obtain ⟨d3, e3, r3⟩ := putByte_rt h3
    refine ⟨_, e1.trans (e2.trans e3), fun t rs hinv => ?_⟩
    simp only [Delta.app_assoc] at hinv
    obtain ⟨rs1, g1, hinv1⟩ := r1 _ _ hinv
    obtain ⟨rs2, g2, hinv2⟩ := r2 _ _ hinv1
    obtain ⟨rs3, g3, hinv3⟩ := r3 _ _ hinv2
    refine ⟨rs3, ?_, hinv3⟩
    simp [readFeature, g1, ok_bind, featureCode, g2, toNatBelow_ofNat hd', hadd, g3, pure, Except.pure] <;> (intro h0; omega)
  | readBase pos b q =>
    simp only [Feature.pos] at hadd hne hd' r2
    simp only [bind_eq_ok] at h3
    obtain ⟨s3, h3, h4⟩ := h3
    obtain ⟨d3, e3, r3⟩ := putByte_rt h3
    obtain ⟨d4, e4, r4⟩ := putByte_rt h4
    refine ⟨_, e1.trans (e2.trans (e3.trans e4)), fun t rs hinv => ?_⟩
    simp only [Delta.app_assoc] at hinv
    obtain ⟨rs1, g1, hinv1⟩ := r1 _ _ hinv
    obtain ⟨rs2, g2, hinv2⟩ := r2 _ _ hinv1
    obtain ⟨rs3, g3, hinv3⟩ := r3 _ _ hinv2
    obtain ⟨rs4, g4, hinv4⟩ := r4 _ _ hinv3
    refine ⟨rs4, ?_, hinv4⟩
    simp [readFeature, g1, ok_bind, featureCode, g2, toNatBelow_ofNat hd', hadd, g3, g4, pure, Except.pure] <;> (intro h0; omega)
  | deletion pos n | refSkip pos n | padding pos n | hardClip pos n =>
    simp only [Feature.pos] at hadd hne hd' r2
    simp only [bind_eq_ok] at h3
    obtain ⟨m, hm, h3⟩ := h3
    obtain ⟨rfl, hm'⟩ := toI32_ok hm
    obtain ⟨d3, e3, r3⟩ := putInt_rt (rc_isI32_ofNat hm') h3
    refine ⟨_, e1.trans (e2.trans e3), fun t rs hinv => ?_⟩
    simp only [Delta.app_assoc] at hinv
    obtain ⟨rs1, g1, hinv1⟩ := r1 _ _ hinv
    obtain ⟨rs2, g2, hinv2⟩ := r2 _ _ hinv1
    obtain ⟨rs3, g3, hinv3⟩ := r3 _ _ hinv2
    refine ⟨rs3, ?_, hinv3⟩
    simp [readFeature, g1, ok_bind, featureCode, g2, toNatBelow_ofNat hd', hadd, g3, toNatBelow_ofNat hm',
      pure, Except.pure] <;> (intro h0; omega)

theorem writeFeatures_rt {ch : CH} : ∀ (fs : List Feature) {s s' : WS} {prev : Nat},
    featuresSorted prev fs → (∀ f ∈ fs, featureCarried ch f) → writeFeatures ch s prev fs = .ok s' →
    ∃ d, Ext s d s' ∧ Reads d (fun rs => readFeatures ch fs.length prev rs) fs := by
  intro fs
  induction fs with
  | nil =>
    intro s s' prev _ _ h
    simp only [writeFeatures] at h
    cases h
    exact ⟨_, Ext.refl _, Reads.zero fun rs => by simp [readFeatures]⟩
  | cons f rest ih =>
    intro s s' prev hs hc h
    obtain ⟨hprev, hpos, hs'⟩ := hs
    simp only [writeFeatures] at h
    split at h
    · cases h
    · split at h
      · cases h
      · rename_i s1 h1
        obtain ⟨d1, e1, r1⟩ := writeFeature_rt hprev hpos (hc f (by simp)) h1
        obtain ⟨d2, e2, r2⟩ := ih hs' (fun g hg => hc g (by simp [hg])) h
        refine ⟨_, e1.trans e2, fun t rs hinv => ?_⟩
        rw [Delta.app_assoc] at hinv
        obtain ⟨rs1, g1, hinv1⟩ := r1 _ _ hinv
        obtain ⟨rs2, g2, hinv2⟩ := r2 _ _ hinv1
        refine ⟨rs2, ?_, hinv2⟩
        simp only at g1 g2
        simp only [List.length_cons, readFeatures, g1, g2]

/-! ## mapped / unmapped reads -/

theorem mq_back {o : Option Nat} (h : ∀ q, o = some q → q < 255) :
    o.getD 255 < 256 ∧ (if o.getD 255 = 255 then none else some (o.getD 255)) = o := by
  cases o with
  | none => simp
  | some q =>
    have := h q rfl
    have h2 : q ≠ 255 := by omega
    exact ⟨by simp; omega, by simp [h2]⟩

theorem writeQuals_rt {ch : CH} {s s' : WS} {qs : List Nat} (h : putExtend ch.dse.qs s qs = .ok s') :
    ∃ d, Ext s d s' ∧ Reads d (fun rs => readQualityScores ch rs qs.length)
      (if qs.all (· == 255) then [] else qs) := by
  obtain ⟨d, e, r⟩ := putExtend_rt h
  refine ⟨d, e, fun t rs hinv => ?_⟩
  obtain ⟨rs1, g1, hinv1⟩ := r _ _ hinv
  refine ⟨rs1, ?_, hinv1⟩
  simp only at g1
  simp only [readQualityScores, g1, ok_bind, pure, Except.pure]

theorem writeMapped_rt {ch : CH} {ctx : RefCtx} {s s' : WS} {r : CRec} (hwf : WF ch ctx r) (hun : r.unmapped = false)
    (h : writeMapped ch s r = .ok s') (r0 : CRec) (hrl : r0.readLength = r.readLength)
    (hcf : r0.cramFlags = r.cramFlags) :
    ∃ d, Ext s d s' ∧ Reads d (fun rs => readMapped ch rs r0)
      { r0 with features := r.features, mappingQuality := r.mappingQuality,
                qualityScores := if r.qsArray then (if r.qualityScores.all (· == 255) then [] else r.qualityScores)
                  else r0.qualityScores } := by
  unfold writeMapped at h
  simp only [bind_eq_ok] at h
  obtain ⟨n, hn, s1, h1, s2, h2, s3, h3, h4⟩ := h
  obtain ⟨rfl, hn'⟩ := toI32_ok hn
  obtain ⟨d1, e1, r1⟩ := putInt_rt (rc_isI32_ofNat hn') h1
  obtain ⟨d2, e2, r2⟩ := writeFeatures_rt r.features (hwf.sorted hun) (hwf.carried hun) h2
  obtain ⟨hq, hqb⟩ := mq_back hwf.mq
  obtain ⟨d3, e3, r3⟩ := putInt_rt (rc_isI32_ofNat (Nat.lt_trans hq (by decide))) h3
  have hval := hwf.valid hun
  have hqa : r0.qsArray = r.qsArray := by simp only [CRec.qsArray, hcf]
  cases hqs : r.qsArray with
  | true =>
    rw [hqs, if_pos rfl] at h4
    obtain ⟨d4, e4, r4⟩ := writeQuals_rt h4
    rw [hwf.qsLen hqs] at r4
    refine ⟨_, e1.trans (e2.trans (e3.trans e4)), fun t rs hinv => ?_⟩
    simp only [Delta.app_assoc] at hinv
    obtain ⟨rs1, g1, hinv1⟩ := r1 _ _ hinv
    obtain ⟨rs2, g2, hinv2⟩ := r2 _ _ hinv1
    obtain ⟨rs3, g3, hinv3⟩ := r3 _ _ hinv2
    obtain ⟨rs4, g4, hinv4⟩ := r4 _ _ hinv3
    refine ⟨rs4, ?_, hinv4⟩
    simp only at g2 g4
    rw [hqs] at hqa
    simp only [readMapped, g1, ok_bind, toNatBelow_ofNat hn', g2, hrl, hval, g3, toNatBelow_ofNat hq, hqb, hqa,
      if_true, g4, pure, Except.pure]
  | false =>
    rw [hqs, if_neg (by decide)] at h4
    cases h4
    refine ⟨_, e1.trans (e2.trans e3), fun t rs hinv => ?_⟩
    simp only [Delta.app_assoc] at hinv
    obtain ⟨rs1, g1, hinv1⟩ := r1 _ _ hinv
    obtain ⟨rs2, g2, hinv2⟩ := r2 _ _ hinv1
    obtain ⟨rs3, g3, hinv3⟩ := r3 _ _ hinv2
    refine ⟨rs3, ?_, hinv3⟩
    simp only at g2
    rw [hqs] at hqa
    simp only [readMapped, g1, ok_bind, toNatBelow_ofNat hn', g2, hrl, hval, g3, toNatBelow_ofNat hq, hqb, hqa,
      if_false, Bool.false_eq_true, pure, Except.pure]

theorem writeUnmapped_rt {ch : CH} {ctx : RefCtx} {s s' : WS} {r : CRec} (hwf : WF ch ctx r) (hun : r.unmapped = true)
    (h : writeUnmapped ch s r = .ok s') (r0 : CRec) (hrl : r0.readLength = r.readLength)
    (hcf : r0.cramFlags = r.cramFlags) :
    ∃ d, Ext s d s' ∧ Reads d (fun rs => readUnmapped ch rs r0)
      { r0 with sequence := r.sequence,
                qualityScores := if r.qsArray then (if r.qualityScores.all (· == 255) then [] else r.qualityScores)
                  else r0.qualityScores } := by
  unfold writeUnmapped at h
  simp only [bind_eq_ok] at h
  obtain ⟨s1, h1, h2⟩ := h
  obtain ⟨d1, e1, r1⟩ := putExtend_rt h1
  rw [hwf.seqLen hun] at r1
  have hqa : r0.qsArray = r.qsArray := by simp only [CRec.qsArray, hcf]
  cases hqs : r.qsArray with
  | true =>
    rw [hqs, if_pos rfl] at h2
    obtain ⟨d2, e2, r2⟩ := writeQuals_rt h2
    rw [hwf.qsLen hqs] at r2
    refine ⟨_, e1.trans e2, fun t rs hinv => ?_⟩
    simp only [Delta.app_assoc] at hinv
    obtain ⟨rs1, g1, hinv1⟩ := r1 _ _ hinv
    obtain ⟨rs2, g2, hinv2⟩ := r2 _ _ hinv1
    refine ⟨rs2, ?_, hinv2⟩
    simp only at g1 g2
    rw [hqs] at hqa
    simp only [readUnmapped, hrl, g1, ok_bind, hqa, if_true, g2, pure, Except.pure]
  | false =>
    rw [hqs, if_neg (by decide)] at h2
    cases h2
    refine ⟨_, e1, fun t rs hinv => ?_⟩
    obtain ⟨rs1, g1, hinv1⟩ := r1 _ _ hinv
    refine ⟨rs1, ?_, hinv1⟩
    simp only at g1
    rw [hqs] at hqa
    simp only [readUnmapped, hrl, g1, ok_bind, hqa, if_false, Bool.false_eq_true, pure, Except.pure]

/-! ## one record -/

theorem writeRecord_eq (ch : CH) (ctx : RefCtx) (st : WS × Option Nat) (r : CRec) :
    writeRecord ch ctx st r =
    (putInt ch.dse.bf st.1 r.bamFlags >>= fun s => putInt ch.dse.cf s r.cramFlags >>= fun s =>
     writePositions ch ctx st.2 s r >>= fun s =>
     (if ch.recordsHaveNames then writeName ch s r.name else pure s) >>= fun s =>
     writeMate ch s r >>= fun s => writeData ch s r >>= fun s =>
     (if r.unmapped then writeUnmapped ch s r else writeMapped ch s r) >>= fun s =>
     pure (s, r.alignmentStart)) := by
  unfold writeRecord
  cases ch.recordsHaveNames <;> cases r.unmapped <;> simp

theorem Reads.congr_val {α : Type} {d : Delta} {rd : RS → Res (α × RS)} {v v' : α} (h : Reads d rd v) (e : v = v') :
    Reads d rd v' := e ▸ h

theorem bitSet_orBit_5_2 (f : Nat) : bitSet (orBit f 5) 2 = bitSet f 2 := by
  unfold orBit
  by_cases h : bitSet f 5 = true
  · rw [if_pos h]
  · rw [if_neg h]
    simp only [bitSet, Nat.reducePow, beq_iff_eq] at h
    have : (f + 2 ^ 5) / 2 ^ 2 % 2 = f / 2 ^ 2 % 2 := by omega
    simp only [bitSet, this]

theorem bitSet_orBit_3_2 (f : Nat) : bitSet (orBit f 3) 2 = bitSet f 2 := by
  unfold orBit
  by_cases h : bitSet f 3 = true
  · rw [if_pos h]
  · rw [if_neg h]
    simp only [bitSet, Nat.reducePow, beq_iff_eq] at h
    have : (f + 2 ^ 3) / 2 ^ 2 % 2 = f / 2 ^ 2 % 2 := by omega
    simp only [bitSet, this]

theorem stored_unmapped (ch : CH) (ctx : RefCtx) (r : CRec) : (stored ch ctx r).unmapped = r.unmapped := by
  simp only [CRec.unmapped, stored]
  split
  · split <;> split <;> simp only [bitSet_orBit_5_2, bitSet_orBit_3_2]
  · rfl

theorem writeRecord_rt {ch : CH} {ctx : RefCtx} {r : CRec} (hwf : WF ch ctx r) {s s' : WS} {prev prev' : Option Nat}
    (h : writeRecord ch ctx (s, prev) r = .ok (s', prev')) :
    prev' = r.alignmentStart ∧ ∃ d, Ext s d s' ∧
      Reads d (fun rs => readRecord ch ctx (rs, prev) >>= fun p => pure ((p.1, p.2.2), p.2.1))
        (stored ch ctx r, r.alignmentStart) := by
  rw [writeRecord_eq] at h
  simp only [bind_eq_ok] at h
  obtain ⟨s1, h1, s2, h2, s3, h3, s4, h4, s5, h5, s6, h6, s7, h7, h8⟩ := h
  cases h8
  refine ⟨rfl, ?_⟩
  obtain ⟨d1, e1, r1⟩ := putInt_rt (rc_isI32_ofNat (Nat.lt_trans hwf.bam (by decide))) h1
  obtain ⟨d2, e2, r2⟩ := putInt_rt (rc_isI32_ofNat (Nat.lt_trans hwf.cram (by decide))) h2
  obtain ⟨d3, e3, r3⟩ := writePositions_rt hwf h3 (rec0 r)
  have st4 : ∃ d4, Ext s3 d4 s4 ∧ ∀ t rs, Inv (d4.app t) rs → ∃ rs4, Inv t rs4 ∧
      (ch.recordsHaveNames = true → readName ch rs = .ok (r.name, rs4)) ∧
      (ch.recordsHaveNames = false → rs4 = rs) := by
    cases hn : ch.recordsHaveNames with
    | false =>
      rw [hn, if_neg (by decide)] at h4
      cases h4
      refine ⟨_, Ext.refl _, fun t rs hinv => ?_⟩
      rw [Delta.zero_app] at hinv
      exact ⟨rs, hinv, by simp, fun _ => rfl⟩
    | true =>
      rw [hn, if_pos rfl] at h4
      obtain ⟨d4, e4, r4⟩ := writeName_rt hwf.name hwf.nameFits h4
      refine ⟨d4, e4, fun t rs hinv => ?_⟩
      obtain ⟨rs4, g4, hinv4⟩ := r4 t rs hinv
      exact ⟨rs4, hinv4, fun _ => g4, by simp⟩
  obtain ⟨d4, e4, r4⟩ := st4
  obtain ⟨d5, e5, r5⟩ := writeMate_rt hwf h5
  obtain ⟨d6, e6, r6⟩ := writeData_rt hwf h6 (rec3 ch ctx r)
  have hun4 : (rec4 ch ctx r).unmapped = r.unmapped := stored_unmapped ch ctx r
  have st7 : ∃ d7, Ext s6 d7 s' ∧ ∀ t rs, Inv (d7.app t) rs → ∃ rs7, Inv t rs7 ∧
      (r.unmapped = true → readUnmapped ch rs (rec4 ch ctx r) = .ok (stored ch ctx r, rs7)) ∧
      (r.unmapped = false → readMapped ch rs (rec4 ch ctx r) = .ok (stored ch ctx r, rs7)) := by
    cases hun : r.unmapped with
    | true =>
      rw [hun, if_pos rfl] at h7
      obtain ⟨d7, e7, r7⟩ := writeUnmapped_rt hwf hun h7 (rec4 ch ctx r) rfl rfl
      have r7' := r7.congr_val (v' := stored ch ctx r) (by simp [rec4, rec3, rec2, rec1, rec0, stored, hun])
      refine ⟨d7, e7, fun t rs hinv => ?_⟩
      obtain ⟨rs7, g7, hinv7⟩ := r7' t rs hinv
      exact ⟨rs7, hinv7, fun _ => g7, by simp⟩
    | false =>
      rw [hun, if_neg (by decide)] at h7
      obtain ⟨d7, e7, r7⟩ := writeMapped_rt hwf hun h7 (rec4 ch ctx r) rfl rfl
      have r7' := r7.congr_val (v' := stored ch ctx r) (by simp [rec4, rec3, rec2, rec1, rec0, stored, hun])
      refine ⟨d7, e7, fun t rs hinv => ?_⟩
      obtain ⟨rs7, g7, hinv7⟩ := r7' t rs hinv
      exact ⟨rs7, hinv7, by simp, fun _ => g7⟩
  obtain ⟨d7, e7, r7⟩ := st7
  refine ⟨_, e1.trans (e2.trans (e3.trans (e4.trans (e5.trans (e6.trans e7))))), fun t rs hinv => ?_⟩
  simp only [Delta.app_assoc] at hinv
  obtain ⟨rs1, g1, hinv1⟩ := r1 _ _ hinv
  obtain ⟨rs2, g2, hinv2⟩ := r2 _ _ hinv1
  obtain ⟨rs3, g3, hinv3⟩ := r3 _ _ hinv2
  obtain ⟨rs4, hinv4, a4, b4⟩ := r4 _ _ hinv3
  obtain ⟨rs5, g5, hinv5⟩ := r5 _ _ hinv4
  obtain ⟨rs6, g6, hinv6⟩ := r6 _ _ hinv5
  obtain ⟨rs7, hinv7, a7, b7⟩ := r7 _ _ hinv6
  refine ⟨rs7, ?_, hinv7⟩
  have g3' : readPositions ch ctx prev rs2 { bamFlags := r.bamFlags % 4096, cramFlags := r.cramFlags % 16 }
      = .ok (rec1 ch ctx r, rs3) := by
    rw [Nat.mod_eq_of_lt hwf.bam, Nat.mod_eq_of_lt hwf.cram]
    exact g3
  have g6' : readData ch rs5 (rec3 ch ctx r) = .ok (rec4 ch ctx r, rs6) := g6
  have hb := toNatBelow_ofNat (Nat.lt_trans hwf.bam (by decide : 4096 < 65536))
  have hc := toNatBelow_ofNat (Nat.lt_trans hwf.cram (by decide : 16 < 256))
  simp only at g5
  cases hn : ch.recordsHaveNames with
  | true =>
    have g4 := a4 hn
    have e2 : ({ rec1 ch ctx r with name := r.name } : CRec) = rec2 ch ctx r := by simp [rec2, hn]
    cases hun : r.unmapped with
    | true =>
      have hu : (rec4 ch ctx r).unmapped = true := hun4.trans hun
      simp only [readRecord, hn, g1, ok_bind, hb, g2, hc, g3', if_true, g4, pure_bind', e2, g5, g6', hu, a7 hun]
      rfl
    | false =>
      have hu : (rec4 ch ctx r).unmapped = false := hun4.trans hun
      simp only [readRecord, hn, g1, ok_bind, hb, g2, hc, g3', if_true, g4, pure_bind', e2, g5, g6', hu, b7 hun,
        if_false, Bool.false_eq_true]
      rfl
  | false =>
    have := b4 hn
    subst this
    have e2 : rec1 ch ctx r = rec2 ch ctx r := by simp [rec2, rec1, rec0, hn]
    cases hun : r.unmapped with
    | true =>
      have hu : (rec4 ch ctx r).unmapped = true := hun4.trans hun
      simp only [readRecord, hn, g1, ok_bind, hb, g2, hc, g3', if_true, pure_bind', e2, g5, g6', hu, a7 hun,
        if_false, Bool.false_eq_true]
      rfl
    | false =>
      have hu : (rec4 ch ctx r).unmapped = false := hun4.trans hun
      simp only [readRecord, hn, g1, ok_bind, hb, g2, hc, g3', pure_bind', e2, g5, g6', hu, b7 hun,
        if_false, Bool.false_eq_true]
      rfl

/-! ## all records -/

theorem writeRecordsGo_rt {ch : CH} {ctx : RefCtx} : ∀ (recs : List CRec), (∀ r ∈ recs, WF ch ctx r) →
    ∀ {s s' : WS} {prev prev' : Option Nat}, writeRecordsGo ch ctx (s, prev) recs = .ok (s', prev') →
    ∃ d, Ext s d s' ∧ ∀ t rs, Inv (d.app t) rs →
      readRecordsGo ch ctx recs.length (rs, prev) = .ok (recs.map (stored ch ctx)) := by
  intro recs
  induction recs with
  | nil =>
    intro _ s s' prev prev' h
    simp only [writeRecordsGo] at h
    cases h
    exact ⟨_, Ext.refl _, fun t rs _ => by simp [readRecordsGo]⟩
  | cons r rest ih =>
    intro hwf s s' prev prev' h
    simp only [writeRecordsGo] at h
    split at h
    · cases h
    · rename_i st h1
      obtain ⟨s1, prev1⟩ := st
      obtain ⟨rfl, d1, e1, r1⟩ := writeRecord_rt (hwf r (by simp)) h1
      obtain ⟨d2, e2, r2⟩ := ih (fun x hx => hwf x (by simp [hx])) h
      refine ⟨_, e1.trans e2, fun t rs hinv => ?_⟩
      rw [Delta.app_assoc] at hinv
      obtain ⟨rs1, g1, hinv1⟩ := r1 _ _ hinv
      have g2 := r2 _ _ hinv1
      simp only [bind_eq_ok] at g1
      obtain ⟨p, hp, hp2⟩ := g1
      obtain ⟨pr, ps, pa⟩ := p
      simp only [pure, Except.pure, Except.ok.injEq, Prod.mk.injEq] at hp2
      obtain ⟨⟨rfl, rfl⟩, rfl⟩ := hp2
      simp only [List.length_cons, readRecordsGo, hp, g2, List.map_cons]

theorem record_series_roundtrip' (ch : CH) (ctx : RefCtx) (recs : List CRec) (hwf : ∀ r ∈ recs, WF ch ctx r)
    (core : List Nat) (ext : Int → Option (List Nat)) (hw : writeRecords ch ctx recs = .ok (core, ext)) :
    readRecords ch ctx recs.length core (blocksOf ext) = .ok (recs.map (stored ch ctx)) := by
  unfold writeRecords at hw
  split at hw
  · cases hw
  · rename_i sF pF hgo
    split at hw
    · cases hw
    · rename_i core' hfin
      cases hw
      obtain ⟨d, e, rd⟩ := writeRecordsGo_rt recs hwf hgo
      unfold readRecords
      apply rd Delta.zero
      intro id
      obtain ⟨a, b⟩ := e id
      simp only [Delta.app_zero]
      simp only [initialWS] at a b
      by_cases hc : id ∈ standardIds ∨ (ch.tagEnc id).isSome = true
      · rw [if_pos hc] at a
        simp only [Option.map_some, List.nil_append] at a
        constructor
        · intro hne
          cases hd : d id with
          | nil => exact absurd hd hne
          | cons x l => simp only [blocksOf, a, hd]
        · intro hd
          left
          simp only [blocksOf, a, hd]
      · rw [if_neg hc] at a b
        simp only [Option.map_none] at a
        have hd := b rfl
        constructor
        · intro hne
          exact absurd hd hne
        · intro _
          left
          simp only [blocksOf, a]

/-! ## records in stored form -/

theorem CRec.ext' (a b : CRec) (hbam : a.bamFlags = b.bamFlags) (hcram : a.cramFlags = b.cramFlags)
    (hrefId : a.refId = b.refId) (hrl : a.readLength = b.readLength) (hstart : a.alignmentStart = b.alignmentStart)
    (hrg : a.readGroupId = b.readGroupId) (hname : a.name = b.name) (hmf : a.mateFlags = b.mateFlags)
    (hmrid : a.mateRefId = b.mateRefId) (hmstart : a.mateStart = b.mateStart)
    (htlen : a.templateLength = b.templateLength) (hmd : a.mateDistance = b.mateDistance) (hdata : a.data = b.data)
    (hfeat : a.features = b.features) (hmq : a.mappingQuality = b.mappingQuality) (hseq : a.sequence = b.sequence)
    (hqs : a.qualityScores = b.qualityScores) : a = b := by
  cases a; cases b
  dsimp only at *
  subst_vars
  rfl

theorem orBit_of_bitSet {f k : Nat} (h : bitSet f k = true) : orBit f k = f := by
  unfold orBit; rw [if_pos h]

theorem stored_verbatim' (ch : CH) (ctx : RefCtx) (r : CRec) (h : Verbatim ch ctx r) : stored ch ctx r = r := by
  obtain ⟨href, hname, hmf, hmate, hdist, hmapped, hunm, hquals⟩ := h
  apply CRec.ext' <;> simp only [stored]
  case hbam =>
    cases hdet : r.detached with
    | false => simp
    | true =>
      rw [hdet, if_pos rfl] at hmf
      obtain ⟨h4, h0, h1⟩ := hmf
      rw [Nat.mod_eq_of_lt h4]
      simp only [if_true]
      by_cases c0 : bitSet r.mateFlags 0 = true <;> by_cases c1 : bitSet r.mateFlags 1 = true
      · rw [if_pos c0, if_pos c1, orBit_of_bitSet (h0 c0), orBit_of_bitSet (h1 c1)]
      · rw [if_pos c0, if_neg c1, orBit_of_bitSet (h0 c0)]
      · rw [if_neg c0, if_pos c1, orBit_of_bitSet (h1 c1)]
      · rw [if_neg c0, if_neg c1]
  case hrefId =>
    rcases href with rfl | ⟨id, s, e, rfl, h⟩ | ⟨rfl, h⟩
    · rfl
    · exact h.symm
    · exact h.symm
  case hname =>
    rcases hname with h | h | h
    · simp [h]
    · simp [h]
    · cases ch.recordsHaveNames <;> cases r.detached <;> simp [h]
  case hmf =>
    cases hdet : r.detached with
    | false =>
      rw [hdet] at hmf
      simp at hmf
      simp [hmf]
    | true =>
      rw [hdet, if_pos rfl] at hmf
      simp [Nat.mod_eq_of_lt hmf.1]
  case hmrid =>
    cases hdet : r.detached with
    | false => simp [(hmate hdet).1]
    | true => simp
  case hmstart =>
    cases hdet : r.detached with
    | false => simp [(hmate hdet).2.1]
    | true => simp
  case htlen =>
    cases hdet : r.detached with
    | false => simp [(hmate hdet).2.2]
    | true => simp
  case hmd =>
    cases hmd : r.mateDistance with
    | none => cases r.detached <;> cases r.downstream <;> simp
    | some d =>
      rw [hmd] at hdist
      obtain ⟨h1, h2⟩ := hdist rfl
      simp [h1, h2]
  case hfeat =>
    cases hun : r.unmapped with
    | false => simp
    | true => simp [(hunm hun).1]
  case hmq =>
    cases hun : r.unmapped with
    | false => simp
    | true => simp [(hunm hun).2]
  case hseq =>
    cases hun : r.unmapped with
    | false => simp [hmapped hun]
    | true => simp
  case hqs =>
    cases hq : r.qsArray with
    | false =>
      rw [hq] at hquals
      simp at hquals
      simp [hquals]
    | true =>
      rw [hq, if_pos rfl] at hquals
      simp only [if_true]
      rcases hquals with h | ⟨q, hq1, hq2⟩
      · simp [h]
      · have : r.qualityScores.all (· == 255) = false := by
          rw [Bool.eq_false_iff]
          intro hall
          rw [List.all_eq_true] at hall
          exact hq2 (by simpa using hall q hq1)
        rw [this]
        simp

end Noodles.Cram.Enc
