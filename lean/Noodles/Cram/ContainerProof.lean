import Noodles.Cram.Container
/-! Helper lemmas for `Noodles.Props.C07` (container bookkeeping core). -/
namespace Noodles.Cram.Container

theorem writeItf8_length (n : Int) : (writeItf8 n).length = itf8SizeOf n := by
  unfold writeItf8 itf8SizeOf
  split
  · rfl
  · split
    · rfl
    · split
      · rfl
      · split <;> rfl

theorem writeBlock_length (crc : List Nat → List Nat) (hcrc : ∀ x, (crc x).length = 4) (b : Block) :
    (writeBlock crc b).length = b.size := by
  unfold writeBlock Block.size
  simp only [List.length_append, hcrc, writeItf8_length, List.length_cons, List.length_nil] <;> omega

theorem flatten_map_length (crc : List Nat → List Nat) (hcrc : ∀ x, (crc x).length = 4) (bs : List Block) :
    ((bs.map (writeBlock crc)).flatten).length = (bs.map Block.size).sum := by
  induction bs with
  | nil => rfl
  | cons b bs ih => simp [writeBlock_length crc hcrc, ih]

theorem Slice.size_eq (s : Slice) : s.size = (s.blocks.map Block.size).sum := by
  simp [Slice.size, Slice.blocks]

/-- bytes of the slices `ss` -/
def slicesLen (ss : List Slice) : Nat := (ss.map Slice.size).sum

theorem layoutGo_size (ss : List Slice) : ∀ size, (layoutGo size ss).1 = size + slicesLen ss := by
  induction ss with
  | nil => intro size; simp [layoutGo, slicesLen]
  | cons s rest ih =>
    intro size
    cases rest with
    | nil => simp [layoutGo, slicesLen]
    | cons s' rest' =>
      simp only [layoutGo]
      rw [ih (size + s.size)]
      simp [slicesLen]; omega

/-- the landmarks pushed by the loop: the offset after each slice but the last -/
theorem layoutGo_landmarks (ss : List Slice) : ∀ size (i : Nat), i + 1 < ss.length →
    (layoutGo size ss).2[i]? = some (size + slicesLen (ss.take (i + 1))) := by
  induction ss with
  | nil => intro size i h; simp at h
  | cons s rest ih =>
    intro size i h
    cases rest with
    | nil => simp at h
    | cons s' rest' =>
      simp only [layoutGo]
      cases i with
      | zero => simp [slicesLen]
      | succ i =>
        have := ih (size + s.size) i (by simpa using h)
        simp only [List.getElem?_cons_succ, this]
        simp [slicesLen]; omega

theorem layoutGo_landmarks_length (ss : List Slice) : ∀ size, (layoutGo size ss).2.length = ss.length - 1 := by
  induction ss with
  | nil => intro size; simp [layoutGo]
  | cons s rest ih =>
    intro size
    cases rest with
    | nil => simp [layoutGo]
    | cons s' rest' =>
      simp only [layoutGo, List.length_cons]
      rw [ih (size + s.size)]
      simp

theorem blocks_sum (ss : List Slice) :
    ((ss.flatMap Slice.blocks).map Block.size).sum = slicesLen ss := by
  induction ss with
  | nil => rfl
  | cons s rest ih =>
    simp only [List.flatMap_cons, List.map_append, List.sum_append, ih, slicesLen, List.map_cons, List.sum_cons]
    rw [Slice.size_eq]

theorem serialize_take (crc : List Nat → List Nat) (hcrc : ∀ x, (crc x).length = 4) (ch : Block)
    (ss : List Slice) : (serialize crc ch ss).length = ch.size + slicesLen ss := by
  unfold serialize allBlocks
  rw [flatten_map_length crc hcrc]
  simp [blocks_sum]

/-- `serialize` splits at every slice boundary -/
theorem serialize_append (crc : List Nat → List Nat) (ch : Block) (a b : List Slice) :
    serialize crc ch (a ++ b) = serialize crc ch a ++ ((b.flatMap Slice.blocks).map (writeBlock crc)).flatten := by
  simp [serialize, allBlocks]

theorem blockCount_eq (ch : Block) (ss : List Slice) :
    blockCount ch ss = 1 + (ss.map fun s => 2 + s.ext.length).sum := by
  unfold blockCount allBlocks
  induction ss with
  | nil => rfl
  | cons s r ih =>
    simp only [List.length_cons, List.flatMap_cons, List.length_append, Slice.blocks, List.map_cons,
      List.sum_cons] at ih ⊢
    omega

/-! ### counters -/

theorem sliceCounters_get (ns : List Nat) : ∀ c (i : Nat), i < ns.length →
    (sliceCounters c ns)[i]? = some (c + (ns.take i).sum) := by
  induction ns with
  | nil => intro c i h; simp at h
  | cons n ns ih =>
    intro c i h
    cases i with
    | zero => simp [sliceCounters]
    | succ i =>
      simp only [sliceCounters, List.getElem?_cons_succ]
      rw [ih (c + n) i (by simpa using h)]
      simp; omega

theorem sliceCounters_length (ns : List Nat) : ∀ c, (sliceCounters c ns).length = ns.length := by
  induction ns with
  | nil => intro c; rfl
  | cons n ns ih => intro c; simp [sliceCounters, ih]

/-! ### chunks -/

theorem chunks_flatten (k : Nat) (hk : 0 < k) : ∀ (fuel : Nat) (l : List Nat), l.length ≤ fuel →
    (chunks k fuel l).flatten = l := by
  intro fuel
  induction fuel with
  | zero => intro l h; simp at h; subst h; unfold chunks; rfl
  | succ fuel ih =>
    intro l h
    unfold chunks
    cases l with
    | nil => simp
    | cons a t =>
      simp only [List.isEmpty_cons, Bool.false_eq_true, if_false, List.flatten_cons]
      rw [ih _ (by simp at h ⊢; omega), List.take_append_drop]

theorem chunks_bounds (k : Nat) (hk : 0 < k) : ∀ (fuel : Nat) (l : List Nat),
    ∀ c ∈ chunks k fuel l, 0 < c.length ∧ c.length ≤ k := by
  intro fuel
  induction fuel with
  | zero => intro l c h; unfold chunks at h; simp at h
  | succ fuel ih =>
    intro l c h
    unfold chunks at h
    cases l with
    | nil => simp at h
    | cons a t =>
      simp only [List.isEmpty_cons, Bool.false_eq_true, if_false, List.mem_cons] at h
      rcases h with h | h
      · subst h
        simp only [List.length_take, List.length_cons]
        omega
      · exact ih _ c h

theorem sum_map_length_flatten (cs : List (List Nat)) : (cs.map List.length).sum = cs.flatten.length := by
  induction cs with
  | nil => rfl
  | cons c cs ih => simp only [List.map_cons, List.sum_cons, List.flatten_cons, List.length_append, ih]

theorem sum_map_sum_flatten (cs : List (List Nat)) : (cs.map List.sum).sum = cs.flatten.sum := by
  induction cs with
  | nil => rfl
  | cons c cs ih => simp only [List.map_cons, List.sum_cons, List.flatten_cons, List.sum_append, ih]

/-! ### the writer's containers -/

/-- counters are the running totals: each container starts where the previous one ended, and inside a
container each slice starts where the previous slice ended -/
def WellCounted : Nat → List ContainerInfo → Prop
  | _, [] => True
  | c0, c :: cs =>
    c.counter = c0 ∧
    (c.slices.map (·.2)).sum = c.nrec ∧
    c.slices.map (·.1) = sliceCounters c.counter (c.slices.map (·.2)) ∧
    WellCounted (c0 + c.nrec) cs

theorem WellCounted.append : ∀ (a b : List ContainerInfo) (c0 : Nat),
    WellCounted c0 a → WellCounted (c0 + (a.map (·.nrec)).sum) b → WellCounted c0 (a ++ b) := by
  intro a
  induction a with
  | nil => intro b c0 _ hb; simpa using hb
  | cons x a ih =>
    intro b c0 ha hb
    obtain ⟨h1, h2, h3, h4⟩ := ha
    refine ⟨h1, h2, h3, ih b _ h4 ?_⟩
    simp only [List.map_cons, List.sum_cons] at hb
    rw [Nat.add_assoc]; exact hb

def goStep (rps : Nat) (acc : Nat × List ContainerInfo) (recs : List Nat) : Nat × List ContainerInfo :=
  let sl := (chunks rps recs.length recs).map List.length
  (acc.1 + recs.length, acc.2 ++ [⟨acc.1, recs.length, recs.sum, (sliceCounters acc.1 sl).zip sl⟩])

theorem containers_eq (rps spc : Nat) (readLens : List Nat) :
    containers rps spc readLens = ((chunks (rps * spc) readLens.length readLens).foldl (goStep rps) (0, [])).2 := rfl

theorem zip_map_fst (a b : List Nat) (h : a.length = b.length) : (a.zip b).map (·.1) = a := by
  induction a generalizing b with
  | nil => simp
  | cons x a ih =>
    cases b with
    | nil => simp at h
    | cons y b => simp [ih b (by simpa using h)]

theorem zip_map_snd (a b : List Nat) (h : a.length = b.length) : (a.zip b).map (·.2) = b := by
  induction a generalizing b with
  | nil => cases b with
    | nil => rfl
    | cons y b => simp at h
  | cons x a ih =>
    cases b with
    | nil => simp at h
    | cons y b => simp [ih b (by simpa using h)]

theorem foldl_goStep (rps : Nat) (hr : 0 < rps) : ∀ (cs : List (List Nat)) (c0 : Nat) (acc : List ContainerInfo),
    WellCounted 0 acc → (acc.map (·.nrec)).sum = c0 →
    let r := cs.foldl (goStep rps) (c0, acc)
    WellCounted 0 r.2 ∧ (r.2.map (·.nrec)).sum = c0 + (cs.map List.length).sum ∧ r.1 = c0 + (cs.map List.length).sum ∧
      (r.2.map (·.bases)).sum = (acc.map (·.bases)).sum + (cs.map List.sum).sum := by
  intro cs
  induction cs with
  | nil => intro c0 acc h1 h2; simp [h1, h2]
  | cons recs cs ih =>
    intro c0 acc h1 h2
    simp only [List.foldl_cons]
    have hsl : ((chunks rps recs.length recs).map List.length).sum = recs.length := by
      rw [sum_map_length_flatten, chunks_flatten rps hr _ _ (Nat.le_refl _)]
    have hnew : WellCounted 0 (acc ++ [⟨c0, recs.length, recs.sum,
        (sliceCounters c0 ((chunks rps recs.length recs).map List.length)).zip ((chunks rps recs.length recs).map List.length)⟩]) := by
      refine WellCounted.append _ _ 0 h1 ?_
      simp only [Nat.zero_add, h2]
      refine ⟨rfl, ?_, ?_, trivial⟩
      · simp only []
        rw [zip_map_snd _ _ (sliceCounters_length _ _), hsl]
      · simp only []
        rw [zip_map_fst _ _ (sliceCounters_length _ _), zip_map_snd _ _ (sliceCounters_length _ _)]
    have := ih (c0 + recs.length) _ hnew (by simp [h2])
    simp only [goStep] at this ⊢
    obtain ⟨a, b, c, d⟩ := this
    refine ⟨a, ?_, ?_, ?_⟩
    · rw [b]; simp; omega
    · rw [c]; simp; omega
    · rw [d]; simp; omega

/-! ### the EOF container -/

theorem crcBytes_length (x : List Nat) : (crcBytes x).length = 4 := rfl

end Noodles.Cram.Container
