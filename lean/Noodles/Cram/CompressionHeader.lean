import Noodles.Cram.RecordCodec
/-!
# The CRAM compression header: preservation map, data series encodings, tag encodings

Transcribed from noodles-cram

* reader — `io/reader/container/compression_header.rs::read_compression_header_inner`,
  `…/preservation_map.rs` (+ `substitution_matrix.rs::decode`, `tag_sets.rs`),
  `…/data_series_encodings.rs`, `…/tag_encodings.rs`, `io/reader/collections.rs::read_map`;
* writer — `io/writer/container/compression_header.rs::write_compression_header`,
  `…/preservation_map.rs::encode_inner` (+ `substitution_matrix.rs::encode`, `tag_sets.rs::encode`),
  `…/data_series_encodings.rs` (`data_series_encodings_len`, `write_encodings`),
  `…/tag_encodings.rs::encode_inner`, `io/writer/collections.rs::write_array`.

`TagEncodings` is a `HashMap`: the reader's map is modelled as the list of entries in file order
(a later entry for the same id wins a lookup), the writer takes the entries in the order the hash map
yields them — any order.
-/
namespace Noodles.Cram.Enc
open Noodles.Cram (Base)
open Noodles.Cram.Num (writeItf8)

/-- `SubstitutionMatrix`: for reference base A, C, G, T, N the read base of codes 0..3 -/
abbrev SMatrix := List (List Base)

/-- `READ_BASES` = `SubstitutionMatrix::default()` -/
def readBases : SMatrix :=
  [[.C, .G, .T, .N], [.A, .G, .T, .N], [.A, .C, .T, .N], [.A, .C, .G, .N], [.A, .C, .G, .T]]

structure CHdr where
  rn : Bool := true
  ap : Bool := true
  rr : Bool := true
  sm : SMatrix := readBases
  td : List (List Key) := []
  dse : DSE := {}
  te : List (Int × ByteArrayEnc) := []
  deriving DecidableEq, Repr

/-- `HashMap::get` after the reader's inserts: the last entry for the id -/
def lookupTag (te : List (Int × ByteArrayEnc)) (id : Int) : Option ByteArrayEnc :=
  (te.reverse.find? (·.1 == id)).map (·.2)

/-- the part of the header the record codec uses -/
def CHdr.toCH (h : CHdr) : CH :=
  { recordsHaveNames := h.rn, apDelta := h.ap, tagSets := h.td, dse := h.dse, tagEnc := lookupTag h.te }

/-! ## reader -/

/-- `read_map`: an array, whose first item is the ITF8 number of entries -/
def readMap (src : List Nat) : Res (List Nat × Nat × List Nat) :=
  match readArray src with
  | .error e => .error e
  | .ok (buf, rest) =>
    match readItf8Nat buf with
    | .error e => .error e
    | .ok (n, buf) => .ok (buf, n, rest)

/-- `read_bool` -/
def readBool : List Nat → Res (Bool × List Nat)
  | [] => .error .eof
  | 0 :: r => .ok (false, r)
  | 1 :: r => .ok (true, r)
  | _ :: _ => .error .invalidData

/-- one row of `substitution_matrix::decode`: start from the default row, then place the four read
bases at the positions the code byte names (two bits each, most significant pair first) -/
def decodeRow (dflt : List Base) (codes : Nat) : List Base :=
  let r := dflt.set (codes / 64 % 4) (dflt.getD 0 .N)
  let r := r.set (codes / 16 % 4) (dflt.getD 1 .N)
  let r := r.set (codes / 4 % 4) (dflt.getD 2 .N)
  r.set (codes % 4) (dflt.getD 3 .N)

/-- `read_substitution_matrix`: five bytes -/
def readSMatrix (src : List Nat) : Res (SMatrix × List Nat) :=
  if 5 ≤ src.length then .ok (List.zipWith decodeRow readBases (src.take 5), src.drop 5) else .error .eof

/-- `decode_type` -/
def validType (t : Nat) : Bool :=
  t = 65 || t = 99 || t = 67 || t = 115 || t = 83 || t = 105 || t = 73 || t = 102 || t = 90 || t = 72 || t = 66

/-- `buf.chunks_exact(3)` → keys; a trailing partial chunk is ignored -/
def readKeys : List Nat → Res (List Key)
  | t0 :: t1 :: ty :: rest =>
    if validType ty then
      match readKeys rest with
      | .error e => .error e
      | .ok ks => .ok (⟨t0, t1, ty⟩ :: ks)
    else .error .invalidData
  | _ => .ok []

/-- the `while let Some(i) = src.iter().position(|&b| b == NUL)` loop of `read_tag_sets_inner`; bytes
after the last NUL are ignored. `fuel` bounds the number of NULs. -/
def readTagSetsGo : Nat → List Nat → Res (List (List Key))
  | 0, _ => .ok []
  | f + 1, src =>
    match splitStop 0 src with
    | none => .ok []
    | some (line, rest) =>
      match readKeys line with
      | .error e => .error e
      | .ok ks =>
        match readTagSetsGo f rest with
        | .error e => .error e
        | .ok sets => .ok (ks :: sets)

/-- `read_tag_sets` -/
def readTagSets (src : List Nat) : Res (List (List Key) × List Nat) :=
  match readArray src with
  | .error e => .error e
  | .ok (buf, rest) =>
    match readTagSetsGo (buf.length + 1) buf with
    | .error e => .error e
    | .ok sets => .ok (sets, rest)

structure PMapAcc where
  rn : Bool := true
  ap : Bool := true
  rr : Bool := true
  sm : Option SMatrix := none
  td : Option (List (List Key)) := none

/-- the `for _ in 0..len` loop of `read_preservation_map_inner` -/
def readPMapGo : Nat → PMapAcc → List Nat → Res PMapAcc
  | 0, acc, _ => .ok acc
  | n + 1, acc, src =>
    match src with
    | k0 :: k1 :: src =>
      if k0 = 82 ∧ k1 = 78 then
        match readBool src with
        | .error e => .error e
        | .ok (b, src) => readPMapGo n { acc with rn := b } src
      else if k0 = 65 ∧ k1 = 80 then
        match readBool src with
        | .error e => .error e
        | .ok (b, src) => readPMapGo n { acc with ap := b } src
      else if k0 = 82 ∧ k1 = 82 then
        match readBool src with
        | .error e => .error e
        | .ok (b, src) => readPMapGo n { acc with rr := b } src
      else if k0 = 83 ∧ k1 = 77 then
        match readSMatrix src with
        | .error e => .error e
        | .ok (m, src) => readPMapGo n { acc with sm := some m } src
      else if k0 = 84 ∧ k1 = 68 then
        match readTagSets src with
        | .error e => .error e
        | .ok (t, src) => readPMapGo n { acc with td := some t } src
      else .error .invalidData
    | _ => .error .eof

/-- `read_preservation_map`: the map, then "missing substitution matrix" / "missing tag IDs dictionary" -/
def readPMap (src : List Nat) : Res (PMapAcc × List Nat) :=
  match readMap src with
  | .error e => .error e
  | .ok (buf, n, rest) =>
    match readPMapGo n {} buf with
    | .error e => .error e
    | .ok acc => if acc.sm.isNone ∨ acc.td.isNone then .error .invalidData else .ok (acc, rest)

/-- one entry of `read_data_series_encodings_inner`: key, then the encoding of the series' type;
`TC` and `TN` are skipped; an unknown key is `InvalidData` -/
def readSeries (d : DSE) (src : List Nat) : Res (DSE × List Nat) :=
  match src with
  | k0 :: k1 :: src =>
    let int (f : IntEnc → DSE) : Res (DSE × List Nat) :=
      match IntEnc.read src with
      | .error e => .error e
      | .ok (e, r) => .ok (f e, r)
    let byte (f : ByteEnc → DSE) : Res (DSE × List Nat) :=
      match ByteEnc.read src with
      | .error e => .error e
      | .ok (e, r) => .ok (f e, r)
    let bytes (f : ByteArrayEnc → DSE) : Res (DSE × List Nat) :=
      match ByteArrayEnc.read src with
      | .error e => .error e
      | .ok (e, r) => .ok (f e, r)
    if k0 = 66 ∧ k1 = 70 then int fun e => { d with bf := some e }
    else if k0 = 67 ∧ k1 = 70 then int fun e => { d with cf := some e }
    else if k0 = 82 ∧ k1 = 73 then int fun e => { d with ri := some e }
    else if k0 = 82 ∧ k1 = 76 then int fun e => { d with rl := some e }
    else if k0 = 65 ∧ k1 = 80 then int fun e => { d with ap := some e }
    else if k0 = 82 ∧ k1 = 71 then int fun e => { d with rg := some e }
    else if k0 = 82 ∧ k1 = 78 then bytes fun e => { d with rn := some e }
    else if k0 = 77 ∧ k1 = 70 then int fun e => { d with mf := some e }
    else if k0 = 78 ∧ k1 = 83 then int fun e => { d with ns := some e }
    else if k0 = 78 ∧ k1 = 80 then int fun e => { d with np := some e }
    else if k0 = 84 ∧ k1 = 83 then int fun e => { d with ts := some e }
    else if k0 = 78 ∧ k1 = 70 then int fun e => { d with nf := some e }
    else if k0 = 84 ∧ k1 = 76 then int fun e => { d with tl := some e }
    else if k0 = 70 ∧ k1 = 78 then int fun e => { d with fn := some e }
    else if k0 = 70 ∧ k1 = 67 then byte fun e => { d with fc := some e }
    else if k0 = 70 ∧ k1 = 80 then int fun e => { d with fp := some e }
    else if k0 = 68 ∧ k1 = 76 then int fun e => { d with dl := some e }
    else if k0 = 66 ∧ k1 = 66 then bytes fun e => { d with bb := some e }
    else if k0 = 81 ∧ k1 = 81 then bytes fun e => { d with qq := some e }
    else if k0 = 66 ∧ k1 = 83 then byte fun e => { d with bs := some e }
    else if k0 = 73 ∧ k1 = 78 then bytes fun e => { d with in_ := some e }
    else if k0 = 82 ∧ k1 = 83 then int fun e => { d with rs := some e }
    else if k0 = 80 ∧ k1 = 68 then int fun e => { d with pd := some e }
    else if k0 = 72 ∧ k1 = 67 then int fun e => { d with hc := some e }
    else if k0 = 83 ∧ k1 = 67 then bytes fun e => { d with sc := some e }
    else if k0 = 77 ∧ k1 = 81 then int fun e => { d with mq := some e }
    else if k0 = 66 ∧ k1 = 65 then byte fun e => { d with ba := some e }
    else if k0 = 81 ∧ k1 = 83 then byte fun e => { d with qs := some e }
    else if (k0 = 84 ∧ k1 = 67) ∨ (k0 = 84 ∧ k1 = 78) then
      match consumeAnyEncoding src with
      | .error e => .error e
      | .ok r => .ok (d, r)
    else .error .invalidData
  | _ => .error .eof

def readDSEGo : Nat → DSE → List Nat → Res DSE
  | 0, d, _ => .ok d
  | n + 1, d, src =>
    match readSeries d src with
    | .error e => .error e
    | .ok (d, src) => readDSEGo n d src

/-- `read_data_series_encodings` -/
def readDSE (src : List Nat) : Res (DSE × List Nat) :=
  match readMap src with
  | .error e => .error e
  | .ok (buf, n, rest) =>
    match readDSEGo n {} buf with
    | .error e => .error e
    | .ok d => .ok (d, rest)

def readTagEncGo : Nat → List Nat → Res (List (Int × ByteArrayEnc))
  | 0, _ => .ok []
  | n + 1, src =>
    match readItf8' src with
    | .error e => .error e
    | .ok (id, src) =>
      match ByteArrayEnc.read src with
      | .error e => .error e
      | .ok (e, src) =>
        match readTagEncGo n src with
        | .error e => .error e
        | .ok l => .ok ((id, e) :: l)

/-- `read_tag_encodings` -/
def readTagEnc (src : List Nat) : Res (List (Int × ByteArrayEnc) × List Nat) :=
  match readMap src with
  | .error e => .error e
  | .ok (buf, n, rest) =>
    match readTagEncGo n buf with
    | .error e => .error e
    | .ok l => .ok (l, rest)

/-- `read_compression_header_inner` -/
def readCHdr (src : List Nat) : Res (CHdr × List Nat) :=
  match readPMap src with
  | .error e => .error e
  | .ok (pm, src) =>
    match readDSE src with
    | .error e => .error e
    | .ok (dse, src) =>
      match readTagEnc src with
      | .error e => .error e
      | .ok (te, src) =>
        .ok ({ rn := pm.rn, ap := pm.ap, rr := pm.rr, sm := pm.sm.getD readBases, td := pm.td.getD [], dse := dse, te := te }, src)

/-! ## writer -/

/-- `write_array` -/
def writeArray (buf : List Nat) : Res (List Nat) :=
  if buf.length < 2 ^ 31 then .ok (writeItf8 buf.length ++ buf) else .error .invalidInput

def Base.ord : Base → Nat
  | .A => 0 | .C => 1 | .G => 2 | .T => 3 | .N => 4

/-- one row of `substitution_matrix::encode`: the indices of the row's bases, sorted (stably) by base,
packed two bits each, first index in the most significant pair -/
def encodeRow (row : List Base) : Nat :=
  let idx := isort (fun (a b : Nat × Base) => decide (Base.ord a.2 ≤ Base.ord b.2)) ((List.range row.length).zip row)
  idx.foldl (fun codes p => codes * 4 % 256 + p.1) 0

/-- `tag_sets::encode` -/
def encodeTagSets (sets : List (List Key)) : List Nat :=
  (sets.map fun keys => (keys.map fun k => [k.t0, k.t1, k.ty]).flatten ++ [0]).flatten

/-- `write_preservation_map`: always five entries, in this order -/
def writePMap (h : CHdr) : Res (List Nat) :=
  match writeArray (encodeTagSets h.td) with
  | .error e => .error e
  | .ok td =>
    let b (x : Bool) : Nat := if x then 1 else 0
    writeArray (writeItf8 5 ++ [82, 78, b h.rn] ++ [65, 80, b h.ap] ++ [82, 82, b h.rr] ++
      ([83, 77] ++ h.sm.map encodeRow) ++ ([84, 68] ++ td))

def optW {α : Type} (k0 k1 : Nat) (w : α → Res (List Nat)) : Option α → Res (List Nat)
  | none => .ok []
  | some e =>
    match w e with
    | .error e => .error e
    | .ok bs => .ok (k0 :: k1 :: bs)

def catRes : List (Res (List Nat)) → Res (List Nat)
  | [] => .ok []
  | x :: xs =>
    match x with
    | .error e => .error e
    | .ok a =>
      match catRes xs with
      | .error e => .error e
      | .ok b => .ok (a ++ b)

/-- `write_encodings`: the present series, in the order of the struct -/
def DSE.entries (d : DSE) : List (Res (List Nat)) :=
  [ optW 66 70 IntEnc.write d.bf, optW 67 70 IntEnc.write d.cf, optW 82 73 IntEnc.write d.ri,
    optW 82 76 IntEnc.write d.rl, optW 65 80 IntEnc.write d.ap, optW 82 71 IntEnc.write d.rg,
    optW 82 78 ByteArrayEnc.write d.rn, optW 77 70 IntEnc.write d.mf, optW 78 83 IntEnc.write d.ns,
    optW 78 80 IntEnc.write d.np, optW 84 83 IntEnc.write d.ts, optW 78 70 IntEnc.write d.nf,
    optW 84 76 IntEnc.write d.tl, optW 70 78 IntEnc.write d.fn, optW 70 67 ByteEnc.write d.fc,
    optW 70 80 IntEnc.write d.fp, optW 68 76 IntEnc.write d.dl, optW 66 66 ByteArrayEnc.write d.bb,
    optW 81 81 ByteArrayEnc.write d.qq, optW 66 83 ByteEnc.write d.bs, optW 73 78 ByteArrayEnc.write d.in_,
    optW 82 83 IntEnc.write d.rs, optW 80 68 IntEnc.write d.pd, optW 72 67 IntEnc.write d.hc,
    optW 83 67 ByteArrayEnc.write d.sc, optW 77 81 IntEnc.write d.mq, optW 66 65 ByteEnc.write d.ba,
    optW 81 83 ByteEnc.write d.qs ]

/-- `data_series_encodings_len` -/
def DSE.count (d : DSE) : Nat :=
  [d.bf.isSome, d.cf.isSome, d.ri.isSome, d.rl.isSome, d.ap.isSome, d.rg.isSome, d.rn.isSome, d.mf.isSome,
   d.ns.isSome, d.np.isSome, d.ts.isSome, d.nf.isSome, d.tl.isSome, d.fn.isSome, d.fc.isSome, d.fp.isSome,
   d.dl.isSome, d.bb.isSome, d.qq.isSome, d.bs.isSome, d.in_.isSome, d.rs.isSome, d.pd.isSome, d.hc.isSome,
   d.sc.isSome, d.mq.isSome, d.ba.isSome, d.qs.isSome].count true

/-- `write_data_series_encodings` -/
def writeDSE (d : DSE) : Res (List Nat) :=
  match catRes d.entries with
  | .error e => .error e
  | .ok body => writeArray (writeItf8 d.count ++ body)

/-- `write_tag_encodings` over the entries in the order given -/
def writeTagEnc (te : List (Int × ByteArrayEnc)) : Res (List Nat) :=
  if ¬ te.length < 2 ^ 31 then .error .invalidInput else
  match catRes (te.map fun p => match p.2.write with
      | .error e => .error e
      | .ok bs => .ok (writeItf8 p.1 ++ bs)) with
  | .error e => .error e
  | .ok body => writeArray (writeItf8 te.length ++ body)

/-- `write_compression_header` -/
def writeCHdr (h : CHdr) : Res (List Nat) :=
  match writePMap h with
  | .error e => .error e
  | .ok a =>
    match writeDSE h.dse with
    | .error e => .error e
    | .ok b =>
      match writeTagEnc h.te with
      | .error e => .error e
      | .ok c => .ok (a ++ b ++ c)

/-- `DataSeriesEncodings::init()`: every series External in the block of its own number, except the
byte arrays: names, `BB`, `IN`, `SC` stop at a NUL; `QQ` is length-prefixed inside block 19 -/
def DSE.init : DSE :=
  { bf := some (.external 1), cf := some (.external 2), ri := some (.external 3), rl := some (.external 4),
    ap := some (.external 5), rg := some (.external 6), rn := some (.stop 0 7), mf := some (.external 8),
    ns := some (.external 9), np := some (.external 10), ts := some (.external 11), nf := some (.external 12),
    tl := some (.external 13), fn := some (.external 14), fc := some (.external 15), fp := some (.external 16),
    dl := some (.external 17), bb := some (.stop 0 18), qq := some (.len (.external 19) (.external 19)),
    bs := some (.external 20), in_ := some (.stop 0 21), rs := some (.external 22), pd := some (.external 23),
    hc := some (.external 24), sc := some (.stop 0 25), mq := some (.external 26), ba := some (.external 27),
    qs := some (.external 28) }

end Noodles.Cram.Enc
