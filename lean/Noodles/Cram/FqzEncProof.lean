import Noodles.Cram.Fqz
import Noodles.Cram.AacCodecProof
import Noodles.Cram.AacTotalProof
/-!
Helper lemmas for `Noodles/Props/C08Fqz.lean`: the encoder's main loop as a list of (model index,
symbol) EVENTS — `encLoop` codes exactly the events `encEvents` lists, in order, with
`Aac.encSyms` (so that the symbol-sync lemmas of the arithmetic coder apply).
-/
namespace Noodles.Cram.Fqz
open Noodles.Cram.Aac

/-! ## `Array` models against `List` models -/

theorem encAt_eq (ms : Array Model) (e : Enc) (c s : Nat) :
    encAt ms e c s = (encSyms ms.toList e [(c, s)]).map fun r => (r.1.toArray, r.2) := by
  unfold encAt
  simp only [encSyms, Array.getElem?_toList]
  cases ms[c]? with
  | none => rfl
  | some m =>
    simp only
    cases m.encode e s with
    | none => rfl
    | some r => simp [← Array.toList_setIfInBounds]

theorem encSyms_append (a : List (Nat × Nat)) : ∀ (ms : List Model) (e : Enc) (b : List (Nat × Nat)),
    encSyms ms e (a ++ b) = match encSyms ms e a with
      | none => none
      | some (ms', e') => encSyms ms' e' b := by
  induction a with
  | nil => intro ms e b; rfl
  | cons ev a ih =>
    intro ms e b
    obtain ⟨c, s⟩ := ev
    simp only [List.cons_append, encSyms]
    cases ms[c]? with
    | none => rfl
    | some m =>
      simp only
      cases m.encode e s with
      | none => rfl
      | some r => simp only [ih]

/-- one event, then the rest -/
theorem encSyms_cons (ms : Array Model) (e : Enc) (c s : Nat) (evs : List (Nat × Nat)) :
    encSyms ms.toList e ((c, s) :: evs) = match encAt ms e c s with
      | none => none
      | some (ms', e') => encSyms ms'.toList e' evs := by
  have := encSyms_append [(c, s)] ms.toList e evs
  simp only [List.singleton_append] at this
  rw [this, encAt_eq]
  cases encSyms ms.toList e [(c, s)] with
  | none => rfl
  | some r => rfl

/-! ## the events -/

/-- the events of `encode_length` -/
def lenEvents (len : Nat) : List (Nat × Nat) :=
  [(LEN, len % 256), (LEN + 1, len / 256 % 256), (LEN + 2, len / 65536 % 256), (LEN + 3, len / 16777216 % 256)]

/-- `encNewRecord` without the models: (the events, the loop variables) -/
def encNewRecordEv (P : EParams) (st : ESt) : Except EncErr (List (Nat × Nat) × ESt) :=
  if bit P.gflags 1 then .error .todo
  else
    match P.stab[0]? with
    | none => .error .trap
    | some x =>
      match P.params[x]? with
      | none => .error .trap
      | some param =>
        match st.lensRest with
        | [] => .error .trap
        | len :: rest =>
          match (if !bit param.flags 2 || st.recNum == 0 then
              (if ¬ len < 2 ^ 32 then .error .invalidInput else .ok (lenEvents len))
            else .ok [] : Except EncErr (List (Nat × Nat))) with
          | .error err => .error err
          | .ok evs =>
            if bit param.flags 1 then .error .todo
            else .ok (evs, ⟨len, st.recNum + 1, rest, x, param.context, 0⟩)

/-- `encLoop` without the models: the events it codes -/
def encEvents (P : EParams) : ESt → List Nat → Except EncErr (List (Nat × Nat))
  | _, [] => .ok []
  | st, q :: src =>
    match (if st.p = 0 then encNewRecordEv P st else .ok ([], st)) with
    | .error err => .error err
    | .ok (ev0, st) =>
      if st.x ≠ 0 then .error .trap
      else
        match P.params[st.x]? with
        | none => .error .trap
        | some param =>
          match encUpdate param st.p st.qlast q with
          | .error err => .error err
          | .ok (last, qlast) =>
            if st.p = 0 then .error .trap
            else
              match encEvents P { st with p := st.p - 1, last := last, qlast := qlast } src with
              | .error err => .error err
              | .ok evs => .ok (ev0 ++ (st.last % 65536, q) :: evs)

/-- what `encLoop` answers when the events exist: the only failure left is a model index / symbol
that `Model::encode` does not find -/
def codeEvents (ms : Array Model) (e : Enc) (evs : List (Nat × Nat)) : Except EncErr (Array Model × Enc) :=
  match encSyms ms.toList e evs with
  | none => .error .trap
  | some (l, e') => .ok (l.toArray, e')

theorem codeEvents_nil (ms : Array Model) (e : Enc) : codeEvents ms e [] = .ok (ms, e) := by
  simp [codeEvents, encSyms]

theorem codeEvents_cons (ms : Array Model) (e : Enc) (c s : Nat) (evs : List (Nat × Nat)) :
    codeEvents ms e ((c, s) :: evs) = match encAt ms e c s with
      | none => .error .trap
      | some (ms', e') => codeEvents ms' e' evs := by
  unfold codeEvents
  rw [encSyms_cons]
  cases encAt ms e c s with
  | none => rfl
  | some r => rfl

theorem codeEvents_append (a b : List (Nat × Nat)) : ∀ (ms : Array Model) (e : Enc),
    codeEvents ms e (a ++ b) = match codeEvents ms e a with
      | .error err => .error err
      | .ok (ms', e') => codeEvents ms' e' b := by
  induction a with
  | nil => intro ms e; rw [List.nil_append, codeEvents_nil]
  | cons ev a ih =>
    intro ms e
    obtain ⟨c, s⟩ := ev
    rw [List.cons_append, codeEvents_cons, codeEvents_cons]
    cases encAt ms e c s with
    | none => rfl
    | some r => exact ih r.1 r.2

theorem encodeLength_eq (ms : Array Model) (e : Enc) (len : Nat) (h : len < 2 ^ 32) :
    encodeLength ms e len = codeEvents ms e (lenEvents len) := by
  unfold encodeLength lenEvents
  simp only [h, not_true_eq_false, if_false]
  rw [codeEvents_cons]
  cases encAt ms e LEN (len % 256) with
  | none => rfl
  | some r0 =>
    simp only
    rw [codeEvents_cons]
    cases encAt r0.1 r0.2 (LEN + 1) (len / 256 % 256) with
    | none => rfl
    | some r1 =>
      simp only
      rw [codeEvents_cons]
      cases encAt r1.1 r1.2 (LEN + 2) (len / 65536 % 256) with
      | none => rfl
      | some r2 =>
        simp only
        rw [codeEvents_cons]
        cases encAt r2.1 r2.2 (LEN + 3) (len / 16777216 % 256) with
        | none => rfl
        | some r3 => simp only [codeEvents_nil]

theorem encNewRecord_eq (P : EParams) (ms : Array Model) (e : Enc) (st st1 : ESt)
    (ev0 : List (Nat × Nat)) (h : encNewRecordEv P st = .ok (ev0, st1)) :
    encNewRecord P ms e st = match codeEvents ms e ev0 with
      | .error err => .error err
      | .ok (ms', e') => .ok (ms', e', st1) := by
  unfold encNewRecordEv at h
  unfold encNewRecord
  split at h
  · simp at h
  · next hg =>
    simp only [hg]
    split at h
    · simp at h
    · next x hx =>
      simp only [hx]
      split at h
      · simp at h
      · next param hp =>
        simp only [hp]
        split at h
        · simp at h
        · next len rest hl =>
          simp only [hl]
          by_cases hc : (!bit param.flags 2 || st.recNum == 0) = true
          · simp only [hc, if_true] at h ⊢
            by_cases hlen : len < 2 ^ 32
            · simp only [hlen, not_true_eq_false, if_false] at h
              split at h
              · simp at h
              · next hd =>
                simp only [Except.ok.injEq, Prod.mk.injEq] at h
                obtain ⟨rfl, rfl⟩ := h
                rw [encodeLength_eq ms e len hlen]
                cases codeEvents ms e (lenEvents len) with
                | error err => rfl
                | ok r => simp only [hd, Bool.false_eq_true, if_false]
            · simp [hlen] at h
          · rw [if_neg hc] at h
            rw [if_neg hc]
            by_cases hd : bit param.flags 1 = true
            · simp [hd] at h
            · simp only [hd] at h
              obtain ⟨rfl, rfl⟩ := h
              simp only [codeEvents_nil, hd, Bool.false_eq_true, if_false]

/-- **`encLoop` codes `encEvents`.** -/
theorem encLoop_eq (P : EParams) (src : List Nat) : ∀ (ms : Array Model) (e : Enc) (st : ESt)
    (evs : List (Nat × Nat)), encEvents P st src = .ok evs → encLoop P ms e st src = codeEvents ms e evs := by
  induction src with
  | nil =>
    intro ms e st evs h
    simp only [encEvents, Except.ok.injEq] at h
    subst h
    rw [codeEvents_nil]; rfl
  | cons q src ih =>
    intro ms e st evs h
    unfold encEvents at h
    unfold encLoop
    by_cases hp : st.p = 0
    · simp only [hp, if_true] at h ⊢
      split at h
      · simp at h
      · next ev0 st1 hnr =>
        rw [encNewRecord_eq P ms e st st1 ev0 hnr]
        split at h
        · simp at h
        · next hx =>
          split at h
          · simp at h
          · next param hpar =>
            split at h
            · simp at h
            · next last qlast hup =>
              split at h
              · simp at h
              · next hp1 =>
                split at h
                · simp at h
                · next evs' hrec =>
                  simp only [Except.ok.injEq] at h
                  subst h
                  rw [codeEvents_append]
                  cases codeEvents ms e ev0 with
                  | error err => rfl
                  | ok r =>
                    simp only [hx, if_false]
                    rw [codeEvents_cons]
                    cases encAt r.1 r.2 (st1.last % 65536) q with
                    | none => rfl
                    | some r' =>
                      simp only [hpar, hup, hp1, if_false]
                      exact ih r'.1 r'.2 _ evs' hrec
    · simp only [hp, if_false] at h ⊢
      split at h
      · simp at h
      · next hx =>
        split at h
        · simp at h
        · next param hpar =>
          split at h
          · simp at h
          · next last qlast hup =>
            split at h
            · simp at h
            · next evs' hrec =>
              simp only [Except.ok.injEq] at h
              subst h
              simp only [hx, if_false, List.nil_append]
              rw [codeEvents_cons]
              cases encAt ms e (st.last % 65536) q with
              | none => rfl
              | some r' =>
                simp only [hpar, hup]
                exact ih r'.1 r'.2 _ evs' hrec

end Noodles.Cram.Fqz
