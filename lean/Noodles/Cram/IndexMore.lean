import Noodles.Cram.Features
import Noodles.Cram.IndexModel
/-!
# Record spans from CRAM features, alignment starts as deltas, `query_unmapped` (model, C19 extension)

Transcribed from `noodles-cram`:

* `record.rs` — `calculate_alignment_span` (the same function is in `io/writer/record.rs`),
  `Record::alignment_end`; `record/cigar.rs` (`Cigar::iter`: empty for an unmapped record, else
  `TrySimplify` over `record/cigar/iter.rs`, which is `Noodles.Cram.rebuildCigar` of the C07 model);
  `noodles-sam/src/alignment/record_buf.rs` (`alignment_span`, `alignment_end`) and
  `record_buf/cigar.rs` (`alignment_span`) — what a full scan and the filter of `query.rs` see;
* `io/writer/container/slice/records.rs::write_alignment_start` and
  `io/reader/container/slice/records.rs::read_alignment_start` with the `prev_alignment_start`
  register of `Writer::new`/`write_record` and `Records::new`/`read_record` (the AP data series);
* `io/reader.rs::query_unmapped` (`async/io/reader.rs::query_unmapped` is the same text) over
  `io/reader/records.rs` (`Records`: container after container until the EOF container).

The model describes the code **with two repairs** (fix diffs delivered with this extension):

* `record-alignment-end` — `cram::Record::alignment_end` (what the multi-reference path of
  `fs::index` folds into the CRAI span) follows the rule the writer's record already follows since
  `39a16eb` and `RecordBuf::alignment_end` always followed: an unmapped read placed at its mate's
  position, and a mapped read that covers no reference base, occupy the position they are placed at.
  The unrepaired function returns `start + read_length - 1` for the former and `start - 1` (`None` at
  position 1, then `todo!()` in `fs::index`) for the latter: `CRec.aendUnrepaired` below.
* `query-unmapped-no-unplaced` — with no unmapped entry in the index `query_unmapped` returns nothing.
  The unrepaired function seeks to `SeekFrom::End(0)`, behind the EOF container, and its first item
  is an `UnexpectedEof` error.

Kept as it is (a documented convention, the same in `noodles-bam`): `query_unmapped` filters by the
UNMAPPED FLAG, so an unmapped read placed at its mate's position is returned when it lies in or
after the first container that holds an unplaced record.

`usize` subtraction panics on underflow in builds with overflow checks; here it truncates, and
`spanSafe` says whether any step of the fold would underflow (never, for well-formed features).
-/
namespace Noodles.Cram.Index
open Noodles.Cram

/-! ## 1. the span of a record, from its features -/

/-- one step of the fold of `calculate_alignment_span` -/
def spanStep (acc : Nat) : Feature → Nat
  | .insertion _ bs => acc - bs.length
  | .insertBase _ _ => acc - 1
  | .deletion _ n => acc + n
  | .refSkip _ n => acc + n
  | .softClip _ bs => acc - bs.length
  | _ => acc

/-- what the step subtracts (the `usize` subtraction underflows when this exceeds the accumulator) -/
def spanNeed : Feature → Nat
  | .insertion _ bs => bs.length
  | .insertBase _ _ => 1
  | .softClip _ bs => bs.length
  | _ => 0

/-- `features.iter().fold(read_length, …)` -/
def featSpanGo : Nat → List Feature → Nat
  | acc, [] => acc
  | acc, f :: fs => featSpanGo (spanStep acc f) fs

/-- `calculate_alignment_span(read_length, features)` -/
def featSpan (readLength : Nat) (fs : List Feature) : Nat := featSpanGo readLength fs

/-- no step of the fold underflows -/
def spanSafeGo : Nat → List Feature → Bool
  | _, [] => true
  | acc, f :: fs => decide (spanNeed f ≤ acc) && spanSafeGo (spanStep acc f) fs

def spanSafe (readLength : Nat) (fs : List Feature) : Bool := spanSafeGo readLength fs

/-- `if feature.position() > self.read_position { self.read_position = feature.position() }`
(with `q = read_position - 1`) -/
def upTo (q pos : Nat) : Nat := if pos > q + 1 then pos - 1 else q

/-- the read position (`read_position - 1`) of the CIGAR iterator of `record/cigar/iter.rs` after
one feature: moved up to the feature (`if feature.position() > self.read_position`), then past the
bases its operation consumes (`consume_read`) -/
def advance (q : Nat) (f : Feature) : Nat :=
  let q1 := upTo q f.pos
  match f.cigarOp with
  | none => q1
  | some op => if op.kind.consumesRead then q1 + op.len else q1

/-- … after all features: the number of read bases the features account for -/
def readEnd : Nat → List Feature → Nat
  | q, [] => q
  | q, f :: fs => readEnd (advance q f) fs

/-- the features do not account for more read bases than the record has -/
def FeatWF (readLength : Nat) (fs : List Feature) : Prop := readEnd 0 fs ≤ readLength

instance (readLength : Nat) (fs : List Feature) : Decidable (FeatWF readLength fs) := by
  unfold FeatWF; infer_instance

/-! ### `validate_features` (`io/reader/container/slice/records.rs`, run by `read_record` on every
mapped record): the features are ordered, do not overlap and lie inside the read -/

/-- `base_count`: the read bases a feature covers (`None` for the quality-only features) -/
def baseCount : Feature → Option Nat
  | .bases _ bs => some bs.length
  | .insertion _ bs => some bs.length
  | .softClip _ bs => some bs.length
  | .readBase _ _ _ => some 1
  | .subst _ _ => some 1
  | .insertBase _ _ => some 1
  | .deletion _ _ => some 0
  | .refSkip _ _ => some 0
  | .padding _ _ => some 0
  | .hardClip _ _ => some 0
  | .scores _ _ => none
  | .qualityScore _ _ => none

/-- `quality_score_count` -/
def scoreCount : Feature → Nat
  | .scores _ qs => qs.length
  | .readBase _ _ _ => 1
  | .qualityScore _ _ => 1
  | _ => 0

/-- the loop of `validate_features` with its two registers (`read_position`,
`quality_score_position`: the first positions not covered so far); `none` = "features overlap".
`saturating_add` is plain addition here (positions are far below `usize::MAX`). A feature position
`0` cannot be built (`Position::try_from` fails in `read_feature`, the same `InvalidData`); here it
falls under `f.pos < rp`, since `rp ≥ 1`. -/
def validateGo : Nat → Nat → List Feature → Option (Nat × Nat)
  | rp, qp, [] => some (rp, qp)
  | rp, qp, f :: fs =>
    let qp' := if scoreCount f > 0 then max qp f.pos + scoreCount f else qp
    match baseCount f with
    | some n => if f.pos < rp then none else validateGo (f.pos + n) qp' fs
    | none => validateGo rp qp' fs

/-- `validate_features(read_length, features).is_ok()` -/
def featuresValid (readLength : Nat) (fs : List Feature) : Bool :=
  match validateGo 1 1 fs with
  | none => false
  | some (rp, qp) => decide (max rp qp - 1 ≤ readLength)

/-- what `read_record` decodes of a record, as far as its placement is concerned -/
structure CRec where
  /-- `bam_flags.is_unmapped()` -/
  unmapped : Bool
  ref : Option Nat
  /-- `alignment_start : Option<Position>`; a `Position` is `≥ 1` -/
  start : Option Nat
  readLength : Nat
  feats : List Feature
deriving DecidableEq, Repr

/-- `Position::new` -/
def posNew (n : Nat) : Option Nat := if n = 0 then none else some n

/-- `Record::alignment_span` (private method of `cram::Record`; also its
`sam::alignment::Record::alignment_span`): the unmapped flag is not looked at -/
def CRec.span (r : CRec) : Nat := featSpan r.readLength r.feats

/-- `cram::Record::alignment_end` AS REPAIRED (and `io::writer::Record::alignment_end` as it is) -/
def CRec.aend (r : CRec) : Option Nat :=
  match r.start with
  | none => none
  | some s =>
    let span := if r.unmapped then 1 else max r.span 1
    posNew (s + span - 1)

/-- `cram::Record::alignment_end` as the code stands: `start + alignment_span() - 1` -/
def CRec.aendUnrepaired (r : CRec) : Option Nat :=
  match r.start with
  | none => none
  | some s => posNew (s + r.span - 1)

/-- `record/cigar.rs`: `Cigar::iter` -/
def CRec.cigar (r : CRec) : Cigar := if r.unmapped then [] else rebuildCigar r.readLength r.feats

/-- `RecordBuf::alignment_span`: `Cigar::alignment_span`, `0 ↦ None` -/
def bufSpan (c : Cigar) : Option Nat :=
  match refLen c with
  | 0 => none
  | n + 1 => some (n + 1)

/-- `RecordBuf::alignment_end` -/
def bufEnd (start : Option Nat) (c : Cigar) : Option Nat :=
  match start with
  | none => none
  | some s =>
    match bufSpan c with
    | some n => posNew (s + n - 1)
    | none => some s

/-- the record as indexing and querying see it (`IndexModel.Rec`), with serial `id` -/
def CRec.place (id : Nat) (r : CRec) : Rec := ⟨id, r.ref, r.start.getD 0, r.aend.getD 0⟩

/-! ## 4. the AP data series -/

inductive ApErr
  | invalidInput
  | invalidData
deriving DecidableEq, Repr

def i32Max : Int := 2147483647
def i32Min : Int := -2147483648

/-- `position_to_i32` under `.map(..).transpose()?.unwrap_or(MISSING)` -/
def posToI32 : Option Nat → Except ApErr Int
  | none => .ok 0
  | some p => if (p : Int) ≤ i32Max then .ok p else .error .invalidInput

/-- `write_alignment_start` for one record; `prev` is the `prev_alignment_start` register -/
def apEncode1 (deltas : Bool) (prev start : Option Nat) : Except ApErr Int :=
  if deltas then
    match posToI32 start with
    | .error e => .error e
    | .ok s =>
      match posToI32 prev with
      | .error e => .error e
      | .ok p => .ok (s - p)
  else posToI32 start

/-- the AP values of a slice: `Writer::new` sets the register from the slice context
(`init` = `Some(context.alignment_start())` for `Some`, `None` otherwise), `write_record` stores the
record's alignment start in it -/
def apEncode (deltas : Bool) : Option Nat → List (Option Nat) → Except ApErr (List Int)
  | _, [] => .ok []
  | prev, s :: rest =>
    match apEncode1 deltas prev s with
    | .error e => .error e
    | .ok v =>
      match apEncode deltas s rest with
      | .error e => .error e
      | .ok vs => .ok (v :: vs)

/-- `read_alignment_start` for one stored `i32` -/
def apDecode1 (deltas : Bool) (prev : Option Nat) (v : Int) : Except ApErr (Option Nat) :=
  let r : Except ApErr Int :=
    if deltas then
      let p : Int := ((prev.getD 0 : Nat) : Int)
      if p > i32Max then .error .invalidData          -- `i32::try_from(prev)`
      else if p + v > i32Max ∨ p + v < i32Min then .error .invalidData   -- `checked_add`
      else .ok (p + v)
    else .ok v
  match r with
  | .error e => .error e
  | .ok a => if a < 0 then .error .invalidData else .ok (posNew a.toNat)   -- `usize::try_from`, `Position::new`

/-- the alignment starts of a slice: `Records::new` / `read_record` keep the same register -/
def apDecode (deltas : Bool) : Option Nat → List Int → Except ApErr (List (Option Nat))
  | _, [] => .ok []
  | prev, v :: rest =>
    match apDecode1 deltas prev v with
    | .error e => .error e
    | .ok s =>
      match apDecode deltas s rest with
      | .error e => .error e
      | .ok ss => .ok (s :: ss)

/-- an alignment start the AP series can carry: absent, or a `Position` that fits an `i32` -/
def PosOK (s : Option Nat) : Prop := ∀ p, s = some p → 1 ≤ p ∧ (p : Int) ≤ i32Max

/-- the initial register of a slice with reference context `c` -/
def Ctx.apInit : Ctx → Option Nat
  | .some _ a _ => Option.some a
  | _ => Option.none

/-- the alignment start the writer stores for a record of the index model -/
def Rec.apStart (r : Rec) : Option Nat :=
  match r.ref with
  | Option.some _ => posNew r.s
  | Option.none => Option.none

/-! ## 3. `query_unmapped` -/

/-- `index.iter().find(|record| record.reference_sequence_id().is_none()).map(|r| r.offset())` -/
def unmappedOffset (idx : List Entry) : Option Nat :=
  (idx.find? fun en => en.ref.isNone).map (·.offset)

/-- `seek(SeekFrom::Start(off))` + `records(header)`: every record of every container from the one
that starts at `off` up to the EOF container, which starts where the last data container ends
(`none`: no container starts at `off`) -/
def recsFrom (pos : Nat) : List ContainerL → Nat → Option (List Rec)
  | [], off => if off = pos then Option.some [] else Option.none
  | c :: cs, off =>
    if off = pos then Option.some ((c :: cs).flatMap (·.recs))
    else recsFrom (pos + c.hdrLen + c.bodyLen) cs off

/-- `Reader::query_unmapped(header, index)` AS REPAIRED, collected; `flag r` is
`record.flags().is_unmapped()` -/
def queryUnmapped (f : FileL) (idx : List Entry) (flag : Rec → Bool) : Option (List Rec) :=
  match unmappedOffset idx with
  | Option.none => Option.some []
  | Option.some off => (recsFrom f.start f.cs off).map (·.filter flag)

/-- `query_unmapped` as the code stands: without an unmapped entry it seeks to `SeekFrom::End(0)`,
behind the EOF container, and the first item of the iterator is an `UnexpectedEof` error (`none`).
Kept for the witness in `Props/C19More.lean`; nothing else uses it. -/
def queryUnmappedUnrepaired (f : FileL) (idx : List Entry) (flag : Rec → Bool) : Option (List Rec) :=
  match unmappedOffset idx with
  | Option.none => Option.none
  | Option.some off => (recsFrom f.start f.cs off).map (·.filter flag)

/-- no slice is empty (`build_container` cuts the records with `chunks_mut`) -/
def FileL.NoEmptySlice (f : FileL) : Prop := ∀ c ∈ f.cs, ∀ s ∈ c.slices, s.recs ≠ []

/-- the containers from the first one that holds an unplaced record on -/
def tailContainers : List ContainerL → List ContainerL
  | [] => []
  | c :: cs => if c.recs.any (fun r => r.ref.isNone) then c :: cs else tailContainers cs

/-- their records: what `query_unmapped` reads through the file's own index -/
def FileL.tailRecs (f : FileL) : List Rec := (tailContainers f.cs).flatMap (·.recs)

/-- the unplaced unmapped records of the file, in file order -/
def FileL.unplacedUnmapped (f : FileL) (flag : Rec → Bool) : List Rec :=
  f.recs.filter fun r => r.ref.isNone && flag r

end Noodles.Cram.Index
